/-
  The CLI's FIRST split (split.c `list_split(",", arg)`, the same `_next_tok` with separator ","),
  followed by `hostlist_create`'s own tokenizer (separators "\t, ") on every piece, yields exactly
  the tokens `hostlist_create` finds in the whole argument — for EVERY text (`split_then_tokens`).
  Both scans cut at separator characters met at bracket level 0 and "," is one of the three
  separators of `hostlist_create`, so the first split can only cut where the second would.
-/
import PdshVerif.Hostlist.LemmasBounds

namespace PdshVerif.Hostlist
open PdshVerif.Gen

/-- a separator set whose members are no brackets, and a subset `C` of it -/
structure SepSub (C H : Str) : Prop where
  sub : ∀ c, isSep C c = true → isSep H c = true
  nbo : isSep H '[' = false
  nbc : isSep H ']' = false

theorem sepSub_comma : SepSub [','] hlSep :=
  ⟨by intro c h; simp only [isSep, hlSep, List.contains_cons, List.contains_nil, Bool.or_false] at h ⊢
      simp only [beq_iff_eq] at h; subst h; decide,
   by decide, by decide⟩

/-! ### `tokens` and leading separators -/
theorem nextTok_dropSep (sep : Str) (c : Char) (cs : Str) (h : isSep sep c = true) :
    nextTok sep (c :: cs) = nextTok sep cs := by
  unfold nextTok
  rw [List.dropWhile_cons_of_pos h]

theorem tokens_dropSep (sep : Str) (c : Char) (cs : Str) (h : isSep sep c = true) :
    tokens sep (c :: cs) = tokens sep cs := by
  rw [tokens_unfold sep (c :: cs), tokens_unfold sep cs, nextTok_dropSep sep c cs h]

theorem tokens_dropWhile (sep : Str) : ∀ (s : Str), tokens sep (s.dropWhile (isSep sep)) = tokens sep s
  | [] => rfl
  | c :: cs => by
    by_cases h : isSep sep c = true
    · rw [List.dropWhile_cons_of_pos h, tokens_dropSep sep c cs h]; exact tokens_dropWhile sep cs
    · rw [List.dropWhile_cons_of_neg h]

theorem tokens_nil (sep : Str) : tokens sep [] = [] := by
  rw [tokens_unfold]; rfl

/-- `nextTok` in terms of the scan, for a text that starts with a non-separator -/
theorem nextTok_cons (sep : Str) (c : Char) (cs : Str) (h : isSep sep c = false) :
    nextTok sep (c :: cs) =
      some ((scanTok sep 0 (c :: cs)).1, (scanTok sep 0 (c :: cs)).2.dropWhile (isSep sep)) := by
  unfold nextTok
  have : ¬ isSep sep c = true := by simp [h]
  rw [List.dropWhile_cons_of_neg this]

/-! ### the two scans side by side -/
/-- scanning the same text from the same level with the smaller separator set `C` and with `H`:
    the `H` token is a prefix of the `C` token; where `H` stopped early (`m ≠ []`) the level is 0
    and the `C` scan simply goes on -/
theorem scan_joint {C H : Str} (hs : SepSub C H) : ∀ (x : Str) (lvl : Int),
    ∃ m, (scanTok C lvl x).1 = (scanTok H lvl x).1 ++ m ∧
         (scanTok H lvl x).2 = m ++ (scanTok C lvl x).2 ∧
         scanTok H lvl ((scanTok H lvl x).1 ++ m) = ((scanTok H lvl x).1, m) ∧
         (m = [] ∨ scanTok C 0 (m ++ (scanTok C lvl x).2) = (m, (scanTok C lvl x).2))
  | [], lvl => ⟨[], by simp [scanTok]⟩
  | c :: cs, lvl => by
    by_cases ha : (lvl ≠ 0 || !isSep H c) = true
    · -- both scans take `c`
      have hc : (lvl ≠ 0 || !isSep C c) = true := by
        simp only [Bool.or_eq_true, decide_eq_true_eq, Bool.not_eq_true'] at ha ⊢
        rcases ha with h | h
        · exact Or.inl h
        · right
          cases hcc : isSep C c with
          | false => rfl
          | true => rw [hs.sub c hcc] at h; cases h
      obtain ⟨m, h1, h2, h3, h4⟩ :=
        scan_joint hs cs (if c = '[' then lvl + 1 else if c = ']' then lvl - 1 else lvl)
      refine ⟨m, ?_, ?_, ?_, ?_⟩
      · simp only [scanTok, ha, hc, ↓reduceIte, List.cons_append, h1]
      · simp only [scanTok, ha, hc, ↓reduceIte, h2]
      · simp only [scanTok, ha, ↓reduceIte, List.cons_append, h3]
      · simpa only [scanTok, hc, ↓reduceIte] using h4
    · -- `H` stops here: level 0 and `c` is one of its separators
      have hb : lvl = 0 ∧ isSep H c = true := by
        simp only [Bool.or_eq_true, decide_eq_true_eq, Bool.not_eq_true', not_or, ne_eq,
          Decidable.not_not, Bool.not_eq_false] at ha
        exact ha
      obtain ⟨rfl, hH⟩ := hb
      by_cases hC : isSep C c = true
      · refine ⟨[], ?_⟩
        simp [scanTok, hH, hC]
      · have hC' : isSep C c = false := by simpa using hC
        have hno : c ≠ '[' := fun e => by rw [e, hs.nbo] at hH; cases hH
        have hnc : c ≠ ']' := fun e => by rw [e, hs.nbc] at hH; cases hH
        have happ := scanTok_append C cs 0
        have hCs : scanTok C 0 (c :: cs) = (c :: (scanTok C 0 cs).1, (scanTok C 0 cs).2) := by
          simp [scanTok, hC', hno, hnc]
        have hHs : scanTok H 0 (c :: cs) = ([], c :: cs) := by
          simp [scanTok, hH]
        refine ⟨c :: (scanTok C 0 cs).1, ?_, ?_, ?_, Or.inr ?_⟩
        · rw [hCs, hHs]; rfl
        · rw [hCs, hHs]; simp only [List.cons_append, happ]
        · rw [hHs]; simp [scanTok, hH]
        · rw [hCs]
          simp only [List.cons_append, happ]
          exact hCs

/-! ### a piece cut off by the coarser scan tokenizes on its own -/
theorem tokens_scan_split {C H : Str} (hs : SepSub C H) : ∀ (n : Nat) (x : Str), x.length ≤ n →
    tokens H x = tokens H (scanTok C 0 x).1 ++ tokens H (scanTok C 0 x).2
  | 0, x, hn => by
    have : x = [] := List.length_eq_zero_iff.mp (by omega)
    subst this; simp [scanTok, tokens_nil]
  | n + 1, x, hn => by
    cases x with
    | nil => simp [scanTok, tokens_nil]
    | cons c cs =>
      by_cases hH : isSep H c = true
      · by_cases hC : isSep C c = true
        · -- the coarse scan stops at once
          simp [scanTok, hC, tokens_nil]
        · -- a separator of `H` only: dropped by `H`, taken by the coarse scan
          have hC' : isSep C c = false := by simpa using hC
          have hno : c ≠ '[' := fun e => by rw [e, hs.nbo] at hH; cases hH
          have hnc : c ≠ ']' := fun e => by rw [e, hs.nbc] at hH; cases hH
          have hCs : scanTok C 0 (c :: cs) = (c :: (scanTok C 0 cs).1, (scanTok C 0 cs).2) := by
            simp [scanTok, hC', hno, hnc]
          rw [hCs]
          simp only
          rw [tokens_dropSep H c cs hH, tokens_dropSep H c _ hH]
          exact tokens_scan_split hs n cs (by simp only [List.length_cons] at hn; omega)
      · -- a token of `H` starts here
        have hH' : isSep H c = false := by simpa using hH
        obtain ⟨m, h1, h2, h3, h4⟩ := scan_joint hs (c :: cs) 0
        have happC := scanTok_append C (c :: cs) 0
        have hne : (scanTok H 0 (c :: cs)).1 ≠ [] := by
          simp [scanTok, hH']
        -- tokens of the whole text
        have e1 : tokens H (c :: cs) =
            (scanTok H 0 (c :: cs)).1 :: tokens H (m ++ (scanTok C 0 (c :: cs)).2) := by
          rw [tokens_unfold H (c :: cs), nextTok_cons H c cs hH']
          simp only
          rw [tokens_dropWhile, h2]
        -- tokens of the coarse piece
        have e2 : tokens H (scanTok C 0 (c :: cs)).1 = (scanTok H 0 (c :: cs)).1 :: tokens H m := by
          rw [h1]
          cases ht : (scanTok H 0 (c :: cs)).1 with
          | nil => exact absurd ht hne
          | cons a as =>
            have ha : a = c := by
              have : (scanTok H 0 (c :: cs)).1.head? = some c := by simp [scanTok, hH']
              rw [ht] at this; simpa using this
            subst ha
            rw [ht] at h3
            rw [List.cons_append, tokens_unfold H (a :: (as ++ m)), nextTok_cons H a _ hH']
            simp only
            rw [List.cons_append] at h3
            rw [h3]
            simp only
            rw [tokens_dropWhile]
        rw [e1, e2]
        -- the remainder `m ++ rest` is shorter and is cut by the coarse scan into `m` and `rest`
        rcases h4 with rfl | h4
        · simp [tokens_nil]
        · have hlen : (m ++ (scanTok C 0 (c :: cs)).2).length ≤ n := by
            have : ((scanTok C 0 (c :: cs)).1 ++ (scanTok C 0 (c :: cs)).2).length = (c :: cs).length := by
              rw [happC]
            rw [h1] at this
            have hpos : 0 < (scanTok H 0 (c :: cs)).1.length := List.length_pos_iff.mpr hne
            simp only [List.length_append, List.length_cons] at this hn ⊢
            omega
          have ih := tokens_scan_split hs n (m ++ (scanTok C 0 (c :: cs)).2) hlen
          rw [h4] at ih
          simp only at ih
          rw [ih]; rfl

theorem tokens_all_sep (H : Str) : ∀ (s : Str), (∀ c ∈ s, isSep H c = true) → tokens H s = []
  | [], _ => tokens_nil H
  | c :: cs, h => by
    rw [tokens_dropSep H c cs (h c (by simp))]
    exact tokens_all_sep H cs (fun x hx => h x (by simp [hx]))

theorem dropWhile_all_true {α : Type} {p : α → Bool} : ∀ {l : List α}, l.dropWhile p = [] → ∀ x ∈ l, p x = true
  | [], _, x, hx => by simp at hx
  | a :: as, h, x, hx => by
    by_cases ha : p a = true
    · rw [List.dropWhile_cons_of_pos ha] at h
      rcases List.mem_cons.mp hx with rfl | hx
      · exact ha
      · exact dropWhile_all_true h x hx
    · rw [List.dropWhile_cons_of_neg ha] at h; cases h

theorem tokens_dropWhile_sub {C H : Str} (hs : SepSub C H) : ∀ (s : Str),
    tokens H (s.dropWhile (isSep C)) = tokens H s
  | [] => rfl
  | c :: cs => by
    by_cases h : isSep C c = true
    · rw [List.dropWhile_cons_of_pos h, tokens_dropSep H c cs (hs.sub c h)]
      exact tokens_dropWhile_sub hs cs
    · rw [List.dropWhile_cons_of_neg h]

/-- THE FIRST SPLIT IS INVISIBLE, for EVERY text: cutting at the coarser separators first and
    tokenizing every piece gives the tokens of the whole text -/
theorem split_then_tokens_aux {C H : Str} (hs : SepSub C H) : ∀ (n : Nat) (s : Str), s.length ≤ n →
    (tokens C s).flatMap (tokens H) = tokens H s
  | 0, s, hn => by
    have : s = [] := List.length_eq_zero_iff.mp (by omega)
    subst this; simp [tokens_nil]
  | n + 1, s, hn => by
    rw [tokens_unfold C s]
    cases hnt : nextTok C s with
    | none =>
      simp only [List.flatMap_nil]
      unfold nextTok at hnt
      split at hnt
      · rename_i hd
        exact (tokens_all_sep H s (fun c hc => hs.sub c (dropWhile_all_true hd c hc))).symm
      · generalize scanTok C 0 _ = q at hnt
        obtain ⟨a, b⟩ := q
        cases hnt
    | some p =>
      obtain ⟨t, r⟩ := p
      have ⟨hne, hl⟩ := nextTok_some hnt
      have hpos : 0 < t.length := List.length_pos_iff.mpr hne
      simp only [List.flatMap_cons]
      rw [split_then_tokens_aux hs n r (by omega)]
      unfold nextTok at hnt
      split at hnt
      · cases hnt
      · rename_i s1 hs1
        generalize hq : scanTok C 0 (s.dropWhile (isSep C)) = q at hnt
        obtain ⟨a, b⟩ := q
        simp only [Option.some.injEq, Prod.mk.injEq] at hnt
        obtain ⟨rfl, rfl⟩ := hnt
        have hsplit := tokens_scan_split hs (s.dropWhile (isSep C)).length (s.dropWhile (isSep C))
          (Nat.le_refl _)
        rw [hq] at hsplit
        simp only at hsplit
        rw [tokens_dropWhile_sub hs b, ← hsplit, tokens_dropWhile_sub hs s]

/-- split.c `list_split(",", arg)` followed by `hostlist_create`'s tokenizer on every comma-word =
    `hostlist_create`'s tokenizer on the whole argument; for EVERY text `arg` -/
theorem split_then_tokens (arg : Str) :
    (tokens [','] arg).flatMap (tokens hlSep) = tokens hlSep arg :=
  split_then_tokens_aux sepSub_comma arg.length arg (Nat.le_refl _)

end PdshVerif.Hostlist
