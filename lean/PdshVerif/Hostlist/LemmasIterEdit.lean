/-
  ONE live iterator on the editable list (C16 / C02): `hostlist_next` hands out the head of what is
  left (`remaining`), `hostlist_remove` (repaired D19) takes exactly the host last handed out and
  leaves the iterator in front of what was left.
-/
import PdshVerif.Hostlist.LemmasDeleteName

namespace PdshVerif.Hostlist
open PdshVerif.Gen

/-! ### record identities -/
/-- record identities are distinct and below the allocation counter -/
def EL.IdsOk (e : EL) : Prop := (e.rs.map (·.id)).Nodup ∧ ∀ o ∈ e.rs, o.id < e.nextId

theorem find?_id_of_nodup : ∀ (l : List RObj) (i : Nat) (o : RObj), (l.map (·.id)).Nodup → l[i]? = some o →
    l.find? (·.id == o.id) = some o
  | [], _, _, _, h => by simp at h
  | a :: l, 0, o, _, h => by
    simp only [List.getElem?_cons_zero, Option.some.injEq] at h
    subst h; simp
  | a :: l, i + 1, o, hn, h => by
    simp only [List.getElem?_cons_succ] at h
    simp only [List.map_cons, List.nodup_cons] at hn
    have hne : a.id ≠ o.id := by
      intro heq
      apply hn.1
      rw [heq]
      exact List.mem_map.mpr ⟨o, List.mem_of_getElem? h, rfl⟩
    have : (a.id == o.id) = false := by simpa using hne
    rw [List.find?_cons, this]
    exact find?_id_of_nodup l i o hn.2 h

theorem hrAt_nat (e : EL) (i : Nat) : e.hrAt (i : Int) = (e.rs[i]?).map (·.id) := by
  unfold EL.hrAt
  have : ¬ ((i : Int) < 0) := by omega
  simp [this]

/-- `*hl->hr[i]` through the cached pointer -/
theorem deref_hrAt (e : EL) (hid : e.IdsOk) (i : Nat) (o : RObj) (h : e.rs[i]? = some o) :
    e.deref (e.hrAt (i : Int)) = .ok o := by
  rw [hrAt_nat, h]
  simp only [Option.map_some, EL.deref]
  rw [find?_id_of_nodup e.rs i o hid.1 h]

theorem ranges_getElem? (e : EL) (i : Nat) : e.ranges[i]? = (e.rs[i]?).map (·.r) := by
  simp [EL.ranges]

/-! ### the iterator of slot 0 -/
/-- the only iterator (slot 0) stands in record `i` having handed out `k` names of it -/
def Coh (e : EL) (i k : Nat) : Prop := e.its = [(0, ⟨(i : Int), (k : Int) - 1, e.hrAt (i : Int)⟩)]

theorem Coh.getIt {e : EL} {i k : Nat} (h : Coh e i k) :
    e.getIt 0 = some ⟨(i : Int), (k : Int) - 1, e.hrAt (i : Int)⟩ := by
  unfold EL.getIt; rw [h]; simp

theorem Coh.setIt {e : EL} {i k : Nat} (h : Coh e i k) (it : ItSt) : (e.setIt 0 it).its = [(0, it)] := by
  unfold EL.setIt; rw [h]; simp

theorem coh_new (e : EL) (he : e.its = []) : Coh (itNew e 0) 0 0 := by
  unfold Coh itNew EL.resetIt
  simp only [he, EL.hrAt]
  rfl

/-- the iterator stands INSIDE the list: on a record that exists, not beyond its hosts — or the list
    is empty and the iterator is at its start.  (What the repaired `_iterator_advance`, F16-ENDPUSH,
    maintains: an iterator with nothing left stays on the last host it handed out.) -/
def AtPosL (L : List HRange) (i k : Nat) : Prop :=
  (L = [] ∧ i = 0 ∧ k = 0) ∨ ∃ r, L[i]? = some r ∧ k ≤ r.hosts.length

def AtPos (e : EL) (i k : Nat) : Prop := AtPosL e.ranges i k

theorem AtPosL.zero (L : List HRange) : AtPosL L 0 0 := by
  cases L with
  | nil => exact Or.inl ⟨rfl, rfl, rfl⟩
  | cons a l => exact Or.inr ⟨a, rfl, Nat.zero_le _⟩

theorem AtPosL.of_get {L : List HRange} {i k : Nat} {r : HRange} (h : L[i]? = some r) (hk : k ≤ r.hosts.length) :
    AtPosL L i k := Or.inr ⟨r, h, hk⟩

theorem AtPosL.get {L : List HRange} {i k : Nat} (h : AtPosL L i k) (hne : L ≠ []) :
    ∃ r, L[i]? = some r ∧ k ≤ r.hosts.length := by
  rcases h with ⟨h0, _, _⟩ | h
  · exact absurd h0 hne
  · exact h

theorem coh_unique {e : EL} {i k i' k' : Nat} (h : Coh e i k) (h' : Coh e i' k') : i = i' ∧ k = k' := by
  unfold Coh at h h'
  rw [h] at h'
  simp only [List.cons.injEq, Prod.mk.injEq, ItSt.mk.injEq, true_and, and_true] at h'
  omega

/-- F16-ENDPUSH repaired: a `hostlist_next` that answers NULL leaves the iterator where it was -/
theorem itNext_none_pos (cfg : Cfg) (hfx : cfg.fixEndPush = true) (e : EL) (hid : e.IdsOk) (i k : Nat)
    (hc : Coh e i k) (e' : EL) (h : itNext cfg e 0 = .ok (none, e')) : Coh e' i k ∧ e'.rs = e.rs := by
  have hgi := hc.getIt
  unfold itNext at h
  rw [hgi] at h
  cases hr : e.rs[i]? with
  | none =>
    have hlen : e.rs.length ≤ i := by simpa using hr
    have hcond : ((i : Int) > (e.rs.length : Int) - 1) := by omega
    simp only [itAdvance, hcond, ↓reduceIte, Bool.not_false, Except.ok.injEq, Prod.mk.injEq, true_and] at h
    rw [← h]
    refine ⟨?_, rfl⟩
    unfold Coh
    rw [hc.setIt]
    rfl
  | some o =>
    have hlt : i < e.rs.length := (List.getElem?_eq_some_iff.mp hr).1
    have hcond : ¬ ((i : Int) > (e.rs.length : Int) - 1) := by omega
    have hderef := deref_hrAt e hid i o hr
    have hoid : e.hrAt (i : Int) = some o.id := by rw [hrAt_nat, hr]; rfl
    have hderef' : e.deref (some o.id) = .ok o := by rw [← hoid]; exact hderef
    by_cases hadv : (((k : Int) - 1 + 1).toNat > subU64 o.r.hi o.r.lo)
    · by_cases hlast : (i : Int) = (e.rs.length : Int) - 1
      · simp only [itAdvance, hcond, ↓reduceIte, hfx, hoid, hderef', hadv] at h
        rw [if_pos hlast] at h
        simp only [Bool.not_false, ↓reduceIte, Except.ok.injEq, Prod.mk.injEq, true_and] at h
        rw [← h]
        refine ⟨?_, rfl⟩
        unfold Coh
        rw [hc.setIt]
        have : (e.setIt 0 ⟨(i : Int), (k : Int) - 1, some o.id⟩).hrAt (i : Int) = e.hrAt (i : Int) := rfl
        rw [this, hoid]
      · simp only [itAdvance, hcond, ↓reduceIte, hfx, hoid, hderef', hadv] at h
        rw [if_neg hlast] at h
        simp only [Bool.not_true, Bool.false_eq_true, ↓reduceIte] at h
        split at h <;> simp at h
    · simp only [itAdvance, hcond, ↓reduceIte, hfx, hoid, hderef', hadv] at h
      simp only [Bool.not_true, Bool.false_eq_true, ↓reduceIte] at h
      split at h <;> simp at h

/-- ONE `hostlist_next` from (record i, k names given): the head of `remaining`, and the iterator
    then stands behind it -/
theorem itNext_spec (cfg : Cfg) (e : EL) (hid : e.IdsOk) (hg : ∀ r ∈ e.ranges, r.Good)
    (hn : ∀ r ∈ e.ranges, r.PrintsFull cfg) (i k : Nat) (hc : Coh e i k) :
    (remaining e.ranges i k = [] ∧ ∃ (i' k' : Nat), remaining e.ranges i' k' = [] ∧
        itNext cfg e 0 = .ok (none, { e with its := [(0, ⟨(i' : Int), (k' : Int) - 1, e.hrAt (i' : Int)⟩)] })) ∨
    (∃ (x : Str) (xs : List Str) (i' k' : Nat) (r' : HRange), remaining e.ranges i k = x :: xs ∧
        itNext cfg e 0 = .ok (some x, { e with its := [(0, ⟨(i' : Int), (k' : Int) - 1, e.hrAt (i' : Int)⟩)] }) ∧
        remaining e.ranges i' k' = xs ∧ e.ranges[i']? = some r' ∧ 1 ≤ k' ∧ k' ≤ r'.hosts.length ∧
        r'.hosts[k' - 1]? = some x) := by
  have hgi := hc.getIt
  cases hr : e.rs[i]? with
  | none =>
    left
    have hlen : e.rs.length ≤ i := by simpa using hr
    have hrr : e.ranges[i]? = none := by rw [ranges_getElem?, hr]; rfl
    refine ⟨remaining_none hrr, ⟨i, k, remaining_none hrr, ?_⟩⟩
    unfold itNext
    rw [hgi]
    have hcond : ((i : Int) > (e.rs.length : Int) - 1) := by omega
    simp only [itAdvance, hcond, ↓reduceIte, Bool.not_false]
    congr 2
    unfold EL.setIt
    rw [hc]
    simp
  | some o =>
    have hlt : i < e.rs.length := (List.getElem?_eq_some_iff.mp hr).1
    have hrr : e.ranges[i]? = some o.r := by rw [ranges_getElem?, hr]; rfl
    have hmem : o.r ∈ e.ranges := List.mem_of_getElem? hrr
    have hgr := hg o.r hmem
    have hspan := hgr.span
    have hcond : ¬ ((i : Int) > (e.rs.length : Int) - 1) := by omega
    have hd : ((k : Int) - 1 + 1) = (k : Int) := by omega
    have hderef := deref_hrAt e hid i o hr
    have hoid : e.hrAt (i : Int) = some o.id := by rw [hrAt_nat, hr]; rfl
    have hderef' : e.deref (some o.id) = .ok o := by rw [← hoid]; exact hderef
    by_cases hklt : k < o.r.hosts.length
    · right
      have hadv : ¬ ((k : Int)).toNat > subU64 o.r.hi o.r.lo := by
        simp only [Int.toNat_natCast]; omega
      have hA : itAdvance cfg e ⟨(i : Int), (k : Int) - 1, e.hrAt (i : Int)⟩
          = .ok (true, ⟨(i : Int), (k : Int), e.hrAt (i : Int)⟩) := by
        rcases Bool.eq_false_or_eq_true cfg.fixEndPush with hfx | hfx
        · simp only [itAdvance, hcond, ↓reduceIte, hfx, hoid, hderef', hd, hadv]
        · simp only [itAdvance, hcond, ↓reduceIte, hfx, hderef, hd, hadv, Bool.false_eq_true]
      refine ⟨o.r.hosts[k], _, i, k + 1, o.r, remaining_cons hrr hklt, ?_, rfl, hrr, by omega, by omega, by simp⟩
      unfold itNext
      rw [hgi]
      simp only [hA, Bool.not_true, Bool.false_eq_true, ↓reduceIte, hderef]
      have hname := HRange.nextName hgr (hn o.r hmem) hklt
      simp only [Int.toNat_natCast]
      rw [hname]
      congr 2
      unfold EL.setIt
      rw [hc]
      simp only [List.map_cons, List.map_nil, beq_self_eq_true, ↓reduceIte]
      congr 4
      omega
    · have hke : o.r.hosts.length ≤ k := by omega
      have hadv : ((k : Int)).toNat > subU64 o.r.hi o.r.lo := by
        simp only [Int.toNat_natCast]; omega
      have hi1 : ((i : Int) + 1) = ((i + 1 : Nat) : Int) := by omega
      cases hr2 : e.rs[i + 1]? with
      | none =>
        left
        have hrr2 : e.ranges[i + 1]? = none := by rw [ranges_getElem?, hr2]; rfl
        have hlen2 : e.rs.length ≤ i + 1 := by simpa using hr2
        have hrem0 : remaining e.ranges i k = [] := by
          rw [remaining_next hrr (by omega)]; exact remaining_none hrr2
        have hc2 : ((i : Int) + 1 > (e.rs.length : Int) - 1) := by omega
        have hlast : (i : Int) = (e.rs.length : Int) - 1 := by omega
        rcases Bool.eq_false_or_eq_true cfg.fixEndPush with hfx | hfx
        · -- repaired: the iterator stays where it is
          refine ⟨hrem0, ⟨i, k, hrem0, ?_⟩⟩
          have hB : itAdvance cfg e ⟨(i : Int), (k : Int) - 1, e.hrAt (i : Int)⟩
              = .ok (false, ⟨(i : Int), (k : Int) - 1, e.hrAt (i : Int)⟩) := by
            simp only [itAdvance, hcond, ↓reduceIte, hfx, hoid, hderef', hd, hadv]
            rw [if_pos hlast]
          unfold itNext
          rw [hgi]
          simp only [hB, Bool.not_false, ↓reduceIte]
          congr 2
          unfold EL.setIt
          rw [hc]
          simp only [List.map_cons, List.map_nil, beq_self_eq_true, ↓reduceIte]
        · refine ⟨hrem0, ⟨i + 1, 1, remaining_none hrr2, ?_⟩⟩
          unfold itNext
          rw [hgi]
          simp only [itAdvance, hcond, ↓reduceIte, hfx, hderef, hd, hadv, Bool.false_eq_true, hc2,
            not_true_eq_false, decide_false, Bool.not_false]
          congr 2
          unfold EL.setIt
          rw [hc]
          simp only [List.map_cons, List.map_nil, beq_self_eq_true, ↓reduceIte]
          rw [hi1]
          congr 4
      | some o2 =>
        right
        have hlt2 : i + 1 < e.rs.length := (List.getElem?_eq_some_iff.mp hr2).1
        have hrr2 : e.ranges[i + 1]? = some o2.r := by rw [ranges_getElem?, hr2]; rfl
        have hmem2 : o2.r ∈ e.ranges := List.mem_of_getElem? hrr2
        have hpos := (hg o2.r hmem2).hosts_pos
        have hc2 : ¬ ((i : Int) + 1 > (e.rs.length : Int) - 1) := by omega
        have hnl : ¬ ((i : Int) = (e.rs.length : Int) - 1) := by omega
        have hC : itAdvance cfg e ⟨(i : Int), (k : Int) - 1, e.hrAt (i : Int)⟩
            = .ok (true, ⟨(i : Int) + 1, 0, e.hrAt ((i : Int) + 1)⟩) := by
          rcases Bool.eq_false_or_eq_true cfg.fixEndPush with hfx | hfx
          · simp only [itAdvance, hcond, ↓reduceIte, hfx, hderef, hd, hadv, hnl]
          · simp only [itAdvance, hcond, ↓reduceIte, hfx, hderef, hd, hadv, Bool.false_eq_true, hc2,
              not_false_eq_true, decide_true]
        refine ⟨o2.r.hosts[0], _, i + 1, 1, o2.r, ?_, ?_, rfl, hrr2, by omega, by omega, by simp⟩
        · rw [remaining_next hrr (by omega)]; exact remaining_cons hrr2 hpos
        · unfold itNext
          rw [hgi]
          have hderef2 : e.deref (e.hrAt ((i : Int) + 1)) = .ok o2 := by
            rw [hi1]; exact deref_hrAt e hid (i + 1) o2 hr2
          simp only [hC, Bool.not_true, Bool.false_eq_true, ↓reduceIte, hderef2]
          have hname := HRange.nextName (hg o2.r hmem2) (hn o2.r hmem2) hpos
          simp only [Int.toNat_zero]
          rw [hname]
          congr 2
          unfold EL.setIt
          rw [hc]
          simp only [List.map_cons, List.map_nil, beq_self_eq_true, ↓reduceIte]
          congr 4

/-! ### one record loses the host at offset j: the four shapes -/
theorem narrow_of_le {cfg : Cfg} {r r' : HRange} (h : r.PrintsFull cfg) (hw : r'.width = r.width)
    (hh : r'.hi ≤ r.hi) (hs : r'.single = r.single) : r'.PrintsFull cfg := by
  rcases h with h | h
  · exact Or.inl h
  · right
    intro hs'
    obtain ⟨h1, h2⟩ := h (by rw [← hs]; exact hs')
    exact ⟨by rw [hw]; exact h1, Nat.le_trans (ndig_mono hh) h2⟩

theorem hostrangeDeleteHost_cases {r : HRange} (hg : r.Good) (hs : r.single = false) {j : Nat}
    (hj : j < r.hosts.length) :
    (∃ r', hostrangeDeleteHost r (addU64 r.lo j) = (r', none) ∧ r'.empty = true ∧ j = 0 ∧ r.hosts.length = 1) ∨
    (∃ r', hostrangeDeleteHost r (addU64 r.lo j) = (r', none) ∧ r'.empty = false ∧ r'.Good ∧ j = 0 ∧
        r'.hosts = r.hosts.drop 1 ∧ r'.width = r.width ∧ r'.hi ≤ r.hi ∧ r'.single = r.single) ∨
    (∃ r', hostrangeDeleteHost r (addU64 r.lo j) = (r', none) ∧ r'.empty = false ∧ r'.Good ∧ 0 < j ∧
        j + 1 = r.hosts.length ∧ r'.hosts = r.hosts.take j ∧ r'.width = r.width ∧ r'.hi ≤ r.hi ∧
        r'.single = r.single) ∨
    (∃ r' up, hostrangeDeleteHost r (addU64 r.lo j) = (r', some up) ∧ r'.Good ∧ up.Good ∧
        r'.hosts = r.hosts.take j ∧ up.hosts = r.hosts.drop (j + 1) ∧
        r'.width = r.width ∧ r'.hi ≤ r.hi ∧ r'.single = r.single ∧
        up.width = r.width ∧ up.hi ≤ r.hi ∧ up.single = r.single) := by
  have hu : ULONG_MAX + 1 = U64 := by decide
  obtain ⟨h1, h2⟩ := hg.2 hs
  have hl := hg.hosts_length
  rw [hs] at hl
  simp only [Bool.false_eq_true, ↓reduceIte] at hl
  have ha : addU64 r.lo j = r.lo + j := by unfold addU64; exact Nat.mod_eq_of_lt (by omega)
  have hsp := hostrangeDeleteHost_spec hg hs hj
  have her : r.hosts.eraseIdx j = r.hosts.take j ++ r.hosts.drop (j + 1) := List.eraseIdx_eq_take_drop_succ ..
  by_cases hj0 : j = 0
  · subst hj0
    have hres : hostrangeDeleteHost r (addU64 r.lo 0) = ({ r with lo := addU64 r.lo 1 }, none) := by
      simp [hostrangeDeleteHost, ha]
    rw [hres] at hsp
    simp only at hsp
    rcases hsp with ⟨he, hnil⟩ | ⟨he, hg', hh⟩
    · left
      refine ⟨_, hres, he, rfl, ?_⟩
      rw [her] at hnil
      simp only [List.take_zero, List.nil_append, Nat.zero_add, List.drop_eq_nil_iff] at hnil
      omega
    · right; left
      refine ⟨_, hres, he, hg', rfl, ?_, rfl, Nat.le_refl _, rfl⟩
      rw [hh, her]; simp
  · have hne : ¬ r.lo + j = r.lo := by omega
    by_cases hkl : r.lo + j = r.hi
    · have hres : hostrangeDeleteHost r (addU64 r.lo j) = ({ r with hi := subU64 r.hi 1 }, none) := by
        unfold hostrangeDeleteHost
        rw [ha, if_neg hne, if_pos hkl]
      have hsub : subU64 r.hi 1 = r.hi - 1 := subU64_of_le (by omega) (by omega)
      rw [hres] at hsp
      simp only at hsp
      have hjl : j + 1 = r.hosts.length := by omega
      rcases hsp with ⟨_, hnil⟩ | ⟨he, hg', hh⟩
      · exfalso
        have := congrArg List.length hnil
        rw [List.length_eraseIdx] at this
        simp only [hj, ↓reduceIte, List.length_nil] at this
        omega
      · right; right; left
        refine ⟨_, hres, he, hg', by omega, hjl, ?_, rfl, by simp only [hsub]; omega, rfl⟩
        rw [hh, her]
        have : r.hosts.drop (j + 1) = [] := List.drop_eq_nil_iff.mpr (by omega)
        rw [this, List.append_nil]
    · have hres : hostrangeDeleteHost r (addU64 r.lo j) =
          ({ r with hi := subU64 (r.lo + j) 1 }, some { r with lo := addU64 (r.lo + j) 1 }) := by
        unfold hostrangeDeleteHost
        rw [ha, if_neg hne, if_neg hkl]
      have hsub : subU64 (r.lo + j) 1 = r.lo + j - 1 := subU64_of_le (by omega) (by omega)
      rw [hres] at hsp
      simp only at hsp
      obtain ⟨hg1, hg2, _, hh⟩ := hsp
      right; right; right
      have hlen1 : ({ r with hi := subU64 (r.lo + j) 1 } : HRange).hosts.length = j := by
        rw [hg1.hosts_length]
        simp only [hs, Bool.false_eq_true, ↓reduceIte, hsub]
        omega
      rw [her] at hh
      have hlt : (r.hosts.take j).length = j := by rw [List.length_take]; omega
      obtain ⟨e1, e2⟩ := List.append_inj hh (by rw [hlen1, hlt])
      exact ⟨_, _, hres, hg1, hg2, e1, e2, rfl, by simp only [hsub]; omega, rfl, rfl, Nat.le_refl _, rfl⟩

/-! ### list shapes -/
theorem split_one {α : Type} : ∀ (l : List α) (j : Nat) (a : α), l[j]? = some a →
    l = l.take j ++ a :: l.drop (j + 1)
  | [], _, _, h => by simp at h
  | x :: xs, 0, a, h => by
    simp only [List.getElem?_cons_zero, Option.some.injEq] at h
    simp [h]
  | x :: xs, j + 1, a, h => by
    simp only [List.getElem?_cons_succ] at h
    have := split_one xs j a h
    simp only [List.take_succ_cons, List.cons_append, List.drop_succ_cons, List.cons.injEq, true_and]
    exact this

theorem map_setId (r' : HRange) (A : List RObj) (o : RObj) (B : List RObj)
    (hn : ((A ++ o :: B).map (·.id)).Nodup) :
    (A ++ o :: B).map (fun x => if x.id == o.id then ({ x with r := r' } : RObj) else x) =
      A ++ { o with r := r' } :: B := by
  simp only [List.map_append, List.map_cons, List.nodup_append, List.nodup_cons, List.mem_map,
    List.mem_cons] at hn
  obtain ⟨_, ⟨hoB, _⟩, hdis⟩ := hn
  rw [List.map_append, List.map_cons]
  simp only [beq_self_eq_true, ↓reduceIte]
  congr 1
  · conv => rhs; rw [← List.map_id A]
    apply List.map_congr_left
    intro x hx
    have hne : x.id ≠ o.id := by
      intro heq
      exact hdis x.id ⟨x, hx, rfl⟩ o.id (Or.inl rfl) heq
    have : (x.id == o.id) = false := by simpa using hne
    simp [this]
  · congr 1
    conv => rhs; rw [← List.map_id B]
    apply List.map_congr_left
    intro x hx
    have hne : x.id ≠ o.id := by
      intro heq
      exact hoB ⟨x, hx, heq⟩
    have : (x.id == o.id) = false := by simpa using hne
    simp [this]

/-- what is left from (record i, k names given) when record i is `r` -/
theorem remaining_mid (RA : List HRange) (r : HRange) (RB : List HRange) (k : Nat) :
    remaining (RA ++ r :: RB) RA.length k = r.hosts.drop k ++ hostsL RB := by
  unfold remaining
  simp [hostsL]

theorem remaining_end (RA RB : List HRange) : remaining (RA ++ RB) RA.length 0 = hostsL RB := by
  cases RB with
  | nil =>
    have h : (RA ++ ([] : List HRange))[RA.length]? = none := by simp
    rw [remaining_none h]; rfl
  | cons b RB => rw [remaining_mid]; simp [hostsL]

/-! ### `hostlist_remove`, computed on a list laid out as A ++ o :: B with the iterator on o -/
/-- the assert of `hostrange_delete_host` holds: the iterator stands on a host of its record -/
def removeGuard (o : RObj) (k : Nat) : Bool :=
  decide (((k : Int) - 1) < 0) || o.r.single && decide (((k : Int) - 1) > 0)
    || !o.r.single && decide ((((k : Int) - 1).toNat) > subU64 o.r.hi o.r.lo)

theorem deref_mid (A B : List RObj) (o : RObj) (nh : Int) (nx : Nat) (its : List (Nat × ItSt))
    (hnd : ((A ++ o :: B).map (·.id)).Nodup) :
    EL.deref ⟨A ++ o :: B, nh, nx, its⟩ (some o.id) = .ok o := by
  simp only [EL.deref]
  rw [find?_id_of_nodup (A ++ o :: B) A.length o hnd (by simp)]

theorem setObj_mid (A B : List RObj) (o : RObj) (nh : Int) (nx : Nat) (its : List (Nat × ItSt)) (r' : HRange)
    (hnd : ((A ++ o :: B).map (·.id)).Nodup) :
    EL.setObj ⟨A ++ o :: B, nh, nx, its⟩ o.id r' = ⟨A ++ { o with r := r' } :: B, nh, nx, its⟩ := by
  unfold EL.setObj
  simp only
  rw [map_setId r' A o B hnd]

theorem hrAt_mid (A B : List RObj) (o : RObj) (nh : Int) (nx : Nat) (its : List (Nat × ItSt)) :
    EL.hrAt ⟨A ++ o :: B, nh, nx, its⟩ (A.length : Int) = some o.id := by
  rw [hrAt_nat]
  simp

theorem insertRange_mid (A B : List RObj) (o' : RObj) (nh : Int) (nx : Nat) (d : Int) (hr : Option Nat) (up : HRange) :
    insertRange ⟨A ++ o' :: B, nh, nx, [(0, ⟨(A.length : Int), d, hr⟩)]⟩ up (A.length + 1) =
      ⟨A ++ o' :: ⟨nx, up⟩ :: B, nh, nx + 1, [(0, ⟨(A.length : Int), d, hr⟩)]⟩ := by
  unfold insertRange
  have hlen : ¬ (A.length + 1 > (A ++ o' :: B).length) := by simp
  have e : A ++ o' :: B = (A ++ [o']) ++ B := by simp
  have htake : (A ++ o' :: B).take (A.length + 1) = A ++ [o'] := by
    rw [e, List.take_left' (by simp)]
  have hdrop : (A ++ o' :: B).drop (A.length + 1) = B := by
    rw [e, List.drop_left' (by simp)]
  have hge : ¬ ((A.length : Int) ≥ ((A.length + 1 : Nat) : Int)) := by omega
  simp only [hlen, ↓reduceIte, htake, hdrop, List.map_cons, List.map_nil, hge, List.append_assoc,
    List.cons_append, List.nil_append]

theorem itRemove_split (cfg : Cfg) (A B : List RObj) (o : RObj) (nh : Int) (nx k : Nat) (r' up : HRange)
    (hnd : ((A ++ o :: B).map (·.id)).Nodup) (hgd : removeGuard o k = false)
    (hDH : hostrangeDeleteHost o.r (addU64 o.r.lo (k - 1)) = (r', some up)) :
    itRemove cfg ⟨A ++ o :: B, nh, nx, [(0, ⟨(A.length : Int), (k : Int) - 1, some o.id⟩)]⟩ 0 =
      .ok ⟨A ++ { o with r := r' } :: ⟨nx, up⟩ :: B, nh - 1, nx + 1,
           [(0, ⟨((A.length + 1 : Nat) : Int), ((0 : Nat) : Int) - 1, some nx⟩)]⟩ := by
  have htn : ((k : Int) - 1).toNat = k - 1 := by omega
  have hi1 : ((A.length : Int) + 1).toNat = A.length + 1 := by omega
  unfold itRemove
  simp only [EL.getIt, List.find?_cons, beq_self_eq_true, Option.map_some, deref_mid A B o nh nx _ hnd]
  unfold removeGuard at hgd
  simp only [hgd, Bool.false_eq_true, ↓reduceIte]
  simp only [htn, hDH, setObj_mid A B o nh nx _ r' hnd, hi1, insertRange_mid]
  simp only [delIts, EL.setIt, List.map_cons, List.map_nil, beq_self_eq_true, ↓reduceIte]
  have hh : EL.hrAt ⟨A ++ { o with r := r' } :: (⟨nx, up⟩ : RObj) :: B, nh, nx + 1,
      [(0, ⟨(A.length : Int), (k : Int) - 1, some o.id⟩)]⟩ ((A.length : Int) + 1) = some nx := by
    have : ((A.length : Int) + 1) = ((A ++ [({ o with r := r' } : RObj)]).length : Int) := by simp
    rw [this]
    have e : A ++ { o with r := r' } :: (⟨nx, up⟩ : RObj) :: B = (A ++ [({ o with r := r' } : RObj)]) ++ ⟨nx, up⟩ :: B := by simp
    rw [e, hrAt_mid]
  rw [hh]
  have c1 : ((A.length : Int) + 1) = ((A.length + 1 : Nat) : Int) := by omega
  have c2 : (-1 : Int) = ((0 : Nat) : Int) - 1 := by omega
  rw [c1, c2]

theorem itRemove_shrink (cfg : Cfg) (A B : List RObj) (o : RObj) (nh : Int) (nx k : Nat) (r' : HRange)
    (hnd : ((A ++ o :: B).map (·.id)).Nodup) (hgd : removeGuard o k = false)
    (hDH : hostrangeDeleteHost o.r (addU64 o.r.lo (k - 1)) = (r', none)) (hne : r'.empty = false) :
    itRemove cfg ⟨A ++ o :: B, nh, nx, [(0, ⟨(A.length : Int), (k : Int) - 1, some o.id⟩)]⟩ 0 =
      .ok ⟨A ++ { o with r := r' } :: B, nh - 1, nx, [(0, ⟨(A.length : Int), (k : Int) - 1 - 1, some o.id⟩)]⟩ := by
  have htn : ((k : Int) - 1).toNat = k - 1 := by omega
  unfold itRemove
  simp only [EL.getIt, List.find?_cons, beq_self_eq_true, Option.map_some, deref_mid A B o nh nx _ hnd]
  unfold removeGuard at hgd
  simp only [hgd, Bool.false_eq_true, ↓reduceIte]
  simp only [htn, hDH, setObj_mid A B o nh nx _ r' hnd, hne, Bool.false_eq_true, ↓reduceIte]
  simp only [delIts, EL.setIt, List.map_cons, List.map_nil, beq_self_eq_true, ↓reduceIte]

theorem itRemove_empty_first (cfg : Cfg) (hfix : cfg.fixRemoveDepth = true) (B : List RObj) (o : RObj) (nh : Int)
    (nx k : Nat) (r' : HRange) (hnd : ((o :: B).map (·.id)).Nodup) (hgd : removeGuard o k = false)
    (hDH : hostrangeDeleteHost o.r (addU64 o.r.lo (k - 1)) = (r', none)) (he : r'.empty = true) :
    itRemove cfg ⟨o :: B, nh, nx, [(0, ⟨((0 : Nat) : Int), (k : Int) - 1, some o.id⟩)]⟩ 0 =
      .ok ⟨B, nh - 1, nx, [(0, ⟨((0 : Nat) : Int), ((0 : Nat) : Int) - 1,
              EL.hrAt ⟨B, nh - 1, nx, []⟩ ((0 : Nat) : Int)⟩)]⟩ := by
  have htn : ((k : Int) - 1).toNat = k - 1 := by omega
  have hd := deref_mid [] B o nh nx [(0, ⟨((0 : Nat) : Int), (k : Int) - 1, some o.id⟩)] (by simpa using hnd)
  have hs := setObj_mid [] B o nh nx [(0, ⟨((0 : Nat) : Int), (k : Int) - 1, some o.id⟩)] r' (by simpa using hnd)
  simp only [List.nil_append] at hd hs
  unfold itRemove
  simp only [EL.getIt, List.find?_cons, beq_self_eq_true, Option.map_some, hd]
  unfold removeGuard at hgd
  simp only [hgd, Bool.false_eq_true, ↓reduceIte]
  simp only [htn, hDH, hs, he, ↓reduceIte]
  simp only [deleteRange, hfix, Bool.not_true, Bool.false_eq_true, ↓reduceIte, Int.toNat_natCast,
    List.eraseIdx_zero, List.tail_cons, List.map_cons, List.map_nil]
  simp [EL.resetIt, EL.hrAt]

theorem itRemove_empty_later (cfg : Cfg) (hfix : cfg.fixRemoveDepth = true) (A B : List RObj) (p o : RObj) (nh : Int)
    (nx k : Nat) (r' : HRange) (hnd : (((A ++ [p]) ++ o :: B).map (·.id)).Nodup) (hgd : removeGuard o k = false)
    (hDH : hostrangeDeleteHost o.r (addU64 o.r.lo (k - 1)) = (r', none)) (he : r'.empty = true) :
    itRemove cfg ⟨(A ++ [p]) ++ o :: B, nh, nx, [(0, ⟨((A ++ [p]).length : Int), (k : Int) - 1, some o.id⟩)]⟩ 0 =
      .ok ⟨A ++ p :: B, nh - 1, nx, [(0, ⟨(A.length : Int), (subU64 p.r.hi p.r.lo : Nat), some p.id⟩)]⟩ := by
  have htn : ((k : Int) - 1).toNat = k - 1 := by omega
  unfold itRemove
  simp only [EL.getIt, List.find?_cons, beq_self_eq_true, Option.map_some, deref_mid (A ++ [p]) B o nh nx _ hnd]
  unfold removeGuard at hgd
  simp only [hgd, Bool.false_eq_true, ↓reduceIte]
  simp only [htn, hDH, setObj_mid (A ++ [p]) B o nh nx _ r' hnd, he, ↓reduceIte]
  have herase : ((A ++ [p]) ++ ({ o with r := r' } : RObj) :: B).eraseIdx (A ++ [p]).length = A ++ p :: B := by
    rw [eraseIdx_mid]; simp
  have hprev : (A ++ p :: B)[(A ++ [p]).length - 1]? = some p := by simp
  have hn0 : (A ++ [p]).length = A.length + 1 := by simp
  simp only [deleteRange, hfix, Bool.not_true, Bool.false_eq_true, ↓reduceIte, Int.toNat_natCast, herase,
    List.map_cons, List.map_nil]
  have hgt : ¬ (((A ++ [p]).length : Int) > ((A ++ [p]).length : Int)) := by omega
  simp only [hgt, ↓reduceIte, hprev]
  rw [hn0]
  simp only [Nat.add_sub_cancel]
  congr 5
  omega

/-! ### what every shape of removal has in common -/
theorem hostsL_cons (r : HRange) (rs : List HRange) : hostsL (r :: rs) = r.hosts ++ hostsL rs := by
  simp [hostsL]

theorem hostsL_nil : hostsL [] = [] := rfl

/-- the record `r` between RA and RB is replaced by MID, which denotes r's hosts without the
    (k-1)-th: records good, counter right, printing still in full, hosts as expected -/
theorem finish_remove (P : HRange → Prop) (e e2 : EL) (RA : List HRange) (r : HRange) (RB MID : List HRange) (k : Nat)
    (hold : e.ranges = RA ++ r :: RB) (hnew : e2.ranges = RA ++ MID ++ RB)
    (hmid : hostsL MID = r.hosts.take (k - 1) ++ r.hosts.drop k)
    (hgood : e.Good) (hn : ∀ q ∈ e.ranges, P q) (hk1 : 1 ≤ k) (hk : k ≤ r.hosts.length)
    (hmg : ∀ q ∈ MID, q.Good) (hmp : ∀ q ∈ MID, P q) (hnh : e2.nhosts = e.nhosts - 1) :
    e2.Good ∧ (∀ q ∈ e2.ranges, P q) ∧
      e2.hosts = hostsL RA ++ r.hosts.take (k - 1) ++ (r.hosts.drop k ++ hostsL RB) := by
  have hh2 : e2.hosts = hostsL RA ++ r.hosts.take (k - 1) ++ (r.hosts.drop k ++ hostsL RB) := by
    show hostsL e2.ranges = _
    rw [hnew, hostsL_append, hostsL_append, hmid]
    simp only [List.append_assoc]
  refine ⟨⟨?_, ?_⟩, ?_, hh2⟩
  · intro q hq
    rw [hnew] at hq
    simp only [List.mem_append] at hq
    rcases hq with (hq | hq) | hq
    · exact hgood.1 q (by rw [hold]; simp [hq])
    · exact hmg q hq
    · exact hgood.1 q (by rw [hold]; simp [hq])
  · rw [hnh, hh2]
    have h1 := hgood.2
    have : e.hosts = hostsL RA ++ (r.hosts ++ hostsL RB) := by
      show hostsL e.ranges = _
      rw [hold, hostsL_append, hostsL_cons]
    rw [this] at h1
    simp only [List.length_append, List.length_take, List.length_drop] at h1 ⊢
    omega
  · intro q hq
    rw [hnew] at hq
    simp only [List.mem_append] at hq
    rcases hq with (hq | hq) | hq
    · exact hn q (by rw [hold]; simp [hq])
    · exact hmp q hq
    · exact hn q (by rw [hold]; simp [hq])

theorem ids_shrink (A B : List RObj) (o : RObj) (r' : HRange) (nx : Nat)
    (h : ((A ++ o :: B).map (·.id)).Nodup ∧ ∀ x ∈ A ++ o :: B, x.id < nx) :
    ((A ++ ({ o with r := r' } : RObj) :: B).map (·.id)).Nodup ∧ ∀ x ∈ A ++ ({ o with r := r' } : RObj) :: B, x.id < nx := by
  constructor
  · have : (A ++ ({ o with r := r' } : RObj) :: B).map (·.id) = (A ++ o :: B).map (·.id) := by simp
    rw [this]; exact h.1
  · intro x hx
    simp only [List.mem_append, List.mem_cons] at hx
    rcases hx with hx | rfl | hx
    · exact h.2 x (by simp [hx])
    · exact h.2 o (by simp)
    · exact h.2 x (by simp [hx])

theorem ids_erase (A B : List RObj) (o : RObj) (nx : Nat)
    (h : ((A ++ o :: B).map (·.id)).Nodup ∧ ∀ x ∈ A ++ o :: B, x.id < nx) :
    ((A ++ B).map (·.id)).Nodup ∧ ∀ x ∈ A ++ B, x.id < nx := by
  constructor
  · have hs : ((A ++ B).map (·.id)).Sublist ((A ++ o :: B).map (·.id)) := by
      apply List.Sublist.map
      exact List.Sublist.append_left (List.sublist_cons_self o B) A
    exact hs.nodup h.1
  · intro x hx
    simp only [List.mem_append] at hx
    rcases hx with hx | hx
    · exact h.2 x (by simp [hx])
    · exact h.2 x (by simp [hx])

theorem ids_insert (A B : List RObj) (o' : RObj) (up : HRange) (nx : Nat)
    (h : ((A ++ o' :: B).map (·.id)).Nodup ∧ ∀ x ∈ A ++ o' :: B, x.id < nx) :
    ((A ++ o' :: (⟨nx, up⟩ : RObj) :: B).map (·.id)).Nodup ∧ ∀ x ∈ A ++ o' :: (⟨nx, up⟩ : RObj) :: B, x.id < nx + 1 := by
  constructor
  · have hp : (A ++ o' :: (⟨nx, up⟩ : RObj) :: B).Perm ((⟨nx, up⟩ : RObj) :: (A ++ o' :: B)) := by
      have e1 : A ++ o' :: (⟨nx, up⟩ : RObj) :: B = (A ++ [o']) ++ (⟨nx, up⟩ : RObj) :: B := by simp
      have e2 : A ++ o' :: B = (A ++ [o']) ++ B := by simp
      rw [e1, e2]
      exact List.perm_middle
    rw [(hp.map _).nodup_iff]
    simp only [List.map_cons, List.nodup_cons]
    refine ⟨?_, h.1⟩
    intro hm
    obtain ⟨x, hx, hxe⟩ := List.mem_map.mp hm
    have := h.2 x hx
    omega
  · intro x hx
    simp only [List.mem_append, List.mem_cons] at hx
    rcases hx with hx | rfl | rfl | hx
    · have := h.2 x (by simp [hx]); omega
    · have := h.2 x (by simp); omega
    · simp
    · have := h.2 x (by simp [hx]); omega

/-! ### `hostlist_remove` (repaired D19) -/
theorem removeGuard_ok (o : RObj) (k : Nat) (hg : o.r.Good) (hk1 : 1 ≤ k) (hk : k ≤ o.r.hosts.length) :
    removeGuard o k = false := by
  have hspan := hg.span
  have hl := hg.hosts_length
  unfold removeGuard
  have h1 : ¬ (((k : Int) - 1) < 0) := by omega
  cases hs : o.r.single with
  | true =>
    simp only [hs, ↓reduceIte] at hl
    have h2 : ¬ (((k : Int) - 1) > 0) := by omega
    simp [h1, h2] <;> omega
  | false =>
    have h3 : ¬ ((((k : Int) - 1).toNat) > subU64 o.r.hi o.r.lo) := by omega
    simp [h1, h3] <;> omega

/-- ONE `hostlist_remove` after a `hostlist_next` that handed out the (k-1)-th name of record i:
    exactly that host leaves the list, and the iterator stands in front of what was left -/
theorem itRemove_spec_pos (cfg : Cfg) (hfix : cfg.fixRemoveDepth = true) (P : HRange → Prop)
    (hmono : ∀ r r' : HRange, P r → r'.width = r.width → r'.hi ≤ r.hi → r'.single = r.single → P r')
    (e : EL) (hid : e.IdsOk) (hg : e.Good)
    (hn : ∀ q ∈ e.ranges, P q) (i k : Nat) (hc : Coh e i k) (r : HRange)
    (hr : e.ranges[i]? = some r) (hk1 : 1 ≤ k) (hk : k ≤ r.hosts.length) :
    ∃ (e2 : EL) (i2 k2 : Nat), itRemove cfg e 0 = .ok e2 ∧ e2.IdsOk ∧ e2.Good ∧
      (∀ q ∈ e2.ranges, P q) ∧ Coh e2 i2 k2 ∧
      (∀ q, e2.ranges[i2]? = some q → k2 ≤ q.hosts.length) ∧
      remaining e2.ranges i2 k2 = remaining e.ranges i k ∧
      e2.hosts = hostsL (e.ranges.take i) ++ r.hosts.take (k - 1) ++ remaining e.ranges i k ∧
      AtPos e2 i2 k2 := by
  -- lay the list out as A ++ o :: B
  obtain ⟨o, hro, hor⟩ : ∃ o, e.rs[i]? = some o ∧ o.r = r := by
    rw [ranges_getElem?] at hr
    cases h : e.rs[i]? with
    | none => rw [h] at hr; simp at hr
    | some o => rw [h] at hr; simp only [Option.map_some, Option.some.injEq] at hr; exact ⟨o, rfl, hr⟩
  subst hor
  obtain ⟨A, B, hsplit, hAl⟩ : ∃ A B, e.rs = A ++ o :: B ∧ A.length = i :=
    ⟨e.rs.take i, e.rs.drop (i + 1), split_one e.rs i o hro, by
      rw [List.length_take]; have := (List.getElem?_eq_some_iff.mp hro).1; omega⟩
  subst hAl
  obtain ⟨rs, nh, nx, its⟩ := e
  simp only at hsplit
  subst hsplit
  have hits : its = [(0, ⟨(A.length : Int), (k : Int) - 1, some o.id⟩)] := by
    have := hc
    unfold Coh at this
    simp only at this
    rw [this, hrAt_mid]
  subst hits
  have hnd := hid.1
  simp only at hnd
  have hidb : ∀ x ∈ A ++ o :: B, x.id < nx := hid.2
  have hog : o.r.Good := hg.1 o.r (by simp [EL.ranges])
  have hgd := removeGuard_ok o k hog hk1 hk
  have hranges : EL.ranges ⟨A ++ o :: B, nh, nx, [(0, ⟨(A.length : Int), (k : Int) - 1, some o.id⟩)]⟩ =
      A.map (·.r) ++ o.r :: B.map (·.r) := by simp [EL.ranges]
  have hRAl : (A.map (·.r)).length = A.length := by simp
  have hrem : remaining (EL.ranges ⟨A ++ o :: B, nh, nx, [(0, ⟨(A.length : Int), (k : Int) - 1, some o.id⟩)]⟩) A.length k =
      o.r.hosts.drop k ++ hostsL (B.map (·.r)) := by
    rw [hranges, ← hRAl, remaining_mid]
  have htakeA : (EL.ranges ⟨A ++ o :: B, nh, nx, [(0, ⟨(A.length : Int), (k : Int) - 1, some o.id⟩)]⟩).take A.length =
      A.map (·.r) := by
    rw [hranges, ← hRAl, List.take_left' rfl]
  rw [hrem, htakeA]
  have hop : P o.r := hn o.r (by rw [hranges]; simp)
  -- the four shapes (a single-host record is the "emptied" one)
  have hcases :
      (∃ r', hostrangeDeleteHost o.r (addU64 o.r.lo (k - 1)) = (r', none) ∧ r'.empty = true ∧ k = 1 ∧
          o.r.hosts.length = 1) ∨
      (∃ r', hostrangeDeleteHost o.r (addU64 o.r.lo (k - 1)) = (r', none) ∧ r'.empty = false ∧ r'.Good ∧
          P r' ∧ r'.hosts = o.r.hosts.take (k - 1) ++ o.r.hosts.drop k ∧
          r'.hosts.drop (k - 1) = o.r.hosts.drop k ∧ k - 1 ≤ r'.hosts.length) ∨
      (∃ r' up, hostrangeDeleteHost o.r (addU64 o.r.lo (k - 1)) = (r', some up) ∧ r'.Good ∧ up.Good ∧
          P r' ∧ P up ∧ r'.hosts = o.r.hosts.take (k - 1) ∧
          up.hosts = o.r.hosts.drop k) := by
    cases hs : o.r.single with
    | true =>
      left
      obtain ⟨hlo, hhi⟩ := hog.1 hs
      have hl : o.r.hosts.length = 1 := by simp [HRange.hosts, hs]
      have hk' : k = 1 := by omega
      subst hk'
      refine ⟨{ o.r with lo := addU64 o.r.lo 1 }, ?_, ?_, rfl, hl⟩
      · unfold hostrangeDeleteHost
        have : addU64 o.r.lo (1 - 1) = o.r.lo := by simp [addU64, hlo, U64]
        simp [this]
      · simp [HRange.empty, hlo, hhi, addU64, U64]
    | false =>
      have hj : k - 1 < o.r.hosts.length := by omega
      have hkk : k - 1 + 1 = k := by omega
      rcases hostrangeDeleteHost_cases hog hs hj with
        ⟨r', hd, he, hj0, hl⟩ | ⟨r', hd, he, hg', hj0, hh, hw, hhi, hsg⟩ |
        ⟨r', hd, he, hg', hj0, hjl, hh, hw, hhi, hsg⟩ |
        ⟨r', up, hd, hg1, hg2, hh1, hh2, hw1, hhi1, hs1, hw2, hhi2, hs2⟩
      · left; exact ⟨r', hd, he, by omega, hl⟩
      · right; left
        have hk' : k = 1 := by omega
        subst hk'
        refine ⟨r', hd, he, hg', hmono _ _ hop hw hhi hsg, by rw [hh]; simp, by rw [hh]; simp, by simp⟩
      · right; left
        have hd0 : o.r.hosts.drop k = [] := List.drop_eq_nil_iff.mpr (by omega)
        refine ⟨r', hd, he, hg', hmono _ _ hop hw hhi hsg, by rw [hh, hd0]; simp, ?_, ?_⟩
        · rw [hd0, hh]
          apply List.drop_eq_nil_iff.mpr
          rw [List.length_take]; omega
        · rw [hh, List.length_take]; omega
      · right; right
        rw [hkk] at hh2
        exact ⟨r', up, hd, hg1, hg2, hmono _ _ hop hw1 hhi1 hs1, hmono _ _ hop hw2 hhi2 hs2, hh1, hh2⟩
  rcases hcases with ⟨r', hd, he, hk', hl⟩ | ⟨r', hd, he, hg', hp', hh, hdrop, hlen⟩ |
      ⟨r', up, hd, hg1, hg2, hp1, hp2, hh1, hh2⟩
  · -- the record is emptied and goes away
    subst hk'
    have hmid0 : hostsL [] = o.r.hosts.take (1 - 1) ++ o.r.hosts.drop 1 := by
      have : o.r.hosts.drop 1 = [] := List.drop_eq_nil_iff.mpr (by omega)
      simp [this, hostsL]
    have hd1 : o.r.hosts.drop 1 = [] := List.drop_eq_nil_iff.mpr (by omega)
    rcases List.eq_nil_or_concat A with hA | ⟨A', p, hA⟩
    · subst hA
      have hcomp := itRemove_empty_first cfg hfix B o nh nx 1 r' (by simpa using hnd) hgd hd he
      simp only [List.nil_append, List.length_nil] at hcomp ⊢
      refine ⟨_, 0, 0, hcomp, ?_, ?_⟩
      · have := ids_erase [] B o nx ⟨by simpa using hnd, by simpa using hidb⟩
        simpa [EL.IdsOk] using this
      · obtain ⟨h1, h2, h3⟩ := finish_remove P
          ⟨o :: B, nh, nx, [(0, ⟨((0 : Nat) : Int), ((1 : Nat) : Int) - 1, some o.id⟩)]⟩
          ⟨B, nh - 1, nx, [(0, ⟨((0 : Nat) : Int), ((0 : Nat) : Int) - 1, EL.hrAt ⟨B, nh - 1, nx, []⟩ ((0 : Nat) : Int)⟩)]⟩
          [] o.r (B.map (·.r)) [] 1 (by simp [EL.ranges]) (by simp [EL.ranges]) hmid0 (by simpa using hg)
          (by simpa using hn) (Nat.le_refl _) (by omega) (by simp) (by simp) rfl
        refine ⟨h1, h2, rfl, by intro q _; omega, ?_, ?_, AtPosL.zero _⟩
        · rw [hd1]
          simp only [List.nil_append]
          exact remaining_zero _
        · rw [h3]; simp [hostsL]
    · rw [List.concat_eq_append] at hA
      subst hA
      have hnd' : (((A' ++ [p]) ++ o :: B).map (·.id)).Nodup := hnd
      have hcomp := itRemove_empty_later cfg hfix A' B p o nh nx 1 r' hnd' hgd hd he
      have hpg : p.r.Good := hg.1 p.r (by simp [EL.ranges])
      refine ⟨_, A'.length, p.r.hosts.length, hcomp, ?_, ?_⟩
      · have := ids_erase (A' ++ [p]) B o nx ⟨hnd', hidb⟩
        simpa [EL.IdsOk] using this
      · obtain ⟨h1, h2, h3⟩ := finish_remove P
          ⟨(A' ++ [p]) ++ o :: B, nh, nx, [(0, ⟨((A' ++ [p]).length : Int), ((1 : Nat) : Int) - 1, some o.id⟩)]⟩
          ⟨A' ++ p :: B, nh - 1, nx, [(0, ⟨(A'.length : Int), (subU64 p.r.hi p.r.lo : Nat), some p.id⟩)]⟩
          ((A' ++ [p]).map (·.r)) o.r (B.map (·.r)) [] 1 (by simp [EL.ranges]) (by simp [EL.ranges]) hmid0 hg
          hn (Nat.le_refl _) (by omega) (by simp) (by simp) rfl
        refine ⟨h1, h2, ?_, ?_, ?_, ?_, AtPosL.of_get (r := p.r) (by simp [EL.ranges]) (Nat.le_refl _)⟩
        · unfold Coh
          simp only
          rw [hrAt_mid]
          have := hpg.span
          congr 4
          omega
        · intro q hq
          have : (EL.ranges ⟨A' ++ p :: B, nh - 1, nx, [(0, ⟨(A'.length : Int), (subU64 p.r.hi p.r.lo : Nat), some p.id⟩)]⟩)[A'.length]? = some p.r := by
            simp [EL.ranges]
          rw [this] at hq
          simp only [Option.some.injEq] at hq
          rw [← hq]; exact Nat.le_refl _
        · have hr2 : EL.ranges ⟨A' ++ p :: B, nh - 1, nx, [(0, ⟨(A'.length : Int), (subU64 p.r.hi p.r.lo : Nat), some p.id⟩)]⟩ =
              A'.map (·.r) ++ p.r :: B.map (·.r) := by simp [EL.ranges]
          have hl2 : (A'.map (·.r)).length = A'.length := by simp
          rw [hr2, ← hl2, remaining_mid, hd1]
          simp
        · rw [h3]
  · -- the record shrinks at an end
    have hcomp := itRemove_shrink cfg A B o nh nx k r' hnd hgd hd he
    refine ⟨_, A.length, k - 1, hcomp, ?_, ?_⟩
    · have := ids_shrink A B o r' nx ⟨hnd, hidb⟩
      simpa [EL.IdsOk] using this
    · obtain ⟨h1, h2, h3⟩ := finish_remove P
        ⟨A ++ o :: B, nh, nx, [(0, ⟨(A.length : Int), (k : Int) - 1, some o.id⟩)]⟩
        ⟨A ++ { o with r := r' } :: B, nh - 1, nx, [(0, ⟨(A.length : Int), (k : Int) - 1 - 1, some o.id⟩)]⟩
        (A.map (·.r)) o.r (B.map (·.r)) [r'] k hranges (by simp [EL.ranges]) (by simp [hostsL, hh]) hg
        hn hk1 hk (by simpa using hg') (by simpa using hp') rfl
      have hr2 : EL.ranges ⟨A ++ { o with r := r' } :: B, nh - 1, nx, [(0, ⟨(A.length : Int), (k : Int) - 1 - 1, some o.id⟩)]⟩ =
          A.map (·.r) ++ r' :: B.map (·.r) := by simp [EL.ranges]
      refine ⟨h1, h2, ?_, ?_, ?_, ?_, AtPosL.of_get (r := r') (by simp [EL.ranges]) hlen⟩
      · unfold Coh
        simp only
        rw [hrAt_mid]
        congr 4
        omega
      · intro q hq
        have : (EL.ranges ⟨A ++ { o with r := r' } :: B, nh - 1, nx, [(0, ⟨(A.length : Int), (k : Int) - 1 - 1, some o.id⟩)]⟩)[A.length]? = some r' := by
          simp [EL.ranges]
        rw [this] at hq
        simp only [Option.some.injEq] at hq
        rw [← hq]; exact hlen
      · rw [hr2, ← hRAl, remaining_mid, hdrop]
      · rw [h3]
  · -- the record is split
    have hcomp := itRemove_split cfg A B o nh nx k r' up hnd hgd hd
    refine ⟨_, A.length + 1, 0, hcomp, ?_, ?_⟩
    · have h1 := ids_shrink A B o r' nx ⟨hnd, hidb⟩
      have := ids_insert A B { o with r := r' } up nx h1
      simpa [EL.IdsOk] using this
    · obtain ⟨h1, h2, h3⟩ := finish_remove P
        ⟨A ++ o :: B, nh, nx, [(0, ⟨(A.length : Int), (k : Int) - 1, some o.id⟩)]⟩
        ⟨A ++ { o with r := r' } :: ⟨nx, up⟩ :: B, nh - 1, nx + 1,
          [(0, ⟨((A.length + 1 : Nat) : Int), ((0 : Nat) : Int) - 1, some nx⟩)]⟩
        (A.map (·.r)) o.r (B.map (·.r)) [r', up] k hranges (by simp [EL.ranges]) (by simp [hostsL, hh1, hh2]) hg
        hn hk1 hk (by intro q hq; simp at hq; rcases hq with rfl | rfl <;> assumption)
        (by intro q hq; simp at hq; rcases hq with rfl | rfl <;> assumption) rfl
      have hr2 : EL.ranges ⟨A ++ { o with r := r' } :: ⟨nx, up⟩ :: B, nh - 1, nx + 1,
          [(0, ⟨((A.length + 1 : Nat) : Int), ((0 : Nat) : Int) - 1, some nx⟩)]⟩ =
          (A.map (·.r) ++ [r']) ++ up :: B.map (·.r) := by simp [EL.ranges]
      have hl2 : (A.map (·.r) ++ [r']).length = A.length + 1 := by simp
      refine ⟨h1, h2, ?_, by intro q _; omega, ?_, ?_,
        AtPosL.of_get (r := up) (by rw [hr2, ← hl2]; simp) (Nat.zero_le _)⟩
      · unfold Coh
        simp only
        have e1 : A ++ ({ o with r := r' } : RObj) :: (⟨nx, up⟩ : RObj) :: B =
            (A ++ [({ o with r := r' } : RObj)]) ++ (⟨nx, up⟩ : RObj) :: B := by simp
        have e2 : ((A.length + 1 : Nat) : Int) = ((A ++ [({ o with r := r' } : RObj)]).length : Int) := by simp
        rw [e1, e2, hrAt_mid]
      · rw [hr2, ← hl2, remaining_mid, hh2]
        simp
      · rw [h3]

/-- ONE `hostlist_remove` (the statement C02's filter loop uses) -/
theorem itRemove_spec (cfg : Cfg) (hfix : cfg.fixRemoveDepth = true) (P : HRange → Prop)
    (hmono : ∀ r r' : HRange, P r → r'.width = r.width → r'.hi ≤ r.hi → r'.single = r.single → P r')
    (e : EL) (hid : e.IdsOk) (hg : e.Good)
    (hn : ∀ q ∈ e.ranges, P q) (i k : Nat) (hc : Coh e i k) (r : HRange)
    (hr : e.ranges[i]? = some r) (hk1 : 1 ≤ k) (hk : k ≤ r.hosts.length) :
    ∃ (e2 : EL) (i2 k2 : Nat), itRemove cfg e 0 = .ok e2 ∧ e2.IdsOk ∧ e2.Good ∧
      (∀ q ∈ e2.ranges, P q) ∧ Coh e2 i2 k2 ∧
      (∀ q, e2.ranges[i2]? = some q → k2 ≤ q.hosts.length) ∧
      remaining e2.ranges i2 k2 = remaining e.ranges i k ∧
      e2.hosts = hostsL (e.ranges.take i) ++ r.hosts.take (k - 1) ++ remaining e.ranges i k := by
  obtain ⟨e2, i2, k2, h1, h2, h3, h4, h5, h6, h7, h8, _⟩ :=
    itRemove_spec_pos cfg hfix P hmono e hid hg hn i k hc r hr hk1 hk
  exact ⟨e2, i2, k2, h1, h2, h3, h4, h5, h6, h7, h8⟩

end PdshVerif.Hostlist
