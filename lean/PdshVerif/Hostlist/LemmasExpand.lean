/-
  opt.c `wcoll_expand` (C01 / C02): every host of the working collective is shifted out and pushed
  again as an expression of its own — a first-level name with a second bracket pair is expanded, a
  plain name comes back as itself.
-/
import PdshVerif.Hostlist.LemmasCreate
import PdshVerif.Hostlist.LemmasTok
import PdshVerif.Hostlist.LemmasShift
import PdshVerif.Hostlist.Cli

namespace PdshVerif.Hostlist
open PdshVerif.Gen

/-- `hostlist_create` on the text of ONE well-formed word -/
theorem create_word (cfg : Cfg) (w : Spec.Word) (hw : w.WF = true) (hd : wordDom cfg w) :
    ∃ h, create cfg (Spec.renderWord w) = .ok h ∧ h.Good ∧ h.hosts = w.expand₁ := by
  obtain ⟨st, h1, h2, h3⟩ := createToks_words cfg [w] ⟨HL.new, 0⟩
    (fun x hx => by simp at hx; rw [hx]; exact hw) (fun x hx => by simp at hx; rw [hx]; exact hd) HL.new_good
  rw [HL.new_hosts, List.nil_append] at h3
  refine ⟨st.hl, ?_, h2, by rw [h3]; simp [Spec.expand₁]⟩
  have hr : Spec.render [] [(w, [])] = Spec.renderWord w := by simp [Spec.render]
  have ht := tokens_render [(w, [])] [] (by simp) (by simp [Spec.sepsOK]) (fun p hp => by simp at hp; rw [hp]; exact hw)
  unfold create createFrom
  rw [← hr, ht]
  simp only [List.map_cons, List.map_nil] at h1 ⊢
  rw [h1]

/-- `hostlist_push(hl, word)` inside pdsh for a well-formed word: its first-level names are appended -/
theorem hlPush_word (cfg : Cfg) (acc : HL) (hg : acc.Good) (w : Spec.Word) (hw : w.WF = true) (hd : wordDom cfg w) :
    ∃ acc', hlPush cfg acc (Spec.renderWord w) = .ok acc' ∧ acc'.Good ∧ acc'.hosts = acc.hosts ++ w.expand₁ := by
  obtain ⟨n, hc, hng, hnh⟩ := create_word cfg w hw hd
  obtain ⟨h1, h2⟩ := pushList_hosts acc n hg hng
  refine ⟨pushList acc n, ?_, h1, by rw [h2, hnh]⟩
  unfold hlPush
  rw [hc]

/-- the loop of `wcoll_expand` over a list whose hosts are the texts of the words `ws` -/
theorem wcollExpandLoop_words (cfg : Cfg) : ∀ (fuel : Nat) (rs : List HRange) (nh : Int) (new : HL) (ws : List Spec.Word),
    (∀ r ∈ rs, r.Good) → (∀ r ∈ rs, r.ShiftFits) → nh = (hostsL rs).length → new.Good → ws.length < fuel →
    hostsL rs = ws.map Spec.renderWord → (∀ w ∈ ws, w.WF = true) → (∀ w ∈ ws, wordDom cfg w) →
    ∃ h', wcollExpandLoop cfg fuel rs nh new = .ok h' ∧ h'.Good ∧ h'.hosts = new.hosts ++ Spec.expand₁ ws
  | 0, _, _, _, _, _, _, _, _, hlt, _, _, _ => by omega
  | fuel + 1, rs, nh, new, ws, hg, hf, hn, hng, hlt, hws, hwf, hdom => by
    unfold wcollExpandLoop
    rcases shiftL_spec hg hf hn with ⟨hnil, hsh⟩ | ⟨x, rs', hsh, hhosts, hg', hf'⟩
    · subst hnil
      have hn0 : nh = 0 := by simpa [hostsL] using hn
      have hws0 : ws = [] := by
        have : (ws.map Spec.renderWord) = [] := by rw [← hws]; rfl
        simpa using this
      subst hn0 hws0
      simp only [hsh]
      exact ⟨new, by simp, hng, by simp [Spec.expand₁]⟩
    · have hne : rs ≠ [] := by
        intro h0; rw [h0] at hhosts; simp [hostsL] at hhosts
      have hcr : (decide (nh > 0) && rs.isEmpty) = false := by
        cases rs with
        | nil => exact absurd rfl hne
        | cons _ _ => simp
      simp only [hcr, Bool.false_eq_true, ↓reduceIte, hsh]
      cases ws with
      | nil => rw [hhosts] at hws; simp at hws
      | cons w ws' =>
        rw [hhosts] at hws
        simp only [List.map_cons, List.cons.injEq] at hws
        obtain ⟨hx, hrest⟩ := hws
        obtain ⟨acc', hp, hag, hah⟩ := hlPush_word cfg new hng w (hwf w (by simp)) (hdom w (by simp))
        rw [hx, hp]
        simp only
        have hn' : nh - 1 = (hostsL rs').length := by
          rw [hhosts] at hn; simp only [List.length_cons] at hn; omega
        obtain ⟨h', hl, hg2, hh2⟩ := wcollExpandLoop_words cfg fuel rs' (nh - 1) acc' ws' hg' hf' hn' hag
          (by simp at hlt; omega) hrest (fun y hy => hwf y (by simp [hy])) (fun y hy => hdom y (by simp [hy]))
        refine ⟨h', hl, hg2, ?_⟩
        rw [hh2, hah]
        simp [Spec.expand₁]

/-- `wcoll_expand` on a list whose hosts are the texts of the words `ws`: the first-level
    expansion of every one of them, in order -/
theorem wcollExpand_words (cfg : Cfg) (h : HL) (hg : h.Good) (hf : ∀ r ∈ h.ranges.toList, r.ShiftFits)
    (ws : List Spec.Word) (hws : h.hosts = ws.map Spec.renderWord) (hwf : ∀ w ∈ ws, w.WF = true)
    (hdom : ∀ w ∈ ws, wordDom cfg w) :
    ∃ h', wcollExpand cfg h = .ok h' ∧ h'.Good ∧ h'.hosts = Spec.expand₁ ws := by
  have hlen : ws.length = h.hosts.length := by rw [hws]; simp
  obtain ⟨h', hl, hg2, hh2⟩ := wcollExpandLoop_words cfg (h.nhosts.toNat + 1) h.ranges.toList h.nhosts HL.new ws
    hg.1 hf hg.2 HL.new_good (by have := hg.2; omega) hws hwf hdom
  refine ⟨h', hl, hg2, ?_⟩
  rw [hh2, HL.new_hosts, List.nil_append]

/-! ### the words a first-level name is read as -/
/-- the first-level names of a word, as words -/
def reword : Spec.Word → List Spec.Word
  | .plain n => [.plain n]
  | .br pre g1 mid none => (Spec.groupNames g1).map fun n1 => .plain (pre ++ n1 ++ mid)
  | .br pre g1 mid (some (g2, post)) => (Spec.groupNames g1).map fun n1 => .br (pre ++ n1 ++ mid) g2 post none

theorem reword_render (w : Spec.Word) : (reword w).map Spec.renderWord = w.expand₁ := by
  cases w with
  | plain n => rfl
  | br pre g1 mid g2 =>
    cases g2 with
    | none => simp [reword, Spec.Word.expand₁, Spec.renderWord, Spec.renderTail]
    | some p =>
      obtain ⟨g2, post⟩ := p
      simp [reword, Spec.Word.expand₁, Spec.renderWord, Spec.renderTail]

theorem reword_expand (w : Spec.Word) : Spec.expand₁ (reword w) = w.expand₂ := by
  cases w with
  | plain n => simp [reword, Spec.expand₁, Spec.Word.expand₁, Spec.Word.expand₂]
  | br pre g1 mid g2 =>
    cases g2 with
    | none =>
      simp only [reword, Spec.expand₁, Spec.Word.expand₂, List.flatMap_map]
      induction Spec.groupNames g1 with
      | nil => rfl
      | cons a l ih =>
        simp only [List.flatMap_cons, List.map_cons, ih]
        rfl
    | some p =>
      obtain ⟨g2, post⟩ := p
      simp only [reword, Spec.expand₁, Spec.Word.expand₂, List.flatMap_map]
      induction Spec.groupNames g1 with
      | nil => rfl
      | cons a l ih =>
        simp only [List.flatMap_cons, ih]
        congr 1
        simp [Spec.Word.expand₁, Spec.renderTail]

/-! ### first-level names are well-formed words again -/
theorem textChar_of_digit {c : Char} (h : isDigit c = true) : Spec.textChar c = true := by
  have hd := (isDigit_iff c).mp h
  unfold Spec.textChar
  simp only [ne_eq, Bool.and_eq_true, decide_eq_true_eq]
  refine ⟨⟨⟨⟨?_, ?_⟩, ?_⟩, ?_⟩, ?_⟩ <;> (intro h0; rw [h0] at hd; simp at hd)

theorem pad_text (w n : Nat) : Spec.pad w n ≠ [] ∧ (Spec.pad w n).all Spec.textChar = true := by
  unfold Spec.pad
  constructor
  · intro h0
    have hp : 0 < (Nat.toDigits 10 n).length := ndig_pos n
    have := congrArg List.length h0
    simp only [List.length_append, List.length_replicate, List.length_nil] at this
    omega
  · rw [List.all_append]
    simp only [Bool.and_eq_true, List.all_eq_true]
    constructor
    · intro c hc
      rw [List.mem_replicate] at hc
      rw [hc.2]; decide
    · intro c hc
      exact textChar_of_digit (toDigits_allDigits n c hc)

theorem groupNames_text (g : List Spec.Range) : ∀ n1 ∈ Spec.groupNames g, n1 ≠ [] ∧ n1.all Spec.textChar = true := by
  intro n1 h
  unfold Spec.groupNames at h
  obtain ⟨r, _, hr⟩ := List.mem_flatMap.mp h
  unfold Spec.Range.names at hr
  obtain ⟨n, _, rfl⟩ := List.mem_map.mp hr
  exact pad_text _ _

theorem reword_wf (w : Spec.Word) (hw : w.WF = true) : ∀ w' ∈ reword w, w'.WF = true := by
  intro w' hw'
  cases w with
  | plain n => simp [reword] at hw'; rw [hw']; exact hw
  | br pre g1 mid g2 =>
    cases g2 with
    | none =>
      simp only [reword, List.mem_map] at hw'
      obtain ⟨n1, hn1, rfl⟩ := hw'
      obtain ⟨hne, htx⟩ := groupNames_text g1 n1 hn1
      simp only [Spec.Word.WF, Bool.and_eq_true, Bool.and_true] at hw
      simp only [Spec.Word.WF, List.all_append, Bool.and_eq_true, Bool.not_eq_true', List.isEmpty_eq_false_iff]
      refine ⟨?_, ⟨hw.1.1, htx⟩, hw.2⟩
      intro h0
      have := congrArg List.length h0
      simp only [List.length_append, List.length_nil] at this
      have : n1.length = 0 := by omega
      exact hne (List.eq_nil_of_length_eq_zero this)
    | some p =>
      obtain ⟨g2, post⟩ := p
      simp only [reword, List.mem_map] at hw'
      obtain ⟨n1, hn1, rfl⟩ := hw'
      obtain ⟨_, htx⟩ := groupNames_text g1 n1 hn1
      simp only [Spec.Word.WF, Bool.and_eq_true] at hw
      simp only [Spec.Word.WF, List.all_append, Bool.and_eq_true, Bool.and_true]
      exact ⟨⟨⟨⟨hw.1.1.1, htx⟩, hw.1.2⟩, hw.2.1⟩, hw.2.2⟩

/-- `wcoll_expand` on a list that denotes the first-level expansion of a well-formed expression:
    the full (two-level) expansion -/
theorem wcollExpand_expand₂ (cfg : Cfg) (e : Spec.Expr) (hw : Spec.WF e = true)
    (hd2 : ∀ w ∈ e, ∀ w' ∈ reword w, wordDom cfg w') (h : HL) (hg : h.Good)
    (hf : ∀ r ∈ h.ranges.toList, r.ShiftFits) (hh : h.hosts = Spec.expand₁ e) :
    ∃ h', wcollExpand cfg h = .ok h' ∧ h'.Good ∧ h'.hosts = Spec.expand₂ e := by
  have hw' : ∀ w ∈ e, w.WF = true := by
    unfold Spec.WF at hw; simpa [List.all_eq_true] using hw
  obtain ⟨h', h1, h2, h3⟩ := wcollExpand_words cfg h hg hf (e.flatMap reword)
    (by
      rw [hh, List.map_flatMap]
      unfold Spec.expand₁
      apply flatMap_congr'
      intro w _
      exact (reword_render w).symm)
    (fun w' hw'' => by
      obtain ⟨w, hwe, hww⟩ := List.mem_flatMap.mp hw''
      exact reword_wf w (hw' w hwe) w' hww)
    (fun w' hw'' => by
      obtain ⟨w, hwe, hww⟩ := List.mem_flatMap.mp hw''
      exact hd2 w hwe w' hww)
  refine ⟨h', h1, h2, ?_⟩
  rw [h3]
  unfold Spec.expand₁ Spec.expand₂
  rw [List.flatMap_assoc]
  apply flatMap_congr'
  intro w _
  exact reword_expand w

end PdshVerif.Hostlist
