/-
  C16: the `qsort` + reset step of `hostlist_sort` with any number of live iterators refines the plain
  list's `sort`: the same names with the same multiplicities, every cursor back at 0.
-/
import PdshVerif.Hostlist.EditSortLemmas
import PdshVerif.Hostlist.EditPushEnd

namespace PdshVerif.Hostlist
open PdshVerif.Gen

theorem sortReset_refinesM (cfg : Cfg) (hfs : cfg.fixIterSuffix = true) (e : EL) (p : EditSpec.PL) (fr : Nat → Bool)
    (h : RefM cfg e p fr) :
    EditSpec.sort p (sortReset cfg e).hosts = some ⟨(sortReset cfg e).hosts, p.cur.map fun (k, _) => (k, 0)⟩ ∧
      RefM cfg (sortReset cfg e) ⟨(sortReset cfg e).hosts, p.cur.map fun (k, _) => (k, 0)⟩ (fun _ => false) := by
  have hb := h.base
  have hgood : e.Good := hb.good
  have hids : e.IdsOk := hb.ids
  have hhosts : e.hosts = p.names := hb.hosts
  obtain ⟨hperm, hnh, hkeys', hreset⟩ := sortReset_spec cfg e
  have hprs : (sortReset cfg e).rs.Perm e.rs := sortRanges_perm cfg e.rs
  have hkeys : e.its.map (·.1) = p.cur.map (·.1) := All2.keys (fun a b hab => hab.1) h.each
  refine ⟨?_, ?_⟩
  · unfold EditSpec.sort
    have hok : EditSpec.sortOk p (sortReset cfg e).hosts = true := by
      unfold EditSpec.sortOk
      rw [← hhosts]
      simp only [Bool.and_eq_true, beq_iff_eq, List.all_eq_true]
      exact ⟨hperm.length_eq, fun x _ => hperm.count_eq x⟩
    rw [hok]
    rfl
  · have hid' : (sortReset cfg e).IdsOk := by
      refine ⟨(hprs.map _).nodup_iff.mpr hids.1, fun o ho => ?_⟩
      exact hids.2 o (hprs.mem_iff.mp ho)
    have hg' : (sortReset cfg e).Good := by
      refine ⟨fun r hr => ?_, ?_⟩
      · have : r ∈ e.ranges := ((hprs.map (·.r)).mem_iff).mp hr
        exact hgood.1 r this
      · rw [hnh, hgood.2, hperm.length_eq]
    have hb' : Ref cfg ((sortReset cfg e).withIts [(0, (sortReset cfg e).resetIt)]) ⟨(sortReset cfg e).hosts, [(0, 0)]⟩ 0 false := by
      refine ⟨hid', hg', fun _ _ => Or.inl hfs, rfl, rfl, Nat.zero_le _, 0, 0, ?_, ?_, by intro hf; simp at hf⟩
      · unfold Coh
        rfl
      · show remaining (sortReset cfg e).ranges 0 0 = _
        rw [remaining_zero]
        rfl
    refine ⟨hb', by rw [hkeys']; exact h.keys, ?_⟩
    apply all2_of_keys
    · rw [hkeys', hkeys, List.map_map]
      apply List.map_congr_left
      intro ⟨k, c⟩ _
      rfl
    · intro a ha b hb2
      obtain ⟨q, _, hq⟩ := List.mem_map.mp hb2
      have hb0 : b.2 = 0 := by rw [← hq]
      rw [hreset a ha, hb0]
      exact hb'

end PdshVerif.Hostlist
