/-
  Token-level refinement (C01): `createToks` on the rendered words of a well-formed expression
  builds a `Good` list whose denotation is `Spec.expand₁`.
-/
import PdshVerif.Hostlist.LemmasDigits
import PdshVerif.Hostlist.LemmasParse
import PdshVerif.Hostlist.Spec

namespace PdshVerif.Hostlist
open PdshVerif.Gen

/-! ### cutting and splitting -/
theorem cutAt_append {c : Char} : ∀ {a : Str} (b : Str), c ∉ a → cutAt c (a ++ c :: b) = (a, some b)
  | [], b, _ => by simp [cutAt]
  | x :: xs, b, h => by
    have hx : x ≠ c := fun e => h (by simp [e])
    have := cutAt_append (a := xs) b (fun hm => h (List.mem_cons_of_mem _ hm))
    simp [cutAt, hx, this]

theorem cutAt_none {c : Char} : ∀ {a : Str}, c ∉ a → cutAt c a = (a, none)
  | [], _ => by simp [cutAt]
  | x :: xs, h => by
    have hx : x ≠ c := fun e => h (by simp [e])
    have := cutAt_none (a := xs) (fun hm => h (List.mem_cons_of_mem _ hm))
    simp [cutAt, hx, this]

theorem splitAll_notin {c : Char} : ∀ {a : Str}, c ∉ a → splitAll c a = [a]
  | [], _ => by simp [splitAll]
  | x :: xs, h => by
    have hx : x ≠ c := fun e => h (by simp [e])
    have := splitAll_notin (a := xs) (fun hm => h (List.mem_cons_of_mem _ hm))
    simp [splitAll, hx, this]

theorem splitAll_append {c : Char} : ∀ {a : Str} (b : Str), c ∉ a →
    splitAll c (a ++ c :: b) = a :: splitAll c b
  | [], b, _ => by simp [splitAll]
  | x :: xs, b, h => by
    have hx : x ≠ c := fun e => h (by simp [e])
    have := splitAll_append (a := xs) b (fun hm => h (List.mem_cons_of_mem _ hm))
    simp [splitAll, hx, this]

theorem splitAll_joinComma : ∀ (items : List Str), items ≠ [] → (∀ it ∈ items, ',' ∉ it) →
    splitAll ',' (Spec.joinComma items) = items
  | [], h, _ => absurd rfl h
  | [x], _, hx => by simp [Spec.joinComma, splitAll_notin (hx x (by simp))]
  | x :: y :: rest, _, hx => by
    have := splitAll_joinComma (y :: rest) (by simp) (fun it hit => hx it (by simp [hit]))
    simp only [Spec.joinComma]
    rw [splitAll_append _ (hx x (by simp)), this]

/-! ### bridging the spec's vocabulary -/
theorem spec_pad (w n : Nat) : Spec.pad w n = fmtPad w n := rfl
theorem spec_val (s : Str) : Spec.val s = dval s := rfl

theorem spec_digits {s : Str} (h : Spec.digits s = true) : allDigits s ∧ s ≠ [] := by
  unfold Spec.digits at h
  simp only [Bool.and_eq_true, Bool.not_eq_true', List.isEmpty_eq_false_iff, List.all_eq_true] at h
  exact ⟨fun c hc => h.2 c hc, h.1⟩

theorem digit_ne {c x : Char} (h : isDigit c = true) (hx : isDigit x = false) : c ≠ x := by
  intro e; rw [e, hx] at h; exact absurd h (by decide)

theorem allDigits_notin {s : Str} (h : allDigits s) {x : Char} (hx : isDigit x = false) : x ∉ s :=
  fun hm => digit_ne (h x hm) hx rfl

/-! ### one typed range -/
/-- the record the model must build for a typed range -/
def srOf (r : Spec.Range) : SR := ⟨r.lo, r.hi, r.loS.length⟩

theorem loTextOk_digits (cfg : Cfg) {s : Str} (h : allDigits s) : loTextOk cfg s = true := by
  unfold loTextOk
  simp only [Bool.or_eq_true, Bool.not_eq_true', List.all_eq_true]
  right; exact h

theorem hiTextOk_digits (cfg : Cfg) {s : Str} (h : allDigits s) (hne : s ≠ []) : hiTextOk cfg s = true := by
  unfold hiTextOk
  simp only [Bool.or_eq_true, Bool.not_eq_true', Bool.and_eq_true, List.isEmpty_eq_false_iff,
    List.all_eq_true]
  right; exact ⟨hne, h⟩

/-- a well-formed typed range (digits, lo ≤ hi, < 16384 apart, below 2^64-1) is parsed to its
    values, with the width of the low bound as typed; errno is left alone — in EVERY variant -/
theorem parseSingleRange_render (cfg : Cfg) (e : Nat) (r : Spec.Range) (hw : r.WF = true)
    (hd : r.hi < ULONG_MAX) :
    parseSingleRange cfg e (Spec.renderRange r) = .ok (srOf r) e := by
  unfold Spec.Range.WF at hw
  simp only [Bool.and_eq_true, decide_eq_true_eq] at hw
  obtain ⟨⟨⟨⟨hlo, hhi⟩, hle⟩, hsz⟩, h64⟩ := hw
  obtain ⟨dlo, nlo⟩ := spec_digits hlo
  have hM : (2 : Nat) ^ 64 = ULONG_MAX + 1 := by decide
  have hum : ULONG_MAX = 18446744073709551615 := rfl
  have hu64 : U64 = 18446744073709551616 := rfl
  rw [hM] at h64
  have hrl : Spec.RANGE_LIMIT = 16384 := rfl
  rw [hrl] at hsz
  have hMR : Spec.RANGE_LIMIT = MAX_RANGE := by decide
  have hlov : dval r.loS ≤ ULONG_MAX := by
    have : r.lo ≤ r.hi := hle
    unfold Spec.Range.lo at this; rw [spec_val] at this; omega
  have hlo' := strtoul_digits dlo nlo hlov
  have hbig : rangeTooBig r.lo r.hi = false := by
    unfold rangeTooBig
    rw [subU64_of_le hle (by omega)]
    unfold addU64
    rw [Nat.mod_eq_of_lt (by omega)]
    simp only [gt_iff_lt, decide_eq_false_iff_not, Nat.not_lt]
    rw [← hMR, hrl]; omega
  have hmx : ulongMaxRejected cfg r.hi = false := by
    unfold ulongMaxRejected
    have : r.hi ≠ ULONG_MAX := by omega
    simp [this]
  have hchk : ∀ e, rangeCheck cfg e r.loS.length r.lo r.hi = .ok (srOf r) e := by
    intro e
    unfold rangeCheck
    simp [Nat.not_lt.mpr hle, hbig, hmx, srOf]
  unfold Spec.renderRange
  cases hh : r.hiS with
  | none =>
    simp only [List.append_nil]
    have hhi_eq : r.hi = r.lo := by simp [Spec.Range.hi, Spec.Range.lo, hh]
    unfold parseSingleRange
    rw [cutAt_none (allDigits_notin dlo (by decide))]
    simp only [Option.bind_none, boundsOk, loTextOk_digits cfg dlo, hiPartOf, hlo']
    have := hchk e
    rw [hhi_eq] at this
    simpa [Spec.Range.lo, spec_val] using this
  | some hs =>
    rw [hh] at hhi
    obtain ⟨dhi, nhi⟩ := spec_digits hhi
    have hhiv : r.hi = dval hs := by simp [Spec.Range.hi, hh, spec_val]
    have hhi' := strtoul_digits dhi nhi (by rw [← hhiv]; omega)
    simp only
    unfold parseSingleRange
    rw [cutAt_append _ (allDigits_notin dlo (by decide))]
    cases hs with
    | nil => exact absurd rfl nhi
    | cons c cs =>
      have hc : c ≠ '-' := fun e => allDigits_notin dhi (x := '-') (by decide) (by simp [e])
      simp only [Option.bind_some, List.head?_cons, Option.some.injEq, hc, ↓reduceIte, boundsOk,
        loTextOk_digits cfg dlo, hiTextOk_digits cfg dhi nhi, Bool.and_self, Bool.not_true,
        Bool.false_eq_true, hlo', hiPartOf, hhi', Bool.or_self, List.isEmpty_nil]
      have := hchk e
      rw [hhiv] at this
      simpa [Spec.Range.lo, spec_val] using this

theorem renderRange_no_comma {r : Spec.Range} (hw : r.WF = true) : ',' ∉ Spec.renderRange r := by
  unfold Spec.Range.WF at hw
  simp only [Bool.and_eq_true, decide_eq_true_eq] at hw
  obtain ⟨⟨⟨⟨hlo, hhi⟩, _⟩, _⟩, _⟩ := hw
  obtain ⟨dlo, _⟩ := spec_digits hlo
  unfold Spec.renderRange
  cases hh : r.hiS with
  | none => simpa using allDigits_notin dlo (by decide)
  | some hs =>
    rw [hh] at hhi
    obtain ⟨dhi, _⟩ := spec_digits hhi
    simp only [List.mem_append, List.mem_cons, not_or]
    exact ⟨allDigits_notin dlo (by decide), by decide, allDigits_notin dhi (by decide)⟩

theorem renderRange_no_close {r : Spec.Range} (hw : r.WF = true) : ']' ∉ Spec.renderRange r := by
  unfold Spec.Range.WF at hw
  simp only [Bool.and_eq_true, decide_eq_true_eq] at hw
  obtain ⟨⟨⟨⟨hlo, hhi⟩, _⟩, _⟩, _⟩ := hw
  obtain ⟨dlo, _⟩ := spec_digits hlo
  unfold Spec.renderRange
  cases hh : r.hiS with
  | none => simpa using allDigits_notin dlo (by decide)
  | some hs =>
    rw [hh] at hhi
    obtain ⟨dhi, _⟩ := spec_digits hhi
    simp only [List.mem_append, List.mem_cons, not_or]
    exact ⟨allDigits_notin dlo (by decide), by decide, allDigits_notin dhi (by decide)⟩

theorem joinComma_no_close : ∀ (items : List Str), (∀ it ∈ items, ']' ∉ it) → ']' ∉ Spec.joinComma items
  | [], _ => by simp [Spec.joinComma]
  | [x], h => by simpa [Spec.joinComma] using h x (by simp)
  | x :: y :: rest, h => by
    have := joinComma_no_close (y :: rest) (fun it hit => h it (by simp [hit]))
    simp only [Spec.joinComma, List.mem_append, List.mem_cons, not_or]
    exact ⟨h x (by simp), by decide, this⟩

/-! ### the range list of a group -/
theorem parseRangeItems_render (cfg : Cfg) (e : Nat) : ∀ (g : List Spec.Range) (count : Nat) (acc : Array SR),
    (∀ r ∈ g, r.WF = true) → (∀ r ∈ g, r.hi < ULONG_MAX) → count + g.length ≤ MAX_RANGES →
    parseRangeItems cfg (g.map Spec.renderRange) count e acc = .ok (acc ++ (g.map srOf).toArray) e
  | [], _, acc, _, _, _ => by simp [parseRangeItems]
  | r :: rs, count, acc, hw, hd, hc => by
    have hne : count ≠ MAX_RANGES := by simp only [List.length_cons] at hc; omega
    simp only [List.map_cons, parseRangeItems, hne, ↓reduceIte,
      parseSingleRange_render cfg e r (hw r (by simp)) (hd r (by simp))]
    rw [parseRangeItems_render cfg e rs (count + 1) (acc.push (srOf r)) (fun x hx => hw x (by simp [hx]))
      (fun x hx => hd x (by simp [hx]))
      (by simp only [List.length_cons] at hc; omega)]
    congr 1
    apply Array.ext'
    simp

theorem parseRangeList_render (cfg : Cfg) (e : Nat) (g : List Spec.Range) (hw : Spec.groupWF g = true)
    (hd : ∀ r ∈ g, r.hi < ULONG_MAX) :
    parseRangeList cfg e (Spec.joinComma (g.map Spec.renderRange)) = .ok (g.map srOf).toArray e := by
  unfold Spec.groupWF at hw
  simp only [Bool.and_eq_true, Bool.not_eq_true', List.isEmpty_eq_false_iff, decide_eq_true_eq,
    List.all_eq_true] at hw
  obtain ⟨⟨hne, hlen⟩, hall⟩ := hw
  have hMR : Spec.RANGES_LIMIT = MAX_RANGES := by decide
  unfold parseRangeList
  rw [splitAll_joinComma _ (by simpa using hne)
    (fun it hit => by
      obtain ⟨r, hr, rfl⟩ := List.mem_map.mp hit
      exact renderRange_no_comma (hall r hr))]
  rw [parseRangeItems_render cfg e g 0 #[] hall hd (by rw [← hMR]; omega)]
  simp

/-! ### pushing the ranges of a group -/
theorem flatMap_congr' {α β : Type} {f g : α → List β} : ∀ {l : List α}, (∀ x ∈ l, f x = g x) →
    l.flatMap f = l.flatMap g
  | [], _ => rfl
  | x :: xs, h => by
    simp only [List.flatMap_cons]
    rw [h x (by simp), flatMap_congr' (fun y hy => h y (by simp [hy]))]

theorem range_WF_facts {r : Spec.Range} (hw : r.WF = true) : r.lo ≤ r.hi := by
  unfold Spec.Range.WF at hw
  simp only [Bool.and_eq_true, decide_eq_true_eq] at hw
  exact hw.1.1.2

/-- the record of a typed range denotes prefix ++ each of its numerals -/
theorem mk'_hosts (pfx : Str) (r : Spec.Range) :
    (HRange.mk' pfx r.lo r.hi r.loS.length).hosts = (Spec.Range.names r).map (pfx ++ ·) := by
  simp [HRange.hosts, HRange.mk', Spec.Range.names, spec_pad, List.map_map, Function.comp_def]

theorem mk'_good (pfx : Str) {r : Spec.Range} (hw : r.WF = true) (hd : r.hi < ULONG_MAX) :
    (HRange.mk' pfx r.lo r.hi r.loS.length).Good := by
  constructor
  · intro h; simp [HRange.mk'] at h
  · intro _; exact ⟨range_WF_facts hw, hd⟩

/-- `_push_range_list` on the parsed ranges of a well-formed group -/
theorem pushRangeList_group (h : HL) (hg : h.Good) (pfx : Str) (g : List Spec.Range)
    (hw : ∀ r ∈ g, r.WF = true) (hd : ∀ r ∈ g, r.hi < ULONG_MAX) :
    (pushRangeList h pfx (g.map srOf)).Good ∧
    (pushRangeList h pfx (g.map srOf)).hosts = h.hosts ++ (Spec.groupNames g).map (pfx ++ ·) := by
  have e : pushRangeList h pfx (g.map srOf) =
      (g.map fun r => HRange.mk' pfx r.lo r.hi r.loS.length).foldl pushRange h := by
    unfold pushRangeList
    rw [List.foldl_map, List.foldl_map]
    rfl
  rw [e]
  have := foldl_pushRange (g.map fun r => HRange.mk' pfx r.lo r.hi r.loS.length) h hg
    (fun x hx => by
      obtain ⟨r, hr, rfl⟩ := List.mem_map.mp hx
      exact mk'_good pfx (hw r hr) (hd r hr))
  refine ⟨this.1, ?_⟩
  rw [this.2]
  congr 1
  unfold Spec.groupNames
  rw [List.flatMap_map, List.map_flatMap]
  apply flatMap_congr'
  intro r _
  exact mk'_hosts pfx r

/-- the names one typed range contributes on the suffix path fit `host[4096]` -/
def fitsHostBuf (pfx sfx : Str) (r : Spec.Range) : Prop :=
  pfx.length + max r.loS.length (ndig r.hi) + sfx.length ≤ HOSTBUF - 1

instance (pfx sfx : Str) (r : Spec.Range) : Decidable (fitsHostBuf pfx sfx r) := by
  unfold fitsHostBuf; exact inferInstance

theorem suffixedName_eq {cfg : Cfg} {pfx sfx : Str} {r : Spec.Range}
    (hf : cfg.fixHostBuf = true ∨ fitsHostBuf pfx sfx r) {j : Nat}
    (hj : j ≤ r.hi) : suffixedName cfg pfx sfx r.loS.length j = pfx ++ fmtPad r.loS.length j ++ sfx := by
  unfold suffixedName
  rcases hf with hfix | hf
  · simp [hfix]
  split
  · rfl
  apply List.take_of_length_le
  simp only [List.length_append, fmtPad_length]
  have := ndig_mono hj
  unfold fitsHostBuf at hf
  omega

theorem foldl_pushSingles (names : List Str) (h : HL) (hg : h.Good) :
    (names.foldl (fun h n => pushRange h (HRange.mkSingle n)) h).Good ∧
    (names.foldl (fun h n => pushRange h (HRange.mkSingle n)) h).hosts = h.hosts ++ names := by
  have e : names.foldl (fun h n => pushRange h (HRange.mkSingle n)) h =
      (names.map HRange.mkSingle).foldl pushRange h := by rw [List.foldl_map]
  rw [e]
  have := foldl_pushRange (names.map HRange.mkSingle) h hg (fun x hx => by
    obtain ⟨n, _, rfl⟩ := List.mem_map.mp hx
    exact ⟨fun _ => ⟨rfl, rfl⟩, fun hs => by simp [HRange.mkSingle] at hs⟩)
  refine ⟨this.1, ?_⟩
  rw [this.2]
  congr 1
  rw [List.flatMap_map]
  induction names with
  | nil => rfl
  | cons n ns ih => simp [HRange.hosts, HRange.mkSingle]

theorem pushSuffixRange_range (cfg : Cfg) (h : HL) (hg : h.Good) (pfx sfx : Str) {r : Spec.Range}
    (hw : r.WF = true) (hd : r.hi < ULONG_MAX) (hf : cfg.fixHostBuf = true ∨ fitsHostBuf pfx sfx r) :
    ∃ h', pushSuffixRange cfg h pfx sfx (srOf r) = .ok h' ∧ h'.Good ∧
      h'.hosts = h.hosts ++ (Spec.Range.names r).map (fun n => pfx ++ n ++ sfx) := by
  unfold pushSuffixRange
  have hne : (srOf r).hi ≠ ULONG_MAX := by simp only [srOf]; omega
  simp only [hne, ↓reduceIte]
  refine ⟨_, rfl, ?_⟩
  have e : (List.range' (srOf r).lo ((srOf r).hi + 1 - (srOf r).lo)).foldl
        (fun h j => pushRange h (HRange.mkSingle (suffixedName cfg pfx sfx (srOf r).width j))) h =
      ((List.range' r.lo (r.hi + 1 - r.lo)).map
        (fun j => suffixedName cfg pfx sfx r.loS.length j)).foldl
        (fun h n => pushRange h (HRange.mkSingle n)) h := by
    rw [List.foldl_map]; rfl
  rw [e]
  have := foldl_pushSingles ((List.range' r.lo (r.hi + 1 - r.lo)).map
        (fun j => suffixedName cfg pfx sfx r.loS.length j)) h hg
  refine ⟨this.1, ?_⟩
  rw [this.2]
  congr 1
  unfold Spec.Range.names
  rw [List.map_map]
  apply List.map_congr_left
  intro j hj
  have hle := range_WF_facts hw
  simp only [List.mem_range'_1] at hj
  simp only [Function.comp, spec_pad]
  exact suffixedName_eq hf (by omega)

/-- `_push_range_list_with_suffix` on the parsed ranges of a well-formed group -/
theorem pushRangeListWithSuffix_group (cfg : Cfg) (pfx sfx : Str) : ∀ (g : List Spec.Range) (h : HL), h.Good →
    (∀ r ∈ g, r.WF = true) → (∀ r ∈ g, r.hi < ULONG_MAX) →
    (∀ r ∈ g, cfg.fixHostBuf = true ∨ fitsHostBuf pfx sfx r) →
    ∃ h', pushRangeListWithSuffix cfg h pfx sfx (g.map srOf) = .ok h' ∧ h'.Good ∧
      h'.hosts = h.hosts ++ (Spec.groupNames g).map (fun n => pfx ++ n ++ sfx)
  | [], h, hg, _, _, _ => ⟨h, rfl, hg, by simp [Spec.groupNames]⟩
  | r :: rs, h, hg, hw, hd, hf => by
    obtain ⟨h1, e1, g1, hh1⟩ := pushSuffixRange_range cfg h hg pfx sfx (hw r (by simp)) (hd r (by simp))
      (hf r (by simp))
    obtain ⟨h2, e2, g2, hh2⟩ := pushRangeListWithSuffix_group cfg pfx sfx rs h1 g1
      (fun x hx => hw x (by simp [hx])) (fun x hx => hd x (by simp [hx]))
      (fun x hx => hf x (by simp [hx]))
    refine ⟨h2, ?_, g2, ?_⟩
    · simp only [List.map_cons, pushRangeListWithSuffix, e1, e2]
    · rw [hh2, hh1]
      simp [Spec.groupNames]

/-! ### plain names -/
theorem mem_takeWhile {α : Type} {p : α → Bool} : ∀ {l : List α} {x : α}, x ∈ l.takeWhile p → p x = true
  | [], _, h => by simp at h
  | a :: l, x, h => by
    by_cases ha : p a = true
    · rw [List.takeWhile_cons_of_pos ha] at h
      rcases List.mem_cons.mp h with rfl | h
      · exact ha
      · exact mem_takeWhile h
    · rw [List.takeWhile_cons_of_neg ha] at h; simp at h

/-- `host_prefix_end` splits a name into its non-digit-ending part and its maximal digit tail -/
theorem hostPrefix_split (n : Str) :
    hostPrefixLen n ≤ n.length ∧ allDigits (n.drop (hostPrefixLen n)) ∧
      (n.drop (hostPrefixLen n)).length = n.length - hostPrefixLen n := by
  have hsplit : n = (n.reverse.dropWhile isDigit).reverse ++ (n.reverse.takeWhile isDigit).reverse := by
    rw [← List.reverse_append, List.takeWhile_append_dropWhile, List.reverse_reverse]
  have hlen : n.length = (n.reverse.dropWhile isDigit).length + (n.reverse.takeWhile isDigit).length := by
    have := congrArg List.length hsplit
    simpa using this
  have hp : hostPrefixLen n = (n.reverse.dropWhile isDigit).reverse.length := by
    unfold hostPrefixLen; simp only [List.length_reverse]; omega
  refine ⟨by unfold hostPrefixLen; omega, ?_, by simp⟩
  have : n.drop (hostPrefixLen n) = (n.reverse.takeWhile isDigit).reverse := by
    have h := List.drop_left' (l₁ := (n.reverse.dropWhile isDigit).reverse)
      (l₂ := (n.reverse.takeWhile isDigit).reverse) (i := hostPrefixLen n) hp.symm
    rw [← hsplit] at h
    exact h
  rw [this]
  intro c hc
  exact mem_takeWhile (List.mem_reverse.mp hc)

theorem strtoul_digits_big {s : Str} (hs : allDigits s) (hne : s ≠ []) (hv : dval s > ULONG_MAX) :
    (strtoul s).val = ULONG_MAX := by
  cases s with
  | nil => exact absurd rfl hne
  | cons c cs =>
    have hc := hs c (by simp)
    have hsp := isSpace_of_isDigit hc
    have hd := (isDigit_iff c).mp hc
    have hm : c ≠ '-' := by intro h; rw [h] at hd; simp at hd
    have hp : c ≠ '+' := by intro h; rw [h] at hd; simp at hd
    have e1 : (c :: cs).dropWhile isSpace = c :: cs := by simp [List.dropWhile, hsp]
    unfold strtoul
    rw [e1]
    split
    · rename_i t heq; simp at heq; exact absurd heq.1 hm
    · rename_i t heq; simp at heq; exact absurd heq.1 hp
    · unfold strtoulCore
      rw [takeWhile_allDigits hs]
      simp only [List.isEmpty_cons, Bool.false_eq_true, ↓reduceIte]
      have : Nat.ofDigitChars 10 (c :: cs) 0 > ULONG_MAX := hv
      simp only [this, ↓reduceIte]

/-- `hostname_create`: either no numeric suffix is recognised, or the name is split into
    `take plen` and a non-empty digit tail of value ≤ MAX_HOST_SUFFIX -/
theorem hostnameCreate_cases (n : Str) :
    (hostnameCreate n).suffix = none ∨
    ∃ suf e, hostnameCreate n = ⟨n.take (hostPrefixLen n), dval suf, some suf, e⟩ ∧
      suf = n.drop (hostPrefixLen n) ∧ allDigits suf ∧ suf ≠ [] ∧ dval suf ≤ MAX_HOST_SUFFIX := by
  obtain ⟨hle, hdig, hlen⟩ := hostPrefix_split n
  unfold hostnameCreate
  simp only
  split
  · left; rfl
  · rename_i hne
    have hsne : n.drop (hostPrefixLen n) ≠ [] := by
      intro h0; rw [h0] at hlen; simp at hlen; omega
    split
    · rename_i hcond
      simp only [Bool.and_eq_true, decide_eq_true_eq] at hcond
      have hmx : MAX_HOST_SUFFIX < ULONG_MAX := by decide
      have hv : dval (n.drop (hostPrefixLen n)) ≤ ULONG_MAX := by
        by_cases h : dval (n.drop (hostPrefixLen n)) ≤ ULONG_MAX
        · exact h
        · have := strtoul_digits_big hdig hsne (by omega)
          omega
      have hst := strtoul_digits hdig hsne hv
      rw [hst] at hcond
      right
      refine ⟨n.drop (hostPrefixLen n), (strtoul (n.drop (hostPrefixLen n))).erange, ?_, rfl, hdig, hsne, hcond.2⟩
      rw [hst]
    · left; rfl

/-- `hostlist_push_host`: whatever the name, the record built for it is good and denotes
    exactly that name (digit tails ≤ 2^25 become a one-element range that re-prints as typed,
    larger or absent ones a single-host record) -/
theorem hostRecord_spec (n : Str) : (hostRecord n).Good ∧ (hostRecord n).hosts = [n] := by
  have hsingle : (HRange.mkSingle n).Good ∧ (HRange.mkSingle n).hosts = [n] :=
    ⟨⟨fun _ => ⟨rfl, rfl⟩, fun hs => by simp [HRange.mkSingle] at hs⟩, by simp [HRange.hosts, HRange.mkSingle]⟩
  unfold hostRecord
  rcases hostnameCreate_cases n with hnone | ⟨suf, e, hc, hsuf, hdig, hsne, hv⟩
  · simp only [hnone]; exact hsingle
  · simp only [hc]
    have hmx : MAX_HOST_SUFFIX < ULONG_MAX := by decide
    constructor
    · exact ⟨fun hs => by simp [HRange.mk'] at hs, fun _ => ⟨Nat.le_refl _, by simp only [HRange.mk']; omega⟩⟩
    · simp only [HRange.hosts, HRange.mk', Bool.false_eq_true, ↓reduceIte, Nat.add_sub_cancel_left,
        List.range'_one, List.map_cons, List.map_nil, List.cons.injEq, and_true]
      rw [fmtPad_ofDigits hdig hsne, hsuf, List.take_append_drop]

/-! ### one word, all words -/
/-- restrictions of the MODEL on top of `Spec.Word.WF`; each one is a recorded defect and falls
    away in the variant that repairs it:
    D18 plain words shorter than 1023 bytes (or `fixCurTok`); D23 names built on the suffix path
    fit `host[4096]` (or `fixHostBuf`); D25 no range reaching 2^64-1 (the repaired code REFUSES
    such a range, so it stays outside the domain of the success theorem) -/
def wordDom (cfg : Cfg) : Spec.Word → Prop
  | .plain n => cfg.fixCurTok = true ∨ n.length < CURTOK - 1
  | .br pre g1 mid g2 =>
    (∀ r ∈ g1, r.hi < ULONG_MAX) ∧
    (∀ r ∈ g1, cfg.fixHostBuf = true ∨ fitsHostBuf pre (mid ++ Spec.renderTail g2) r)

instance (cfg : Cfg) : (w : Spec.Word) → Decidable (wordDom cfg w)
  | .plain n => by unfold wordDom; exact inferInstance
  | .br pre g1 mid g2 => by unfold wordDom; exact inferInstance

/-! brackets of a well-formed suffix balance (needed for the repaired D22 test) -/
/-- text that leaves the bracket level where it was -/
def Neutral (a : Str) : Prop := ∀ lvl rest, bracketsBalanced lvl (a ++ rest) = bracketsBalanced lvl rest

theorem Neutral.nil : Neutral [] := fun _ _ => rfl

theorem Neutral.append {a b : Str} (ha : Neutral a) (hb : Neutral b) : Neutral (a ++ b) := by
  intro lvl rest
  rw [List.append_assoc, ha, hb]

theorem Neutral.noBrackets : ∀ {s : Str}, '[' ∉ s → ']' ∉ s → Neutral s
  | [], _, _ => Neutral.nil
  | c :: cs, ho, hc => by
    have h1 : c ≠ '[' := fun e => ho (by simp [e])
    have h2 : c ≠ ']' := fun e => hc (by simp [e])
    have ih := Neutral.noBrackets (s := cs) (fun hm => ho (List.mem_cons_of_mem _ hm))
      (fun hm => hc (List.mem_cons_of_mem _ hm))
    intro lvl rest
    simp only [List.cons_append, bracketsBalanced, h1, h2, ↓reduceIte, ih lvl rest]

theorem Neutral.group {body : Str} (ho : '[' ∉ body) (hc : ']' ∉ body) : Neutral ('[' :: body ++ [']']) := by
  intro lvl rest
  have hb := Neutral.noBrackets ho hc
  simp only [List.cons_append, List.append_assoc, bracketsBalanced, ↓reduceIte, List.nil_append]
  rw [hb (lvl + 1) (']' :: rest)]
  simp [bracketsBalanced]

theorem textChar_no {s : Str} (h : s.all Spec.textChar = true) : '[' ∉ s ∧ ']' ∉ s := by
  simp only [List.all_eq_true] at h
  constructor <;> intro hm <;> have := h _ hm <;> simp [Spec.textChar] at this

theorem joinComma_no_open : ∀ (items : List Str), (∀ it ∈ items, '[' ∉ it) → '[' ∉ Spec.joinComma items
  | [], _ => by simp [Spec.joinComma]
  | [x], h => by simpa [Spec.joinComma] using h x (by simp)
  | x :: y :: rest, h => by
    have := joinComma_no_open (y :: rest) (fun it hit => h it (by simp [hit]))
    simp only [Spec.joinComma, List.mem_append, List.mem_cons, not_or]
    exact ⟨h x (by simp), by decide, this⟩

theorem renderRange_no_open {r : Spec.Range} (hw : r.WF = true) : '[' ∉ Spec.renderRange r := by
  unfold Spec.Range.WF at hw
  simp only [Bool.and_eq_true, decide_eq_true_eq] at hw
  obtain ⟨⟨⟨⟨hlo, hhi⟩, _⟩, _⟩, _⟩ := hw
  obtain ⟨dlo, _⟩ := spec_digits hlo
  unfold Spec.renderRange
  cases hh : r.hiS with
  | none => simpa using allDigits_notin dlo (by decide)
  | some hs =>
    rw [hh] at hhi
    obtain ⟨dhi, _⟩ := spec_digits hhi
    simp only [List.mem_append, List.mem_cons, not_or]
    exact ⟨allDigits_notin dlo (by decide), by decide, allDigits_notin dhi (by decide)⟩

theorem groupBody_no_brackets {g : List Spec.Range} (hg : Spec.groupWF g = true) :
    '[' ∉ Spec.joinComma (g.map Spec.renderRange) ∧ ']' ∉ Spec.joinComma (g.map Spec.renderRange) := by
  unfold Spec.groupWF at hg
  simp only [Bool.and_eq_true, List.all_eq_true] at hg
  have hall := hg.2
  exact ⟨joinComma_no_open _ (fun it hit => by
      obtain ⟨r, hr, rfl⟩ := List.mem_map.mp hit
      exact renderRange_no_open (hall r hr)),
    joinComma_no_close _ (fun it hit => by
      obtain ⟨r, hr, rfl⟩ := List.mem_map.mp hit
      exact renderRange_no_close (hall r hr))⟩

theorem Neutral.renderGroup {g : List Spec.Range} (hg : Spec.groupWF g = true) :
    Neutral (Spec.renderGroup g) := by
  obtain ⟨ho, hc⟩ := groupBody_no_brackets hg
  unfold Spec.renderGroup
  exact Neutral.group ho hc

/-- what follows the first group of a well-formed word has balanced brackets -/
theorem wf_suffix_balanced {mid : Str} {g2 : Option (List Spec.Range × Str)}
    (hmid : mid.all Spec.textChar = true)
    (hg2 : (match g2 with | none => true | some (g, post) => Spec.groupWF g && post.all Spec.textChar) = true) :
    bracketsBalanced 0 (mid ++ Spec.renderTail g2) = true := by
  have hm := Neutral.noBrackets (textChar_no hmid).1 (textChar_no hmid).2
  have ht : Neutral (Spec.renderTail g2) := by
    cases g2 with
    | none => exact Neutral.nil
    | some gp =>
      obtain ⟨g, post⟩ := gp
      simp only [Bool.and_eq_true] at hg2
      exact (Neutral.renderGroup hg2.1).append
        (Neutral.noBrackets (textChar_no hg2.2).1 (textChar_no hg2.2).2)
  have := (hm.append ht) 0 []
  simp only [List.append_nil] at this
  rw [this]; rfl

/-- the loop body of `_hostlist_create_bracketed` on one rendered well-formed word appends
    exactly the first-level expansion of that word — in every variant of the code -/
theorem pushTok_word (cfg : Cfg) (st : PSt) (w : Spec.Word) (hw : w.WF = true) (hd : wordDom cfg w)
    (hg : st.hl.Good) :
    ∃ st', pushTok cfg st (Spec.renderWord w) = .ok st' ∧ st'.hl.Good ∧
      st'.hl.hosts = st.hl.hosts ++ w.expand₁ := by
  cases w with
  | plain n =>
    simp only [Spec.Word.WF, Bool.and_eq_true] at hw
    obtain ⟨hno, hnc⟩ := textChar_no hw.2
    simp only [wordDom] at hd
    have hrec := hostRecord_spec n
    refine ⟨⟨pushHost st.hl n, if (hostnameCreate n).erange then ERANGE else st.errno⟩, ?_, ?_, ?_⟩
    · unfold pushTok Spec.renderWord
      rw [cutAt_none hno]
      have : n.contains ']' = false := by simpa using hnc
      have hct : curTok cfg n = some n := by
        unfold curTok
        rcases hd with hd | hd
        · simp [hd]
        · simp [hd]
      simp only [this, Bool.false_eq_true, ↓reduceIte, hct]
    · exact pushRange_good _ _ hg hrec.1
    · simp only [pushHost, Spec.Word.expand₁]
      rw [pushRange_hosts _ _ hg.1 hrec.1, hrec.2]
  | br pre g1 mid g2 =>
    simp only [Spec.Word.WF, Bool.and_eq_true] at hw
    obtain ⟨⟨⟨hpre, hg1⟩, hmid⟩, hg2⟩ := hw
    obtain ⟨hd1, hd2⟩ := hd
    have hg1' := hg1
    unfold Spec.groupWF at hg1'
    simp only [Bool.and_eq_true, List.all_eq_true] at hg1'
    have hall := hg1'.2
    have hbody : ']' ∉ Spec.joinComma (g1.map Spec.renderRange) := (groupBody_no_brackets hg1).2
    have hrender : Spec.renderWord (.br pre g1 mid g2) =
        pre ++ '[' :: (Spec.joinComma (g1.map Spec.renderRange) ++ ']' :: (mid ++ Spec.renderTail g2)) := by
      simp [Spec.renderWord, Spec.renderGroup, List.append_assoc]
    have hsok : suffixOk cfg pre (mid ++ Spec.renderTail g2) = true := by
      unfold suffixOk
      have h1 := (textChar_no hpre).2
      simp [h1, wf_suffix_balanced hmid hg2]
    unfold pushTok
    rw [hrender, cutAt_append _ (textChar_no hpre).1]
    simp only
    rw [cutAt_append _ hbody]
    simp only [hsok, Bool.not_true, Bool.false_eq_true, ↓reduceIte,
      parseRangeList_render cfg st.errno g1 hg1 hd1]
    by_cases hsfx : (mid ++ Spec.renderTail g2).isEmpty = true
    · -- no suffix: `_push_range_list`
      have hnil : mid ++ Spec.renderTail g2 = [] := by simpa using hsfx
      have := pushRangeList_group st.hl hg pre g1 hall hd1
      refine ⟨⟨pushRangeList st.hl pre (g1.map srOf), st.errno⟩, by simp [hsfx], this.1, ?_⟩
      rw [this.2]
      simp only [Spec.Word.expand₁]
      congr 1
      apply List.map_congr_left
      intro x _
      rw [List.append_assoc (pre ++ x) mid, hnil, List.append_nil]
    · -- suffix: `_push_range_list_with_suffix`
      obtain ⟨h', e', g', hh'⟩ := pushRangeListWithSuffix_group cfg pre (mid ++ Spec.renderTail g2) g1
        st.hl hg hall hd1 hd2
      refine ⟨⟨h', st.errno⟩, ?_, g', ?_⟩
      · simp only [hsfx, Bool.false_eq_true, ↓reduceIte, e']
      · rw [hh']
        simp only [Spec.Word.expand₁, List.append_assoc]

/-- TOKEN-LEVEL REFINEMENT: `_hostlist_create_bracketed`'s loop over the rendered words of a
    well-formed expression succeeds, keeps the list `Good`, and the list denotes exactly
    `expand₁` — order as written, repeats kept, each number at the width of its low bound -/
theorem createToks_words (cfg : Cfg) : ∀ (e : Spec.Expr) (st : PSt), (∀ w ∈ e, w.WF = true) →
    (∀ w ∈ e, wordDom cfg w) →
    st.hl.Good → ∃ st', createToks cfg st (e.map Spec.renderWord) = .ok st' ∧ st'.hl.Good ∧
      st'.hl.hosts = st.hl.hosts ++ Spec.expand₁ e
  | [], st, _, _, hg => ⟨st, rfl, hg, by simp [Spec.expand₁]⟩
  | w :: ws, st, hw, hd, hg => by
    obtain ⟨st1, e1, g1, h1⟩ := pushTok_word cfg st w (hw w (by simp)) (hd w (by simp)) hg
    obtain ⟨st2, e2, g2, h2⟩ := createToks_words cfg ws st1 (fun x hx => hw x (by simp [hx]))
      (fun x hx => hd x (by simp [hx])) g1
    refine ⟨st2, ?_, g2, ?_⟩
    · simp only [List.map_cons, createToks, e1, e2]
    · rw [h2, h1]; simp [Spec.expand₁]

end PdshVerif.Hostlist
