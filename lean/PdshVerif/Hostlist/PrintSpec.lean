/-
  SPECIFICATION for C14, written independently of the printing model (imports only the record
  types and their denotation `hosts` from Basic.lean).

  * `derangedText h`: the EXPANDED rendering: every denoted host in full, joined by commas.
  * `rangedText h`:   the COMPRESSED rendering: consecutive range records with the same prefix form
    one group `prefix[item,item,..]` (brackets only when the group stands for more than one host,
    otherwise `prefix` followed by the number); single-host records print their name; groups are
    joined by commas.
  * `Fits text n` (the text and its terminator fit `n` bytes) and the verdict `Verdict`: what the
    property text demands of a call with size `n`, phrased on OBSERVABLES only (return value, the
    indices written, the C string left in the buffer), so that the same definition judges the model
    (Props/C14.lean) and - through checks/c14.py - the real code.
  * Domain of the round trip: `NoMeta` (no single-host NAME contains a bracket, a comma or a
    blank, and none is empty): such names - e.g. the leftovers `foo1-[0-1]` of a two-bracket
    word - print as themselves and read back as something else (finding F14-META).
-/
import PdshVerif.Hostlist.Basic

namespace PdshVerif.Hostlist.PrintSpec
open PdshVerif.Hostlist

/-- pieces joined by commas -/
def joinComma : List Str → Str
  | [] => []
  | [x] => x
  | x :: y :: rest => x ++ ',' :: joinComma (y :: rest)

/-! ### expanded form -/
def derangedText (h : HL) : Str := joinComma h.hosts

/-! ### compressed form -/
/-- a range inside a group: `lo` or `lo-hi`, both zero padded to the record's width -/
def item (r : HRange) : Str :=
  fmtPad r.width r.lo ++ (if r.lo < r.hi then '-' :: fmtPad r.width r.hi else [])

/-- may `r` be written into the same bracket as the record that follows it? -/
def joins (r : HRange) : Option HRange → Bool
  | none => false
  | some r2 => !r.single && !r2.single && r.pre == r2.pre

/-- maximal runs of consecutive range records with the same prefix; a single host is a run -/
def groups : List HRange → List (List HRange)
  | [] => []
  | r :: rs =>
    match groups rs with
    | [] => [[r]]
    | g :: gs => if joins r g.head? then (r :: g) :: gs else [r] :: g :: gs

/-- inside a group every record may share a bracket with its successor -/
def chained : List HRange → Bool
  | a :: b :: t => joins a (some b) && chained (b :: t)
  | _ => true

/-- across a group boundary the two neighbours may NOT share a bracket (the groups are maximal) -/
def separated : List (List HRange) → Bool
  | g1 :: g2 :: t =>
    (match g1.getLast?, g2.head? with
     | some a, some b => !joins a (some b)
     | _, _ => false) && separated (g2 :: t)
  | _ => true

/-- `gs` is THE partition of `rs` into maximal runs of adjacent records that may share a bracket -/
def MaximalRuns (rs : List HRange) (gs : List (List HRange)) : Prop :=
  gs.flatten = rs ∧ (∀ g ∈ gs, g ≠ [] ∧ chained g = true) ∧ separated gs = true

/-- text of one group -/
def groupText : List HRange → Str
  | [] => []
  | r :: g =>
    if r.single then r.pre
    else if g.isEmpty && r.lo = r.hi then r.pre ++ item r
    else r.pre ++ '[' :: joinComma ((r :: g).map item) ++ [']']

def rangedTextL (rs : List HRange) : Str := joinComma ((groups rs).map groupText)
def rangedText (h : HL) : Str := rangedTextL h.ranges.toList

/-! ### what a call with buffer size `n` must do -/
/-- the text and its terminator fit `n` bytes -/
def Fits (text : Str) (n : Nat) : Prop := text.length < n

instance (t : Str) (n : Nat) : Decidable (Fits t n) := by unfold Fits; exact inferInstance

/-- observables of one call: did it report a length or truncation, which indices were stored to,
    which C string is in the first `n` bytes afterwards (`none`: no terminator) -/
structure Obs where
  ret : Option Nat          -- `some k` = returned k ≥ 0, `none` = returned −1
  written : List Nat
  cstr : Option Str

/-- the property, for one (text, n): never a store outside `[0, n)`; a C string is left; it fits ⇒
    the length is reported and the string is the text; it does not fit ⇒ truncation is reported and
    the string is a proper prefix of the text -/
def Verdict (text : Str) (n : Nat) (o : Obs) : Prop :=
  (∀ i ∈ o.written, i < n) ∧
  (∃ s, o.cstr = some s ∧
    (Fits text n → o.ret = some text.length ∧ s = text) ∧
    (¬ Fits text n → o.ret = none ∧ s.length < n ∧ s <+: text))

/-! ### domain of the round trip -/
/-- a character of a host name that the parser reads as part of a name -/
def nameChar (c : Char) : Bool := c ≠ ',' && c ≠ ' ' && c ≠ '\t' && c ≠ '[' && c ≠ ']'

/-- no record's name text (the whole name of a single host, the prefix of a range) is empty where
    it must not be or contains a character with a meaning in host expressions -/
def NoMetaL (rs : List HRange) : Prop :=
  ∀ r ∈ rs, r.pre.all nameChar = true ∧ (r.single = true → r.pre ≠ [])

def NoMeta (h : HL) : Prop := NoMetaL h.ranges.toList

instance (rs : List HRange) : Decidable (NoMetaL rs) := by unfold NoMetaL; exact inferInstance
instance (h : HL) : Decidable (NoMeta h) := by unfold NoMeta; exact inferInstance

end PdshVerif.Hostlist.PrintSpec
