/-
  WORDS OF THE SPEC = TOKENS OF THE MODEL, for every text whose brackets balance.

  `Spec.splitWords` (Hostlist/Spec.lean, written without the model: words are the maximal runs
  without a separator at bracket depth 0, depth a natural number) and `tokens hlSep`
  (`_next_tok` until NULL: the scan level is a C `int` that may go negative) cut a text whose
  brackets match in exactly the same places — `splitWords_eq_tokens`; every token of such a text
  is balanced on its own — `tokens_of_balanced`.  (On unbalanced texts the two readers differ:
  `a],b` is one token but two words; there the spec reports `unbalanced` and the code fails,
  `unbalanced_text_fails`.)
-/
import PdshVerif.Hostlist.LemmasUnbalanced
import PdshVerif.Hostlist.LemmasSplit
import PdshVerif.Hostlist.LemmasTok

namespace PdshVerif.Hostlist
open PdshVerif.Gen

/-- the word a run of characters closes: nothing when the run is empty -/
def emitW (w : Str) : List Str := if w.isEmpty then [] else [w]

theorem emitW_append_cons (a : Str) (c : Char) (t : Str) : emitW (a ++ c :: t) = [a ++ c :: t] := by
  unfold emitW
  cases a <;> simp

theorem splitWords_nil_sep (c : Char) (cs : Str) (h : Spec.sepChar c = true) :
    Spec.splitWords 0 [] (c :: cs) = Spec.splitWords 0 [] cs := by
  simp [Spec.splitWords, h]

/-- one scan of `_next_tok` from level `d` against the spec's word reader at depth `d` -/
theorem splitWords_scan : ∀ (s : Str) (d : Nat) (cur : Str), Spec.balanced d s = true →
    Spec.splitWords d cur s =
      emitW (cur.reverse ++ (scanTok hlSep (d : Int) s).1) ++
        Spec.splitWords 0 [] (scanTok hlSep (d : Int) s).2 ∧
    Spec.balanced 0 (scanTok hlSep (d : Int) s).2 = true ∧
    Spec.balanced d (scanTok hlSep (d : Int) s).1 = true
  | [], d, cur, hb => by
    have hd : d = 0 := by simpa [Spec.balanced] using hb
    subst hd
    refine ⟨?_, rfl, rfl⟩
    cases cur <;> simp [Spec.splitWords, scanTok, emitW]
  | c :: cs, d, cur, hb => by
    by_cases hsep : d = 0 ∧ Spec.sepChar c = true
    · obtain ⟨rfl, hs⟩ := hsep
      have hsc : scanTok hlSep ((0 : Nat) : Int) (c :: cs) = ([], c :: cs) := by
        simp [scanTok, isSep_hlSep, hs]
      rw [hsc]
      refine ⟨?_, hb, rfl⟩
      simp only [List.append_nil]
      rw [splitWords_nil_sep c cs hs]
      cases cur <;> simp [Spec.splitWords, hs, emitW]
    · have hcond : (decide ((d : Int) ≠ 0) || !isSep hlSep c) = true := by
        rw [isSep_hlSep]
        by_cases h0 : d = 0
        · have : Spec.sepChar c = false := by
            cases h : Spec.sepChar c with
            | false => rfl
            | true => exact absurd ⟨h0, h⟩ hsep
          simp [this]
        · simp [h0]
      have hcond2 : (decide (d = 0) && Spec.sepChar c) = false := by
        by_cases h0 : d = 0
        · cases h : Spec.sepChar c with
          | false => simp
          | true => exact absurd ⟨h0, h⟩ hsep
        · simp [h0]
      -- the depth after `c`, as a natural number and as the C int
      have key : ∃ d' : Nat,
          (if c = '[' then (d : Int) + 1 else if c = ']' then (d : Int) - 1 else (d : Int)) = (d' : Int) ∧
          (if c = '[' then d + 1 else if c = ']' then d - 1 else d) = d' ∧
          Spec.balanced d' cs = true ∧
          (∀ t : Str, Spec.balanced d' t = true → Spec.balanced d (c :: t) = true) := by
        by_cases ho : c = '['
        · refine ⟨d + 1, by simp [ho], by simp [ho], ?_, ?_⟩
          · simpa [Spec.balanced, ho] using hb
          · intro t ht; simpa [Spec.balanced, ho] using ht
        · by_cases hc : c = ']'
          · cases d with
            | zero => simp [Spec.balanced, hc] at hb
            | succ k =>
              refine ⟨k, by simp [hc], by simp [hc], ?_, ?_⟩
              · simpa [Spec.balanced, hc] using hb
              · intro t ht; simpa [Spec.balanced, hc] using ht
          · refine ⟨d, by simp [ho, hc], by simp [ho, hc], ?_, ?_⟩
            · simpa [Spec.balanced, ho, hc] using hb
            · intro t ht; simpa [Spec.balanced, ho, hc] using ht
      obtain ⟨d', hi, hn, hb', hback⟩ := key
      obtain ⟨ih1, ih2, ih3⟩ := splitWords_scan cs d' (c :: cur) hb'
      have hsc : scanTok hlSep (d : Int) (c :: cs) =
          (c :: (scanTok hlSep (d' : Int) cs).1, (scanTok hlSep (d' : Int) cs).2) := by
        rw [scanTok]
        simp only [hcond, ↓reduceIte, hi]
      rw [hsc]
      refine ⟨?_, ih2, hback _ ih3⟩
      simp only
      rw [Spec.splitWords]
      simp only [hcond2, Bool.false_eq_true, ↓reduceIte, hn]
      rw [ih1]
      simp

/-- leading separators are skipped by the spec's reader too -/
theorem splitWords_dropWhile : ∀ (s : Str),
    Spec.splitWords 0 [] (s.dropWhile (isSep hlSep)) = Spec.splitWords 0 [] s
  | [] => rfl
  | c :: cs => by
    by_cases h : isSep hlSep c = true
    · rw [List.dropWhile_cons_of_pos h, splitWords_dropWhile cs,
        splitWords_nil_sep c cs (by rw [← isSep_hlSep]; exact h)]
    · rw [List.dropWhile_cons_of_neg h]

theorem spec_balanced_dropWhile (s : Str) (l : Nat) :
    Spec.balanced l (s.dropWhile (isSep hlSep)) = Spec.balanced l s := by
  rw [← bracketsBalanced_eq_spec, ← bracketsBalanced_eq_spec]
  exact balanced_dropWhile_sep s l

/-- WORDS = TOKENS on every balanced text, and every token is balanced -/
theorem splitWords_tokens_aux : ∀ (n : Nat) (s : Str), s.length ≤ n → Spec.balanced 0 s = true →
    Spec.splitWords 0 [] s = tokens hlSep s ∧ ∀ t ∈ tokens hlSep s, bracketsBalanced 0 t = true
  | 0, s, hn, _ => by
    have : s = [] := List.length_eq_zero_iff.mp (by omega)
    subst this
    rw [tokens_nil]
    exact ⟨rfl, by simp⟩
  | n + 1, s, hn, hb => by
    rw [tokens_unfold]
    cases hnt : nextTok hlSep s with
    | none =>
      refine ⟨?_, by simp⟩
      unfold nextTok at hnt
      split at hnt
      · rename_i hd
        rw [← splitWords_dropWhile s, hd]; rfl
      · generalize scanTok hlSep 0 _ = q at hnt
        obtain ⟨a, b⟩ := q
        cases hnt
    | some p =>
      obtain ⟨t, r⟩ := p
      have ⟨hne, hl⟩ := nextTok_some hnt
      have hpos : 0 < t.length := List.length_pos_iff.mpr hne
      unfold nextTok at hnt
      split at hnt
      · cases hnt
      · have hb1 : Spec.balanced 0 (s.dropWhile (isSep hlSep)) = true := by
          rw [spec_balanced_dropWhile]; exact hb
        obtain ⟨k1, k2, k3⟩ := splitWords_scan (s.dropWhile (isSep hlSep)) 0 [] hb1
        simp only [Int.natCast_zero] at k1 k2 k3
        generalize scanTok hlSep 0 (s.dropWhile (isSep hlSep)) = q at hnt k1 k2 k3
        obtain ⟨a, b⟩ := q
        simp only [Option.some.injEq, Prod.mk.injEq] at hnt
        obtain ⟨rfl, rfl⟩ := hnt
        simp only at k1 k2 k3
        have hb2 : Spec.balanced 0 (b.dropWhile (isSep hlSep)) = true := by
          rw [spec_balanced_dropWhile]; exact k2
        obtain ⟨ih1, ih2⟩ := splitWords_tokens_aux n (b.dropWhile (isSep hlSep)) (by omega) hb2
        constructor
        · rw [← splitWords_dropWhile s, k1, ← splitWords_dropWhile b, ih1]
          cases a with
          | nil => exact absurd rfl hne
          | cons x xs => simp [emitW]
        · intro t' ht'
          rcases List.mem_cons.mp ht' with rfl | ht'
          · rw [bracketsBalanced_eq_spec]; exact k3
          · exact ih2 t' ht'

/-- the spec's words of a text whose brackets balance are the tokens `_next_tok` cuts -/
theorem splitWords_eq_tokens (s : Str) (hb : Spec.balanced 0 s = true) :
    Spec.splitWords 0 [] s = tokens hlSep s :=
  (splitWords_tokens_aux s.length s (Nat.le_refl _) hb).1

/-- every token of a text whose brackets balance is balanced on its own -/
theorem tokens_of_balanced (s : Str) (hb : Spec.balanced 0 s = true) :
    ∀ t ∈ tokens hlSep s, bracketsBalanced 0 t = true :=
  (splitWords_tokens_aux s.length s (Nat.le_refl _) hb).2

end PdshVerif.Hostlist
