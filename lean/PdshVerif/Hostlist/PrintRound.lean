/-
  Helper lemmas for C14, part 7: the printed texts are renderings of well-formed expressions
  (`Spec.Expr` of C01), so the parser model reads them back as the same host sequence
  (`createToks_words` / `tokens_render` of C01's lemma files do the parsing work).

  The only contact with the parser model is `create_joinComma`; everything is stated for every
  variant `cfg` of the parser (Basic.lean), the name-length limits applying only where D18 / D23 are
  not repaired (`NameFits`).
-/
import PdshVerif.Hostlist.PrintChars
import PdshVerif.Hostlist.LemmasCreate
import PdshVerif.Hostlist.LemmasTok

namespace PdshVerif.Hostlist.Print
open PdshVerif.Hostlist

/-! ### words joined by single commas -/
def commaItems : List Spec.Word → List (Spec.Word × Str)
  | [] => []
  | [w] => [(w, [])]
  | w :: w' :: ws => (w, [',']) :: commaItems (w' :: ws)

theorem commaItems_fst : ∀ (ws : List Spec.Word), (commaItems ws).map (·.1) = ws
  | [] => rfl
  | [_] => rfl
  | w :: w' :: ws => by simp [commaItems, commaItems_fst (w' :: ws)]

theorem commaItems_sepsOK : ∀ (ws : List Spec.Word), Spec.sepsOK (commaItems ws) = true
  | [] => rfl
  | [_] => rfl
  | w :: w' :: ws => by
    have ih := commaItems_sepsOK (w' :: ws)
    cases h : commaItems (w' :: ws) with
    | nil => cases ws <;> simp [commaItems] at h
    | cons p ps =>
      rw [h] at ih
      simp only [commaItems, h, Spec.sepsOK, ih, Bool.and_true]
      decide

theorem render_commaItems : ∀ (ws : List Spec.Word),
    Spec.render [] (commaItems ws) = PrintSpec.joinComma (ws.map Spec.renderWord)
  | [] => rfl
  | [w] => by simp [commaItems, Spec.render, PrintSpec.joinComma]
  | w :: w' :: ws => by
    have ih := render_commaItems (w' :: ws)
    simp only [Spec.render, List.nil_append] at ih ⊢
    simp only [commaItems, List.flatMap_cons, List.map_cons, PrintSpec.joinComma]
    rw [ih]
    simp [List.map_cons]

/-- `hostlist_create` (parser model) on well-formed words joined by commas: succeeds and denotes
    the expansion of the words (C01's string-level theorem for this separator pattern) -/
theorem create_joinComma (cfg : Cfg) (ws : List Spec.Word) (hw : ∀ w ∈ ws, w.WF = true)
    (hd : ∀ w ∈ ws, wordDom cfg w) :
    ∃ h, create cfg (PrintSpec.joinComma (ws.map Spec.renderWord)) = .ok h ∧ h.Good ∧
      h.hosts = Spec.expand₁ ws := by
  obtain ⟨st, h1, h2, h3⟩ := createToks_words cfg ws ⟨HL.new, 0⟩ hw hd HL.new_good
  rw [HL.new_hosts, List.nil_append] at h3
  refine ⟨st.hl, ?_, h2, h3⟩
  rw [← render_commaItems]
  unfold create createFrom
  have hwi : ∀ p ∈ commaItems ws, p.1.WF = true := by
    intro p hp
    apply hw
    rw [← commaItems_fst ws]
    exact List.mem_map.mpr ⟨p, hp, rfl⟩
  rw [tokens_render (commaItems ws) [] rfl (commaItems_sepsOK ws) hwi]
  have : ((commaItems ws).map fun p => Spec.renderWord p.1) = ws.map Spec.renderWord := by
    conv => rhs; rw [← commaItems_fst ws]
    rw [List.map_map]; rfl
  rw [this, h1]

/-! ### the domain of the round trip -/
/-- every host name of the record is shorter than the 1023 bytes a bracket-less word may have in the
    UNCHANGED parser (D18; that also keeps it inside `host[4096]`, D23) -/
def NameShort (r : HRange) : Prop :=
  if r.single then r.pre.length < CURTOK - 1 else r.pre.length + max r.width (ndig r.hi) < CURTOK - 1

instance (r : HRange) : Decidable (NameShort r) := by unfold NameShort; exact inferInstance

/-- the parser's limits as far as names are concerned: none when D18 and D23 are repaired, else
    `NameShort` -/
def NameFits (cfg : Cfg) (r : HRange) : Prop :=
  (cfg.fixCurTok = true ∧ cfg.fixHostBuf = true) ∨ NameShort r

instance (cfg : Cfg) (r : HRange) : Decidable (NameFits cfg r) := by unfold NameFits; exact inferInstance

theorem nameChar_eq_textChar : PrintSpec.nameChar = Spec.textChar := rfl

theorem digit_textChar {c : Char} (h : isDigit c = true) : Spec.textChar c = true := by
  have := (isDigit_iff c).mp h
  simp only [Spec.textChar, Bool.and_eq_true, decide_eq_true_eq, ne_eq]
  refine ⟨⟨⟨⟨?_, ?_⟩, ?_⟩, ?_⟩, ?_⟩ <;> (intro e; rw [e] at this; revert this; decide)

theorem fmtPad_textChar (w n : Nat) : (fmtPad w n).all Spec.textChar = true := by
  rw [List.all_eq_true]
  intro c hc
  exact digit_textChar (fmtPad_allDigits w n c hc)

/-- every host a record denotes is a well-formed plain word inside the parser's domain -/
theorem host_plain_ok (cfg : Cfg) {r : HRange} (hg : r.Good) (hm : r.pre.all PrintSpec.nameChar = true)
    (hne : r.single = true → r.pre ≠ []) (hf : NameFits cfg r) {x : Str} (hx : x ∈ r.hosts) :
    (Spec.Word.plain x).WF = true ∧ wordDom cfg (.plain x) := by
  rw [nameChar_eq_textChar] at hm
  unfold HRange.hosts at hx
  by_cases hs : r.single = true
  · simp only [hs, ↓reduceIte, List.mem_cons, List.not_mem_nil, or_false] at hx
    subst hx
    have hdom : wordDom cfg (.plain r.pre) := by
      rcases hf with hf | hf
      · exact Or.inl hf.1
      · unfold NameShort at hf
        simp only [hs, ↓reduceIte] at hf
        exact Or.inr hf
    refine ⟨?_, hdom⟩
    simp only [Spec.Word.WF, hm, Bool.and_true, Bool.not_eq_true', List.isEmpty_eq_false_iff]
    exact hne hs
  · have hs' : r.single = false := by simpa using hs
    simp only [hs', Bool.false_eq_true, ↓reduceIte, List.mem_map, List.mem_range'_1] at hx
    obtain ⟨k, ⟨hk1, hk2⟩, rfl⟩ := hx
    have hlo := hg.2 hs'
    constructor
    · simp only [Spec.Word.WF, List.all_append, hm, fmtPad_textChar, Bool.and_self, Bool.and_true,
        Bool.not_eq_true', List.isEmpty_eq_false_iff, ne_eq, List.append_eq_nil_iff, not_and]
      intro _
      exact fmtPad_ne_nil _ _
    · rcases hf with hf | hf
      · exact Or.inl hf.1
      · unfold NameShort at hf
        simp only [hs', Bool.false_eq_true, ↓reduceIte] at hf
        refine Or.inr ?_
        show (r.pre ++ fmtPad r.width k).length < CURTOK - 1
        rw [List.length_append, fmtPad_length]
        have := ndig_mono (show k ≤ r.hi by omega)
        omega

/-! ### expanded form -/
/-- EXPANDED FORM: `hostlist_create` reads the text back as the same host sequence -/
theorem deranged_roundtrip_L (cfg : Cfg) (rs : List HRange) (hg : ∀ r ∈ rs, r.Good)
    (hm : PrintSpec.NoMetaL rs) (hf : ∀ r ∈ rs, NameFits cfg r) :
    ∃ h', create cfg (derangedT rs) = .ok h' ∧ h'.Good ∧ h'.hosts = rs.flatMap HRange.hosts := by
  have hall : ∀ x ∈ rs.flatMap HRange.hosts, (Spec.Word.plain x).WF = true ∧ wordDom cfg (.plain x) := by
    intro x hx
    obtain ⟨r, hr, hxr⟩ := List.mem_flatMap.mp hx
    exact host_plain_ok cfg (hg r hr) (hm r hr).1 (hm r hr).2 (hf r hr) hxr
  obtain ⟨h', e, g, hh⟩ := create_joinComma cfg ((rs.flatMap HRange.hosts).map Spec.Word.plain)
    (fun w hw => by obtain ⟨x, hx, rfl⟩ := List.mem_map.mp hw; exact (hall x hx).1)
    (fun w hw => by obtain ⟨x, hx, rfl⟩ := List.mem_map.mp hw; exact (hall x hx).2)
  refine ⟨h', ?_, g, ?_⟩
  · rw [← e]
    congr 1
    unfold derangedT
    rw [List.map_map]
    congr 1
    exact (List.map_id' _).symm ▸ (by simp)
  · rw [hh]
    simp [Spec.expand₁, List.flatMap_map, Spec.Word.expand₁]

end PdshVerif.Hostlist.Print
