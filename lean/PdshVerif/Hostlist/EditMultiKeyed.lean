/-
  C16, any number of live iterators: the operations that address ONE iterator —
  `hostlist_next`, `hostlist_iterator_reset`, `hostlist_iterator_create`, `hostlist_iterator_destroy` —
  act on that iterator as the one-iterator theorems say and leave every other iterator alone.
-/
import PdshVerif.Hostlist.EditMultiLift

namespace PdshVerif.Hostlist
open PdshVerif.Gen

theorem find_key_of_mem {β : Type} : ∀ (l : List (Nat × β)), (l.map (·.1)).Nodup → ∀ a ∈ l,
    l.find? (·.1 == a.1) = some a
  | [], _, _, h => by simp at h
  | x :: l, hn, a, ha => by
    simp only [List.map_cons, List.nodup_cons] at hn
    rcases List.mem_cons.mp ha with rfl | hm
    · simp
    · have hne : x.1 ≠ a.1 := by
        intro heq; apply hn.1; rw [heq]; exact List.mem_map.mpr ⟨a, hm, rfl⟩
      have : (x.1 == a.1) = false := by simpa using hne
      rw [List.find?_cons, this]
      exact find_key_of_mem l hn.2 a hm

theorem All2.keys {β γ : Type} {R : Nat × β → Nat × γ → Prop} (hk : ∀ a b, R a b → a.1 = b.1) :
    ∀ {l m}, All2 R l m → l.map (·.1) = m.map (·.1)
  | _, _, .nil => rfl
  | _, _, .cons hab hl => by simp [hk _ _ hab, All2.keys hk hl]

theorem All2.attach {α β : Type} {R : α → β → Prop} : ∀ {l m}, All2 R l m →
    All2 (fun a b => a ∈ l ∧ b ∈ m ∧ R a b) l m
  | _, _, .nil => .nil
  | _, _, .cons hab hl =>
    .cons ⟨by simp, by simp, hab⟩
      (All2.imp (fun a b h => ⟨List.mem_cons_of_mem _ h.1, List.mem_cons_of_mem _ h.2.1, h.2.2⟩) (All2.attach hl))

theorem All2.exists_right {α β : Type} {R : α → β → Prop} : ∀ {l m}, All2 R l m → ∀ a ∈ l, ∃ b ∈ m, R a b
  | _, _, .nil, _, h => by simp at h
  | _, _, .cons hab hl, a, ha => by
    rcases List.mem_cons.mp ha with rfl | hm
    · exact ⟨_, by simp, hab⟩
    · obtain ⟨b, hb, hr⟩ := All2.exists_right hl a hm
      exact ⟨b, List.mem_cons_of_mem _ hb, hr⟩

/-- `hostlist_next` on iterator `k` looks at that iterator and the records only -/
theorem itNext_proj (cfg : Cfg) (e : EL) (k : Nat) (it : ItSt) (hg : e.getIt k = some it) :
    itNext cfg e k =
      match itNext cfg (e.withIts [(0, it)]) 0 with
      | .error w => .error w
      | .ok (a, e1) => .ok (a, e.setIt k ((e1.its.head?.map (·.2)).getD it)) := by
  have hg0 : (e.withIts [(0, it)]).getIt 0 = some it := by simp [EL.getIt, EL.withIts]
  have hadv : itAdvance cfg (e.withIts [(0, it)]) it = itAdvance cfg e it := rfl
  unfold itNext
  rw [hg, hg0]
  simp only
  rw [hadv]
  cases hA : itAdvance cfg e it with
  | error w => rfl
  | ok v =>
    obtain ⟨has, it'⟩ := v
    simp only
    cases has with
    | false => simp [EL.setIt, EL.withIts]
    | true =>
      simp only [Bool.not_true, Bool.false_eq_true, ↓reduceIte]
      have hd : (e.withIts [(0, it)]).deref it'.hr = e.deref it'.hr := rfl
      rw [hd]
      cases e.deref it'.hr with
      | error w => rfl
      | ok o => simp [EL.setIt, EL.withIts]

theorem setIt_keys (e : EL) (k : Nat) (it : ItSt) : (e.setIt k it).its.map (·.1) = e.its.map (·.1) := by
  unfold EL.setIt
  simp only [List.map_map]
  apply List.map_congr_left
  intro q _
  simp only [Function.comp]
  by_cases h : (q.1 == k) = true
  · simp only [h, ↓reduceIte]; exact (beq_iff_eq.mp h).symm
  · simp only [h]; rfl

/-- whatever `hostlist_next` answers, all it changes is iterator `k` -/
theorem itNext_shape (cfg : Cfg) (e : EL) (k : Nat) (a : Option Str) (e' : EL) (h : itNext cfg e k = .ok (a, e')) :
    ∃ it', e' = e.setIt k it' := by
  unfold itNext at h
  cases hg : e.getIt k with
  | none => rw [hg] at h; simp at h
  | some it =>
    rw [hg] at h
    simp only at h
    cases hA : itAdvance cfg e it with
    | error w => rw [hA] at h; simp at h
    | ok v =>
      rw [hA] at h
      obtain ⟨has, it'⟩ := v
      simp only at h
      cases has with
      | false =>
        simp only [Bool.not_false, ↓reduceIte, Except.ok.injEq, Prod.mk.injEq] at h
        exact ⟨it', h.2.symm⟩
      | true =>
        simp only [Bool.not_true, Bool.false_eq_true, ↓reduceIte] at h
        cases hd : e.deref it'.hr with
        | error w => rw [hd] at h; simp at h
        | ok o =>
          rw [hd] at h
          simp only [Except.ok.injEq, Prod.mk.injEq] at h
          exact ⟨it', h.2.symm⟩

/-- iterator `k` gets a new state and cursor, the others keep theirs -/
theorem each_update (cfg : Cfg) (e : EL) (p : EditSpec.PL) (fr : Nat → Bool) (h : RefM cfg e p fr)
    (kk : Nat) (it' : ItSt) (c' : Nat) (f' : Bool) (hr : Ref cfg (e.withIts [(0, it')]) ⟨p.names, [(0, c')]⟩ c' f') :
    All2 (fun a b => a.1 = b.1 ∧ Ref cfg (e.withIts [(0, a.2)]) ⟨p.names, [(0, b.2)]⟩ b.2 (if a.1 = kk then f' else fr a.1))
      (e.setIt kk it').its (p.cur.map fun q => if q.1 == kk then (kk, c') else q) := by
  show All2 _ (e.its.map _) _
  refine All2.map _ _ ?_ (All2.attach h.each)
  intro x y ⟨_, _, hxy, hrxy⟩
  by_cases hxk : (x.1 == kk) = true
  · have hxe : x.1 = kk := beq_iff_eq.mp hxk
    have hyk : (y.1 == kk) = true := by rw [← hxy]; exact hxk
    simp only [hxk, hyk, ↓reduceIte]
    exact ⟨trivial, hr⟩
  · have hne : ¬ x.1 = kk := fun hh => hxk (beq_iff_eq.mpr hh)
    have hyk : ¬ (y.1 == kk) = true := by rw [← hxy]; exact hxk
    simp only [hxk, hyk, Bool.false_eq_true, ↓reduceIte, hne]
    exact ⟨hxy, hrxy⟩

theorem map_upd_self {β : Type} (l : List (Nat × β)) (hn : (l.map (·.1)).Nodup) (k : Nat) (c : β) (hb : (k, c) ∈ l) :
    (l.map fun q => if q.1 == k then (k, c) else q) = l := by
  have : ∀ q ∈ l, (if q.1 == k then (k, c) else q) = q := by
    intro q hq
    by_cases hqk : (q.1 == k) = true
    · have hqe : q.1 = k := beq_iff_eq.mp hqk
      have h1 := find_key_of_mem l hn q hq
      have h2 := find_key_of_mem l hn (k, c) hb
      rw [hqe] at h1; simp only at h2; rw [h1] at h2
      simp only [hqk, ↓reduceIte]
      exact (Option.some.inj h2).symm
    · simp only [hqk, Bool.false_eq_true, ↓reduceIte]
  conv => rhs; rw [← List.map_id l]
  exact List.map_congr_left this

/-- NEXT on iterator `k`, any number of live iterators: the answer is the name under cursor `k` (NULL at
    the end), cursor `k` moves like the iterator, every other iterator and cursor stays -/
theorem next_refinesM (cfg : Cfg) (e : EL) (p : EditSpec.PL) (fr : Nat → Bool) (h : RefM cfg e p fr)
    (k : Nat) (hk : k ∈ e.its.map (·.1)) :
    ∃ a p' e', EditSpec.itNext p k = some (a, p') ∧ itNext cfg e k = .ok (a, e') ∧
      RefM cfg e' p' (fun j => if j = k then a.isSome else fr j) := by
  obtain ⟨q, hq, hqk⟩ := List.mem_map.mp hk
  obtain ⟨kk, it⟩ := q
  simp only at hqk
  subst hqk
  have hgi : e.getIt kk = some it := by
    unfold EL.getIt; rw [find_key_of_mem e.its h.keys (kk, it) hq]; rfl
  obtain ⟨b, hb, hkb, hrb⟩ := All2.exists_right h.each (kk, it) hq
  obtain ⟨kb, c⟩ := b
  simp only at hkb hrb
  subst hkb
  have hkeys : e.its.map (·.1) = p.cur.map (·.1) := All2.keys (fun a b hab => hab.1) h.each
  have hnc : (p.cur.map (·.1)).Nodup := by rw [← hkeys]; exact h.keys
  have hgc : EditSpec.getCur p kk = some c := by
    unfold EditSpec.getCur; rw [find_key_of_mem p.cur hnc (kk, c) hb]; rfl
  obtain ⟨a, p1', e1', c1', hs1, hn1, hr1⟩ := next_refines cfg _ _ c (fr kk) hrb
  obtain ⟨it', he1⟩ := itNext_shape cfg _ 0 a e1' hn1
  have he1' : e1' = e.withIts [(0, it')] := by rw [he1]; simp [EL.setIt, EL.withIts]
  have hproj := itNext_proj cfg e kk it hgi
  rw [hn1, he1'] at hproj
  simp only [EL.withIts_its, List.head?_cons, Option.map_some, Option.getD_some] at hproj
  have hg1 : EditSpec.getCur ⟨p.names, [(0, c)]⟩ 0 = some c := by simp [EditSpec.getCur]
  have hkeys' : (e.setIt kk it').its.map (·.1) = e.its.map (·.1) := setIt_keys e kk it'
  cases hx : p.names[c]? with
  | none =>
    have hs1' : EditSpec.itNext ⟨p.names, [(0, c)]⟩ 0 = some (none, ⟨p.names, [(0, c)]⟩) := by
      unfold EditSpec.itNext; rw [hg1]; simp [hx]
    rw [hs1'] at hs1
    simp only [Option.some.injEq, Prod.mk.injEq] at hs1
    obtain ⟨ha, hp1⟩ := hs1
    subst ha; subst hp1
    have hc1 := hr1.cur_eq
    subst hc1
    rw [he1'] at hr1
    refine ⟨none, p, _, by unfold EditSpec.itNext; rw [hgc]; simp [hx], hproj, ?_⟩
    refine ⟨h.base, by rw [hkeys']; exact h.keys, ?_⟩
    have := each_update cfg e p fr h kk it' c1' _ hr1
    rw [map_upd_self p.cur hnc kk c1' hb] at this
    exact this
  | some nm =>
    have hs1' : EditSpec.itNext ⟨p.names, [(0, c)]⟩ 0 = some (some nm, ⟨p.names, [(0, c + 1)]⟩) := by
      unfold EditSpec.itNext; rw [hg1]; simp [hx, EditSpec.setCur]
    rw [hs1'] at hs1
    simp only [Option.some.injEq, Prod.mk.injEq] at hs1
    obtain ⟨ha, hp1⟩ := hs1
    subst ha; subst hp1
    have hc1 := hr1.cur_eq
    subst hc1
    rw [he1'] at hr1
    refine ⟨some nm, EditSpec.setCur p kk (c + 1), _, by unfold EditSpec.itNext; rw [hgc]; simp [hx], hproj, ?_⟩
    refine ⟨h.base, by rw [hkeys']; exact h.keys, ?_⟩
    exact each_update cfg e p fr h kk it' (c + 1) _ hr1

/-- RESET of iterator `k`: it starts over, the others stay -/
theorem reset_refinesM (cfg : Cfg) (e : EL) (p : EditSpec.PL) (fr : Nat → Bool) (h : RefM cfg e p fr) (k : Nat) :
    RefM cfg (itReset e k) (EditSpec.itReset p k) (fun j => if j = k then false else fr j) := by
  refine ⟨h.base, ?_, ?_⟩
  · show ((e.setIt k e.resetIt).its.map (·.1)).Nodup
    rw [setIt_keys]; exact h.keys
  · exact each_update cfg e p fr h k e.resetIt 0 false h.base

/-- CREATE in a free slot `k`: the new iterator stands in front of the whole list, the others stay -/
theorem new_refinesM (cfg : Cfg) (e : EL) (p : EditSpec.PL) (fr : Nat → Bool) (h : RefM cfg e p fr) (k : Nat)
    (hk : k ∉ e.its.map (·.1)) :
    RefM cfg (itNew e k) (EditSpec.itNew p k) (fun j => if j = k then false else fr j) := by
  refine ⟨h.base, ?_, ?_⟩
  · show (((k, e.resetIt) :: e.its).map (·.1)).Nodup
    simp only [List.map_cons, List.nodup_cons]
    exact ⟨hk, h.keys⟩
  · show All2 _ ((k, e.resetIt) :: e.its) ((k, 0) :: p.cur)
    refine .cons ⟨rfl, by simp only [↓reduceIte]; exact h.base⟩ ?_
    refine All2.imp ?_ (All2.attach h.each)
    intro a b ⟨ha, _, hab, hr⟩
    have hne : ¬ a.1 = k := fun hh => hk (hh ▸ List.mem_map.mpr ⟨a, ha, rfl⟩)
    simp only [hne, ↓reduceIte]
    exact ⟨hab, hr⟩

theorem All2.filter_keys {β γ : Type} {R : Nat × β → Nat × γ → Prop} (hk : ∀ a b, R a b → a.1 = b.1) (f : Nat → Bool) :
    ∀ {l m}, All2 R l m → All2 R (l.filter fun q => f q.1) (m.filter fun q => f q.1)
  | _, _, .nil => .nil
  | _, _, .cons (a := a) (b := b) hab hl => by
    have hkk := hk _ _ hab
    rw [List.filter_cons, List.filter_cons, ← hkk]
    cases f a.1 with
    | true => exact .cons hab (All2.filter_keys hk f hl)
    | false => exact All2.filter_keys hk f hl

/-- DESTROY of iterator `k`: the others stay -/
theorem free_refinesM (cfg : Cfg) (e : EL) (p : EditSpec.PL) (fr : Nat → Bool) (h : RefM cfg e p fr) (k : Nat) :
    RefM cfg (itFree e k) (EditSpec.itFree p k) fr := by
  refine ⟨h.base, ?_, ?_⟩
  · show ((e.its.filter (·.1 != k)).map (·.1)).Nodup
    exact (List.filter_sublist.map _).nodup h.keys
  · exact All2.filter_keys (fun a b hab => hab.1) (fun j => j != k) h.each

end PdshVerif.Hostlist
