/-
  C16 `deleteNth_refines`: ONE live iterator in an arbitrary position refines the plain list's cursor under
  `hostlist_delete_nth(hl, n)` for every position n (F16-DELETE-UNDER-ITERATOR / F16-MULTI repaired, D19
  repaired): the cursor moves down by one exactly when the deleted position lay in front of it.
-/
import PdshVerif.Hostlist.EditDeleteObs3

namespace PdshVerif.Hostlist
open PdshVerif.Gen

theorem single_hosts_length {r : HRange} (hs : r.single = true) : r.hosts.length = 1 := by
  simp [HRange.hosts, hs]

/-- the observer after the delete, on the laid-out list -/
theorem deleteNth_obs (cfg : Cfg) (hD19 : cfg.fixRemoveDepth = true) (hID : cfg.fixIterDelete = true)
    (A : List RObj) (o : RObj) (B : List RObj) (nh : Int) (nx : Nat) (i k j : Nat)
    (hgA : ∀ a ∈ A, a.r.Good) (hgo : o.r.Good) (hj : j < o.r.hosts.length) :
    let e : EL := ⟨A ++ o :: B, nh, nx, [(0, ⟨(i : Int), (k : Int) - 1, EL.hrAt ⟨A ++ o :: B, nh, nx, []⟩ (i : Int)⟩)]⟩
    let n := (hostsL (A.map (·.r))).length + j
    ∃ i' k', Coh (deleteNthE cfg e n) i' k' ∧
      offL (deleteNthE cfg e n).ranges i' k' = (if offL e.ranges i k > n then offL e.ranges i k - 1 else offL e.ranges i k) := by
  intro e n
  cases hs : o.r.single with
  | true =>
    have hone := single_hosts_length hs
    have hj0 : j = 0 := by omega
    subst hj0
    rw [show deleteNthE cfg e n = _ from deleteNthE_gone cfg A o B nh nx _ 0 hgA hgo hj (Or.inl hs)]
    exact obs_gone cfg hD19 A o B nh nx i k hgA hone
  | false =>
    rcases hostrangeDeleteHost_cases hgo hs hj with ⟨r', hd, he, hj0, hone⟩ | ⟨r', hd, he, _, hj0, hh, _⟩ |
        ⟨r', hd, he, _, _, hjl, hh, _⟩ | ⟨r', up, hd, _, _, hh1, hh2, _⟩
    · subst hj0
      rw [show deleteNthE cfg e n = _ from deleteNthE_gone cfg A o B nh nx _ 0 hgA hgo hj (Or.inr ⟨hs, r', hd, he⟩)]
      exact obs_gone cfg hD19 A o B nh nx i k hgA hone
    · rw [show deleteNthE cfg e n = _ from deleteNthE_shrink cfg A o B nh nx _ j hgA hgo hj hs r' hd he]
      refine obs_shrink cfg hID A o B nh nx i k j r' hj ?_
      rw [hh, List.length_drop]; omega
    · rw [show deleteNthE cfg e n = _ from deleteNthE_shrink cfg A o B nh nx _ j hgA hgo hj hs r' hd he]
      refine obs_shrink cfg hID A o B nh nx i k j r' hj ?_
      rw [hh, List.length_take]; omega
    · rw [show deleteNthE cfg e n = _ from deleteNthE_split cfg A o B nh nx _ j hgA hgo hj hs r' up hd]
      refine obs_split cfg hID A o B nh nx i k j r' up hj ?_ ?_
      · rw [hh1, List.length_take]; omega
      · rw [hh2, List.length_drop]; omega

/-- DELETE BY POSITION with the iterator live, wherever it stands -/
theorem deleteNth_refines (cfg : Cfg) (hfs : cfg.fixIterSuffix = true) (hD19 : cfg.fixRemoveDepth = true)
    (hID : cfg.fixIterDelete = true) (e : EL) (p : EditSpec.PL) (c : Nat) (fr : Bool) (h : Ref cfg e p c fr)
    (n : Nat) (hn : n < p.names.length) :
    Ref cfg (deleteNthE cfg e n) (p.delPos n) (if c > n then c - 1 else c) false := by
  obtain ⟨i, k, hc, hrem, _⟩ := h.pos
  have hhosts : hostsL e.ranges = p.names := h.hosts
  have hoff : offL e.ranges i k = c := by
    rw [← remaining_iff_off e.ranges i k c (by rw [hhosts]; exact h.le), hhosts]; exact hrem
  have hn' : n < e.hosts.length := by rw [h.hosts]; exact hn
  obtain ⟨hg', hh'⟩ := deleteNthE_hosts cfg e n h.good hn'
  have hid' := deleteNthE_ids cfg e n h.ids
  have hlen' : (p.names.eraseIdx n).length = p.names.length - 1 := by
    rw [List.length_eraseIdx]; simp [hn]
  have hc'le : (if c > n then c - 1 else c) ≤ (p.names.eraseIdx n).length := by
    have := h.le; rw [hlen']; split <;> omega
  -- lay the list out around position n
  obtain ⟨rs, nh, nx, its⟩ := e
  obtain ⟨A, o, B, j, hrs, hnj, hj⟩ := locate_layout rs n (by
    have : n < (hostsL (EL.ranges ⟨rs, nh, nx, its⟩)).length := by rw [hhosts]; exact hn
    exact this)
  subst hrs
  have hgA : ∀ a ∈ A, a.r.Good := fun a ha => h.good.1 a.r (by simp only [EL.ranges, List.map_append, List.mem_append, List.mem_map]; exact Or.inl ⟨a, ha, rfl⟩)
  have hgo : o.r.Good := h.good.1 o.r (by simp [EL.ranges])
  have hits : its = [(0, ⟨(i : Int), (k : Int) - 1, EL.hrAt ⟨A ++ o :: B, nh, nx, []⟩ (i : Int)⟩)] := hc
  subst hits
  subst hnj
  obtain ⟨i', k', hc', hoff'⟩ := deleteNth_obs cfg hD19 hID A o B nh nx i k j hgA hgo hj
  rw [hoff] at hoff'
  refine ⟨hid', hg', fun _ _ => Or.inl hfs, by rw [hh', h.hosts]; rfl, ?_, hc'le, i', k', hc', ?_, by intro hf; simp at hf⟩
  · unfold EditSpec.PL.delPos; rw [h.cur]; rfl
  · have hh2 := hh'
    rw [h.hosts] at hh2
    have hle2 := hc'le
    rw [← hh2] at hle2
    show remaining _ i' k' = (p.names.eraseIdx _).drop _
    rw [← hh2]
    exact (remaining_iff_off _ i' k' _ hle2).mpr hoff'

end PdshVerif.Hostlist
