/-
  LOOK-UP BY NAME, FOR TEXTS (C01: "every name of the expansion is found by name in the list the
  real `hostlist_create` built"): C16's `findRanges_eq_idxOf` (Hostlist/LemmasFindFirst.lean,
  imported read-only) composed with `create_hosts_classify`.

    * `find_of_text`  for every accepted text and every name whose trailing digit run is ≤ 2^25
                      (`SmallName`; beyond it: open finding F16-BIGSUFFIX / F01-X-BIGSUFFIX)
                      `hostlist_find` answers the index of the FIRST occurrence of the name in the
                      spec's expansion `hosts₁`, and -1 exactly for the names that are not in it.
-/
import PdshVerif.Hostlist.LemmasClassify
import PdshVerif.Hostlist.LemmasFindFirst

namespace PdshVerif.Hostlist
open PdshVerif.Gen

/-- `hostlist_find(hostlist_create(text), name)` = first index of `name` in the spec's expansion
    of the text (`none` = -1: not a name of the expansion) -/
theorem find_of_text (cfg : Cfg) (h15 : cfg.fixUlongMax = true) (h16 : cfg.fixDigits = true)
    (h18 : cfg.fixCurTok = true) (h22 : cfg.fixSuffixBal = true) (h23 : cfg.fixHostBuf = true)
    (s : Str) (h : HL) (hc : create cfg s = .ok h) (name : Str) (hsm : SmallName name) :
    (find h name).1 =
      if name ∈ (Spec.classify s).hosts₁ then some ((Spec.classify s).hosts₁.idxOf name) else none := by
  obtain ⟨hg, hh, _⟩ := create_hosts_classify cfg h15 h16 h18 h22 h23 s h hc
  have := findRanges_eq_idxOf h.ranges.toList name hg.1 hsm
  have e : hostsL h.ranges.toList = (Spec.classify s).hosts₁ := hh
  rw [e] at this
  unfold find
  generalize findRanges h.ranges.toList name = q at this ⊢
  obtain ⟨a, b⟩ := q
  exact this

/-- every small name of the expansion IS found, at the index of its first occurrence -/
theorem find_expansion_name (cfg : Cfg) (h15 : cfg.fixUlongMax = true) (h16 : cfg.fixDigits = true)
    (h18 : cfg.fixCurTok = true) (h22 : cfg.fixSuffixBal = true) (h23 : cfg.fixHostBuf = true)
    (s : Str) (h : HL) (hc : create cfg s = .ok h) (name : Str) (hsm : SmallName name)
    (hm : name ∈ (Spec.classify s).hosts₁) :
    (find h name).1 = some ((Spec.classify s).hosts₁.idxOf name) := by
  rw [find_of_text cfg h15 h16 h18 h22 h23 s h hc name hsm, if_pos hm]

end PdshVerif.Hostlist
