/-
  One round of `hostlist_coalesce` keeps the multiset of hosts, the counter and the well-formedness of the
  records.
-/
import PdshVerif.Hostlist.EditSortHosts
import PdshVerif.Hostlist.LemmasIterEdit

namespace PdshVerif.Hostlist
open PdshVerif.Gen

/-- what `hostrange_intersect` found when it returns a record -/
theorem hostrangeIntersect_some {h1 h2 nw a' b' : HRange} (h : hostrangeIntersect h1 h2 = (some nw, a', b')) :
    h1.single = false ∧ h2.single = false ∧ prefixCmp h1 h2 = 0 ∧ h1.lo ≤ h2.lo ∧ h1.hi > h2.lo ∧
    ∃ w1 w2, widthCombine h1 h2 = (true, w1, w2) ∧ a' = { h1 with width := w1 } ∧ b' = { h2 with width := w2 } ∧
      nw = { h1 with width := w1, lo := h2.lo, hi := if h2.hi < h1.hi then h2.hi else h1.hi } := by
  unfold hostrangeIntersect at h
  by_cases hs : (h1.single || h2.single) = true
  · rw [if_pos hs] at h; simp at h
  · rw [if_neg hs] at h
    have hs1 : h1.single = false := by cases h1s : h1.single <;> simp [h1s] at hs ⊢
    have hs2 : h2.single = false := by cases h2s : h2.single <;> simp [h2s, hs1] at hs ⊢
    by_cases hc : (prefixCmp h1 h2 = 0 && decide (h1.lo ≤ h2.lo) && decide (h1.hi > h2.lo)) = true
    · rw [if_pos hc] at h
      simp only [Bool.and_eq_true, decide_eq_true_eq] at hc
      obtain ⟨⟨hp, hlo⟩, hhi⟩ := hc
      cases hw : widthCombine h1 h2 with
      | mk ok rest =>
        obtain ⟨w1, w2⟩ := rest
        rw [hw] at h
        cases ok with
        | false => simp at h
        | true =>
          simp only [Prod.mk.injEq, Option.some.injEq] at h
          obtain ⟨hn, ha, hb⟩ := h
          exact ⟨hs1, hs2, hp, hlo, hhi, w1, w2, rfl, ha.symm, hb.symm, hn.symm⟩
    · rw [if_neg hc] at h; simp at h

theorem coalesceAt_hosts (e : EL) (i : Nat) (e' : EL) (hg : ∀ r ∈ e.ranges, r.Good)
    (h : coalesceAt e i = .ok (some e')) :
    e'.hosts.Perm e.hosts ∧ e'.nhosts = e.nhosts ∧ ∀ r ∈ e'.ranges, r.Good := by
  unfold coalesceAt at h
  cases h1 : e.rs[i - 1]? with
  | none => rw [h1] at h; simp at h
  | some a =>
    cases h2 : e.rs[i]? with
    | none => rw [h1, h2] at h; simp at h
    | some b =>
      rw [h1, h2] at h
      simp only at h
      by_cases hi0 : i = 0
      · simp [hi0] at h
      rw [if_neg hi0] at h
      cases hI : hostrangeIntersect a.r b.r with
      | mk res rest =>
        obtain ⟨a', b'⟩ := rest
        rw [hI] at h
        cases res with
        | none => simp at h
        | some nw =>
          simp only at h
          obtain ⟨hs1, hs2, hp, hlo, hhi, w1, w2, hw, ha', hb', hnw⟩ := hostrangeIntersect_some hI
          obtain ⟨hpre, _⟩ := prefixCmp_zero hp
          -- the pair sits at positions i-1, i
          have hi : i - 1 + 1 = i := by omega
          have h1r : e.ranges[i - 1]? = some a.r := by rw [ranges_getElem?, h1]; rfl
          have h2r : e.ranges[i]? = some b.r := by rw [ranges_getElem?, h2]; rfl
          have hsplit := split_two e.ranges (i - 1) a.r b.r h1r (by rw [hi]; exact h2r)
          generalize hP : e.ranges.take (i - 1) = P at hsplit
          generalize hR : e.ranges.drop (i - 1 + 2) = R at hsplit
          have hPlen : P.length = i - 1 := by
            rw [← hP, List.length_take]
            have : i - 1 < e.ranges.length := (List.getElem?_eq_some_iff.mp h1r).1
            omega
          have hag : a.r.Good := hg _ (by rw [hsplit]; simp)
          have hbg : b.r.Good := hg _ (by rw [hsplit]; simp)
          obtain ⟨ha1, ha2⟩ := hag.2 hs1
          obtain ⟨hb1, hb2⟩ := hbg.2 hs2
          obtain ⟨hf1, hf2, hww⟩ := widthEquiv_sound hw
          -- the records written back
          have hM : nw.hi = if b.r.hi < a.r.hi then b.r.hi else a.r.hi := by rw [hnw]
          have hnlo : nw.lo = b.r.lo := by rw [hnw]
          have hnpre : nw.pre = a.r.pre := by rw [hnw]
          have hnw' : nw.width = w1 := by rw [hnw]
          have hahi : a'.hi = a.r.hi := by rw [ha']
          have hbhi : b'.hi = b.r.hi := by rw [hb']
          generalize hMd : nw.hi = M at h hM
          generalize hXd : (if M < a'.hi then a'.hi else b'.hi) = X at h
          have hX : X = if M < a.r.hi then a.r.hi else b.r.hi := by rw [← hXd, hahi, hbhi]
          have hMle : b.r.lo ≤ M ∧ M < ULONG_MAX ∧ M ≤ X ∧ X < ULONG_MAX := by
            rw [hX, hM]; repeat' split
            all_goals omega
          by_cases hemp : ({ a' with hi := nw.lo } : HRange).empty = true
          · rw [if_pos hemp] at h; simp at h
          rw [if_neg hemp] at h
          simp only [Except.ok.injEq, Option.some.injEq] at h
          -- the array after the two records were rewritten
          have hset : ((e.setAt (i - 1) { a' with hi := nw.lo }).setAt i { b' with lo := M, hi := X }).ranges =
              (P ++ [({ a' with hi := nw.lo } : HRange)]) ++ ({ b' with lo := M, hi := X } : HRange) :: R := by
            rw [setAt_ranges, setAt_ranges, hsplit]
            have := set_two P a.r b.r ({ a' with hi := nw.lo } : HRange) ({ b' with lo := M, hi := X } : HRange) R
            rw [hPlen, hi] at this
            rw [this]; simp
          obtain ⟨hr, hn⟩ := insertSingles_ranges nw.pre nw.width ({ a' with hi := nw.lo } : HRange).hi
            ({ b' with lo := M, hi := X } : HRange).lo (List.range' nw.lo (M + 1 - nw.lo)) _ i _ _ hset (by simp; omega)
          rw [h] at hr hn
          -- names as a map over numbers
          have hA2 : ({ a' with hi := nw.lo } : HRange).hosts =
              (List.range' a.r.lo (b.r.lo + 1 - a.r.lo)).map fun k => a.r.pre ++ fmtPad w1 k := by
            rw [hosts_numeric _ (by rw [ha']; exact hs1), ha', hnlo]
          have hB2 : ({ b' with lo := M, hi := X } : HRange).hosts =
              (List.range' M (X + 1 - M)).map fun k => a.r.pre ++ fmtPad w1 k := by
            rw [hosts_numeric _ (by rw [hb']; exact hs2), hb', hpre, hww]
          have hS : hostsL ((List.range' nw.lo (M + 1 - nw.lo)).flatMap
              (singR nw.pre nw.width ({ a' with hi := nw.lo } : HRange).hi ({ b' with lo := M, hi := X } : HRange).lo)) =
              ((List.range' b.r.lo (M + 1 - b.r.lo)).flatMap (dupF b.r.lo M)).map fun k => a.r.pre ++ fmtPad w1 k := by
            rw [hostsL_singR, hnpre, hnw', hnlo]
          have hA0 : a.r.hosts = (List.range' a.r.lo (a.r.hi + 1 - a.r.lo)).map fun k => a.r.pre ++ fmtPad w1 k := by
            rw [hosts_numeric _ hs1]
            apply List.map_congr_left
            intro k hk
            have := (List.mem_range'_1.mp hk).1
            rw [hf1 k this]
          have hB0 : b.r.hosts = (List.range' b.r.lo (b.r.hi + 1 - b.r.lo)).map fun k => a.r.pre ++ fmtPad w1 k := by
            rw [hosts_numeric _ hs2, hpre, hww]
            apply List.map_congr_left
            intro k hk
            have := (List.mem_range'_1.mp hk).1
            rw [hf2 k this]
          have hperm := (coalesce_numbers_perm a.r.lo a.r.hi b.r.lo b.r.hi M X hlo hhi hb1 hM hX).map
            (fun k => a.r.pre ++ fmtPad w1 k)
          refine ⟨?_, hn, ?_⟩
          · show (hostsL e'.ranges).Perm (hostsL e.ranges)
            rw [hr, hsplit]
            simp only [hostsL_append, hostsL_cons, hostsL_nil, List.append_nil, List.append_assoc]
            refine List.Perm.append_left _ ?_
            rw [hA2, hS, hB2, hA0, hB0]
            simp only [← List.append_assoc]
            refine List.Perm.append_right _ ?_
            simp only [List.map_append] at hperm
            exact hperm
          · intro r hrm
            rw [hr] at hrm
            have hgP : ∀ x ∈ P, x.Good := fun x hx => hg x (by rw [hsplit]; simp [hx])
            have hgR : ∀ x ∈ R, x.Good := fun x hx => hg x (by rw [hsplit]; simp [hx])
            have hu : ULONG_MAX = 18446744073709551615 := rfl
            rcases List.mem_append.mp hrm with hrm1 | hrm2
            · rcases List.mem_append.mp hrm1 with hrm3 | hrm4
              · rcases List.mem_append.mp hrm3 with hx | hx
                · exact hgP r hx
                · have hx' : r = ({ a' with hi := nw.lo } : HRange) := by simpa using hx
                  rw [hx', ha', hnlo]
                  exact ⟨fun hc => by simp [hs1] at hc, fun _ => ⟨hlo, by simp only; omega⟩⟩
              · obtain ⟨x, hx, hxr⟩ := List.mem_flatMap.mp hrm4
                have hxm := List.mem_range'_1.mp hx
                unfold singR at hxr
                have hgood : (⟨nw.pre, x, x, nw.width, false⟩ : HRange).Good :=
                  ⟨fun hc => by simp at hc, fun _ => ⟨Nat.le_refl _, by simp only; rw [hnlo] at hxm; omega⟩⟩
                rcases List.mem_append.mp hxr with hxr | hxr <;> (split at hxr <;> simp at hxr <;> (rw [hxr]; exact hgood))
            · rcases List.mem_cons.mp hrm2 with hx | hx
              · rw [hx, hb']
                exact ⟨fun hc => by simp [hs2] at hc, fun _ => ⟨by simp only; omega, by simp only; omega⟩⟩
              · exact hgR r hx

end PdshVerif.Hostlist
