/-
  THE SAME EXPRESSIONS IN THE OTHER CONTEXTS, FROM THE OPTION TEXTS (C01: "in -w, in -x, in WCOLL /
  ^file lines"): composition with C02's exclusion model and C10's file reader, imported read-only.

  C02 / C10 prove what pdsh goes on with for the WORDS `wcoll_arg_process` sees
  (`Exclude.exclusion_correct`, `Targets.targetList_correct` = Props/C10 `target_list_end_to_end`:
  C10's reader ∘ C02's exclusion/filter stack ∘ C01's `hostlist_create` + `wcoll_expand`).  This file
  adds the step from the TEXTS of the options to those words and states the result for C01:

    * `evWords_w_join`, `evWords_x_join`  split.c `list_split` on the text of `-w W` / `-x X` (W, X
        comma-joined words) gives back exactly the words — commas inside brackets do not split;
        every well-formed word survives (`pieceOK_renderWord`);
    * `options_from_texts`  `pdsh -w W -x X` with W any mix of words and `^file`s, X any mix of
        words and `^file`s (and WCOLL): the hosts pdsh goes on with are
        expand₂(targets, files' words inlined) minus the names of expand₁(exclusions);
    * `w_x_from_texts`      the instance the property names: `pdsh -w W -x X` over words =
        expansion(W) minus the names of expansion(X) — FROM THE TWO TEXTS;
    * `wfile_from_texts`    `pdsh -w ^FILE -x X`: the file's words expand like `-w` words.
-/
import PdshVerif.Opt.WcollTargets
import PdshVerif.Opt.WcollSplit
import PdshVerif.Hostlist.LemmasCreate

namespace PdshVerif.Hostlist
open PdshVerif.Gen PdshVerif.Opt PdshVerif.Opt.Exclude PdshVerif.Opt.Targets
open PdshVerif.Opt.Wcoll (listSplit splitGo scanPiece lvlAfter pieceOK listSplit_join)

/-- C10's `joinComma` and the one of C01's spec are the same function -/
theorem joinComma_eq : ∀ (ps : List Str), Wcoll.joinComma ps = Spec.joinComma ps
  | [] => rfl
  | [_] => rfl
  | a :: b :: r => by
    simp only [Wcoll.joinComma, Spec.joinComma, joinComma_eq (b :: r)]

/-! ### `list_split` on the option texts -/
theorem scanPiece_dash (s : Str) : scanPiece ('-' :: s) 0 = scanPiece s 0 := by
  simp [scanPiece, lvlAfter]

theorem pieceOK_dash {s : Str} (h : pieceOK s = true) : pieceOK ('-' :: s) = true := by
  simp only [pieceOK, Bool.and_eq_true, beq_iff_eq] at h ⊢
  exact ⟨by simp, by rw [scanPiece_dash]; exact h.2⟩

/-- the words of `-w W`: the comma-joined pieces, given back one by one -/
theorem evWords_w_join (ps : List Str) (h : ∀ p ∈ ps, pieceOK p = true)
    (hd : Spec.joinComma ps ≠ ['-']) : evWords (.w (Spec.joinComma ps)) = ps := by
  simp only [evWords, if_neg hd]
  rw [← joinComma_eq]
  exact listSplit_join ps h

/-- the words of `-x X`: every comma-joined piece with the dash `opt_args` puts in front -/
theorem evWords_x_join (ps : List Str) (h : ∀ p ∈ ps, pieceOK p = true) :
    evWords (.x (Spec.joinComma ps)) = ps.map ('-' :: ·) := by
  simp only [evWords]
  rw [← joinComma_eq, listSplit_join ps h]
  induction ps with
  | nil => rfl
  | cons p ps ih =>
    have hp := pieceOK_dash (h p (by simp))
    have h1 : listSplit [','] ('-' :: p) = ['-' :: p] := by
      have := listSplit_join ['-' :: p] (by intro q hq; simp only [List.mem_singleton] at hq; rw [hq]; exact hp)
      simpa [Wcoll.joinComma] using this
    simp only [List.flatMap_cons, h1, List.map_cons, List.singleton_append]
    rw [ih (fun q hq => h q (by simp [hq]))]

/-! ### every well-formed word survives `list_split` -/
theorem scanPiece_append : ∀ (a : Str) (lvl l' : Int) (b : Str), scanPiece a lvl = some l' →
    scanPiece (a ++ b) lvl = scanPiece b l'
  | [], lvl, l', b, h => by
    simp only [scanPiece, Option.some.injEq] at h
    subst h; rfl
  | c :: r, lvl, l', b, h => by
    simp only [scanPiece] at h
    split at h
    · cases h
    · rename_i hno
      simp only [List.cons_append, scanPiece, if_neg hno]
      exact scanPiece_append r _ l' b h

theorem scanPiece_text : ∀ (s : Str) (lvl : Int), s.all Spec.textChar = true → scanPiece s lvl = some lvl
  | [], _, _ => rfl
  | c :: r, lvl, h => by
    simp only [List.all_cons, Bool.and_eq_true] at h
    obtain ⟨_, h4, h5⟩ := textChar_facts h.1
    have h1 : c ≠ ',' := by
      have := h.1
      unfold Spec.textChar at this
      simp only [Bool.and_eq_true, ne_eq, decide_eq_true_eq] at this
      exact this.1.1.1.1
    have hno : ¬ (lvl = 0 ∧ c = ',') := fun hc => h1 hc.2
    simp only [scanPiece, if_neg hno, lvlAfter, h4, h5, ↓reduceIte]
    exact scanPiece_text r lvl h.2

theorem scanPiece_inside : ∀ (s : Str) (lvl : Int), lvl ≠ 0 → '[' ∉ s → ']' ∉ s →
    scanPiece s lvl = some lvl
  | [], _, _, _, _ => rfl
  | c :: r, lvl, hl, ho, hc => by
    have h4 : c ≠ '[' := fun e => ho (by simp [e])
    have h5 : c ≠ ']' := fun e => hc (by simp [e])
    have hno : ¬ (lvl = 0 ∧ c = ',') := fun h => hl h.1
    simp only [scanPiece, if_neg hno, lvlAfter, h4, h5, ↓reduceIte]
    exact scanPiece_inside r lvl hl (fun hm => ho (List.mem_cons_of_mem _ hm))
      (fun hm => hc (List.mem_cons_of_mem _ hm))

theorem scanPiece_group {g : List Spec.Range} (hg : Spec.groupWF g = true) :
    scanPiece (Spec.renderGroup g) 0 = some 0 := by
  obtain ⟨ho, hc⟩ := groupBody_no_brackets hg
  unfold Spec.renderGroup
  have h1 : scanPiece ('[' :: Spec.joinComma (g.map Spec.renderRange) ++ [']']) 0 =
      scanPiece (Spec.joinComma (g.map Spec.renderRange) ++ [']']) 1 := by
    simp [scanPiece, lvlAfter]
  rw [h1, scanPiece_append _ 1 1 _ (scanPiece_inside _ 1 (by decide) ho hc)]
  simp [scanPiece, lvlAfter]

/-- a well-formed word is one piece for `list_split`: non-empty, its commas inside brackets -/
theorem pieceOK_renderWord {w : Spec.Word} (hw : w.WF = true) : pieceOK (Spec.renderWord w) = true := by
  cases w with
  | plain n =>
    simp only [Spec.Word.WF, Bool.and_eq_true, Bool.not_eq_true', List.isEmpty_eq_false_iff] at hw
    simp only [pieceOK, Spec.renderWord, Bool.and_eq_true, Bool.not_eq_true', List.isEmpty_eq_false_iff,
      beq_iff_eq]
    exact ⟨hw.1, scanPiece_text n 0 hw.2⟩
  | br pre g1 mid g2 =>
    simp only [Spec.Word.WF, Bool.and_eq_true] at hw
    obtain ⟨⟨⟨h1, h2⟩, h3⟩, h4⟩ := hw
    simp only [pieceOK, Spec.renderWord, Bool.and_eq_true, Bool.not_eq_true', beq_iff_eq]
    constructor
    · unfold Spec.renderGroup; cases pre <;> simp
    · rw [List.append_assoc, List.append_assoc,
        scanPiece_append _ 0 0 _ (scanPiece_text pre 0 h1),
        scanPiece_append _ 0 0 _ (scanPiece_group h2),
        scanPiece_append _ 0 0 _ (scanPiece_text mid 0 h3)]
      cases g2 with
      | none => rfl
      | some p =>
        obtain ⟨g, post⟩ := p
        simp only [Bool.and_eq_true] at h4
        unfold Spec.renderTail
        rw [scanPiece_append _ 0 0 _ (scanPiece_group h4.1)]
        exact scanPiece_text post 0 h4.2

/-! ### from the texts of `-w` and `-x` to the hosts pdsh goes on with -/
/-- the text of a segment as typed inside `-x` (the dash is put in front by `opt_args`) -/
def segXText : Seg → Str
  | .cw (.xcl w) => Spec.renderWord w
  | .xfile p _ => '^' :: p
  | s => s.text

/-- the segments `-x` can name: exclusion words and exclusion files -/
def segIsX : Seg → Bool
  | .cw (.xcl _) => true
  | .xfile _ _ => true
  | _ => false

theorem text_of_segIsX : ∀ (s : Seg), segIsX s = true → s.text = '-' :: segXText s
  | .cw (.xcl _), _ => rfl
  | .xfile _ _, _ => rfl
  | .cw (.tgt _), h => by simp [segIsX] at h
  | .cw (.re _ _), h => by simp [segIsX] at h
  | .tfile _ _, h => by simp [segIsX] at h

/-- `pdsh -w W -x X` FROM THE TEXTS, in the domain of C10 ∘ C02 ∘ C01's end-to-end theorem: W is the
    comma-joined text of the `-w` segments (target words with one or two pairs of brackets,
    `^file`), X the comma-joined text of the `-x` segments (words, `^file`); the options are split
    by `list_split`, handed word by word to `wcoll_arg_process`, the files read by C10's reader, the
    working collective re-expanded, exclusions and filters applied.  Result: the full expansion of
    the targets in source order (files' words inlined) minus every excluded name, filtered. -/
theorem options_from_texts (cfg : Cfg) (hD1 : cfg.fixDeleteAll = true) (hD17 : cfg.fixIterSuffix = true)
    (hD19 : cfg.fixRemoveDepth = true) (h2Br : cfg.fix2Br = true) (mode : Wcoll.LineMode) (fs : Wcoll.FS)
    (stdin : Str) (rematch : Str → Str → Option Bool) (badre : Str → Bool) (segsW segsX : List Seg)
    (wenv : Option (Str × List Spec.Word))
    (hX : ∀ s ∈ segsX, segIsX s = true)
    (hpW : ∀ s ∈ segsW, pieceOK s.text = true) (hpX : ∀ s ∈ segsX, pieceOK (segXText s) = true)
    (hd : Spec.joinComma (segsW.map Seg.text) ≠ ['-'])
    (hdom : targetDomain cfg mode fs stdin rematch badre (segsW ++ segsX) wenv = true) :
    cliFinalW cfg (envOf mode fs stdin rematch badre (segsW ++ segsX) wenv) (wenv.map (·.1))
        [.w (Spec.joinComma (segsW.map Seg.text)), .x (Spec.joinComma (segsX.map segXText))] =
      .ok (targetSpec (envOf mode fs stdin rematch badre (segsW ++ segsX) wenv) (segsW ++ segsX) wenv) := by
  have hwords : ([Ev.w (Spec.joinComma (segsW.map Seg.text)),
      Ev.x (Spec.joinComma (segsX.map segXText))]).flatMap evWords = (segsW ++ segsX).map Seg.text := by
    simp only [List.flatMap_cons, List.flatMap_nil, List.append_nil]
    rw [evWords_w_join _ (by
          intro p hp; obtain ⟨s, hs, rfl⟩ := List.mem_map.mp hp; exact hpW s hs) hd,
        evWords_x_join _ (by
          intro p hp; obtain ⟨s, hs, rfl⟩ := List.mem_map.mp hp; exact hpX s hs)]
    rw [List.map_append, List.map_map]
    congr 1
    apply List.map_congr_left
    intro s hs
    exact (text_of_segIsX s (hX s hs)).symm
  have h := targetList_correct cfg hD1 hD17 hD19 h2Br mode fs stdin rematch badre (segsW ++ segsX) wenv hdom
  rw [← hwords] at h
  exact h

/-! ### the instances the property names -/
/-- the segments of `-w W` / `-x X` over words -/
def wSegs (W : List Spec.Word) : List Seg := W.map fun w => Seg.cw (.tgt w)
def xSegs (X : List Spec.Word) : List Seg := X.map fun w => Seg.cw (.xcl w)

theorem wSegs_text (W : List Spec.Word) : (wSegs W).map Seg.text = W.map Spec.renderWord := by
  unfold wSegs; rw [List.map_map]; rfl
theorem xSegs_xtext (X : List Spec.Word) : (xSegs X).map segXText = X.map Spec.renderWord := by
  unfold xSegs; rw [List.map_map]; rfl

theorem flatMap_nil_of {α β : Type} (f : α → List β) : ∀ (l : List α), (∀ x ∈ l, f x = []) → l.flatMap f = []
  | [], _ => rfl
  | x :: xs, h => by
    simp only [List.flatMap_cons, h x (by simp), List.nil_append]
    exact flatMap_nil_of f xs (fun y hy => h y (by simp [hy]))

theorem segs_words_spec (W X : List Spec.Word) (segsT : List Seg) (hT : ∀ s ∈ segsT, s.isTgt = true)
    (hne : segsT ≠ []) (wenv : Option (Str × List Spec.Word)) (env : Env)
    (hreg : ∀ s ∈ segsT, s.reg = []) (hxn : ∀ s ∈ segsT, s.xnames = []) :
    targetSpec env (segsT ++ xSegs X) wenv =
      (Spec.expand₂ (segsT.flatMap Seg.words)).filter fun h => !(Spec.expand₁ X).contains h := by
  unfold targetSpec tgtWords
  have hany : (segsT ++ xSegs X).any Seg.isTgt = true := by
    cases segsT with
    | nil => exact absurd rfl hne
    | cons s r => simp [hT s (by simp)]
  have hw : (segsT ++ xSegs X).flatMap Seg.words = segsT.flatMap Seg.words := by
    rw [List.flatMap_append, flatMap_nil_of Seg.words (xSegs X) (by
      intro s hs; unfold xSegs at hs; obtain ⟨w, _, rfl⟩ := List.mem_map.mp hs; rfl), List.append_nil]
  have hr : (segsT ++ xSegs X).flatMap Seg.reg = [] := by
    rw [List.flatMap_append, flatMap_nil_of Seg.reg segsT hreg, flatMap_nil_of Seg.reg (xSegs X) (by
      intro s hs; unfold xSegs at hs; obtain ⟨w, _, rfl⟩ := List.mem_map.mp hs; rfl)]
    rfl
  have hx : (segsT ++ xSegs X).flatMap Seg.xnames = Spec.expand₁ X := by
    rw [List.flatMap_append, flatMap_nil_of Seg.xnames segsT hxn, List.nil_append]
    unfold xSegs Spec.expand₁
    rw [List.flatMap_map]; rfl
  simp only [hany, ↓reduceIte, hw, hr, hx]
  exact List.filter_eq_self.mpr (fun _ _ => rfl)

/-- `pdsh -w W -x X` = EXPANSION(W) MINUS THE NAMES OF EXPANSION(X), FROM THE TWO TEXTS.
    `W`, `X`: lists of words (W well formed: `pre[ranges]suffix`, a second pair of brackets allowed);
    the option texts are the words joined by commas.  `hdom`: the decidable domain of the end-to-end
    theorem for these words (C01's `wordDom`, C02's entry conditions — names with digit tails ≤ 2^25 —
    and `ShiftFits`).  No file, no WCOLL, no regex. -/
theorem w_x_from_texts (cfg : Cfg) (hD1 : cfg.fixDeleteAll = true) (hD17 : cfg.fixIterSuffix = true)
    (hD19 : cfg.fixRemoveDepth = true) (h2Br : cfg.fix2Br = true) (W X : List Spec.Word)
    (hW : ∀ w ∈ W, w.WF = true) (hne : W ≠ []) (hpX : ∀ w ∈ X, pieceOK (Spec.renderWord w) = true)
    (hd : Spec.joinComma (W.map Spec.renderWord) ≠ ['-'])
    (hdom : targetDomain cfg .whole [] [] (fun _ _ => none) (fun _ => false) (wSegs W ++ xSegs X) none = true) :
    cliFinal cfg (envOf .whole [] [] (fun _ _ => none) (fun _ => false) (wSegs W ++ xSegs X) none)
        [.w (Spec.joinComma (W.map Spec.renderWord)), .x (Spec.joinComma (X.map Spec.renderWord))] =
      .ok ((Spec.expand₂ W).filter fun h => !(Spec.expand₁ X).contains h) := by
  have h := options_from_texts cfg hD1 hD17 hD19 h2Br .whole [] [] (fun _ _ => none) (fun _ => false)
    (wSegs W) (xSegs X) none
    (by intro s hs; unfold xSegs at hs; obtain ⟨w, _, rfl⟩ := List.mem_map.mp hs; rfl)
    (by intro s hs; unfold wSegs at hs; obtain ⟨w, hw, rfl⟩ := List.mem_map.mp hs
        exact pieceOK_renderWord (hW w hw))
    (by intro s hs; unfold xSegs at hs; obtain ⟨w, hw, rfl⟩ := List.mem_map.mp hs
        exact hpX w hw)
    (by rw [wSegs_text]; exact hd) hdom
  rw [wSegs_text, xSegs_xtext] at h
  rw [show (none : Option (Str × List Spec.Word)).map (·.1) = none from rfl, cliFinalW_none] at h
  rw [h, segs_words_spec W X (wSegs W)
    (by intro s hs; unfold wSegs at hs; obtain ⟨w, _, rfl⟩ := List.mem_map.mp hs; rfl)
    (by unfold wSegs; cases W with | nil => exact absurd rfl hne | cons a b => simp)
    none _
    (by intro s hs; unfold wSegs at hs; obtain ⟨w, _, rfl⟩ := List.mem_map.mp hs; rfl)
    (by intro s hs; unfold wSegs at hs; obtain ⟨w, _, rfl⟩ := List.mem_map.mp hs; rfl)]
  have : (wSegs W).flatMap Seg.words = W := by
    unfold wSegs; rw [List.flatMap_map]
    induction W with
    | nil => rfl
    | cons a l ih => simp [Seg.words]
  rw [this]

/-- THE FILE CONTEXT, FROM THE TEXTS: `pdsh -w ^PATH -x X` — the words `ws` C10's reader finds in the
    file (includes inlined; `hdom` ties `ws` to the file system `fs` through C10's `readWcoll`)
    expand exactly like `-w` words: expand₂(ws) minus the names of expand₁(X) -/
theorem wfile_from_texts (cfg : Cfg) (hD1 : cfg.fixDeleteAll = true) (hD17 : cfg.fixIterSuffix = true)
    (hD19 : cfg.fixRemoveDepth = true) (h2Br : cfg.fix2Br = true) (mode : Wcoll.LineMode) (fs : Wcoll.FS)
    (path : Str) (ws X : List Spec.Word) (hpp : pieceOK ('^' :: path) = true)
    (hpX : ∀ w ∈ X, pieceOK (Spec.renderWord w) = true)
    (hdom : targetDomain cfg mode fs [] (fun _ _ => none) (fun _ => false) ([Seg.tfile path ws] ++ xSegs X) none = true) :
    cliFinal cfg (envOf mode fs [] (fun _ _ => none) (fun _ => false) ([Seg.tfile path ws] ++ xSegs X) none)
        [.w ('^' :: path), .x (Spec.joinComma (X.map Spec.renderWord))] =
      .ok ((Spec.expand₂ ws).filter fun h => !(Spec.expand₁ X).contains h) := by
  have h := options_from_texts cfg hD1 hD17 hD19 h2Br mode fs [] (fun _ _ => none) (fun _ => false)
    [Seg.tfile path ws] (xSegs X) none
    (by intro s hs; unfold xSegs at hs; obtain ⟨w, _, rfl⟩ := List.mem_map.mp hs; rfl)
    (by intro s hs; simp only [List.mem_singleton] at hs; subst hs; exact hpp)
    (by intro s hs; unfold xSegs at hs; obtain ⟨w, hw, rfl⟩ := List.mem_map.mp hs
        exact hpX w hw)
    (by simp [Spec.joinComma, Seg.text]) hdom
  rw [xSegs_xtext] at h
  rw [show (none : Option (Str × List Spec.Word)).map (·.1) = none from rfl, cliFinalW_none] at h
  simp only [List.map_cons, List.map_nil, Spec.joinComma, Seg.text] at h
  rw [h, segs_words_spec ws X [Seg.tfile path ws]
    (by intro s hs; simp only [List.mem_singleton] at hs; subst hs; rfl) (by simp) none _
    (by intro s hs; simp only [List.mem_singleton] at hs; subst hs; rfl)
    (by intro s hs; simp only [List.mem_singleton] at hs; subst hs; rfl)]
  simp [Seg.words]

end PdshVerif.Hostlist
