/-
  The variant of hostlist.c that /repo's CURRENT working tree carries, as read off the real code by
  the behavioural probes of harness/consts/hostlist.c (Gen/Hostlist.lean, regenerated every run).
  Only the driver uses this; NO theorem may depend on it (theorems quantify over `cfg`).
-/
import PdshVerif.Hostlist.Basic

namespace PdshVerif.Hostlist
open PdshVerif.Gen

def Cfg.probed : Cfg :=
  { fixUlongMax := FIX_D15_ULONGMAX, fixDigits := FIX_D16_DIGITS, fixIterSuffix := FIX_D17_ITERSUFFIX,
    fixCurTok := FIX_D18_CURTOK, fixSuffixBal := FIX_D22_SUFFIXBAL, fixHostBuf := FIX_D23_HOSTBUF,
    fixNth := FIX_D24_NTH, fixRemoveDepth := FIX_D19_REMOVEDEPTH, fixPopIter := FIX_D20_POPITER,
    fixCmpTrunc := FIX_D26_CMPTRUNC, fixDeleteAll := FIX_D1_DELETEALL,
    fixEndPush := FIX_F16_ENDPUSH, fixUniqReset := FIX_F16_UNIQRESET,
    fixIterDelete := FIX_F16_ITERDELETE }
  -- fixPushLoop (D2) and fix2Br (F02-2BR), static code of opt.c, are probed by the check on the real pdsh and handed
  -- to the driver with each run (`hl xcl`)

def Cfg.describe (c : Cfg) : String :=
  s!"D15/D25={c.fixUlongMax} D16={c.fixDigits} D17={c.fixIterSuffix} D18={c.fixCurTok} " ++
  s!"D22={c.fixSuffixBal} D23={c.fixHostBuf} D24={c.fixNth} D19={c.fixRemoveDepth} D20={c.fixPopIter} D26={c.fixCmpTrunc} D1={c.fixDeleteAll} D2={c.fixPushLoop} ENDPUSH={c.fixEndPush} UNIQRESET={c.fixUniqReset} ITERDELETE={c.fixIterDelete} 2BR={c.fix2Br}"

end PdshVerif.Hostlist
