/-
  hostlist.c: `_zero_padded`, `_width_equiv`, `hostrange_width_combine`, `hostrange_prefix_cmp`,
  `host_prefix_end`, `hostname_create`, `hostlist_push_range` (tail coalescing),
  `hostlist_push_host`, `hostlist_push_list`, and the libc `strtoul` model.
-/
import PdshVerif.Hostlist.Basic

namespace PdshVerif.Hostlist
open PdshVerif.Gen

/-! ### `strtoul(s, &end, 10)` (glibc) -/
structure Strtoul where
  val : Nat          -- converted value (already clamped / negated as `unsigned long`)
  rest : Str         -- `*endptr` onwards; the whole input when nothing was converted
  converted : Bool   -- `endptr != nptr`
  erange : Bool      -- errno := ERANGE
  deriving Repr, DecidableEq

/-- the digit part: `orig` is the whole input (returned as `rest` when nothing converts) -/
def strtoulCore (orig : Str) (neg : Bool) (s2 : Str) : Strtoul :=
  if (s2.takeWhile isDigit).isEmpty then ⟨0, orig, false, false⟩
  else if Nat.ofDigitChars 10 (s2.takeWhile isDigit) 0 > ULONG_MAX then
    ⟨ULONG_MAX, s2.dropWhile isDigit, true, true⟩
  else if neg then
    ⟨(U64 - Nat.ofDigitChars 10 (s2.takeWhile isDigit) 0) % U64, s2.dropWhile isDigit, true, false⟩
  else ⟨Nat.ofDigitChars 10 (s2.takeWhile isDigit) 0, s2.dropWhile isDigit, true, false⟩

/-- white space, an optional sign, decimal digits; clamps to ULONG_MAX (ERANGE); a `-` sign
    negates in `unsigned long` -/
def strtoul (s : Str) : Strtoul :=
  match s.dropWhile isSpace with
  | '-' :: t => strtoulCore s true t
  | '+' :: t => strtoulCore s false t
  | s1 => strtoulCore s false s1

/-! ### widths -/
/-- `_zero_padded(num, width)` -/
def zeroPadded (num width : Nat) : Nat := if width > ndig num then width - ndig num else 0

/-- `_width_equiv(n, &wn, m, &wm)`: returns (ok, wn', wm').  The C test `wn == wm` compares the
    two POINTERS (always different objects here), so it never fires; it is not modelled. -/
def widthEquiv (n wn m wm : Nat) : Bool × Nat × Nat :=
  let npad := zeroPadded n wn
  let nmpad := zeroPadded n wm
  let mpad := zeroPadded m wm
  let mnpad := zeroPadded m wn
  if npad != nmpad && mpad != mnpad then (false, wn, wm)
  else if npad != nmpad then
    (if mpad == mnpad then (true, wn, wn) else (false, wn, wm))
  else (true, wm, wm)

/-- `hostrange_prefix_cmp(h1, h2) == 0` -/
def prefixCmpEq (a b : HRange) : Bool := a.pre == b.pre && a.single == b.single

/-- `hostrange_width_combine(h0, h1)` -/
def widthCombine (h0 h1 : HRange) : Bool × Nat × Nat := widthEquiv h0.lo h0.width h1.lo h1.width

/-! ### `hostlist_push_range` -/
/-- tail coalescing exactly as the C code: same prefix & kind, `tail->hi == hr->lo - 1`
    (unsigned: for lo = 0 this compares with 2^64-1) and compatible widths.  The counter grows by
    `hostrange_count(hr)`. -/
def pushRange (h : HL) (r : HRange) : HL :=
  let n := h.nhosts + r.count
  match h.ranges.back? with
  | none => ⟨h.ranges.push r, n⟩
  | some t =>
    if prefixCmpEq t r && t.hi == subU64 r.lo 1 then
      match widthCombine t r with
      | (true, wt, _) => ⟨h.ranges.pop.push { t with hi := r.hi, width := wt }, n⟩
      | (false, _, _) => ⟨h.ranges.push r, n⟩
    else ⟨h.ranges.push r, n⟩

/-- `hostlist_push_list(h1, h2)` -/
def pushList (h1 h2 : HL) : HL := h2.ranges.toList.foldl pushRange h1

/-! ### `hostname_create` -/
/-- `host_prefix_end(hostname) + 1`: length of the name without its trailing digits -/
def hostPrefixLen (s : Str) : Nat := s.length - (s.reverse.takeWhile isDigit).length

/-- `struct hostname_components` (`suffix = none` ⇔ `hn->suffix == NULL`) -/
structure Hostname where
  pre : Str
  num : Nat
  suffix : Option Str
  erange : Bool       -- strtoul set errno = ERANGE on the way
  deriving Repr, DecidableEq

/-- `hostname_create`: a numeric tail is split off only when its value is ≤ MAX_HOST_SUFFIX -/
def hostnameCreate (s : Str) : Hostname :=
  let plen := hostPrefixLen s
  if plen = s.length then ⟨s, 0, none, false⟩
  else
    let suf := s.drop plen
    let r := strtoul suf
    if r.rest.isEmpty && r.val ≤ MAX_HOST_SUFFIX then ⟨s.take plen, r.val, some suf, r.erange⟩
    else ⟨s, r.val, none, r.erange⟩

/-- the record `hostlist_push_host` builds for a name -/
def hostRecord (s : Str) : HRange :=
  let hn := hostnameCreate s
  match hn.suffix with
  | some suf => HRange.mk' hn.pre hn.num hn.num suf.length
  | none => HRange.mkSingle s

/-- `hostlist_push_host` -/
def pushHost (h : HL) (s : Str) : HL := pushRange h (hostRecord s)

end PdshVerif.Hostlist
