/-
  `hostlist_remove(i)` with ANY iterators around, on a list laid out as A ++ o :: B with iterator `k`
  standing on host `kk-1` of o: it is `hostlist_delete_nth` of that position, after which iterator `k` alone
  is put where `hostlist_remove` wants it.
-/
import PdshVerif.Hostlist.EditMultiDeleteHost

namespace PdshVerif.Hostlist
open PdshVerif.Gen

theorem insertRange_rs (A B : List RObj) (o' : RObj) (nh : Int) (nx : Nat) (its : List (Nat × ItSt)) (up : HRange) :
    (insertRange ⟨A ++ o' :: B, nh, nx, its⟩ up (A.length + 1)).rs = A ++ o' :: ⟨nx, up⟩ :: B ∧
    (insertRange ⟨A ++ o' :: B, nh, nx, its⟩ up (A.length + 1)).nhosts = nh := by
  unfold insertRange
  have hlen : ¬ (A.length + 1 > (A ++ o' :: B).length) := by simp
  have e : A ++ o' :: B = (A ++ [o']) ++ B := by simp
  have htake : (A ++ o' :: B).take (A.length + 1) = A ++ [o'] := by
    rw [e, List.take_left' (by simp)]
  have hdrop : (A ++ o' :: B).drop (A.length + 1) = B := by
    rw [e, List.drop_left' (by simp)]
  simp only [hlen, ↓reduceIte, htake, hdrop, List.append_assoc, List.cons_append, List.nil_append, and_self]

theorem guard_false (o : RObj) (kk : Nat) (hgd : removeGuard o kk = false) :
    (decide (((kk : Int) - 1) < 0) || o.r.single && decide (((kk : Int) - 1) > 0)
      || !o.r.single && decide ((((kk : Int) - 1).toNat) > subU64 o.r.hi o.r.lo)) = false := hgd

/-- the record is split -/
theorem itRemoveG_split (cfg : Cfg) (A B : List RObj) (o : RObj) (nh : Int) (nx : Nat) (its : List (Nat × ItSt))
    (k kk : Nat) (r' up : HRange) (hkk : 1 ≤ kk)
    (hgi : EL.getIt ⟨A ++ o :: B, nh, nx, its⟩ k = some ⟨(A.length : Int), (kk : Int) - 1, some o.id⟩)
    (hnd : ((A ++ o :: B).map (·.id)).Nodup) (hgd : removeGuard o kk = false)
    (hDH : hostrangeDeleteHost o.r (addU64 o.r.lo (kk - 1)) = (r', some up)) :
    itRemove cfg ⟨A ++ o :: B, nh, nx, its⟩ k =
      .ok ((delIts cfg { insertRange ⟨A ++ { o with r := r' } :: B, nh, nx, its⟩ up (A.length + 1) with
              nhosts := (insertRange ⟨A ++ { o with r := r' } :: B, nh, nx, its⟩ up (A.length + 1)).nhosts - 1 }
            A.length ((kk - 1 : Nat) : Int) true).setIt k ⟨((A.length + 1 : Nat) : Int), -1, some nx⟩) := by
  have htn : ((kk : Int) - 1).toNat = kk - 1 := by omega
  have hi1 : ((A.length : Int) + 1).toNat = A.length + 1 := by omega
  have hd1 : ((kk : Int) - 1) = ((kk - 1 : Nat) : Int) := by omega
  obtain ⟨hrs, _⟩ := insertRange_rs A B { o with r := r' } nh nx its up
  have hg3 := hgd
  unfold removeGuard at hg3
  simp only [Bool.or_eq_false_iff, htn] at hg3
  obtain ⟨⟨g1, g2⟩, g3⟩ := hg3
  unfold itRemove
  rw [hgi]
  simp only [deref_mid A B o nh nx _ hnd, g1, g2, g3, Bool.or_false, Bool.false_eq_true, ↓reduceIte, htn, hDH,
    setObj_mid A B o nh nx _ r' hnd, hi1]
  have hh : EL.hrAt (insertRange ⟨A ++ { o with r := r' } :: B, nh, nx, its⟩ up (A.length + 1)) ((A.length : Int) + 1) = some nx := by
    rw [show ((A.length : Int) + 1) = ((A.length + 1 : Nat) : Int) from by omega, hrAt_nat, hrs]
    have e : A ++ ({ o with r := r' } : RObj) :: (⟨nx, up⟩ : RObj) :: B = (A ++ [({ o with r := r' } : RObj)]) ++ (⟨nx, up⟩ : RObj) :: B := by simp
    have hl : (A ++ [({ o with r := r' } : RObj)]).length = A.length + 1 := by simp
    rw [e, ← hl, List.getElem?_append_right (Nat.le_refl _)]; simp
  rw [hh, hd1]
  rfl

/-- the record shrinks at an end -/
theorem itRemoveG_shrink (cfg : Cfg) (A B : List RObj) (o : RObj) (nh : Int) (nx : Nat) (its : List (Nat × ItSt))
    (k kk : Nat) (r' : HRange) (hkk : 1 ≤ kk)
    (hgi : EL.getIt ⟨A ++ o :: B, nh, nx, its⟩ k = some ⟨(A.length : Int), (kk : Int) - 1, some o.id⟩)
    (hnd : ((A ++ o :: B).map (·.id)).Nodup) (hgd : removeGuard o kk = false)
    (hDH : hostrangeDeleteHost o.r (addU64 o.r.lo (kk - 1)) = (r', none)) (hne : r'.empty = false) :
    itRemove cfg ⟨A ++ o :: B, nh, nx, its⟩ k =
      .ok ((delIts cfg ⟨A ++ { o with r := r' } :: B, nh - 1, nx, its⟩ A.length ((kk - 1 : Nat) : Int) false).setIt k
            ⟨(A.length : Int), (kk : Int) - 1 - 1, some o.id⟩) := by
  have htn : ((kk : Int) - 1).toNat = kk - 1 := by omega
  have hd1 : ((kk : Int) - 1) = ((kk - 1 : Nat) : Int) := by omega
  have hg3 := hgd
  unfold removeGuard at hg3
  simp only [Bool.or_eq_false_iff, htn] at hg3
  obtain ⟨⟨g1, g2⟩, g3⟩ := hg3
  unfold itRemove
  rw [hgi]
  simp only [deref_mid A B o nh nx _ hnd, g1, g2, g3, Bool.or_false, Bool.false_eq_true, ↓reduceIte, htn, hDH,
    setObj_mid A B o nh nx _ r' hnd, hne]
  rw [hd1]
  rfl

/-- the record goes away -/
theorem itRemoveG_gone (cfg : Cfg) (A B : List RObj) (o : RObj) (nh : Int) (nx : Nat) (its : List (Nat × ItSt))
    (k kk : Nat) (r' : HRange) (hkk : 1 ≤ kk)
    (hgi : EL.getIt ⟨A ++ o :: B, nh, nx, its⟩ k = some ⟨(A.length : Int), (kk : Int) - 1, some o.id⟩)
    (hnd : ((A ++ o :: B).map (·.id)).Nodup) (hgd : removeGuard o kk = false)
    (hDH : hostrangeDeleteHost o.r (addU64 o.r.lo (kk - 1)) = (r', none)) (he : r'.empty = true) :
    itRemove cfg ⟨A ++ o :: B, nh, nx, its⟩ k =
      .ok { deleteRange cfg ⟨A ++ o :: B, nh, nx, its⟩ A.length with
            nhosts := (deleteRange cfg ⟨A ++ o :: B, nh, nx, its⟩ A.length).nhosts - 1 } := by
  have htn : ((kk : Int) - 1).toNat = kk - 1 := by omega
  have hg3 := hgd
  unfold removeGuard at hg3
  simp only [Bool.or_eq_false_iff, htn] at hg3
  obtain ⟨⟨g1, g2⟩, g3⟩ := hg3
  unfold itRemove
  rw [hgi]
  simp only [deref_mid A B o nh nx _ hnd, g1, g2, g3, Bool.or_false, Bool.false_eq_true, ↓reduceIte, htn, hDH,
    setObj_mid A B o nh nx _ r' hnd, he, Int.toNat_natCast]
  -- the freed record plays no part in `hostlist_delete_range`
  have : deleteRange cfg ⟨A ++ { o with r := r' } :: B, nh, nx, its⟩ A.length =
      deleteRange cfg ⟨A ++ o :: B, nh, nx, its⟩ A.length := by
    unfold deleteRange
    simp only [eraseIdx_mid]
  rw [this]

end PdshVerif.Hostlist
