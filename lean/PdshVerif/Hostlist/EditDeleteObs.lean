/-
  ONE iterator in an arbitrary state watches `hostlist_delete_nth` take position n away
  (F16-DELETE-UNDER-ITERATOR / F16-MULTI repaired, `hostlist_host_deleted`; D19 repaired): afterwards
  it has exactly one host less in front of it when that host lay in front of it, else as many as before.
-/
import PdshVerif.Hostlist.EditDeleteShapes

namespace PdshVerif.Hostlist
open PdshVerif.Gen

/-! ### `offL` and `hrAt` on a list laid out in parts -/
theorem offL_append_left (L X : List HRange) (i k : Nat) (hi : i < L.length) : offL (L ++ X) i k = offL L i k := by
  unfold offL
  rw [List.take_append_of_le_length (by omega), List.getElem?_append_left hi]

theorem offL_append_right (P X : List HRange) (m k : Nat) :
    offL (P ++ X) (P.length + m) k = (hostsL P).length + offL X m k := by
  unfold offL
  rw [List.take_append, List.take_of_length_le (by omega), List.getElem?_append_right (by omega)]
  simp only [Nat.add_sub_cancel_left, hostsL_append, List.length_append]
  omega

theorem offL_cons_zero (r : HRange) (X : List HRange) (k : Nat) : offL (r :: X) 0 k = min k r.hosts.length := by
  simp [offL, hostsL]

theorem offL_cons_succ (r : HRange) (X : List HRange) (m k : Nat) :
    offL (r :: X) (m + 1) k = r.hosts.length + offL X m k := by
  have := offL_append_right [r] X m k
  simp only [List.length_singleton, List.singleton_append, hostsL_cons, hostsL_nil, List.append_nil] at this
  rw [Nat.add_comm m 1]; exact this

theorem hrAt_app_lt (A X : List RObj) (nh : Int) (nx : Nat) (its : List (Nat × ItSt)) (i : Nat) (hi : i < A.length) :
    EL.hrAt ⟨A ++ X, nh, nx, its⟩ (i : Int) = (A[i]?).map (·.id) := by
  rw [hrAt_nat]
  simp only
  rw [List.getElem?_append_left hi]

theorem hrAt_app_ge (A X : List RObj) (nh : Int) (nx : Nat) (its : List (Nat × ItSt)) (m : Nat) :
    EL.hrAt ⟨A ++ X, nh, nx, its⟩ ((A.length + m : Nat) : Int) = (X[m]?).map (·.id) := by
  rw [hrAt_nat]
  simp only
  rw [List.getElem?_append_right (by omega), Nat.add_sub_cancel_left]

theorem coh_of (rs : List RObj) (nh : Int) (nx : Nat) (i k : Nat) (it : ItSt)
    (h1 : it.idx = (i : Int)) (h2 : it.depth = (k : Int) - 1) (h3 : it.hr = (rs[i]?).map (·.id)) :
    Coh ⟨rs, nh, nx, [(0, it)]⟩ i k := by
  obtain ⟨idx, depth, hr⟩ := it
  simp only at h1 h2 h3
  exact coh_mk rs nh nx i k idx depth hr h1 h2 h3

theorem ranges_mk (rs : List RObj) (nh : Int) (nx : Nat) (its : List (Nat × ItSt)) :
    EL.ranges ⟨rs, nh, nx, its⟩ = rs.map (·.r) := rfl

theorem offL_zero_zero (L : List HRange) : offL L 0 0 = 0 := by
  unfold offL; cases L <;> simp [hostsL]

theorem deleteRange_at_len (cfg : Cfg) (hD19 : cfg.fixRemoveDepth = true) (A A' : List RObj) (pv o : RObj) (B : List RObj)
    (nh : Int) (nx : Nat) (it : ItSt) (hA : A = A' ++ [pv]) (h : it.idx = (A.length : Int)) :
    deleteRange cfg ⟨A ++ o :: B, nh, nx, [(0, it)]⟩ A.length =
      ⟨A ++ B, nh, nx, [(0, ⟨it.idx - 1, (subU64 pv.r.hi pv.r.lo : Nat), some pv.id⟩)]⟩ := by
  subst hA
  have hlen : (A' ++ [pv]).length = A'.length + 1 := by simp
  have her' : (A' ++ [pv] ++ o :: B).eraseIdx (A'.length + 1) = A' ++ [pv] ++ B := by
    rw [← hlen]; exact eraseIdx_mid (A' ++ [pv]) o B
  have hpv : ((A' ++ [pv] ++ o :: B).eraseIdx (A'.length + 1))[A'.length]? = some pv := by
    rw [her']; simp
  have := deleteRange_eqS cfg hD19 (A' ++ [pv] ++ o :: B) nh nx it A'.length pv (by rw [h, hlen]) hpv
  rw [hlen, this, her']

/-! ### shape D: the record goes away -/
theorem obs_gone (cfg : Cfg) (hD19 : cfg.fixRemoveDepth = true) (A : List RObj) (o : RObj) (B : List RObj) (nh : Int)
    (nx : Nat) (i k : Nat) (hgA : ∀ a ∈ A, a.r.Good) (hone : o.r.hosts.length = 1) :
    let e : EL := ⟨A ++ o :: B, nh, nx, [(0, ⟨(i : Int), (k : Int) - 1, EL.hrAt ⟨A ++ o :: B, nh, nx, []⟩ (i : Int)⟩)]⟩
    let e' : EL := { deleteRange cfg e A.length with nhosts := (deleteRange cfg e A.length).nhosts - 1 }
    let n := (hostsL (A.map (·.r))).length
    ∃ i' k', Coh e' i' k' ∧
      offL e'.ranges i' k' = (if offL e.ranges i k > n then offL e.ranges i k - 1 else offL e.ranges i k) := by
  intro e e' n
  have hL : e.ranges = A.map (·.r) ++ o.r :: B.map (·.r) := by simp [e, EL.ranges]
  have hlenA : (A.map (·.r)).length = A.length := by simp
  have her : (A ++ o :: B).eraseIdx A.length = A ++ B := eraseIdx_mid A o B
  rcases Nat.lt_trichotomy i A.length with hlt | heq | hgt
  · -- the iterator stands in front of the record
    have hidx : (i : Int) < (A.length : Int) := by omega
    have hdr := deleteRange_lt cfg hD19 (A ++ o :: B) nh nx ⟨(i : Int), (k : Int) - 1, EL.hrAt ⟨A ++ o :: B, nh, nx, []⟩ (i : Int)⟩
      A.length hidx
    refine ⟨i, k, ?_, ?_⟩
    · show Coh { deleteRange cfg e A.length with nhosts := _ } i k
      rw [show deleteRange cfg e A.length = _ from hdr, her]
      apply coh_of _ _ _ i k _ rfl rfl
      show EL.hrAt ⟨A ++ o :: B, nh, nx, []⟩ (i : Int) = _
      rw [hrAt_app_lt A (o :: B) nh nx [] i hlt, List.getElem?_append_left hlt]
    · have h1 : e'.ranges = A.map (·.r) ++ B.map (·.r) := by
        show EL.ranges { deleteRange cfg e A.length with nhosts := _ } = _
        rw [show deleteRange cfg e A.length = _ from hdr, her]; simp [EL.ranges]
      rw [h1, hL, offL_append_left _ _ i k (by omega), offL_append_left _ _ i k (by omega)]
      have := offL_le (A.map (·.r)) i k
      have hn : ¬ offL (A.map (·.r)) i k > n := by show ¬ _ > (hostsL (A.map (·.r))).length; omega
      rw [if_neg hn]
  · -- the iterator stands in the record that goes away
    subst heq
    have hoff : offL e.ranges A.length k = n + min k 1 := by
      rw [hL]
      have := offL_append_right (A.map (·.r)) (o.r :: B.map (·.r)) 0 k
      rw [hlenA] at this
      simp only [Nat.add_zero] at this
      rw [this, offL_cons_zero, hone]
    have hres : (if offL e.ranges A.length k > n then offL e.ranges A.length k - 1 else offL e.ranges A.length k) = n := by
      rw [hoff]; split <;> omega
    rw [hres]
    rcases List.eq_nil_or_concat A with hnil | ⟨A', pv, hA0⟩
    · subst hnil
      have hdr := deleteRange_eq0 cfg hD19 ([] ++ o :: B) nh nx
        ⟨((0 : Nat) : Int), (k : Int) - 1, EL.hrAt ⟨[] ++ o :: B, nh, nx, []⟩ ((0 : Nat) : Int)⟩ rfl
      refine ⟨0, 0, ?_, ?_⟩
      · show Coh { deleteRange cfg e 0 with nhosts := _ } 0 0
        rw [show deleteRange cfg e 0 = _ from hdr]
        apply coh_of _ _ _ 0 0 _ rfl rfl
        show EL.hrAt _ 0 = _
        rw [show (0 : Int) = ((0 : Nat) : Int) from rfl, hrAt_nat]
      · rw [offL_zero_zero]; rfl
    · have hA : A = A' ++ [pv] := by rw [hA0, List.concat_eq_append]
      have hlen : A.length = A'.length + 1 := by rw [hA]; simp
      have hdr := deleteRange_at_len cfg hD19 A A' pv o B nh nx
        ⟨(A.length : Int), (k : Int) - 1, EL.hrAt ⟨A ++ o :: B, nh, nx, []⟩ (A.length : Int)⟩ hA rfl
      have hgp : pv.r.Good := hgA pv (by rw [hA]; simp)
      refine ⟨A'.length, pv.r.hosts.length, ?_, ?_⟩
      · show Coh { deleteRange cfg e A.length with nhosts := _ } A'.length pv.r.hosts.length
        rw [show deleteRange cfg e A.length = _ from hdr]
        apply coh_of
        · simp only; omega
        · simp only; have := hgp.span; omega
        · simp only; rw [hA]; simp
      · have h1 : e'.ranges = A.map (·.r) ++ B.map (·.r) := by
          show EL.ranges { deleteRange cfg e A.length with nhosts := _ } = _
          rw [show deleteRange cfg e A.length = _ from hdr]; simp [EL.ranges]
        rw [h1]
        have h2 : A.map (·.r) ++ B.map (·.r) = A'.map (·.r) ++ pv.r :: B.map (·.r) := by rw [hA]; simp
        rw [h2]
        have := offL_append_right (A'.map (·.r)) (pv.r :: B.map (·.r)) 0 pv.r.hosts.length
        simp only [List.length_map, Nat.add_zero] at this
        rw [this, offL_cons_zero]
        show _ = (hostsL (A.map (·.r))).length
        rw [hA]
        simp [hostsL_append, hostsL_cons, hostsL_nil]
  · -- the iterator stands behind the record
    obtain ⟨m, rfl⟩ : ∃ m, i = A.length + 1 + m := ⟨i - A.length - 1, by omega⟩
    have hidx : ((A.length + 1 + m : Nat) : Int) > (A.length : Int) := by omega
    have hdr := deleteRange_gt cfg hD19 (A ++ o :: B) nh nx
      ⟨((A.length + 1 + m : Nat) : Int), (k : Int) - 1, EL.hrAt ⟨A ++ o :: B, nh, nx, []⟩ ((A.length + 1 + m : Nat) : Int)⟩
      A.length hidx
    refine ⟨A.length + m, k, ?_, ?_⟩
    · show Coh { deleteRange cfg e A.length with nhosts := _ } (A.length + m) k
      rw [show deleteRange cfg e A.length = _ from hdr, her]
      apply coh_of
      · simp only; omega
      · rfl
      · simp only
        have : ((A.length + 1 + m : Nat) : Int) - 1 = ((A.length + m : Nat) : Int) := by omega
        rw [this, hrAt_nat]
    · have h1 : e'.ranges = A.map (·.r) ++ B.map (·.r) := by
        show EL.ranges { deleteRange cfg e A.length with nhosts := _ } = _
        rw [show deleteRange cfg e A.length = _ from hdr, her]; simp [EL.ranges]
      rw [h1, hL]
      have e1 := offL_append_right (A.map (·.r)) (B.map (·.r)) m k
      have e2 := offL_append_right (A.map (·.r)) (o.r :: B.map (·.r)) (m + 1) k
      rw [hlenA] at e1 e2
      rw [show A.length + 1 + m = A.length + (m + 1) from by omega, e1, e2, offL_cons_succ, hone]
      have hgt' : (hostsL (A.map (·.r))).length + (1 + offL (B.map (·.r)) m k) > n := by
        show _ > (hostsL (A.map (·.r))).length; omega
      rw [if_pos hgt']
      omega

end PdshVerif.Hostlist
