/-
  `qsort` step of `hostlist_sort` / `hostlist_uniq`: with the repaired comparator (D26) `hostrange_cmp` is
  antisymmetric, so the sorted array is a permutation of the records in which every record compares ≤ its
  successor — what the `assert` of `hostrange_join` asks; and `hostlist_sort` resets every iterator.
-/
import PdshVerif.Hostlist.EditSort
import PdshVerif.Hostlist.LemmasUniq

namespace PdshVerif.Hostlist
open PdshVerif.Gen

theorem strcmpSign_antisymm : ∀ (a b : Str), strcmpSign a b = - strcmpSign b a
  | [], [] => rfl
  | [], _ :: _ => rfl
  | _ :: _, [] => rfl
  | x :: xs, y :: ys => by
    unfold strcmpSign
    by_cases h : x = y
    · subst h; simp only [↓reduceIte]; exact strcmpSign_antisymm xs ys
    · have h' : ¬ y = x := fun e => h e.symm
      simp only [h, h', ↓reduceIte]
      have hne : x.toNat ≠ y.toNat := fun e => h (Char.toNat_inj.mp e)
      by_cases hlt : x.toNat < y.toNat
      · have : ¬ y.toNat < x.toNat := by omega
        simp [hlt, this]
      · have : y.toNat < x.toNat := by omega
        simp [hlt, this]

theorem prefixCmp_antisymm (a b : HRange) : prefixCmp a b = - prefixCmp b a := by
  unfold prefixCmp
  rw [strcmpSign_antisymm a.pre b.pre]
  by_cases h : strcmpSign b.pre a.pre = 0
  · simp only [h, Int.neg_zero, ↓reduceIte]; omega
  · have : ¬ - strcmpSign b.pre a.pre = 0 := by omega
    simp only [h, this, ↓reduceIte]

theorem widthEquiv_symm (n wn m wm : Nat) : (widthEquiv n wn m wm).1 = (widthEquiv m wm n wn).1 := by
  unfold widthEquiv
  simp only
  by_cases h1 : zeroPadded n wn = zeroPadded n wm <;> by_cases h2 : zeroPadded m wm = zeroPadded m wn <;>
    simp [h1, h2]

theorem widthCombine_symm (a b : HRange) : (widthCombine a b).1 = (widthCombine b a).1 :=
  widthEquiv_symm _ _ _ _

/-- REPAIRED comparator: `hostrange_cmp(a, b) = -hostrange_cmp(b, a)` -/
theorem hostrangeCmp_antisymm (cfg : Cfg) (hfix : cfg.fixCmpTrunc = true) (a b : HRange) :
    hostrangeCmp cfg a b = - hostrangeCmp cfg b a := by
  unfold hostrangeCmp
  simp only
  rw [prefixCmp_antisymm a b, widthCombine_symm a b]
  by_cases h : prefixCmp b a = 0
  · simp only [h, Int.neg_zero, ↓reduceIte]
    cases (widthCombine b a).1 with
    | true =>
      simp only [↓reduceIte, loCmp, hfix]
      by_cases h1 : a.lo < b.lo
      · have : ¬ b.lo < a.lo := by omega
        have : ¬ b.lo = a.lo := by omega
        simp [*]
      · by_cases h2 : a.lo = b.lo
        · simp [h2]
        · have : b.lo < a.lo := by omega
          have : ¬ b.lo = a.lo := by omega
          simp [*]
    | false => simp only [Bool.false_eq_true, ↓reduceIte]; omega
  · have : ¬ - prefixCmp b a = 0 := by omega
    simp only [h, this, ↓reduceIte]

/-- every record compares ≤ its successor -/
def AdjOrdered (cfg : Cfg) : List RObj → Prop
  | [] => True
  | [_] => True
  | a :: b :: rest => hostrangeCmp cfg a.r b.r ≤ 0 ∧ AdjOrdered cfg (b :: rest)

theorem insertSorted_head (cfg : Cfg) (x : RObj) : ∀ l : List RObj,
    (insertSorted cfg x l).head? = some x ∨ (l ≠ [] ∧ (insertSorted cfg x l).head? = l.head?)
  | [] => Or.inl rfl
  | y :: ys => by
    unfold insertSorted
    split
    · exact Or.inr ⟨by simp, rfl⟩
    · exact Or.inl rfl

theorem adjOrdered_cons (cfg : Cfg) (y : RObj) (l : List RObj) (hl : AdjOrdered cfg l)
    (hh : ∀ z, l.head? = some z → hostrangeCmp cfg y.r z.r ≤ 0) : AdjOrdered cfg (y :: l) := by
  cases l with
  | nil => trivial
  | cons z rest => exact ⟨hh z rfl, hl⟩

theorem insertSorted_adj (cfg : Cfg) (hfix : cfg.fixCmpTrunc = true) (x : RObj) : ∀ l : List RObj,
    AdjOrdered cfg l → AdjOrdered cfg (insertSorted cfg x l)
  | [], _ => trivial
  | y :: ys, h => by
    have htail : AdjOrdered cfg ys := by
      cases ys with
      | nil => trivial
      | cons z rest => exact h.2
    unfold insertSorted
    split
    · rename_i hle
      refine adjOrdered_cons cfg y _ (insertSorted_adj cfg hfix x ys htail) ?_
      intro z hz
      rcases insertSorted_head cfg x ys with h1 | ⟨hne, h1⟩
      · rw [h1] at hz; simp only [Option.some.injEq] at hz; rw [← hz]; exact hle
      · rw [h1] at hz
        cases ys with
        | nil => exact absurd rfl hne
        | cons w rest =>
          simp only [List.head?_cons, Option.some.injEq] at hz
          rw [← hz]; exact h.1
    · rename_i hgt
      refine ⟨?_, h⟩
      rw [hostrangeCmp_antisymm cfg hfix x.r y.r]
      omega

theorem foldl_insertSorted_adj (cfg : Cfg) (hfix : cfg.fixCmpTrunc = true) : ∀ (l acc : List RObj),
    AdjOrdered cfg acc → AdjOrdered cfg (l.foldl (fun acc x => insertSorted cfg x acc) acc)
  | [], _, h => h
  | x :: xs, acc, h => by
    rw [List.foldl_cons]
    exact foldl_insertSorted_adj cfg hfix xs _ (insertSorted_adj cfg hfix x acc h)

/-- the `qsort` step: a permutation of the records, each ≤ its successor by `hostrange_cmp` -/
theorem sortRanges_sorted (cfg : Cfg) (hfix : cfg.fixCmpTrunc = true) (rs : List RObj) :
    (sortRanges cfg rs).Perm rs ∧ AdjOrdered cfg (sortRanges cfg rs) :=
  ⟨sortRanges_perm cfg rs, foldl_insertSorted_adj cfg hfix rs [] trivial⟩

/-- after the `qsort` step of `hostlist_sort` the denoted hosts are a permutation of what they were and
    EVERY iterator stands in front of the first host -/
theorem sortReset_spec (cfg : Cfg) (e : EL) :
    (sortReset cfg e).hosts.Perm e.hosts ∧ (sortReset cfg e).nhosts = e.nhosts ∧
      (sortReset cfg e).its.map (·.1) = e.its.map (·.1) ∧
      ∀ q ∈ (sortReset cfg e).its, q.2 = (sortReset cfg e).resetIt := by
  refine ⟨?_, rfl, ?_, ?_⟩
  · show ((sortRanges cfg e.rs).map (·.r)).flatMap HRange.hosts |>.Perm ((e.rs.map (·.r)).flatMap HRange.hosts)
    exact ((sortRanges_perm cfg e.rs).map _).flatMap_right _
  · simp only [sortReset, List.map_map]
    apply List.map_congr_left
    intro q _
    rfl
  · intro q hq
    simp only [sortReset] at hq
    obtain ⟨q0, _, hq0⟩ := List.mem_map.mp hq
    rw [← hq0]
    rfl

end PdshVerif.Hostlist
