/-
  hostlist.c: `hostrange_to_string`, `hostrange_numstr`, `hostrange_within_range`,
  `_is_bracket_needed`, `_get_bracketed_list`, `hostlist_ranged_string`,
  `hostlist_deranged_string`, and the two fixed callers in opt.c (`opt_list`'s 1024-byte
  `wcoll_str`, `list_push_hostlist`'s `n-1`)                                   (property C14).

  The caller's buffer is modelled by its WRITE LOG: every store `buf[i] = c` the C code executes is
  recorded as `(i, c)`, most recent first, whether or not `i` is inside the `n` bytes the caller
  announced.  The contents are derived from the log (`Buf.mem`: last store wins, `none` = never
  written), so "no byte beyond the size is ever written" is a statement about the log alone.

  Conventions
  * every function gets the ABSOLUTE offset `off` of the sub-buffer it was handed (`buf + len` in C)
    and the size `n` it was told; stores are logged with absolute indices.
  * lengths are natural numbers: the C code keeps them in `int`/`size_t`; no text here is longer
    than 2^31 (assumption of the check).  The one place where the C code relies on unsigned
    wrap-around, `(n - len) <= n ? n - len : 0`, is `guardSub` (see `guardSub_eq_c`).
  * `snprintf` never fails (`ret < 0` branches are not modelled).
  * DEFECT SWITCH D14: `derangedString (fixed := false)` is the unchanged code (`ret > m`),
    `fixed := true` the repaired form (`ret >= m`).  DEFECT SWITCH D2 (F14-XLOOP):
    `listPushHostlist (fixed := false)` is the unchanged retry loop of opt.c.  Which forms /repo
    contains is PROBED by the check on every run.
-/
import PdshVerif.Hostlist.Push

namespace PdshVerif.Hostlist.Print
open PdshVerif.Hostlist

/-- the terminator -/
def NUL : Char := Char.ofNat 0

/-! ### the caller's buffer -/
structure Buf where
  /-- every store, most recent first -/
  log : List (Nat × Char)
  /-- a store below `buf[0]` was attempted (`buf[--len]` with `len = 0`: empty range record) -/
  neg : Bool
  deriving Repr, DecidableEq

def Buf.empty : Buf := ⟨[], false⟩

/-- `buf[i] = c` -/
def Buf.put (b : Buf) (i : Nat) (c : Char) : Buf := { b with log := (i, c) :: b.log }

/-- contents of cell `j`: the most recent store, `none` when never written -/
def Buf.mem (b : Buf) (j : Nat) : Option Char := (b.log.find? fun w => w.1 == j).map (·.2)

/-- consecutive stores of a text starting at `off` -/
def Buf.putStr (b : Buf) (off : Nat) : Str → Buf
  | [] => b
  | c :: cs => (b.put off c).putStr (off + 1) cs

/-- cells `0 .. size-1` after replaying the log (what the driver prints; `fill` = the caller's
    uninitialised bytes) -/
def Buf.cells (b : Buf) (size : Nat) (fill : Char) : Array Char :=
  b.log.foldr (fun w a => a.setIfInBounds w.1 w.2) (Array.replicate size fill)

/-- `snprintf(buf + off, m, "%s", text)`: copies `min |text| (m-1)` characters and a NUL iff
    `m > 0`; returns `|text|` -/
def snprintfAt (b : Buf) (off m : Nat) (text : Str) : Buf × Nat :=
  if m = 0 then (b, text.length)
  else ((b.putStr off (text.take (m - 1))).put (off + min text.length (m - 1)) NUL, text.length)

/-- `(n - len) <= n ? n - len : 0` with `n : size_t`, `len : int ≥ 0` -/
def guardSub (n len : Nat) : Nat := if len ≤ n then n - len else 0

/-- the C expression evaluated in 64-bit unsigned arithmetic gives the same value -/
theorem guardSub_eq_c {n len : Nat} (hn : n < U64 / 2) (hl : len < U64 / 2) :
    guardSub n len = (if subU64 n len ≤ n then subU64 n len else 0) := by
  unfold guardSub subU64 U64 at *
  by_cases h : len ≤ n
  · have : (n + 18446744073709551616 - len) % 18446744073709551616 = n - len := by omega
    simp [h, this]
  · have : (n + 18446744073709551616 - len) % 18446744073709551616 = n + 18446744073709551616 - len := by
      omega
    rw [this]; simp only [h, ↓reduceIte]; split <;> omega

/-! ### `hostrange_to_string` -/
/-- the `for (i = hr->lo; i <= hr->hi; i++)` loop over the numbers still to print;
    returns (buffer, len, truncated) -/
def toStringLoop (r : HRange) (off n : Nat) : List Nat → Buf → Nat → Buf × Nat × Bool
  | [], b, len => (b, len, false)
  | i :: is, b, len =>
    let m := guardSub n len
    match snprintfAt b (off + len) m (r.pre ++ fmtPad r.width i) with
    | (b1, ret) =>
      if ret ≥ m then (b1, n, true)
      else toStringLoop r off n is (b1.put (off + len + ret) ',') (len + ret + 1)

/-- `hostrange_to_string(hr, n, buf + off, ",")`; `none` = `(size_t) -1`.
    For a single host the return value is `snprintf`'s, i.e. the FULL length of the name. -/
def hostrangeToString (b : Buf) (off n : Nat) (r : HRange) : Buf × Option Nat :=
  if n = 0 then (b, some 0)
  else if r.single then
    match snprintfAt b off n r.pre with
    | (b1, ret) => (b1, some ret)
  else
    match toStringLoop r off n (List.range' r.lo (r.hi + 1 - r.lo)) b 0 with
    | (b1, _, true) => (b1.put (off + n - 1) NUL, none)
    | (b1, len, false) =>
      -- `buf[--len] = '\0'; return len;`
      if len = 0 then
        ((if off = 0 then { b1 with neg := true } else b1.put (off - 1) NUL), none)
      else (b1.put (off + len - 1) NUL, some (len - 1))

/-! ### `hostrange_numstr` -/
/-- `hostrange_numstr(hr, n, buf + off)`: `lo` or `lo-hi`, returns the untruncated length -/
def hostrangeNumstr (b : Buf) (off n : Nat) (r : HRange) : Buf × Nat :=
  if r.single || n = 0 then (b, 0)
  else
    match snprintfAt b off n (fmtPad r.width r.lo) with
    | (b1, len) =>
      if len < n && r.lo < r.hi then
        match snprintfAt b1 (off + len) (n - len) ('-' :: fmtPad r.width r.hi) with
        | (b2, len2) => (b2, len + len2)
      else (b1, len)

/-! ### bracket grouping -/
/-- `hostrange_within_range(h1, h2)`: same prefix and neither is a single host -/
def withinRange (a b : HRange) : Bool := a.pre == b.pre && !a.single && !b.single

/-- `_is_bracket_needed(hl, i)`; `next` = `hl->hr[i+1]` or NULL -/
def isBracketNeeded (r : HRange) (next : Option HRange) : Bool :=
  r.count > 1 || (match next with | some r2 => withinRange r r2 | none => false)

/-- the `do { .. } while (++i < hl->nranges && hostrange_within_range(hr[i], hr[i-1]))` loop of
    `_get_bracketed_list`; `cur` = `hr[i]`, `rest` = `hr[i+1..]`.
    Returns (buffer, len, the records from the final `i` on): after `break` `i` is NOT advanced. -/
def bracketLoop (bn : Bool) (off n : Nat) (cur : HRange) (rest : List HRange) (b : Buf) (len : Nat) :
    Buf × Nat × List HRange :=
  match hostrangeNumstr b (off + len) (guardSub n len) cur with
  | (b1, k) =>
    if len + k ≥ n then (b1, len + k, cur :: rest)
    else
      match (if bn then (b1.put (off + len + k) ',', len + k + 1) else (b1, len + k)) with
      | (b2, len2) =>
        match rest with
        | [] => (b2, len2, [])
        | r' :: rest' =>
          if withinRange r' cur then bracketLoop bn off n r' rest' b2 len2 else (b2, len2, r' :: rest')

/-- `_get_bracketed_list(hl, &i, n, buf + off)`: returns (buffer, return value, records from the
    new `*start` on) -/
def getBracketedList (b : Buf) (off n : Nat) (cur : HRange) (rest : List HRange) :
    Buf × Nat × List HRange :=
  let bn := isBracketNeeded cur rest.head?
  match snprintfAt b off n cur.pre with
  | (b1, len) =>
    if len > n then (b1, n, cur :: rest)            -- "truncated, buffer filled"; `*start` untouched
    else
      match (if bn && len < n then (b1.put (off + len) '[', len + 1) else (b1, len)) with
      | (b2, len2) =>
        match bracketLoop bn off n cur rest b2 len2 with
        | (b3, len3, rem) =>
          if bn && len3 < n && len3 > 0 then
            (((b3.put (off + len3 - 1) ']').put (off + len3) NUL), len3, rem)
          else if len3 ≥ n then
            ((if n > 0 then b3.put (off + n - 1) NUL else b3), len3, rem)
          else (b3.put (off + len3) NUL, len3, rem)     -- `buf[len > 0 ? len : 0] = '\0'`

/-! ### `hostlist_ranged_string` -/
/-- `while (i < hl->nranges && len < n)`; every round either consumes a record or makes
    `len ≥ n`, so `fuel = nranges` rounds suffice -/
def rangedLoop (n : Nat) : Nat → List HRange → Buf → Nat → Buf × Nat
  | 0, _, b, len => (b, len)
  | _, [], b, len => (b, len)
  | f + 1, cur :: rest, b, len =>
    if len < n then
      match getBracketedList b len (n - len) cur rest with
      | (b1, k, rem) =>
        if len + k > 0 && len + k < n && !rem.isEmpty then
          rangedLoop n f rem (b1.put (len + k) ',') (len + k + 1)
        else rangedLoop n f rem b1 (len + k)
    else (b, len)

/-- return value of the two printing functions: a length, or −1 ("truncated") -/
inductive Res where
  | ok (len : Nat)
  | trunc
  deriving Repr, DecidableEq

/-- `hostlist_ranged_string(hl, n, buf)` into a fresh buffer -/
def rangedStringL (n : Nat) (rs : List HRange) : Buf × Res :=
  match rangedLoop n rs.length rs Buf.empty 0 with
  | (b, len) =>
    if len ≥ n then ((if n > 0 then b.put (n - 1) NUL else b), .trunc)
    else (b.put len NUL, .ok len)

def rangedString (n : Nat) (h : HL) : Buf × Res := rangedStringL n h.ranges.toList

/-! ### `hostlist_deranged_string` -/
/-- DEFECT D14: the truncation test of `hostlist_deranged_string` is `ret > m`; a range whose text
    has exactly `m` bytes, and every range met with `m = 0`, pass it.  Repaired form: `ret >= m`. -/
def derangedTrunc (fixed : Bool) (ret m : Nat) : Bool := if fixed then ret ≥ m else ret > m

/-- the `for (i = 0; i < hl->nranges; i++)` loop; returns (buffer, len, truncated) -/
def derangedLoop (fixed : Bool) (n : Nat) : List HRange → Buf → Nat → Buf × Nat × Bool
  | [], b, len => (b, len, false)
  | r :: rs, b, len =>
    match hostrangeToString b len (guardSub n len) r with
    | (b1, none) => (b1, n, true)                       -- `ret < 0`
    | (b1, some ret) =>
      if derangedTrunc fixed ret (guardSub n len) then (b1, n, true)
      else derangedLoop fixed n rs (b1.put (len + ret) ',') (len + ret + 1)

/-- `hostlist_deranged_string(hl, n, buf)` into a fresh buffer -/
def derangedStringL (fixed : Bool) (n : Nat) (rs : List HRange) : Buf × Res :=
  match derangedLoop fixed n rs Buf.empty 0 with
  | (b, len, tr) =>
    -- `buf[len > 0 ? --len : 0] = '\0'; if (len == n) truncated = 1;`
    let len' := if len > 0 then len - 1 else 0
    (b.put len' NUL, if tr || len' == n then .trunc else .ok len')

def derangedString (fixed : Bool) (n : Nat) (h : HL) : Buf × Res := derangedStringL fixed n h.ranges.toList

/-! ### reading the result -/
/-- the C string the caller finds in `buf[0..n)`: the cells up to the first NUL; `none` when a cell
    before it was never written or there is no NUL inside `n` bytes -/
def Buf.cstr (b : Buf) : Nat → Nat → Option Str
  | 0, _ => none
  | k + 1, i =>
    match b.mem i with
    | none => none
    | some c => if c = NUL then some [] else (b.cstr k (i + 1)).map (c :: ·)

/-- the string in the first `n` bytes -/
def Buf.text (b : Buf) (n : Nat) : Option Str := b.cstr n 0

/-- stores outside `[0, n)` -/
def Buf.oob (b : Buf) (n : Nat) : List Nat := (b.log.map (·.1)).filter (· ≥ n)

/-! ### the two fixed callers in opt.c -/
/-- `char wcoll_str[1024]` in `opt_list` -/
def WCOLL_STR : Nat := 1024
/-- `size_t n = 4096` in `list_push_hostlist` -/
def XLIST_BUF : Nat := 4096

/-- the "-- Target nodes --" line of `opt_list` (`-q`: ranged, `-Q`: deranged):
    the buffer and the text printed (`%s[truncated]` when the return value is negative) -/
def optList (fixed expand : Bool) (h : HL) : Buf × Option Str :=
  match (if expand then derangedString fixed WCOLL_STR h else rangedString WCOLL_STR h) with
  | (b, .trunc) => (b, (b.text WCOLL_STR).map (· ++ "[truncated]".toList))
  | (b, .ok _) => (b, b.text WCOLL_STR)

/-- the ceiling `0x7fffff` of `list_push_hostlist` -/
def XLIST_MAX : Nat := 0x7fffff

/-- the REPAIRED retry loop of `list_push_hostlist`:
    `while (hostlist_ranged_string(hl, n-1, s) < 0 && ((n *= 2) < 0x7fffff)) Realloc(&s, n);`
    every round doubles `n`, so 12 rounds from 4096 pass the ceiling (`fuel`; see
    `listPushLoop_text` for "enough").  When the ceiling stops the loop the truncated text of the
    last attempt is what gets pushed. -/
def listPushLoop (h : HL) : Nat → Nat → Buf × Option Str
  | 0, n =>
    match rangedString (n - 1) h with
    | (b, _) => (b, b.text (n - 1))
  | f + 1, n =>
    match rangedString (n - 1) h with
    | (b, .ok _) => (b, b.text (n - 1))
    | (b, .trunc) => if 2 * n < XLIST_MAX then listPushLoop h f (2 * n) else (b, b.text (n - 1))

/-- `list_push_hostlist`.
    DEFECT SWITCH D2 / F14-XLOOP: the unchanged condition `(n*=2 < 0x7fffff)` parses as
    `n *= (2 < 0x7fffff)`, i.e. `n *= 1`: the buffer never grows and a list whose text does not fit
    4095 bytes is retried forever (`none` = the loop does not end).  `fixed := true` is the
    repaired form `((n *= 2) < 0x7fffff)`. -/
def listPushHostlist (fixed : Bool) (h : HL) : Buf × Option Str :=
  if fixed then listPushLoop h 12 XLIST_BUF
  else
    match rangedString (XLIST_BUF - 1) h with
    | (b, .trunc) => (b, none)
    | (b, .ok _) => (b, b.text (XLIST_BUF - 1))

/-! ### `list_push_hostlist` with its heap block made explicit -/
/-- one call of the retry loop: the size announced to `hostlist_ranged_string`, the capacity of the
    heap block `s` at that moment, the buffer after the call -/
structure Attempt where
  n : Nat
  cap : Nat
  buf : Buf

/-- all calls of the REPAIRED retry loop, first to last.  `cap` is what `Malloc (n)` /
    `Realloc (&s, n)` made of the block: the loop body runs `n *= 2` (in the condition) BEFORE
    `Realloc`, so every call is entered with `cap = n`. -/
def listPushTrace (h : HL) : Nat → Nat → Nat → List Attempt
  | 0, n, cap => [⟨n - 1, cap, (rangedString (n - 1) h).1⟩]
  | f + 1, n, cap =>
    match rangedString (n - 1) h with
    | (b, .ok _) => [⟨n - 1, cap, b⟩]
    | (b, .trunc) =>
      ⟨n - 1, cap, b⟩ :: (if 2 * n < XLIST_MAX then listPushTrace h f (2 * n) (2 * n) else [])

/-! ### the other callers inside hostlist.c that print into FIXED buffers -/
/-- `hostlist_pop_range` / `hostlist_next_range`: `char buf[MAXHOSTRANGELEN + 1]` -/
def RANGEBUF : Nat := PdshVerif.Gen.MAXHOSTRANGELEN + 1
/-- `hostlist_shift_range`: `char buf[1024]` -/
def SHIFTRANGEBUF : Nat := 1024

/-- `hostlist_pop_range`: `hostlist_ranged_string(hltmp, MAXHOSTRANGELEN, buf)`, then `strdup(buf)`;
    `rs` = the records moved to `hltmp` (the last bracket group of the list) -/
def popRangeBuf (rs : List HRange) : Buf × Res := rangedStringL PdshVerif.Gen.MAXHOSTRANGELEN rs
/-- `hostlist_shift_range`: `hostlist_ranged_string(hltmp, 1024, buf)`, then `strdup(buf)` -/
def shiftRangeBuf (rs : List HRange) : Buf × Res := rangedStringL SHIFTRANGEBUF rs
/-- `hostlist_next_range`: `_get_bracketed_list(i->hl, &j, MAXHOSTRANGELEN, buf)`, then `strdup(buf)` -/
def nextRangeBuf (cur : HRange) (rest : List HRange) : Buf × Nat × List HRange :=
  getBracketedList Buf.empty 0 PdshVerif.Gen.MAXHOSTRANGELEN cur rest

/-- `hostlist_shift_range` until NULL: each call moves the first record and the records that follow it
    as long as they are `hostrange_within_range` of `hltmp->hr[0]` into a fresh list (through
    `hostlist_push_range`, i.e. with tail coalescing) and returns that list's compressed text from
    `char buf[1024]` (silently cut when longer).  One entry per call: (records of `hltmp`, buffer). -/
def shiftRangeCalls : Nat → List HRange → List (List HRange × Buf)
  | 0, _ => []
  | _ + 1, [] => []
  | f + 1, r0 :: rest =>
    let grp := r0 :: rest.takeWhile (withinRange r0)
    let tmp := (grp.foldl pushRange HL.new).ranges.toList
    (tmp, (shiftRangeBuf tmp).1) :: shiftRangeCalls f (rest.dropWhile (withinRange r0))

/-- `hostlist_pop_range` until NULL: the same from the tail (`hostrange_within_range(tail, hr[i])`
    walking backwards), printed from `char buf[MAXHOSTRANGELEN + 1]` -/
def popRangeCalls : Nat → List HRange → List (List HRange × Buf)
  | 0, _ => []
  | f + 1, rs =>
    match rs.reverse with
    | [] => []
    | t :: before =>
      let grp := (t :: before.takeWhile (withinRange t)).reverse
      let tmp := (grp.foldl pushRange HL.new).ranges.toList
      (tmp, (popRangeBuf tmp).1) :: popRangeCalls f (before.dropWhile (withinRange t)).reverse

/-- `hostlist_next_range` on a fresh iterator until NULL: `_iterator_advance_range` skips the records
    that are `hostrange_within_range` of the group's first record, `_get_bracketed_list` prints the
    group that starts at the iterator's position (it sees ALL records that follow).  One buffer per call. -/
def nextRangeCalls : Nat → List HRange → List Buf
  | 0, _ => []
  | _ + 1, [] => []
  | f + 1, r0 :: rest => (nextRangeBuf r0 rest).1 :: nextRangeCalls f (rest.dropWhile (withinRange r0))

/-! ### one host name into a heap block: `hostlist_next`, `_hostrange_string` (`hostlist_nth`),
    `hostrange_shift`, `hostrange_pop` -/
/-- `snprintf(buf, size, "%s%0*lu", prefix, width, k)` into a block of `size` bytes -/
def formatHost (size : Nat) (r : HRange) (k : Nat) : Buf × Nat :=
  snprintfAt Buf.empty 0 size (r.pre ++ fmtPad r.width k)

/-- the block `hostlist_next` and `_hostrange_string` allocate (repaired D17 / D24):
    `strlen(prefix) + (width > 20 ? width : 20) + 1` -/
def nextSize (r : HRange) : Nat := r.pre.length + (if r.width > 20 then r.width else 20) + 1
/-- the block `hostrange_shift` / `hostrange_pop` allocate: `strlen(prefix) + width + 16` -/
def shiftSize (r : HRange) : Nat := r.pre.length + r.width + 16

end PdshVerif.Hostlist.Print
