/-
  C16, any number of live iterators: `hostlist_shift`, `hostlist_pop`, `hostlist_push_range` are UNIFORM
  (`UnifM`), so their one-iterator refinement theorems (Hostlist/EditRefine.lean) lift through
  `RefM.lift`.
-/
import PdshVerif.Hostlist.EditMulti

namespace PdshVerif.Hostlist
open PdshVerif.Gen

theorem unifM_of_ok {α : Type} (op : EL → EM (α × EL)) (e : EL) (a : α) (f : EL → EL) (hf : Unif f)
    (h : ∀ l, op (e.withIts l) = .ok (a, f (e.withIts l))) :
    ∃ F : ItSt → ItSt, ∀ l, op (e.withIts l) =
      match op (e.withIts []) with
      | .error w => .error w
      | .ok (a, e0) => .ok (a, e0.withIts (l.map (liftIt F))) := by
  obtain ⟨F, hF⟩ := hf e
  exact ⟨F, fun l => by rw [h l, h [], hF l]⟩

theorem unifM_of_err {α : Type} (op : EL → EM (α × EL)) (e : EL) (w : String)
    (h : ∀ l, op (e.withIts l) = .error w) :
    ∃ F : ItSt → ItSt, ∀ l, op (e.withIts l) =
      match op (e.withIts []) with
      | .error w => .error w
      | .ok (a, e0) => .ok (a, e0.withIts (l.map (liftIt F))) :=
  ⟨id, fun l => by rw [h l, h []]⟩

/-- `hostlist_shift` is uniform -/
theorem unifM_shiftE (cfg : Cfg) : UnifM (shiftE cfg) := by
  intro e
  by_cases hpos : e.nhosts > 0
  · cases hrs : e.rs with
    | nil =>
      exact unifM_of_err _ e "hostlist_shift: hl->hr[0] is NULL" fun l => by
        simp only [shiftE, EL.withIts_nhosts, hpos, ↓reduceIte, EL.withIts_rs, hrs]
    | cons o rest =>
      cases hsh : hostrangeShift o.r with
      | mk host r' =>
        have hset : Unif (fun x : EL => ({ x with rs := { o with r := r' } :: rest, nhosts := x.nhosts - 1 } : EL)) :=
          unif_set (fun _ => { o with r := r' } :: rest) (fun x => x.nhosts - 1) (fun x => x.nextId)
            (fun _ _ => rfl) (fun _ _ => rfl) (fun _ _ => rfl)
        by_cases hemp : r'.empty = true
        · exact unifM_of_ok _ e host _ (Unif.comp hset (unif_deleteRange cfg 0)) fun l => by
            simp only [shiftE, EL.withIts_nhosts, hpos, ↓reduceIte, EL.withIts_rs, hrs, hsh, hemp]
        · exact unifM_of_ok _ e host _ (Unif.comp hset (unif_shiftIterators 0 0 0)) fun l => by
            simp only [shiftE, EL.withIts_nhosts, hpos, ↓reduceIte, EL.withIts_rs, hrs, hsh, hemp]
            rfl
  · exact unifM_of_ok _ e none _ unif_id fun l => by
      simp only [shiftE, EL.withIts_nhosts, hpos, ↓reduceIte]

/-- `hostlist_pop` is uniform -/
theorem unifM_popE (cfg : Cfg) : UnifM (popE cfg) := by
  intro e
  by_cases hpos : e.nhosts > 0
  · cases hgl : e.rs.getLast? with
    | none =>
      exact unifM_of_err _ e "hostlist_pop: hl->hr[-1]" fun l => by
        simp only [popE, EL.withIts_nhosts, hpos, ↓reduceIte, EL.withIts_rs, hgl]
    | some o =>
      cases hp : hostrangePop o.r with
      | mk host r' =>
        have hset : Unif (fun x : EL => ({ x with rs := e.rs.dropLast ++ [{ o with r := r' }], nhosts := x.nhosts - 1 } : EL)) :=
          unif_set (fun _ => e.rs.dropLast ++ [{ o with r := r' }]) (fun x => x.nhosts - 1) (fun x => x.nextId)
            (fun _ _ => rfl) (fun _ _ => rfl) (fun _ _ => rfl)
        by_cases hemp : r'.empty = true
        · rcases Bool.eq_false_or_eq_true cfg.fixPopIter with hfx | hfx
          · exact unifM_of_ok _ e host _ (Unif.comp hset (unif_deleteRange cfg (e.rs.length - 1))) fun l => by
              simp only [popE, EL.withIts_nhosts, hpos, ↓reduceIte, EL.withIts_rs, hgl, hp, hemp, hfx]
          · have hset2 : Unif (fun x : EL => ({ x with rs := e.rs.dropLast, nhosts := x.nhosts - 1 } : EL)) :=
              unif_set (fun _ => e.rs.dropLast) (fun x => x.nhosts - 1) (fun x => x.nextId)
                (fun _ _ => rfl) (fun _ _ => rfl) (fun _ _ => rfl)
            exact unifM_of_ok _ e host _ hset2 fun l => by
              simp only [popE, EL.withIts_nhosts, hpos, ↓reduceIte, EL.withIts_rs, hgl, hp, hemp, hfx,
                Bool.false_eq_true]
        · rcases Bool.eq_false_or_eq_true cfg.fixEndPush with hfx | hfx
          · exact unifM_of_ok _ e host _
              (Unif.comp hset (unif_shiftIterators (((e.rs.dropLast ++ [{ o with r := r' }]).length : Int) - 1)
                ((subU64 r'.hi r'.lo + 1 : Nat) : Int) 0)) fun l => by
              simp only [popE, EL.withIts_nhosts, hpos, ↓reduceIte, EL.withIts_rs, hgl, hp, hemp, popIts, hfx]
              rfl
          · exact unifM_of_ok _ e host _ hset fun l => by
              simp only [popE, EL.withIts_nhosts, hpos, ↓reduceIte, EL.withIts_rs, hgl, hp, hemp, popIts, hfx,
                Bool.false_eq_true]
  · exact unifM_of_ok _ e none _ unif_id fun l => by
      simp only [popE, EL.withIts_nhosts, hpos, ↓reduceIte]

/-- `hostlist_push_range` does not look at the iterators -/
theorem pushRangeE_withIts (e : EL) (r : HRange) (l : List (Nat × ItSt)) :
    pushRangeE (e.withIts l) r = (pushRangeE e r).withIts l := by
  unfold pushRangeE
  simp only [EL.withIts_rs, EL.withIts_nhosts, EL.withIts_nextId]
  cases e.rs.getLast? with
  | none => rfl
  | some t =>
    simp only
    split
    · cases widthCombine t.r r with
      | mk ok rest =>
        cases ok <;> rfl
    · rfl

end PdshVerif.Hostlist
