/-
  `hostlist_find` is SOUND (C16/C02): a reported position holds exactly the name looked for —
  whole-name match, zero padding included, through the digit-prefix recursion — and the in-place
  width rewrite never changes a denoted name.  (Completeness fails for numeric tails > 2^25.)
-/
import PdshVerif.Hostlist.LemmasDelete
import PdshVerif.Hostlist.LemmasCreate

namespace PdshVerif.Hostlist
open PdshVerif.Gen

/-- a hostname object that was cut out of `name` inside its trailing digit run -/
def HnOf (name : Str) (hn : Hostname) : Prop :=
  ∀ suf, hn.suffix = some suf → name = hn.pre ++ suf ∧ allDigits suf ∧ suf ≠ [] ∧ hn.num = dval suf

theorem hostnameCreateAt_hnOf (name : Str) (p : Nat) (hp : hostPrefixLen name ≤ p) (hpl : p ≤ name.length) :
    HnOf name (hostnameCreateAt name p) := by
  obtain ⟨hle, hdig, hlen⟩ := hostPrefix_split name
  intro suf hs
  unfold hostnameCreateAt at hs ⊢
  split at hs
  · simp at hs
  · rename_i hne
    simp only at hs ⊢
    split at hs
    · rename_i hc
      simp only [Option.some.injEq] at hs
      subst hs
      simp only [hne, hc, ↓reduceIte]
      have hd : allDigits (name.drop p) := by
        intro c hcm
        have : name.drop p = (name.drop (hostPrefixLen name)).drop (p - hostPrefixLen name) := by
          rw [List.drop_drop]; congr 1; omega
        rw [this] at hcm
        exact hdig c (List.mem_of_mem_drop hcm)
      have hnn : name.drop p ≠ [] := by
        intro h0
        have : name.length ≤ p := List.drop_eq_nil_iff.mp h0
        exact hne (by omega)
      simp only [Bool.and_eq_true, decide_eq_true_eq] at hc
      have hmx : MAX_HOST_SUFFIX < ULONG_MAX := by decide
      have hv : dval (name.drop p) ≤ ULONG_MAX := by
        by_cases h : dval (name.drop p) ≤ ULONG_MAX
        · exact h
        · have := strtoul_digits_big hd hnn (by omega)
          omega
      have hst := strtoul_digits hd hnn hv
      refine ⟨(List.take_append_drop p name).symm, hd, hnn, ?_⟩
      rw [hst]
    · simp at hs

theorem hostnameCreateAt_pre_len (name : Str) (p : Nat) (hp : hostPrefixLen name ≤ p) (hpl : p ≤ name.length) :
    hostPrefixLen name ≤ (hostnameCreateAt name p).pre.length := by
  have hle := (hostPrefix_split name).1
  unfold hostnameCreateAt
  by_cases h1 : p = name.length
  · simp [h1]; exact hle
  · simp only [h1, ↓reduceIte]
    by_cases h2 : ((strtoul (name.drop p)).rest.isEmpty && decide ((strtoul (name.drop p)).val ≤ MAX_HOST_SUFFIX)) = true
    · simp only [h2, ↓reduceIte, List.length_take]; omega
    · simp only [h2]; exact hle

theorem hostnameCreate_hnOf (name : Str) : HnOf name (hostnameCreate name) := by
  rw [hostnameCreate_eq_at]
  exact hostnameCreateAt_hnOf name _ (Nat.le_refl _) (hostPrefix_split name).1

/-- a failed test leaves the record alone -/
theorem hnWithin_none (name : Str) : ∀ (fuel : Nat) (r : HRange) (hn : Hostname) (r1 : HRange),
    hnWithin fuel r name hn = (none, r1) → r1 = r
  | 0, r, hn, r1, h => by simp [hnWithin] at h; exact h.symm
  | f + 1, r, hn, r1, h => by
    unfold hnWithin at h
    split at h
    · split at h
      · simp at h
      · simp at h; exact h.symm
    · cases hsuf : hn.suffix with
      | none => simp [hsuf] at h; exact h.symm
      | some suf =>
        simp only [hsuf] at h
        split at h
        · simp at h; exact h.symm
        · split at h
          · exact hnWithin_none name f r _ r1 h
          · split at h
            · generalize widthEquiv r.lo r.width hn.num suf.length = w at h
              obtain ⟨ok, wn, wm⟩ := w
              cases ok with
              | true => simp at h
              | false => simp at h; exact h.symm
            · simp at h; exact h.symm

/-- SOUNDNESS of `hostrange_hn_within`: a reported offset k is inside the record, the k-th name
    of the record IS the name looked for, and the record (whose width may have been rewritten)
    still denotes the same hosts -/
theorem hnWithin_sound : ∀ (fuel : Nat) (r : HRange) (name : Str) (hn : Hostname) (k : Nat) (r' : HRange),
    r.Good → HnOf name hn → hostPrefixLen name ≤ hn.pre.length →
    hnWithin fuel r name hn = (some k, r') →
    k < r.hosts.length ∧ r.hosts[k]? = some name ∧ r'.hosts = r.hosts ∧ r'.Good
  | 0, r, name, hn, k, r', _, _, _, h => by simp [hnWithin] at h
  | fuel + 1, r, name, hn, k, r', hg, hof, hpl, h => by
    unfold hnWithin at h
    split at h
    · rename_i hs
      split at h
      · rename_i hname
        simp only [Prod.mk.injEq, Option.some.injEq] at h
        obtain ⟨rfl, rfl⟩ := h
        have : r.hosts = [r.pre] := by simp [HRange.hosts, hs]
        rw [this, hname]; simp [hg]
      · simp at h
    · rename_i hs
      have hs' : r.single = false := by simpa using hs
      cases hsuf : hn.suffix with
      | none => simp [hsuf] at h
      | some suf =>
        simp only [hsuf] at h
        obtain ⟨hname, hdig, hne, hnum⟩ := hof suf hsuf
        split at h
        · simp at h
        · split at h
          · -- digit-prefix recursion: the split point moves one character to the right
            rename_i hcond
            simp only [hnRecurse, Bool.and_eq_true, decide_eq_true_eq] at hcond
            have hlen : hn.pre.length + 1 ≤ name.length := by
              rw [hname]; simp only [List.length_append]
              have : 0 < suf.length := List.length_pos_iff.mpr hne
              omega
            exact hnWithin_sound fuel r name _ k r' hg
              (hostnameCreateAt_hnOf name _ (by omega) hlen)
              (hostnameCreateAt_pre_len name _ (by omega) hlen) h
          · split at h
            · rename_i hcond
              simp only [hnMatch, Bool.and_eq_true, decide_eq_true_eq] at hcond
              obtain ⟨⟨⟨_, hpre⟩, hhi⟩, hlo⟩ := hcond
              generalize hw : widthEquiv r.lo r.width hn.num suf.length = w at h
              obtain ⟨ok, wn, wm⟩ := w
              cases ok with
              | false => simp at h
              | true =>
                simp only [Prod.mk.injEq, Option.some.injEq] at h
                obtain ⟨rfl, rfl⟩ := h
                obtain ⟨h1, h2, h3⟩ := widthEquiv_sound hw
                obtain ⟨gle, glt⟩ := hg.2 hs'
                have hl := hg.hosts_length
                rw [hs'] at hl
                simp only [Bool.false_eq_true, ↓reduceIte] at hl
                have hh : r.hosts = (List.range' r.lo (r.hi + 1 - r.lo)).map fun j => r.pre ++ fmtPad r.width j := by
                  simp [HRange.hosts, hs']
                have hklt : hn.num - r.lo < r.hosts.length := by omega
                refine ⟨hklt, ?_, ?_, ?_⟩
                · rw [List.getElem?_eq_getElem hklt]
                  simp only [hh, List.getElem_map, List.getElem_range', Nat.one_mul, Option.some.injEq]
                  have e : r.lo + (hn.num - r.lo) = hn.num := by omega
                  rw [e, hname, ← hpre]
                  congr 1
                  -- r.width prints num like the typed width does, and the typed digits re-print as themselves
                  rw [← h1 hn.num hlo, h3, h2 hn.num (Nat.le_refl _), hnum]
                  exact fmtPad_ofDigits hdig hne
                · simp only [HRange.hosts, hs', Bool.false_eq_true, ↓reduceIte]
                  apply List.map_congr_left
                  intro j hj
                  simp only [List.mem_range'_1] at hj
                  rw [h1 j hj.1]
                · exact ⟨fun hh' => by simp [hs'] at hh', fun _ => ⟨gle, glt⟩⟩
            · simp at h

/-- SOUNDNESS of `hostlist_find` on the record list: the reported position holds the name, and
    the records afterwards denote the same hosts -/
theorem findLoop_sound (name : Str) (hn : Hostname) (hof : HnOf name hn)
    (hpl : hostPrefixLen name ≤ hn.pre.length) : ∀ (rs : List HRange) (count i : Nat) (rs' : List HRange),
    (∀ r ∈ rs, r.Good) → findLoop name hn rs count = (some i, rs') →
    count ≤ i ∧ (hostsL rs)[i - count]? = some name ∧ hostsL rs' = hostsL rs ∧ (∀ r ∈ rs', r.Good)
  | [], _, _, _, _, h => by simp [findLoop] at h
  | r :: rest, count, i, rs', hg, h => by
    have hgr := hg r (by simp)
    have hgrest : ∀ x ∈ rest, x.Good := fun x hx => hg x (by simp [hx])
    unfold findLoop at h
    generalize hw : hnWithin (name.length + 1) r name hn = w at h
    obtain ⟨res, r1⟩ := w
    cases res with
    | some off =>
      simp only [Prod.mk.injEq, Option.some.injEq] at h
      obtain ⟨rfl, rfl⟩ := h
      obtain ⟨hk, hget, hh, hg1⟩ := hnWithin_sound _ r name hn off r1 hgr hof hpl hw
      refine ⟨by omega, ?_, by simp [hostsL, hh], ?_⟩
      · simp only [hostsL, List.flatMap_cons]
        have : count + off - count = off := by omega
        rw [this, List.getElem?_append_left hk]
        exact hget
      · intro x hx
        rcases List.mem_cons.mp hx with rfl | hx
        · exact hg1
        · exact hgrest x hx
    | none =>
      simp only at h
      generalize hrec : findLoop name hn rest (count + r.count) = rec at h
      obtain ⟨res2, rs2⟩ := rec
      simp only [Prod.mk.injEq] at h
      obtain ⟨rfl, rfl⟩ := h
      obtain ⟨hc, hget, hh, hg2⟩ := findLoop_sound name hn hof hpl rest (count + r.count) i rs2 hgrest hrec
      have hr1 : r1 = r := hnWithin_none name _ r hn r1 hw
      subst hr1
      have hcnt := hgr.count_eq
      refine ⟨by omega, ?_, by simp [hostsL] at hh ⊢; rw [hh], ?_⟩
      · simp only [hostsL, List.flatMap_cons]
        rw [List.getElem?_append_right (by omega)]
        have : i - count - r1.hosts.length = i - (count + r1.count) := by omega
        rw [this]
        exact hget
      · intro x hx
        rcases List.mem_cons.mp hx with rfl | hx
        · exact hgr
        · exact hg2 x hx

end PdshVerif.Hostlist
