/-
  Helper lemmas for C14, part 9: the retry loop of `list_push_hostlist` (opt.c), repaired form.
-/
import PdshVerif.Hostlist.PrintChars

namespace PdshVerif.Hostlist.Print
open PdshVerif.Hostlist

/-- what the caller of `hostlist_ranged_string` gets, by cases on whether the text fits -/
theorem ranged_read (h : HL) (hg : ∀ r ∈ h.ranges.toList, r.Good) (hne : NoEmptyName h.ranges.toList)
    (hz : NoNul h.ranges.toList) (n : Nat) (hn : 1 ≤ n) :
    ((PrintSpec.rangedText h).length < n →
      (rangedString n h).2 = .ok (PrintSpec.rangedText h).length ∧
      (rangedString n h).1.text n = some (PrintSpec.rangedText h)) ∧
    (n ≤ (PrintSpec.rangedText h).length →
      (rangedString n h).2 = .trunc ∧ ∃ s, (rangedString n h).1.text n = some s) := by
  obtain ⟨hw, h1, h2⟩ := rangedStringL_spec n hn h.ranges.toList
  have hnz := rangedTextM_no_nul hz h.ranges.toList.length 0
  have e : rangedTextM h.ranges.toList.length 0 h.ranges.toList = PrintSpec.rangedText h :=
    rangedTextM_eq _ 0 _ (Nat.le_refl _) hg hne
  rw [e] at hw h1 h2 hnz
  obtain ⟨_, s, hs, hfit, hcut⟩ := verdict_of_wrote hn hw h1 h2 hnz
  simp only [obsOf] at hs
  refine ⟨fun hf => ⟨(h1 hf).1, ?_⟩, fun hc => ⟨(h2 hc).1, s, hs⟩⟩
  rw [← (hfit hf).2]; exact hs

/-- the repaired loop always ends with some string in the buffer -/
theorem listPushLoop_total (h : HL) (hg : ∀ r ∈ h.ranges.toList, r.Good) (hne : NoEmptyName h.ranges.toList)
    (hz : NoNul h.ranges.toList) : ∀ (f n : Nat), 2 ≤ n → ∃ s, (listPushLoop h f n).2 = some s
  | 0, n, hn => by
    obtain ⟨r1, r2⟩ := ranged_read h hg hne hz (n - 1) (by omega)
    simp only [listPushLoop]
    by_cases hf : (PrintSpec.rangedText h).length < n - 1
    · exact ⟨_, (r1 hf).2⟩
    · exact (r2 (by omega)).2
  | f + 1, n, hn => by
    obtain ⟨r1, r2⟩ := ranged_read h hg hne hz (n - 1) (by omega)
    simp only [listPushLoop]
    by_cases hf : (PrintSpec.rangedText h).length < n - 1
    · obtain ⟨e1, e2⟩ := r1 hf
      rw [show rangedString (n - 1) h = ((rangedString (n - 1) h).1, .ok (PrintSpec.rangedText h).length) from by
        rw [← e1]]
      exact ⟨_, e2⟩
    · obtain ⟨e1, s, e2⟩ := r2 (by omega)
      rw [show rangedString (n - 1) h = ((rangedString (n - 1) h).1, .trunc) from by rw [← e1]]
      simp only
      split
      · exact listPushLoop_total h hg hne hz f (2 * n) (by omega)
      · exact ⟨s, e2⟩

/-- with enough rounds left to reach 4 MiB (`2^22 ≤ n·2^f`), the repaired loop returns the WHOLE text of
    every list whose text is shorter than 4 MiB − 1 -/
theorem listPushLoop_text (h : HL) (hg : ∀ r ∈ h.ranges.toList, r.Good) (hne : NoEmptyName h.ranges.toList)
    (hz : NoNul h.ranges.toList) (hlen : (PrintSpec.rangedText h).length + 1 < 2 ^ 22) :
    ∀ (f n : Nat), 2 ≤ n → 2 ^ 22 ≤ n * 2 ^ f → (listPushLoop h f n).2 = some (PrintSpec.rangedText h)
  | 0, n, hn, hf => by
    obtain ⟨r1, _⟩ := ranged_read h hg hne hz (n - 1) (by omega)
    simp only [listPushLoop]
    exact (r1 (by simp only [Nat.pow_zero, Nat.mul_one] at hf; omega)).2
  | f + 1, n, hn, hf => by
    obtain ⟨r1, r2⟩ := ranged_read h hg hne hz (n - 1) (by omega)
    simp only [listPushLoop]
    by_cases hfit : (PrintSpec.rangedText h).length < n - 1
    · obtain ⟨e1, e2⟩ := r1 hfit
      rw [show rangedString (n - 1) h = ((rangedString (n - 1) h).1, .ok (PrintSpec.rangedText h).length) from by
        rw [← e1]]
      exact e2
    · obtain ⟨e1, _⟩ := r2 (by omega)
      rw [show rangedString (n - 1) h = ((rangedString (n - 1) h).1, .trunc) from by rw [← e1]]
      have hlt : 2 * n < XLIST_MAX := by
        unfold XLIST_MAX
        have : (2 : Nat) ^ 22 = 4194304 := by decide
        omega
      simp only [hlt, ↓reduceIte]
      have e : n * 2 ^ (f + 1) = 2 * n * 2 ^ f := by
        rw [Nat.pow_succ, Nat.mul_comm (2 ^ f) 2, ← Nat.mul_assoc, Nat.mul_comm n 2]
      exact listPushLoop_text h hg hne hz hlen f (2 * n) (by omega) (by rw [← e]; exact hf)

end PdshVerif.Hostlist.Print
