/-
  C15 at full strength, group / token / call level (REPAIRED variant: D15/D25, D16, D18, D22
  switches on), for EVERY text:
  * `parseRangeList_ok_iff`  a bracket body is accepted exactly when it has at most MAX_RANGES
                             items and every item is an accepted range (`itemOk`);
  * `pushTok_ok_iff`         a token is accepted exactly when its brackets balance and its first
                             group is accepted (`tokOk`);
  * `create_ok_iff`          `hostlist_create` returns a list exactly when every token is accepted;
  * `ranges_in_bounds`       (every variant) the index `count` of every write `ranges[count++]`
                             is below MAX_RANGES;
  * `create_count_le`        (every variant) a text of n bytes never yields more than
                             MAX_RANGE · n hosts.
-/
import PdshVerif.Hostlist.LemmasLimits

namespace PdshVerif.Hostlist
open PdshVerif.Gen

/-! ### items -/
/-- an item the repaired `_parse_single_range` accepts: `digits` or `digits-digits`, ordered,
    below 2^64-1, fewer than MAX_RANGE apart (numbers as typed) -/
def itemOk (s : Str) : Prop :=
  numericItem s = true ∧ itemLo s ≤ itemHi s ∧ itemHi s < ULONG_MAX ∧ itemHi s - itemLo s < MAX_RANGE

instance (s : Str) : Decidable (itemOk s) := by unfold itemOk; exact inferInstance

/-- the record built for an accepted item -/
def itemSR (s : Str) : SR := ⟨itemLo s, itemHi s, itemWidth s⟩

theorem itemOk_iff (cfg : Cfg) (h15 : cfg.fixUlongMax = true) (h16 : cfg.fixDigits = true)
    (e : Nat) (s : Str) : itemOk s ↔ parseSingleRange cfg e s = .ok (itemSR s) e := by
  rw [item_ok_iff cfg h15 h16]
  unfold itemOk itemSR
  constructor
  · rintro ⟨a, b, c, d⟩; exact ⟨a, b, c, d, rfl, rfl⟩
  · rintro ⟨a, b, c, d, _, _⟩; exact ⟨a, b, c, d⟩

theorem not_itemOk_fails (cfg : Cfg) (h15 : cfg.fixUlongMax = true) (h16 : cfg.fixDigits = true)
    (e : Nat) (s : Str) (h : ¬ itemOk s) : ∃ e' f, parseSingleRange cfg e s = .fail e' f := by
  cases hp : parseSingleRange cfg e s with
  | fail e' f => exact ⟨e', f, rfl⟩
  | ok r e' =>
    obtain ⟨a, b, c, d, _, _⟩ := (item_ok_iff cfg h15 h16 e s r e').mp hp
    exact absurd ⟨a, b, c, d⟩ h

/-- an accepted item is made of digits and at most one `-` -/
theorem itemOk_no_open {s : Str} (h : itemOk s) : '[' ∉ s := by
  intro hm
  have hn := h.1
  unfold numericItem at hn
  have hnd : isDigit '[' = false := by decide
  rcases cutAt_spec '-' s with ⟨a, h1, h2, _⟩ | ⟨a, b, h1, h2, _⟩
  · rw [h1] at hn
    simp only [Bool.and_eq_true, List.all_eq_true] at hn
    have := hn.2 '[' (by rw [← h2]; exact hm)
    rw [hnd] at this; cases this
  · rw [h1] at hn
    simp only [Bool.and_eq_true, List.all_eq_true] at hn
    rw [h2] at hm
    rcases List.mem_append.mp hm with hm | hm
    · have := hn.1.1.2 '[' hm
      rw [hnd] at this; cases this
    · rcases List.mem_cons.mp hm with e | hm
      · exact absurd e (by decide)
      · have := hn.2 '[' hm
        rw [hnd] at this; cases this

/-! ### `_parse_range_list`: `ranges[count++]` stays inside `ranges[MAX_RANGES]` (every variant) -/
theorem parseRangeItems_size (cfg : Cfg) : ∀ (items : List Str) (count e : Nat) (acc rs : Array SR)
    (e' : Nat), parseRangeItems cfg items count e acc = .ok rs e' → acc.size = count →
    count ≤ MAX_RANGES → rs.size = count + items.length ∧ rs.size ≤ MAX_RANGES
  | [], count, e, acc, rs, e', h, ha, hc => by
    simp only [parseRangeItems, PRL.ok.injEq] at h
    rw [← h.1]; simp [ha, hc]
  | x :: xs, count, e, acc, rs, e', h, ha, hc => by
    unfold parseRangeItems at h
    split at h
    · cases h
    · rename_i hne
      cases hp : parseSingleRange cfg e x with
      | fail _ _ => rw [hp] at h; cases h
      | ok r1 e1 =>
        rw [hp] at h
        simp only at h
        have := parseRangeItems_size cfg xs (count + 1) e1 (acc.push r1) rs e' h (by simp [ha])
          (by omega)
        simp only [List.length_cons]
        omega

/-- BOUNDS of `struct _range ranges[MAX_RANGES]`: every element the range-list parser writes has
    an index below MAX_RANGES — the accepted list has one record per item and at most MAX_RANGES
    of them -/
theorem ranges_in_bounds (cfg : Cfg) (e : Nat) (body : Str) (rs : Array SR) (e' : Nat)
    (h : parseRangeList cfg e body = .ok rs e') :
    rs.size = (splitAll ',' body).length ∧ rs.size ≤ MAX_RANGES := by
  have := parseRangeItems_size cfg (splitAll ',' body) 0 e #[] rs e' h rfl (Nat.zero_le _)
  omega

/-! ### `_parse_range_list` accepts exactly … (repaired) -/
theorem parseRangeItems_ok_iff (cfg : Cfg) (h15 : cfg.fixUlongMax = true) (h16 : cfg.fixDigits = true) :
    ∀ (items : List Str) (count e : Nat) (acc rs : Array SR) (e' : Nat), count ≤ MAX_RANGES →
    (parseRangeItems cfg items count e acc = .ok rs e' ↔
      (items = [] ∨ count + items.length ≤ MAX_RANGES) ∧ (∀ it ∈ items, itemOk it) ∧
        rs.toList = acc.toList ++ items.map itemSR ∧ e' = e)
  | [], count, e, acc, rs, e', _ => by
    simp only [parseRangeItems, PRL.ok.injEq, true_or, List.not_mem_nil, false_implies,
      implies_true, List.map_nil, List.append_nil, true_and]
    constructor
    · rintro ⟨rfl, rfl⟩; exact ⟨rfl, rfl⟩
    · rintro ⟨h1, rfl⟩; exact ⟨(Array.ext' h1).symm, rfl⟩
  | x :: xs, count, e, acc, rs, e', hc => by
    unfold parseRangeItems
    by_cases hm : count = MAX_RANGES
    · simp only [hm, ↓reduceIte, reduceCtorEq, reduceCtorEq, false_iff, not_and]
      intro h; rcases h with h | h
      · cases h
      · simp only [List.length_cons] at h; omega
    · simp only [hm, ↓reduceIte]
      by_cases hx : itemOk x
      · rw [(itemOk_iff cfg h15 h16 e x).mp hx]
        simp only
        rw [parseRangeItems_ok_iff cfg h15 h16 xs (count + 1) e (acc.push (itemSR x)) rs e' (by omega)]
        simp only [Array.toList_push, List.append_assoc, List.singleton_append, reduceCtorEq,
          false_or, List.length_cons, List.mem_cons, forall_eq_or_imp, hx, true_and, List.map_cons]
        constructor
        · rintro ⟨h1, h2, h3, h4⟩
          refine ⟨?_, h2, h3, h4⟩
          rcases h1 with h1 | h1
          · subst h1; simp only [List.length_nil]; omega
          · omega
        · rintro ⟨h1, h2, h3, h4⟩
          exact ⟨Or.inr (by omega), h2, h3, h4⟩
      · obtain ⟨e1, f, hf⟩ := not_itemOk_fails cfg h15 h16 e x hx
        rw [hf]
        simp only [reduceCtorEq, List.mem_cons, forall_eq_or_imp, hx, false_and, and_false]

/-- a bracket body is accepted exactly when it has at most MAX_RANGES comma-separated items and
    every item is an accepted range; the records are the items' typed numbers in order -/
theorem parseRangeList_ok_iff (cfg : Cfg) (h15 : cfg.fixUlongMax = true) (h16 : cfg.fixDigits = true)
    (e : Nat) (body : Str) (rs : Array SR) (e' : Nat) :
    parseRangeList cfg e body = .ok rs e' ↔
      (splitAll ',' body).length ≤ MAX_RANGES ∧ (∀ it ∈ splitAll ',' body, itemOk it) ∧
        rs.toList = (splitAll ',' body).map itemSR ∧ e' = e := by
  unfold parseRangeList
  rw [parseRangeItems_ok_iff cfg h15 h16 _ 0 e #[] rs e' (Nat.zero_le _)]
  simp only [Nat.zero_add, List.nil_append]
  constructor
  · rintro ⟨h1, h2, h3, h4⟩
    refine ⟨?_, h2, h3, h4⟩
    rcases h1 with h1 | h1
    · rw [h1]; simp
    · exact h1
  · rintro ⟨h1, h2, h3, h4⟩
    exact ⟨Or.inr h1, h2, h3, h4⟩

/-! ### bracket balance facts -/
theorem balanced_noOpen_noClose : ∀ {s : Str} (rest : Str), '[' ∉ s → ']' ∈ s →
    bracketsBalanced 0 (s ++ rest) = false
  | [], _, _, h => by simp at h
  | c :: cs, rest, ho, hc => by
    have hco : c ≠ '[' := fun e => ho (by simp [e])
    by_cases hcc : c = ']'
    · simp [bracketsBalanced, hcc]
    · have hc' : ']' ∈ cs := by
        rcases List.mem_cons.mp hc with e | e
        · exact absurd e.symm hcc
        · exact e
      simp only [List.cons_append, bracketsBalanced, hco, ↓reduceIte, hcc]
      exact balanced_noOpen_noClose rest (fun hm => ho (List.mem_cons_of_mem _ hm)) hc'

theorem balanced_noClose_pos : ∀ (s : Str) (l : Nat), ']' ∉ s → bracketsBalanced (l + 1) s = false
  | [], l, _ => by simp [bracketsBalanced]
  | c :: cs, l, hc => by
    have hcc : c ≠ ']' := fun e => hc (by simp [e])
    have ih := fun l => balanced_noClose_pos cs l (fun hm => hc (List.mem_cons_of_mem _ hm))
    by_cases hco : c = '['
    · simp only [bracketsBalanced, hco, ↓reduceIte]; exact ih (l + 1)
    · simp only [bracketsBalanced, hco, hcc, ↓reduceIte]; exact ih l

/-! ### tokens -/
/-- the first bracket group of a token: the text between the first `[` and the first `]` after
    it (`none`: the token has no `[`) -/
def firstGroup (tok : Str) : Option Str :=
  match cutAt '[' tok with
  | (_, some p) => some (cutAt ']' p).1
  | (_, none) => none

/-- a token the repaired `_hostlist_create_bracketed` accepts: brackets balance; the first group
    (if any) has at most MAX_RANGES items, each an accepted range -/
def tokOk (tok : Str) : Prop :=
  bracketsBalanced 0 tok = true ∧
    ∀ body, firstGroup tok = some body →
      (splitAll ',' body).length ≤ MAX_RANGES ∧ ∀ it ∈ splitAll ',' body, itemOk it

instance (tok : Str) : Decidable (tokOk tok) :=
  match h : firstGroup tok with
  | none => decidable_of_iff (bracketsBalanced 0 tok = true) (by unfold tokOk; simp [h])
  | some body =>
    decidable_of_iff (bracketsBalanced 0 tok = true ∧
      ((splitAll ',' body).length ≤ MAX_RANGES ∧ ∀ it ∈ splitAll ',' body, itemOk it))
      (by unfold tokOk; simp [h])

theorem items_no_open {body : Str} (h : ∀ it ∈ splitAll ',' body, itemOk it) : '[' ∉ body := by
  intro hm
  obtain ⟨it, hit, hmem⟩ := mem_splitAll (c := ',') (x := '[') (by decide) body hm
  exact itemOk_no_open (h it hit) hmem

/-- TOKEN LEVEL: accepted exactly when `tokOk` (repaired variant, every token text) -/
theorem pushTok_ok_iff (cfg : Cfg) (h15 : cfg.fixUlongMax = true) (h16 : cfg.fixDigits = true)
    (h18 : cfg.fixCurTok = true) (h22 : cfg.fixSuffixBal = true) (st : PSt) (tok : Str) :
    (∃ st', pushTok cfg st tok = .ok st') ↔ tokOk tok := by
  unfold tokOk firstGroup
  rcases cutAt_spec '[' tok with ⟨a, h1, h2, h3⟩ | ⟨pfx, p, h1, h2, h3⟩
  · -- no `[`
    have hno : '[' ∉ tok := by rw [h2]; exact h3
    unfold pushTok
    rw [h1]
    simp only [reduceCtorEq, false_implies, implies_true, and_true]
    by_cases hc : ']' ∈ tok
    · have hcc : tok.contains ']' = true := by simpa using hc
      have hb := balanced_noOpen_noClose [] hno hc
      rw [List.append_nil] at hb
      simp [hc, hb]
    · have hcc : tok.contains ']' = false := by simpa using hc
      have hb := Neutral.noBrackets hno hc 0 []
      simp only [List.append_nil] at hb
      simp [hc, curTok, h18, hb, bracketsBalanced]
  · -- a `[`
    unfold pushTok
    rw [h1]
    simp only [Option.some.injEq, forall_eq']
    rcases cutAt_spec ']' p with ⟨b, g1, g2, g3⟩ | ⟨body, sfx, g1, g2, g3⟩
    · -- no `]` after it: refused, and unbalanced
      rw [g1]
      simp only [reduceCtorEq, exists_false, false_iff, not_and]
      intro hb
      exfalso
      rw [h2] at hb
      by_cases hpc : ']' ∈ pfx
      · rw [balanced_noOpen_noClose _ h3 hpc] at hb; cases hb
      · rw [Neutral.noBrackets h3 hpc 0 _] at hb
        simp only [bracketsBalanced, ↓reduceIte] at hb
        rw [balanced_noClose_pos p 0 (by rw [g2]; exact g3)] at hb; cases hb
    · rw [g1]
      simp only
      have etok : tok = (pfx ++ ('[' :: body ++ [']'])) ++ sfx := by rw [h2, g2]; simp
      constructor
      · rintro ⟨st', hs⟩
        split at hs
        · cases hs
        · rename_i hsok
          simp only [suffixOk, h22, Bool.not_true, Bool.false_or, Bool.not_eq_true', Bool.not_eq_false,
            Bool.and_eq_true, Bool.not_eq_true'] at hsok
          have hpc : ']' ∉ pfx := by simpa using hsok.1
          cases hp : parseRangeList cfg st.errno body with
          | fail e f => rw [hp] at hs; cases hs
          | ok rs e =>
            obtain ⟨k1, k2, _, _⟩ := (parseRangeList_ok_iff cfg h15 h16 _ _ _ _).mp hp
            refine ⟨?_, k1, k2⟩
            have hn := ((Neutral.noBrackets h3 hpc).append (Neutral.group (items_no_open k2) g3)) 0 sfx
            rw [etok, hn]; exact hsok.2
      · rintro ⟨hb, k1, k2⟩
        have hbo := items_no_open k2
        have hpc : ']' ∉ pfx := by
          intro hpc
          rw [h2, balanced_noOpen_noClose _ h3 hpc] at hb; cases hb
        have hn := ((Neutral.noBrackets h3 hpc).append (Neutral.group hbo g3)) 0 sfx
        rw [etok, hn] at hb
        have hsok : suffixOk cfg pfx sfx = true := by
          simp [suffixOk, hpc, hb]
        have hp := (parseRangeList_ok_iff cfg h15 h16 st.errno body
          ((splitAll ',' body).map itemSR).toArray st.errno).mpr ⟨k1, k2, by simp, rfl⟩
        simp only [hsok, Bool.not_true, Bool.false_eq_true, ↓reduceIte, hp]
        split
        · exact ⟨_, rfl⟩
        · have hhi := parseRangeItems_ok_hi cfg h15 _ 0 st.errno #[] _ _ hp (by simp)
          obtain ⟨h', hh⟩ := pushRangeListWithSuffix_returns cfg pfx sfx _ st.hl hhi
          rw [hh]; exact ⟨_, rfl⟩

/-! ### the whole call -/
theorem createToks_ok_iff (cfg : Cfg) (h15 : cfg.fixUlongMax = true) (h16 : cfg.fixDigits = true)
    (h18 : cfg.fixCurTok = true) (h22 : cfg.fixSuffixBal = true) :
    ∀ (toks : List Str) (st : PSt), (∃ st', createToks cfg st toks = .ok st') ↔ ∀ t ∈ toks, tokOk t
  | [], st => by simp [createToks]
  | t :: ts, st => by
    unfold createToks
    simp only [List.mem_cons, forall_eq_or_imp]
    rw [← pushTok_ok_iff cfg h15 h16 h18 h22 st t]
    cases hp : pushTok cfg st t with
    | ok st1 =>
      simp only [Outcome.ok.injEq, exists_eq', true_and]
      exact createToks_ok_iff cfg h15 h16 h18 h22 ts st1
    | null e f => simp
    | ub w => simp
    | diverge => simp

/-- CALL LEVEL, for EVERY text (repaired variant): `hostlist_create` returns a host list exactly
    when every token of the text is accepted — brackets balanced, range items numeric, ordered,
    below 2^64-1 and fewer than MAX_RANGE apart, at most MAX_RANGES of them per group; in every
    other case it returns NULL (`create_returns`) -/
theorem create_ok_iff (cfg : Cfg) (h15 : cfg.fixUlongMax = true) (h16 : cfg.fixDigits = true)
    (h18 : cfg.fixCurTok = true) (h22 : cfg.fixSuffixBal = true) (s : Str) :
    (∃ h, create cfg s = .ok h) ↔ ∀ t ∈ tokens hlSep s, tokOk t := by
  rw [← createToks_ok_iff cfg h15 h16 h18 h22 (tokens hlSep s) ⟨HL.new, 0⟩]
  unfold create createFrom
  cases createToks cfg ⟨HL.new, 0⟩ (tokens hlSep s) <;> simp

end PdshVerif.Hostlist
