/-
  C16, any number of live iterators: `hostlist_remove(i)` after a `hostlist_next` that handed out a host
  removes exactly that list position — it IS `hostlist_delete_nth` of that position as far as every OTHER
  iterator is concerned (F16-MULTI repaired) — and iterator i goes on with what it had left (D19 repaired).
-/
import PdshVerif.Hostlist.EditRemoveShapes

namespace PdshVerif.Hostlist
open PdshVerif.Gen

/-- `hostlist_remove` = `hostlist_delete_nth` of the position the iterator stands on, then iterator `k`
    alone is re-placed (`G`: where, or not at all when the record went away) — the same `G` whatever
    other iterators there are -/
theorem itRemove_vs_delete (cfg : Cfg) (A B : List RObj) (o : RObj) (nh : Int) (nx : Nat)
    (kk : Nat) (hkk : 1 ≤ kk) (hk2 : kk ≤ o.r.hosts.length)
    (hnd : ((A ++ o :: B).map (·.id)).Nodup) (hgA : ∀ a ∈ A, a.r.Good) (hgo : o.r.Good) :
    ∃ G : Option ItSt, ∀ (its : List (Nat × ItSt)) (k : Nat),
      EL.getIt ⟨A ++ o :: B, nh, nx, its⟩ k = some ⟨(A.length : Int), (kk : Int) - 1, some o.id⟩ →
      itRemove cfg ⟨A ++ o :: B, nh, nx, its⟩ k =
        .ok (match G with
             | none => deleteNthE cfg ⟨A ++ o :: B, nh, nx, its⟩ ((hostsL (A.map (·.r))).length + (kk - 1))
             | some X => (deleteNthE cfg ⟨A ++ o :: B, nh, nx, its⟩ ((hostsL (A.map (·.r))).length + (kk - 1))).setIt k X) := by
  have hgd := removeGuard_ok o kk hgo hkk hk2
  have hj : kk - 1 < o.r.hosts.length := by omega
  cases hs : o.r.single with
  | true =>
    have hone := single_hosts_length hs
    have hk1 : kk = 1 := by omega
    subst hk1
    obtain ⟨hlo, hhi⟩ := hgo.1 hs
    have hDH : hostrangeDeleteHost o.r (addU64 o.r.lo (1 - 1)) = ({ o.r with lo := addU64 o.r.lo 1 }, none) := by
      unfold hostrangeDeleteHost
      have : addU64 o.r.lo (1 - 1) = o.r.lo := by rw [hlo]; decide
      rw [this]; simp
    have he : ({ o.r with lo := addU64 o.r.lo 1 } : HRange).empty = true := by
      unfold HRange.empty
      simp only [hlo, hhi]
      decide
    refine ⟨none, fun its k hgi => ?_⟩
    rw [itRemoveG_gone cfg A B o nh nx its k 1 _ hkk hgi hnd hgd hDH he,
      deleteNthE_gone cfg A o B nh nx its (1 - 1) hgA hgo hj (Or.inl hs)]
  | false =>
    rcases hostrangeDeleteHost_cases hgo hs hj with ⟨r', hd, he, _, _⟩ | ⟨r', hd, he, _, _, _, _⟩ |
        ⟨r', hd, he, _, _, _, _, _⟩ | ⟨r', up, hd, _⟩
    · refine ⟨none, fun its k hgi => ?_⟩
      rw [itRemoveG_gone cfg A B o nh nx its k kk r' hkk hgi hnd hgd hd he,
        deleteNthE_gone cfg A o B nh nx its (kk - 1) hgA hgo hj (Or.inr ⟨hs, r', hd, he⟩)]
    · refine ⟨some ⟨(A.length : Int), (kk : Int) - 1 - 1, some o.id⟩, fun its k hgi => ?_⟩
      rw [itRemoveG_shrink cfg A B o nh nx its k kk r' hkk hgi hnd hgd hd he,
        deleteNthE_shrink cfg A o B nh nx its (kk - 1) hgA hgo hj hs r' hd he]
    · refine ⟨some ⟨(A.length : Int), (kk : Int) - 1 - 1, some o.id⟩, fun its k hgi => ?_⟩
      rw [itRemoveG_shrink cfg A B o nh nx its k kk r' hkk hgi hnd hgd hd he,
        deleteNthE_shrink cfg A o B nh nx its (kk - 1) hgA hgo hj hs r' hd he]
    · refine ⟨some ⟨((A.length + 1 : Nat) : Int), -1, some nx⟩, fun its k hgi => ?_⟩
      rw [itRemoveG_split cfg A B o nh nx its k kk r' up hkk hgi hnd hgd hd,
        deleteNthE_split cfg A o B nh nx its (kk - 1) hgA hgo hj hs r' up hd]

end PdshVerif.Hostlist
