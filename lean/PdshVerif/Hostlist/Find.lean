/-
  hostlist.c: `hostname_create_with_suffix`, `hostrange_hn_within` (with its digit-prefix
  recursion and the in-place width rewrite of `_width_equiv`), `hostlist_find` on a list of range
  records.
-/
import PdshVerif.Hostlist.Iter

namespace PdshVerif.Hostlist
open PdshVerif.Gen

/-- `hostname_create_with_suffix(hostname, idx)` with `plen = idx + 1` (length of the prefix) -/
def hostnameCreateAt (s : Str) (plen : Nat) : Hostname :=
  if plen = s.length then ⟨s, 0, none, false⟩
  else
    let suf := s.drop plen
    let r := strtoul suf
    if r.rest.isEmpty && r.val ≤ MAX_HOST_SUFFIX then ⟨s.take plen, r.val, some suf, r.erange⟩
    else ⟨s, r.val, none, r.erange⟩

theorem hostnameCreate_eq_at (s : Str) : hostnameCreate s = hostnameCreateAt s (hostPrefixLen s) := rfl

def lastIsDigit (s : Str) : Bool := match s.getLast? with | some c => isDigit c | none => false

/-- the test that sends `hostrange_hn_within` into its recursion: the name's prefix is shorter
    than the record's, the record's prefix ends in a digit, the name has ≥ 2 digits and its first
    digit continues the record's prefix -/
def hnRecurse (r : HRange) (hn : Hostname) (suf : Str) : Bool :=
  hn.pre.length < r.pre.length && suf.length > 1 && lastIsDigit r.pre
    && r.pre[hn.pre.length]? = suf.head?

/-- the final test: identical prefixes and the number inside the record's bounds -/
def hnMatch (r : HRange) (hn : Hostname) : Bool :=
  r.pre.length = hn.pre.length && hn.pre = r.pre && hn.num ≤ r.hi && hn.num ≥ r.lo

/-- `hostrange_hn_within(hr, hn)`: offset of the name inside the record or `none` (-1), and the
    record afterwards (`_width_equiv(hr->lo, &hr->width, ..)` may rewrite its width in place).
    `name` is `hn->hostname`.  The recursion moves the split point of the name one character to
    the right each time, so `fuel = |name|` rounds suffice. -/
def hnWithin : Nat → HRange → Str → Hostname → Option Nat × HRange
  | 0, r, _, _ => (none, r)
  | fuel + 1, r, name, hn =>
    if r.single then (if name = r.pre then (some 0, r) else (none, r))
    else
      match hn.suffix with
      | none => (none, r)
      | some suf =>
        if r.pre.take hn.pre.length ≠ hn.pre then (none, r)       -- strncmp(hr->prefix, hn->prefix, len_hn)
        else if hnRecurse r hn suf then
          hnWithin fuel r name (hostnameCreateAt name (hn.pre.length + 1))
        else if hnMatch r hn then
          match widthEquiv r.lo r.width hn.num suf.length with
          | (true, wn, _) => (some (hn.num - r.lo), { r with width := wn })
          | (false, _, _) => (none, r)
        else (none, r)

/-- `hostlist_find` over the range records: position of the first match (`count + offset`) or
    `none`; the records come back because a successful width test may rewrite a width -/
def findLoop (name : Str) (hn : Hostname) : List HRange → Nat → Option Nat × List HRange
  | [], _ => (none, [])
  | r :: rs, count =>
    match hnWithin (name.length + 1) r name hn with
    | (some off, r') => (some (count + off), r' :: rs)
    | (none, r') =>
      match findLoop name hn rs (count + r.count) with
      | (res, rs') => (res, r' :: rs')

def findRanges (rs : List HRange) (name : Str) : Option Nat × List HRange :=
  findLoop name (hostnameCreate name) rs 0

/-- `hostlist_find(hl, hostname)` -/
def find (h : HL) (name : Str) : Option Nat × HL :=
  match findRanges h.ranges.toList name with
  | (res, rs) => (res, ⟨rs.toArray, h.nhosts⟩)

end PdshVerif.Hostlist
