/-
  ONE iterator watches `hostlist_delete_nth`: the shapes "the record shrinks" and "the record is split"
  (`hostlist_host_deleted`, the repair of F16-DELETE-UNDER-ITERATOR / F16-MULTI).
-/
import PdshVerif.Hostlist.EditDeleteObs

namespace PdshVerif.Hostlist
open PdshVerif.Gen

/-! ### `hostlist_host_deleted` on one iterator -/
theorem delOne_miss (cfg : Cfg) (e : EL) (idx j : Int) (s : Bool) (it : ItSt) (h : ¬ (it.idx = idx ∧ it.depth ≥ j)) :
    delOne cfg e idx j s it = it := by
  unfold delOne
  have : (cfg.fixIterDelete && decide (it.idx = idx) && decide (it.depth ≥ j)) = false := by
    apply Bool.eq_false_iff.mpr
    intro hh
    simp only [Bool.and_eq_true, decide_eq_true_eq] at hh
    exact h ⟨hh.1.2, hh.2⟩
  rw [this]; rfl

theorem delOne_back (cfg : Cfg) (hID : cfg.fixIterDelete = true) (e : EL) (idx j : Int) (s : Bool) (it : ItSt)
    (h1 : it.idx = idx) (h2 : it.depth ≥ j) (h3 : s = false ∨ it.depth = j) :
    delOne cfg e idx j s it = { it with depth := it.depth - 1 } := by
  unfold delOne
  have : (cfg.fixIterDelete && decide (it.idx = idx) && decide (it.depth ≥ j)) = true := by simp [hID, h1, h2]
  rw [this]
  have h4 : (s && decide (it.depth > j)) = false := by
    rcases h3 with h3 | h3
    · simp [h3]
    · have : ¬ it.depth > j := by omega
      simp [this]
  simp only [↓reduceIte, h4, Bool.false_eq_true]

theorem delOne_over (cfg : Cfg) (hID : cfg.fixIterDelete = true) (e : EL) (idx j : Int) (it : ItSt)
    (h1 : it.idx = idx) (h2 : it.depth > j) :
    delOne cfg e idx j true it = ⟨it.idx + 1, it.depth - (j + 1), e.hrAt (it.idx + 1)⟩ := by
  unfold delOne
  have h3 : it.depth ≥ j := by omega
  have : (cfg.fixIterDelete && decide (it.idx = idx) && decide (it.depth ≥ j)) = true := by simp [hID, h1, h3]
  rw [this]
  simp [h2]

theorem ids_setr (A B : List RObj) (o : RObj) (r' : HRange) (i : Nat) :
    ((A ++ ({ o with r := r' } : RObj) :: B)[i]?).map (·.id) = ((A ++ o :: B)[i]?).map (·.id) := by
  rw [← List.getElem?_map, ← List.getElem?_map]
  simp

/-! ### shape S: the record shrinks at an end -/
theorem obs_shrink (cfg : Cfg) (hID : cfg.fixIterDelete = true) (A : List RObj) (o : RObj) (B : List RObj) (nh : Int)
    (nx : Nat) (i k j : Nat) (r' : HRange) (hj : j < o.r.hosts.length) (hl : r'.hosts.length + 1 = o.r.hosts.length) :
    let it : ItSt := ⟨(i : Int), (k : Int) - 1, EL.hrAt ⟨A ++ o :: B, nh, nx, []⟩ (i : Int)⟩
    let e : EL := ⟨A ++ o :: B, nh, nx, [(0, it)]⟩
    let e' : EL := delIts cfg ⟨A ++ { o with r := r' } :: B, nh - 1, nx, [(0, it)]⟩ A.length j false
    let n := (hostsL (A.map (·.r))).length + j
    ∃ i' k', Coh e' i' k' ∧
      offL e'.ranges i' k' = (if offL e.ranges i k > n then offL e.ranges i k - 1 else offL e.ranges i k) := by
  intro it e e' n
  have hL : e.ranges = A.map (·.r) ++ o.r :: B.map (·.r) := by simp [e, EL.ranges]
  have hL' : e'.ranges = A.map (·.r) ++ r' :: B.map (·.r) := by simp [e', delIts, EL.ranges]
  have hlenA : (A.map (·.r)).length = A.length := by simp
  have hhr : it.hr = ((A ++ ({ o with r := r' } : RObj) :: B)[i]?).map (·.id) := by
    show EL.hrAt ⟨A ++ o :: B, nh, nx, []⟩ (i : Int) = _
    rw [hrAt_nat]
    exact (ids_setr A B o r' i).symm
  have hcoh : ∀ (it2 : ItSt) (k2 : Nat),
      delOne cfg ⟨A ++ { o with r := r' } :: B, nh - 1, nx, [(0, it)]⟩ A.length j false it = it2 →
      it2.idx = (i : Int) → it2.depth = (k2 : Int) - 1 → it2.hr = it.hr → Coh e' i k2 := by
    intro it2 k2 h1 h2 h3 h4
    have : e' = ⟨A ++ { o with r := r' } :: B, nh - 1, nx, [(0, it2)]⟩ := by
      show delIts cfg _ _ _ _ = _
      unfold delIts
      simp only [List.map_cons, List.map_nil, h1]
    rw [this]
    exact coh_of _ _ _ i k2 it2 h2 h3 (by rw [h4, hhr])
  rcases Nat.lt_trichotomy i A.length with hlt | heq | hgt
  · have hd : delOne cfg ⟨A ++ { o with r := r' } :: B, nh - 1, nx, [(0, it)]⟩ A.length j false it = it :=
      delOne_miss _ _ _ _ _ _ (by intro ⟨h, _⟩; simp only [it] at h; omega)
    refine ⟨i, k, hcoh it k hd rfl rfl rfl, ?_⟩
    rw [hL', hL, offL_append_left _ _ i k (by omega), offL_append_left _ _ i k (by omega)]
    have := offL_le (A.map (·.r)) i k
    have hn : ¬ offL (A.map (·.r)) i k > n := by show ¬ _ > (hostsL (A.map (·.r))).length + j; omega
    rw [if_neg hn]
  · subst heq
    have e1 := offL_append_right (A.map (·.r)) (o.r :: B.map (·.r)) 0
    have e2 := offL_append_right (A.map (·.r)) (r' :: B.map (·.r)) 0
    simp only [hlenA, Nat.add_zero, offL_cons_zero] at e1 e2
    by_cases hkj : k ≤ j
    · have hd : delOne cfg ⟨A ++ { o with r := r' } :: B, nh - 1, nx, [(0, it)]⟩ A.length j false it = it :=
        delOne_miss _ _ _ _ _ _ (by intro ⟨_, h⟩; simp only [it] at h; omega)
      refine ⟨A.length, k, hcoh it k hd rfl rfl rfl, ?_⟩
      rw [hL', hL, e1 k, e2 k]
      have hn : ¬ (hostsL (A.map (·.r))).length + min k o.r.hosts.length > n := by
        show ¬ _ > (hostsL (A.map (·.r))).length + j; omega
      rw [if_neg hn]; omega
    · have hd : delOne cfg ⟨A ++ { o with r := r' } :: B, nh - 1, nx, [(0, it)]⟩ A.length j false it =
          { it with depth := it.depth - 1 } :=
        delOne_back cfg hID _ _ _ _ _ rfl (by simp only [it]; omega) (Or.inl rfl)
      refine ⟨A.length, k - 1, hcoh _ (k - 1) hd rfl (by simp only [it]; omega) rfl, ?_⟩
      rw [hL', hL, e1 k, e2 (k - 1)]
      have hn : (hostsL (A.map (·.r))).length + min k o.r.hosts.length > n := by
        show _ > (hostsL (A.map (·.r))).length + j; omega
      rw [if_pos hn]; omega
  · obtain ⟨m, rfl⟩ : ∃ m, i = A.length + 1 + m := ⟨i - A.length - 1, by omega⟩
    have hd : delOne cfg ⟨A ++ { o with r := r' } :: B, nh - 1, nx, [(0, it)]⟩ A.length j false it = it :=
      delOne_miss _ _ _ _ _ _ (by intro ⟨h, _⟩; simp only [it] at h; omega)
    refine ⟨A.length + 1 + m, k, hcoh it k hd rfl rfl rfl, ?_⟩
    have e1 := offL_append_right (A.map (·.r)) (o.r :: B.map (·.r)) (m + 1) k
    have e2 := offL_append_right (A.map (·.r)) (r' :: B.map (·.r)) (m + 1) k
    rw [hlenA] at e1 e2
    rw [hL', hL, show A.length + 1 + m = A.length + (m + 1) from by omega, e1, e2, offL_cons_succ, offL_cons_succ]
    have hn : (hostsL (A.map (·.r))).length + (o.r.hosts.length + offL (B.map (·.r)) m k) > n := by
      show _ > (hostsL (A.map (·.r))).length + j; omega
    rw [if_pos hn]; omega

end PdshVerif.Hostlist
