/-
  "Unbalanced brackets make the parse fail" for a WHOLE TEXT, against the spec's own predicate
  `Spec.balanced` (Hostlist/Spec.lean, written without the model): if the brackets of the text do
  not match, `hostlist_create` returns NULL (repaired variant) — `unbalanced_text_fails`.
  Route: if every token is balanced then so is the text (tokens are cut at bracket level 0 and
  separators are no brackets); an unbalanced token fails (`create_ok_iff`).
-/
import PdshVerif.Hostlist.LemmasAccept
import PdshVerif.Hostlist.LemmasBounds

namespace PdshVerif.Hostlist
open PdshVerif.Gen

/-- the model's balance test and the spec's are the same function -/
theorem bracketsBalanced_eq_spec : ∀ (s : Str) (l : Nat), bracketsBalanced l s = Spec.balanced l s
  | [], _ => rfl
  | c :: cs, l => by
    unfold bracketsBalanced Spec.balanced
    split
    · exact bracketsBalanced_eq_spec cs (l + 1)
    · split
      · cases l with
        | zero => rfl
        | succ k => exact bracketsBalanced_eq_spec cs k
      · exact bracketsBalanced_eq_spec cs l

/-- a text balanced from level `k` down to 0 lowers any level by exactly `k` -/
theorem balanced_shift : ∀ (t : Str) (k : Nat), bracketsBalanced k t = true →
    ∀ (l : Nat) (rest : Str), bracketsBalanced (l + k) (t ++ rest) = bracketsBalanced l rest
  | [], k, h, l, rest => by
    have : k = 0 := by simpa [bracketsBalanced] using h
    subst this; rfl
  | c :: cs, k, h, l, rest => by
    unfold bracketsBalanced at h
    by_cases ho : c = '['
    · simp only [ho, ↓reduceIte] at h
      have ih := balanced_shift cs (k + 1) h l rest
      simp only [List.cons_append, bracketsBalanced, ho, ↓reduceIte]
      rw [← ih]; rfl
    · by_cases hc : c = ']'
      · simp only [hc, ↓reduceIte] at h
        cases k with
        | zero => simp at h
        | succ k' =>
          simp only at h
          have ih := balanced_shift cs k' h l rest
          simp only [List.cons_append, bracketsBalanced, hc]
          have e : l + (k' + 1) = (l + k') + 1 := by omega
          rw [e]
          simp only [show (']' : Char) ≠ '[' by decide, ↓reduceIte]
          exact ih
      · simp only [ho, hc, ↓reduceIte] at h
        have ih := balanced_shift cs k h l rest
        simp only [List.cons_append, bracketsBalanced, ho, hc, ↓reduceIte]
        exact ih

/-- dropping leading separators (no brackets among them) does not change the balance -/
theorem balanced_dropWhile_sep : ∀ (s : Str) (l : Nat),
    bracketsBalanced l (s.dropWhile (isSep hlSep)) = bracketsBalanced l s
  | [], _ => rfl
  | c :: cs, l => by
    by_cases h : isSep hlSep c = true
    · rw [List.dropWhile_cons_of_pos h, balanced_dropWhile_sep cs l]
      have ho : c ≠ '[' := fun e => by rw [e] at h; revert h; decide
      have hc : c ≠ ']' := fun e => by rw [e] at h; revert h; decide
      simp [bracketsBalanced, ho, hc]
    · rw [List.dropWhile_cons_of_neg h]

/-- if every token is balanced, so is the text -/
theorem tokens_balanced : ∀ (n : Nat) (s : Str), s.length ≤ n →
    (∀ t ∈ tokens hlSep s, bracketsBalanced 0 t = true) → bracketsBalanced 0 s = true
  | 0, s, hn, _ => by
    have : s = [] := List.length_eq_zero_iff.mp (by omega)
    subst this; rfl
  | n + 1, s, hn, h => by
    rw [tokens_unfold] at h
    cases hnt : nextTok hlSep s with
    | none =>
      unfold nextTok at hnt
      split at hnt
      · rename_i hd
        rw [← balanced_dropWhile_sep s 0, hd]; rfl
      · generalize scanTok hlSep 0 _ = q at hnt
        obtain ⟨a, b⟩ := q
        cases hnt
    | some p =>
      obtain ⟨t, r⟩ := p
      rw [hnt] at h
      simp only [List.mem_cons, forall_eq_or_imp] at h
      have ⟨hne, hl⟩ := nextTok_some hnt
      have hpos : 0 < t.length := List.length_pos_iff.mpr hne
      have ih := tokens_balanced n r (by omega) h.2
      unfold nextTok at hnt
      split at hnt
      · cases hnt
      · have happ := scanTok_append hlSep (s.dropWhile (isSep hlSep)) 0
        generalize scanTok hlSep 0 (s.dropWhile (isSep hlSep)) = q at hnt happ
        obtain ⟨a, b⟩ := q
        simp only [Option.some.injEq, Prod.mk.injEq] at hnt
        obtain ⟨rfl, rfl⟩ := hnt
        simp only at happ
        rw [← balanced_dropWhile_sep s 0, ← happ]
        have := balanced_shift a 0 h.1 0 b
        simp only [Nat.add_zero] at this
        rw [this, ← balanced_dropWhile_sep b 0]
        exact ih

/-- UNBALANCED TEXT ⇒ FAILURE (repaired variant, every text, against the SPEC's predicate): a text
    whose brackets do not match — anywhere — is refused by `hostlist_create` -/
theorem unbalanced_text_fails (cfg : Cfg) (h15 : cfg.fixUlongMax = true) (h16 : cfg.fixDigits = true)
    (h18 : cfg.fixCurTok = true) (h22 : cfg.fixSuffixBal = true) (s : Str)
    (hu : Spec.balanced 0 s = false) : ∃ e f, create cfg s = .null e f := by
  rcases create_returns_aux cfg h15 h18 s with ⟨h, hok⟩ | hnull
  · exfalso
    have hall := (create_ok_iff cfg h15 h16 h18 h22 s).mp ⟨h, hok⟩
    have := tokens_balanced s.length s (Nat.le_refl _) (fun t ht => (hall t ht).1)
    rw [bracketsBalanced_eq_spec, hu] at this
    cases this
  · exact hnull
where
  create_returns_aux (cfg : Cfg) (h15 : cfg.fixUlongMax = true) (h18 : cfg.fixCurTok = true) (s : Str) :
      (∃ h, create cfg s = .ok h) ∨ (∃ e f, create cfg s = .null e f) := by
    unfold create createFrom
    rcases createToks_returns cfg h15 h18 (tokens hlSep s) ⟨HL.new, 0⟩ with ⟨st, hs⟩ | ⟨e, f, hs⟩
    · left; rw [hs]; exact ⟨_, rfl⟩
    · right; rw [hs]; exact ⟨_, _, rfl⟩

end PdshVerif.Hostlist
