/-
  `hostlist_sort` keeps the multiset of hosts: `qsort` permutes the records, one round of
  `hostlist_coalesce` rewrites two overlapping neighbours into records that denote the same names with the same
  multiplicities (`coalesce_numbers_perm`), `hostlist_collapse` joins records that continue each other.
-/
import PdshVerif.Hostlist.EditSortPerm
import PdshVerif.Hostlist.EditSortLemmas

namespace PdshVerif.Hostlist
open PdshVerif.Gen

/-- the one-host records inserted for the number `x` of the overlap -/
def singR (pre : Str) (w pH nL x : Nat) : List HRange :=
  (if x > pH then [(⟨pre, x, x, w, false⟩ : HRange)] else []) ++ (if x < nL then [(⟨pre, x, x, w, false⟩ : HRange)] else [])

theorem insertSingles_ranges (pre : Str) (w pH nL : Nat) : ∀ (xs : List Nat) (e : EL) (j : Nat) (T D : List HRange),
    e.ranges = T ++ D → T.length = j →
    (insertSingles pre w pH nL xs e j).ranges = T ++ xs.flatMap (singR pre w pH nL) ++ D ∧
    (insertSingles pre w pH nL xs e j).nhosts = e.nhosts
  | [], e, j, T, D, h, _ => by simp [insertSingles, h]
  | x :: xs, e, j, T, D, h, hj => by
    have hlen : e.rs.length = T.length + D.length := by
      have := congrArg List.length h
      simpa [EL.ranges] using this
    have ins : ∀ (e0 : EL) (T0 : List HRange), e0.ranges = T0 ++ D → (r : HRange) →
        (insertRange e0 r T0.length).ranges = (T0 ++ [r]) ++ D ∧ (insertRange e0 r T0.length).nhosts = e0.nhosts := by
      intro e0 T0 h0 r
      have hl0 : T0.length ≤ e0.rs.length := by
        have := congrArg List.length h0
        simp [EL.ranges] at this; omega
      obtain ⟨h1, h2⟩ := insertRange_ranges e0 r T0.length hl0
      refine ⟨?_, h2⟩
      rw [h1, h0, List.take_left' rfl, List.drop_left' rfl]
      simp
    unfold insertSingles
    subst hj
    by_cases h1 : x > pH <;> by_cases h2 : x < nL
    · simp only [h1, h2, ↓reduceIte]
      obtain ⟨a1, a2⟩ := ins e T h ⟨pre, x, x, w, false⟩
      obtain ⟨b1, b2⟩ := ins _ (T ++ [⟨pre, x, x, w, false⟩]) (by rw [a1]) ⟨pre, x, x, w, false⟩
      have hl1 : (T ++ [(⟨pre, x, x, w, false⟩ : HRange)]).length = T.length + 1 := by simp
      rw [hl1] at b1 b2
      obtain ⟨c1, c2⟩ := insertSingles_ranges pre w pH nL xs _ (T.length + 1 + 1) _ D b1 (by simp)
      refine ⟨?_, by rw [c2, b2, a2]⟩
      rw [c1]
      simp [singR, h1, h2]
    · simp only [h1, h2, ↓reduceIte]
      obtain ⟨a1, a2⟩ := ins e T h ⟨pre, x, x, w, false⟩
      obtain ⟨c1, c2⟩ := insertSingles_ranges pre w pH nL xs _ (T.length + 1) _ D a1 (by simp)
      refine ⟨?_, by rw [c2, a2]⟩
      rw [c1]
      simp [singR, h1, h2]
    · simp only [h1, h2, ↓reduceIte]
      obtain ⟨a1, a2⟩ := ins e T h ⟨pre, x, x, w, false⟩
      obtain ⟨c1, c2⟩ := insertSingles_ranges pre w pH nL xs _ (T.length + 1) _ D a1 (by simp)
      refine ⟨?_, by rw [c2, a2]⟩
      rw [c1]
      simp [singR, h1, h2]
    · simp only [h1, h2, ↓reduceIte]
      obtain ⟨c1, c2⟩ := insertSingles_ranges pre w pH nL xs e T.length T D h rfl
      refine ⟨?_, c2⟩
      rw [c1]
      simp [singR, h1, h2]

/-- the names of a numeric record, as a map over its numbers -/
theorem hosts_numeric (r : HRange) (hs : r.single = false) :
    r.hosts = (List.range' r.lo (r.hi + 1 - r.lo)).map fun k => r.pre ++ fmtPad r.width k := by
  simp [HRange.hosts, hs]

theorem hostsL_singR (pre : Str) (w pH nL : Nat) (xs : List Nat) :
    hostsL (xs.flatMap (singR pre w pH nL)) = (xs.flatMap (dupF pH nL)).map fun k => pre ++ fmtPad w k := by
  induction xs with
  | nil => rfl
  | cons x xs ih =>
    simp only [List.flatMap_cons, hostsL_append, ih, List.map_append]
    congr 1
    unfold singR dupF
    by_cases h1 : x > pH <;> by_cases h2 : x < nL <;>
      simp [h1, h2, hostsL, HRange.hosts]

end PdshVerif.Hostlist
