/-
  Helper lemmas for C14, part 8: the COMPRESSED text is the rendering of a well-formed expression
  with one word per group (`wordOf`), whose expansion is the host sequence of the records.
-/
import PdshVerif.Hostlist.PrintRound

namespace PdshVerif.Hostlist.Print
open PdshVerif.Hostlist

/-! ### groups: induction principle, flattening -/
theorem loopRun_append_loopRem : ∀ (rest : List HRange) (cur : HRange),
    loopRun cur rest ++ loopRem cur rest = cur :: rest
  | [], cur => by simp [loopRun, loopRem]
  | r' :: rest', cur => by
    simp only [loopRun, loopRem]
    split
    · simp [loopRun_append_loopRem rest' r']
    · simp

/-- a property of every `_get_bracketed_list` run holds of every group -/
theorem groups_forall (P : List HRange → Prop) : ∀ (n : Nat) (rs : List HRange), rs.length ≤ n →
    (∀ cur rest, (∀ x ∈ cur :: rest, x ∈ rs) → P (loopRun cur rest)) → ∀ g ∈ PrintSpec.groups rs, P g
  | _, [], _, _, g, hg => by simp [PrintSpec.groups] at hg
  | 0, _ :: _, hn, _, _, _ => by simp at hn
  | n + 1, cur :: rest, hn, hP, g, hg => by
    rw [groups_cons] at hg
    rcases List.mem_cons.mp hg with rfl | hg
    · exact hP cur rest (fun x hx => hx)
    · have hlen := loopRem_length_le rest cur
      simp only [List.length_cons] at hn
      exact groups_forall P n (loopRem cur rest) (by omega)
        (fun c r hcr => hP c r (fun x hx => List.mem_cons_of_mem _ (loopRem_subset rest cur x (hcr x hx)))) g hg

theorem groups_flatten : ∀ (n : Nat) (rs : List HRange), rs.length ≤ n → (PrintSpec.groups rs).flatten = rs
  | _, [], _ => by simp [PrintSpec.groups]
  | 0, _ :: _, hn => by simp at hn
  | n + 1, cur :: rest, hn => by
    have hlen := loopRem_length_le rest cur
    simp only [List.length_cons] at hn
    rw [groups_cons, List.flatten_cons, groups_flatten n (loopRem cur rest) (by omega),
      loopRun_append_loopRem]

/-- all records of a group share the prefix of the first -/
theorem loopRun_pre : ∀ (rest : List HRange) (cur : HRange), ∀ x ∈ loopRun cur rest, x.pre = cur.pre
  | [], cur, x, h => by simp [loopRun] at h; rw [h]
  | r' :: rest', cur, x, h => by
    simp only [loopRun] at h
    split at h
    · rename_i hw
      rcases List.mem_cons.mp h with h | h
      · rw [h]
      · have : r'.pre = cur.pre := by
          simp only [withinRange, Bool.and_eq_true, beq_iff_eq] at hw
          exact hw.1.1
        rw [loopRun_pre rest' r' x h, this]
    · simp at h; rw [h]

/-! ### the word of a group -/
/-- a range record as a typed range: its bounds printed at the record's width -/
def rangeOf (r : HRange) : Spec.Range :=
  ⟨fmtPad r.width r.lo, if r.lo < r.hi then some (fmtPad r.width r.hi) else none⟩

/-- the word `_get_bracketed_list` prints for a group -/
def wordOf : List HRange → Spec.Word
  | [] => .plain []
  | r :: g =>
    if r.single then .plain r.pre
    else if g.isEmpty && r.lo = r.hi then .plain (r.pre ++ PrintSpec.item r)
    else .br r.pre ((r :: g).map rangeOf) [] none

theorem spec_joinComma : ∀ (l : List Str), Spec.joinComma l = PrintSpec.joinComma l
  | [] => rfl
  | [_] => rfl
  | x :: y :: rest => by simp [Spec.joinComma, PrintSpec.joinComma, spec_joinComma (y :: rest)]

theorem renderRange_rangeOf (r : HRange) : Spec.renderRange (rangeOf r) = PrintSpec.item r := by
  by_cases h : r.lo < r.hi <;> simp [Spec.renderRange, rangeOf, PrintSpec.item, h]

theorem renderWord_wordOf : ∀ (g : List HRange), Spec.renderWord (wordOf g) = PrintSpec.groupText g
  | [] => rfl
  | r :: g => by
    simp only [wordOf, PrintSpec.groupText]
    split
    · rfl
    · split
      · rfl
      · have e : List.map (Spec.renderRange ∘ rangeOf) (r :: g) = List.map PrintSpec.item (r :: g) :=
          List.map_congr_left (fun x _ => renderRange_rangeOf x)
        simp only [Spec.renderWord, Spec.renderGroup, Spec.renderTail, List.append_nil, spec_joinComma,
          List.map_map, e]
        simp

/-- the compressed text is the comma-joined rendering of the groups' words -/
theorem rangedTextL_eq_words (rs : List HRange) :
    PrintSpec.rangedTextL rs = PrintSpec.joinComma (((PrintSpec.groups rs).map wordOf).map Spec.renderWord) := by
  unfold PrintSpec.rangedTextL
  rw [List.map_map]
  congr 1
  apply List.map_congr_left
  intro g _
  exact (renderWord_wordOf g).symm

/-! ### numerals -/
theorem digits_of_allDigits {s : Str} (h : allDigits s) (hne : s ≠ []) : Spec.digits s = true := by
  simp only [Spec.digits, Bool.and_eq_true, Bool.not_eq_true', List.isEmpty_eq_false_iff, List.all_eq_true]
  exact ⟨hne, fun c hc => h c hc⟩

theorem fmtPad_digits (w n : Nat) : Spec.digits (fmtPad w n) = true :=
  digits_of_allDigits (fmtPad_allDigits w n) (fmtPad_ne_nil w n)

/-- printing at the width the low bound was printed with changes no number of the range -/
theorem fmtPad_max {w lo k : Nat} (h : lo ≤ k) : fmtPad (max w (ndig lo)) k = fmtPad w k := by
  have := ndig_mono h
  unfold fmtPad
  congr 2
  omega

theorem rangeOf_lo (r : HRange) : (rangeOf r).lo = r.lo := by
  simp [Spec.Range.lo, rangeOf, spec_val, dval_fmtPad]

theorem rangeOf_hi (r : HRange) (h : r.lo ≤ r.hi) : (rangeOf r).hi = r.hi := by
  simp only [Spec.Range.hi, rangeOf]
  split
  · rename_i hs heq
    split at heq
    · simp only [Option.some.injEq] at heq; rw [← heq, spec_val, dval_fmtPad]
    · simp at heq
  · rename_i heq
    split at heq
    · simp at heq
    · rw [spec_val, dval_fmtPad]; omega

/-- the names of a record, seen as a typed range -/
theorem names_rangeOf (r : HRange) (hs : r.single = false) (h : r.lo ≤ r.hi) :
    (Spec.Range.names (rangeOf r)).map (r.pre ++ ·) = r.hosts := by
  rw [hosts_nonsingle hs]
  simp only [Spec.Range.names, rangeOf_lo, rangeOf_hi r h, List.map_map]
  apply List.map_congr_left
  intro k hk
  have hk' : r.lo ≤ k := by
    simp only [List.mem_range'_1] at hk; exact hk.1
  simp only [Function.comp_def, hostText, spec_pad]
  congr 1
  have : (rangeOf r).loS.length = max r.width (ndig r.lo) := by simp [rangeOf, fmtPad_length]
  rw [this, fmtPad_max hk']

theorem rangeOf_WF (r : HRange) (hg : r.Good) (hs : r.single = false) (hsz : r.hi - r.lo < Spec.RANGE_LIMIT) :
    (rangeOf r).WF = true := by
  have hlo := hg.2 hs
  simp only [Spec.Range.WF, Bool.and_eq_true, decide_eq_true_eq, rangeOf_lo, rangeOf_hi r hlo.1]
  refine ⟨⟨⟨⟨fmtPad_digits _ _, ?_⟩, hlo.1⟩, hsz⟩, ?_⟩
  · by_cases h : r.lo < r.hi <;> simp [rangeOf, h, fmtPad_digits]
  · have := hlo.2; unfold ULONG_MAX at this; omega

/-! ### one group -/
/-- per-record part of the round trip's domain: well formed, name text without characters that
    mean something in host expressions, single-host names non-empty, names shorter than 1023 bytes
    where the parser variant `cfg` still has D18 / D23 (`NameFits`), at most 16384 hosts in a range
    record -/
structure RecOK (cfg : Cfg) (r : HRange) : Prop where
  good : r.Good
  chars : r.pre.all PrintSpec.nameChar = true
  nonempty : r.single = true → r.pre ≠ []
  fits : NameFits cfg r
  size : r.single = false → r.hi - r.lo < Spec.RANGE_LIMIT

theorem flatten_flatMap {α β : Type} (f : α → List β) : ∀ (l : List (List α)),
    l.flatten.flatMap f = l.flatMap (fun g => g.flatMap f)
  | [] => rfl
  | g :: l => by simp [List.flatMap_append, flatten_flatMap f l]

theorem group_word_ok (cfg : Cfg) (cur : HRange) (rest : List HRange) (hok : ∀ x ∈ cur :: rest, RecOK cfg x)
    (hsz : (loopRun cur rest).length ≤ Spec.RANGES_LIMIT) :
    (wordOf (loopRun cur rest)).WF = true ∧ wordDom cfg (wordOf (loopRun cur rest)) ∧
    (wordOf (loopRun cur rest)).expand₁ = (loopRun cur rest).flatMap HRange.hosts := by
  have hc := hok cur (by simp)
  by_cases hs : cur.single = true
  · rw [loopRun_single cur rest hs]
    have hx : cur.pre ∈ cur.hosts := by simp [HRange.hosts, hs]
    obtain ⟨a1, a2⟩ := host_plain_ok cfg hc.good hc.chars hc.nonempty hc.fits hx
    simp only [wordOf, hs, ↓reduceIte]
    refine ⟨a1, a2, ?_⟩
    simp [Spec.Word.expand₁, HRange.hosts, hs]
  · have hs' : cur.single = false := by simpa using hs
    have hlo := hc.good.2 hs'
    obtain ⟨g, hg'⟩ : ∃ g, loopRun cur rest = cur :: g := by
      cases rest with
      | nil => exact ⟨[], rfl⟩
      | cons r' rest' => simp only [loopRun]; split <;> simp
    have hmem : ∀ x ∈ cur :: g, x ∈ cur :: rest := by
      intro x hx
      rw [← hg'] at hx
      rcases loopRun_subset rest cur x hx with h | h
      · rw [h]; simp
      · exact List.mem_cons_of_mem _ h
    have hns : ∀ x ∈ cur :: g, x.single = false := by
      intro x hx; rw [← hg'] at hx; exact loopRun_nonsingle rest cur hs' x hx
    have hpre : ∀ x ∈ cur :: g, x.pre = cur.pre := by
      intro x hx; rw [← hg'] at hx; exact loopRun_pre rest cur x hx
    rw [hg'] at hsz ⊢
    simp only [wordOf, hs', Bool.false_eq_true, ↓reduceIte]
    by_cases hc2 : (g.isEmpty && decide (cur.lo = cur.hi)) = true
    · have hge : g = [] := by
        simp only [Bool.and_eq_true, List.isEmpty_iff] at hc2; exact hc2.1
      have heq : cur.lo = cur.hi := by
        simp only [Bool.and_eq_true, decide_eq_true_eq] at hc2; exact hc2.2
      subst hge
      have hnl : ¬ cur.lo < cur.hi := by omega
      have hitem : cur.pre ++ PrintSpec.item cur = hostText cur cur.lo := by
        simp [PrintSpec.item, hnl, hostText]
      have hx : hostText cur cur.lo ∈ cur.hosts := by
        rw [hosts_nonsingle hs']
        exact List.mem_map.mpr ⟨cur.lo, by simp only [List.mem_range'_1]; omega, rfl⟩
      obtain ⟨a1, a2⟩ := host_plain_ok cfg hc.good hc.chars hc.nonempty hc.fits hx
      simp only [hc2, ↓reduceIte, hitem]
      refine ⟨a1, a2, ?_⟩
      rw [List.flatMap_cons, List.flatMap_nil, List.append_nil, hosts_nonsingle hs']
      have : cur.hi + 1 - cur.lo = 1 := by omega
      simp [Spec.Word.expand₁, this]
    · have hc2' : (g.isEmpty && decide (cur.lo = cur.hi)) = false := by simpa using hc2
      simp only [hc2', Bool.false_eq_true, ↓reduceIte]
      have hchars : cur.pre.all Spec.textChar = true := by
        have := hc.chars; rwa [nameChar_eq_textChar] at this
      refine ⟨?_, ⟨?_, ?_⟩, ?_⟩
      · -- well-formed
        simp only [Spec.Word.WF, hchars, Spec.groupWF, List.map_cons, List.isEmpty_cons, Bool.not_false,
          List.length_cons, List.length_map, Bool.true_and, List.all_nil, Bool.and_true, Bool.and_eq_true,
          decide_eq_true_eq]
        refine ⟨by simpa using hsz, ?_⟩
        rw [← List.map_cons, List.all_map, List.all_eq_true]
        intro x hx
        exact rangeOf_WF x (hok x (hmem x hx)).good (hns x hx) ((hok x (hmem x hx)).size (hns x hx))
      · intro r' hr'
        obtain ⟨x, hx, rfl⟩ := List.mem_map.mp hr'
        have hxlo := (hok x (hmem x hx)).good.2 (hns x hx)
        rw [rangeOf_hi x hxlo.1]
        exact hxlo.2
      · intro r' hr'
        obtain ⟨x, hx, rfl⟩ := List.mem_map.mp hr'
        have hxlo := (hok x (hmem x hx)).good.2 (hns x hx)
        rcases (hok x (hmem x hx)).fits with hfit | hfit
        · exact Or.inl hfit.2
        · refine Or.inr ?_
          unfold NameShort at hfit
          simp only [hns x hx, Bool.false_eq_true, ↓reduceIte, hpre x hx] at hfit
          unfold fitsHostBuf
          rw [rangeOf_hi x hxlo.1]
          have hl : (rangeOf x).loS.length = max x.width (ndig x.lo) := by simp [rangeOf, fmtPad_length]
          have := ndig_mono hxlo.1
          simp only [hl, Spec.renderTail, List.append_nil, List.length_nil, HOSTBUF]
          unfold CURTOK at hfit
          omega
      · -- expansion
        simp only [Spec.Word.expand₁, Spec.renderTail, List.append_nil, Spec.groupNames, List.flatMap_map,
          List.map_flatMap]
        apply flatMap_congr'
        intro x hx
        rw [← names_rangeOf x (hns x hx) ((hok x (hmem x hx)).good.2 (hns x hx)).1, hpre x hx]

/-! ### compressed form -/
/-- COMPRESSED FORM: `hostlist_create` reads the text back as the same host sequence -/
theorem ranged_roundtrip_L (cfg : Cfg) (rs : List HRange) (hok : ∀ r ∈ rs, RecOK cfg r)
    (hgs : ∀ g ∈ PrintSpec.groups rs, g.length ≤ Spec.RANGES_LIMIT) :
    ∃ h', create cfg (PrintSpec.rangedTextL rs) = .ok h' ∧ h'.Good ∧ h'.hosts = rs.flatMap HRange.hosts := by
  have hP := groups_forall (fun g => g.length ≤ Spec.RANGES_LIMIT →
      (wordOf g).WF = true ∧ wordDom cfg (wordOf g) ∧ (wordOf g).expand₁ = g.flatMap HRange.hosts)
    rs.length rs (Nat.le_refl _)
    (fun cur rest hsub hsz => group_word_ok cfg cur rest (fun x hx => hok x (hsub x hx)) hsz)
  obtain ⟨h', e, g, hh⟩ := create_joinComma cfg ((PrintSpec.groups rs).map wordOf)
    (fun w hw => by obtain ⟨x, hx, rfl⟩ := List.mem_map.mp hw; exact (hP x hx (hgs x hx)).1)
    (fun w hw => by obtain ⟨x, hx, rfl⟩ := List.mem_map.mp hw; exact (hP x hx (hgs x hx)).2.1)
  refine ⟨h', by rw [rangedTextL_eq_words]; exact e, g, ?_⟩
  rw [hh]
  unfold Spec.expand₁
  rw [List.flatMap_map]
  conv => rhs; rw [← groups_flatten rs.length rs (Nat.le_refl _), flatten_flatMap]
  apply flatMap_congr'
  intro x hx
  exact (hP x hx (hgs x hx)).2.2

end PdshVerif.Hostlist.Print
