/-
  C16, any number of live iterators: `hostlist_delete_host(hl, name)` = `hostlist_find` then
  `hostlist_delete_nth` — the first occurrence of the name goes (SMALL name: F16-BIGSUFFIX is outside) and
  every iterator sees the list without it from where it stood.
-/
import PdshVerif.Hostlist.EditMultiFind

namespace PdshVerif.Hostlist
open PdshVerif.Gen

theorem deleteHost_refinesM (cfg : Cfg) (hfs : cfg.fixIterSuffix = true) (hD19 : cfg.fixRemoveDepth = true)
    (hID : cfg.fixIterDelete = true) (e : EL) (p : EditSpec.PL) (fr : Nat → Bool) (h : RefM cfg e p fr)
    (x : Str) (hsm : SmallName x) :
    (deleteHostE cfg e x).1 = ((EditSpec.deleteHost p x).1 : Int) ∧
      RefM cfg (deleteHostE cfg e x).2 (EditSpec.deleteHost p x).2 (fun k => (EditSpec.find p x).isNone && fr k) := by
  obtain ⟨hM, hans⟩ := find_refinesM cfg hfs e p fr h x
  have ha := hans hsm
  unfold deleteHostE EditSpec.deleteHost
  cases hf : findE e x with
  | mk res e1 =>
    rw [hf] at ha hM
    simp only at ha hM
    rw [← ha]
    cases res with
    | none =>
      simp only [Option.isNone_none, Bool.true_and]
      exact ⟨rfl, hM⟩
    | some n =>
      simp only [Option.isNone_some, Bool.false_and]
      have hn : n < p.names.length := by
        have h1 : EditSpec.find p x = some n := ha.symm
        unfold EditSpec.find at h1
        simp only at h1
        split at h1
        · rename_i hlt
          simp only [Option.some.injEq] at h1
          rw [← h1]; exact hlt
        · simp at h1
      exact ⟨rfl, deleteNth_refinesM cfg hfs hD19 hID e1 p fr hM n hn⟩

end PdshVerif.Hostlist
