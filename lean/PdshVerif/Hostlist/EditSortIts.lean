/-
  `hostlist_sort`: after the reset that follows `qsort`, `hostlist_coalesce` and `hostlist_collapse` insert and
  delete records at indices ≥ 1 only, so every (reset) iterator stays where it is — in front of the first host,
  its cached pointer on record 0 — and the record identities stay distinct.
-/
import PdshVerif.Hostlist.EditSortHosts3
import PdshVerif.Hostlist.LemmasUniqCount
import PdshVerif.Hostlist.LemmasInv

namespace PdshVerif.Hostlist
open PdshVerif.Gen

/-- identities distinct and every iterator freshly reset -/
def SortInv (e : EL) : Prop := e.IdsOk ∧ ∀ q ∈ e.its, q.2 = e.resetIt

/-- `op` keeps the iterators as they are (and reset), and the identities distinct -/
structure Keeps0 (e e' : EL) : Prop where
  its : e'.its = e.its
  reset : e'.resetIt = e.resetIt
  ids : e'.IdsOk

theorem Keeps0.inv {e e' : EL} (h : SortInv e) (k : Keeps0 e e') : SortInv e' :=
  ⟨k.ids, fun q hq => by rw [k.reset]; exact h.2 q (by rw [← k.its]; exact hq)⟩

theorem Keeps0.trans {a b c : EL} (h1 : Keeps0 a b) (h2 : Keeps0 b c) : Keeps0 a c :=
  ⟨h2.its.trans h1.its, h2.reset.trans h1.reset, h2.ids⟩

theorem resetIt_of_head (e e' : EL) (h : (e'.rs[0]?).map (·.id) = (e.rs[0]?).map (·.id)) : e'.resetIt = e.resetIt := by
  unfold EL.resetIt
  rw [show (0 : Int) = ((0 : Nat) : Int) from rfl, hrAt_nat, hrAt_nat, h]

theorem setAt_keeps0 (e : EL) (i : Nat) (r : HRange) (h : SortInv e) : Keeps0 e (e.setAt i r) := by
  have hids := setAt_ids e i r
  refine ⟨rfl, resetIt_of_head _ _ (by rw [← List.getElem?_map, ← List.getElem?_map, hids]), ?_, ?_⟩
  · show ((e.setAt i r).rs.map (·.id)).Nodup
    rw [hids]; exact h.1.1
  · intro o ho
    have : o.id ∈ (e.setAt i r).rs.map (·.id) := List.mem_map.mpr ⟨o, ho, rfl⟩
    rw [hids] at this
    obtain ⟨o', ho', he⟩ := List.mem_map.mp this
    show o.id < e.nextId
    rw [← he]; exact h.1.2 o' ho'

theorem insertRange_keeps0 (e : EL) (r : HRange) (j : Nat) (hj1 : 1 ≤ j) (hj : j ≤ e.rs.length) (h : SortInv e) :
    Keeps0 e (insertRange e r j) ∧ (insertRange e r j).rs.length = e.rs.length + 1 := by
  have hn : ¬ j > e.rs.length := by omega
  have hrs : (insertRange e r j).rs = e.rs.take j ++ ⟨e.nextId, r⟩ :: e.rs.drop j := by
    unfold insertRange; simp [hn]
  have hnx : (insertRange e r j).nextId = e.nextId + 1 := by
    unfold insertRange; simp [hn]
  refine ⟨⟨?_, ?_, ?_, ?_⟩, ?_⟩
  · unfold insertRange
    simp only [hn, ↓reduceIte]
    conv => rhs; rw [← List.map_id e.its]
    apply List.map_congr_left
    intro q hq
    have hq2 := h.2 q hq
    have hidx : q.2.idx = 0 := by rw [hq2]; rfl
    have : ¬ q.2.idx ≥ (j : Int) := by rw [hidx]; omega
    obtain ⟨k, it⟩ := q
    simp only at this ⊢
    simp [this]
  · apply resetIt_of_head
    rw [hrs]
    cases hl : e.rs with
    | nil => rw [hl] at hj; simp at hj; omega
    | cons o rest =>
      obtain ⟨j', rfl⟩ : ∃ j', j = j' + 1 := ⟨j - 1, by omega⟩
      simp
  · show ((insertRange e r j).rs.map (·.id)).Nodup
    rw [hrs]
    have := (nodup_insert_fresh (e.rs.map (·.id)) j e.nextId h.1.1
      (fun x hx => by obtain ⟨o, ho, he⟩ := List.mem_map.mp hx; rw [← he]; exact h.1.2 o ho)).1
    simpa [List.map_take, List.map_drop] using this
  · intro o ho
    rw [hnx]
    rw [hrs] at ho
    have := (nodup_insert_fresh (e.rs.map (·.id)) j e.nextId h.1.1
      (fun x hx => by obtain ⟨o, ho, he⟩ := List.mem_map.mp hx; rw [← he]; exact h.1.2 o ho)).2 o.id (by
        have hm : o.id ∈ (e.rs.take j ++ (⟨e.nextId, r⟩ : RObj) :: e.rs.drop j).map (·.id) := List.mem_map.mpr ⟨o, ho, rfl⟩
        simpa [List.map_take, List.map_drop] using hm)
    exact this
  · rw [hrs]; simp; omega

theorem deleteRange_keeps0 (cfg : Cfg) (e : EL) (n : Nat) (hn1 : 1 ≤ n) (h : SortInv e) :
    Keeps0 e (deleteRange cfg e n) := by
  have hrs : (deleteRange cfg e n).rs = e.rs.eraseIdx n := by
    unfold deleteRange; simp only; split <;> rfl
  have hnx : (deleteRange cfg e n).nextId = e.nextId := by
    unfold deleteRange; simp only; split <;> rfl
  refine ⟨?_, ?_, ?_, ?_⟩
  · unfold deleteRange
    simp only
    have hall : ∀ q ∈ e.its, q.2.idx = 0 := fun q hq => by rw [h.2 q hq]; rfl
    split
    · -- as found: hostlist_shift_iterators(hl, n, 0, 1)
      show (e.its.map _) = e.its
      conv => rhs; rw [← List.map_id e.its]
      apply List.map_congr_left
      intro q hq
      have hidx := hall q hq
      obtain ⟨k, it⟩ := q
      simp only at hidx ⊢
      have h1 : ¬ ((1 : Int) = 0) := by omega
      have h2 : ¬ it.idx ≥ (n : Int) := by rw [hidx]; omega
      simp [h1, h2]
    · show (e.its.map _) = e.its
      conv => rhs; rw [← List.map_id e.its]
      apply List.map_congr_left
      intro q hq
      have hidx := hall q hq
      obtain ⟨k, it⟩ := q
      simp only at hidx ⊢
      have h1 : ¬ it.idx > (n : Int) := by rw [hidx]; omega
      have h2 : ¬ it.idx = (n : Int) := by rw [hidx]; omega
      simp [h1, h2]
  · apply resetIt_of_head
    rw [hrs]
    cases hl : e.rs with
    | nil => rfl
    | cons o rest =>
      obtain ⟨n', rfl⟩ : ∃ n', n = n' + 1 := ⟨n - 1, by omega⟩
      simp
  · show ((deleteRange cfg e n).rs.map (·.id)).Nodup
    rw [hrs]
    exact ((List.eraseIdx_sublist e.rs n).map _).nodup h.1.1
  · intro o ho
    rw [hnx]
    rw [hrs] at ho
    exact h.1.2 o ((List.eraseIdx_sublist e.rs n).subset ho)

theorem insertSingles_keeps0 (pre : Str) (w pH nL : Nat) : ∀ (xs : List Nat) (e : EL) (j : Nat), 1 ≤ j →
    j ≤ e.rs.length → SortInv e → Keeps0 e (insertSingles pre w pH nL xs e j)
  | [], e, _, _, _, h => ⟨rfl, rfl, h.1⟩
  | x :: xs, e, j, hj1, hj, h => by
    unfold insertSingles
    by_cases h1 : x > pH <;> by_cases h2 : x < nL
    · simp only [h1, h2, ↓reduceIte]
      obtain ⟨k1, l1⟩ := insertRange_keeps0 e ⟨pre, x, x, w, false⟩ j hj1 hj h
      obtain ⟨k2, l2⟩ := insertRange_keeps0 _ ⟨pre, x, x, w, false⟩ (j + 1) (by omega) (by omega) (k1.inv h)
      exact (k1.trans k2).trans (insertSingles_keeps0 pre w pH nL xs _ (j + 1 + 1) (by omega) (by omega) (k2.inv (k1.inv h)))
    · simp only [h1, h2, ↓reduceIte]
      obtain ⟨k1, l1⟩ := insertRange_keeps0 e ⟨pre, x, x, w, false⟩ j hj1 hj h
      exact k1.trans (insertSingles_keeps0 pre w pH nL xs _ (j + 1) (by omega) (by omega) (k1.inv h))
    · simp only [h1, h2, ↓reduceIte]
      obtain ⟨k1, l1⟩ := insertRange_keeps0 e ⟨pre, x, x, w, false⟩ j hj1 hj h
      exact k1.trans (insertSingles_keeps0 pre w pH nL xs _ (j + 1) (by omega) (by omega) (k1.inv h))
    · simp only [h1, h2, ↓reduceIte]
      exact insertSingles_keeps0 pre w pH nL xs e j hj1 hj h

theorem setAt_length (e : EL) (i : Nat) (r : HRange) : (e.setAt i r).rs.length = e.rs.length := by
  unfold EL.setAt; simp

theorem coalesceAt_keeps0 (e : EL) (i : Nat) (e' : EL) (h : SortInv e) (hc : coalesceAt e i = .ok (some e')) :
    Keeps0 e e' := by
  unfold coalesceAt at hc
  cases h1 : e.rs[i - 1]? with
  | none => rw [h1] at hc; simp at hc
  | some a =>
    cases h2 : e.rs[i]? with
    | none => rw [h1, h2] at hc; simp at hc
    | some b =>
      rw [h1, h2] at hc
      simp only at hc
      by_cases hi0 : i = 0
      · simp [hi0] at hc
      rw [if_neg hi0] at hc
      have hilt : i < e.rs.length := (List.getElem?_eq_some_iff.mp h2).1
      cases hI : hostrangeIntersect a.r b.r with
      | mk res rest =>
        obtain ⟨a', b'⟩ := rest
        rw [hI] at hc
        cases res with
        | none => simp at hc
        | some nw =>
          simp only at hc
          split at hc
          · simp at hc
          · simp only [Except.ok.injEq, Option.some.injEq] at hc
            rw [← hc]
            have k1 := setAt_keeps0 e (i - 1) { a' with hi := nw.lo } h
            have k2 := setAt_keeps0 _ i { b' with lo := nw.hi, hi := if nw.hi < a'.hi then a'.hi else b'.hi } (k1.inv h)
            have k12 := k1.trans k2
            exact k12.trans (insertSingles_keeps0 _ _ _ _ _ _ i (by omega)
              (by rw [setAt_length, setAt_length]; omega) (k12.inv h))

theorem coalesceLoop_keeps0 : ∀ (f : Nat) (e : EL) (i : Nat) (e' : EL), SortInv e → coalesceLoop f e i = .ok e' →
    Keeps0 e e'
  | 0, _, _, _, _, h => by simp [coalesceLoop] at h
  | f + 1, e, i, e', hinv, h => by
    unfold coalesceLoop at h
    by_cases hi : i = 0
    · simp only [hi, ↓reduceIte, Except.ok.injEq] at h
      subst h
      exact ⟨rfl, rfl, hinv.1⟩
    · simp only [hi, ↓reduceIte] at h
      cases hc : coalesceAt e i with
      | error w => rw [hc] at h; simp at h
      | ok res =>
        rw [hc] at h
        cases res with
        | none => exact coalesceLoop_keeps0 f e (i - 1) e' hinv h
        | some e1 =>
          have k1 := coalesceAt_keeps0 e i e1 hinv hc
          exact k1.trans (coalesceLoop_keeps0 f e1 (e1.rs.length - 1) e' (k1.inv hinv) h)

theorem collapseLoop_keeps0 (cfg : Cfg) : ∀ (i : Nat) (e : EL), SortInv e → Keeps0 e (collapseLoop cfg i e)
  | 0, e, h => ⟨rfl, rfl, h.1⟩
  | i + 1, e, h => by
    unfold collapseLoop
    cases e.rs[i]? with
    | none => simp only; exact collapseLoop_keeps0 cfg i e h
    | some a =>
      cases e.rs[i + 1]? with
      | none => simp only; exact collapseLoop_keeps0 cfg i e h
      | some b =>
        simp only
        split
        · cases widthCombine a.r b.r with
          | mk ok rest =>
            obtain ⟨wa, wb⟩ := rest
            cases ok with
            | false => simp only; exact collapseLoop_keeps0 cfg i e h
            | true =>
              simp only
              have k1 := setAt_keeps0 e i { a.r with width := wa, hi := b.r.hi } h
              have k2 := deleteRange_keeps0 cfg _ (i + 1) (by omega) (k1.inv h)
              have k12 := k1.trans k2
              exact k12.trans (collapseLoop_keeps0 cfg i _ (k12.inv h))
        · exact collapseLoop_keeps0 cfg i e h

end PdshVerif.Hostlist
