/-
  C16, any number of live iterators: `hostlist_uniq` leaves an admissible list and EVERY iterator starts
  over (the loop over `hl->ilist` at its end).
-/
import PdshVerif.Hostlist.EditMultiKeyed

namespace PdshVerif.Hostlist
open PdshVerif.Gen

theorem all2_of_keys {β γ : Type} {R : Nat × β → Nat × γ → Prop} :
    ∀ (l : List (Nat × β)) (m : List (Nat × γ)), l.map (·.1) = m.map (·.1) → (∀ a ∈ l, ∀ b ∈ m, R a b) →
      All2 (fun a b => a.1 = b.1 ∧ R a b) l m
  | [], [], _, _ => .nil
  | [], _ :: _, h, _ => by simp at h
  | _ :: _, [], h, _ => by simp at h
  | a :: l, b :: m, h, hr => by
    simp only [List.map_cons, List.cons.injEq] at h
    exact .cons ⟨h.1, hr a (by simp) b (by simp)⟩
      (all2_of_keys l m h.2 fun a' ha b' hb => hr a' (by simp [ha]) b' (by simp [hb]))

/-- UNIQ with any number of live iterators: whatever list `hostlist_uniq` leaves, IF it is free of
    duplicates (F16-UNIQ is the case where it is not) it is an admissible result for the plain list and
    every iterator starts over at the first host -/
theorem uniq_refinesM (cfg : Cfg) (hfs : cfg.fixIterSuffix = true) (e : EL) (p : EditSpec.PL) (fr : Nat → Bool)
    (h : RefM cfg e p fr)
    (hb : cfg.fixCmpTrunc = true ∨ ∀ r ∈ e.ranges, r.lo < 2147483648) (hsm : e.hosts.length < 2147483648)
    (hreset : cfg.fixUniqReset = true ∨ 2 ≤ e.rs.length)
    (e' : EL) (hu : uniqE cfg e = some e') (hnd : e'.hosts.Nodup) :
    EditSpec.uniq p e'.hosts = some ⟨e'.hosts, p.cur.map fun (k, _) => (k, 0)⟩ ∧
      RefM cfg e' ⟨e'.hosts, p.cur.map fun (k, _) => (k, 0)⟩ (fun _ => false) := by
  have hbase := h.base
  have hgood : e.Good := hbase.good
  have hids : e.IdsOk := hbase.ids
  have hhosts : e.hosts = p.names := hbase.hosts
  obtain ⟨hmem, _⟩ := uniqE_names cfg e e' hgood.1 hb hu
  obtain ⟨hg', hid'⟩ := uniqE_keep cfg e e' hgood hids hb hsm hu
  have hkeys : e.its.map (·.1) = p.cur.map (·.1) := All2.keys (fun a b hab => hab.1) h.each
  refine ⟨?_, ?_⟩
  · unfold EditSpec.uniq
    have hok : EditSpec.uniqOk p e'.hosts = true := by
      unfold EditSpec.uniqOk
      simp only [Bool.and_eq_true, decide_eq_true_eq, List.all_eq_true]
      refine ⟨⟨hnd, fun x hx => ?_⟩, fun x hx => ?_⟩
      · rw [← hhosts]; exact (hmem x).mp hx
      · rw [← hhosts] at hx; exact (hmem x).mpr hx
    rw [hok]
    rfl
  · -- every iterator was reset
    have hits : e'.its.map (·.1) = e.its.map (·.1) ∧ ∀ a ∈ e'.its, a.2 = e'.resetIt := by
      unfold uniqE at hu
      have hlen : ¬ (e.rs.length ≤ 1 ∧ cfg.fixUniqReset = false) := by
        rintro ⟨h1, h2⟩
        rcases hreset with h3 | h3
        · rw [h3] at h2; simp at h2
        · omega
      simp only [hlen, ↓reduceIte] at hu
      cases hl : uniqLoop cfg (2 * e.rs.length + 2) { e with rs := sortRanges cfg e.rs } 1 with
      | none => simp [hl] at hu
      | some e1 =>
        simp only [hl, Option.some.injEq] at hu
        have hk1 := uniqLoop_keys cfg _ _ 1 e1 hl
        rw [← hu]
        refine ⟨?_, ?_⟩
        · have : e1.its.map (·.1) = e.its.map (·.1) := hk1
          rw [← this]
          simp only [List.map_map]
          apply List.map_congr_left
          intro q _
          rfl
        · intro a ha
          have ha' : a ∈ List.map (fun x => (x.fst, e1.resetIt)) e1.its := ha
          obtain ⟨q, _, hq⟩ := List.mem_map.mp ha'
          rw [← hq]
          rfl
    have hb' : Ref cfg (e'.withIts [(0, e'.resetIt)]) ⟨e'.hosts, [(0, 0)]⟩ 0 false := by
      refine ⟨hid', hg', fun _ _ => Or.inl hfs, rfl, rfl, Nat.zero_le _, 0, 0, ?_, ?_, by intro hf; simp at hf⟩
      · unfold Coh
        rfl
      · show remaining e'.ranges 0 0 = _
        rw [remaining_zero]
        rfl
    refine ⟨hb', by rw [hits.1]; exact h.keys, ?_⟩
    apply all2_of_keys
    · rw [hits.1, hkeys, List.map_map]
      apply List.map_congr_left
      intro ⟨k, c⟩ _
      rfl
    · intro a ha b hb2
      obtain ⟨q, _, hq⟩ := List.mem_map.mp hb2
      have hb0 : b.2 = 0 := by rw [← hq]
      rw [hits.2 a ha, hb0]
      exact hb'

end PdshVerif.Hostlist
