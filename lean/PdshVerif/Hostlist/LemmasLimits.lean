/-
  C15 at full strength for the REPAIRED parser (D15/D25 + D16 switches on): what
  `_parse_single_range` answers for EVERY item text, as one equation
  (`parseSingleRange_repaired`): `strtoul` saturation is part of the statement, so "however large
  the numbers typed" needs no side condition; the iff-characterisations of the three outcomes
  follow from it, and the same equation read against the independent reader of Spec.lean
  (`Spec.readItem`, `Spec.itemProblems`, `Spec.itemNote64`) is `item_refines_spec`.
-/
import PdshVerif.Hostlist.LemmasRepaired

namespace PdshVerif.Hostlist
open PdshVerif.Gen

/-- `strtoul` saturates: the value it returns for a typed number of ANY size -/
def clampU (n : Nat) : Nat := min n ULONG_MAX

theorem clampU_le (n : Nat) : clampU n ≤ ULONG_MAX := Nat.min_le_right _ _

theorem clampU_of_lt {n : Nat} (h : n < ULONG_MAX) : clampU n = n := by
  unfold clampU; omega

theorem clampU_eq_max_iff {n : Nat} : clampU n = ULONG_MAX ↔ ULONG_MAX ≤ n := by
  unfold clampU; omega

/-- `strtoul` of a non-empty digit string of ANY length: saturated value, everything consumed,
    ERANGE exactly when the typed number exceeds 2^64-1 -/
theorem strtoul_digits_full {s : Str} (hs : allDigits s) (hne : s ≠ []) :
    strtoul s = ⟨clampU (dval s), [], true, decide (dval s > ULONG_MAX)⟩ := by
  by_cases hv : dval s ≤ ULONG_MAX
  · rw [strtoul_digits hs hne hv]
    have h1 : clampU (dval s) = dval s := by unfold clampU; omega
    have h2 : decide (dval s > ULONG_MAX) = false := by simp; omega
    rw [h1, h2]
  · cases s with
    | nil => exact absurd rfl hne
    | cons c cs =>
      have hc := hs c (by simp)
      have hsp := isSpace_of_isDigit hc
      have hd := (isDigit_iff c).mp hc
      have hm : c ≠ '-' := by intro h; rw [h] at hd; simp at hd
      have hp : c ≠ '+' := by intro h; rw [h] at hd; simp at hd
      have e1 : (c :: cs).dropWhile isSpace = c :: cs := by simp [List.dropWhile, hsp]
      have h1 : clampU (dval (c :: cs)) = ULONG_MAX := by unfold clampU; omega
      have h2 : decide (dval (c :: cs) > ULONG_MAX) = true := by simp; omega
      rw [h1, h2]
      unfold strtoul
      rw [e1]
      split
      · rename_i t heq; simp at heq; exact absurd heq.1 hm
      · rename_i t heq; simp at heq; exact absurd heq.1 hp
      · unfold strtoulCore
        rw [takeWhile_allDigits hs, dropWhile_allDigits hs]
        simp only [List.isEmpty_cons, Bool.false_eq_true, ↓reduceIte]
        have : Nat.ofDigitChars 10 (c :: cs) 0 > ULONG_MAX := by unfold dval at hv; omega
        simp only [this, ↓reduceIte]

/-! ### the numbers an item names, AS TYPED (unbounded naturals) -/
/-- value of the text before the first `-` -/
def itemLo (s : Str) : Nat := dval (cutAt '-' s).1
/-- value of the text after the first `-` (the low value when there is no `-`) -/
def itemHi (s : Str) : Nat :=
  match (cutAt '-' s).2 with
  | some t => dval t
  | none => dval (cutAt '-' s).1
/-- number of characters of the low bound as typed -/
def itemWidth (s : Str) : Nat := (cutAt '-' s).1.length

/-- order test and size test of the repaired code, in exact arithmetic -/
theorem rangeCheck_repaired (cfg : Cfg) (h15 : cfg.fixUlongMax = true) (e w lo hi : Nat)
    (hlo : lo ≤ ULONG_MAX) (hhi : hi ≤ ULONG_MAX) :
    rangeCheck cfg e w lo hi =
      if hi < lo then .fail EINVAL .invalidRange
      else if hi = ULONG_MAX ∨ MAX_RANGE ≤ hi - lo then .fail ERANGE .tooMany
      else .ok ⟨lo, hi, w⟩ e := by
  have hum : ULONG_MAX = 18446744073709551615 := rfl
  have hu64 : U64 = 18446744073709551616 := rfl
  unfold rangeCheck
  by_cases h1 : hi < lo
  · simp [h1]
  · have h1' : ¬ lo > hi := h1
    simp only [h1', ↓reduceIte]
    by_cases h2 : hi = ULONG_MAX
    · simp [ulongMaxRejected, h15, h2]
    · have hbig : rangeTooBig lo hi = decide (MAX_RANGE ≤ hi - lo) := by
        unfold rangeTooBig
        rw [subU64_of_le (by omega) (by omega)]
        unfold addU64
        rw [Nat.mod_eq_of_lt (by omega)]
        simp only [gt_iff_lt, decide_eq_decide]
        omega
      simp only [hbig, ulongMaxRejected, h15, h2, decide_false, Bool.and_false, Bool.or_false,
        decide_eq_true_eq, false_or]

/-- THE REPAIRED `_parse_single_range` ON EVERY TEXT.  `numericItem s`: the item is `digits` or
    `digits-digits`.  The numbers are the ones TYPED (any number of digits); `clampU` is the
    saturation of `strtoul`. -/
theorem parseSingleRange_repaired (cfg : Cfg) (h15 : cfg.fixUlongMax = true)
    (h16 : cfg.fixDigits = true) (e : Nat) (s : Str) :
    parseSingleRange cfg e s =
      if numericItem s = false then .fail EINVAL .invalidRange
      else if clampU (itemHi s) < clampU (itemLo s) then .fail EINVAL .invalidRange
      else if ULONG_MAX ≤ itemHi s ∨ MAX_RANGE ≤ itemHi s - itemLo s then .fail ERANGE .tooMany
      else .ok ⟨itemLo s, itemHi s, itemWidth s⟩ e := by
  by_cases hn : numericItem s = false
  · rw [nonnumeric_fails cfg h16 e s hn]; simp [hn]
  · simp only [hn]
    have hn' : numericItem s = true := by simpa using hn
    unfold numericItem at hn'
    unfold itemLo itemHi itemWidth
    unfold parseSingleRange
    generalize cutAt '-' s = c at hn' ⊢
    obtain ⟨lo, p⟩ := c
    cases p with
    | none =>
      simp only [Bool.and_eq_true, Bool.not_eq_true', List.isEmpty_eq_false_iff,
        List.all_eq_true] at hn'
      obtain ⟨nlo, dlo⟩ := hn'
      have dlo' : allDigits lo := dlo
      have hs := strtoul_digits_full dlo' nlo
      simp only [Option.bind_none, boundsOk, loTextOk_digits cfg dlo', hiPartOf, hs]
      simp only [reduceCtorEq, ↓reduceIte, Bool.not_true, Bool.false_eq_true, List.isEmpty_nil]
      rw [rangeCheck_repaired cfg h15 _ _ _ _ (clampU_le _) (clampU_le _)]
      simp only [Nat.lt_irrefl, ↓reduceIte, clampU_eq_max_iff, Nat.sub_self]
      by_cases hb : ULONG_MAX ≤ dval lo
      · simp [hb]
      · have hlt : dval lo < ULONG_MAX := by omega
        have hng : ¬ dval lo > ULONG_MAX := by omega
        have hMR : ¬ MAX_RANGE ≤ 0 := by decide
        simp [hb, clampU_of_lt hlt, hng, hMR]
    | some hi =>
      simp only [Bool.and_eq_true, Bool.not_eq_true', List.isEmpty_eq_false_iff,
        List.all_eq_true] at hn'
      obtain ⟨⟨⟨nlo, dlo⟩, nhi⟩, dhi⟩ := hn'
      have dlo' : allDigits lo := dlo
      have dhi' : allDigits hi := dhi
      have hsl := strtoul_digits_full dlo' nlo
      have hsh := strtoul_digits_full dhi' nhi
      cases hi with
      | nil => exact absurd rfl nhi
      | cons c cs =>
        have hc : c ≠ '-' := fun e => allDigits_notin dhi' (x := '-') (by decide) (by simp [e])
        simp only [Option.bind_some, List.head?_cons, Option.some.injEq, hc, ↓reduceIte, boundsOk,
          loTextOk_digits cfg dlo', hiTextOk_digits cfg dhi' nhi, Bool.and_self, Bool.not_true,
          Bool.false_eq_true, hiPartOf, hsl, hsh, List.isEmpty_nil, Bool.or_self]
        rw [rangeCheck_repaired cfg h15 _ _ _ _ (clampU_le _) (clampU_le _)]
        by_cases hr : clampU (dval (c :: cs)) < clampU (dval lo)
        · simp [hr]
        · simp only [hr, ↓reduceIte, clampU_eq_max_iff]
          by_cases hb : ULONG_MAX ≤ dval (c :: cs)
          · simp [hb]
          · have hlt : dval (c :: cs) < ULONG_MAX := by omega
            rw [clampU_of_lt hlt] at hr ⊢
            have hlo : dval lo < ULONG_MAX := by
              unfold clampU at hr; omega
            rw [clampU_of_lt hlo]
            have g1 : ¬ dval (c :: cs) > ULONG_MAX := by omega
            have g2 : ¬ dval lo > ULONG_MAX := by omega
            simp [hb, g1, g2]

/-! ### iff-characterisations of the three outcomes (repaired variant, every text) -/

/-- ACCEPTED exactly when: two (or one) non-empty digit strings, ordered, high bound below
    2^64-1, fewer than MAX_RANGE apart — and then the record holds the typed numbers and the
    width of the low bound as typed, and `errno` is left alone -/
theorem item_ok_iff (cfg : Cfg) (h15 : cfg.fixUlongMax = true) (h16 : cfg.fixDigits = true)
    (e : Nat) (s : Str) (r : SR) (e' : Nat) :
    parseSingleRange cfg e s = .ok r e' ↔
      numericItem s = true ∧ itemLo s ≤ itemHi s ∧ itemHi s < ULONG_MAX ∧
        itemHi s - itemLo s < MAX_RANGE ∧ r = ⟨itemLo s, itemHi s, itemWidth s⟩ ∧ e' = e := by
  rw [parseSingleRange_repaired cfg h15 h16]
  split
  · rename_i hn
    constructor
    · intro h; cases h
    · rintro ⟨h, _⟩; rw [h] at hn; cases hn
  · rename_i hn
    have hn' : numericItem s = true := by simpa using hn
    split
    · rename_i hr
      constructor
      · intro h; cases h
      · rintro ⟨_, h1, h2, _⟩; unfold clampU at hr; omega
    · rename_i hr
      split
      · rename_i hb
        constructor
        · intro h; cases h
        · rintro ⟨_, h1, h2, h3, _⟩; omega
      · rename_i hb
        have : itemLo s ≤ itemHi s := by unfold clampU at hr; omega
        constructor
        · intro h
          injection h with h1 h2
          exact ⟨hn', this, by omega, by omega, h1.symm, h2.symm⟩
        · rintro ⟨_, _, _, _, rfl, rfl⟩; rfl

/-- REFUSED AS TOO LARGE (ERANGE, "Too many hosts") exactly when: digit strings, not reversed
    after saturation, and the typed range reaches 2^64-1 or spans MAX_RANGE or more — for numbers
    of ANY number of digits -/
theorem item_too_many_iff (cfg : Cfg) (h15 : cfg.fixUlongMax = true) (h16 : cfg.fixDigits = true)
    (e : Nat) (s : Str) :
    parseSingleRange cfg e s = .fail ERANGE .tooMany ↔
      numericItem s = true ∧ clampU (itemLo s) ≤ clampU (itemHi s) ∧
        (ULONG_MAX ≤ itemHi s ∨ MAX_RANGE ≤ itemHi s - itemLo s) := by
  rw [parseSingleRange_repaired cfg h15 h16]
  split
  · rename_i hn
    constructor
    · intro h; injection h with h1 h2; cases h2
    · rintro ⟨h, _⟩; rw [h] at hn; cases hn
  · rename_i hn
    have hn' : numericItem s = true := by simpa using hn
    split
    · rename_i hr
      constructor
      · intro h; injection h with h1 h2; cases h2
      · rintro ⟨_, h1, _⟩; omega
    · rename_i hr
      split
      · rename_i hb
        constructor
        · intro _; exact ⟨hn', by omega, hb⟩
        · intro _; rfl
      · rename_i hb
        constructor
        · intro h; cases h
        · rintro ⟨_, _, h⟩; exact absurd h hb

/-- REFUSED AS INVALID (EINVAL, "Invalid range") exactly when: not `digits` / `digits-digits`, or
    reversed (after saturation) -/
theorem item_invalid_iff (cfg : Cfg) (h15 : cfg.fixUlongMax = true) (h16 : cfg.fixDigits = true)
    (e : Nat) (s : Str) :
    parseSingleRange cfg e s = .fail EINVAL .invalidRange ↔
      numericItem s = false ∨ clampU (itemHi s) < clampU (itemLo s) := by
  rw [parseSingleRange_repaired cfg h15 h16]
  split
  · rename_i hn
    exact ⟨fun _ => Or.inl hn, fun _ => rfl⟩
  · rename_i hn
    split
    · rename_i hr
      exact ⟨fun _ => Or.inr hr, fun _ => rfl⟩
    · rename_i hr
      split
      · constructor
        · intro h; injection h with h1 h2; cases h2
        · rintro (h | h)
          · exact absurd h hn
          · exact absurd h hr
      · constructor
        · intro h; cases h
        · rintro (h | h)
          · exact absurd h hn
          · exact absurd h hr

/-- "however large the numbers typed": a numeric range, ordered as typed, that spans MAX_RANGE or
    more is refused with the too-many-hosts outcome — no bound on the number of digits, no
    exception for 0 as low bound -/
theorem too_many_however_large (cfg : Cfg) (h15 : cfg.fixUlongMax = true) (h16 : cfg.fixDigits = true)
    (e : Nat) (s : Str) (hn : numericItem s = true) (hle : itemLo s ≤ itemHi s)
    (hsz : MAX_RANGE ≤ itemHi s - itemLo s) :
    parseSingleRange cfg e s = .fail ERANGE .tooMany := by
  rw [item_too_many_iff cfg h15 h16]
  refine ⟨hn, ?_, Or.inr hsz⟩
  unfold clampU; omega

/-- a numeric range reversed as typed is never accepted, however large its numbers -/
theorem reversed_fails (cfg : Cfg) (h15 : cfg.fixUlongMax = true) (h16 : cfg.fixDigits = true)
    (e : Nat) (s : Str) (hrev : itemHi s < itemLo s) :
    ∃ e' f, parseSingleRange cfg e s = .fail e' f := by
  cases hp : parseSingleRange cfg e s with
  | fail e' f => exact ⟨e', f, rfl⟩
  | ok r e' =>
    have := (item_ok_iff cfg h15 h16 e s r e').mp hp
    omega

/-! ### the same equation against the independent reader of Spec.lean -/

theorem cutAt_takeDrop : ∀ (s : Str),
    cutAt '-' s = (s.takeWhile (· ≠ '-'),
      match s.dropWhile (· ≠ '-') with | [] => none | _ :: t => some t)
  | [] => rfl
  | x :: xs => by
    by_cases hx : x = '-'
    · simp [cutAt, hx, List.takeWhile, List.dropWhile]
    · have ih := cutAt_takeDrop xs
      simp only [cutAt, hx, ↓reduceIte, ih, List.takeWhile, List.dropWhile, ne_eq, not_false_eq_true,
        decide_true]

theorem spec_digits_eq (t : Str) : Spec.digits t = (!t.isEmpty && t.all isDigit) := rfl

/-- `Spec.readItem` (written without the model) in the vocabulary of this file -/
theorem readItem_eq (s : Str) :
    Spec.readItem s =
      if numericItem s = false then .error .nonnumeric
      else if itemHi s < itemLo s then .error .reversed
      else .ok (itemLo s, itemHi s, itemWidth s) := by
  unfold Spec.readItem numericItem itemLo itemHi itemWidth
  rw [cutAt_takeDrop s]
  simp only [spec_digits_eq, Spec.val]
  generalize s.takeWhile (· ≠ '-') = a
  cases hd : s.dropWhile (· ≠ '-') with
  | nil =>
    simp only
    by_cases h : (!a.isEmpty && a.all isDigit) = true
    · simp [h, dval]
    · simp [h]
  | cons c t =>
    simp only
    by_cases h1 : (!a.isEmpty && a.all isDigit) = true
    · by_cases h2 : (!t.isEmpty && t.all isDigit) = true
      · have : (!a.isEmpty && a.all isDigit && !t.isEmpty && t.all isDigit) = true := by
          rw [Bool.and_assoc, h1, h2]; rfl
        simp only [Bool.and_eq_true] at h2
        simp [h1, h2.1, h2.2, dval]
        try (first | rfl | exact if_congr Iff.rfl rfl rfl)
      · have : (!a.isEmpty && a.all isDigit && !t.isEmpty && t.all isDigit) = false := by
          rw [Bool.and_assoc, h1]; simpa using h2
        simp [h2, this]
    · have : (!a.isEmpty && a.all isDigit && !t.isEmpty && t.all isDigit) = false := by
        rw [Bool.and_assoc]
        have : (!a.isEmpty && a.all isDigit) = false := by simpa using h1
        rw [this]; rfl
      simp [h1]

theorem itemProblems_eq (s : Str) :
    Spec.itemProblems s =
      if numericItem s = false then [.nonnumeric]
      else if itemHi s < itemLo s then [.reversed]
      else if MAX_RANGE ≤ itemHi s - itemLo s then [.tooMany] else [] := by
  have hRL : Spec.RANGE_LIMIT = MAX_RANGE := by decide
  unfold Spec.itemProblems
  rw [readItem_eq s]
  by_cases hn : numericItem s = false
  · simp [hn]
  · have hn' : numericItem s = true := by simpa using hn
    by_cases hr : itemHi s < itemLo s
    · simp [hn', hr]
    · by_cases hb : MAX_RANGE ≤ itemHi s - itemLo s
      · have : MAX_RANGE < itemHi s - itemLo s + 1 := by omega
        simp [hn', hr, hRL, hb, this]
      · have : ¬ MAX_RANGE < itemHi s - itemLo s + 1 := by omega
        simp [hn', hr, hRL, hb, this]

theorem itemNote64_eq (s : Str) :
    Spec.itemNote64 s = true ↔
      numericItem s = true ∧ itemLo s ≤ itemHi s ∧ itemHi s - itemLo s < MAX_RANGE ∧
        ULONG_MAX ≤ itemHi s := by
  have hRL : Spec.RANGE_LIMIT = MAX_RANGE := by decide
  have hM : (2 : Nat) ^ 64 = ULONG_MAX + 1 := by decide
  unfold Spec.itemNote64
  rw [readItem_eq s]
  by_cases hn : numericItem s = false
  · simp [hn]
  · have hn' : numericItem s = true := by simpa using hn
    by_cases hr : itemHi s < itemLo s
    · simp only [hn', hr, ↓reduceIte, Bool.true_eq_false, Bool.false_eq_true, false_iff, true_and]
      omega
    · simp only [hn', hr, ↓reduceIte, Bool.true_eq_false, hRL, hM, Bool.and_eq_true,
        decide_eq_true_eq, true_and]
      omega

/-- ITEM LEVEL REFINEMENT OF THE INDEPENDENT SPEC (repaired variant, EVERY item text):
    * whatever problem the spec's reader names (non-numeric, reversed, too many) — the item fails;
    * named `tooMany` — it fails with ERANGE and the too-many-hosts diagnostic;
    * no problem and every bound below 2^64-1 — accepted with exactly the numbers and width the
      spec reads;
    * no problem but a bound at or beyond 2^64-1 (where the property text is silent) — refused as
      too many, never clamped or wrapped into some other range. -/
theorem item_refines_spec (cfg : Cfg) (h15 : cfg.fixUlongMax = true) (h16 : cfg.fixDigits = true)
    (e : Nat) (s : Str) :
    (Spec.itemProblems s ≠ [] → ∃ e' f, parseSingleRange cfg e s = .fail e' f) ∧
    (Spec.itemProblems s = [.tooMany] → parseSingleRange cfg e s = .fail ERANGE .tooMany) ∧
    (Spec.itemProblems s = [] → Spec.itemNote64 s = false →
      ∃ lo hi w, Spec.readItem s = .ok (lo, hi, w) ∧ parseSingleRange cfg e s = .ok ⟨lo, hi, w⟩ e) ∧
    (Spec.itemProblems s = [] → Spec.itemNote64 s = true →
      parseSingleRange cfg e s = .fail ERANGE .tooMany) := by
  -- the spec's verdict in this file's vocabulary
  have hp := itemProblems_eq s
  have noProblem : Spec.itemProblems s = [] →
      numericItem s = true ∧ itemLo s ≤ itemHi s ∧ itemHi s - itemLo s < MAX_RANGE := by
    intro h0
    rw [hp] at h0
    split at h0
    · cases h0
    · rename_i hn
      split at h0
      · cases h0
      · split at h0
        · cases h0
        · exact ⟨by simpa using hn, by omega, by omega⟩
  refine ⟨?_, ?_, ?_, ?_⟩
  · intro hne
    cases hq : parseSingleRange cfg e s with
    | fail e' f => exact ⟨e', f, rfl⟩
    | ok r e' =>
      obtain ⟨h1, h2, h3, h4, _⟩ := (item_ok_iff cfg h15 h16 e s r e').mp hq
      exfalso; apply hne
      rw [hp]
      have : ¬ itemHi s < itemLo s := by omega
      have h4' : ¬ MAX_RANGE ≤ itemHi s - itemLo s := by omega
      simp [h1, this, h4']
  · intro h0
    rw [hp] at h0
    split at h0
    · cases h0
    · rename_i hn
      split at h0
      · cases h0
      · rename_i hr
        split at h0
        · rename_i hb
          exact too_many_however_large cfg h15 h16 e s (by simpa using hn) (by omega) hb
        · cases h0
  · intro h0 h64
    obtain ⟨h1, h2, h3⟩ := noProblem h0
    have hlt : itemHi s < ULONG_MAX := by
      apply Classical.byContradiction
      intro hc
      have := (itemNote64_eq s).mpr ⟨h1, h2, h3, by omega⟩
      rw [this] at h64; cases h64
    refine ⟨itemLo s, itemHi s, itemWidth s, ?_, ?_⟩
    · rw [readItem_eq s]
      have : ¬ itemHi s < itemLo s := by omega
      simp [h1, this]
    · exact (item_ok_iff cfg h15 h16 e s _ e).mpr ⟨h1, h2, hlt, h3, rfl, rfl⟩
  · intro h0 h64
    obtain ⟨h1, h2, h3, h4⟩ := (itemNote64_eq s).mp h64
    rw [item_too_many_iff cfg h15 h16]
    refine ⟨h1, ?_, Or.inl h4⟩
    unfold clampU; omega

end PdshVerif.Hostlist
