/-
  Lemmas about `strtoul`, `_parse_single_range`, `_parse_range_list` (used by C15 and by the
  token-level theorem of C01).
-/
import PdshVerif.Hostlist.Lemmas
import PdshVerif.Hostlist.Parse

namespace PdshVerif.Hostlist
open PdshVerif.Gen

theorem strtoulCore_val_le (o : Str) (neg : Bool) (s : Str) : (strtoulCore o neg s).val ≤ ULONG_MAX := by
  have hu : ULONG_MAX + 1 = U64 := by decide
  unfold strtoulCore
  split
  · simp [ULONG_MAX]
  · split
    · exact Nat.le_refl _
    · split
      · have : (U64 - Nat.ofDigitChars 10 (List.takeWhile isDigit s) 0) % U64 < U64 :=
          Nat.mod_lt _ (by decide)
        simp only
        omega
      · simp only
        omega

theorem strtoul_val_le (s : Str) : (strtoul s).val ≤ ULONG_MAX := by
  unfold strtoul
  split <;> exact strtoulCore_val_le _ _ _

theorem hiPartOf_val_le {p : Option Str} {r : Strtoul} (h : hiPartOf p = some r) : r.val ≤ ULONG_MAX := by
  cases p with
  | none => simp [hiPartOf] at h
  | some t =>
    cases t with
    | nil => simp [hiPartOf] at h
    | cons c t =>
      simp only [hiPartOf, Option.some.injEq] at h
      rw [← h]; exact strtoul_val_le _

theorem rangeCheck_ok {cfg : Cfg} {e w lo hi e' : Nat} {r : SR} (h : rangeCheck cfg e w lo hi = .ok r e') :
    r = ⟨lo, hi, w⟩ ∧ e' = e ∧ lo ≤ hi ∧ rangeTooBig lo hi = false ∧ ulongMaxRejected cfg hi = false := by
  unfold rangeCheck at h
  split at h
  · simp at h
  · split at h
    · simp at h
    · rename_i h1 h2
      simp only [PR.ok.injEq] at h
      simp only [Bool.or_eq_true, not_or, Bool.not_eq_true] at h2
      exact ⟨h.1.symm, h.2.symm, by omega, h2.1, h2.2⟩

/-- what an accepted range item looks like, whatever its text was: bounds fit `unsigned long`,
    are ordered, the C size test passed, the width is the length of the text before `-`, and in
    the repaired variant the high bound is not 2^64-1 -/
theorem parseSingleRange_ok {cfg : Cfg} {e e' : Nat} {s : Str} {r : SR}
    (h : parseSingleRange cfg e s = .ok r e') :
    r.lo ≤ r.hi ∧ r.hi ≤ ULONG_MAX ∧ rangeTooBig r.lo r.hi = false ∧
      r.width = (cutAt '-' s).1.length ∧ ulongMaxRejected cfg r.hi = false := by
  unfold parseSingleRange at h
  generalize cutAt '-' s = c at h ⊢
  obtain ⟨str, p⟩ := c
  simp only at h
  split at h
  · simp at h
  · split at h
    · simp at h
    · split at h
      · simp at h
      · split at h
        · rename_i r' hp
          split at h
          · simp at h
          · obtain ⟨hr, _, hle, hbig, hmx⟩ := rangeCheck_ok h
            subst hr
            exact ⟨hle, hiPartOf_val_le hp, hbig, rfl, hmx⟩
        · split at h
          · simp at h
          · obtain ⟨hr, _, hle, hbig, hmx⟩ := rangeCheck_ok h
            subst hr
            exact ⟨hle, strtoul_val_le _, hbig, rfl, hmx⟩

/-- the size test in exact arithmetic: either the range is within the limit, or it is the one
    range whose size wraps to 0 -/
theorem rangeTooBig_false {lo hi : Nat} (hle : lo ≤ hi) (hhi : hi ≤ ULONG_MAX)
    (h : rangeTooBig lo hi = false) : hi - lo + 1 ≤ MAX_RANGE ∨ (lo = 0 ∧ hi = ULONG_MAX) := by
  unfold rangeTooBig at h
  have hu : ULONG_MAX + 1 = U64 := by decide
  rw [subU64_of_le hle (by omega)] at h
  unfold addU64 at h
  by_cases hw : hi - lo + 1 < U64
  · rw [Nat.mod_eq_of_lt hw] at h
    left; simpa using h
  · right; omega

/-- the repaired test (`hi - lo >= MAX_RANGE`) has no such exception -/
theorem rangeTooBigFixed_false {lo hi : Nat} (hle : lo ≤ hi) (hhi : hi ≤ ULONG_MAX)
    (h : rangeTooBigFixed lo hi = false) : hi - lo + 1 ≤ MAX_RANGE := by
  unfold rangeTooBigFixed at h
  have hu : ULONG_MAX + 1 = U64 := by decide
  rw [subU64_of_le hle (by omega)] at h
  simp at h
  omega

end PdshVerif.Hostlist
