/-
  Helper lemmas for C14, part 3: `hostrange_numstr`, `_get_bracketed_list`,
  `hostlist_ranged_string` against the compressed text the model itself defines
  (`rangedTextM`, which keeps the one quirk of the C code: no comma is written while nothing has
  been printed yet); PrintGroups.lean identifies it with `PrintSpec.rangedTextL`.
-/
import PdshVerif.Hostlist.PrintDeranged

namespace PdshVerif.Hostlist.Print
open PdshVerif.Hostlist

theorem snprintfAt_nul (b : Buf) (p m : Nat) (t : Str) (hm : 1 ≤ m) :
    (snprintfAt b p m t).1.mem (p + min t.length (m - 1)) = some NUL := by
  unfold snprintfAt
  have : ¬ m = 0 := by omega
  simp only [this, ↓reduceIte, mem_put]

/-! ### `hostrange_numstr` -/
/-- what `hostrange_numstr` prints for a record -/
def numText (r : HRange) : Str := if r.single then [] else PrintSpec.item r

/-- `snprintfAt` as a pair with a named buffer -/
theorem snprintfAt_cases (b : Buf) (p m N : Nat) (t : Str) (hm : m = N - p) :
    ∃ b1, snprintfAt b p m t = (b1, t.length) ∧ Wrote b b1 p N t :=
  ⟨_, snprintfAt_eq b p m t, snprintfAt_wrote b p m N t hm⟩

theorem hostrangeNumstr_spec (b : Buf) (p m N : Nat) (r : HRange) (hm : m = N - p) :
    ∃ b1 k, hostrangeNumstr b p m r = (b1, k) ∧ Wrote b b1 p N (numText r) ∧
      k ≤ (numText r).length ∧ (k < m → k = (numText r).length) := by
  unfold hostrangeNumstr numText
  by_cases hs : r.single = true
  · simp only [hs, Bool.true_or, ↓reduceIte]
    exact ⟨b, 0, rfl, Wrote.refl _ _ _, by simp, fun _ => by simp⟩
  · have hs' : r.single = false := by simpa using hs
    by_cases hm0 : m = 0
    · simp only [hs', hm0, Bool.false_or, decide_true, ↓reduceIte, Bool.false_eq_true]
      exact ⟨b, 0, rfl, Wrote.of_empty_window b _ (by omega), Nat.zero_le _, fun h => by omega⟩
    · have hd : (decide (m = 0)) = false := by simpa using hm0
      simp only [hs', hd, Bool.or_self, Bool.false_eq_true, ↓reduceIte, PrintSpec.item]
      obtain ⟨b1, e1, h1⟩ := snprintfAt_cases b p m N (fmtPad r.width r.lo) hm
      rw [e1]
      by_cases hc : (fmtPad r.width r.lo).length < m ∧ r.lo < r.hi
      · have hcb : (decide ((fmtPad r.width r.lo).length < m) && decide (r.lo < r.hi)) = true := by simpa using hc
        obtain ⟨b2, e2, h2⟩ := snprintfAt_cases b1 (p + (fmtPad r.width r.lo).length)
          (m - (fmtPad r.width r.lo).length) N ('-' :: fmtPad r.width r.hi) (by omega)
        rw [if_pos hcb]
        simp only [hc.2, ↓reduceIte, e2]
        exact ⟨b2, _, rfl, h1.trans h2, by simp, fun _ => by simp⟩
      · have hcb : (decide ((fmtPad r.width r.lo).length < m) && decide (r.lo < r.hi)) = false := by
          simpa using hc
        simp only [hcb, Bool.false_eq_true, ↓reduceIte]
        refine ⟨b1, _, rfl, ?_⟩
        by_cases hlt : r.lo < r.hi
        · have hge : m ≤ (fmtPad r.width r.lo).length := by
            rcases Nat.lt_or_ge (fmtPad r.width r.lo).length m with h | h
            · exact absurd ⟨h, hlt⟩ hc
            · exact h
          simp only [hlt, ↓reduceIte, List.length_append, List.length_cons]
          exact ⟨h1.full _ (by omega), by omega, fun h => by omega⟩
        · simp only [hlt, ↓reduceIte, List.append_nil]
          exact ⟨h1, Nat.le_refl _, by simp⟩

/-! ### the bracket loop -/
/-- the records `_get_bracketed_list` prints in one call: `cur` and its successors as long as each
    is `hostrange_within_range` of its predecessor -/
def loopRun (cur : HRange) : List HRange → List HRange
  | [] => [cur]
  | r' :: rest' => if withinRange r' cur then cur :: loopRun r' rest' else [cur]

/-- the records left for the next call -/
def loopRem (cur : HRange) : List HRange → List HRange
  | [] => []
  | r' :: rest' => if withinRange r' cur then loopRem r' rest' else r' :: rest'

/-- what the loop prints: every number text, followed by a comma when inside brackets -/
def loopText (bn : Bool) (run : List HRange) : Str :=
  run.flatMap fun r => numText r ++ (if bn then [','] else [])

theorem loopRem_length_le : ∀ (rest : List HRange) (cur : HRange), (loopRem cur rest).length ≤ rest.length
  | [], _ => by simp [loopRem]
  | r' :: rest', cur => by
    simp only [loopRem]
    split
    · have := loopRem_length_le rest' r'
      simp only [List.length_cons]; omega
    · exact Nat.le_refl _

/-- the do-while loop of `_get_bracketed_list` -/
theorem bracketLoop_spec (bn : Bool) (off n : Nat) : ∀ (rest : List HRange) (cur : HRange) (b : Buf) (len : Nat),
    len ≤ n →
    ∃ b' len' rem, bracketLoop bn off n cur rest b len = (b', len', rem) ∧
    Wrote b b' (off + len) (off + n) (loopText bn (loopRun cur rest)) ∧
    (len + (loopText bn (loopRun cur rest)).length < n + (if bn then 1 else 0) →
      len' = len + (loopText bn (loopRun cur rest)).length ∧ rem = loopRem cur rest) ∧
    (n + (if bn then 1 else 0) ≤ len + (loopText bn (loopRun cur rest)).length → n ≤ len') := by
  intro rest
  induction rest with
  | nil =>
    intro cur b len hlen
    obtain ⟨b1, k, e, w1, w2, w3⟩ := hostrangeNumstr_spec b (off + len) (n - len) (off + n) cur (by omega)
    rw [bracketLoop, guardSub_le hlen, e]
    simp only [loopRun, loopRem, loopText, List.flatMap_cons, List.flatMap_nil, List.append_nil,
      List.length_append]
    by_cases hc : len + k ≥ n
    · simp only [hc, ↓reduceIte]
      refine ⟨_, _, _, rfl, w1.full _ (by omega), fun h => ?_, fun _ => hc⟩
      cases bn <;> simp at h <;> omega
    · simp only [hc, ↓reduceIte]
      have hk := w3 (by omega)
      subst hk
      cases bn
      · simp only [Bool.false_eq_true, ↓reduceIte, List.append_nil, List.length_nil, Nat.add_zero]
        exact ⟨_, _, _, rfl, w1, fun _ => ⟨rfl, rfl⟩, fun h => by omega⟩
      · simp only [↓reduceIte, List.length_cons, List.length_nil]
        exact ⟨_, _, _, rfl, w1.put_end ',' (by omega), fun _ => ⟨by omega, rfl⟩, fun h => by omega⟩
  | cons r' rest' ih =>
    intro cur b len hlen
    obtain ⟨b1, k, e, w1, w2, w3⟩ := hostrangeNumstr_spec b (off + len) (n - len) (off + n) cur (by omega)
    rw [bracketLoop, guardSub_le hlen, e]
    by_cases hc : len + k ≥ n
    · simp only [hc, ↓reduceIte]
      have hT : ∃ rest2, loopText bn (loopRun cur (r' :: rest')) =
          numText cur ++ ((if bn then [','] else []) ++ rest2) := by
        simp only [loopRun]; split <;> simp [loopText]
      obtain ⟨rest2, hT⟩ := hT
      rw [hT]
      refine ⟨_, _, _, rfl, w1.full _ (by omega), fun h => ?_, fun _ => hc⟩
      simp only [List.length_append] at h
      cases bn <;> simp at h <;> omega
    · simp only [hc, ↓reduceIte]
      have hk := w3 (by omega)
      subst hk
      by_cases hw : withinRange r' cur = true
      · -- the loop goes on with r'
        have hrun : loopText bn (loopRun cur (r' :: rest')) =
            (numText cur ++ (if bn then [','] else [])) ++ loopText bn (loopRun r' rest') := by
          simp [loopRun, hw, loopText]
        have hrem : loopRem cur (r' :: rest') = loopRem r' rest' := by simp [loopRem, hw]
        rw [hrun, hrem]
        cases bn
        · simp only [Bool.false_eq_true, ↓reduceIte, hw, List.append_nil, List.length_append, Nat.add_zero]
          obtain ⟨b', len', rem, e2, i1, i2, i3⟩ := ih r' b1 (len + (numText cur).length) (by omega)
          simp only [Bool.false_eq_true, ↓reduceIte, Nat.add_zero] at i2 i3
          rw [e2]
          refine ⟨_, _, _, rfl, w1.trans (by rw [Nat.add_assoc]; exact i1), fun h => ?_, fun h => ?_⟩
          · obtain ⟨a1, a2⟩ := i2 (by omega)
            exact ⟨by omega, a2⟩
          · exact i3 (by omega)
        · simp only [↓reduceIte, hw, List.length_append, List.length_cons, List.length_nil]
          obtain ⟨b', len', rem, e2, i1, i2, i3⟩ := ih r' (b1.put (off + len + (numText cur).length) ',')
            (len + (numText cur).length + 1) (by omega)
          simp only [↓reduceIte] at i2 i3
          rw [e2]
          have h1 := w1.put_end ',' (by omega)
          have e3 : off + len + (numText cur ++ [',']).length = off + (len + (numText cur).length + 1) := by
            simp only [List.length_append, List.length_cons, List.length_nil]; omega
          refine ⟨_, _, _, rfl, h1.trans (by rw [e3]; exact i1), fun h => ?_, fun h => ?_⟩
          · obtain ⟨a1, a2⟩ := i2 (by omega)
            exact ⟨by omega, a2⟩
          · exact i3 (by omega)
      · -- the next record starts a new group
        have hw' : withinRange r' cur = false := by simpa using hw
        have hrun : loopText bn (loopRun cur (r' :: rest')) = numText cur ++ (if bn then [','] else []) := by
          simp [loopRun, hw', loopText]
        have hrem : loopRem cur (r' :: rest') = r' :: rest' := by simp [loopRem, hw']
        rw [hrun, hrem]
        cases bn
        · simp only [Bool.false_eq_true, ↓reduceIte, hw', List.append_nil, Nat.add_zero]
          exact ⟨_, _, _, rfl, w1, fun _ => ⟨rfl, rfl⟩, fun h => by omega⟩
        · simp only [↓reduceIte, hw', Bool.false_eq_true, List.length_append, List.length_cons, List.length_nil]
          exact ⟨_, _, _, rfl, w1.put_end ',' (by omega), fun _ => ⟨by omega, rfl⟩, fun h => by omega⟩

/-! ### `_get_bracketed_list` -/
theorem loopRun_ne_nil (cur : HRange) (rest : List HRange) : loopRun cur rest ≠ [] := by
  cases rest with
  | nil => simp [loopRun]
  | cons r' rest' => simp only [loopRun]; split <;> simp

theorem loopText_true_eq (run : List HRange) : loopText true run = commaAll (run.map numText) := by
  simp [loopText, commaAll, List.flatMap_map]

/-- inside brackets the loop's text ends in the comma that becomes `]` -/
theorem loopText_true_dropLast {run : List HRange} (h : run ≠ []) :
    loopText true run = (loopText true run).dropLast ++ [','] := by
  rw [loopText_true_eq, commaAll_eq_joinComma _ (by simpa using h), List.dropLast_concat]

/-- the text `_get_bracketed_list` prints for the group that starts at `cur` -/
def groupTextM (cur : HRange) (rest : List HRange) : Str :=
  if isBracketNeeded cur rest.head? then
    cur.pre ++ '[' :: (loopText true (loopRun cur rest)).dropLast ++ [']']
  else cur.pre ++ loopText false (loopRun cur rest)

theorem getBracketedList_spec (b : Buf) (off n : Nat) (cur : HRange) (rest : List HRange) (hn : 1 ≤ n) :
    ∃ b' k rem, getBracketedList b off n cur rest = (b', k, rem) ∧
      Wrote b b' off (off + n) (groupTextM cur rest) ∧
      ((groupTextM cur rest).length < n →
        k = (groupTextM cur rest).length ∧ rem = loopRem cur rest ∧
          b'.mem (off + (groupTextM cur rest).length) = some NUL) ∧
      (n ≤ (groupTextM cur rest).length → n ≤ k ∧ b'.mem (off + n - 1) = some NUL) := by
  simp only [getBracketedList, groupTextM]
  generalize isBracketNeeded cur rest.head? = bn
  obtain ⟨b1, e1, h1⟩ := snprintfAt_cases b off n (off + n) cur.pre (by omega)
  have hnul1 := snprintfAt_nul b off n cur.pre hn
  rw [e1] at hnul1
  simp only at hnul1
  rw [e1]
  simp only
  by_cases hgt : cur.pre.length > n
  · -- "truncated, buffer filled"
    simp only [hgt, ↓reduceIte]
    have hmin : off + min cur.pre.length (n - 1) = off + n - 1 := by omega
    rw [hmin] at hnul1
    refine ⟨_, _, _, rfl, ?_, fun h => ?_, fun _ => ⟨Nat.le_refl _, hnul1⟩⟩
    · cases bn
      · simp only [Bool.false_eq_true, ↓reduceIte]; exact h1.full _ (by omega)
      · simp only [↓reduceIte, List.append_assoc]; exact h1.full _ (by omega)
    · exfalso
      cases bn <;> simp at h <;> omega
  · simp only [hgt, ↓reduceIte]
    have hle : cur.pre.length ≤ n := by omega
    cases bn
    · -- no brackets
      simp only [Bool.false_and, Bool.false_eq_true, ↓reduceIte]
      obtain ⟨b3, len3, rem, e3, l1, l2, l3⟩ := bracketLoop_spec false off n rest cur b1 cur.pre.length hle
      simp only [Bool.false_eq_true, ↓reduceIte, Nat.add_zero] at l2 l3
      rw [e3]
      simp only [List.length_append]
      have hW := h1.trans l1
      by_cases hfit : cur.pre.length + (loopText false (loopRun cur rest)).length < n
      · obtain ⟨a1, a2⟩ := l2 hfit
        subst a1
        have hn3 : ¬ (cur.pre.length + (loopText false (loopRun cur rest)).length ≥ n) := by omega
        simp only [hn3, ↓reduceIte]
        refine ⟨_, _, _, rfl, ?_, fun _ => ⟨rfl, a2, mem_put_self _ _ _⟩, fun h => by
          simp only at h <;> omega⟩
        exact hW.put_after (off + (cur.pre.length + (loopText false (loopRun cur rest)).length)) NUL
          (by simp only [List.length_append]; omega) (by omega)
      · have hge := l3 (by omega)
        have hn3 : len3 ≥ n := hge
        have hpos : n > 0 := by omega
        simp only [hn3, ↓reduceIte, hpos]
        exact ⟨_, _, _, rfl, hW.put_last NUL (by omega), fun h => by omega, fun _ => ⟨hge, mem_put_self _ _ _⟩⟩
    · -- brackets
      have hrun := loopRun_ne_nil cur rest
      have hT := loopText_true_dropLast hrun
      generalize (loopText true (loopRun cur rest)).dropLast = TD at hT ⊢
      have hGlen : (cur.pre ++ '[' :: TD ++ [']']).length = cur.pre.length + TD.length + 2 := by
        simp only [List.length_append, List.length_cons, List.length_nil]; omega
      have hG1 : (cur.pre ++ '[' :: TD).length = cur.pre.length + TD.length + 1 := by
        simp only [List.length_append, List.length_cons]; omega
      simp only [Bool.true_and, ↓reduceIte]
      rw [hGlen]
      by_cases hlt : cur.pre.length < n
      · have hd : (decide (cur.pre.length < n)) = true := by simpa using hlt
        simp only [hd, ↓reduceIte]
        obtain ⟨b3, len3, rem, e3, l1, l2, l3⟩ := bracketLoop_spec true off n rest cur
          (b1.put (off + cur.pre.length) '[') (cur.pre.length + 1) (by omega)
        simp only [↓reduceIte] at l2 l3
        rw [e3]
        rw [hT] at l1 l2 l3
        simp only [List.length_append, List.length_cons, List.length_nil, Nat.zero_add] at l2 l3
        have h2 := h1.put_end '[' (by omega)
        have e4 : off + (cur.pre ++ ['[']).length = off + (cur.pre.length + 1) := by simp
        have hW := h2.trans (by rw [e4]; exact l1)
        -- hW' : everything up to and including the last comma
        have hW' : Wrote b b3 off (off + n) ((cur.pre ++ '[' :: TD) ++ [',']) := by
          simpa only [List.append_assoc, List.singleton_append, List.cons_append, List.nil_append] using hW
        have hWp := hW'.prefix
        by_cases hfit : cur.pre.length + 1 + (TD.length + 1) < n + 1
        · obtain ⟨a1, a2⟩ := l2 hfit
          subst a1
          by_cases hfit2 : cur.pre.length + 1 + (TD.length + 1) < n
          · have hd2 : (decide (cur.pre.length + 1 + (TD.length + 1) < n) &&
                decide (cur.pre.length + 1 + (TD.length + 1) > 0)) = true := by simp; omega
            simp only [hd2, ↓reduceIte]
            refine ⟨_, _, _, rfl, ?_, fun _ => ⟨by omega, a2, ?_⟩, fun h => by omega⟩
            · have h3 := hWp.put_end ']' (by rw [hG1]; omega)
              have e5 : off + (cur.pre ++ '[' :: TD).length = off + (cur.pre.length + 1 + (TD.length + 1)) - 1 := by
                rw [hG1]; omega
              rw [e5] at h3
              have h4 := h3.put_after (off + (cur.pre.length + 1 + (TD.length + 1))) NUL
                (by simp only [List.length_append, List.length_cons, List.length_nil]; omega) (by omega)
              simpa only [List.append_assoc, List.cons_append] using h4
            · have : off + (cur.pre.length + TD.length + 2) = off + (cur.pre.length + 1 + (TD.length + 1)) := by
                omega
              rw [this]; exact mem_put_self _ _ _
          · -- the text has exactly n bytes: the closing bracket's place is taken by the NUL
            have hd2 : (decide (cur.pre.length + 1 + (TD.length + 1) < n) &&
                decide (cur.pre.length + 1 + (TD.length + 1) > 0)) = false := by simp; omega
            have hge : cur.pre.length + 1 + (TD.length + 1) ≥ n := by omega
            have hpos : n > 0 := by omega
            simp only [hd2, Bool.false_eq_true, ↓reduceIte, hge, hpos]
            refine ⟨_, _, _, rfl, ?_, fun h => by omega, fun _ => ⟨hge, mem_put_self _ _ _⟩⟩
            have h3 := hWp.full [']'] (by rw [hG1]; omega)
            have h4 := h3.put_last NUL (by omega)
            simpa only [List.append_assoc, List.cons_append] using h4
        · have hge := l3 (by omega)
          have hd2 : (decide (len3 < n) && decide (len3 > 0)) = false := by simp; omega
          have hpos : n > 0 := by omega
          simp only [hd2, Bool.false_eq_true, ↓reduceIte, ge_iff_le, hge, hpos]
          refine ⟨_, _, _, rfl, ?_, fun h => by omega, fun _ => ⟨hge, mem_put_self _ _ _⟩⟩
          have h3 := hWp.full [']'] (by rw [hG1]; omega)
          have h4 := h3.put_last NUL (by omega)
          simpa only [List.append_assoc, List.cons_append] using h4
      · -- the prefix alone fills the buffer
        have hd : (decide (cur.pre.length < n)) = false := by simpa using hlt
        have heq : cur.pre.length = n := by omega
        simp only [hd, Bool.false_eq_true, ↓reduceIte]
        obtain ⟨b3, len3, rem, e3, l1, l2, l3⟩ := bracketLoop_spec true off n rest cur b1 cur.pre.length hle
        simp only [↓reduceIte] at l2 l3
        rw [e3]
        rw [hT] at l3
        simp only [List.length_append, List.length_cons, List.length_nil, Nat.zero_add] at l3
        have hge := l3 (by omega)
        have hd2 : (decide (len3 < n) && decide (len3 > 0)) = false := by simp; omega
        have hpos : n > 0 := by omega
        simp only [hd2, Bool.false_eq_true, ↓reduceIte, ge_iff_le, hge, hpos]
        refine ⟨_, _, _, rfl, ?_, fun h => by omega, fun _ => ⟨hge, mem_put_self _ _ _⟩⟩
        have h3 := (h1.trans l1).prefix.full ('[' :: TD ++ [']']) (by omega)
        have h4 := h3.put_last NUL (by omega)
        simpa only [List.append_assoc, List.cons_append] using h4

/-! ### `hostlist_ranged_string` -/
/-- the compressed text as the model prints it; `len` = bytes printed so far (the C code writes the
    separating comma only when `len > 0`), `fuel` as in `rangedLoop` -/
def rangedTextM : Nat → Nat → List HRange → Str
  | 0, _, _ => []
  | _ + 1, _, [] => []
  | f + 1, len, cur :: rest =>
    if len + (groupTextM cur rest).length > 0 && !(loopRem cur rest).isEmpty then
      groupTextM cur rest ++ ',' :: rangedTextM f (len + (groupTextM cur rest).length + 1) (loopRem cur rest)
    else groupTextM cur rest ++ rangedTextM f (len + (groupTextM cur rest).length) (loopRem cur rest)

theorem rangedLoop_ge (n : Nat) : ∀ (f : Nat) (rs : List HRange) (b : Buf) (len : Nat), n ≤ len →
    rangedLoop n f rs b len = (b, len)
  | 0, _, _, _, _ => by simp [rangedLoop]
  | _ + 1, [], _, _, _ => by simp [rangedLoop]
  | _ + 1, _ :: _, _, len, h => by
    have : ¬ len < n := by omega
    simp [rangedLoop, this]

theorem rangedLoop_spec (n : Nat) : ∀ (f : Nat) (rs : List HRange) (b : Buf) (len : Nat), len ≤ n →
    ∃ b' len', rangedLoop n f rs b len = (b', len') ∧ Wrote b b' len n (rangedTextM f len rs) ∧
      (len + (rangedTextM f len rs).length < n → len' = len + (rangedTextM f len rs).length) ∧
      (n ≤ len + (rangedTextM f len rs).length → n ≤ len')
  | 0, rs, b, len, _ => by
    simp only [rangedLoop, rangedTextM, List.length_nil, Nat.add_zero]
    exact ⟨_, _, rfl, Wrote.refl _ _ _, fun _ => rfl, fun h => h⟩
  | f + 1, [], b, len, _ => by
    simp only [rangedLoop, rangedTextM, List.length_nil, Nat.add_zero]
    exact ⟨_, _, rfl, Wrote.refl _ _ _, fun _ => rfl, fun h => h⟩
  | f + 1, cur :: rest, b, len, hlen => by
    by_cases hlt : len < n
    · obtain ⟨b1, k, rem, e1, g1, g2, g3⟩ := getBracketedList_spec b len (n - len) cur rest (by omega)
      rw [show len + (n - len) = n from by omega] at g1
      simp only [rangedLoop, hlt, ↓reduceIte, e1, rangedTextM]
      by_cases hfit : (groupTextM cur rest).length < n - len
      · obtain ⟨a1, a2, _⟩ := g2 hfit
        subst a1 a2
        have hd : decide (len + (groupTextM cur rest).length < n) = true := by simp; omega
        simp only [hd, Bool.and_true]
        by_cases hc : (decide (len + (groupTextM cur rest).length > 0) && !(loopRem cur rest).isEmpty) = true
        · simp only [hc, ↓reduceIte]
          obtain ⟨b', len', e2, i1, i2, i3⟩ := rangedLoop_spec n f (loopRem cur rest)
            (b1.put (len + (groupTextM cur rest).length) ',') (len + (groupTextM cur rest).length + 1) (by omega)
          rw [e2]
          have h1 := g1.put_end ',' (by omega)
          have e3 : len + (groupTextM cur rest ++ [',']).length = len + (groupTextM cur rest).length + 1 := by
            simp only [List.length_append, List.length_cons, List.length_nil]; omega
          have h2 := h1.trans (by rw [e3]; exact i1)
          simp only [List.length_append, List.length_cons]
          refine ⟨_, _, rfl, by simpa only [List.append_assoc, List.singleton_append] using h2,
            fun h => ?_, fun h => ?_⟩
          · rw [i2 (by omega)]; omega
          · exact i3 (by omega)
        · simp only [hc, Bool.false_eq_true, ↓reduceIte]
          obtain ⟨b', len', e2, i1, i2, i3⟩ := rangedLoop_spec n f (loopRem cur rest) b1
            (len + (groupTextM cur rest).length) (by omega)
          rw [e2]
          simp only [List.length_append]
          refine ⟨_, _, rfl, g1.trans i1, fun h => ?_, fun h => ?_⟩
          · rw [i2 (by omega)]; omega
          · exact i3 (by omega)
      · obtain ⟨a1, _⟩ := g3 (by omega)
        have hd : decide (len + k < n) = false := by simp; omega
        simp only [hd, Bool.and_false, Bool.false_and, Bool.false_eq_true, ↓reduceIte]
        rw [rangedLoop_ge n f rem b1 (len + k) (by omega)]
        refine ⟨_, _, rfl, ?_, fun h => ?_, fun _ => by omega⟩
        · split
          · exact g1.full _ (by omega)
          · exact g1.full _ (by omega)
        · exfalso
          split at h <;> simp only [List.length_append, List.length_cons] at h <;> omega
    · have heq : len = n := by omega
      simp only [rangedLoop, hlt, ↓reduceIte]
      exact ⟨_, _, rfl, Wrote.of_empty_window b _ (by omega), fun h => by omega, fun _ => by omega⟩

/-- `hostlist_ranged_string`, any record list, any n ≥ 1 -/
theorem rangedStringL_spec (n : Nat) (hn : 1 ≤ n) (rs : List HRange) :
    Wrote Buf.empty (rangedStringL n rs).1 0 n (rangedTextM rs.length 0 rs) ∧
    ((rangedTextM rs.length 0 rs).length < n →
      (rangedStringL n rs).2 = .ok (rangedTextM rs.length 0 rs).length ∧
      (rangedStringL n rs).1.mem (rangedTextM rs.length 0 rs).length = some NUL) ∧
    (n ≤ (rangedTextM rs.length 0 rs).length →
      (rangedStringL n rs).2 = .trunc ∧ (rangedStringL n rs).1.mem (n - 1) = some NUL) := by
  obtain ⟨b', len', e, l1, l2, l3⟩ := rangedLoop_spec n rs.length rs Buf.empty 0 (Nat.zero_le _)
  simp only [Nat.zero_add] at l2 l3
  simp only [rangedStringL, e]
  by_cases hfit : (rangedTextM rs.length 0 rs).length < n
  · have a1 := l2 hfit
    subst a1
    have : ¬ (rangedTextM rs.length 0 rs).length ≥ n := by omega
    simp only [this, ↓reduceIte]
    refine ⟨?_, fun _ => ⟨by simp, mem_put_self _ _ _⟩, fun h => h.elim⟩
    have := l1.put_after (0 + (rangedTextM rs.length 0 rs).length) NUL (Nat.le_refl _) (by omega)
    simpa using this
  · have hge := l3 (by omega)
    have hpos : n > 0 := by omega
    simp only [ge_iff_le, hge, ↓reduceIte, hpos]
    exact ⟨l1.put_last NUL (by omega), fun h => absurd h (by omega), fun _ => ⟨by simp, mem_put_self _ _ _⟩⟩

end PdshVerif.Hostlist.Print
