/-
  `hostlist_delete_nth` on A ++ o :: B, position n = |hosts A| + j inside o: the three shapes.
-/
import PdshVerif.Hostlist.EditDeleteLayout

namespace PdshVerif.Hostlist
open PdshVerif.Gen

theorem deleteNthRs_head (fresh : Nat) (o : RObj) (B : List RObj) (i' cnt j : Nat) (hj : j + 1 ≤ o.r.count) :
    deleteNthRs fresh (o :: B) (cnt + j) i' cnt =
      if o.r.single then (B, .deleted i') else
        match hostrangeDeleteHost o.r (addU64 o.r.lo j) with
        | (r', some up) => ({ o with r := r' } :: ⟨fresh, up⟩ :: B, .inserted (i' + 1))
        | (r', none) => if r'.empty then (B, .deleted i') else ({ o with r := r' } :: B, .none) := by
  rw [deleteNthRs]
  have h1 : cnt + j + 1 ≤ o.r.count + cnt := by omega
  simp only [h1, ↓reduceIte, Nat.add_sub_cancel_left]
  split
  · rfl
  · generalize hostrangeDeleteHost o.r (addU64 o.r.lo j) = d
    obtain ⟨r', up⟩ := d
    cases up with
    | some u => rfl
    | none => rfl

theorem locateNth_head (o : RObj) (B : List RObj) (i' j : Nat) (hj : j + 1 ≤ o.r.count) :
    locateNth (o :: B) j i' = (i', j) := by
  rw [locateNth]; simp [hj]

/-- the array part and the reported change, on the whole list -/
theorem deleteNthRs_at (fresh : Nat) (A : List RObj) (o : RObj) (B : List RObj) (j : Nat) (hgA : ∀ a ∈ A, a.r.Good)
    (hgo : o.r.Good) (hj : j < o.r.hosts.length) :
    deleteNthRs fresh (A ++ o :: B) ((hostsL (A.map (·.r))).length + j) 0 0 =
      if o.r.single then (A ++ B, .deleted A.length) else
        match hostrangeDeleteHost o.r (addU64 o.r.lo j) with
        | (r', some up) => (A ++ { o with r := r' } :: ⟨fresh, up⟩ :: B, .inserted (A.length + 1))
        | (r', none) => if r'.empty then (A ++ B, .deleted A.length) else (A ++ { o with r := r' } :: B, .none) := by
  have hcnt : j + 1 ≤ o.r.count := by rw [hgo.count_eq]; omega
  have := deleteNthRs_skip fresh A (o :: B) 0 0 j hgA
  simp only [Nat.zero_add] at this
  rw [this, deleteNthRs_head fresh o B A.length _ j hcnt]
  split
  · rfl
  · generalize hostrangeDeleteHost o.r (addU64 o.r.lo j) = d
    obtain ⟨r', up⟩ := d
    cases up with
    | some u => rfl
    | none => simp only; split <;> rfl

theorem locateNth_at (A : List RObj) (o : RObj) (B : List RObj) (j : Nat) (hgA : ∀ a ∈ A, a.r.Good)
    (hgo : o.r.Good) (hj : j < o.r.hosts.length) :
    locateNth (A ++ o :: B) ((hostsL (A.map (·.r))).length + j) 0 = (A.length, j) := by
  have hcnt : j + 1 ≤ o.r.count := by rw [hgo.count_eq]; omega
  rw [locateNth_skip A (o :: B) 0 j hgA, Nat.zero_add, locateNth_head o B A.length j hcnt]

/-- shape D: the record held one host and goes away -/
theorem deleteNthE_gone (cfg : Cfg) (A : List RObj) (o : RObj) (B : List RObj) (nh : Int) (nx : Nat)
    (its : List (Nat × ItSt)) (j : Nat) (hgA : ∀ a ∈ A, a.r.Good) (hgo : o.r.Good) (hj : j < o.r.hosts.length)
    (hD : o.r.single = true ∨ (o.r.single = false ∧ ∃ r', hostrangeDeleteHost o.r (addU64 o.r.lo j) = (r', none) ∧ r'.empty = true)) :
    deleteNthE cfg ⟨A ++ o :: B, nh, nx, its⟩ ((hostsL (A.map (·.r))).length + j) =
      { deleteRange cfg ⟨A ++ o :: B, nh, nx, its⟩ A.length with
        nhosts := (deleteRange cfg ⟨A ++ o :: B, nh, nx, its⟩ A.length).nhosts - 1 } := by
  have hrs : deleteNthRs nx (A ++ o :: B) ((hostsL (A.map (·.r))).length + j) 0 0 = (A ++ B, .deleted A.length) := by
    rw [deleteNthRs_at nx A o B j hgA hgo hj]
    rcases hD with hs | ⟨hs, r', hd, he⟩
    · simp [hs]
    · simp [hs, hd, he]
  unfold deleteNthE deleteNthE0
  simp only [hrs]

/-- shape S: the record shrinks at an end -/
theorem deleteNthE_shrink (cfg : Cfg) (A : List RObj) (o : RObj) (B : List RObj) (nh : Int) (nx : Nat)
    (its : List (Nat × ItSt)) (j : Nat) (hgA : ∀ a ∈ A, a.r.Good) (hgo : o.r.Good) (hj : j < o.r.hosts.length)
    (hs : o.r.single = false) (r' : HRange) (hd : hostrangeDeleteHost o.r (addU64 o.r.lo j) = (r', none))
    (he : r'.empty = false) :
    deleteNthE cfg ⟨A ++ o :: B, nh, nx, its⟩ ((hostsL (A.map (·.r))).length + j) =
      delIts cfg ⟨A ++ { o with r := r' } :: B, nh - 1, nx, its⟩ A.length j false := by
  have hrs : deleteNthRs nx (A ++ o :: B) ((hostsL (A.map (·.r))).length + j) 0 0 =
      (A ++ { o with r := r' } :: B, .none) := by
    rw [deleteNthRs_at nx A o B j hgA hgo hj]
    simp [hs, hd, he]
  have hloc := locateNth_at A o B j hgA hgo hj
  unfold deleteNthE deleteNthE0
  simp only [hrs, hloc]

/-- shape P: the record is split, the upper part becomes a new record -/
theorem deleteNthE_split (cfg : Cfg) (A : List RObj) (o : RObj) (B : List RObj) (nh : Int) (nx : Nat)
    (its : List (Nat × ItSt)) (j : Nat) (hgA : ∀ a ∈ A, a.r.Good) (hgo : o.r.Good) (hj : j < o.r.hosts.length)
    (hs : o.r.single = false) (r' up : HRange) (hd : hostrangeDeleteHost o.r (addU64 o.r.lo j) = (r', some up)) :
    deleteNthE cfg ⟨A ++ o :: B, nh, nx, its⟩ ((hostsL (A.map (·.r))).length + j) =
      delIts cfg { insertRange ⟨A ++ { o with r := r' } :: B, nh, nx, its⟩ up (A.length + 1) with
        nhosts := (insertRange ⟨A ++ { o with r := r' } :: B, nh, nx, its⟩ up (A.length + 1)).nhosts - 1 }
        A.length j true := by
  have hrs : deleteNthRs nx (A ++ o :: B) ((hostsL (A.map (·.r))).length + j) 0 0 =
      (A ++ { o with r := r' } :: ⟨nx, up⟩ :: B, .inserted (A.length + 1)) := by
    rw [deleteNthRs_at nx A o B j hgA hgo hj]
    simp [hs, hd]
  have hloc := locateNth_at A o B j hgA hgo hj
  have e : A ++ ({ o with r := r' } : RObj) :: (⟨nx, up⟩ : RObj) :: B = (A ++ [{ o with r := r' }]) ++ (⟨nx, up⟩ : RObj) :: B := by simp
  have hlen : (A ++ [({ o with r := r' } : RObj)]).length = A.length + 1 := by simp
  have htake : (A ++ ({ o with r := r' } : RObj) :: (⟨nx, up⟩ : RObj) :: B).take (A.length + 1) = A ++ [{ o with r := r' }] := by
    rw [e, ← hlen, List.take_left]
  have hdrop : (A ++ ({ o with r := r' } : RObj) :: (⟨nx, up⟩ : RObj) :: B).drop (A.length + 1 + 1) = B := by
    rw [e, ← hlen, ← List.drop_drop, List.drop_left]; rfl
  have hget : (A ++ ({ o with r := r' } : RObj) :: (⟨nx, up⟩ : RObj) :: B)[A.length + 1]? = some ⟨nx, up⟩ := by
    rw [e, ← hlen, List.getElem?_append_right (Nat.le_refl _)]; simp
  unfold deleteNthE deleteNthE0
  simp only [hrs, hloc, htake, hdrop, hget, Option.map_some, Option.getD_some, List.append_assoc, List.cons_append,
    List.nil_append]

end PdshVerif.Hostlist
