/-
  hostlist.c `hostlist_shift_range` / `hostlist_pop_range` WITH their record bookkeeping (C14 / C16).

  Both move a bracket group of records into a temporary list through `hostlist_push_range` — which
  JOINS a record to the temporary list's tail when it continues it (`foo[1-2]`, `foo[3-4]` become
  `foo[1-4]`) — and then do their arithmetic with the temporary list's record count:

      hl->hr[i - hltmp->nranges] = hl->hr[i];   hl->nranges -= hltmp->nranges;

  FINDING F14-RANGEMOVE: when k records are moved and pushing joins some of them, fewer than k slots are
  given up: `hostlist_shift_range` leaves pointers to freed records at the front of the array (the next
  call reads them: heap-use-after-free), `hostlist_pop_range` leaves NULL slots below `nranges` (the
  next call dereferences NULL).  Adjacent joinable-but-unjoined records DO arise from the public API:
  `hostlist_create("foo[1-2],x,foo[3-4]")`, `hostlist_delete_host(hl, "x")` — `hostlist_delete_range`
  closes the gap without joining the neighbours.  Repaired: count the records moved.
-/
import PdshVerif.Hostlist.Print

namespace PdshVerif.Hostlist.Print
open PdshVerif.Hostlist

/-- the records of `hltmp` after the group was pushed into it one by one -/
def tmpOf (grp : List HRange) : List HRange := (grp.foldl pushRange HL.new).ranges.toList

/-- `hostlist_shift_range` until NULL with the bookkeeping as written (`fixed = false`) or repaired:
    the calls made (records of `hltmp`, buffer) and whether the run ends in undefined behaviour — the
    call whose group was joined while moving still returns its text; the array it leaves is broken. -/
def shiftRangeRun (fixed : Bool) : Nat → List HRange → List (List HRange × Buf) × Bool
  | 0, _ => ([], false)
  | _ + 1, [] => ([], false)
  | f + 1, r0 :: rest =>
    let grp := r0 :: rest.takeWhile (withinRange r0)
    let tmp := tmpOf grp
    if !fixed && tmp.length < grp.length then ([(tmp, (shiftRangeBuf tmp).1)], true)
    else
      match shiftRangeRun fixed f (rest.dropWhile (withinRange r0)) with
      | (cs, ub) => ((tmp, (shiftRangeBuf tmp).1) :: cs, ub)

/-- `hostlist_pop_range` until NULL, likewise -/
def popRangeRun (fixed : Bool) : Nat → List HRange → List (List HRange × Buf) × Bool
  | 0, _ => ([], false)
  | f + 1, rs =>
    match rs.reverse with
    | [] => ([], false)
    | t :: before =>
      let grp := (t :: before.takeWhile (withinRange t)).reverse
      let tmp := tmpOf grp
      if !fixed && tmp.length < grp.length then ([(tmp, (popRangeBuf tmp).1)], true)
      else
        match popRangeRun fixed f (before.dropWhile (withinRange t)).reverse with
        | (cs, ub) => ((tmp, (popRangeBuf tmp).1) :: cs, ub)

/-- does `hostlist_push_range` join `r` to a tail `t`? -/
def joins (t r : HRange) : Bool :=
  prefixCmpEq t r && t.hi == subU64 r.lo 1 && (widthCombine t r).1

/-- no record continues its predecessor: joinable neighbours are joined (what a delete can break:
    `hostlist_delete_range` closes a gap without looking at the new neighbours) -/
def Joined : List HRange → Prop
  | [] => True
  | [_] => True
  | a :: b :: rest => joins a b = false ∧ Joined (b :: rest)

def decJoined : (rs : List HRange) → Decidable (Joined rs)
  | [] => isTrue trivial
  | [_] => isTrue trivial
  | a :: b :: rest =>
    match decJoined (b :: rest) with
    | isTrue h2 => if h1 : joins a b = false then isTrue ⟨h1, h2⟩ else isFalse fun h => h1 h.1
    | isFalse h2 => isFalse fun h => h2 h.2

instance (rs : List HRange) : Decidable (Joined rs) := decJoined rs

theorem pushRange_nojoin (h : HL) (t r : HRange) (ht : h.ranges.back? = some t) (hj : joins t r = false) :
    (pushRange h r).ranges = h.ranges.push r := by
  unfold pushRange
  simp only [ht]
  unfold joins at hj
  by_cases hc : (prefixCmpEq t r && t.hi == subU64 r.lo 1) = true
  · rw [if_pos hc]
    rw [hc, Bool.true_and] at hj
    cases hw : widthCombine t r with
    | mk b rest =>
      rw [hw] at hj
      simp only at hj
      subst hj
      obtain ⟨wt, wr⟩ := rest
      rfl
  · rw [if_neg hc]

theorem pushRange_empty (h : HL) (r : HRange) (ht : h.ranges.back? = none) :
    (pushRange h r).ranges = h.ranges.push r := by
  unfold pushRange
  simp only [ht]

/-- pushing records none of which continues its predecessor appends them one by one -/
theorem foldl_pushRange_joined : ∀ (rs : List HRange) (h : HL) (a : HRange), h.ranges.back? = some a →
    Joined (a :: rs) → (rs.foldl pushRange h).ranges.toList = h.ranges.toList ++ rs
  | [], h, _, _, _ => by simp
  | r :: rs, h, a, ha, hj => by
    have h1 := pushRange_nojoin h a r ha hj.1
    have hb : (pushRange h r).ranges.back? = some r := by rw [h1]; simp
    rw [List.foldl_cons, foldl_pushRange_joined rs (pushRange h r) r hb hj.2, h1]
    simp

theorem tmpOf_joined (grp : List HRange) (hj : Joined grp) : tmpOf grp = grp := by
  unfold tmpOf
  cases grp with
  | nil => rfl
  | cons a rs =>
    have h1 := pushRange_empty HL.new a (by rfl)
    have hb : (pushRange HL.new a).ranges.back? = some a := by rw [h1]; simp
    rw [List.foldl_cons, foldl_pushRange_joined rs (pushRange HL.new a) a hb hj, h1]
    rfl

theorem Joined.tail {a : HRange} {rs : List HRange} (h : Joined (a :: rs)) : Joined rs := by
  cases rs with
  | nil => trivial
  | cons b rest => exact h.2

theorem Joined.takeWhile (p : HRange → Bool) : ∀ (a : HRange) (rs : List HRange), Joined (a :: rs) →
    Joined (a :: rs.takeWhile p)
  | _, [], _ => trivial
  | a, b :: rest, h => by
    rw [List.takeWhile_cons]
    split
    · exact ⟨h.1, Joined.takeWhile p b rest h.2⟩
    · trivial

theorem Joined.dropWhile (p : HRange → Bool) : ∀ (rs : List HRange), Joined rs → Joined (rs.dropWhile p)
  | [], _ => trivial
  | b :: rest, h => by
    rw [List.dropWhile_cons]
    split
    · exact Joined.dropWhile p rest h.tail
    · exact h

/-- REPAIRED bookkeeping: every list is taken apart group by group, no undefined behaviour -/
theorem shiftRangeRun_fixed : ∀ (f : Nat) (rs : List HRange),
    shiftRangeRun true f rs = (shiftRangeCalls f rs, false)
  | 0, _ => rfl
  | _ + 1, [] => rfl
  | f + 1, r0 :: rest => by
    simp only [shiftRangeRun, shiftRangeCalls, Bool.not_true, Bool.false_and, Bool.false_eq_true, ↓reduceIte,
      shiftRangeRun_fixed f, tmpOf]

/-- AS WRITTEN the bookkeeping is right on every list whose joinable neighbours are joined -/
theorem shiftRangeRun_joined : ∀ (f : Nat) (rs : List HRange), Joined rs →
    shiftRangeRun false f rs = (shiftRangeCalls f rs, false)
  | 0, _, _ => rfl
  | _ + 1, [], _ => rfl
  | f + 1, r0 :: rest, hj => by
    have hg : tmpOf (r0 :: rest.takeWhile (withinRange r0)) = r0 :: rest.takeWhile (withinRange r0) :=
      tmpOf_joined _ (Joined.takeWhile _ r0 rest hj)
    have hrec := shiftRangeRun_joined f (rest.dropWhile (withinRange r0)) (Joined.dropWhile _ rest hj.tail)
    simp only [shiftRangeRun, shiftRangeCalls, hg, Nat.lt_irrefl, decide_false, Bool.and_false, Bool.false_eq_true,
      ↓reduceIte, hrec]
    have hg' : (List.foldl pushRange HL.new (r0 :: rest.takeWhile (withinRange r0))).ranges.toList =
        r0 :: rest.takeWhile (withinRange r0) := hg
    rw [hg']

theorem Joined.append_right : ∀ (A B : List HRange), Joined (A ++ B) → Joined B
  | [], _, h => h
  | _ :: A, B, h => Joined.append_right A B (Joined.tail h)

theorem Joined.append_left : ∀ (A B : List HRange), Joined (A ++ B) → Joined A
  | [], _, _ => trivial
  | [_], _, _ => trivial
  | _ :: b :: A, B, h => ⟨h.1, Joined.append_left (b :: A) B h.2⟩

theorem popRangeRun_fixed : ∀ (f : Nat) (rs : List HRange),
    popRangeRun true f rs = (popRangeCalls f rs, false)
  | 0, _ => rfl
  | f + 1, rs => by
    unfold popRangeRun popRangeCalls
    cases rs.reverse with
    | nil => rfl
    | cons t before =>
      simp only [Bool.not_true, Bool.false_and, Bool.false_eq_true, ↓reduceIte, popRangeRun_fixed f, tmpOf]

/-- AS WRITTEN `hostlist_pop_range` is right on every list whose joinable neighbours are joined -/
theorem popRangeRun_joined : ∀ (f : Nat) (rs : List HRange), Joined rs →
    popRangeRun false f rs = (popRangeCalls f rs, false)
  | 0, _, _ => rfl
  | f + 1, rs, hj => by
    unfold popRangeRun popRangeCalls
    cases hrev : rs.reverse with
    | nil => rfl
    | cons t before =>
      have hrs : rs = (before.dropWhile (withinRange t)).reverse ++ ((t :: before.takeWhile (withinRange t)).reverse) := by
        have : rs = (t :: before).reverse := by rw [← hrev, List.reverse_reverse]
        rw [this]
        have hb : before.reverse = (before.dropWhile (withinRange t)).reverse ++ (before.takeWhile (withinRange t)).reverse := by
          rw [← List.reverse_append, List.takeWhile_append_dropWhile]
        simp only [List.reverse_cons, List.append_assoc]
        rw [hb, List.append_assoc]
      have hj2 : Joined rs := hj
      rw [hrs] at hj2
      have hg : tmpOf ((t :: before.takeWhile (withinRange t)).reverse) = (t :: before.takeWhile (withinRange t)).reverse :=
        tmpOf_joined _ (Joined.append_right _ _ hj2)
      have hrec := popRangeRun_joined f (before.dropWhile (withinRange t)).reverse (Joined.append_left _ _ hj2)
      have hg' : (List.foldl pushRange HL.new ((t :: before.takeWhile (withinRange t)).reverse)).ranges.toList =
          (t :: before.takeWhile (withinRange t)).reverse := hg
      simp only [hg, hg', Nat.lt_irrefl, decide_false, Bool.and_false, Bool.false_eq_true, ↓reduceIte, hrec]

end PdshVerif.Hostlist.Print
