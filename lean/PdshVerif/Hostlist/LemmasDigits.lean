/-
  Decimal facts: a digit string re-prints as itself at its own width (`fmtPad_ofDigits`), and
  `strtoul` of a digit string is its value.
-/
import PdshVerif.Hostlist.Lemmas

namespace PdshVerif.Hostlist
open PdshVerif.Gen

/-- value of a digit string (same as `Spec.val`) -/
def dval (s : Str) : Nat := Nat.ofDigitChars 10 s 0

def allDigits (s : Str) : Prop := ∀ c ∈ s, isDigit c = true

theorem isDigit_iff (c : Char) : isDigit c = true ↔ 48 ≤ c.toNat ∧ c.toNat ≤ 57 := by
  unfold isDigit
  simp only [Bool.and_eq_true, decide_eq_true_eq, Char.le_def]
  rfl

theorem dval_cons (c : Char) (cs : Str) :
    dval (c :: cs) = (c.toNat - 48) * 10 ^ cs.length + dval cs := by
  unfold dval
  rw [Nat.ofDigitChars_cons, Nat.ofDigitChars_eq_ofDigitChars_zero]
  simp only [Nat.mul_zero, Nat.zero_add]
  have : '0'.toNat = 48 := by decide
  rw [this, Nat.mul_comm]

theorem dval_lt {s : Str} (h : allDigits s) : dval s < 10 ^ s.length := by
  induction s with
  | nil => simp [dval]
  | cons c cs ih =>
    rw [dval_cons]
    have hc := (isDigit_iff c).mp (h c (by simp))
    have := ih (fun x hx => h x (by simp [hx]))
    simp only [List.length_cons, Nat.pow_succ]
    have : (c.toNat - 48) * 10 ^ cs.length ≤ 9 * 10 ^ cs.length := Nat.mul_le_mul_right _ (by omega)
    omega

/-- digit strings of equal length and equal value are equal -/
theorem digits_inj : ∀ (s t : Str), allDigits s → allDigits t → s.length = t.length →
    dval s = dval t → s = t := by
  intro s
  induction s with
  | nil => intro t _ _ hl _; cases t with | nil => rfl | cons _ _ => simp at hl
  | cons c cs ih =>
    intro t hs ht hl hv
    cases t with
    | nil => simp at hl
    | cons d ds =>
      simp only [List.length_cons, Nat.add_right_cancel_iff] at hl
      rw [dval_cons, dval_cons, ← hl] at hv
      have hc := (isDigit_iff c).mp (hs c (by simp))
      have hd := (isDigit_iff d).mp (ht d (by simp))
      have h1 := dval_lt (s := cs) (fun x hx => hs x (by simp [hx]))
      have h2 := dval_lt (s := ds) (fun x hx => ht x (by simp [hx]))
      rw [← hl] at h2
      have hp : 0 < 10 ^ cs.length := Nat.pow_pos (by decide)
      -- compare quotient and remainder by 10^|cs|
      have hq : (c.toNat - 48) = (d.toNat - 48) := by
        have e1 : ((c.toNat - 48) * 10 ^ cs.length + dval cs) / 10 ^ cs.length = c.toNat - 48 := by
          rw [Nat.mul_comm, Nat.mul_add_div hp, Nat.div_eq_of_lt h1]; simp
        have e2 : ((d.toNat - 48) * 10 ^ cs.length + dval ds) / 10 ^ cs.length = d.toNat - 48 := by
          rw [Nat.mul_comm, Nat.mul_add_div hp, Nat.div_eq_of_lt h2]; simp
        rw [← e1, ← e2, hv]
      have hr : dval cs = dval ds := by
        rw [hq] at hv; omega
      have hcd : c = d := by
        apply Char.ext
        apply UInt32.toNat_inj.mp
        have : c.toNat = d.toNat := by omega
        exact this
      rw [hcd, ih ds (fun x hx => hs x (by simp [hx])) (fun x hx => ht x (by simp [hx])) hl hr]

theorem toDigits_allDigits (n : Nat) : allDigits (Nat.toDigits 10 n) := by
  intro c hc
  have := Nat.isDigit_of_mem_toDigits (b := 10) (by decide) (by decide) hc
  rw [isDigit_iff]
  simpa [Char.isDigit, UInt32.le_iff_toNat_le] using this

theorem fmtPad_allDigits (w n : Nat) : allDigits (fmtPad w n) := by
  intro c hc
  unfold fmtPad at hc
  simp only [List.mem_append, List.mem_replicate] at hc
  rcases hc with ⟨_, rfl⟩ | hc
  · decide
  · exact toDigits_allDigits n c hc

theorem dval_fmtPad (w n : Nat) : dval (fmtPad w n) = n := by
  unfold dval fmtPad
  rw [Nat.ofDigitChars_append, Nat.ofDigitChars_replicate_zero]
  simp

theorem ndig_le_of_lt_pow {n k : Nat} (hk : 0 < k) (h : n < 10 ^ k) : ndig n ≤ k := by
  unfold ndig
  exact (Nat.length_toDigits_le_iff (by decide) hk).mpr h

/-- a non-empty digit string re-prints as itself at its own width: `"%0*lu"` with width |s| of
    the value of s gives back s (leading zeros included) -/
theorem fmtPad_ofDigits {s : Str} (hs : allDigits s) (hne : s ≠ []) : fmtPad s.length (dval s) = s := by
  have hpos : 0 < s.length := List.length_pos_iff.mpr hne
  apply digits_inj _ _ (fmtPad_allDigits _ _) hs
  · rw [fmtPad_length]
    have := ndig_le_of_lt_pow hpos (dval_lt hs)
    omega
  · exact dval_fmtPad _ _

/-! ### `strtoul` on digit strings -/
theorem takeWhile_all {α : Type} {p : α → Bool} : ∀ {s : List α}, (∀ c ∈ s, p c = true) →
    s.takeWhile p = s
  | [], _ => rfl
  | c :: cs, h => by
    rw [List.takeWhile_cons_of_pos (h c (by simp)), takeWhile_all (fun x hx => h x (by simp [hx]))]

theorem dropWhile_all {α : Type} {p : α → Bool} : ∀ {s : List α}, (∀ c ∈ s, p c = true) →
    s.dropWhile p = []
  | [], _ => rfl
  | c :: cs, h => by
    rw [List.dropWhile_cons_of_pos (h c (by simp)), dropWhile_all (fun x hx => h x (by simp [hx]))]

theorem takeWhile_allDigits {s : Str} (h : allDigits s) : s.takeWhile isDigit = s := takeWhile_all h

theorem dropWhile_allDigits {s : Str} (h : allDigits s) : s.dropWhile isDigit = [] := dropWhile_all h

theorem isSpace_of_isDigit {c : Char} (h : isDigit c = true) : isSpace c = false := by
  have := (isDigit_iff c).mp h
  unfold isSpace
  have hne : c ≠ ' ' := by
    intro hc; rw [hc] at this; simp at this
  simp only [hne, decide_false, Bool.false_or, Bool.and_eq_false_iff, decide_eq_false_iff_not]
  omega

/-- `strtoul` of a non-empty digit string below 2^64: its value, everything consumed, no ERANGE -/
theorem strtoul_digits {s : Str} (hs : allDigits s) (hne : s ≠ []) (hv : dval s ≤ ULONG_MAX) :
    strtoul s = ⟨dval s, [], true, false⟩ := by
  cases s with
  | nil => exact absurd rfl hne
  | cons c cs =>
    have hc := hs c (by simp)
    have hsp := isSpace_of_isDigit hc
    have hd := (isDigit_iff c).mp hc
    have hm : c ≠ '-' := by intro h; rw [h] at hd; simp at hd
    have hp : c ≠ '+' := by intro h; rw [h] at hd; simp at hd
    have e1 : (c :: cs).dropWhile isSpace = c :: cs := by simp [List.dropWhile, hsp]
    unfold strtoul
    rw [e1]
    split
    · rename_i t heq; simp at heq; exact absurd heq.1 hm
    · rename_i t heq; simp at heq; exact absurd heq.1 hp
    · unfold strtoulCore
      rw [takeWhile_allDigits hs, dropWhile_allDigits hs]
      simp only [List.isEmpty_cons, Bool.false_eq_true, ↓reduceIte]
      have : ¬ Nat.ofDigitChars 10 (c :: cs) 0 > ULONG_MAX := by unfold dval at hv; omega
      simp only [this, ↓reduceIte]
      rfl

end PdshVerif.Hostlist
