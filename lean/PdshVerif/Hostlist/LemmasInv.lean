/-
  What the by-name / by-position deletions keep besides the denotation (needed to chain
  `wcoll_apply_excluded` with `hostlist_filter_regex`, C02): distinct record identities, no
  iterator appearing from nowhere, and every monotone property of the records (a record only ever
  shrinks: its `hi` does not grow, width only changes where printing is unaffected).
-/
import PdshVerif.Hostlist.LemmasIterEdit

namespace PdshVerif.Hostlist
open PdshVerif.Gen

/-! ### record identities through `hostlist_delete_nth` -/
/-- no structural change: the identities stay -/
theorem deleteNthRs_ids_none (fresh : Nat) : ∀ (rs : List RObj) (n i count : Nat),
    (deleteNthRs fresh rs n i count).2 = .none →
    (deleteNthRs fresh rs n i count).1.map (·.id) = rs.map (·.id)
  | [], _, _, _, _ => by simp [deleteNthRs]
  | o :: rest, n, i, count, h => by
    simp only [deleteNthRs] at h ⊢
    split at h
    · split at h
      · simp at h
      · rename_i h1 h2
        simp only [h1, h2, ↓reduceIte, Bool.false_eq_true]
        generalize hostrangeDeleteHost o.r (addU64 o.r.lo (n - count)) = d at h ⊢
        obtain ⟨r', up⟩ := d
        cases up with
        | some u => simp at h
        | none =>
          simp only at h ⊢
          split at h
          · simp at h
          · rename_i he
            simp [he]
    · rename_i h1
      simp only [h1, ↓reduceIte]
      generalize hres : deleteNthRs fresh rest n (i + 1) (count + o.r.count) = res at h ⊢
      obtain ⟨rs', c⟩ := res
      simp only at h ⊢
      have ih := deleteNthRs_ids_none fresh rest n (i + 1) (count + o.r.count) (by rw [hres]; exact h)
      rw [hres] at ih
      simp only at ih
      simp [ih]

/-- a split: the fresh identity is inserted behind the record that was split -/
theorem deleteNthRs_ids_inserted (fresh : Nat) : ∀ (rs : List RObj) (n i count j : Nat),
    (deleteNthRs fresh rs n i count).2 = .inserted j →
    i < j ∧ j - i ≤ rs.length ∧
      (deleteNthRs fresh rs n i count).1.map (·.id) =
        (rs.map (·.id)).take (j - i) ++ fresh :: (rs.map (·.id)).drop (j - i)
  | [], _, _, _, _, h => by simp [deleteNthRs] at h
  | o :: rest, n, i, count, j, h => by
    simp only [deleteNthRs] at h ⊢
    split at h
    · split at h
      · simp at h
      · rename_i h1 h2
        simp only [h1, h2, ↓reduceIte, Bool.false_eq_true]
        generalize hostrangeDeleteHost o.r (addU64 o.r.lo (n - count)) = d at h ⊢
        obtain ⟨r', up⟩ := d
        cases up with
        | some u =>
          simp only [Change.inserted.injEq] at h; subst h
          have : i + 1 - i = 1 := by omega
          simp [this]
        | none =>
          simp only at h
          split at h <;> simp at h
    · rename_i h1
      simp only [h1, ↓reduceIte]
      generalize hres : deleteNthRs fresh rest n (i + 1) (count + o.r.count) = res at h ⊢
      obtain ⟨rs', c⟩ := res
      simp only at h ⊢
      have ih := deleteNthRs_ids_inserted fresh rest n (i + 1) (count + o.r.count) j (by rw [hres]; exact h)
      rw [hres] at ih
      simp only at ih
      obtain ⟨k1, k2, k3⟩ := ih
      refine ⟨by omega, by simp only [List.length_cons]; omega, ?_⟩
      have : j - i = (j - (i + 1)) + 1 := by omega
      rw [this]
      simp [k3]

theorem nodup_insert_fresh (ids : List Nat) (j fresh : Nat) (hn : ids.Nodup) (hf : ∀ x ∈ ids, x < fresh) :
    (ids.take j ++ fresh :: ids.drop j).Nodup ∧ ∀ x ∈ ids.take j ++ fresh :: ids.drop j, x < fresh + 1 := by
  have hp : (ids.take j ++ fresh :: ids.drop j).Perm (fresh :: ids) := by
    have := List.perm_middle (a := fresh) (l₁ := ids.take j) (l₂ := ids.drop j)
    rw [List.take_append_drop] at this
    exact this
  constructor
  · rw [hp.nodup_iff, List.nodup_cons]
    exact ⟨fun h => by have := hf fresh h; omega, hn⟩
  · intro x hx
    have := hp.mem_iff.mp hx
    rcases List.mem_cons.mp this with rfl | h
    · omega
    · have := hf x h; omega

/-- `hostlist_delete_nth` keeps the record identities distinct -/
theorem deleteNthE0_ids (cfg : Cfg) (e : EL) (n : Nat) (hid : e.IdsOk) : (deleteNthE0 cfg e n).IdsOk := by
  unfold deleteNthE0
  generalize hres : deleteNthRs e.nextId e.rs n 0 0 = res
  obtain ⟨rs', c⟩ := res
  cases c with
  | none =>
    have hids := deleteNthRs_ids_none e.nextId e.rs n 0 0 (by rw [hres])
    rw [hres] at hids
    simp only at hids ⊢
    refine ⟨by show (rs'.map (·.id)).Nodup; rw [hids]; exact hid.1, ?_⟩
    intro o ho
    have : o.id ∈ rs'.map (·.id) := List.mem_map.mpr ⟨o, ho, rfl⟩
    rw [hids] at this
    obtain ⟨o', ho', he⟩ := List.mem_map.mp this
    show o.id < e.nextId
    rw [← he]; exact hid.2 o' ho'
  | deleted i =>
    simp only
    have hrs : (deleteRange cfg e i).rs = e.rs.eraseIdx i := by
      unfold deleteRange; simp only; split <;> simp [shiftIterators]
    have hnx : (deleteRange cfg e i).nextId = e.nextId := by
      unfold deleteRange; simp only; split <;> simp [shiftIterators]
    refine ⟨?_, ?_⟩
    · show ((deleteRange cfg e i).rs.map (·.id)).Nodup
      rw [hrs]
      exact ((List.eraseIdx_sublist _ _).map _).nodup hid.1
    · intro o ho
      have ho' : o ∈ (deleteRange cfg e i).rs := ho
      rw [hrs] at ho'
      show o.id < (deleteRange cfg e i).nextId
      rw [hnx]
      exact hid.2 o ((List.eraseIdx_sublist _ _).subset ho')
  | inserted j =>
    have hids := deleteNthRs_ids_inserted e.nextId e.rs n 0 0 j (by rw [hres])
    rw [hres] at hids
    simp only at hids ⊢
    obtain ⟨_, hj, hids⟩ := hids
    simp only [Nat.sub_zero] at hj hids
    -- the record list after re-insertion
    have hjl : j ≤ (rs'.take j ++ rs'.drop (j + 1)).length := by
      have hl : rs'.length = e.rs.length + 1 := by
        have := congrArg List.length hids
        simp only [List.length_map, List.length_append, List.length_take, List.length_cons, List.length_drop] at this
        omega
      simp only [List.length_append, List.length_take, List.length_drop]; omega
    have hnot : ¬ (j > (rs'.take j ++ rs'.drop (j + 1)).length) := by omega
    have hfin : ∀ (x : HRange),
        (insertRange { e with rs := rs'.take j ++ rs'.drop (j + 1) } x j).rs.map (·.id) =
          (e.rs.map (·.id)).take j ++ e.nextId :: (e.rs.map (·.id)).drop j ∧
        (insertRange { e with rs := rs'.take j ++ rs'.drop (j + 1) } x j).nextId = e.nextId + 1 := by
      intro x
      unfold insertRange
      simp only [hnot, ↓reduceIte, List.map_append, List.map_cons, List.map_take, List.map_drop, and_true]
      rw [hids]
      have hlt : ((e.rs.map (·.id)).take j).length = j := by
        rw [List.length_take, List.length_map]; omega
      have e1 : ((e.rs.map (·.id)).take j ++ e.nextId :: (e.rs.map (·.id)).drop j).take j = (e.rs.map (·.id)).take j :=
        List.take_left' hlt
      have e2 : ((e.rs.map (·.id)).take j ++ e.nextId :: (e.rs.map (·.id)).drop j).drop (j + 1) = (e.rs.map (·.id)).drop j := by
        have : (e.rs.map (·.id)).take j ++ e.nextId :: (e.rs.map (·.id)).drop j =
            ((e.rs.map (·.id)).take j ++ [e.nextId]) ++ (e.rs.map (·.id)).drop j := by simp
        rw [this, List.drop_left' (by simp [hlt])]
      rw [e1, e2, List.take_append_drop]
    obtain ⟨h1, h2⟩ := hfin ((rs'[j]?.map (·.r)).getD default)
    have hnd := nodup_insert_fresh (e.rs.map (·.id)) j e.nextId hid.1 (by
      intro x hx
      obtain ⟨o, ho, rfl⟩ := List.mem_map.mp hx
      exact hid.2 o ho)
    refine ⟨?_, ?_⟩
    · show ((insertRange _ _ j).rs.map (·.id)).Nodup
      rw [h1]; exact hnd.1
    · intro o ho
      show o.id < (insertRange _ _ j).nextId
      rw [h2]
      apply hnd.2
      rw [← h1]
      exact List.mem_map.mpr ⟨o, ho, rfl⟩

theorem deleteNthE_ids (cfg : Cfg) (e : EL) (n : Nat) (hid : e.IdsOk) : (deleteNthE cfg e n).IdsOk := by
  obtain ⟨h1, _, h3, _⟩ := deleteNthE_fields cfg e n
  have h0 := deleteNthE0_ids cfg e n hid
  unfold EL.IdsOk at h0 ⊢
  rw [h1, h3]; exact h0

/-! ### no iterator appears from nowhere -/
theorem deleteRange_its (cfg : Cfg) (e : EL) (n : Nat) (h : e.its = []) : (deleteRange cfg e n).its = [] := by
  unfold deleteRange
  simp only
  split <;> simp [shiftIterators, h]

theorem insertRange_its (e : EL) (r : HRange) (n : Nat) (h : e.its = []) : (insertRange e r n).its = [] := by
  unfold insertRange
  split
  · exact h
  · simp [h]

theorem deleteNthE_its (cfg : Cfg) (e : EL) (n : Nat) (h : e.its = []) : (deleteNthE cfg e n).its = [] := by
  refine (deleteNthE_fields cfg e n).2.2.2 ?_
  unfold deleteNthE0
  generalize deleteNthRs e.nextId e.rs n 0 0 = res
  obtain ⟨rs', c⟩ := res
  cases c with
  | none => exact h
  | deleted i => exact deleteRange_its cfg e i h
  | inserted j => exact insertRange_its _ _ _ h

/-! ### the high bounds only ever go down -/
/-- every record's high bound is below B -/
def EL.HiBelow (B : Nat) (e : EL) : Prop := ∀ r ∈ e.ranges, r.hi < B

theorem deleteNthR_hi (B : Nat) : ∀ (rs : List HRange) (n count : Nat), (∀ r ∈ rs, r.Good) → count ≤ n →
    n - count < (hostsL rs).length → (∀ r ∈ rs, r.hi < B) → ∀ q ∈ deleteNthR rs n count, q.hi < B
  | [], _, _, _, _, hlt, _ => by simp [hostsL] at hlt
  | r :: rest, n, count, hg, hc, hlt, hb => by
    have hgr := hg r (by simp)
    have hbr := hb r (by simp)
    have hbrest : ∀ x ∈ rest, x.hi < B := fun x hx => hb x (by simp [hx])
    have hcnt := hgr.count_eq
    simp only [deleteNthR]
    simp only [hostsL, List.flatMap_cons, List.length_append] at hlt
    split
    · rename_i hin
      have hk : n - count < r.hosts.length := by omega
      cases hs : r.single with
      | true => simp only [↓reduceIte]; exact hbrest
      | false =>
        simp only [Bool.false_eq_true, ↓reduceIte]
        rcases hostrangeDeleteHost_cases hgr hs hk with
          ⟨r', hd, he, _, _⟩ | ⟨r', hd, he, _, _, _, _, hhi, _⟩ | ⟨r', hd, he, _, _, _, _, _, hhi, _⟩ |
          ⟨r', up, hd, _, _, _, _, _, hhi1, _, _, hhi2, _⟩
        · rw [hd]; simp only [he, ↓reduceIte]; exact hbrest
        · rw [hd]; simp only [he, Bool.false_eq_true, ↓reduceIte]
          intro q hq
          rcases List.mem_cons.mp hq with rfl | hq
          · omega
          · exact hbrest q hq
        · rw [hd]; simp only [he, Bool.false_eq_true, ↓reduceIte]
          intro q hq
          rcases List.mem_cons.mp hq with rfl | hq
          · omega
          · exact hbrest q hq
        · rw [hd]; simp only
          intro q hq
          simp only [List.mem_cons] at hq
          rcases hq with rfl | rfl | hq
          · omega
          · omega
          · exact hbrest q hq
    · rename_i hout
      have ih := deleteNthR_hi B rest n (count + r.count) (fun x hx => hg x (by simp [hx])) (by omega)
        (by show n - (count + r.count) < (hostsL rest).length; simp only [hostsL]; omega) hbrest
      intro q hq
      rcases List.mem_cons.mp hq with rfl | hq
      · exact hbr
      · exact ih q hq

theorem deleteNthE_hi (cfg : Cfg) (B : Nat) (e : EL) (n : Nat) (hg : e.Good) (hn : n < e.hosts.length)
    (hb : e.HiBelow B) : (deleteNthE cfg e n).HiBelow B := by
  unfold EL.HiBelow
  rw [(deleteNthE_ranges cfg e n).1]
  exact deleteNthR_hi B e.ranges n 0 hg.1 (Nat.zero_le _) (by simpa [hostsL, EL.hosts] using hn) hb

/-! ### `hostlist_find` rewrites widths only -/
theorem hnWithin_hi (name : Str) : ∀ (fuel : Nat) (r : HRange) (hn : Hostname),
    (hnWithin fuel r name hn).2.hi = r.hi
  | 0, _, _ => rfl
  | f + 1, r, hn => by
    unfold hnWithin
    split
    · split <;> rfl
    · cases hn.suffix with
      | none => rfl
      | some suf =>
        simp only
        split
        · rfl
        · split
          · exact hnWithin_hi name f r _
          · split
            · generalize widthEquiv r.lo r.width hn.num suf.length = w
              obtain ⟨ok, wn, wm⟩ := w
              cases ok <;> rfl
            · rfl

theorem findLoop_hi (name : Str) (hn : Hostname) : ∀ (rs : List HRange) (count : Nat),
    (findLoop name hn rs count).2.map (·.hi) = rs.map (·.hi)
  | [], _ => rfl
  | r :: rest, count => by
    unfold findLoop
    have h1 := hnWithin_hi name (name.length + 1) r hn
    generalize hnWithin (name.length + 1) r name hn = w at h1
    obtain ⟨res, r1⟩ := w
    simp only at h1
    cases res with
    | some off => simp [h1]
    | none =>
      simp only
      have ih := findLoop_hi name hn rest (count + r.count)
      generalize findLoop name hn rest (count + r.count) = rec at ih
      obtain ⟨res2, rs2⟩ := rec
      simp only at ih ⊢
      simp [h1, ih]

theorem zip_set_id : ∀ (os : List RObj) (rs : List HRange), os.length = rs.length →
    ((os.zip rs).map fun (p : RObj × HRange) => ({ p.1 with r := p.2 } : RObj)).map (·.id) = os.map (·.id)
  | [], [], _ => rfl
  | [], _ :: _, h => by simp at h
  | _ :: _, [], h => by simp at h
  | o :: os, r :: rs, h => by
    simp only [List.zip_cons_cons, List.map_cons, List.cons.injEq, true_and]
    exact zip_set_id os rs (by simpa using h)

/-- what `hostlist_find` keeps -/
theorem findE_keeps (B : Nat) (e : EL) (x : Str) :
    (e.IdsOk → (findE e x).2.IdsOk) ∧ ((findE e x).2.its = e.its) ∧ (e.HiBelow B → (findE e x).2.HiBelow B) := by
  unfold findE
  generalize hf : findRanges e.ranges x = fr
  obtain ⟨res, rs'⟩ := fr
  simp only
  have hlen : e.rs.length = rs'.length := by
    have := findLoop_length x (hostnameCreate x) e.ranges 0
    unfold findRanges at hf
    rw [hf] at this
    simp only [EL.ranges, List.length_map] at this
    exact this.symm
  have hhi : rs'.map (·.hi) = e.ranges.map (·.hi) := by
    have := findLoop_hi x (hostnameCreate x) e.ranges 0
    unfold findRanges at hf
    rw [hf] at this
    exact this
  refine ⟨?_, trivial, ?_⟩
  · intro hid
    have hids := zip_set_id e.rs rs' hlen
    refine ⟨by
      show (List.map (fun o : RObj => o.id) ((e.rs.zip rs').map fun (p : RObj × HRange) => ({ p.1 with r := p.2 } : RObj))).Nodup
      rw [hids]; exact hid.1, ?_⟩
    intro o ho
    have : o.id ∈ ((e.rs.zip rs').map fun (p : RObj × HRange) => ({ p.1 with r := p.2 } : RObj)).map (·.id) :=
      List.mem_map.mpr ⟨o, ho, rfl⟩
    rw [hids] at this
    obtain ⟨o', ho', he⟩ := List.mem_map.mp this
    show o.id < e.nextId
    rw [← he]; exact hid.2 o' ho'
  · intro hb q hq
    have hr : (EL.ranges { e with rs := (e.rs.zip rs').map fun (o, r) => { o with r := r } }) = rs' := by
      unfold EL.ranges
      exact zip_set_r e.rs rs' hlen
    rw [hr] at hq
    have : q.hi ∈ rs'.map (·.hi) := List.mem_map.mpr ⟨q, hq, rfl⟩
    rw [hhi] at this
    obtain ⟨r, hr', he⟩ := List.mem_map.mp this
    rw [← he]; exact hb r hr'

/-- the three facts the exclusion stage hands on to the filter stage -/
structure Keeps (B : Nat) (e e' : EL) : Prop where
  ids : e.IdsOk → e'.IdsOk
  its : e.its = [] → e'.its = []
  hi : e.HiBelow B → e'.HiBelow B

theorem Keeps.refl (B : Nat) (e : EL) : Keeps B e e := ⟨id, id, id⟩

theorem Keeps.trans {B : Nat} {a b c : EL} (h1 : Keeps B a b) (h2 : Keeps B b c) : Keeps B a c :=
  ⟨fun h => h2.ids (h1.ids h), fun h => h2.its (h1.its h), fun h => h2.hi (h1.hi h)⟩

theorem deleteHostE_keeps (cfg : Cfg) (B : Nat) (e : EL) (x : Str) (hg : e.Good) :
    Keeps B e (deleteHostE cfg e x).2 := by
  obtain ⟨hh, hg1, hsome, _⟩ := findE_spec e x hg
  obtain ⟨k1, k2, k3⟩ := findE_keeps B e x
  unfold deleteHostE
  generalize hf : findE e x = fe at hh hg1 hsome k1 k2 k3
  obtain ⟨res, e1⟩ := fe
  simp only at hh hg1 hsome k1 k2 k3
  cases res with
  | none => exact ⟨k1, fun h => by rw [k2]; exact h, k3⟩
  | some i =>
    simp only
    have hi : i < e1.hosts.length := by
      rw [hh]; exact (List.getElem?_eq_some_iff.mp (hsome i rfl)).1
    exact ⟨fun h => deleteNthE_ids cfg e1 i (k1 h), fun h => deleteNthE_its cfg e1 i (by rw [k2]; exact h),
      fun h => deleteNthE_hi cfg B e1 i hg1 hi (k3 h)⟩

theorem deleteAllE_step (cfg : Cfg) (f : Nat) (e : EL) (x : Str) :
    deleteAllE cfg (f + 1) e x =
      if (deleteHostE cfg e x).1 = 1 then
        ((deleteAllE cfg f (deleteHostE cfg e x).2 x).1 + 1, (deleteAllE cfg f (deleteHostE cfg e x).2 x).2)
      else (0, (deleteHostE cfg e x).2) := by
  conv => lhs; unfold deleteAllE
  generalize deleteHostE cfg e x = d
  obtain ⟨k, e'⟩ := d
  by_cases hk : k = 1
  · subst hk
    simp only [↓reduceIte]
  · simp only [hk, ↓reduceIte]

theorem deleteAllE_keeps (cfg : Cfg) (B : Nat) (x : Str) : ∀ (f : Nat) (e : EL), e.Good →
    Keeps B e (deleteAllE cfg f e x).2
  | 0, e, _ => Keeps.refl B e
  | f + 1, e, hg => by
    have hg1 := (deleteHostE_spec cfg e x hg).1
    have hk := deleteHostE_keeps cfg B e x hg
    rw [deleteAllE_step]
    split
    · exact hk.trans (deleteAllE_keeps cfg B x f _ hg1)
    · exact hk

theorem deleteNameE_keeps (cfg : Cfg) (B : Nat) (e : EL) (x : Str) (hg : e.Good) :
    Keeps B e (deleteNameE cfg e x).2 := by
  unfold deleteNameE
  split
  · exact deleteAllE_keeps cfg B x _ e hg
  · exact deleteHostE_keeps cfg B e x hg

/-! ### pushing keeps the record identities distinct -/
theorem pushRangeE_keeps (e : EL) (r : HRange) :
    (e.IdsOk → (pushRangeE e r).IdsOk) ∧ (pushRangeE e r).its = e.its := by
  have hfresh : (e.IdsOk → EL.IdsOk ⟨e.rs ++ [⟨e.nextId, r⟩], e.nhosts + r.count, e.nextId + 1, e.its⟩) := by
    intro hid
    refine ⟨?_, ?_⟩
    · show ((e.rs ++ [(⟨e.nextId, r⟩ : RObj)]).map (·.id)).Nodup
      rw [List.map_append, List.nodup_append]
      refine ⟨hid.1, by simp, ?_⟩
      intro a ha b hb
      simp only [List.map_cons, List.map_nil, List.mem_singleton] at hb
      obtain ⟨o, ho, rfl⟩ := List.mem_map.mp ha
      have := hid.2 o ho
      omega
    · intro o ho
      have ho' : o ∈ e.rs ++ [(⟨e.nextId, r⟩ : RObj)] := ho
      simp only [List.mem_append, List.mem_singleton] at ho'
      show o.id < e.nextId + 1
      rcases ho' with ho' | rfl
      · have := hid.2 o ho'; omega
      · simp
  unfold pushRangeE
  simp only
  cases hl : e.rs.getLast? with
  | none => exact ⟨hfresh, rfl⟩
  | some t =>
    simp only
    split
    · generalize widthCombine t.r r = w
      obtain ⟨ok, wt, wr⟩ := w
      cases ok with
      | false => exact ⟨hfresh, rfl⟩
      | true =>
        simp only
        refine ⟨?_, trivial⟩
        intro hid
        have hne : e.rs ≠ [] := by intro h; simp [h] at hl
        have hgl : e.rs.getLast hne = t := by
          rw [List.getLast?_eq_some_getLast hne] at hl; exact Option.some.inj hl
        have hsplit : e.rs = e.rs.dropLast ++ [t] := by
          have := List.dropLast_concat_getLast hne
          rw [hgl] at this; exact this.symm
        have hids : (e.rs.dropLast ++ [({ t with r := { t.r with hi := r.hi, width := wt } } : RObj)]).map (·.id) =
            e.rs.map (·.id) := by
          conv => rhs; rw [hsplit]
          simp
        refine ⟨by show (List.map (·.id) (e.rs.dropLast ++ [_])).Nodup; rw [hids]; exact hid.1, ?_⟩
        intro o ho
        have : o.id ∈ (e.rs.dropLast ++ [({ t with r := { t.r with hi := r.hi, width := wt } } : RObj)]).map (·.id) :=
          List.mem_map.mpr ⟨o, ho, rfl⟩
        rw [hids] at this
        obtain ⟨o', ho', he⟩ := List.mem_map.mp this
        show o.id < e.nextId
        rw [← he]; exact hid.2 o' ho'
    · exact ⟨hfresh, rfl⟩

theorem foldl_pushRangeE (rs : List HRange) : ∀ (e : EL), e.Good → (∀ r ∈ rs, r.Good) →
    (rs.foldl pushRangeE e).Good ∧ (rs.foldl pushRangeE e).hosts = e.hosts ++ hostsL rs ∧
    (e.IdsOk → (rs.foldl pushRangeE e).IdsOk) ∧ (rs.foldl pushRangeE e).its = e.its := by
  induction rs with
  | nil => intro e hg _; exact ⟨hg, by simp [hostsL], id, rfl⟩
  | cons r rest ih =>
    intro e hg hr
    obtain ⟨g1, h1⟩ := pushRangeE_hosts e r hg (hr r (by simp))
    obtain ⟨k1, k2⟩ := pushRangeE_keeps e r
    obtain ⟨g2, h2, k3, k4⟩ := ih (pushRangeE e r) g1 (fun x hx => hr x (by simp [hx]))
    simp only [List.foldl_cons]
    refine ⟨g2, ?_, fun h => k3 (k1 h), by rw [k4, k2]⟩
    rw [h2, h1, hostsL_cons, List.append_assoc]

/-- `hostlist_push_list` onto the editable list -/
theorem pushListE_spec (e : EL) (n : HL) (hg : e.Good) (hn : n.Good) :
    (pushListE e n).Good ∧ (pushListE e n).hosts = e.hosts ++ n.hosts ∧
    (e.IdsOk → (pushListE e n).IdsOk) ∧ (pushListE e n).its = e.its := by
  unfold pushListE
  exact foldl_pushRangeE n.ranges.toList e hg hn.1


end PdshVerif.Hostlist
