/-
  hostlist.c: `_next_tok`, `_parse_single_range`, `_parse_range_list`, `_push_range_list`,
  `_push_range_list_with_suffix`, `_hostlist_create_bracketed`, `hostlist_create`.

  DEFECT SWITCHES in this file (each reads one field of `cfg : Cfg`, see Basic.lean):
    D15/D25 `ulongMaxRejected`  (u64 wrap of hi-lo+1, clamped numbers and 2^64-1 itself accepted)
    D16     `loTextOk`, `hiTextOk` (bounds need not be digit strings)
    D18     `curTok`            (strncpy into cur_tok[1024] without terminator)
    D22     `suffixOk`          (brackets outside the first pair of a token are never checked)
    D23     `suffixedName`      (names on the suffix path are cut to 4095 bytes)
-/
import PdshVerif.Hostlist.Push

namespace PdshVerif.Hostlist
open PdshVerif.Gen

/-- result of an API call of the C library as far as it is observable -/
inductive Outcome (α : Type) where
  | ok (v : α)
  /-- NULL returned with this `errno`; `fatal` = diagnostic passed to `lsd_fatal_error` before
      (in pdsh that call is `errx`: the process exits with status 1 at that point) -/
  | null (errno : Nat) (fatal : Fatal)
  /-- undefined behaviour: the C code reads an unterminated / uninitialised buffer -/
  | ub (what : String)
  /-- the C loop never terminates and allocates on every round -/
  | diverge
  deriving Repr, DecidableEq

/-! ### `_next_tok` (hostlist.c and, textually identical, split.c) -/
def isSep (sep : Str) (c : Char) : Bool := sep.contains c

/-- the token scan: stops at the first separator seen at bracket level 0 (level is a C `int`
    and may go negative: `a],b` is ONE token) -/
def scanTok (sep : Str) : Int → Str → Str × Str
  | _, [] => ([], [])
  | lvl, c :: cs =>
    if lvl ≠ 0 || !isSep sep c then
      let lvl' := if c = '[' then lvl + 1 else if c = ']' then lvl - 1 else lvl
      match scanTok sep lvl' cs with
      | (t, r) => (c :: t, r)
    else ([], c :: cs)

/-- `_next_tok(sep, &str)`: `none` = NULL; otherwise the token and the advanced `*str` -/
def nextTok (sep : Str) (s : Str) : Option (Str × Str) :=
  match s.dropWhile (isSep sep) with
  | [] => none
  | s1 =>
    match scanTok sep 0 s1 with
    | (tok, rest) => some (tok, rest.dropWhile (isSep sep))

def tokensFuel (sep : Str) : Nat → Str → List Str
  | 0, _ => []
  | f + 1, s =>
    match nextTok sep s with
    | none => []
    | some (t, r) => t :: tokensFuel sep f r

/-- all tokens `_next_tok` yields when called until NULL (every call consumes ≥ 1 character) -/
def tokens (sep : Str) (s : Str) : List Str := tokensFuel sep (s.length + 1) s

/-! ### `_parse_single_range` -/
structure SR where
  lo : Nat
  hi : Nat
  width : Nat
  deriving Repr, DecidableEq, Inhabited

/-- the size test `range->hi - range->lo + 1 > MAX_RANGE` in `unsigned long`: wraps to 0 for
    0..2^64-1 (DEFECT D15).  The repaired test `hi - lo >= MAX_RANGE` agrees with it whenever
    hi ≠ 2^64-1, and 2^64-1 is refused separately there (`ulongMaxRejected`). -/
def rangeTooBig (lo hi : Nat) : Bool := addU64 (subU64 hi lo) 1 > MAX_RANGE
/-- the repaired size test on its own -/
def rangeTooBigFixed (lo hi : Nat) : Bool := subU64 hi lo ≥ MAX_RANGE

/-- DEFECT D15/D25: `strtoul` clamps every number ≥ 2^64 to ULONG_MAX, and ULONG_MAX is the
    "empty" mark of `hostrange_empty`, ends no `for (j = lo; j <= hi; j++)` and is joined across
    the wrap by `tail->hi == hr->lo - 1`; the unchanged code accepts it as a bound.
    Repaired: `range->hi == ULONG_MAX` ⇒ "Too many hosts". -/
def ulongMaxRejected (cfg : Cfg) (hi : Nat) : Bool := cfg.fixUlongMax && hi = ULONG_MAX

/-- DEFECT D16: the text of a bound is whatever `strtoul` accepts (leading white space, a sign,
    trailing garbage on the low bound when a `-hi` part follows, an empty high bound).
    Repaired: `str[strspn(str, "0123456789")] != 0 || (p && (!*p || p[strspn(p, ..)] != 0))` fails
    (an empty low text is caught by `q == str` as before). -/
def loTextOk (cfg : Cfg) (s : Str) : Bool := !cfg.fixDigits || s.all isDigit
def hiTextOk (cfg : Cfg) (s : Str) : Bool := !cfg.fixDigits || (!s.isEmpty && s.all isDigit)

inductive PR where
  | ok (r : SR) (errno : Nat)
  | fail (errno : Nat) (fatal : Fatal)
  deriving Repr, DecidableEq

/-- D16 test applied to the low text and, when a `-` was found, to the high text -/
def boundsOk (cfg : Cfg) (str : Str) : Option Str → Bool
  | some t => loTextOk cfg str && hiTextOk cfg t
  | none => loTextOk cfg str

/-- `hi = (p && *p) ? strtoul(p, &q, 10) : lo`: the high part is parsed only when non-empty -/
def hiPartOf : Option Str → Option Strtoul
  | some (c :: t) => some (strtoul (c :: t))
  | _ => none

/-- the last two tests of `_parse_single_range`: order, size -/
def rangeCheck (cfg : Cfg) (errno width lo hi : Nat) : PR :=
  if lo > hi then .fail EINVAL .invalidRange
  else if rangeTooBig lo hi || ulongMaxRejected cfg hi then .fail ERANGE .tooMany
  else .ok ⟨lo, hi, width⟩ errno

/-- `_parse_single_range(str, &range)`; `errno` is threaded because a stale value can surface
    later (`_parse_range_list` returns -1 without setting it when there are too many ranges) -/
def parseSingleRange (cfg : Cfg) (errno : Nat) (s : Str) : PR :=
  match cutAt '-' s with
  | (str, p) =>
    if (p.bind List.head?) = some '-' then .fail EINVAL .invalidRange   -- "do NOT allow negative numbers"
    else if !boundsOk cfg str p then .fail EINVAL .invalidRange         -- D16 (repaired code only)
    else if !(strtoul str).converted then .fail EINVAL .invalidRange    -- q == str
    else
      match hiPartOf p with
      | some r =>
        -- q == p || *q != '\0'
        if !r.converted || !r.rest.isEmpty then .fail EINVAL .invalidRange
        else rangeCheck cfg (if r.erange then ERANGE else if (strtoul str).erange then ERANGE else errno)
               str.length (strtoul str).val r.val
      | none =>
        -- no high part: q still points into the low part, `*q != '\0'` tests ITS remainder
        if !(strtoul str).rest.isEmpty then .fail EINVAL .invalidRange
        else rangeCheck cfg (if (strtoul str).erange then ERANGE else errno)
               str.length (strtoul str).val (strtoul str).val

/-! ### `_parse_range_list` -/
inductive PRL where
  | ok (rs : Array SR) (errno : Nat)
  | fail (errno : Nat) (fatal : Fatal)
  deriving Repr, DecidableEq

def parseRangeItems (cfg : Cfg) : List Str → Nat → Nat → Array SR → PRL
  | [], _, e, acc => .ok acc e
  | it :: rest, count, e, acc =>
    if count = MAX_RANGES then .fail e .none          -- `return -1`, errno NOT set (stale value)
    else
      match parseSingleRange cfg e it with
      | .ok r e' => parseRangeItems cfg rest (count + 1) e' (acc.push r)
      | .fail e' f => .fail e' f

/-- `_parse_range_list(str, ranges, MAX_RANGES)` -/
def parseRangeList (cfg : Cfg) (errno : Nat) (body : Str) : PRL :=
  parseRangeItems cfg (splitAll ',' body) 0 errno #[]

/-! ### pushing the parsed ranges -/
/-- `_push_range_list` -/
def pushRangeList (h : HL) (pfx : Str) (rs : List SR) : HL :=
  rs.foldl (fun h r => pushRange h (HRange.mk' pfx r.lo r.hi r.width)) h

/-- size of `char host[4096]` in `_push_range_list_with_suffix` -/
def HOSTBUF : Nat := 4096

/-- DEFECT D23: `snprintf(host, 4096, "%s%0*lu%s", pfx, width, j, sfx)` cuts the name to 4095
    bytes.   Repaired: the buffer is sized from its parts. -/
def suffixedName (cfg : Cfg) (pfx sfx : Str) (w j : Nat) : Str :=
  if cfg.fixHostBuf then pfx ++ fmtPad w j ++ sfx else (pfx ++ fmtPad w j ++ sfx).take (HOSTBUF - 1)

/-- one range of `_push_range_list_with_suffix`: `for (j = lo; j <= hi; j++)` with `unsigned long j`
    never ends when hi = 2^64-1 (every round allocates a record) -/
def pushSuffixRange (cfg : Cfg) (h : HL) (pfx sfx : Str) (r : SR) : Outcome HL :=
  if r.hi = ULONG_MAX then .diverge
  else .ok ((List.range' r.lo (r.hi + 1 - r.lo)).foldl
              (fun h j => pushRange h (HRange.mkSingle (suffixedName cfg pfx sfx r.width j))) h)

/-- `_push_range_list_with_suffix` -/
def pushRangeListWithSuffix (cfg : Cfg) (h : HL) (pfx sfx : Str) : List SR → Outcome HL
  | [] => .ok h
  | r :: rs =>
    match pushSuffixRange cfg h pfx sfx r with
    | .ok h' => pushRangeListWithSuffix cfg h' pfx sfx rs
    | o => o

/-! ### `_hostlist_create_bracketed` -/
/-- size of `char cur_tok[1024]` -/
def CURTOK : Nat := 1024

/-- DEFECT D18: `strncpy(cur_tok, tok, 1023)` writes no terminator when the token has ≥ 1023
    bytes and `cur_tok[1023]` is never initialised; `hostlist_push_host(cur_tok)` then reads an
    unterminated array (`none`).   Repaired: `tok` itself is pushed. -/
def curTok (cfg : Cfg) (tok : Str) : Option Str :=
  if cfg.fixCurTok || tok.length < CURTOK - 1 then some tok else none

/-- `_brackets_balanced(str)` of the repaired code: the level never drops below 0 and ends at 0 -/
def bracketsBalanced : Nat → Str → Bool
  | lvl, [] => lvl == 0
  | lvl, c :: cs =>
    if c = '[' then bracketsBalanced (lvl + 1) cs
    else if c = ']' then (match lvl with | 0 => false | l + 1 => bracketsBalanced l cs)
    else bracketsBalanced lvl cs

/-- DEFECT D22: only the first `[`..`]` pair of a token is looked at; a `]` in front of it and
    whatever follows it are taken as name text (`a][1]`, `a[1]]`, `a[1]b[`).
    Repaired: `strchr(prefix, ']') || !_brackets_balanced(q + 1)` ⇒ error_unmatched. -/
def suffixOk (cfg : Cfg) (pfx sfx : Str) : Bool :=
  !cfg.fixSuffixBal || (!pfx.contains ']' && bracketsBalanced 0 sfx)

/-- parser state: the list built so far and the current `errno` -/
structure PSt where
  hl : HL
  errno : Nat
  deriving Repr, DecidableEq

/-- body of the `while ((tok = _next_tok(sep, &str)))` loop for one token -/
def pushTok (cfg : Cfg) (st : PSt) (tok : Str) : Outcome PSt :=
  match cutAt '[' tok with
  | (pfx, some p) =>
    match cutAt ']' p with
    | (body, some sfx) =>
      if !suffixOk cfg pfx sfx then .null EINVAL .none      -- error_unmatched (repaired code only)
      else
        match parseRangeList cfg st.errno body with
        | .fail e f => .null e f
        | .ok rs e =>
          if sfx.isEmpty then .ok ⟨pushRangeList st.hl pfx rs.toList, e⟩
          else
            match pushRangeListWithSuffix cfg st.hl pfx sfx rs.toList with
            | .ok h => .ok ⟨h, e⟩
            | .null e' f => .null e' f
            | .ub w => .ub w
            | .diverge => .diverge
    | (_, none) => .null EINVAL .none                 -- error_unmatched
  | (_, none) =>
    if tok.contains ']' then .null EINVAL .none       -- error_unmatched
    else
      match curTok cfg tok with
      | none => .ub "cur_tok unterminated"
      | some name =>
        .ok ⟨pushHost st.hl name, if (hostnameCreate name).erange then ERANGE else st.errno⟩

def createToks (cfg : Cfg) (st : PSt) : List Str → Outcome PSt
  | [] => .ok st
  | t :: ts =>
    match pushTok cfg st t with
    | .ok st' => createToks cfg st' ts
    | o => o

/-- the separators of `hostlist_create`: `"\t, "` -/
def hlSep : Str := ['\t', ',', ' ']

/-- `hostlist_create(str)` entered with `errno = errno0` -/
def createFrom (cfg : Cfg) (errno0 : Nat) (s : Str) : Outcome HL :=
  match createToks cfg ⟨HL.new, errno0⟩ (tokens hlSep s) with
  | .ok st => .ok st.hl
  | .null e f => .null e f
  | .ub w => .ub w
  | .diverge => .diverge

/-- `hostlist_create(str)` (errno = 0 on entry, as the harness arranges) -/
def create (cfg : Cfg) (s : Str) : Outcome HL := createFrom cfg 0 s

end PdshVerif.Hostlist
