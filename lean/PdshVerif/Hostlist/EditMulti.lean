/-
  C16 `edit_refines` for ANY finite set of live iterators.

  State = the editable list `e` (range records + one `ItSt` per live iterator, keyed by slot) against
  the plain list `p` (names + one cursor per slot).  `RefM cfg e p fr`: every iterator, looked at on
  its own (`e.withIts [(0, it)]`), refines its cursor in the sense of `Ref` (Hostlist/EditRefine.lean).

  Why looking at one iterator at a time is enough: every structural operation of hostlist.c re-bases
  the iterators by ONE rule applied to each of them (`hostlist_shift_iterators`, the loops over
  `hl->ilist` in `hostlist_delete_range` / `hostlist_insert_range` / `hostlist_pop`): the operation is
  UNIFORM (`UnifM`) — its effect on the records does not depend on the iterators and its effect on an
  iterator does not depend on the other iterators.  `RefM.lift` turns a one-iterator refinement theorem
  of a uniform operation into the theorem for any number of iterators.
-/
import PdshVerif.Hostlist.EditRefineUniq
import PdshVerif.Hostlist.EditRefineText

namespace PdshVerif.Hostlist
open PdshVerif.Gen

/-! ### lists in step -/
inductive All2 {α β : Type} (R : α → β → Prop) : List α → List β → Prop
  | nil : All2 R [] []
  | cons {a b l m} : R a b → All2 R l m → All2 R (a :: l) (b :: m)

theorem All2.map {α β α' β' : Type} {R : α → β → Prop} {R' : α' → β' → Prop} (f : α → α') (g : β → β')
    (h : ∀ a b, R a b → R' (f a) (g b)) : ∀ {l m}, All2 R l m → All2 R' (l.map f) (m.map g)
  | _, _, .nil => .nil
  | _, _, .cons hab hl => .cons (h _ _ hab) (All2.map f g h hl)

theorem All2.imp {α β : Type} {R R' : α → β → Prop} (h : ∀ a b, R a b → R' a b) :
    ∀ {l m}, All2 R l m → All2 R' l m
  | _, _, .nil => .nil
  | _, _, .cons hab hl => .cons (h _ _ hab) (All2.imp h hl)

/-! ### one iterator at a time -/
def EL.withIts (e : EL) (l : List (Nat × ItSt)) : EL := { e with its := l }
def liftIt (f : ItSt → ItSt) (q : Nat × ItSt) : Nat × ItSt := (q.1, f q.2)
def liftCur (g : Nat → Nat) (q : Nat × Nat) : Nat × Nat := (q.1, g q.2)

@[simp] theorem EL.withIts_its (e : EL) (l : List (Nat × ItSt)) : (e.withIts l).its = l := rfl
@[simp] theorem EL.withIts_withIts (e : EL) (l m : List (Nat × ItSt)) : (e.withIts l).withIts m = e.withIts m := rfl
/-- `hl->hr[i]` as a function of the record array alone -/
def hrAtL (rs : List RObj) (i : Int) : Option Nat := if i < 0 then none else (rs[i.toNat]?).map (·.id)
theorem EL.hrAt_eq (e : EL) (i : Int) : e.hrAt i = hrAtL e.rs i := rfl
theorem EL.resetIt_eq (e : EL) : e.resetIt = ⟨0, -1, hrAtL e.rs 0⟩ := rfl
@[simp] theorem EL.withIts_rs (e : EL) (l : List (Nat × ItSt)) : (e.withIts l).rs = e.rs := rfl
@[simp] theorem EL.withIts_nhosts (e : EL) (l : List (Nat × ItSt)) : (e.withIts l).nhosts = e.nhosts := rfl
@[simp] theorem EL.withIts_nextId (e : EL) (l : List (Nat × ItSt)) : (e.withIts l).nextId = e.nextId := rfl
theorem EL.withIts_self (e : EL) : e.withIts e.its = e := rfl
theorem map_liftIt_id (l : List (Nat × ItSt)) : l.map (liftIt id) = l := by
  induction l with
  | nil => rfl
  | cons a l ih => simp [liftIt, ih]

theorem map_keys_liftIt (F : ItSt → ItSt) (l : List (Nat × ItSt)) : (l.map (liftIt F)).map (·.1) = l.map (·.1) := by
  induction l with
  | nil => rfl
  | cons a l ih => simp [liftIt, ih]

/-- a rule that keeps the key and treats the iterator without looking at the key is a `liftIt` -/
theorem map_keyed (φ : Nat × ItSt → Nat × ItSt) (hφ : ∀ k it, φ (k, it) = (k, (φ (0, it)).2)) (l : List (Nat × ItSt)) :
    l.map φ = l.map (liftIt fun it => (φ (0, it)).2) := by
  apply List.map_congr_left
  intro ⟨k, it⟩ _
  exact hφ k it

/-- the operation re-bases every iterator by one rule and does the same to the records whatever the
    iterators are -/
def UnifM {α : Type} (op : EL → EM (α × EL)) : Prop :=
  ∀ e : EL, ∃ F : ItSt → ItSt, ∀ l,
    op (e.withIts l) =
      match op (e.withIts []) with
      | .error w => .error w
      | .ok (a, e0) => .ok (a, e0.withIts (l.map (liftIt F)))

def Unif (op : EL → EL) : Prop :=
  ∀ e : EL, ∃ F : ItSt → ItSt, ∀ l, op (e.withIts l) = (op (e.withIts [])).withIts (l.map (liftIt F))

theorem Unif.nil {op : EL → EL} (h : Unif op) (e : EL) : (op (e.withIts [])).its = [] := by
  obtain ⟨F, hF⟩ := h e
  have := hF []
  rw [this]
  rfl

theorem Unif.comp {f g : EL → EL} (hf : Unif f) (hg : Unif g) : Unif (fun e => g (f e)) := by
  intro e
  obtain ⟨F1, h1⟩ := hf e
  obtain ⟨F2, h2⟩ := hg (f (e.withIts []))
  refine ⟨fun it => F2 (F1 it), fun l => ?_⟩
  have hn := hf.nil e
  have hself : (f (e.withIts [])).withIts [] = f (e.withIts []) := by
    have := EL.withIts_self (f (e.withIts []))
    rw [hn] at this; exact this
  show g (f (e.withIts l)) = _
  rw [h1 l, h2 (l.map (liftIt F1)), hself, List.map_map]
  rfl

theorem Unif.toM {op : EL → EL} (h : Unif op) {α : Type} (a : α) : UnifM (fun e => .ok (a, op e)) := by
  intro e
  obtain ⟨F, hF⟩ := h e
  exact ⟨F, fun l => by simp only [hF l]⟩

theorem unif_id : Unif (fun e => e) := fun _ => ⟨id, fun l => by rw [map_liftIt_id]; rfl⟩

/-- only the record array / the counters change, by values that do not depend on the iterators -/
theorem unif_set (rsf : EL → List RObj) (nhf : EL → Int) (nxf : EL → Nat)
    (h1 : ∀ e l, rsf (e.withIts l) = rsf e) (h2 : ∀ e l, nhf (e.withIts l) = nhf e) (h3 : ∀ e l, nxf (e.withIts l) = nxf e) :
    Unif (fun e => { e with rs := rsf e, nhosts := nhf e, nextId := nxf e }) := by
  intro e
  refine ⟨id, fun l => ?_⟩
  rw [map_liftIt_id]
  simp only [EL.withIts, h1, h2, h3]
  rw [show rsf { e with its := [] } = rsf e from h1 e [], show nhf { e with its := [] } = nhf e from h2 e [],
    show nxf { e with its := [] } = nxf e from h3 e []]
  rw [show rsf { e with its := l } = rsf e from h1 e l, show nhf { e with its := l } = nhf e from h2 e l,
    show nxf { e with its := l } = nxf e from h3 e l]

/-- `hostlist_shift_iterators` -/
theorem unif_shiftIterators (idx depth n : Int) : Unif (fun e => shiftIterators e idx depth n) := by
  intro e
  apply Exists.intro
  intro l
  · show ({ e with its := l.map _ } : EL) = { e with its := _ }
    congr 1
    simp only [EL.hrAt_eq, EL.resetIt_eq, EL.withIts_rs]
    apply map_keyed
    intro k it
    simp only
    repeat (first | rfl | split)

/-- `hostlist_delete_range` -/
theorem unif_deleteRange (cfg : Cfg) (n : Nat) : Unif (fun e => deleteRange cfg e n) := by
  intro e
  rcases Bool.eq_false_or_eq_true cfg.fixRemoveDepth with hfx | hfx
  · apply Exists.intro
    intro l
    · simp only [deleteRange, hfx, Bool.not_true, Bool.false_eq_true, ↓reduceIte]
      show ({ e with rs := e.rs.eraseIdx n, its := l.map _ } : EL) = { e with rs := e.rs.eraseIdx n, its := _ }
      congr 1
      simp only [EL.hrAt_eq, EL.resetIt_eq, EL.withIts_rs]
      apply map_keyed
      intro k it
      simp only
      repeat (first | rfl | split)
  · obtain ⟨F, hF⟩ := unif_shiftIterators n 0 1 ({ e with rs := e.rs.eraseIdx n })
    refine ⟨F, fun l => ?_⟩
    simp only [deleteRange, hfx, Bool.not_false, ↓reduceIte]
    exact hF l

/-! ### the refinement relation for many iterators -/
structure RefM (cfg : Cfg) (e : EL) (p : EditSpec.PL) (fr : Nat → Bool) : Prop where
  /-- the list itself, seen through a fresh iterator -/
  base : Ref cfg (e.withIts [(0, e.resetIt)]) ⟨p.names, [(0, 0)]⟩ 0 false
  keys : (e.its.map (·.1)).Nodup
  /-- slot by slot: the same key, and the iterator alone refines its cursor -/
  each : All2 (fun a b => a.1 = b.1 ∧ Ref cfg (e.withIts [(0, a.2)]) ⟨p.names, [(0, b.2)]⟩ b.2 (fr a.1)) e.its p.cur

/-- from any one-iterator view: the list seen through a fresh iterator -/
theorem Ref.rebase {cfg : Cfg} {e : EL} {p : EditSpec.PL} {c : Nat} {fr : Bool} (h : Ref cfg e p c fr) :
    Ref cfg (e.withIts [(0, e.resetIt)]) ⟨p.names, [(0, 0)]⟩ 0 false := by
  have h0 := reset_refines cfg e p c fr h
  obtain ⟨i, k, hc, _, _⟩ := h.pos
  have he : itReset e 0 = e.withIts [(0, e.resetIt)] := by
    unfold itReset
    show e.setIt 0 e.resetIt = _
    have := hc.setIt e.resetIt
    cases e
    simp only [EL.setIt, EL.withIts] at this ⊢
    rw [this]
  have hp : EditSpec.itReset p 0 = ⟨p.names, [(0, 0)]⟩ := by
    unfold EditSpec.itReset EditSpec.setCur; rw [h.cur]; simp
  rw [he, hp] at h0
  exact h0

theorem Ref.cur_eq {cfg : Cfg} {e : EL} {names : List Str} {c c' : Nat} {fr : Bool}
    (h : Ref cfg e ⟨names, [(0, c)]⟩ c' fr) : c' = c := by
  have := h.cur
  simp only [List.cons.injEq, Prod.mk.injEq, true_and, and_true] at this
  exact this.symm

/-- the spec operation moves every cursor by one rule -/
def UnifS (sop : EditSpec.PL → EditSpec.PL) : Prop :=
  ∀ names : List Str, ∃ (names' : List Str) (g : Nat → Nat), ∀ cur, sop ⟨names, cur⟩ = ⟨names', cur.map (liftCur g)⟩

theorem unifS_delPos (pos : Nat) : UnifS (fun p => p.delPos pos) := by
  intro names
  refine ⟨names.eraseIdx pos, fun c => if c > pos then c - 1 else c, fun cur => ?_⟩
  unfold EditSpec.PL.delPos
  congr 1

theorem map_liftCur_id (l : List (Nat × Nat)) : l.map (liftCur id) = l := by
  induction l with
  | nil => rfl
  | cons a l ih => simp [liftCur, ih]

theorem unifS_id : UnifS (fun p => p) := fun names => ⟨names, id, fun cur => by rw [map_liftCur_id]⟩

theorem map_keys_liftCur (g : Nat → Nat) (l : List (Nat × Nat)) : (l.map (liftCur g)).map (·.1) = l.map (·.1) := by
  induction l with
  | nil => rfl
  | cons a l ih => simp [liftCur, ih]

/-- LIFT: a uniform operation whose one-iterator refinement is known refines for any number of
    iterators (`P`: what the one-iterator theorem asks of the cursor, e.g. "not at the end") -/
theorem RefM.lift {α : Type} {cfg : Cfg} (op : EL → EM (α × EL)) (hU : UnifM op)
    (sop : EditSpec.PL → EditSpec.PL) (hS : UnifS sop) (ans : α) (P : Nat → Prop)
    (e : EL) (p : EditSpec.PL) (fr : Nat → Bool)
    (hs : ∀ it c f, P c → Ref cfg (e.withIts [(0, it)]) ⟨p.names, [(0, c)]⟩ c f →
      ∃ e' c', op (e.withIts [(0, it)]) = .ok (ans, e') ∧ Ref cfg e' (sop ⟨p.names, [(0, c)]⟩) c' false)
    (hP0 : P 0) (hP : ∀ b ∈ p.cur, P b.2)
    (h : RefM cfg e p fr) : ∃ e', op e = .ok (ans, e') ∧ RefM cfg e' (sop p) (fun _ => false) := by
  obtain ⟨F, hF⟩ := hU e
  obtain ⟨names', g, hg⟩ := hS p.names
  -- the records, from the fresh iterator
  obtain ⟨eb, cb, hob, hrb⟩ := hs _ 0 false hP0 h.base
  have hFb := hF [(0, e.resetIt)]
  rw [hob] at hFb
  cases h0 : op (e.withIts []) with
  | error w => rw [h0] at hFb; simp at hFb
  | ok v =>
    obtain ⟨a0, e0⟩ := v
    rw [h0] at hFb
    simp only [Except.ok.injEq, Prod.mk.injEq] at hFb
    obtain ⟨ha, heb⟩ := hFb
    subst ha
    have hop : ∀ l, op (e.withIts l) = .ok (ans, e0.withIts (l.map (liftIt F))) := by
      intro l; rw [hF l, h0]
    refine ⟨e0.withIts (e.its.map (liftIt F)), ?_, ?_⟩
    · have := hop e.its
      rw [EL.withIts_self] at this
      exact this
    · have hsp : sop p = ⟨names', p.cur.map (liftCur g)⟩ := by
        have := hg p.cur
        exact this
      have hbase : Ref cfg (e0.withIts [(0, e0.resetIt)]) ⟨names', [(0, 0)]⟩ 0 false := by
        rw [heb, hg] at hrb
        exact hrb.rebase
      refine ⟨?_, ?_, ?_⟩
      · rw [hsp]; exact hbase
      · show ((e.its.map (liftIt F)).map (·.1)).Nodup
        rw [map_keys_liftIt]; exact h.keys
      · rw [hsp]
        show All2 _ (e.its.map (liftIt F)) (p.cur.map (liftCur g))
        -- every cursor satisfies P
        have hall : All2 (fun a b => (a.1 = b.1 ∧ Ref cfg (e.withIts [(0, a.2)]) ⟨p.names, [(0, b.2)]⟩ b.2 (fr a.1)) ∧ P b.2)
            e.its p.cur := by
          have : ∀ {l m}, All2 (fun (a : Nat × ItSt) (b : Nat × Nat) =>
              a.1 = b.1 ∧ Ref cfg (e.withIts [(0, a.2)]) ⟨p.names, [(0, b.2)]⟩ b.2 (fr a.1)) l m →
              (∀ b ∈ m, P b.2) → All2 (fun a b => (a.1 = b.1 ∧ Ref cfg (e.withIts [(0, a.2)]) ⟨p.names, [(0, b.2)]⟩ b.2 (fr a.1)) ∧ P b.2) l m := by
            intro l m hlm
            induction hlm with
            | nil => intro _; exact .nil
            | cons hab _ ih =>
              intro hm
              exact .cons ⟨hab, hm _ (by simp)⟩ (ih fun b hb => hm b (by simp [hb]))
          exact this h.each hP
        refine All2.map (liftIt F) (liftCur g) ?_ hall
        intro a b ⟨⟨hk, hr⟩, hpb⟩
        refine ⟨hk, ?_⟩
        obtain ⟨e', c', ho, hr'⟩ := hs a.2 b.2 _ hpb hr
        rw [hop [(0, a.2)]] at ho
        simp only [Except.ok.injEq, Prod.mk.injEq, true_and] at ho
        rw [← ho, hg] at hr'
        have hc' := hr'.cur_eq
        show Ref cfg ((e0.withIts (e.its.map (liftIt F))).withIts [(0, F a.2)]) ⟨names', [(0, g b.2)]⟩ (g b.2) false
        rw [EL.withIts_withIts]
        simp only [liftCur, List.map_cons, List.map_nil] at hr' hc'
        subst hc'
        exact hr'

end PdshVerif.Hostlist
