/-
  Iteration lemmas: a fresh iterator (`hostlist_next` until NULL) enumerates exactly the denoted
  hosts of a `Good` list whose printed numbers have < 15 characters (`Narrow`); D17 witness.
-/
import PdshVerif.Hostlist.Lemmas
import PdshVerif.Hostlist.Iter

namespace PdshVerif.Hostlist
open PdshVerif.Gen

/-- every number a range record prints fits the 14 characters `hostlist_next` keeps -/
def HRange.Narrow (r : HRange) : Prop := r.single = false → r.width ≤ 14 ∧ ndig r.hi ≤ 14

instance (r : HRange) : Decidable r.Narrow := by unfold HRange.Narrow; exact inferInstance

/-- `hostlist_next` prints the record's numbers in full: the repaired variant, or narrow numbers -/
def HRange.PrintsFull (cfg : Cfg) (r : HRange) : Prop := cfg.fixIterSuffix = true ∨ r.Narrow

instance (cfg : Cfg) (r : HRange) : Decidable (r.PrintsFull cfg) := by
  unfold HRange.PrintsFull; exact inferInstance

/-- what is left to enumerate from position (range i, k names of it already given) -/
def remaining (L : List HRange) (i k : Nat) : List Str :=
  (match L[i]? with | some r => r.hosts.drop k | none => []) ++ (L.drop (i + 1)).flatMap HRange.hosts

theorem HRange.Good.hosts_length {r : HRange} (h : r.Good) :
    r.hosts.length = if r.single then 1 else r.hi - r.lo + 1 := by
  cases hs : r.single with
  | true => simp [HRange.hosts, hs]
  | false =>
    have := (h.2 hs).1
    simp only [HRange.hosts, hs, Bool.false_eq_true, ↓reduceIte, List.length_map, List.length_range']
    omega

theorem HRange.Good.hosts_pos {r : HRange} (h : r.Good) : 0 < r.hosts.length := by
  rw [h.hosts_length]; split <;> omega

theorem HRange.Good.hosts_lt {r : HRange} (h : r.Good) : r.hosts.length < U64 := by
  have hu : ULONG_MAX + 1 = U64 := by decide
  rw [h.hosts_length]
  cases hs : r.single with
  | true => simp [U64]
  | false =>
    have := (h.2 hs).2
    simp only [Bool.false_eq_true, ↓reduceIte]
    omega

/-- the `unsigned long` quantity `hr->hi - hr->lo` the iterator compares its depth with -/
theorem HRange.Good.span {r : HRange} (h : r.Good) : subU64 r.hi r.lo + 1 = r.hosts.length := by
  have hu : ULONG_MAX + 1 = U64 := by decide
  rw [h.hosts_length]
  cases hs : r.single with
  | true =>
    obtain ⟨h1, h2⟩ := h.1 hs
    rw [h1, h2]; simp [subU64, U64]
  | false =>
    obtain ⟨h1, h2⟩ := h.2 hs
    rw [subU64_of_le h1 (by omega)]
    simp

/-- the k-th name of a good, narrow record as `hostlist_next` prints it -/
theorem HRange.nextName {cfg : Cfg} {r : HRange} (hg : r.Good) (hn : r.PrintsFull cfg) {k : Nat}
    (hk : k < r.hosts.length) :
    r.pre ++ (if r.single then [] else iterSuffix cfg (fmtPad r.width (addU64 r.lo k))) = r.hosts[k] := by
  have hu : ULONG_MAX + 1 = U64 := by decide
  have hl := hg.hosts_length
  cases hs : r.single with
  | true =>
    have h1 : r.hosts = [r.pre] := by simp [HRange.hosts, hs]
    simp only [h1, List.length_cons, List.length_nil, Nat.zero_add, Nat.lt_one_iff] at hk
    subst hk
    simp [h1]
  | false =>
    obtain ⟨h1, h2⟩ := hg.2 hs
    rw [hs] at hl
    simp only [Bool.false_eq_true, ↓reduceIte] at hl
    have hh : r.hosts = (List.range' r.lo (r.hi + 1 - r.lo)).map fun k => r.pre ++ fmtPad r.width k := by
      simp [HRange.hosts, hs]
    have ha : addU64 r.lo k = r.lo + k := by
      unfold addU64; exact Nat.mod_eq_of_lt (by omega)
    simp only [Bool.false_eq_true, ↓reduceIte, hh, List.getElem_map, List.getElem_range', Nat.one_mul, ha]
    congr 1
    unfold iterSuffix
    rcases hn with hfix | hn
    · simp [hfix]
    · obtain ⟨n1, n2⟩ := hn hs
      split
      · rfl
      · apply List.take_of_length_le
        rw [fmtPad_length]
        have := ndig_mono (show r.lo + k ≤ r.hi by omega)
        omega

theorem remaining_cons {L : List HRange} {i k : Nat} {r : HRange} (hr : L[i]? = some r)
    (hk : k < r.hosts.length) : remaining L i k = r.hosts[k] :: remaining L i (k + 1) := by
  unfold remaining
  simp only [hr]
  have := List.drop_eq_getElem_cons hk
  rw [this]
  rfl

theorem remaining_none {L : List HRange} {i k : Nat} (hr : L[i]? = none) : remaining L i k = [] := by
  unfold remaining
  have : L.length ≤ i := by simpa using hr
  simp [hr, List.drop_eq_nil_of_le (Nat.le_succ_of_le this)]

theorem remaining_next {L : List HRange} {i k : Nat} {r : HRange} (hr : L[i]? = some r)
    (hk : r.hosts.length ≤ k) : remaining L i k = remaining L (i + 1) 0 := by
  unfold remaining
  simp only [hr, List.drop_eq_nil_of_le hk, List.nil_append, List.drop_zero]
  cases hn : L[i + 1]? with
  | none =>
    have : L.length ≤ i + 1 := by simpa using hn
    simp [List.drop_eq_nil_of_le this, List.drop_eq_nil_of_le (Nat.le_succ_of_le this)]
  | some r' =>
    obtain ⟨hlt, hget⟩ := List.getElem?_eq_some_iff.mp hn
    rw [List.drop_eq_getElem_cons hlt, hget]
    simp

/-- `hostlist_next` inside a range: k names of range i given, k < its size -/
theorem iterNext_inside (cfg : Cfg) (h : HL) {i k : Nat} {r : HRange} (hr : h.ranges[i]? = some r)
    (hg : r.Good) (hn : r.PrintsFull cfg) (hk : k < r.hosts.length) :
    iterNext cfg h ⟨i, (k : Int) - 1⟩ = (some r.hosts[k], ⟨i, ((k + 1 : Nat) : Int) - 1⟩) := by
  have hspan := hg.span
  have hd : ((k : Int) - 1 + 1) = (k : Int) := by omega
  have hcond : ¬ ((k : Int)).toNat > subU64 r.hi r.lo := by
    simp only [Int.toNat_natCast]; omega
  have e1 : iterAdvance h ⟨i, (k : Int) - 1⟩ = ⟨i, (k : Int)⟩ := by
    simp only [iterAdvance, hr, hd, hcond, ↓reduceIte]
  unfold iterNext
  simp only [e1, hr, Int.toNat_natCast]
  rw [HRange.nextName hg hn hk]
  congr 2
  omega

/-- `hostlist_next` at the end of range i -/
theorem iterAdvance_end (h : HL) {i k : Nat} {r : HRange} (hr : h.ranges[i]? = some r)
    (hg : r.Good) (hk : k = r.hosts.length) :
    iterAdvance h ⟨i, (k : Int) - 1⟩ = ⟨i + 1, 0⟩ := by
  have hspan := hg.span
  have hd : ((k : Int) - 1 + 1) = (k : Int) := by omega
  have hcond : ((k : Int)).toNat > subU64 r.hi r.lo := by
    simp only [Int.toNat_natCast]; omega
  simp only [iterAdvance, hr, hd, hcond, ↓reduceIte]

/-- one `hostlist_next` from position (i, k names given): it returns the head of `remaining`
    and moves to the matching position -/
theorem iterNext_spec (cfg : Cfg) (h : HL) (hg : ∀ r ∈ h.ranges.toList, r.Good)
    (hn : ∀ r ∈ h.ranges.toList, r.PrintsFull cfg) (i k : Nat)
    (hk : ∀ r, h.ranges.toList[i]? = some r → k ≤ r.hosts.length) :
    (remaining h.ranges.toList i k = [] ∧ (iterNext cfg h ⟨i, (k : Int) - 1⟩).1 = none) ∨
    (∃ x xs i' k', remaining h.ranges.toList i k = x :: xs ∧
        iterNext cfg h ⟨i, (k : Int) - 1⟩ = (some x, ⟨i', ((k' : Nat) : Int) - 1⟩) ∧
        remaining h.ranges.toList i' k' = xs ∧
        (∀ r, h.ranges.toList[i']? = some r → k' ≤ r.hosts.length)) := by
  cases hr : h.ranges.toList[i]? with
  | none =>
    left
    have hr' : h.ranges[i]? = none := by rw [← Array.getElem?_toList]; exact hr
    exact ⟨remaining_none hr, by simp [iterNext, iterAdvance, hr']⟩
  | some r =>
    have hr' : h.ranges[i]? = some r := by rw [← Array.getElem?_toList]; exact hr
    have hmem : r ∈ h.ranges.toList := List.mem_of_getElem? hr
    have hgr := hg r hmem
    have hkr := hk r hr
    by_cases hlt : k < r.hosts.length
    · right
      refine ⟨r.hosts[k], _, i, k + 1, remaining_cons hr hlt, iterNext_inside cfg h hr' hgr (hn r hmem) hlt,
        rfl, fun r' hr'' => ?_⟩
      rw [hr] at hr''; cases hr''; omega
    · have hke : k = r.hosts.length := by omega
      have hadv := iterAdvance_end h hr' hgr hke
      cases hr2 : h.ranges.toList[i + 1]? with
      | none =>
        left
        have hr2' : h.ranges[i + 1]? = none := by rw [← Array.getElem?_toList]; exact hr2
        refine ⟨by rw [remaining_next hr (by omega)]; exact remaining_none hr2, ?_⟩
        unfold iterNext
        simp only [hadv, hr2']
      | some r2 =>
        right
        have hr2' : h.ranges[i + 1]? = some r2 := by rw [← Array.getElem?_toList]; exact hr2
        have hmem2 : r2 ∈ h.ranges.toList := List.mem_of_getElem? hr2
        have hpos := (hg r2 hmem2).hosts_pos
        refine ⟨r2.hosts[0], _, i + 1, 1, ?_, ?_, rfl, fun r' hr'' => ?_⟩
        · rw [remaining_next hr (by omega)]; exact remaining_cons hr2 hpos
        · unfold iterNext
          simp only [hadv, hr2']
          have := HRange.nextName (hg r2 hmem2) (hn r2 hmem2) hpos
          simp only [Int.toNat_zero]
          rw [this]
          rfl
        · rw [hr2] at hr''; cases hr''; omega

/-- the loop `while ((host = hostlist_next(i)))` from a position yields `remaining`, cut at the
    number of rounds -/
theorem iterLoop_spec (cfg : Cfg) (h : HL) (hg : ∀ r ∈ h.ranges.toList, r.Good)
    (hn : ∀ r ∈ h.ranges.toList, r.PrintsFull cfg) (n : Nat) : ∀ (i k : Nat),
    (∀ r, h.ranges.toList[i]? = some r → k ≤ r.hosts.length) →
    iterLoop cfg h n ⟨i, (k : Int) - 1⟩ = (remaining h.ranges.toList i k).take n := by
  induction n with
  | zero => intros; simp [iterLoop]
  | succ n ih =>
    intro i k hk
    rcases iterNext_spec cfg h hg hn i k hk with ⟨hrem, hnone⟩ | ⟨x, xs, i', k', hrem, hnx, hrem', hk'⟩
    · rw [hrem]
      unfold iterLoop
      generalize iterNext cfg h ⟨i, (k : Int) - 1⟩ = nx at hnone
      obtain ⟨a, b⟩ := nx
      simp only at hnone
      subst hnone
      simp
    · rw [hrem]
      unfold iterLoop
      rw [hnx]
      simp only [List.take_succ_cons]
      rw [ih i' k' hk', hrem']

theorem remaining_zero (L : List HRange) : remaining L 0 0 = L.flatMap HRange.hosts := by
  unfold remaining
  cases L with
  | nil => simp
  | cons r rs => simp

/-- a fresh iterator over a good, narrow list yields exactly the denoted hosts -/
theorem iterAll_eq (cfg : Cfg) (h : HL) (hg : ∀ r ∈ h.ranges.toList, r.Good)
    (hn : ∀ r ∈ h.ranges.toList, r.PrintsFull cfg) (n : Nat) : iterAll cfg h n = h.hosts.take n := by
  unfold iterAll Iter.new
  have := iterLoop_spec cfg h hg hn n 0 0 (fun _ _ => Nat.zero_le _)
  have e : ((0 : Nat) : Int) - 1 = -1 := by omega
  rw [e] at this
  rw [this, remaining_zero]
  rfl

end PdshVerif.Hostlist
