/-
  SPECIFICATION for C16, written without the model: a plain ordered list of names and, for every
  live iterator, a cursor = the number of list positions it has already passed.
  Policy-free: the order after `uniq` / `sort` is the implementation's choice — the spec takes the
  implementation's resulting list as an input and only says which results are admissible.
-/
import PdshVerif.Hostlist.Spec

namespace PdshVerif.Hostlist.EditSpec
open PdshVerif.Hostlist.Spec

structure PL where
  names : List Str
  cur : List (Nat × Nat)        -- iterator slot ↦ cursor
  deriving Repr, DecidableEq, Inhabited

def PL.new : PL := ⟨[], []⟩

/-- delete list position `pos`: every cursor behind it moves down by one -/
def PL.delPos (p : PL) (pos : Nat) : PL :=
  ⟨p.names.eraseIdx pos, p.cur.map fun (k, c) => (k, if c > pos then c - 1 else c)⟩

/-- the hosts an expression stands for (`none`: the text is not a valid host expression, or one
    of its bounds does not fit below 2^64-1) -/
def exprHosts (s : Str) : Option (List Str) :=
  let v := classify s
  if v.problems.isEmpty && !v.note64 then some v.hosts₁ else none

/-- append the hosts of an expression; the answer is their number (0 when the text is refused) -/
def push (p : PL) (s : Str) : Nat × PL :=
  match exprHosts s with
  | some hs => (hs.length, { p with names := p.names ++ hs })
  | none => (0, p)

def shift (p : PL) : Option Str × PL :=
  match p.names with
  | [] => (none, p)
  | x :: _ => (some x, p.delPos 0)

def pop (p : PL) : Option Str × PL :=
  match p.names.getLast? with
  | none => (none, p)
  | some x => (some x, p.delPos (p.names.length - 1))

/-- position of the first occurrence -/
def find (p : PL) (x : Str) : Option Nat :=
  let i := p.names.idxOf x
  if i < p.names.length then some i else none

def deleteHost (p : PL) (x : Str) : Nat × PL :=
  match find p x with
  | some i => (1, p.delPos i)
  | none => (0, p)

/-- every occurrence of one name goes (cursors follow each removed position); the number removed -/
def deleteAll : Nat → PL → Str → Nat × PL
  | 0, p, _ => (0, p)
  | f + 1, p, x =>
    match find p x with
    | none => (0, p)
    | some i =>
      match deleteAll f (p.delPos i) x with
      | (n, q) => (n + 1, q)

/-- `hostlist_delete(hl, expr)`: the hosts the expression names are deleted from the list — EVERY
    occurrence of every listed name (after the call no listed name is left: what "excluded" means,
    C02); the answer is the number of list positions removed.  The order in which the names are
    taken does not matter for the resulting list nor for the count. -/
def delete (p : PL) (s : Str) : Nat × PL :=
  match exprHosts s with
  | none => (0, p)
  | some hs => hs.foldl (fun (acc : Nat × PL) x =>
      match deleteAll (acc.2.names.length + 1) acc.2 x with
      | (k, q) => (acc.1 + k, q)) (0, p)

def deleteNth (p : PL) (n : Nat) : PL := p.delPos n
def nth (p : PL) (n : Nat) : Option Str := p.names[n]?
def count (p : PL) : Nat := p.names.length

def getCur (p : PL) (k : Nat) : Option Nat := (p.cur.find? (·.1 == k)).map (·.2)
def setCur (p : PL) (k c : Nat) : PL := { p with cur := p.cur.map fun q => if q.1 == k then (k, c) else q }

def itNew (p : PL) (k : Nat) : PL := { p with cur := (k, 0) :: p.cur }
def itFree (p : PL) (k : Nat) : PL := { p with cur := p.cur.filter (·.1 != k) }
def itReset (p : PL) (k : Nat) : PL := setCur p k 0

def itNext (p : PL) (k : Nat) : Option (Option Str × PL) :=
  match getCur p k with
  | none => none
  | some c =>
    match p.names[c]? with
    | some x => some (some x, setCur p k (c + 1))
    | none => some (none, p)

/-- remove the host the iterator returned last (position cursor − 1) -/
def itRemove (p : PL) (k : Nat) : Option PL :=
  match getCur p k with
  | some (c + 1) => some (p.delPos c)
  | _ => none

/-- admissible results of duplicate removal: every distinct name exactly once, none lost
    (any order); all iterators start over -/
def uniqOk (p : PL) (result : List Str) : Bool :=
  decide result.Nodup && result.all (· ∈ p.names) && p.names.all (· ∈ result)

def uniq (p : PL) (result : List Str) : Option PL :=
  if uniqOk p result then some ⟨result, p.cur.map fun (k, _) => (k, 0)⟩ else none

/-- admissible results of sorting: the same names with the same multiplicities -/
def sortOk (p : PL) (result : List Str) : Bool :=
  result.length == p.names.length && p.names.all fun x => result.count x == p.names.count x

def sort (p : PL) (result : List Str) : Option PL :=
  if sortOk p result then some ⟨result, p.cur.map fun (k, _) => (k, 0)⟩ else none

end PdshVerif.Hostlist.EditSpec
