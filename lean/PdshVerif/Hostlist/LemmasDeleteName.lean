/-
  Deleting hosts BY NAME (C02): `hostlist_delete_host` erases one host that carries exactly that
  name, or nothing; the repaired `hostlist_delete` (D1) erases every occurrence of every listed name.
-/
import PdshVerif.Hostlist.LemmasFindComplete

namespace PdshVerif.Hostlist
open PdshVerif.Gen

theorem findLoop_none_eq (name : Str) (hn : Hostname) : ∀ (rs : List HRange) (count : Nat) (rs' : List HRange),
    findLoop name hn rs count = (none, rs') → rs' = rs
  | [], _, rs', h => by simp [findLoop] at h; exact h
  | r :: rest, count, rs', h => by
    unfold findLoop at h
    generalize hw : hnWithin (name.length + 1) r name hn = w at h
    obtain ⟨res, r1⟩ := w
    cases res with
    | some off => simp at h
    | none =>
      simp only at h
      generalize hrec : findLoop name hn rest (count + r.count) = rec at h
      obtain ⟨res2, rs2⟩ := rec
      simp only [Prod.mk.injEq] at h
      obtain ⟨rfl, rfl⟩ := h
      rw [hnWithin_none name _ r hn r1 hw, findLoop_none_eq name hn rest _ rs2 hrec]

theorem zip_set_r : ∀ (os : List RObj) (rs : List HRange), os.length = rs.length →
    ((os.zip rs).map fun (p : RObj × HRange) => ({ p.1 with r := p.2 } : RObj)).map (·.r) = rs
  | [], [], _ => rfl
  | [], _ :: _, h => by simp at h
  | _ :: _, [], h => by simp at h
  | o :: os, r :: rs, h => by
    simp only [List.zip_cons_cons, List.map_cons, List.cons.injEq, true_and]
    exact zip_set_r os rs (by simpa using h)

/-- `hostlist_find` on the editable list: the list denotes what it did, a reported position holds
    exactly the name, and a small name that is not reported is not there -/
theorem findE_spec (e : EL) (x : Str) (hg : e.Good) :
    (findE e x).2.hosts = e.hosts ∧ (findE e x).2.Good ∧
    (∀ i, (findE e x).1 = some i → e.hosts[i]? = some x) ∧
    ((findE e x).1 = none → SmallName x → x ∉ e.hosts) := by
  unfold findE
  generalize hf : findRanges e.ranges x = fr
  obtain ⟨res, rs'⟩ := fr
  simp only
  have hlen : e.rs.length = rs'.length := by
    have := findLoop_length x (hostnameCreate x) e.ranges 0
    unfold findRanges at hf
    rw [hf] at this
    simp only [EL.ranges, List.length_map] at this
    exact this.symm
  have hr : (EL.ranges { e with rs := (e.rs.zip rs').map fun (o, r) => { o with r := r } }) = rs' := by
    unfold EL.ranges
    exact zip_set_r e.rs rs' hlen
  cases res with
  | some i =>
    obtain ⟨hget, hh, hg'⟩ := find_sound_aux e.ranges x i rs' hg.1 hf
    refine ⟨?_, ⟨?_, ?_⟩, ?_, by simp⟩
    · show hostsL (EL.ranges _) = _; rw [hr]; exact hh
    · rw [hr]; exact hg'
    · show e.nhosts = ((hostsL (EL.ranges _)).length : Int); rw [hr, hh]; exact hg.2
    · intro j hj; simp only [Option.some.injEq] at hj; subst hj; exact hget
  | none =>
    unfold findRanges at hf
    have heq : rs' = e.ranges := findLoop_none_eq x _ e.ranges 0 rs' hf
    refine ⟨?_, ⟨?_, ?_⟩, by simp, ?_⟩
    · show hostsL (EL.ranges _) = _; rw [hr, heq]; rfl
    · rw [hr, heq]; exact hg.1
    · show e.nhosts = ((hostsL (EL.ranges _)).length : Int); rw [hr, heq]; exact hg.2
    · intro _ hsm
      exact findLoop_none_not_mem x hsm e.ranges 0 rs' hg.1 hf
where
  find_sound_aux (rs : List HRange) (name : Str) (i : Nat) (rs' : List HRange)
      (hg : ∀ r ∈ rs, r.Good) (h : findRanges rs name = (some i, rs')) :
      (hostsL rs)[i]? = some name ∧ hostsL rs' = hostsL rs ∧ (∀ r ∈ rs', r.Good) := by
    have := findLoop_sound name (hostnameCreate name) (hostnameCreate_hnOf name)
      (by rw [hostnameCreate_eq_at]
          exact hostnameCreateAt_pre_len name _ (Nat.le_refl _) (hostPrefix_split name).1)
      rs 0 i rs' hg h
    simpa using this.2

/-- ONE `hostlist_delete_host`: it returns 1 and erases a host that is exactly `x`, or returns 0 and
    changes nothing (and then, for a small name, `x` was not in the list) — every variant, any
    number of live iterators -/
theorem deleteHostE_spec (cfg : Cfg) (e : EL) (x : Str) (hg : e.Good) :
    (deleteHostE cfg e x).2.Good ∧
    (((deleteHostE cfg e x).1 = 1 ∧ ∃ i, e.hosts[i]? = some x ∧ (deleteHostE cfg e x).2.hosts = e.hosts.eraseIdx i) ∨
     ((deleteHostE cfg e x).1 = 0 ∧ (deleteHostE cfg e x).2.hosts = e.hosts ∧ (SmallName x → x ∉ e.hosts))) := by
  obtain ⟨hh, hg1, hsome, hnone⟩ := findE_spec e x hg
  unfold deleteHostE
  generalize hf : findE e x = fe at hh hg1 hsome hnone
  obtain ⟨res, e1⟩ := fe
  simp only at hh hg1 hsome hnone
  cases res with
  | some i =>
    simp only
    have hget := hsome i rfl
    have hi : i < e1.hosts.length := by
      rw [hh]; exact (List.getElem?_eq_some_iff.mp hget).1
    obtain ⟨hg2, hh2⟩ := deleteNthE_hosts cfg e1 i hg1 hi
    exact ⟨hg2, Or.inl ⟨trivial, i, hget, by rw [hh2, hh]⟩⟩
  | none =>
    simp only
    exact ⟨hg1, Or.inr ⟨trivial, hh, hnone rfl⟩⟩

theorem filter_eraseIdx_eq (x : Str) : ∀ (l : List Str) (i : Nat), l[i]? = some x →
    (l.eraseIdx i).filter (· ≠ x) = l.filter (· ≠ x)
  | [], _, h => by simp at h
  | a :: l, 0, h => by
    simp only [List.getElem?_cons_zero, Option.some.injEq] at h
    simp [h]
  | a :: l, i + 1, h => by
    simp only [List.getElem?_cons_succ] at h
    simp only [List.eraseIdx_cons_succ, List.filter_cons]
    rw [filter_eraseIdx_eq x l i h]

theorem count_eraseIdx_lt (x : Str) (l : List Str) (i : Nat) (h : l[i]? = some x) :
    (l.eraseIdx i).count x + 1 = l.count x := by
  induction l generalizing i with
  | nil => simp at h
  | cons a l ih =>
    cases i with
    | zero =>
      simp only [List.getElem?_cons_zero, Option.some.injEq] at h
      simp [h]
    | succ i =>
      simp only [List.getElem?_cons_succ] at h
      simp only [List.eraseIdx_cons_succ, List.count_cons]
      have := ih i h
      omega

/-- the repaired loop `while (hostlist_delete_host(hl, x)) n++;` leaves exactly the hosts that are
    not `x` (order and multiplicity of the others kept) -/
theorem deleteAllE_spec (cfg : Cfg) (x : Str) (hsm : SmallName x) : ∀ (f : Nat) (e : EL), e.Good →
    e.hosts.count x < f → (deleteAllE cfg f e x).2.Good ∧ (deleteAllE cfg f e x).2.hosts = e.hosts.filter (· ≠ x)
  | 0, _, _, h => by omega
  | f + 1, e, hg, hc => by
    obtain ⟨hg1, hcase⟩ := deleteHostE_spec cfg e x hg
    unfold deleteAllE
    generalize hd : deleteHostE cfg e x = d at hg1 hcase
    obtain ⟨k, e'⟩ := d
    simp only at hg1 hcase
    rcases hcase with ⟨hk, i, hget, hh⟩ | ⟨hk, hh, hnot⟩
    · subst hk
      simp only
      have hcnt := count_eraseIdx_lt x e.hosts i hget
      obtain ⟨hg2, hh2⟩ := deleteAllE_spec cfg x hsm f e' hg1 (by rw [hh]; omega)
      generalize deleteAllE cfg f e' x = rec at hg2 hh2
      obtain ⟨k2, e2⟩ := rec
      simp only at hg2 hh2 ⊢
      exact ⟨hg2, by rw [hh2, hh, filter_eraseIdx_eq x e.hosts i hget]⟩
    · subst hk
      simp only
      refine ⟨hg1, ?_⟩
      rw [hh]
      have hx := hnot hsm
      symm
      rw [List.filter_eq_self]
      intro a ha
      simp only [ne_eq, decide_eq_true_eq]
      intro h0; subst h0; exact hx ha

/-- what one listed name does to the list, with the D1 switch -/
theorem deleteNameE_repaired (cfg : Cfg) (hfix : cfg.fixDeleteAll = true) (e : EL) (x : Str) (hg : e.Good)
    (hsm : SmallName x) :
    (deleteNameE cfg e x).2.Good ∧ (deleteNameE cfg e x).2.hosts = e.hosts.filter (· ≠ x) := by
  unfold deleteNameE
  simp only [hfix, ↓reduceIte]
  apply deleteAllE_spec cfg x hsm _ e hg
  have h1 : e.hosts.count x ≤ e.hosts.length := List.count_le_length
  have h2 := hg.2
  omega

/-- `hostlist_delete` for the listed names, repaired D1: exactly the hosts not listed stay -/
theorem deleteNames_repaired (cfg : Cfg) (hfix : cfg.fixDeleteAll = true) : ∀ (names : List Str) (e : EL), e.Good →
    (∀ x ∈ names, SmallName x) →
    (names.foldl (fun acc x => (deleteNameE cfg acc x).2) e).Good ∧
    (names.foldl (fun acc x => (deleteNameE cfg acc x).2) e).hosts = e.hosts.filter (fun h => !names.contains h)
  | [], e, hg, _ => ⟨hg, (List.filter_eq_self.mpr (by intro a _; rfl)).symm⟩
  | x :: xs, e, hg, hsm => by
    obtain ⟨hg1, hh1⟩ := deleteNameE_repaired cfg hfix e x hg (hsm x (by simp))
    obtain ⟨hg2, hh2⟩ := deleteNames_repaired cfg hfix xs _ hg1 (fun y hy => hsm y (by simp [hy]))
    simp only [List.foldl_cons]
    refine ⟨hg2, ?_⟩
    rw [hh2, hh1, List.filter_filter]
    apply List.filter_congr
    intro h _
    simp only [List.contains_cons, Bool.not_or, ne_eq, decide_not, Bool.and_comm]
    congr 1
    cases hx : (h == x) <;> simp_all [beq_iff_eq]

/-- every variant: a name that is NOT listed keeps all its occurrences (exclusion matches whole
    names exactly: excluding foo1 never takes foo10, foo01 or foo1-ib) -/
theorem deleteHostE_count_other (cfg : Cfg) (e : EL) (x y : Str) (hg : e.Good) (hne : y ≠ x) :
    (deleteHostE cfg e x).2.hosts.count y = e.hosts.count y := by
  obtain ⟨_, hcase⟩ := deleteHostE_spec cfg e x hg
  rcases hcase with ⟨_, i, hget, hh⟩ | ⟨_, hh, _⟩
  · rw [hh]
    have h1 : ∀ (l : List Str) (i : Nat), l[i]? = some x → (l.eraseIdx i).count y = l.count y := by
      intro l
      induction l with
      | nil => intro i h; simp at h
      | cons a l ih =>
        intro i h
        cases i with
        | zero =>
          simp only [List.getElem?_cons_zero, Option.some.injEq] at h
          subst h
          simp [List.count_cons, Ne.symm hne]
        | succ i =>
          simp only [List.getElem?_cons_succ] at h
          simp only [List.eraseIdx_cons_succ, List.count_cons, ih i h]
    exact h1 e.hosts i hget
  · rw [hh]

end PdshVerif.Hostlist
