/-
  Helper lemmas for C14, part 10 (extension round): the grouping as a functional statement
  (maximal runs), `_is_bracket_needed` as "the group stands for more than one host", the heap block
  of `list_push_hostlist`, single host names into heap blocks.
-/
import PdshVerif.Hostlist.PrintCallers
import PdshVerif.Hostlist.PrintRound2

namespace PdshVerif.Hostlist.Print
open PdshVerif.Hostlist

/-! ### the groups are the maximal runs -/
theorem loopRun_chained : ∀ (rest : List HRange) (cur : HRange), PrintSpec.chained (loopRun cur rest) = true
  | [], _ => rfl
  | r' :: rest', cur => by
    simp only [loopRun]
    split
    · rename_i hw
      have ih := loopRun_chained rest' r'
      obtain ⟨g, hg⟩ : ∃ g, loopRun r' rest' = r' :: g := by
        cases rest' with
        | nil => exact ⟨[], rfl⟩
        | cons a b => simp only [loopRun]; split <;> simp
      rw [hg] at ih ⊢
      simp only [PrintSpec.chained, ih, Bool.and_true, ← withinRange_eq_joins, hw]
    · rfl

/-- the record after a run does not join the run's last record -/
theorem loopRem_separated : ∀ (rest : List HRange) (cur : HRange) (x : HRange) (xs : List HRange),
    loopRem cur rest = x :: xs →
    ∃ a, (loopRun cur rest).getLast? = some a ∧ PrintSpec.joins a (some x) = false
  | [], _, _, _, h => by simp [loopRem] at h
  | r' :: rest', cur, x, xs, h => by
    simp only [loopRem] at h
    simp only [loopRun]
    split at h
    · rename_i hw
      obtain ⟨a, ha, hj⟩ := loopRem_separated rest' r' x xs h
      refine ⟨a, ?_, hj⟩
      simp only [hw, ↓reduceIte]
      rw [List.getLast?_cons_of_ne_nil (loopRun_ne_nil r' rest')]
      exact ha
    · rename_i hw
      have hw' : withinRange r' cur = false := by simpa using hw
      simp only [List.cons.injEq] at h
      obtain ⟨rfl, _⟩ := h
      refine ⟨cur, by simp [hw'], ?_⟩
      rw [← withinRange_eq_joins]; exact hw'

theorem groups_separated : ∀ (n : Nat) (rs : List HRange), rs.length ≤ n →
    PrintSpec.separated (PrintSpec.groups rs) = true
  | _, [], _ => by simp [PrintSpec.groups, PrintSpec.separated]
  | 0, _ :: _, hn => by simp at hn
  | n + 1, cur :: rest, hn => by
    have hlen := loopRem_length_le rest cur
    simp only [List.length_cons] at hn
    have ih := groups_separated n (loopRem cur rest) (by omega)
    rw [groups_cons]
    cases hrem : loopRem cur rest with
    | nil => simp [PrintSpec.groups, PrintSpec.separated]
    | cons x xs =>
      obtain ⟨a, ha, hj⟩ := loopRem_separated rest cur x xs hrem
      rw [hrem] at ih
      rw [groups_cons] at ih ⊢
      simp only [PrintSpec.separated, ha, loopRun_head, hj, Bool.not_false, Bool.true_and]
      exact ih

/-- the specification's groups are THE partition into maximal runs -/
theorem groups_maximalRuns (rs : List HRange) : PrintSpec.MaximalRuns rs (PrintSpec.groups rs) := by
  refine ⟨groups_flatten rs.length rs (Nat.le_refl _), ?_, groups_separated rs.length rs (Nat.le_refl _)⟩
  exact groups_forall (fun g => g ≠ [] ∧ PrintSpec.chained g = true) rs.length rs (Nat.le_refl _)
    (fun cur rest _ => ⟨loopRun_ne_nil cur rest, loopRun_chained rest cur⟩)

/-! ### `_is_bracket_needed` -/
theorem withinRange_comm (a b : HRange) : withinRange a b = withinRange b a := by
  simp only [withinRange]; rw [Bool.eq_iff_iff]
  simp only [Bool.and_eq_true, beq_iff_eq, Bool.not_eq_true']
  constructor <;> rintro ⟨⟨h1, h2⟩, h3⟩ <;> exact ⟨⟨h1.symm, h3⟩, h2⟩

/-- `_is_bracket_needed(hl, i)` says yes exactly when the group that starts at `hr[i]` stands for
    more than one host -/
theorem isBracketNeeded_iff (cur : HRange) (rest : List HRange) (hg : ∀ x ∈ cur :: rest, x.Good) :
    isBracketNeeded cur rest.head? = true ↔ ((loopRun cur rest).flatMap HRange.hosts).length > 1 := by
  have hgc := hg cur (by simp)
  have hcount := HRange.Good.count_eq hgc
  have hpos : cur.hosts.length ≥ 1 := List.length_pos_iff.mpr (Good.hosts_ne_nil hgc)
  cases rest with
  | nil =>
    simp only [isBracketNeeded, List.head?_nil, Bool.or_false, decide_eq_true_eq, loopRun,
      List.flatMap_cons, List.flatMap_nil, List.append_nil, hcount]
  | cons r' rest' =>
    have hpos' : r'.hosts.length ≥ 1 :=
      List.length_pos_iff.mpr (Good.hosts_ne_nil (hg r' (by simp)))
    simp only [isBracketNeeded, List.head?_cons, Bool.or_eq_true, decide_eq_true_eq, loopRun, hcount,
      withinRange_comm cur r']
    by_cases hw : withinRange r' cur = true
    · obtain ⟨g, hg'⟩ : ∃ g, loopRun r' rest' = r' :: g := by
        cases rest' with
        | nil => exact ⟨[], rfl⟩
        | cons a b => simp only [loopRun]; split <;> simp
      simp only [hw, ↓reduceIte, or_true, List.flatMap_cons, hg', List.length_append, true_iff]
      omega
    · have hw' : withinRange r' cur = false := by simpa using hw
      simp only [hw', Bool.false_eq_true, ↓reduceIte, or_false, List.flatMap_cons, List.flatMap_nil,
        List.append_nil]

/-! ### `hostrange_numstr` never hides a truncation -/
theorem numstr_honest (b : Buf) (p m : Nat) (r : HRange) :
    (hostrangeNumstr b p m r).2 ≤ (numText r).length ∧
    ((hostrangeNumstr b p m r).2 < m → (hostrangeNumstr b p m r).2 = (numText r).length) ∧
    (∀ w ∈ (hostrangeNumstr b p m r).1.log, w ∈ b.log ∨ (p ≤ w.1 ∧ w.1 < p + m)) := by
  obtain ⟨b1, k, e, hw, h1, h2⟩ := hostrangeNumstr_spec b p m (p + m) r (by omega)
  rw [e]
  refine ⟨h1, h2, ?_⟩
  obtain ⟨W, hl, hW⟩ := hw.log
  intro w hmem
  simp only at hmem
  rw [hl] at hmem
  rcases List.mem_append.mp hmem with h | h
  · exact Or.inr (hW w h)
  · exact Or.inl h

/-! ### `list_push_hostlist`: every call stays inside the heap block it is entered with -/
theorem listPushTrace_in_capacity (h : HL) : ∀ (f n : Nat), 2 ≤ n →
    ∀ a ∈ listPushTrace h f n n, a.cap = a.n + 1 ∧ (∀ w ∈ a.buf.log, w.1 < a.n) ∧ a.buf.neg = false
  | 0, n, hn, a, ha => by
    simp only [listPushTrace, List.mem_cons, List.not_mem_nil, or_false] at ha
    subst ha
    obtain ⟨hw, _, _⟩ := rangedStringL_spec (n - 1) (by omega) h.ranges.toList
    obtain ⟨W, hl, hW⟩ := hw.log
    refine ⟨by simp only; omega, fun w hm => ?_, hw.neg⟩
    simp only [rangedString] at hm
    rw [hl] at hm
    simp only [Buf.empty, List.append_nil] at hm
    exact (hW w hm).2
  | f + 1, n, hn, a, ha => by
    obtain ⟨hw, _, _⟩ := rangedStringL_spec (n - 1) (by omega) h.ranges.toList
    obtain ⟨W, hl, hW⟩ := hw.log
    have hfirst : ∀ w ∈ (rangedString (n - 1) h).1.log, w.1 < n - 1 := by
      intro w hm
      simp only [rangedString] at hm
      rw [hl] at hm
      simp only [Buf.empty, List.append_nil] at hm
      exact (hW w hm).2
    have hneg : (rangedString (n - 1) h).1.neg = false := hw.neg
    simp only [listPushTrace] at ha
    split at ha
    · rename_i b k he
      simp only [List.mem_cons, List.not_mem_nil, or_false] at ha
      subst ha
      rw [he] at hfirst hneg
      exact ⟨by simp only; omega, hfirst, hneg⟩
    · rename_i b he
      rw [he] at hfirst hneg
      rcases List.mem_cons.mp ha with ha | ha
      · subst ha
        exact ⟨by simp only; omega, hfirst, hneg⟩
      · split at ha
        · exact listPushTrace_in_capacity h f (2 * n) (by omega) a ha
        · simp at ha

/-! ### fixed buffers inside hostlist.c -/
theorem rangedStringL_safe (n : Nat) (hn : 1 ≤ n) (rs : List HRange) :
    (∀ w ∈ (rangedStringL n rs).1.log, w.1 < n) ∧ (rangedStringL n rs).1.neg = false ∧
    ∃ k, k < n ∧ (rangedStringL n rs).1.mem k = some NUL := by
  obtain ⟨hw, h1, h2⟩ := rangedStringL_spec n hn rs
  obtain ⟨W, hl, hW⟩ := hw.log
  refine ⟨fun w hm => ?_, hw.neg, ?_⟩
  · rw [hl] at hm
    simp only [Buf.empty, List.append_nil] at hm
    exact (hW w hm).2
  · by_cases hf : (rangedTextM rs.length 0 rs).length < n
    · exact ⟨_, hf, (h1 hf).2⟩
    · exact ⟨n - 1, by omega, (h2 (by omega)).2⟩

theorem nextRangeBuf_safe (cur : HRange) (rest : List HRange) :
    (∀ w ∈ (nextRangeBuf cur rest).1.log, w.1 < PdshVerif.Gen.MAXHOSTRANGELEN) ∧
    ∃ k, k < PdshVerif.Gen.MAXHOSTRANGELEN ∧ (nextRangeBuf cur rest).1.mem k = some NUL := by
  obtain ⟨b', k, rem, e, hw, h1, h2⟩ :=
    getBracketedList_spec Buf.empty 0 PdshVerif.Gen.MAXHOSTRANGELEN cur rest (by decide)
  unfold nextRangeBuf
  rw [e]
  obtain ⟨W, hl, hW⟩ := hw.log
  refine ⟨fun w hm => ?_, ?_⟩
  · simp only at hm
    rw [hl] at hm
    simp only [Buf.empty, List.append_nil] at hm
    have := (hW w hm).2
    omega
  · by_cases hf : (groupTextM cur rest).length < PdshVerif.Gen.MAXHOSTRANGELEN
    · refine ⟨_, hf, ?_⟩
      have := (h1 hf).2.2
      simpa using this
    · refine ⟨PdshVerif.Gen.MAXHOSTRANGELEN - 1, by decide, ?_⟩
      have := (h2 (by omega)).2
      simpa using this

/-! ### one host name into a heap block -/
theorem ndig_le_20 {k : Nat} (hk : k < U64) : ndig k ≤ 20 :=
  ndig_le_of_lt_pow (by decide) (by unfold U64 at hk; omega)

theorem formatHost_safe (size : Nat) (r : HRange) (k : Nat) :
    (∀ w ∈ (formatHost size r k).1.log, w.1 < size) ∧
    (r.pre.length + max r.width (ndig k) < size →
      (formatHost size r k).1.text size = some (r.pre ++ fmtPad r.width k) ∨
      NUL ∈ r.pre ++ fmtPad r.width k) := by
  unfold formatHost
  have hw := snprintfAt_wrote Buf.empty 0 size size (r.pre ++ fmtPad r.width k) (by omega)
  obtain ⟨W, hl, hW⟩ := hw.log
  refine ⟨fun w hm => ?_, fun hfit => ?_⟩
  · rw [hl] at hm
    simp only [Buf.empty, List.append_nil] at hm
    exact (hW w hm).2
  · by_cases hz : NUL ∈ r.pre ++ fmtPad r.width k
    · exact Or.inr hz
    · left
      have hlen : (r.pre ++ fmtPad r.width k).length < size := by
        rw [List.length_append, fmtPad_length]; exact hfit
      have hnul := snprintfAt_nul Buf.empty 0 size (r.pre ++ fmtPad r.width k) (by omega)
      rw [show 0 + min (r.pre ++ fmtPad r.width k).length (size - 1) = (r.pre ++ fmtPad r.width k).length from by
        omega] at hnul
      have hs := cstr_spec (snprintfAt Buf.empty 0 size (r.pre ++ fmtPad r.width k)).1 (r.pre ++ fmtPad r.width k)
        (r.pre ++ fmtPad r.width k).length (Nat.le_refl _)
        (fun j hj _ => by have := hw.text j hj (by omega); simpa using this)
        (fun c hc => by rw [List.take_length] at hc; exact fun h => hz (h ▸ hc)) hnul size 0 (Nat.zero_le _)
        (by omega)
      rw [List.take_length, List.drop_zero] at hs
      exact hs

end PdshVerif.Hostlist.Print
