/-
  EVERY list `hostlist_create` returns — for EVERY text, in the variant with D15/D25 repaired — is
  `Good`: every range record is well-formed (lo ≤ hi < 2^64-1) and the cached counter equals the
  number of hosts the list denotes (`create_good`).  With C01's iteration theorems: whatever text
  was accepted, walking the result (`hostlist_next` until NULL, `hostlist_shift` until NULL) ends
  after exactly `hostlist_count` names (`create_walk`).
-/
import PdshVerif.Hostlist.LemmasBounds
import PdshVerif.Hostlist.LemmasIter
import PdshVerif.Hostlist.LemmasShift

namespace PdshVerif.Hostlist
open PdshVerif.Gen

theorem pushRangeList_good (pfx : Str) (rs : List SR) (h : HL) (hg : h.Good)
    (hr : ∀ r ∈ rs, r.lo ≤ r.hi ∧ r.hi < ULONG_MAX) : (pushRangeList h pfx rs).Good := by
  have e : pushRangeList h pfx rs =
      (rs.map fun r => HRange.mk' pfx r.lo r.hi r.width).foldl pushRange h := by
    unfold pushRangeList; rw [List.foldl_map]
  rw [e]
  refine (foldl_pushRange _ h hg ?_).1
  intro x hx
  obtain ⟨r, hrm, rfl⟩ := List.mem_map.mp hx
  exact ⟨fun hs => by simp [HRange.mk'] at hs, fun _ => hr r hrm⟩

theorem pushRangeListWithSuffix_good (cfg : Cfg) (pfx sfx : Str) : ∀ (rs : List SR) (h h' : HL),
    h.Good → pushRangeListWithSuffix cfg h pfx sfx rs = .ok h' → h'.Good
  | [], h, h', hg, hp => by
    simp only [pushRangeListWithSuffix, Outcome.ok.injEq] at hp
    subst hp; exact hg
  | r :: rs, h, h', hg, hp => by
    unfold pushRangeListWithSuffix at hp
    unfold pushSuffixRange at hp
    by_cases hmax : r.hi = ULONG_MAX
    · simp [hmax] at hp
    · simp only [hmax, ↓reduceIte] at hp
      refine pushRangeListWithSuffix_good cfg pfx sfx rs _ h' ?_ hp
      have e : (List.range' r.lo (r.hi + 1 - r.lo)).foldl
            (fun h j => pushRange h (HRange.mkSingle (suffixedName cfg pfx sfx r.width j))) h =
          ((List.range' r.lo (r.hi + 1 - r.lo)).map (suffixedName cfg pfx sfx r.width)).foldl
            (fun h n => pushRange h (HRange.mkSingle n)) h := by
        rw [List.foldl_map]
      rw [e]
      exact (foldl_pushSingles _ h hg).1

/-- one token keeps the list `Good` (D15/D25 repaired: no accepted bound is 2^64-1) -/
theorem pushTok_good (cfg : Cfg) (h15 : cfg.fixUlongMax = true) (st st' : PSt) (tok : Str)
    (hg : st.hl.Good) (h : pushTok cfg st tok = .ok st') : st'.hl.Good := by
  unfold pushTok at h
  split at h
  · split at h
    · split at h
      · cases h
      · cases hp : parseRangeList cfg st.errno _ with
        | fail e f => rw [hp] at h; cases h
        | ok rs e =>
          rw [hp] at h
          simp only at h
          have hsm := parseRangeList_small cfg _ _ _ _ hp
          have hhi := parseRangeItems_ok_hi cfg h15 _ 0 st.errno #[] rs e hp (by simp)
          split at h
          · simp only [Outcome.ok.injEq] at h
            subst h
            refine pushRangeList_good _ _ _ hg ?_
            intro r hr
            have := hsm r hr
            have := hhi r hr
            exact ⟨(hsm r hr).1, by have := (hsm r hr).2.1; omega⟩
          · cases hq : pushRangeListWithSuffix cfg st.hl _ _ rs.toList with
            | ok h' =>
              rw [hq] at h
              simp only [Outcome.ok.injEq] at h
              subst h
              exact pushRangeListWithSuffix_good cfg _ _ _ _ _ hg hq
            | null _ _ => rw [hq] at h; cases h
            | ub _ => rw [hq] at h; cases h
            | diverge => rw [hq] at h; cases h
    · cases h
  · split at h
    · cases h
    · split at h
      · cases h
      · simp only [Outcome.ok.injEq] at h
        subst h
        exact pushRange_good _ _ hg (hostRecord_spec _).1

theorem createToks_good (cfg : Cfg) (h15 : cfg.fixUlongMax = true) : ∀ (toks : List Str) (st st' : PSt),
    st.hl.Good → createToks cfg st toks = .ok st' → st'.hl.Good
  | [], st, st', hg, h => by
    simp only [createToks, Outcome.ok.injEq] at h
    subst h; exact hg
  | t :: ts, st, st', hg, h => by
    unfold createToks at h
    cases hp : pushTok cfg st t with
    | ok st1 =>
      rw [hp] at h
      exact createToks_good cfg h15 ts st1 st' (pushTok_good cfg h15 st st1 t hg hp) h
    | null _ _ => rw [hp] at h; cases h
    | ub _ => rw [hp] at h; cases h
    | diverge => rw [hp] at h; cases h

/-- EVERY accepted text yields a well-formed list whose counter is exact -/
theorem create_good (cfg : Cfg) (h15 : cfg.fixUlongMax = true) (s : Str) (h : HL)
    (hc : create cfg s = .ok h) : h.Good := by
  unfold create createFrom at hc
  cases hq : createToks cfg ⟨HL.new, 0⟩ (tokens hlSep s) with
  | ok st =>
    rw [hq] at hc
    simp only [Outcome.ok.injEq] at hc
    subst hc
    exact createToks_good cfg h15 _ _ _ HL.new_good hq
  | null _ _ => rw [hq] at hc; cases hc
  | ub _ => rw [hq] at hc; cases hc
  | diverge => rw [hq] at hc; cases hc

/-- WALKING WHAT WAS ACCEPTED (every text; D15/D25 and D17 repaired): the iterator yields exactly
    the denoted hosts and stops; their number is `hostlist_count`, at most MAX_RANGE · |text| -/
theorem create_walk (cfg : Cfg) (h15 : cfg.fixUlongMax = true) (h17 : cfg.fixIterSuffix = true)
    (s : Str) (h : HL) (hc : create cfg s = .ok h) (n : Nat) (hn : h.hosts.length ≤ n) :
    iterAll cfg h n = h.hosts ∧ h.count = h.hosts.length ∧
      h.hosts.length ≤ MAX_RANGE * s.length := by
  have hg := create_good cfg h15 s h hc
  have hcnt := create_count_le cfg s h hc
  refine ⟨?_, hg.2, ?_⟩
  · rw [iterAll_eq cfg h hg.1 (fun _ _ => Or.inl h17) n, List.take_of_length_le hn]
  · have := hg.2
    unfold HL.count at hcnt
    omega

end PdshVerif.Hostlist
