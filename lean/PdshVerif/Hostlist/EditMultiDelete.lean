/-
  C16, any number of live iterators: `hostlist_delete_nth` is uniform (`hostlist_insert_range`,
  `hostlist_delete_range`, `hostlist_host_deleted` each re-base every iterator by one rule), so
  `deleteNth_refines` lifts: EVERY live iterator sees the list without position n from where it stood.
-/
import PdshVerif.Hostlist.EditDeleteRefine

namespace PdshVerif.Hostlist
open PdshVerif.Gen

/-- `hostlist_insert_range` -/
theorem unif_insertRange (r : HRange) (n : Nat) : Unif (fun e => insertRange e r n) := by
  intro e
  by_cases hn : n > e.rs.length
  · refine ⟨id, fun l => ?_⟩
    rw [map_liftIt_id]
    simp only [insertRange, EL.withIts_rs, hn, ↓reduceIte]
    rfl
  · apply Exists.intro
    intro l
    · simp only [insertRange, EL.withIts_rs, hn, ↓reduceIte]
      show ({ e with rs := _, nextId := _, its := l.map _ } : EL) = { e with rs := _, nextId := _, its := _ }
      congr 1
      simp only [EL.hrAt_eq, EL.withIts_rs, EL.withIts_nextId]
      apply map_keyed
      intro k it
      simp only
      repeat (first | rfl | split)

/-- `hostlist_host_deleted` -/
theorem unif_delIts (cfg : Cfg) (idx j : Int) (s : Bool) : Unif (fun e => delIts cfg e idx j s) := by
  intro e
  apply Exists.intro
  intro l
  · show ({ e with its := l.map _ } : EL) = { e with its := _ }
    congr 1
    simp only [delOne, EL.hrAt_eq, EL.withIts_rs]
    apply map_keyed
    intro k it
    simp only
    repeat (first | rfl | split)

theorem unif_decNhosts : Unif (fun x : EL => ({ x with nhosts := x.nhosts - 1 } : EL)) :=
  unif_set (fun x => x.rs) (fun x => x.nhosts - 1) (fun x => x.nextId) (fun _ _ => rfl) (fun _ _ => rfl) (fun _ _ => rfl)

/-- `hostlist_delete_nth` -/
theorem unif_deleteNthE (cfg : Cfg) (n : Nat) : Unif (fun e => deleteNthE cfg e n) := by
  intro e
  cases hres : deleteNthRs e.nextId e.rs n 0 0 with
  | mk rs' ch =>
    cases hloc : locateNth e.rs n 0 with
    | mk idx j =>
      cases ch with
      | deleted i =>
        obtain ⟨F, hF⟩ := (Unif.comp (unif_deleteRange cfg i) unif_decNhosts) e
        refine ⟨F, fun l => ?_⟩
        have : ∀ m, deleteNthE cfg (e.withIts m) n =
            (fun x : EL => ({ deleteRange cfg x i with nhosts := (deleteRange cfg x i).nhosts - 1 } : EL)) (e.withIts m) := by
          intro m
          unfold deleteNthE deleteNthE0
          simp only [EL.withIts_rs, EL.withIts_nextId, hres]
        show deleteNthE cfg (e.withIts l) n = (deleteNthE cfg (e.withIts []) n).withIts _
        rw [this l, this []]
        exact hF l
      | none =>
        have hset : Unif (fun x : EL => ({ x with rs := rs', nhosts := x.nhosts - 1 } : EL)) :=
          unif_set (fun _ => rs') (fun x => x.nhosts - 1) (fun x => x.nextId) (fun _ _ => rfl) (fun _ _ => rfl) (fun _ _ => rfl)
        obtain ⟨F, hF⟩ := (Unif.comp hset (unif_delIts cfg idx j false)) e
        refine ⟨F, fun l => ?_⟩
        have : ∀ m, deleteNthE cfg (e.withIts m) n =
            (fun x : EL => delIts cfg ({ x with rs := rs', nhosts := x.nhosts - 1 } : EL) idx j false) (e.withIts m) := by
          intro m
          unfold deleteNthE deleteNthE0
          simp only [EL.withIts_rs, EL.withIts_nextId, hres, hloc]
        show deleteNthE cfg (e.withIts l) n = (deleteNthE cfg (e.withIts []) n).withIts _
        rw [this l, this []]
        exact hF l
      | inserted i =>
        have hset : Unif (fun x : EL => ({ x with rs := rs'.take i ++ rs'.drop (i + 1) } : EL)) :=
          unif_set (fun _ => rs'.take i ++ rs'.drop (i + 1)) (fun x => x.nhosts) (fun x => x.nextId)
            (fun _ _ => rfl) (fun _ _ => rfl) (fun _ _ => rfl)
        obtain ⟨F, hF⟩ := (Unif.comp (Unif.comp (Unif.comp hset
          (unif_insertRange ((rs'[i]?.map (·.r)).getD default) i)) unif_decNhosts) (unif_delIts cfg idx j true)) e
        refine ⟨F, fun l => ?_⟩
        have : ∀ m, deleteNthE cfg (e.withIts m) n =
            (fun x : EL => delIts cfg
              ({ insertRange ({ x with rs := rs'.take i ++ rs'.drop (i + 1) } : EL) ((rs'[i]?.map (·.r)).getD default) i with
                nhosts := (insertRange ({ x with rs := rs'.take i ++ rs'.drop (i + 1) } : EL)
                  ((rs'[i]?.map (·.r)).getD default) i).nhosts - 1 } : EL) idx j true) (e.withIts m) := by
          intro m
          unfold deleteNthE deleteNthE0
          simp only [EL.withIts_rs, EL.withIts_nextId, hres, hloc]
        show deleteNthE cfg (e.withIts l) n = (deleteNthE cfg (e.withIts []) n).withIts _
        rw [this l, this []]
        exact hF l

/-- DELETE BY POSITION with any number of live iterators: every cursor behind position n moves down by
    one, the others stay -/
theorem deleteNth_refinesM (cfg : Cfg) (hfs : cfg.fixIterSuffix = true) (hD19 : cfg.fixRemoveDepth = true)
    (hID : cfg.fixIterDelete = true) (e : EL) (p : EditSpec.PL) (fr : Nat → Bool) (h : RefM cfg e p fr)
    (n : Nat) (hn : n < p.names.length) :
    RefM cfg (deleteNthE cfg e n) (EditSpec.deleteNth p n) (fun _ => false) := by
  obtain ⟨e', h1, h2⟩ := RefM.lift (fun x => (.ok ((), deleteNthE cfg x n) : EM (Unit × EL))) ((unif_deleteNthE cfg n).toM ())
    (fun q => q.delPos n) (unifS_delPos n) () (fun _ => True) e p fr
    (fun it c f _ hr => ⟨_, _, rfl, deleteNth_refines cfg hfs hD19 hID _ _ c f hr n hn⟩) trivial (fun _ _ => trivial) h
  simp only [Except.ok.injEq, Prod.mk.injEq, true_and] at h1
  rw [h1]; exact h2

end PdshVerif.Hostlist
