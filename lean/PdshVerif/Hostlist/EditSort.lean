/-
  hostlist.c `hostlist_sort` on the editable list: `qsort` by `hostrange_cmp`, every iterator reset, then
  `hostlist_coalesce` (`hostrange_intersect`: the overlap of two neighbours is cut out and re-inserted as
  one-host records, so that every duplicated host becomes a pair of adjacent one-host records) and
  `hostlist_collapse` (neighbours that continue each other are joined).  No host is added or dropped.

  `hostrange_intersect` is modelled in its REPAIRED form (fix 3ebc68d, F16-SORT-COALESCE-UAF: `h1->lo <=
  h2->lo` is part of the test); should `hostlist_coalesce` ever empty `hprev` it frees `hnext` and goes on
  reading it — modelled as undefined behaviour.  `qsort` as in Hostlist/Uniq.lean.
-/
import PdshVerif.Hostlist.Uniq

namespace PdshVerif.Hostlist
open PdshVerif.Gen

/-- `hostrange_intersect(h1, h2)`: the common part (a copy of h1 with new bounds) or NULL, and both
    records afterwards (`hostrange_width_combine` may rewrite their widths) -/
def hostrangeIntersect (h1 h2 : HRange) : Option HRange × HRange × HRange :=
  if h1.single || h2.single then (none, h1, h2)
  else if prefixCmp h1 h2 = 0 && decide (h1.lo ≤ h2.lo) && decide (h1.hi > h2.lo) then
    match widthCombine h1 h2 with
    | (true, w1, w2) =>
      (some { h1 with width := w1, lo := h2.lo, hi := if h2.hi < h1.hi then h2.hi else h1.hi },
       { h1 with width := w1 }, { h2 with width := w2 })
    | (false, _, _) => (none, h1, h2)
  else (none, h1, h2)

/-- the `while (new->lo <= new->hi)` loop of `hostlist_coalesce`: one-host records for the numbers of the
    overlap, inserted from slot `j` on — one copy when the number is above `hprev->hi`, one more when it is
    below `hnext->lo` -/
def insertSingles (pre : Str) (w prevHi nextLo : Nat) : List Nat → EL → Nat → EL
  | [], e, _ => e
  | x :: xs, e, j =>
    let r : HRange := ⟨pre, x, x, w, false⟩
    let (e1, j1) := if x > prevHi then (insertRange e r j, j + 1) else (e, j)
    let (e2, j2) := if x < nextLo then (insertRange e1 r j1, j1 + 1) else (e1, j1)
    insertSingles pre w prevHi nextLo xs e2 j2

/-- one round of the `for` loop of `hostlist_coalesce` at index `i`: `none` = the neighbours do not
    intersect -/
def coalesceAt (e : EL) (i : Nat) : EM (Option EL) :=
  match e.rs[i - 1]?, e.rs[i]? with
  | some a, some b =>
    if i = 0 then .ok none
    else
      match hostrangeIntersect a.r b.r with
      | (none, _, _) => .ok none
      | (some nw, a', b') =>
        let a2 : HRange := { a' with hi := nw.lo }
        let b2 : HRange := { b' with lo := nw.hi, hi := if nw.hi < a'.hi then a'.hi else b'.hi }
        let e1 := (e.setAt (i - 1) a2).setAt i b2
        if a2.empty then .error "hostlist_coalesce: hnext is read after hostlist_delete_range freed it"
        else .ok (some (insertSingles nw.pre nw.width a2.hi b2.lo (List.range' nw.lo (nw.hi + 1 - nw.lo)) e1 i))
  | _, _ => .ok none

/-- `for (i = nranges - 1; i > 0; i--)` with `i = hl->nranges` after every change -/
def coalesceLoop : Nat → EL → Nat → EM EL
  | 0, _, _ => .error "diverge"
  | f + 1, e, i =>
    if i = 0 then .ok e
    else
      match coalesceAt e i with
      | .error w => .error w
      | .ok none => coalesceLoop f e (i - 1)
      | .ok (some e') => coalesceLoop f e' (e'.rs.length - 1)

/-- `hostlist_collapse`: index `i + 1` against its predecessor, downwards -/
def collapseLoop (cfg : Cfg) : Nat → EL → EL
  | 0, e => e
  | i + 1, e =>
    match e.rs[i]?, e.rs[i + 1]? with
    | some a, some b =>
      if prefixCmp a.r b.r = 0 && a.r.hi == subU64 b.r.lo 1 then
        match widthCombine a.r b.r with
        | (true, wa, _) =>
          collapseLoop cfg i (deleteRange cfg (e.setAt i { a.r with width := wa, hi := b.r.hi }) (i + 1))
        | (false, _, _) => collapseLoop cfg i e
      else collapseLoop cfg i e
    | _, _ => collapseLoop cfg i e

/-- the array sorted and every iterator reset -/
def sortReset (cfg : Cfg) (e : EL) : EL :=
  let e1 : EL := { e with rs := sortRanges cfg e.rs }
  { e1 with its := e1.its.map fun (k, _) => (k, e1.resetIt) }

/-- enough rounds for `hostlist_coalesce`: every change is followed by at most one pass over the array, and
    there are at most as many changes as hosts -/
def sortFuel (e : EL) : Nat := (e.nhosts.toNat + e.rs.length + 2) * (e.nhosts.toNat + e.rs.length + 2) + 2

/-- `hostlist_sort` -/
def sortE (cfg : Cfg) (e : EL) : EM EL :=
  let e1 := sortReset cfg e
  match coalesceLoop (sortFuel e1) e1 (e1.rs.length - 1) with
  | .error w => .error w
  | .ok e2 => .ok (collapseLoop cfg (e2.rs.length - 1) e2)

end PdshVerif.Hostlist
