/-
  `hostlist_uniq` keeps the counter right and the record identities distinct (C16): what
  `edit_refines_uniq` needs beyond `uniqE_names`.
-/
import PdshVerif.Hostlist.LemmasUniq
import PdshVerif.Hostlist.LemmasIterEdit

namespace PdshVerif.Hostlist
open PdshVerif.Gen

theorem toInt32_small {n : Nat} (h : n < 2147483648) : toInt32 n = (n : Int) := by
  unfold toInt32
  have : n % 4294967296 = n := Nat.mod_eq_of_lt (by omega)
  simp only [this, h, ↓reduceIte]

/-- the number `hostrange_join` answers is the number of names the pair loses -/
theorem hostrangeJoin_count {a b : HRange} (ha : a.Good) (hb : b.Good)
    (hlo : prefixCmp a b = 0 → (widthCombine a b).1 = true → a.lo ≤ b.lo)
    (hs : a.hosts.length + b.hosts.length < 2147483648) (nd : Int) (a' b' : HRange)
    (h : hostrangeJoin a b = (some nd, a', b')) :
    (a'.hosts.length : Int) = (a.hosts.length : Int) + (b.hosts.length : Int) - nd ∧ 0 ≤ nd := by
  have hu : ULONG_MAX + 1 = U64 := by decide
  unfold hostrangeJoin at h
  by_cases hp : prefixCmp a b = 0
  · simp only [hp, ↓reduceIte] at h
    obtain ⟨_, hsing⟩ := prefixCmp_zero hp
    generalize hw : widthCombine a b = w at h
    obtain ⟨ok, w1, w2⟩ := w
    cases ok with
    | false => simp at h
    | true =>
      simp only at h
      have hle := hlo hp (by rw [hw])
      rcases Bool.eq_false_or_eq_true a.single with has | has
      · have hbs : b.single = true := by rw [← hsing]; exact has
        simp only [has, hbs, Bool.and_self, ↓reduceIte, Prod.mk.injEq, Option.some.injEq] at h
        obtain ⟨rfl, rfl, _⟩ := h
        refine ⟨?_, by omega⟩
        simp [HRange.hosts, has, hbs]
      · have hbs : b.single = false := by rw [← hsing]; exact has
        obtain ⟨ale, alt⟩ := ha.2 has
        obtain ⟨ble, blt⟩ := hb.2 hbs
        have hla : a.hosts.length = a.hi + 1 - a.lo := by
          simp [HRange.hosts, has]
        have hlb : b.hosts.length = b.hi + 1 - b.lo := by
          simp [HRange.hosts, hbs]
        have hlg : ∀ (hi' w : Nat), ({ pre := a.pre, lo := a.lo, hi := hi', width := w, single := false } : HRange).hosts.length
            = hi' + 1 - a.lo := by
          intro _ _; simp [HRange.hosts]
        simp only [has, Bool.false_and, Bool.false_eq_true, ↓reduceIte] at h
        by_cases hadj : a.hi = subU64 b.lo 1
        · simp only [hadj, ↓reduceIte, Prod.mk.injEq, Option.some.injEq] at h
          obtain ⟨rfl, rfl, _⟩ := h
          have hblo : b.lo = a.hi + 1 := by
            by_cases h0 : b.lo = 0
            · rw [h0, subU64_zero_one] at hadj; omega
            · rw [subU64_of_le (by omega) (by omega)] at hadj; omega
          refine ⟨?_, by omega⟩
          rw [hlg, hla, hlb]
          omega
        · simp only [hadj, ↓reduceIte] at h
          by_cases hov : a.hi ≥ b.lo
          · simp only [hov, ↓reduceIte] at h
            by_cases hlt : a.hi < b.hi
            · simp only [hlt, ↓reduceIte, Prod.mk.injEq, Option.some.injEq] at h
              obtain ⟨rfl, rfl, _⟩ := h
              have h1 : subU64 a.hi b.lo = a.hi - b.lo := subU64_of_le hov (by omega)
              have h2 : addU64 (a.hi - b.lo) 1 = a.hi - b.lo + 1 := by
                unfold addU64; exact Nat.mod_eq_of_lt (by omega)
              rw [h1, h2, toInt32_small (by omega), hlg, hla, hlb]
              refine ⟨?_, by omega⟩
              omega
            · simp only [hlt, ↓reduceIte, Prod.mk.injEq, Option.some.injEq] at h
              obtain ⟨rfl, rfl, _⟩ := h
              rw [hb.count_eq, toInt32_small (by omega), hlg, hla]
              refine ⟨?_, by omega⟩
              omega
          · simp [hov] at h
  · rw [if_neg hp] at h
    simp at h

/-- what `hostlist_uniq` keeps beyond the names: the counter, the identities, no iterator from nowhere -/
structure UniqKeep (cfg : Cfg) (e : EL) : Prop where
  inv : UniqInv cfg e.hosts e.ranges
  cnt : e.nhosts = (e.hosts.length : Int)
  small : e.hosts.length < 2147483648
  ids : e.IdsOk

theorem setAt_ids (e : EL) (i : Nat) (r : HRange) : (e.setAt i r).rs.map (·.id) = e.rs.map (·.id) := by
  unfold EL.setAt
  simp only
  apply List.ext_getElem?
  intro j
  simp only [List.getElem?_map, List.getElem?_modify]
  cases e.rs[j]? with
  | none => rfl
  | some o => by_cases hij : i = j <;> simp [hij]

theorem uniqLoop_keep (cfg : Cfg) : ∀ (fuel : Nat) (e : EL) (i : Nat) (e' : EL),
    UniqKeep cfg e → uniqLoop cfg fuel e i = some e' → UniqKeep cfg e'
  | 0, e, _, e', hk, h => by
    simp only [uniqLoop, Option.some.injEq] at h; rw [← h]; exact hk
  | fuel + 1, e, i, e', hk, h => by
    unfold uniqLoop at h
    have hget : ∀ k : Nat, e.rs[k]? = none ∨ ∃ o : RObj, e.rs[k]? = some o ∧ e.ranges[k]? = some o.r := by
      intro k
      cases hk : e.rs[k]? with
      | none => exact Or.inl rfl
      | some o => exact Or.inr ⟨o, rfl, by simp [EL.ranges, hk]⟩
    rcases hget (i - 1) with h1 | ⟨a, h1, h1r⟩
    · simp only [h1, Option.some.injEq] at h; rw [← h]; exact hk
    rcases hget i with h2 | ⟨b, h2, h2r⟩
    · simp only [h1, h2, Option.some.injEq] at h; rw [← h]; exact hk
    simp only [h1, h2] at h
    by_cases hi0 : i = 0
    · simp only [hi0, ↓reduceIte, Option.some.injEq] at h; rw [← h]; exact hk
    simp only [hi0, ↓reduceIte] at h
    by_cases hc : hostrangeCmp cfg a.r b.r > 0
    · simp [hc] at h
    simp only [hc, ↓reduceIte] at h
    obtain ⟨⟨hgood, hbound, _⟩, hcnt, hsmall, hids⟩ := hk
    have hi : i - 1 + 1 = i := by omega
    have hsplit := split_two e.ranges (i - 1) a.r b.r h1r (by rw [hi]; exact h2r)
    generalize hA : e.ranges.take (i - 1) = A at hsplit
    generalize hB : e.ranges.drop (i - 1 + 2) = B at hsplit
    have hAlen : A.length = i - 1 := by
      rw [← hA, List.length_take]
      have : i - 1 < e.ranges.length := by
        rcases List.getElem?_eq_some_iff.mp h1r with ⟨hlt, _⟩; exact hlt
      omega
    have hag : a.r.Good := hgood _ (by rw [hsplit]; simp)
    have hbg : b.r.Good := hgood _ (by rw [hsplit]; simp)
    have hok : CmpOk cfg a.r.lo b.r.lo := by
      rcases hbound with hf | hb
      · exact Or.inl hf
      · exact Or.inr ⟨hb _ (by rw [hsplit]; simp), hb _ (by rw [hsplit]; simp)⟩
    have hlo : prefixCmp a.r b.r = 0 → (widthCombine a.r b.r).1 = true → a.r.lo ≤ b.r.lo :=
      fun hp hw => cmp_le_lo hok hc hp hw
    have hjoin := hostrangeJoin_spec hag hbg hlo
    have hhosts : e.hosts = hostsL A ++ a.r.hosts ++ b.r.hosts ++ hostsL B := by
      show hostsL e.ranges = _
      rw [hsplit]; simp [hostsL]
    have hpair : a.r.hosts.length + b.r.hosts.length < 2147483648 := by
      have := congrArg List.length hhosts
      simp only [List.length_append] at this
      omega
    have hset : ∀ a' b', ((e.setAt (i - 1) a').setAt i b').ranges = A ++ a' :: b' :: B := by
      intro a' b'
      rw [setAt_ranges, setAt_ranges, hsplit]
      have := set_two A a.r b.r a' b' B
      rw [hAlen, hi] at this
      exact this
    have hsetids : ∀ a' b', ((e.setAt (i - 1) a').setAt i b').rs.map (·.id) = e.rs.map (·.id) := by
      intro a' b'; rw [setAt_ids, setAt_ids]
    have hsetnx : ∀ a' b', ((e.setAt (i - 1) a').setAt i b').nextId = e.nextId := fun _ _ => rfl
    have hsetnh : ∀ a' b', ((e.setAt (i - 1) a').setAt i b').nhosts = e.nhosts := fun _ _ => rfl
    have hsetok : ∀ a' b', ((e.setAt (i - 1) a').setAt i b').IdsOk := by
      intro a' b'
      refine ⟨by rw [hsetids]; exact hids.1, ?_⟩
      intro o ho
      have : o.id ∈ ((e.setAt (i - 1) a').setAt i b').rs.map (·.id) := List.mem_map.mpr ⟨o, ho, rfl⟩
      rw [hsetids] at this
      obtain ⟨o', ho', he⟩ := List.mem_map.mp this
      rw [hsetnx, ← he]; exact hids.2 o' ho'
    generalize hj : hostrangeJoin a.r b.r = j at h hjoin
    obtain ⟨res, a', b'⟩ := j
    cases res with
    | none =>
      simp only at h hjoin
      obtain ⟨ha', hb', hag', hbg', hal, hbl⟩ := hjoin
      have hh' : ((e.setAt (i - 1) a').setAt i b').hosts = e.hosts := by
        show hostsL ((e.setAt (i - 1) a').setAt i b').ranges = _
        rw [hset, hhosts]; simp [hostsL, ha', hb']
      refine uniqLoop_keep cfg fuel _ _ e' ⟨⟨?_, ?_, fun x => Iff.rfl⟩, ?_, ?_, hsetok a' b'⟩ h
      · rw [hset]
        intro q hq
        simp only [List.mem_append, List.mem_cons] at hq
        rcases hq with hq | rfl | rfl | hq
        · exact hgood q (by rw [hsplit]; simp [hq])
        · exact hag'
        · exact hbg'
        · exact hgood q (by rw [hsplit]; simp [hq])
      · rcases hbound with hf | hb
        · exact Or.inl hf
        · right
          rw [hset]
          intro q hq
          simp only [List.mem_append, List.mem_cons] at hq
          rcases hq with hq | rfl | rfl | hq
          · exact hb q (by rw [hsplit]; simp [hq])
          · rw [hal]; exact hb _ (by rw [hsplit]; simp)
          · rw [hbl]; exact hb _ (by rw [hsplit]; simp)
          · exact hb q (by rw [hsplit]; simp [hq])
      · rw [hh', hsetnh]; exact hcnt
      · rw [hh']; exact hsmall
    | some nd =>
      simp only at h hjoin
      obtain ⟨_, hag', hal⟩ := hjoin
      obtain ⟨hcount, hnd0⟩ := hostrangeJoin_count hag hbg hlo hpair nd a' b' hj
      let e1 := deleteRange cfg ((e.setAt (i - 1) a').setAt i b') i
      have hdel : e1.ranges = A ++ a' :: B := by
        show (deleteRange cfg ((e.setAt (i - 1) a').setAt i b') i).ranges = _
        rw [(deleteRange_ranges cfg _ i).1, hset]
        have : i = (A ++ [a']).length := by simp [hAlen]; omega
        have e1 : A ++ a' :: b' :: B = (A ++ [a']) ++ b' :: B := by simp
        rw [e1, this, eraseIdx_mid]; simp
      have hnh1 : e1.nhosts = e.nhosts := (deleteRange_ranges cfg _ i).2
      have hrs1 : e1.rs = ((e.setAt (i - 1) a').setAt i b').rs.eraseIdx i := by
        show (deleteRange cfg _ i).rs = _
        unfold deleteRange; simp only; split <;> simp [shiftIterators]
      have hnx1 : e1.nextId = e.nextId := by
        show (deleteRange cfg _ i).nextId = _
        unfold deleteRange; simp only; split <;> simp [shiftIterators, EL.setAt]
      have hh1 : ({ e1 with nhosts := e1.nhosts - nd } : EL).hosts = hostsL A ++ a'.hosts ++ hostsL B := by
        show hostsL e1.ranges = _
        rw [hdel]; simp [hostsL]
      have hlen1 : (({ e1 with nhosts := e1.nhosts - nd } : EL).hosts.length : Int) = (e.hosts.length : Int) - nd := by
        rw [hh1, hhosts]
        simp only [List.length_append]
        push_cast
        omega
      refine uniqLoop_keep cfg fuel _ _ e' ⟨⟨?_, ?_, fun x => Iff.rfl⟩, ?_, ?_, ?_⟩ h
      · show ∀ r ∈ e1.ranges, r.Good
        rw [hdel]
        intro q hq
        simp only [List.mem_append, List.mem_cons] at hq
        rcases hq with hq | rfl | hq
        · exact hgood q (by rw [hsplit]; simp [hq])
        · exact hag'
        · exact hgood q (by rw [hsplit]; simp [hq])
      · rcases hbound with hf | hb
        · exact Or.inl hf
        · right
          show ∀ r ∈ e1.ranges, _
          rw [hdel]
          intro q hq
          simp only [List.mem_append, List.mem_cons] at hq
          rcases hq with hq | rfl | hq
          · exact hb q (by rw [hsplit]; simp [hq])
          · rw [hal]; exact hb _ (by rw [hsplit]; simp)
          · exact hb q (by rw [hsplit]; simp [hq])
      · show e1.nhosts - nd = _
        rw [hlen1, hnh1, hcnt]
      · show ({ e1 with nhosts := e1.nhosts - nd } : EL).hosts.length < 2147483648
        have := hlen1
        omega
      · refine ⟨?_, ?_⟩
        · show (e1.rs.map (·.id)).Nodup
          rw [hrs1]
          exact ((List.eraseIdx_sublist _ _).map _).nodup (hsetok a' b').1
        · intro o ho
          have ho' : o ∈ e1.rs := ho
          rw [hrs1] at ho'
          show o.id < e1.nextId
          rw [hnx1, ← hsetnx a' b']
          exact (hsetok a' b').2 o ((List.eraseIdx_sublist _ _).subset ho')

end PdshVerif.Hostlist
