/-
  C15: termination (fuel), size and buffer bounds — for EVERY text and every variant.
  * `tokens_unfold`, `tokens_fuel_suffices`   the fuel `|s| + 1` of the tokenizer never cuts the
                                              until-NULL loop of `_next_tok` short;
  * `wcollExpand_fuel_suffices`               same for the shift loop of `wcoll_expand`;
  * `create_count_le`                         a text of n bytes yields at most MAX_RANGE · n hosts;
  * `suffixedName_is_snprintf`, `iterSuffix_is_snprintf`
                                              the names the model computes ARE what `snprintf`
                                              leaves in the explicit buffers of the C code
                                              (size computed as in the C source), in both variants
                                              of D23 / D17: no byte is written outside the buffer
                                              and, in the repaired variants, none is cut off.
-/
import PdshVerif.Hostlist.LemmasAccept
import PdshVerif.Hostlist.Cli

namespace PdshVerif.Hostlist
open PdshVerif.Gen

/-! ### the tokenizer consumes its input -/
theorem scanTok_append (sep : Str) : ∀ (s : Str) (lvl : Int),
    (scanTok sep lvl s).1 ++ (scanTok sep lvl s).2 = s
  | [], _ => rfl
  | c :: cs, lvl => by
    unfold scanTok
    split
    · have ih := scanTok_append sep cs (if c = '[' then lvl + 1 else if c = ']' then lvl - 1 else lvl)
      simp only [List.cons_append, ih]
    · rfl

theorem dropWhile_head_not {α : Type} {p : α → Bool} : ∀ {l : List α} {c : α} {cs : List α},
    l.dropWhile p = c :: cs → p c = false
  | [], _, _, h => by simp at h
  | x :: xs, c, cs, h => by
    by_cases hx : p x = true
    · rw [List.dropWhile_cons_of_pos hx] at h; exact dropWhile_head_not h
    · rw [List.dropWhile_cons_of_neg hx] at h
      simp only [List.cons.injEq] at h
      rw [← h.1]; simpa using hx

theorem dropWhile_length_le {α : Type} (p : α → Bool) : ∀ (l : List α), (l.dropWhile p).length ≤ l.length
  | [] => Nat.le_refl _
  | x :: xs => by
    by_cases hx : p x = true
    · rw [List.dropWhile_cons_of_pos hx]
      have := dropWhile_length_le p xs
      simp only [List.length_cons]; omega
    · rw [List.dropWhile_cons_of_neg hx]; exact Nat.le_refl _

/-- every call of `_next_tok` that returns a token returns a NON-EMPTY one and advances `*str`
    by at least its length -/
theorem nextTok_some {sep s t r : Str} (h : nextTok sep s = some (t, r)) :
    t ≠ [] ∧ t.length + r.length ≤ s.length := by
  unfold nextTok at h
  split at h
  · cases h
  · rename_i s1 hs1
    have happ := scanTok_append sep (s.dropWhile (isSep sep)) 0
    generalize hsc : scanTok sep 0 (s.dropWhile (isSep sep)) = sc at h happ
    obtain ⟨tok, rest⟩ := sc
    simp only [Option.some.injEq, Prod.mk.injEq] at h
    obtain ⟨rfl, rfl⟩ := h
    simp only at happ
    have hl1 := dropWhile_length_le (isSep sep) s
    have hl2 := dropWhile_length_le (isSep sep) rest
    have hlen : tok.length + rest.length = (s.dropWhile (isSep sep)).length := by
      rw [← happ, List.length_append]
    refine ⟨?_, by omega⟩
    -- the first character after the separators is scanned into the token
    cases hd : s.dropWhile (isSep sep) with
    | nil => exact absurd hd (by intro e; exact hs1 e)
    | cons c cs =>
      have hc := dropWhile_head_not hd
      rw [hd] at hsc
      unfold scanTok at hsc
      simp only [hc, Bool.not_false, Bool.or_true, ↓reduceIte] at hsc
      intro ht
      rw [ht] at hsc
      generalize scanTok sep _ cs = q at hsc
      obtain ⟨a, b⟩ := q
      simp at hsc

/-- FUEL: any two amounts of fuel above the text length give the same token list -/
theorem tokensFuel_stable (sep : Str) : ∀ (f g : Nat) (s : Str), s.length < f → s.length < g →
    tokensFuel sep f s = tokensFuel sep g s
  | 0, _, _, h, _ => absurd h (Nat.not_lt_zero _)
  | _ + 1, 0, _, _, h => absurd h (Nat.not_lt_zero _)
  | f + 1, g + 1, s, hf, hg => by
    unfold tokensFuel
    cases hn : nextTok sep s with
    | none => rfl
    | some p =>
      obtain ⟨t, r⟩ := p
      have ⟨hne, hl⟩ := nextTok_some hn
      have : 0 < t.length := List.length_pos_iff.mpr hne
      simp only
      rw [tokensFuel_stable sep f g r (by omega) (by omega)]

/-- TERMINATION of the token loop: the fuel the model passes (`|s| + 1`) always suffices — more
    fuel yields nothing more -/
theorem tokens_fuel_suffices (sep s : Str) (f : Nat) (hf : s.length < f) :
    tokensFuel sep f s = tokens sep s :=
  tokensFuel_stable sep f (s.length + 1) s hf (Nat.lt_succ_self _)

/-- … hence `tokens` IS the loop `while ((tok = _next_tok(sep, &str)))`: it satisfies the loop's
    equation without any fuel -/
theorem tokens_unfold (sep s : Str) :
    tokens sep s = match nextTok sep s with
      | none => []
      | some (t, r) => t :: tokens sep r := by
  unfold tokens
  rw [tokensFuel]
  cases hn : nextTok sep s with
  | none => rfl
  | some p =>
    obtain ⟨t, r⟩ := p
    have ⟨hne, hl⟩ := nextTok_some hn
    have : 0 < t.length := List.length_pos_iff.mpr hne
    simp only
    rw [tokensFuel_stable sep s.length (r.length + 1) r (by omega) (Nat.lt_succ_self _)]

/-- tokens are non-empty and together no longer than the text -/
theorem tokensFuel_lengths (sep : Str) : ∀ (f : Nat) (s : Str),
    (∀ t ∈ tokensFuel sep f s, t ≠ []) ∧ ((tokensFuel sep f s).map List.length).sum ≤ s.length
  | 0, _ => by simp [tokensFuel]
  | f + 1, s => by
    unfold tokensFuel
    cases hn : nextTok sep s with
    | none => simp
    | some p =>
      obtain ⟨t, r⟩ := p
      have ⟨hne, hl⟩ := nextTok_some hn
      have ih := tokensFuel_lengths sep f r
      simp only [List.mem_cons, forall_eq_or_imp, List.map_cons, List.sum_cons]
      exact ⟨⟨hne, ih.1⟩, by omega⟩

/-! ### the shift loop of `wcoll_expand` -/
theorem shiftL_some {rs rs' : List HRange} {nh nh' : Int} {host : Str}
    (h : shiftL rs nh = (some host, rs', nh')) : 0 < nh ∧ nh' = nh - 1 := by
  unfold shiftL at h
  split at h
  · rename_i hpos
    cases rs with
    | nil => simp at h
    | cons r rest =>
      simp only at h
      generalize hostrangeShift r = q at h
      obtain ⟨ho, r'⟩ := q
      simp only at h
      split at h <;> (simp only [Prod.mk.injEq] at h; exact ⟨hpos, h.2.2.symm⟩)
  · simp at h

theorem wcollExpandLoop_stable (cfg : Cfg) : ∀ (f g : Nat) (rs : List HRange) (nh : Int) (new : HL),
    nh.toNat < f → nh.toNat < g → wcollExpandLoop cfg f rs nh new = wcollExpandLoop cfg g rs nh new
  | 0, _, _, _, _, h, _ => absurd h (Nat.not_lt_zero _)
  | _ + 1, 0, _, _, _, _, h => absurd h (Nat.not_lt_zero _)
  | f + 1, g + 1, rs, nh, new, hf, hg => by
    unfold wcollExpandLoop
    split
    · rfl
    · cases hs : shiftL rs nh with
      | mk ho q =>
        obtain ⟨rs', nh'⟩ := q
        cases ho with
        | none => rfl
        | some host =>
          have ⟨hpos, hnh⟩ := shiftL_some hs
          simp only
          cases hlPush cfg new host with
          | ok new' =>
            simp only
            exact wcollExpandLoop_stable cfg f g rs' nh' new' (by omega) (by omega)
          | null _ _ => rfl
          | ub _ => rfl
          | diverge => rfl

/-- TERMINATION of `wcoll_expand`'s loop `while ((host = hostlist_shift(hl)))`: the fuel the
    model passes (`nhosts + 1`) always suffices — more fuel changes nothing -/
theorem wcollExpand_fuel_suffices (cfg : Cfg) (h : HL) (f : Nat) (hf : h.nhosts.toNat < f) :
    wcollExpandLoop cfg f h.ranges.toList h.nhosts HL.new = wcollExpand cfg h :=
  wcollExpandLoop_stable cfg f (h.nhosts.toNat + 1) _ _ _ hf (Nat.lt_succ_self _)

/-! ### how many hosts a text can yield (every variant) -/
theorem parseRangeItems_all (cfg : Cfg) (P : SR → Prop)
    (hP : ∀ e s r e', parseSingleRange cfg e s = .ok r e' → P r) : ∀ (items : List Str)
    (count e : Nat) (acc rs : Array SR) (e' : Nat),
    parseRangeItems cfg items count e acc = .ok rs e' → (∀ r ∈ acc.toList, P r) →
    ∀ r ∈ rs.toList, P r
  | [], _, _, acc, rs, e', h, ha => by
    simp only [parseRangeItems, PRL.ok.injEq] at h
    rw [← h.1]; exact ha
  | x :: xs, count, e, acc, rs, e', h, ha => by
    unfold parseRangeItems at h
    split at h
    · cases h
    · cases hp : parseSingleRange cfg e x with
      | fail _ _ => rw [hp] at h; cases h
      | ok r1 e1 =>
        rw [hp] at h
        simp only at h
        refine parseRangeItems_all cfg P hP xs (count + 1) e1 (acc.push r1) rs e' h ?_
        intro r hr
        simp only [Array.toList_push, List.mem_append, List.mem_singleton] at hr
        rcases hr with hr | rfl
        · exact ha r hr
        · exact hP _ _ _ _ hp

/-- what every accepted range record satisfies, in every variant -/
def SR.Small (r : SR) : Prop := r.lo ≤ r.hi ∧ r.hi ≤ ULONG_MAX ∧ rangeTooBig r.lo r.hi = false

theorem parseRangeList_small (cfg : Cfg) (e : Nat) (body : Str) (rs : Array SR) (e' : Nat)
    (h : parseRangeList cfg e body = .ok rs e') : ∀ r ∈ rs.toList, r.Small :=
  parseRangeItems_all cfg SR.Small
    (fun _ _ _ _ hp => by obtain ⟨a, b, c, _⟩ := parseSingleRange_ok hp; exact ⟨a, b, c⟩)
    _ 0 e #[] rs e' h (by simp)

theorem mk'_count_le (pfx : Str) {r : SR} (h : r.Small) :
    (HRange.mk' pfx r.lo r.hi r.width).count ≤ MAX_RANGE := by
  have := h.2.2
  unfold rangeTooBig at this
  simp only [HRange.count, HRange.mk', Bool.false_eq_true, ↓reduceIte]
  simpa using this

theorem pushRangeList_nhosts (pfx : Str) : ∀ (rs : List SR) (h : HL), (∀ r ∈ rs, r.Small) →
    (pushRangeList h pfx rs).nhosts ≤ h.nhosts + (MAX_RANGE * rs.length : Nat)
  | [], h, _ => by simp [pushRangeList]
  | r :: rs, h, hs => by
    have h1 := mk'_count_le pfx (hs r (by simp))
    have ih := pushRangeList_nhosts pfx rs (pushRange h (HRange.mk' pfx r.lo r.hi r.width))
      (fun x hx => hs x (by simp [hx]))
    rw [pushRange_nhosts] at ih
    simp only [pushRangeList, List.foldl_cons, List.length_cons] at ih ⊢
    have : MAX_RANGE * (rs.length + 1) = MAX_RANGE * rs.length + MAX_RANGE := by
      rw [Nat.mul_succ]
    omega

theorem foldl_singles_nhosts (name : Nat → Str) : ∀ (js : List Nat) (h : HL),
    (js.foldl (fun h j => pushRange h (HRange.mkSingle (name j))) h).nhosts = h.nhosts + js.length
  | [], h => by simp
  | j :: js, h => by
    rw [List.foldl_cons, foldl_singles_nhosts name js, pushRange_nhosts]
    simp only [HRange.count, HRange.mkSingle, ↓reduceIte, List.length_cons]
    omega

theorem pushRangeListWithSuffix_nhosts (cfg : Cfg) (pfx sfx : Str) : ∀ (rs : List SR) (h h' : HL),
    (∀ r ∈ rs, r.Small) → pushRangeListWithSuffix cfg h pfx sfx rs = .ok h' →
    h'.nhosts ≤ h.nhosts + (MAX_RANGE * rs.length : Nat)
  | [], h, h', _, hp => by
    simp only [pushRangeListWithSuffix, Outcome.ok.injEq] at hp
    subst hp; simp
  | r :: rs, h, h', hs, hp => by
    have hum : ULONG_MAX = 18446744073709551615 := rfl
    have hu64 : U64 = 18446744073709551616 := rfl
    unfold pushRangeListWithSuffix at hp
    unfold pushSuffixRange at hp
    by_cases hmax : r.hi = ULONG_MAX
    · simp [hmax] at hp
    · simp only [hmax, ↓reduceIte] at hp
      have ih := pushRangeListWithSuffix_nhosts cfg pfx sfx rs _ h'
        (fun x hx => hs x (by simp [hx])) hp
      rw [foldl_singles_nhosts (fun j => suffixedName cfg pfx sfx r.width j)] at ih
      obtain ⟨hle, hhi, hbig⟩ := hs r (by simp)
      have hcnt : r.hi + 1 - r.lo ≤ MAX_RANGE := by
        unfold rangeTooBig at hbig
        rw [subU64_of_le hle (by omega)] at hbig
        unfold addU64 at hbig
        rw [Nat.mod_eq_of_lt (by omega)] at hbig
        simp only [gt_iff_lt, decide_eq_false_iff_not, Nat.not_lt] at hbig
        omega
      simp only [List.length_range', List.length_cons] at ih ⊢
      have : MAX_RANGE * (rs.length + 1) = MAX_RANGE * rs.length + MAX_RANGE := by
        rw [Nat.mul_succ]
      omega

theorem splitAll_length_le (c : Char) : ∀ (s : Str), (splitAll c s).length ≤ s.length + 1
  | [] => by simp [splitAll]
  | x :: xs => by
    have ih := splitAll_length_le c xs
    unfold splitAll
    split
    · simp only [List.length_cons]; omega
    · split
      · simp
      · rename_i p ps heq
        rw [heq] at ih
        simp only [List.length_cons] at ih ⊢; omega

theorem hostRecord_count (name : Str) : (hostRecord name).count = 1 := by
  obtain ⟨hg, hh⟩ := hostRecord_spec name
  rw [hg.count_eq, hh]; rfl

/-- one token adds at most MAX_RANGE hosts per byte -/
theorem pushTok_nhosts (cfg : Cfg) (st st' : PSt) (tok : Str) (hne : tok ≠ [])
    (h : pushTok cfg st tok = .ok st') :
    st'.hl.nhosts ≤ st.hl.nhosts + (MAX_RANGE * tok.length : Nat) := by
  have hpos : 0 < tok.length := List.length_pos_iff.mpr hne
  have hMR : 1 ≤ MAX_RANGE := by decide
  unfold pushTok at h
  rcases cutAt_spec '[' tok with ⟨a, h1, h2, h3⟩ | ⟨pfx, p, h1, h2, h3⟩
  · rw [h1] at h
    simp only at h
    split at h
    · cases h
    · split at h
      · cases h
      · simp only [Outcome.ok.injEq] at h
        subst h
        simp only [pushHost, pushRange_nhosts, hostRecord_count]
        have : 1 ≤ MAX_RANGE * tok.length := Nat.mul_le_mul hMR hpos
        omega
  · rw [h1] at h
    simp only at h
    rcases cutAt_spec ']' p with ⟨b, g1, g2, g3⟩ | ⟨body, sfx, g1, g2, g3⟩
    · rw [g1] at h; cases h
    · rw [g1] at h
      simp only at h
      split at h
      · cases h
      · cases hp : parseRangeList cfg st.errno body with
        | fail e f => rw [hp] at h; cases h
        | ok rs e =>
          rw [hp] at h
          simp only at h
          have hsm := parseRangeList_small cfg _ _ _ _ hp
          have hsz := (ranges_in_bounds cfg _ _ _ _ hp).1
          have hsl := splitAll_length_le ',' body
          have hlen : rs.toList.length + 1 ≤ tok.length := by
            rw [h2, g2]
            simp only [Array.length_toList, List.length_append, List.length_cons]
            omega
          have hmul : MAX_RANGE * rs.toList.length ≤ MAX_RANGE * tok.length :=
            Nat.mul_le_mul_left _ (by omega)
          split at h
          · simp only [Outcome.ok.injEq] at h
            subst h
            have := pushRangeList_nhosts pfx rs.toList st.hl hsm
            simp only at this ⊢
            omega
          · cases hq : pushRangeListWithSuffix cfg st.hl pfx sfx rs.toList with
            | ok h' =>
              rw [hq] at h
              simp only [Outcome.ok.injEq] at h
              subst h
              have := pushRangeListWithSuffix_nhosts cfg pfx sfx rs.toList st.hl h' hsm hq
              simp only at this ⊢
              omega
            | null _ _ => rw [hq] at h; cases h
            | ub _ => rw [hq] at h; cases h
            | diverge => rw [hq] at h; cases h

theorem createToks_nhosts (cfg : Cfg) : ∀ (toks : List Str) (st st' : PSt), (∀ t ∈ toks, t ≠ []) →
    createToks cfg st toks = .ok st' →
    st'.hl.nhosts ≤ st.hl.nhosts + (MAX_RANGE * (toks.map List.length).sum : Nat)
  | [], st, st', _, h => by
    simp only [createToks, Outcome.ok.injEq] at h
    subst h; simp
  | t :: ts, st, st', hne, h => by
    unfold createToks at h
    cases hp : pushTok cfg st t with
    | ok st1 =>
      rw [hp] at h
      simp only at h
      have h1 := pushTok_nhosts cfg st st1 t (hne t (by simp)) hp
      have h2 := createToks_nhosts cfg ts st1 st' (fun x hx => hne x (by simp [hx])) h
      simp only [List.map_cons, List.sum_cons, Nat.mul_add]
      omega
    | null _ _ => rw [hp] at h; cases h
    | ub _ => rw [hp] at h; cases h
    | diverge => rw [hp] at h; cases h

/-- SIZE LIMIT OF THE WHOLE CALL (every variant, every text): a text of n bytes never yields a
    list that counts more than MAX_RANGE · n hosts — no number typed, however large, makes the
    result (and the work of building it) more than linear in the length of the text -/
theorem create_count_le (cfg : Cfg) (s : Str) (h : HL) (hc : create cfg s = .ok h) :
    h.count ≤ (MAX_RANGE * s.length : Nat) := by
  unfold create createFrom at hc
  cases hq : createToks cfg ⟨HL.new, 0⟩ (tokens hlSep s) with
  | ok st =>
    rw [hq] at hc
    simp only [Outcome.ok.injEq] at hc
    subst hc
    have hl := tokensFuel_lengths hlSep (s.length + 1) s
    have := createToks_nhosts cfg (tokens hlSep s) ⟨HL.new, 0⟩ st hl.1 hq
    have hm : MAX_RANGE * ((tokens hlSep s).map List.length).sum ≤ MAX_RANGE * s.length :=
      Nat.mul_le_mul_left _ hl.2
    simp only [HL.new, HL.count] at this ⊢
    omega
  | null _ _ => rw [hq] at hc; cases hc
  | ub _ => rw [hq] at hc; cases hc
  | diverge => rw [hq] at hc; cases hc

/-! ### explicit buffers -/
/-- what `snprintf(buf, size, fmt, ...)` leaves in `buf` when the formatted text is `s`: its
    first `size - 1` bytes (and the terminator) — never a byte outside `buf[size]` -/
def snprintfC (size : Nat) (s : Str) : Str := s.take (size - 1)

theorem snprintfC_length_lt (size : Nat) (s : Str) (h : 0 < size) : (snprintfC size s).length < size := by
  unfold snprintfC
  rw [List.length_take]; omega

theorem snprintfC_exact {size : Nat} {s : Str} (h : s.length < size) : snprintfC size s = s := by
  unfold snprintfC
  exact List.take_of_length_le (by omega)

theorem ndig_le_twenty {k : Nat} (hk : k ≤ ULONG_MAX) : ndig k ≤ 20 :=
  ndig_le_of_lt_pow (by decide) (by
    have : ULONG_MAX < 10 ^ 20 := by decide
    omega)

/-- `size_t len = strlen(pfx) + strlen(sfx) + (width > 20 ? width : 20) + 1; malloc(len)` of the
    repaired `_push_range_list_with_suffix` -/
def hostBufLen (pfx sfx : Str) (w : Nat) : Nat := pfx.length + sfx.length + max w 20 + 1

/-- `_push_range_list_with_suffix`: the name the model pushes IS what
    `snprintf(host, size, "%s%0*lu%s", pfx, width, j, sfx)` leaves in the explicit buffer — the
    4096-byte array of the code as found (D23: cut at 4095 bytes) or the `len` bytes the repaired
    code allocates, where nothing is ever cut off: a 64-bit number has at most 20 digits -/
theorem suffixedName_is_snprintf (cfg : Cfg) (pfx sfx : Str) (w j : Nat) (hj : j ≤ ULONG_MAX) :
    suffixedName cfg pfx sfx w j =
      snprintfC (if cfg.fixHostBuf then hostBufLen pfx sfx w else HOSTBUF) (pfx ++ fmtPad w j ++ sfx) := by
  unfold suffixedName
  split
  · rw [snprintfC_exact]
    have := ndig_le_twenty hj
    simp only [List.length_append, fmtPad_length, hostBufLen]
    omega
  · rfl

/-- `len = strlen(prefix) + (width > 20 ? width : 20) + 1` of the repaired `hostlist_next` -/
def nextBufLen (r : HRange) : Nat := r.pre.length + max r.width 20 + 1

/-- `hostlist_next`: the number the model appends IS what the C code's `snprintf` leaves in its
    explicit buffer: `suffix[16]` written with size 15 in the code as found (D17), the
    `nextBufLen` bytes of the repaired code, where the whole name always fits -/
theorem iterSuffix_is_snprintf (cfg : Cfg) (r : HRange) (d : Nat) :
    r.pre ++ iterSuffix cfg (fmtPad r.width (addU64 r.lo d)) =
      if cfg.fixIterSuffix then snprintfC (nextBufLen r) (r.pre ++ fmtPad r.width (addU64 r.lo d))
      else r.pre ++ snprintfC 15 (fmtPad r.width (addU64 r.lo d)) := by
  unfold iterSuffix
  split
  · rw [snprintfC_exact]
    have hlt : addU64 r.lo d ≤ ULONG_MAX := by
      unfold addU64
      have : (r.lo + d) % U64 < U64 := Nat.mod_lt _ (by decide)
      have hu : ULONG_MAX + 1 = U64 := by decide
      omega
    have := ndig_le_twenty hlt
    simp only [List.length_append, fmtPad_length, nextBufLen]
    omega
  · rfl

end PdshVerif.Hostlist
