/-
  Helper lemmas for C14, part 1: the write log and the relation `Wrote`.

  `Wrote b b' p N T`: `b'` results from `b` by stores that all lie in `[p, N)` and after which
  every character of `T` that has room in front of the last byte `N-1` is in place at `p + j`.
  The same statement covers a text that fits (all of `T` is there) and one that does not (exactly
  `T.take (N-1-p)` is there): that is what makes the truncation cases cheap.
-/
import PdshVerif.Hostlist.Print

namespace PdshVerif.Hostlist.Print
open PdshVerif.Hostlist

/-! ### cells -/
theorem mem_put (b : Buf) (i j : Nat) (c : Char) :
    (b.put i c).mem j = if i = j then some c else b.mem j := by
  simp only [Buf.mem, Buf.put, List.find?_cons]
  by_cases h : i = j
  · simp [h]
  · have : (i == j) = false := by simpa using h
    simp [this, h]

theorem mem_put_self (b : Buf) (i : Nat) (c : Char) : (b.put i c).mem i = some c := by
  simp [mem_put]

theorem put_neg (b : Buf) (i : Nat) (c : Char) : (b.put i c).neg = b.neg := rfl
theorem put_log (b : Buf) (i : Nat) (c : Char) : (b.put i c).log = (i, c) :: b.log := rfl

/-- stores at indices `≥ p` leave the cells below `p` alone -/
theorem mem_of_log_append {b b' : Buf} {W : List (Nat × Char)} {p j : Nat} (h : b'.log = W ++ b.log)
    (hW : ∀ w ∈ W, p ≤ w.1) (hj : j < p) : b'.mem j = b.mem j := by
  simp only [Buf.mem, h, List.find?_append]
  have : W.find? (fun w => w.1 == j) = none := by
    rw [List.find?_eq_none]
    intro w hw
    have := hW w hw
    simp only [beq_iff_eq]
    omega
  rw [this]; rfl

/-- the replayed cells (what the driver prints) are the cells the theorems speak about -/
theorem cells_size (b : Buf) (size : Nat) (fill : Char) : (b.cells size fill).size = size := by
  unfold Buf.cells
  induction b.log with
  | nil => simp
  | cons w ws ih => simp [List.foldr_cons, ih]

theorem cells_getElem? (b : Buf) (size : Nat) (fill : Char) (j : Nat) (hj : j < size) :
    (b.cells size fill)[j]? = some ((b.mem j).getD fill) := by
  unfold Buf.cells Buf.mem
  induction b.log with
  | nil => simp [hj]
  | cons w ws ih =>
    have hsz : (List.foldr (fun w a => a.setIfInBounds w.1 w.2) (Array.replicate size fill) ws).size = size := by
      have := cells_size ⟨ws, false⟩ size fill
      simpa [Buf.cells] using this
    simp only [List.foldr_cons, Array.getElem?_setIfInBounds, List.find?_cons, hsz]
    by_cases h : w.1 = j
    · simp [h, hj]
    · have : (w.1 == j) = false := by simpa using h
      simp [h, this, ih]

/-! ### `Wrote` -/
structure Wrote (b b' : Buf) (p N : Nat) (T : Str) : Prop where
  log : ∃ W, b'.log = W ++ b.log ∧ ∀ w ∈ W, p ≤ w.1 ∧ w.1 < N
  neg : b'.neg = b.neg
  text : ∀ j (hj : j < T.length), p + j + 1 < N → b'.mem (p + j) = some T[j]

theorem Wrote.frame {b b' : Buf} {p N : Nat} {T : Str} (h : Wrote b b' p N T) {j : Nat} (hj : j < p) :
    b'.mem j = b.mem j := by
  obtain ⟨W, hl, hW⟩ := h.log
  exact mem_of_log_append hl (fun w hw => (hW w hw).1) hj

theorem Wrote.refl (b : Buf) (p N : Nat) : Wrote b b p N [] :=
  ⟨⟨[], rfl, by simp⟩, rfl, by simp⟩

/-- a store at the end of the text so far appends a character -/
theorem Wrote.put_end {b b' : Buf} {p N : Nat} {T : Str} (h : Wrote b b' p N T) (c : Char)
    (hq : p + T.length < N) : Wrote b (b'.put (p + T.length) c) p N (T ++ [c]) := by
  obtain ⟨W, hl, hW⟩ := h.log
  refine ⟨⟨(p + T.length, c) :: W, by simp [put_log, hl], ?_⟩, by rw [put_neg, h.neg], ?_⟩
  · intro w hw
    rcases List.mem_cons.mp hw with rfl | hw
    · exact ⟨by simp, hq⟩
    · exact hW w hw
  · intro j hj hr
    rw [mem_put]
    simp only [List.length_append, List.length_cons, List.length_nil] at hj
    by_cases hjl : j = T.length
    · subst hjl; simp
    · have hj' : j < T.length := by omega
      have : ¬ (p + T.length = p + j) := by omega
      simp only [this, ↓reduceIte]
      rw [h.text j hj' hr, List.getElem_append_left hj']

/-- a store at or beyond the end of the text so far keeps the text -/
theorem Wrote.put_after {b b' : Buf} {p N : Nat} {T : Str} (h : Wrote b b' p N T) (q : Nat) (c : Char)
    (h1 : p + T.length ≤ q) (h2 : q < N) : Wrote b (b'.put q c) p N T := by
  obtain ⟨W, hl, hW⟩ := h.log
  refine ⟨⟨(q, c) :: W, by simp [put_log, hl], ?_⟩, by rw [put_neg, h.neg], ?_⟩
  · intro w hw
    rcases List.mem_cons.mp hw with rfl | hw
    · exact ⟨by simp only; omega, h2⟩
    · exact hW w hw
  · intro j hj hr
    rw [mem_put]
    have : ¬ (q = p + j) := by omega
    simp only [this, ↓reduceIte]
    exact h.text j hj hr

/-- a store at the LAST byte of the window never disturbs the text (only bytes in front of it are claimed) -/
theorem Wrote.put_last {b b' : Buf} {p N : Nat} {T : Str} (h : Wrote b b' p N T) (c : Char)
    (h1 : p < N) : Wrote b (b'.put (N - 1) c) p N T := by
  obtain ⟨W, hl, hW⟩ := h.log
  refine ⟨⟨(N - 1, c) :: W, by simp [put_log, hl], ?_⟩, by rw [put_neg, h.neg], ?_⟩
  · intro w hw
    rcases List.mem_cons.mp hw with rfl | hw
    · exact ⟨by simp only; omega, by simp only; omega⟩
    · exact hW w hw
  · intro j hj hr
    rw [mem_put]
    have : ¬ (N - 1 = p + j) := by omega
    simp only [this, ↓reduceIte]
    exact h.text j hj hr

theorem Wrote.trans {b b1 b2 : Buf} {p N : Nat} {T1 T2 : Str} (h1 : Wrote b b1 p N T1)
    (h2 : Wrote b1 b2 (p + T1.length) N T2) : Wrote b b2 p N (T1 ++ T2) := by
  obtain ⟨W1, hl1, hW1⟩ := h1.log
  obtain ⟨W2, hl2, hW2⟩ := h2.log
  refine ⟨⟨W2 ++ W1, by rw [hl2, hl1, List.append_assoc], ?_⟩, by rw [h2.neg, h1.neg], ?_⟩
  · intro w hw
    rcases List.mem_append.mp hw with hw | hw
    · have := hW2 w hw; omega
    · exact hW1 w hw
  · intro j hj hr
    by_cases hjl : j < T1.length
    · rw [h2.frame (by omega), h1.text j hjl hr, List.getElem_append_left hjl]
    · simp only [List.length_append] at hj
      have e : p + j = p + T1.length + (j - T1.length) := by omega
      rw [e, h2.text (j - T1.length) (by omega) (by omega), List.getElem_append_right (by omega)]

/-- once the window is full, any continuation of the text is "written" -/
theorem Wrote.full {b b' : Buf} {p N : Nat} {T1 : Str} (h : Wrote b b' p N T1) (T2 : Str)
    (hf : N ≤ p + T1.length + 1) : Wrote b b' p N (T1 ++ T2) := by
  refine ⟨h.log, h.neg, ?_⟩
  intro j hj hr
  have hjl : j < T1.length := by omega
  rw [h.text j hjl hr, List.getElem_append_left hjl]

theorem Wrote.prefix {b b' : Buf} {p N : Nat} {T1 T2 : Str} (h : Wrote b b' p N (T1 ++ T2)) :
    Wrote b b' p N T1 := by
  refine ⟨h.log, h.neg, ?_⟩
  intro j hj hr
  rw [h.text j (by simp only [List.length_append]; omega) hr, List.getElem_append_left hj]

theorem Wrote.congr {b b' : Buf} {p N : Nat} {T T' : Str} (h : Wrote b b' p N T) (e : T = T') :
    Wrote b b' p N T' := e ▸ h

/-- the window may be widened -/
theorem Wrote.mono {b b' : Buf} {p N N' : Nat} {T : Str} (h : Wrote b b' p N T) (hN : N ≤ N')
    (hfit : p + T.length < N ∨ N = N') : Wrote b b' p N' T := by
  obtain ⟨W, hl, hW⟩ := h.log
  refine ⟨⟨W, hl, fun w hw => ⟨(hW w hw).1, by have := (hW w hw).2; omega⟩⟩, h.neg, ?_⟩
  intro j hj hr
  rcases hfit with hfit | rfl
  · exact h.text j hj (by omega)
  · exact h.text j hj hr

/-- nothing needs to be written when the window is empty -/
theorem Wrote.of_empty_window (b : Buf) {p N : Nat} (T : Str) (h : N ≤ p + 1) : Wrote b b p N T := by
  have := (Wrote.refl b p N).full T (by simp only [List.length_nil]; omega)
  simpa using this

/-! ### `putStr`, `snprintfAt` -/
theorem putStr_wrote : ∀ (s : Str) (b : Buf) (p N : Nat), p + s.length ≤ N → Wrote b (b.putStr p s) p N s
  | [], b, p, N, _ => Wrote.refl b p N
  | c :: cs, b, p, N, h => by
    simp only [Buf.putStr]
    simp only [List.length_cons] at h
    have h0 : Wrote b (b.put p c) p N [c] := by
      have := (Wrote.refl b p N).put_end c (by simp only [List.length_nil]; omega)
      simpa using this
    have h1 := putStr_wrote cs (b.put p c) (p + 1) N (by omega)
    have := h0.trans (T2 := cs) (by simpa using h1)
    simpa using this

theorem snprintfAt_ret (b : Buf) (p m : Nat) (t : Str) : (snprintfAt b p m t).2 = t.length := by
  unfold snprintfAt; split <;> rfl

/-- `snprintf` into the window `[p, N)` of size `m = N - p` -/
theorem snprintfAt_wrote (b : Buf) (p m N : Nat) (t : Str) (hm : m = N - p) :
    Wrote b (snprintfAt b p m t).1 p N t := by
  unfold snprintfAt
  by_cases h0 : m = 0
  · simp only [h0, ↓reduceIte]
    refine ⟨⟨[], rfl, by simp⟩, rfl, ?_⟩
    intro j _ hr; omega
  · simp only [h0, ↓reduceIte]
    have hlen : (t.take (m - 1)).length = min t.length (m - 1) := by
      rw [List.length_take]; omega
    have h1 : Wrote b (b.putStr p (t.take (m - 1))) p N (t.take (m - 1)) :=
      putStr_wrote _ b p N (by rw [hlen]; omega)
    have h2 := h1.put_after (p + min t.length (m - 1)) NUL (by rw [hlen]; omega) (by omega)
    by_cases hc : t.length ≤ m - 1
    · rw [List.take_of_length_le hc] at h2 ⊢
      exact h2
    · have h3 := h2.full (t.drop (m - 1)) (by rw [hlen]; omega)
      rw [List.take_append_drop] at h3
      exact h3

end PdshVerif.Hostlist.Print
