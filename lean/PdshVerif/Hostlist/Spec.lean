/-
  SPECIFICATION for C01 / C15, written independently of the model (imports nothing from it).

  * AST level (C01): `Expr = List Word`; `expand₁` is the mathematical expansion of the first
    bracket group of every word (what `hostlist_create` must denote), `expand₂` additionally
    expands a second bracket group (what `pdsh -w` must target).
  * String level: `classify s` reads ANY text with its own little reader (bracket depth, words at
    depth 0, digit strings) and reports either the list of problems the property text names
    (unbalanced brackets, non-numeric / reversed / too large ranges, too many ranges, numbers that
    do not fit 64 bits) or the expected expansions.  It is policy-free: which failure is reported
    first, and what happens where the text is silent (numbers ≥ 2^64 in a small range, > 10240
    ranges), is left to the implementation; the check (checks/c01.py, c15.py) only tests
    admissibility.
  The limits are the ones of the PROPERTY TEXT (16384 hosts per range, 10240 ranges per bracket),
  deliberately not the constants regenerated from the code.
-/
namespace PdshVerif.Hostlist.Spec

abbrev Str := List Char

/-- hosts per range the property text allows -/
def RANGE_LIMIT : Nat := 16384
/-- ranges per bracket group -/
def RANGES_LIMIT : Nat := 10240

/-- value of a digit string -/
def val (s : Str) : Nat := Nat.ofDigitChars 10 s 0

/-- decimal numeral of `n`, zero padded on the left to at least `w` characters -/
def pad (w n : Nat) : Str :=
  let d := Nat.toDigits 10 n
  List.replicate (w - d.length) '0' ++ d

/-! ### AST level -/

/-- a range as typed: the low bound's text and, if present, the high bound's text -/
structure Range where
  loS : Str
  hiS : Option Str
  deriving Repr, DecidableEq

def Range.lo (r : Range) : Nat := val r.loS
def Range.hi (r : Range) : Nat := match r.hiS with | some h => val h | none => val r.loS

/-- the numerals a typed range stands for: every n in lo..hi, width of the low bound as typed -/
def Range.names (r : Range) : List Str :=
  (List.range' r.lo (r.hi + 1 - r.lo)).map (pad r.loS.length)

def groupNames (g : List Range) : List Str := g.flatMap Range.names

/-- a word: a plain name, or `pre[g1]mid` optionally followed by a second group `[g2]post` -/
inductive Word where
  | plain (name : Str)
  | br (pre : Str) (g1 : List Range) (mid : Str) (g2 : Option (List Range × Str))
  deriving Repr

abbrev Expr := List Word

def renderRange (r : Range) : Str :=
  r.loS ++ (match r.hiS with | some h => '-' :: h | none => [])

/-- pieces joined by commas -/
def joinComma : List Str → Str
  | [] => []
  | [x] => x
  | x :: y :: rest => x ++ ',' :: joinComma (y :: rest)

def renderGroup (g : List Range) : Str :=
  '[' :: joinComma (g.map renderRange) ++ [']']

def renderTail : Option (List Range × Str) → Str
  | none => []
  | some (g2, post) => renderGroup g2 ++ post

def renderWord : Word → Str
  | .plain n => n
  | .br pre g1 mid g2 => pre ++ renderGroup g1 ++ mid ++ renderTail g2

/-- separator characters between words -/
def sepChar (c : Char) : Bool := c = ',' || c = ' ' || c = '\t'

/-- the separator runs of a rendering: blanks/commas/tabs only, non-empty between two words
    (after the last word the run may be empty) -/
def sepsOK : List (Word × Str) → Bool
  | [] => true
  | [(_, s)] => s.all sepChar
  | (_, s) :: rest => !s.isEmpty && s.all sepChar && sepsOK rest

/-- an expression as text: an optional leading separator run, then every word followed by its
    separator run (any non-empty mix of `,` blank tab) -/
def render (lead : Str) (items : List (Word × Str)) : Str :=
  lead ++ items.flatMap fun p => renderWord p.1 ++ p.2

/-- first-level expansion: the first group in place, anything after it verbatim -/
def Word.expand₁ : Word → List Str
  | .plain n => [n]
  | .br pre g1 mid g2 => (groupNames g1).map fun n1 => pre ++ n1 ++ mid ++ renderTail g2

/-- full expansion: a second group in the same word is expanded too -/
def Word.expand₂ : Word → List Str
  | .plain n => [n]
  | .br pre g1 mid none => (groupNames g1).map fun n1 => pre ++ n1 ++ mid
  | .br pre g1 mid (some (g2, post)) =>
    (groupNames g1).flatMap fun n1 => (groupNames g2).map fun n2 => pre ++ n1 ++ mid ++ n2 ++ post

def expand₁ (e : Expr) : List Str := e.flatMap Word.expand₁
def expand₂ (e : Expr) : List Str := e.flatMap Word.expand₂

/-! well-formedness (the quantifier of C01) -/
def isDigitC (c : Char) : Bool := '0' ≤ c && c ≤ '9'
def digits (s : Str) : Bool := !s.isEmpty && s.all isDigitC
/-- a character of names / prefix / suffix text: no separator, no bracket -/
def textChar (c : Char) : Bool := c ≠ ',' && c ≠ ' ' && c ≠ '\t' && c ≠ '[' && c ≠ ']'

def Range.WF (r : Range) : Bool :=
  digits r.loS && (match r.hiS with | some h => digits h | none => true) &&
  decide (r.lo ≤ r.hi) && decide (r.hi - r.lo < RANGE_LIMIT) && decide (r.hi < 2 ^ 64)

def groupWF (g : List Range) : Bool := !g.isEmpty && decide (g.length ≤ RANGES_LIMIT) && g.all Range.WF

def Word.WF : Word → Bool
  | .plain n => !n.isEmpty && n.all textChar
  | .br pre g1 mid g2 =>
    pre.all textChar && groupWF g1 && mid.all textChar &&
    (match g2 with | none => true | some (g, post) => groupWF g && post.all textChar)

def WF (e : Expr) : Bool := e.all Word.WF

/-! ### string level -/

inductive Problem where
  | unbalanced      -- brackets do not match
  | nonnumeric      -- a range bound is not a non-empty digit string
  | reversed        -- lo > hi
  | tooMany         -- more than 16384 hosts in one range
  | tooManyRanges   -- more than 10240 ranges in one bracket group
  deriving Repr, DecidableEq

def Problem.name : Problem → String
  | .unbalanced => "unbalanced"
  | .nonnumeric => "nonnumeric"
  | .reversed => "reversed"
  | .tooMany => "toomany"
  | .tooManyRanges => "toomanyranges"

/-- brackets match: depth never negative, zero at the end -/
def balanced : Nat → Str → Bool
  | d, [] => d == 0
  | d, c :: cs =>
    if c = '[' then balanced (d + 1) cs
    else if c = ']' then (match d with | 0 => false | d' + 1 => balanced d' cs)
    else balanced d cs

/-- words = maximal runs without a separator at bracket depth 0 (`cur` is kept reversed) -/
def splitWords : Nat → Str → Str → List Str
  | _, cur, [] => if cur.isEmpty then [] else [cur.reverse]
  | d, cur, c :: cs =>
    if d = 0 && sepChar c then
      (if cur.isEmpty then splitWords 0 [] cs else cur.reverse :: splitWords 0 [] cs)
    else
      splitWords (if c = '[' then d + 1 else if c = ']' then d - 1 else d) (c :: cur) cs

/-- text up to the bracket closing depth 0, and what follows it -/
def matchClose : Nat → Str → Str → Str × Str
  | _, acc, [] => (acc.reverse, [])
  | d, acc, c :: cs =>
    if c = ']' then (match d with | 0 => (acc.reverse, cs) | d' + 1 => matchClose d' (c :: acc) cs)
    else if c = '[' then matchClose (d + 1) (c :: acc) cs
    else matchClose d (c :: acc) cs

/-- pieces between commas -/
def splitComma : Str → Str → List Str
  | cur, [] => [cur.reverse]
  | cur, c :: cs => if c = ',' then cur.reverse :: splitComma [] cs else splitComma (c :: cur) cs

/-- one range item: its problems, or (lo, hi, width) -/
def readItem (it : Str) : Except Problem (Nat × Nat × Nat) :=
  let loS := it.takeWhile (· ≠ '-')
  match it.dropWhile (· ≠ '-') with
  | [] => if digits loS then .ok (val loS, val loS, loS.length) else .error .nonnumeric
  | _ :: hiS =>
    if digits loS && digits hiS then
      (if val loS > val hiS then .error .reversed else .ok (val loS, val hiS, loS.length))
    else .error .nonnumeric

def itemProblems (it : Str) : List Problem :=
  match readItem it with
  | .error p => [p]
  | .ok (lo, hi, _) =>
    if hi - lo + 1 > RANGE_LIMIT then [.tooMany] else []

/-- the item is within the limits but one of its bounds reaches 2^64-1, the largest value of the
    implementation's number type (which it needs as a sentinel), or lies beyond it: the property
    text is silent about it (admissible: refuse it, or expand it exactly) -/
def itemNote64 (it : Str) : Bool :=
  match readItem it with
  | .error _ => false
  | .ok (lo, hi, _) => hi - lo + 1 ≤ RANGE_LIMIT && hi + 1 ≥ 2 ^ 64

def itemNames (it : Str) : List Str :=
  match readItem it with
  | .error _ => []
  | .ok (lo, hi, w) => (List.range' lo (hi + 1 - lo)).map (pad w)

/-- does the first group of the word hold a bound ≥ 2^64 (in a range within the limits)? -/
def wordNote64 (w : Str) : Bool :=
  match w.dropWhile (· ≠ '[') with
  | [] => false
  | _ :: t => (splitComma [] (matchClose 0 [] t).1).any itemNote64

/-- a word of a BALANCED text: problems of its first group, and its first-level expansion -/
def readWord (w : Str) : List Problem × List Str :=
  let pre := w.takeWhile (· ≠ '[')
  match w.dropWhile (· ≠ '[') with
  | [] => ([], [w])
  | _ :: t =>
    match matchClose 0 [] t with
    | (body, rest) =>
      if body.contains '[' then ([.nonnumeric], [])
      else
        let items := splitComma [] body
        let ps := items.flatMap itemProblems ++
                  (if items.length > RANGES_LIMIT then [.tooManyRanges] else [])
        if ps.isEmpty then ([], (items.flatMap itemNames).map fun n => pre ++ n ++ rest)
        else (ps, [])

structure Verdict where
  note64 : Bool                  -- some bound ≥ 2^64 (at either level) in a range within the limits
  problems : List Problem        -- of the text as a host expression (first-level)
  hosts₁ : List Str              -- expected `hostlist_create` denotation (when no problem)
  problems₂ : List Problem       -- problems met when the first-level names are expanded again
  hosts₂ : List Str              -- expected `pdsh -w` targets (when no problem at either level)
  deriving Repr

def classify (s : Str) : Verdict :=
  if !balanced 0 s then ⟨false, [.unbalanced], [], [], []⟩
  else
    let words := splitWords 0 [] s
    let ws := words.map readWord
    let ps := (ws.flatMap (·.1)).eraseDups
    if !ps.isEmpty then ⟨false, ps, [], [], []⟩
    else
      let h1 := ws.flatMap (·.2)
      let l2 := h1.map readWord
      let ps2 := (l2.flatMap (·.1)).eraseDups
      ⟨words.any wordNote64 || h1.any wordNote64, [], h1, ps2, if ps2.isEmpty then l2.flatMap (·.2) else []⟩

/-- string-level expander of well-formed text (the oracle of C01) -/
def expandStr₁ (s : Str) : List Str := (classify s).hosts₁
def expandStr₂ (s : Str) : List Str := (classify s).hosts₂

/-! ### answer line of `pdshmodel hl spec` -/
def hexDigit (n : Nat) : Char := if n < 10 then Char.ofNat (48 + n) else Char.ofNat (87 + n)
def hexName (s : Str) : String :=
  if s.isEmpty then "-" else String.ofList (s.flatMap fun c => [hexDigit (c.toNat / 16 % 16), hexDigit (c.toNat % 16)])

def namesField (xs : List Str) (limit : Nat) : String :=
  let shown := xs.take limit
  let more := if xs.length > limit then "+" else ""
  s!"{shown.length}{more}:" ++ ",".intercalate (shown.map hexName)

/-- `fail:<p1>+<p2>..`  or  `ok|ok64 | <n1> | <names1> | <n2> | <names2 or = or fail:..>` -/
def answer (s : Str) (limit : Nat) : String :=
  let v := classify s
  if !v.problems.isEmpty then "fail:" ++ "+".intercalate (v.problems.map Problem.name)
  else
    let a := namesField v.hosts₁ limit
    let b := if !v.problems₂.isEmpty then "fail:" ++ "+".intercalate (v.problems₂.map Problem.name)
             else
               let b := namesField v.hosts₂ limit
               if a = b then "=" else b
    let head := if v.note64 then "ok64" else "ok"
    s!"{head} | {v.hosts₁.length} | {a} | {v.hosts₂.length} | {b}"

end PdshVerif.Hostlist.Spec
