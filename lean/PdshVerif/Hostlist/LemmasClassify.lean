/-
  `hostlist_create` AGAINST THE INDEPENDENT SPEC, FOR EVERY BYTE STRING (repaired variant =
  /repo HEAD as probed): the full-strength statement of C15 and C01 together.

    * `create_iff_classify`   a text is accepted ⇔ `Spec.classify` (Hostlist/Spec.lean, written
                              without the model: its own bracket matcher, word splitter, item
                              reader) finds no problem in it and no bound of a range within the
                              limits reaches 2^64-1 (where the property text is silent; the code
                              refuses, `note64₁`);
    * `create_hosts_classify` and then the list built is well formed and denotes exactly the
                              spec's first-level expansion `hosts₁` (order written, width of the
                              low bound as typed, repeats kept, suffix text verbatim);
    * otherwise NULL with an errno (`create_returns`) — no third outcome.

  Route: words = tokens on balanced texts (LemmasWords); per token `tokOk` ⇔ the spec's
  `readWord` names no problem (`tokOk_iff_spec`: the spec matches the closing bracket by depth,
  the code takes the first `]` — the same text exactly when the group holds no `[`, and a group
  with a `[` is refused by both); an accepted token is the rendering of typed ranges
  (`itemRange`), so the group lemmas of LemmasCreate give its hosts (`pushTok_spec`).
-/
import PdshVerif.Hostlist.LemmasWords
import PdshVerif.Hostlist.LemmasGood

namespace PdshVerif.Hostlist
open PdshVerif.Gen

/-! ### small list facts -/
theorem takeWhile_ne_append {c : Char} : ∀ {a : Str} (b : Str), c ∉ a →
    (a ++ c :: b).takeWhile (· ≠ c) = a
  | [], b, _ => by simp [List.takeWhile]
  | x :: a, b, h => by
    have hx : x ≠ c := fun e => h (by simp [e])
    have := takeWhile_ne_append (a := a) b (fun hm => h (List.mem_cons_of_mem _ hm))
    simpa [List.takeWhile, hx] using this

theorem dropWhile_ne_append {c : Char} : ∀ {a : Str} (b : Str), c ∉ a →
    (a ++ c :: b).dropWhile (· ≠ c) = c :: b
  | [], b, _ => by simp [List.dropWhile]
  | x :: a, b, h => by
    have hx : x ≠ c := fun e => h (by simp [e])
    have := dropWhile_ne_append (a := a) b (fun hm => h (List.mem_cons_of_mem _ hm))
    simpa [List.dropWhile, hx] using this

theorem dropWhile_ne_none {c : Char} : ∀ {a : Str}, c ∉ a → a.dropWhile (· ≠ c) = []
  | [], _ => rfl
  | x :: a, h => by
    have hx : x ≠ c := fun e => h (by simp [e])
    have := dropWhile_ne_none (a := a) (fun hm => h (List.mem_cons_of_mem _ hm))
    simpa [List.dropWhile, hx] using this

theorem eraseDups_isEmpty {α : Type} [BEq α] (l : List α) : l.eraseDups.isEmpty = l.isEmpty := by
  cases l with
  | nil => rfl
  | cons a as => rw [List.eraseDups_cons]; rfl

/-! ### the spec's bracket matcher and comma splitter -/
theorem matchClose_noBr : ∀ (body acc sfx : Str), '[' ∉ body → ']' ∉ body →
    Spec.matchClose 0 acc (body ++ ']' :: sfx) = (acc.reverse ++ body, sfx)
  | [], acc, sfx, _, _ => by simp [Spec.matchClose]
  | x :: body, acc, sfx, ho, hc => by
    have hxo : x ≠ '[' := fun e => ho (by simp [e])
    have hxc : x ≠ ']' := fun e => hc (by simp [e])
    have ih := matchClose_noBr body (x :: acc) sfx (fun hm => ho (List.mem_cons_of_mem _ hm))
      (fun hm => hc (List.mem_cons_of_mem _ hm))
    simp only [List.cons_append, Spec.matchClose, hxc, hxo, ↓reduceIte, ih]
    simp

theorem matchClose_mem : ∀ (s : Str) (d : Nat) (acc : Str) (x : Char), x ∈ acc →
    x ∈ (Spec.matchClose d acc s).1
  | [], d, acc, x, h => by simpa [Spec.matchClose] using h
  | c :: cs, d, acc, x, h => by
    unfold Spec.matchClose
    split
    · cases d with
      | zero => simpa using h
      | succ k => exact matchClose_mem cs k (c :: acc) x (List.mem_cons_of_mem _ h)
    · split
      · exact matchClose_mem cs (d + 1) (c :: acc) x (List.mem_cons_of_mem _ h)
      · exact matchClose_mem cs d (c :: acc) x (List.mem_cons_of_mem _ h)

/-- a `[` before the first `]` ends up inside the group the spec cuts out -/
theorem matchClose_open : ∀ (body : Str) (d : Nat) (acc rest : Str), '[' ∈ body → ']' ∉ body →
    '[' ∈ (Spec.matchClose d acc (body ++ rest)).1
  | [], _, _, _, h, _ => by simp at h
  | x :: body, d, acc, rest, ho, hc => by
    have hxc : x ≠ ']' := fun e => hc (by simp [e])
    have hc' : ']' ∉ body := fun hm => hc (List.mem_cons_of_mem _ hm)
    by_cases hxo : x = '['
    · simp only [List.cons_append, Spec.matchClose, hxo, ↓reduceIte]
      exact matchClose_mem _ _ _ _ (by simp)
    · have ho' : '[' ∈ body := by
        rcases List.mem_cons.mp ho with e | e
        · exact absurd e.symm hxo
        · exact e
      simp only [List.cons_append, Spec.matchClose, hxc, hxo, ↓reduceIte]
      exact matchClose_open body d (x :: acc) rest ho' hc'

theorem splitComma_aux : ∀ (s cur : Str), ∃ p ps, splitAll ',' s = p :: ps ∧
    Spec.splitComma cur s = (cur.reverse ++ p) :: ps
  | [], cur => ⟨[], [], rfl, by simp [Spec.splitComma]⟩
  | x :: xs, cur => by
    by_cases hx : x = ','
    · exact ⟨[], splitAll ',' xs, by simp [splitAll, hx], by
        obtain ⟨p, ps, e1, e2⟩ := splitComma_aux xs []
        simp [Spec.splitComma, hx, e2, e1]⟩
    · obtain ⟨p, ps, e1, e2⟩ := splitComma_aux xs (x :: cur)
      refine ⟨x :: p, ps, by simp [splitAll, hx, e1], ?_⟩
      simp [Spec.splitComma, hx, e2]

/-- the spec's comma splitter and the model's `splitAll ','` are the same function -/
theorem splitComma_eq (s : Str) : Spec.splitComma [] s = splitAll ',' s := by
  obtain ⟨p, ps, e1, e2⟩ := splitComma_aux s []
  rw [e1, e2]; rfl

/-! ### items -/
/-- accepted by the repaired `_parse_single_range` ⇔ the spec's reader names no problem and no
    bound reaches 2^64-1 -/
theorem itemOk_iff_spec (it : Str) :
    itemOk it ↔ Spec.itemProblems it = [] ∧ Spec.itemNote64 it = false := by
  have h64 := itemNote64_eq it
  rw [itemProblems_eq it]
  unfold itemOk
  constructor
  · rintro ⟨h1, h2, h3, h4⟩
    have hr : ¬ itemHi it < itemLo it := by omega
    have hb : ¬ MAX_RANGE ≤ itemHi it - itemLo it := by omega
    refine ⟨by simp [h1, hr, hb], ?_⟩
    cases hn : Spec.itemNote64 it with
    | false => rfl
    | true => have := (h64.mp hn).2.2.2; omega
  · rintro ⟨h1, h2⟩
    split at h1
    · cases h1
    · rename_i hn
      split at h1
      · cases h1
      · split at h1
        · cases h1
        · have hn' : numericItem it = true := by simpa using hn
          refine ⟨hn', by omega, ?_, by omega⟩
          apply Classical.byContradiction
          intro hc
          have := h64.mpr ⟨hn', by omega, by omega, by omega⟩
          rw [this] at h2; cases h2

/-- the typed range an item stands for -/
def itemRange (it : Str) : Spec.Range := ⟨(cutAt '-' it).1, (cutAt '-' it).2⟩

theorem itemRange_lo (it : Str) : (itemRange it).lo = itemLo it := rfl
theorem itemRange_hi (it : Str) : (itemRange it).hi = itemHi it := by
  unfold itemRange Spec.Range.hi itemHi
  cases (cutAt '-' it).2 <;> rfl

theorem srOf_itemRange (it : Str) : srOf (itemRange it) = itemSR it := by
  unfold srOf itemSR
  rw [itemRange_lo, itemRange_hi]; rfl

theorem itemRange_wf {it : Str} (h : itemOk it) :
    (itemRange it).WF = true ∧ (itemRange it).hi < ULONG_MAX := by
  obtain ⟨h1, h2, h3, h4⟩ := h
  have hRL : Spec.RANGE_LIMIT = MAX_RANGE := by decide
  have hM : ULONG_MAX < (2 : Nat) ^ 64 := by decide
  refine ⟨?_, by rw [itemRange_hi]; exact h3⟩
  have hlo := itemRange_lo it
  have hhi := itemRange_hi it
  unfold Spec.Range.WF
  rw [hlo, hhi]
  simp only [Bool.and_eq_true, decide_eq_true_eq, hRL]
  refine ⟨⟨⟨⟨?_, ?_⟩, h2⟩, h4⟩, by omega⟩
  · unfold numericItem at h1
    unfold itemRange
    simp only [spec_digits_eq]
    generalize cutAt '-' it = q at h1 ⊢
    obtain ⟨a, b⟩ := q
    cases b with
    | none => simpa using h1
    | some hi =>
      simp only [Bool.and_eq_true] at h1
      simpa using h1.1.1
  · unfold numericItem at h1
    unfold itemRange
    simp only [spec_digits_eq]
    generalize cutAt '-' it = q at h1 ⊢
    obtain ⟨a, b⟩ := q
    cases b with
    | none => rfl
    | some hi =>
      simp only [Bool.and_eq_true] at h1
      simp only [Bool.and_eq_true]
      exact ⟨h1.1.2, h1.2⟩

theorem itemRange_names {it : Str} (h : itemOk it) :
    (itemRange it).names = Spec.itemNames it := by
  obtain ⟨h1, h2, _, _⟩ := h
  unfold Spec.itemNames Spec.Range.names
  rw [readItem_eq it, itemRange_lo, itemRange_hi]
  have hr : ¬ itemHi it < itemLo it := by omega
  simp only [h1, Bool.true_eq_false, ↓reduceIte, hr]
  rfl

theorem groupNames_items {items : List Str} (h : ∀ it ∈ items, itemOk it) :
    Spec.groupNames (items.map itemRange) = items.flatMap Spec.itemNames := by
  unfold Spec.groupNames
  rw [List.flatMap_map]
  exact flatMap_congr' (fun it hit => itemRange_names (h it hit))

/-! ### words -/
theorem readWord_plain {w : Str} (h : '[' ∉ w) : Spec.readWord w = ([], [w]) := by
  unfold Spec.readWord
  rw [dropWhile_ne_none h]

theorem wordNote64_plain {w : Str} (h : '[' ∉ w) : Spec.wordNote64 w = false := by
  unfold Spec.wordNote64
  rw [dropWhile_ne_none h]

/-- the problems the spec finds in a bracket body (without `[`): those of its comma items, and
    too many of them -/
def wordProblems (body : Str) : List Spec.Problem :=
  (splitAll ',' body).flatMap Spec.itemProblems ++
    (if (splitAll ',' body).length > Spec.RANGES_LIMIT then [Spec.Problem.tooManyRanges] else [])

theorem wordProblems_nil_iff (body : Str) :
    wordProblems body = [] ↔
      (splitAll ',' body).length ≤ MAX_RANGES ∧ ∀ it ∈ splitAll ',' body, Spec.itemProblems it = [] := by
  have hRL : Spec.RANGES_LIMIT = MAX_RANGES := by decide
  unfold wordProblems
  rw [List.append_eq_nil_iff, List.flatMap_eq_nil_iff, hRL]
  constructor
  · rintro ⟨k1, k2⟩
    refine ⟨?_, k1⟩
    split at k2
    · cases k2
    · omega
  · rintro ⟨k1, k2⟩
    refine ⟨k2, ?_⟩
    have : ¬ (splitAll ',' body).length > MAX_RANGES := by omega
    simp [this]

/-- the spec's reading of `pfx[body]sfx` when the first group holds no `[` -/
theorem readWord_br (pfx body sfx : Str) (h1 : '[' ∉ pfx) (h2 : ']' ∉ body) (h3 : '[' ∉ body) :
    Spec.readWord (pfx ++ '[' :: (body ++ ']' :: sfx)) =
      (if (wordProblems body).isEmpty
       then ([], ((splitAll ',' body).flatMap Spec.itemNames).map fun n => pfx ++ n ++ sfx)
       else (wordProblems body, [])) := by
  have hc : body.contains '[' = false := by simpa using h3
  unfold Spec.readWord wordProblems
  rw [takeWhile_ne_append _ h1, dropWhile_ne_append _ h1]
  simp only
  rw [matchClose_noBr body [] sfx h3 h2]
  simp only [List.reverse_nil, List.nil_append, hc, Bool.false_eq_true, ↓reduceIte, splitComma_eq]

theorem readWord_br_fst (pfx body sfx : Str) (h1 : '[' ∉ pfx) (h2 : ']' ∉ body) (h3 : '[' ∉ body) :
    (Spec.readWord (pfx ++ '[' :: (body ++ ']' :: sfx))).1 = wordProblems body := by
  rw [readWord_br pfx body sfx h1 h2 h3]
  by_cases he : (wordProblems body).isEmpty = true
  · rw [if_pos he]; exact (List.isEmpty_iff.mp he).symm
  · rw [if_neg he]

theorem readWord_br_snd (pfx body sfx : Str) (h1 : '[' ∉ pfx) (h2 : ']' ∉ body) (h3 : '[' ∉ body)
    (h0 : wordProblems body = []) :
    (Spec.readWord (pfx ++ '[' :: (body ++ ']' :: sfx))).2 =
      ((splitAll ',' body).flatMap Spec.itemNames).map fun n => pfx ++ n ++ sfx := by
  rw [readWord_br pfx body sfx h1 h2 h3, h0]; rfl

theorem wordNote64_br (pfx body sfx : Str) (h1 : '[' ∉ pfx) (h2 : ']' ∉ body) (h3 : '[' ∉ body) :
    Spec.wordNote64 (pfx ++ '[' :: (body ++ ']' :: sfx)) = (splitAll ',' body).any Spec.itemNote64 := by
  unfold Spec.wordNote64
  rw [dropWhile_ne_append _ h1]
  simp only
  rw [matchClose_noBr body [] sfx h3 h2]
  simp only [List.reverse_nil, List.nil_append, splitComma_eq]

/-- a first group with a `[` inside: the spec names it non-numeric -/
theorem readWord_br_open (pfx body sfx : Str) (h1 : '[' ∉ pfx) (h2 : ']' ∉ body) (h3 : '[' ∈ body) :
    (Spec.readWord (pfx ++ '[' :: (body ++ ']' :: sfx))).1 = [.nonnumeric] := by
  unfold Spec.readWord
  rw [dropWhile_ne_append _ h1]
  simp only
  have hm := matchClose_open body 0 [] (']' :: sfx) h3 h2
  generalize Spec.matchClose 0 [] (body ++ ']' :: sfx) = q at hm
  obtain ⟨b, r⟩ := q
  have : b.contains '[' = true := by simpa using hm
  simp only [this, ↓reduceIte]

/-- the decomposition of a balanced token with a `[` -/
theorem balanced_tok_split {w : Str} (hb : bracketsBalanced 0 w = true) (ho : '[' ∈ w) :
    ∃ pfx body sfx, w = pfx ++ '[' :: (body ++ ']' :: sfx) ∧ '[' ∉ pfx ∧ ']' ∉ pfx ∧ ']' ∉ body ∧
      cutAt '[' w = (pfx, some (body ++ ']' :: sfx)) ∧
      cutAt ']' (body ++ ']' :: sfx) = (body, some sfx) := by
  rcases cutAt_spec '[' w with ⟨a, _, h2, h3⟩ | ⟨pfx, p, h1, h2, h3⟩
  · rw [← h2] at h3; exact absurd ho h3
  · have hpc : ']' ∉ pfx := by
      intro hpc
      rw [h2, balanced_noOpen_noClose _ h3 hpc] at hb; cases hb
    rcases cutAt_spec ']' p with ⟨b, _, g2, g3⟩ | ⟨body, sfx, g1, g2, g3⟩
    · exfalso
      rw [h2, Neutral.noBrackets h3 hpc 0 _] at hb
      simp only [bracketsBalanced, ↓reduceIte] at hb
      rw [balanced_noClose_pos p 0 (by rw [g2]; exact g3)] at hb; cases hb
    · subst g2
      exact ⟨pfx, body, sfx, h2, h3, hpc, g3, h1, g1⟩

/-- TOKEN LEVEL against the spec: a balanced token is accepted ⇔ the spec's `readWord` names no
    problem in it and no bound of its first group reaches 2^64-1 -/
theorem tokOk_iff_spec (w : Str) (hb : bracketsBalanced 0 w = true) :
    tokOk w ↔ (Spec.readWord w).1 = [] ∧ Spec.wordNote64 w = false := by
  by_cases ho : '[' ∈ w
  · obtain ⟨pfx, body, sfx, rfl, h1, _, h2, c1, c2⟩ := balanced_tok_split hb ho
    have hfg : firstGroup (pfx ++ '[' :: (body ++ ']' :: sfx)) = some body := by
      unfold firstGroup; rw [c1]; simp only; rw [c2]
    unfold tokOk
    rw [hfg]
    simp only [hb, Option.some.injEq, forall_eq', true_and]
    by_cases h3 : '[' ∈ body
    · rw [readWord_br_open pfx body sfx h1 h2 h3]
      constructor
      · rintro ⟨_, k⟩; exact absurd h3 (items_no_open k)
      · rintro ⟨k, _⟩; cases k
    · rw [readWord_br_fst pfx body sfx h1 h2 h3, wordNote64_br pfx body sfx h1 h2 h3,
        wordProblems_nil_iff, List.any_eq_false]
      constructor
      · rintro ⟨k1, k2⟩
        exact ⟨⟨k1, fun it hit => ((itemOk_iff_spec it).mp (k2 it hit)).1⟩,
          fun it hit => by rw [((itemOk_iff_spec it).mp (k2 it hit)).2]; exact Bool.false_ne_true⟩
      · rintro ⟨⟨k1, kp⟩, k2⟩
        exact ⟨k1, fun it hit => (itemOk_iff_spec it).mpr ⟨kp it hit, by simpa using k2 it hit⟩⟩
  · rw [readWord_plain ho, wordNote64_plain ho]
    unfold tokOk firstGroup
    rw [cutAt_none ho]
    simp [hb]

/-- what an accepted token appends (repaired variant): exactly the names the spec's `readWord`
    gives for it — prefix + numeral (width of the low bound as typed) + the rest verbatim, in the
    order written, repeats kept; a bracket-less token itself -/
theorem pushTok_spec (cfg : Cfg) (h15 : cfg.fixUlongMax = true) (h16 : cfg.fixDigits = true)
    (h18 : cfg.fixCurTok = true) (h22 : cfg.fixSuffixBal = true) (h23 : cfg.fixHostBuf = true)
    (st : PSt) (hg : st.hl.Good) (w : Str) (hok : tokOk w) :
    ∃ st', pushTok cfg st w = .ok st' ∧ st'.hl.Good ∧
      st'.hl.hosts = st.hl.hosts ++ (Spec.readWord w).2 := by
  have hb := hok.1
  have hspec := (tokOk_iff_spec w hb).mp hok
  by_cases ho : '[' ∈ w
  · obtain ⟨pfx, body, sfx, rfl, h1, hpc, h2, c1, c2⟩ := balanced_tok_split hb ho
    have hfg : firstGroup (pfx ++ '[' :: (body ++ ']' :: sfx)) = some body := by
      unfold firstGroup; rw [c1]; simp only; rw [c2]
    obtain ⟨k1, k2⟩ := hok.2 body hfg
    have h3 := items_no_open k2
    have hps := hspec.1
    rw [readWord_br_fst pfx body sfx h1 h2 h3] at hps
    have hhosts := readWord_br_snd pfx body sfx h1 h2 h3 hps
    rw [hhosts]
    -- the parse
    have hp := (parseRangeList_ok_iff cfg h15 h16 st.errno body
      ((splitAll ',' body).map itemSR).toArray st.errno).mpr ⟨k1, k2, by simp, rfl⟩
    have hsr : (splitAll ',' body).map itemSR = ((splitAll ',' body).map itemRange).map srOf := by
      rw [List.map_map]
      apply List.map_congr_left
      intro it _
      exact (srOf_itemRange it).symm
    have hwf : ∀ r ∈ (splitAll ',' body).map itemRange, r.WF = true := by
      intro r hr
      obtain ⟨it, hit, rfl⟩ := List.mem_map.mp hr
      exact (itemRange_wf (k2 it hit)).1
    have hhi : ∀ r ∈ (splitAll ',' body).map itemRange, r.hi < ULONG_MAX := by
      intro r hr
      obtain ⟨it, hit, rfl⟩ := List.mem_map.mp hr
      exact (itemRange_wf (k2 it hit)).2
    have hbal : bracketsBalanced 0 sfx = true := by
      have hn := ((Neutral.noBrackets h1 hpc).append (Neutral.group h3 h2)) 0 sfx
      have e : pfx ++ '[' :: (body ++ ']' :: sfx) = (pfx ++ ('[' :: body ++ [']'])) ++ sfx := by simp
      rw [e, hn] at hb; exact hb
    have hsok : suffixOk cfg pfx sfx = true := by simp [suffixOk, hpc, hbal]
    unfold pushTok
    rw [c1]
    simp only
    rw [c2]
    simp only [hsok, Bool.not_true, Bool.false_eq_true, ↓reduceIte, hp]
    by_cases hse : sfx = []
    · subst hse
      simp only [List.isEmpty_nil, ↓reduceIte, hsr]
      obtain ⟨g1, g2⟩ := pushRangeList_group st.hl hg pfx _ hwf hhi
      refine ⟨_, rfl, g1, ?_⟩
      simp only
      rw [g2, groupNames_items k2]
      simp
    · have : sfx.isEmpty = false := by cases sfx <;> simp at hse ⊢
      simp only [this, Bool.false_eq_true, ↓reduceIte, hsr]
      obtain ⟨h', e1, g1, g2⟩ := pushRangeListWithSuffix_group cfg pfx sfx _ st.hl hg hwf hhi
        (fun _ _ => Or.inl h23)
      rw [e1]
      refine ⟨_, rfl, g1, ?_⟩
      simp only
      rw [g2, groupNames_items k2]
  · have hc : ']' ∉ w := by
      intro hc
      have := balanced_noOpen_noClose [] ho hc
      rw [List.append_nil, hb] at this; cases this
    have hcc : w.contains ']' = false := by simpa using hc
    rw [readWord_plain ho]
    unfold pushTok
    rw [cutAt_none ho]
    simp only [hcc, Bool.false_eq_true, ↓reduceIte, curTok, h18, Bool.true_or]
    have hr := hostRecord_spec w
    refine ⟨_, rfl, pushRange_good _ _ hg hr.1, ?_⟩
    simp only
    rw [pushHost, pushRange_hosts _ _ hg.1 hr.1, hr.2]

/-! ### the whole call -/
theorem createToks_spec (cfg : Cfg) (h15 : cfg.fixUlongMax = true) (h16 : cfg.fixDigits = true)
    (h18 : cfg.fixCurTok = true) (h22 : cfg.fixSuffixBal = true) (h23 : cfg.fixHostBuf = true) :
    ∀ (toks : List Str) (st : PSt), st.hl.Good → (∀ t ∈ toks, tokOk t) →
    ∃ st', createToks cfg st toks = .ok st' ∧ st'.hl.Good ∧
      st'.hl.hosts = st.hl.hosts ++ toks.flatMap fun w => (Spec.readWord w).2
  | [], st, hg, _ => ⟨st, rfl, hg, by simp⟩
  | t :: ts, st, hg, hall => by
    obtain ⟨s1, e1, g1, hh1⟩ := pushTok_spec cfg h15 h16 h18 h22 h23 st hg t (hall t (by simp))
    obtain ⟨s2, e2, g2, hh2⟩ := createToks_spec cfg h15 h16 h18 h22 h23 ts s1 g1
      (fun x hx => hall x (by simp [hx]))
    refine ⟨s2, by simp only [createToks, e1, e2], g2, ?_⟩
    rw [hh2, hh1]; simp

/-- some bound of a FIRST-level range that is within the limits reaches 2^64-1 or lies beyond:
    the property text is silent there, the code refuses (see `Spec.itemNote64`) -/
def note64₁ (s : Str) : Bool := (Spec.splitWords 0 [] s).any Spec.wordNote64

/-- the spec's verdict on a balanced text, first level -/
theorem classify_balanced (s : Str) (hb : Spec.balanced 0 s = true) :
    ((Spec.classify s).problems = [] ↔ ∀ w ∈ Spec.splitWords 0 [] s, (Spec.readWord w).1 = []) ∧
    ((Spec.classify s).problems = [] →
      (Spec.classify s).hosts₁ = (Spec.splitWords 0 [] s).flatMap fun w => (Spec.readWord w).2) := by
  unfold Spec.classify
  simp only [hb, Bool.not_true, Bool.false_eq_true, ↓reduceIte, eraseDups_isEmpty]
  by_cases he : (List.flatMap (fun x => x.1) (List.map Spec.readWord (Spec.splitWords 0 [] s))).isEmpty = true
  · simp only [he, Bool.not_true, Bool.false_eq_true, ↓reduceIte, true_iff, forall_const]
    simp only [List.isEmpty_iff, List.flatMap_eq_nil_iff, List.mem_map, forall_exists_index, and_imp,
      forall_apply_eq_imp_iff₂] at he
    exact ⟨he, by rw [List.flatMap_map]⟩
  · have he' : (List.flatMap (fun x => x.1) (List.map Spec.readWord (Spec.splitWords 0 [] s))).isEmpty = false := by
      simpa using he
    simp only [he', Bool.not_false, ↓reduceIte]
    have hne : (List.flatMap (fun x => x.1) (List.map Spec.readWord (Spec.splitWords 0 [] s))).eraseDups ≠ [] := by
      intro h0
      have := eraseDups_isEmpty (List.flatMap (fun x => x.1) (List.map Spec.readWord (Spec.splitWords 0 [] s)))
      rw [h0, he'] at this; cases this
    refine ⟨⟨fun h => absurd h hne, fun h => ?_⟩, fun h => absurd h hne⟩
    exfalso
    simp only [List.isEmpty_iff, List.flatMap_eq_nil_iff, List.mem_map, forall_exists_index, and_imp,
      forall_apply_eq_imp_iff₂] at he
    exact he h

/-- ACCEPTED ⇔ WELL-FORMED, EVERY BYTE STRING (repaired variant): `hostlist_create` returns a list
    exactly when the independent spec finds no problem in the text (brackets, numeric bounds,
    order, 16384 hosts per range, 10240 ranges per group) and no bound of a range within the
    limits reaches 2^64-1 -/
theorem create_iff_classify (cfg : Cfg) (h15 : cfg.fixUlongMax = true) (h16 : cfg.fixDigits = true)
    (h18 : cfg.fixCurTok = true) (h22 : cfg.fixSuffixBal = true) (s : Str) :
    (∃ h, create cfg s = .ok h) ↔ (Spec.classify s).problems = [] ∧ note64₁ s = false := by
  by_cases hb : Spec.balanced 0 s = true
  · rw [create_ok_iff cfg h15 h16 h18 h22 s, (classify_balanced s hb).1]
    unfold note64₁
    rw [splitWords_eq_tokens s hb, List.any_eq_false]
    have hbt := tokens_of_balanced s hb
    constructor
    · intro h
      exact ⟨fun w hw => ((tokOk_iff_spec w (hbt w hw)).mp (h w hw)).1,
        fun w hw => by rw [((tokOk_iff_spec w (hbt w hw)).mp (h w hw)).2]; simp⟩
    · rintro ⟨k1, k2⟩ w hw
      exact (tokOk_iff_spec w (hbt w hw)).mpr ⟨k1 w hw, by simpa using k2 w hw⟩
  · have hb' : Spec.balanced 0 s = false := by simpa using hb
    obtain ⟨e, f, hn⟩ := unbalanced_text_fails cfg h15 h16 h18 h22 s hb'
    have hp : (Spec.classify s).problems = [.unbalanced] := by
      unfold Spec.classify; simp [hb']
    constructor
    · rintro ⟨h, hh⟩; rw [hn] at hh; cases hh
    · rintro ⟨k, _⟩; rw [hp] at k; cases k

/-- … AND THEN THE HOSTS ARE THE SPEC'S EXPANSION: the list `hostlist_create` returns is well
    formed (`Good`: counter exact, no wrapped or empty record) and denotes exactly
    `(Spec.classify s).hosts₁` -/
theorem create_hosts_classify (cfg : Cfg) (h15 : cfg.fixUlongMax = true) (h16 : cfg.fixDigits = true)
    (h18 : cfg.fixCurTok = true) (h22 : cfg.fixSuffixBal = true) (h23 : cfg.fixHostBuf = true)
    (s : Str) (h : HL) (hc : create cfg s = .ok h) :
    h.Good ∧ h.hosts = (Spec.classify s).hosts₁ ∧ h.count = (Spec.classify s).hosts₁.length := by
  have hcl := (create_iff_classify cfg h15 h16 h18 h22 s).mp ⟨h, hc⟩
  have hb : Spec.balanced 0 s = true := by
    cases hbb : Spec.balanced 0 s with
    | true => rfl
    | false =>
      have hp : (Spec.classify s).problems = [.unbalanced] := by
        unfold Spec.classify; simp [hbb]
      rw [hp] at hcl; cases hcl.1
  have hall := (create_ok_iff cfg h15 h16 h18 h22 s).mp ⟨h, hc⟩
  obtain ⟨st', e1, g1, hh1⟩ := createToks_spec cfg h15 h16 h18 h22 h23 (tokens hlSep s) ⟨HL.new, 0⟩
    HL.new_good hall
  have : h = st'.hl := by
    unfold create createFrom at hc
    rw [e1] at hc
    simp only [Outcome.ok.injEq] at hc
    exact hc.symm
  subst this
  have hh : st'.hl.hosts = (Spec.classify s).hosts₁ := by
    rw [(classify_balanced s hb).2 hcl.1, splitWords_eq_tokens s hb, hh1, HL.new_hosts, List.nil_append]
  exact ⟨g1, hh, by rw [HL.count, g1.2, hh]⟩

end PdshVerif.Hostlist
