/-
  The relay functions over `fifoOps` (FIFO specification of the buffer + cbuf.c's policy):
  what `_flush_lines`, the descriptor write and the tail loop do to the queue.
-/
import PdshVerif.Relay.Model
import PdshVerif.Relay.Growth
import PdshVerif.Relay.SplitLemmas

namespace PdshVerif.Relay
open PdshVerif.Relay.Spec (split)

/-- replace the queue -/
def PBuf.setQ (b : PBuf) (q : Bytes) : PBuf := { b with f := { b.f with q := q } }

@[simp] theorem PBuf.setQ_q (b : PBuf) (q : Bytes) : (b.setQ q).f.q = q := rfl
@[simp] theorem PBuf.setQ_size (b : PBuf) (q : Bytes) : (b.setQ q).f.size = b.f.size := rfl
@[simp] theorem PBuf.setQ_maxsize (b : PBuf) (q : Bytes) : (b.setQ q).f.maxsize = b.f.maxsize := rfl
@[simp] theorem PBuf.setQ_minsize (b : PBuf) (q : Bytes) : (b.setQ q).f.minsize = b.f.minsize := rfl
@[simp] theorem PBuf.setQ_mode (b : PBuf) (q : Bytes) : (b.setQ q).f.mode = b.f.mode := rfl
@[simp] theorem PBuf.setQ_alloc (b : PBuf) (q : Bytes) : (b.setQ q).alloc = b.alloc := rfl
@[simp] theorem PBuf.setQ_setQ (b : PBuf) (q q' : Bytes) : (b.setQ q).setQ q' = b.setQ q' := rfl
@[simp] theorem PBuf.setQ_self (b : PBuf) : b.setQ b.f.q = b := by
  cases b with | mk f a => cases f; rfl

/-- what one line taken out of the buffer does to (th->rc, stdio calls so far) -/
def lineStep (cfg : Cfg) (host : Bytes) (strm : Nat) (readRc : Bool) (st : Int × List Em) (line : Bytes) :
    Int × List Em :=
  ((emitLine cfg host strm readRc st.1 line).1, st.2 ++ (emitLine cfg host strm readRc st.1 line).2)

theorem peekLine_fifo (b : PBuf) :
    fifoOps.peekLine b = (((Cbuf.Spec.afterNthNl b.f.q 1).getD 0 : Nat) : Int) := by
  simp [fifoOps, Cbuf.Spec.peekLine, Cbuf.Spec.lineBytes]

theorem read_fifo (b : PBuf) (n : Nat) :
    fifoOps.read b (n : Int) = ((((b.f.q.take n).length : Nat) : Int), b.f.q.take n, b.setQ (b.f.q.drop n)) := by
  have hn : ¬ ((n : Int) < 0) := by omega
  simp [fifoOps, Cbuf.Spec.read, Cbuf.Spec.take, PBuf.setQ, hn]

/-- `_flush_lines` over the FIFO: takes out exactly the complete lines, in order, one
    `emitLine` each, and leaves the unterminated rest -/
theorem flushLines_fifo (cfg : Cfg) (host : Bytes) (strm : Nat) (readRc : Bool) :
    ∀ (fuel : Nat) (b : PBuf) (rc : Int) (acc : List Em), (split b.f.q).1.length < fuel →
      flushLines fifoOps cfg host strm readRc fuel b rc acc =
        (b.setQ (split b.f.q).2,
         ((split b.f.q).1.foldl (lineStep cfg host strm readRc) (rc, acc)).1,
         ((split b.f.q).1.foldl (lineStep cfg host strm readRc) (rc, acc)).2)
  | 0, _, _, _, h => by omega
  | fuel + 1, b, rc, acc, h => by
    unfold flushLines
    rw [peekLine_fifo]
    cases hn : Cbuf.Spec.afterNthNl b.f.q 1 with
    | none =>
      have hs := Spec.afterNthNl_one_none _ hn
      simp [hs]
    | some k =>
      obtain ⟨hk0, hkle, hs⟩ := Spec.afterNthNl_one_some _ _ hn
      have hk : ((k : Nat) : Int) ≠ 0 := by omega
      have hk' : ¬ ((k : Nat) : Int) < 0 := by omega
      have hlen : (List.take k b.f.q).length = k := by simp; omega
      simp only [Option.getD_some, hk, hk', ↓reduceIte, read_fifo, hlen]
      rw [hs] at h ⊢
      have ih := flushLines_fifo cfg host strm readRc fuel (b.setQ (b.f.q.drop k))
        (emitLine cfg host strm readRc rc (List.take k b.f.q)).1
        (acc ++ (emitLine cfg host strm readRc rc (List.take k b.f.q)).2) (by simp at h ⊢; omega)
      simp only [PBuf.setQ_q, PBuf.setQ_setQ] at ih
      simp only [List.foldl_cons, lineStep]
      rw [← ih]

/-! ### the descriptor write never overwrites

  PARAMETRIC in the generated constants (initial size `Gen.RELAY_CBUF_MIN`, maximum
  `Gen.RELAY_CBUF_MAX`, `Gen.CBUF_CHUNK`, bookkeeping cells `sizeMeta`): nothing below unfolds them.
  What losslessness needs of the growth arithmetic is ONE decidable side condition, `growthOk`:
  along the (deterministic) sequence of capacities the buffer runs through when it is filled to
  the brim again and again -- the relay reads exactly the free space, so it grows only when full --
  every growth step makes room for the read that triggers it:  s + min(s, CHUNK) <= next(s).
  cbuf_grow rounds the ALLOCATION up to a multiple of the chunk and caps it at the maximum, so
  the condition is about where the sequence meets the cap: from 64 (and from 4096) the
  allocations run over the even thousands and the last step 130000 -> 131072+meta gains more
  than 1000; from 1024 they run over the odd thousands, the last step 131000 -> 131072+meta
  gains 72+meta < 1000 bytes while 1000 are read: lines of 131000..131072 bytes lose data, and
  `growthOk` is false. -/

theorem growthOk_pos {sizeMeta : Nat} (hg : growthOk sizeMeta = true) : 0 < sizeMeta := by
  simp only [growthOk, growthOkFor, Bool.and_eq_true, decide_eq_true_eq] at hg
  exact hg.1.1.1.1.1

theorem okFrom_le (mx ch sizeMeta : Nat) : ∀ (f s : Nat), okFrom mx ch sizeMeta f s = true → s ≤ mx
  | 0, s, h => by simp [okFrom] at h; omega
  | f + 1, s, h => by
    unfold okFrom at h
    by_cases hs : s = mx
    · omega
    · simp only [hs, ↓reduceIte, Bool.and_eq_true, decide_eq_true_eq] at h
      omega

/-- what holds of a relay buffer between calls (`sizeMeta` = bookkeeping cells of the build
    flavour): created by `cbuf_create (MIN, MAX)`, grown only by descriptor writes -/
structure BufInv (sizeMeta : Nat) (b : PBuf) : Prop where
  max   : b.f.maxsize = Gen.RELAY_CBUF_MAX
  mode  : b.f.mode = .wrapMany
  alloc : b.alloc = b.f.size + sizeMeta
  fits  : b.f.q.length ≤ b.f.size
  pos   : 0 < b.f.size
  chunk : 0 < Gen.CBUF_CHUNK
  line  : 131072 ≤ Gen.RELAY_CBUF_MAX
  ok    : ∃ f, okFrom Gen.RELAY_CBUF_MAX Gen.CBUF_CHUNK sizeMeta f b.f.size = true

theorem mkFifoBuf_inv (sizeMeta : Nat) (hg : growthOk sizeMeta = true) (b : PBuf)
    (h : mkFifoBuf sizeMeta = some b) : BufInv sizeMeta b ∧ b.f.q = [] := by
  simp only [growthOk, growthOkFor, Bool.and_eq_true, decide_eq_true_eq] at hg
  obtain ⟨⟨⟨⟨⟨_, hc⟩, hmn⟩, hle⟩, hline⟩, hok⟩ := hg
  have hnp : ¬ ((Gen.RELAY_CBUF_MIN : Int) ≤ 0) := by omega
  simp only [mkFifoBuf, Cbuf.Spec.create, hnp, ↓reduceIte, Option.map_some, Option.some.injEq] at h
  subst h
  refine ⟨⟨?_, rfl, rfl, by simp, by simpa using hmn, hc, hline, ⟨_, by simpa using hok⟩⟩, rfl⟩
  simp only
  by_cases hgt : (Gen.RELAY_CBUF_MAX : Int) > (Gen.RELAY_CBUF_MIN : Int)
  · simp [hgt]
  · have : Gen.RELAY_CBUF_MIN = Gen.RELAY_CBUF_MAX := by omega
    simp [hgt, this]

theorem growPolicy_snd (s sizeMeta mx n : Nat) (h : s ≠ mx) :
    (growPolicy s (s + sizeMeta) mx n).2 = (growPolicy s (s + sizeMeta) mx n).1 + sizeMeta := by
  unfold growPolicy
  simp only [h, ↓reduceIte]
  generalize (Gen.CBUF_CHUNK - (s + sizeMeta + n) % Gen.CBUF_CHUNK) = u
  omega

/-- request and growth: the capacity stays admissible and on the checked sequence, and unless
    the buffer is full at its maximum the request fits into the free space afterwards -/
theorem grown_spec {sizeMeta : Nat} {b : PBuf} (hi : BufInv sizeMeta b) :
    b.f.size ≤ b.grown.1 ∧ b.grown.1 ≤ Gen.RELAY_CBUF_MAX ∧ b.grown.2 = b.grown.1 + sizeMeta ∧
    (∃ f, okFrom Gen.RELAY_CBUF_MAX Gen.CBUF_CHUNK sizeMeta f b.grown.1 = true) ∧
    1 ≤ wfdRequest b.f.size b.f.q.length ∧
    (b.f.q.length < 131072 → b.f.q.length + wfdRequest b.f.size b.f.q.length ≤ b.grown.1) := by
  obtain ⟨hmax, _, halloc, hfits, hpos, hchunk, hline, ⟨f, hok⟩⟩ := hi
  have hle := okFrom_le _ _ _ f _ hok
  by_cases hfree : b.f.size - b.f.q.length = 0
  · -- full: the request is min(size, CHUNK); the buffer grows unless it is at its maximum
    have hu : b.f.q.length = b.f.size := by omega
    have hreq : wfdRequest b.f.size b.f.q.length = min b.f.size Gen.CBUF_CHUNK := by simp [wfdRequest, hfree]
    by_cases hfull : b.f.size = Gen.RELAY_CBUF_MAX
    · have hg : b.grown = (b.f.size, b.alloc) := by
        have : ¬ (b.f.size < b.f.maxsize) := by rw [hmax]; omega
        simp [PBuf.grown, this]
      rw [hg, hreq]
      exact ⟨Nat.le_refl _, hle, halloc, ⟨f, hok⟩, by omega, by omega⟩
    · cases f with
      | zero => simp [okFrom, hfull] at hok
      | succ f =>
        unfold okFrom at hok
        simp only [hfull, ↓reduceIte, Bool.and_eq_true, decide_eq_true_eq] at hok
        obtain ⟨⟨⟨⟨_, hlt⟩, hroom⟩, hnle⟩, hnext⟩ := hok
        have hc2 : min b.f.size Gen.CBUF_CHUNK > 0 ∧ b.f.size < Gen.RELAY_CBUF_MAX := by omega
        have hgeq : b.grown =
            growPolicy b.f.size (b.f.size + sizeMeta) Gen.RELAY_CBUF_MAX (min b.f.size Gen.CBUF_CHUNK) := by
          simp only [PBuf.grown, hreq, hfree, hmax, halloc, Nat.sub_zero, hc2, and_self, ↓reduceIte]
        have hg1 : b.grown.1 = nextSize Gen.RELAY_CBUF_MAX Gen.CBUF_CHUNK sizeMeta b.f.size := by
          rw [hgeq]; rfl
        have hg2 : b.grown.2 = b.grown.1 + sizeMeta := by
          rw [hgeq]; exact growPolicy_snd _ _ _ _ hfull
        rw [hg1, hreq]
        rw [hg1] at hg2
        exact ⟨by omega, hnle, hg2, ⟨f, hnext⟩, by omega, fun _ => by omega⟩
  · -- room left: the request is the free space, no growth
    have hreq : wfdRequest b.f.size b.f.q.length = b.f.size - b.f.q.length := by simp [wfdRequest, hfree]
    have hg : b.grown = (b.f.size, b.alloc) := by
      have : ¬ (wfdRequest b.f.size b.f.q.length > b.f.size - b.f.q.length ∧ b.f.size < b.f.maxsize) := by
        rw [hreq]; omega
      simp [PBuf.grown, this]
    rw [hg, hreq]
    exact ⟨Nat.le_refl _, hle, halloc, ⟨f, hok⟩, by omega, fun _ => by omega⟩

/-- the buffer after a descriptor write that took `k` bytes -/
def PBuf.after (b : PBuf) (avail : Bytes) (k : Nat) : PBuf :=
  { f := { b.f with size := b.grown.1, q := b.f.q ++ avail.take k }, alloc := b.grown.2 }

theorem lastN_of_le (n : Nat) (l : List UInt8) (h : l.length ≤ n) : Cbuf.Spec.lastN n l = l := by
  unfold Cbuf.Spec.lastN
  have : l.length - n = 0 := by omega
  simp [this]

/-- `cbuf_write_from_fd (cb, fd, -1, &dropped)` in the relay: appends a non-empty prefix of what
    is available (EOF: 0, nothing there: -1), drops nothing, keeps the invariant.  The
    hypothesis `hroom` is what the domain of C05 provides: if input remains, the current line
    is still shorter than 131072 bytes. -/
theorem wfd_fifo {sizeMeta : Nat} {b : PBuf} (hi : BufInv sizeMeta b)
    (avail : Bytes) (eof : Bool) (hroom : avail ≠ [] → b.f.q.length < 131072) :
    ∃ k : Nat,
      PBuf.wfd b avail eof =
        ((if avail.isEmpty then (if eof then 0 else -1) else (k : Int)), 0, b.after avail k) ∧
      (avail ≠ [] → 0 < k) ∧ k ≤ avail.length ∧ BufInv sizeMeta (b.after avail k) := by
  obtain ⟨hg1, hg2, hg3, hg4, hreq, hfit⟩ := grown_spec hi
  have hreq0 : wfdRequest b.f.size b.f.q.length ≠ 0 := by omega
  have hadm : Cbuf.Spec.admitSize b.f b.grown.1 = true := by
    simp [Cbuf.Spec.admitSize, hi.max]; omega
  have hpos' : 0 < b.grown.1 := by have := hi.pos; omega
  cases avail with
  | nil =>
    refine ⟨0, ?_, by simp, by simp, ?_⟩
    · unfold PBuf.wfd
      simp only [hreq0, ↓reduceIte, List.isEmpty_nil]
      cases eof <;>
        simp [Cbuf.Spec.writeFromFd, hadm, PBuf.after]
    · exact ⟨hi.max, hi.mode, hg3, by simp [PBuf.after]; have := hi.fits; omega, hpos', hi.chunk, hi.line, hg4⟩
  | cons a r =>
    have hlt := hroom (by simp)
    have hfit' := hfit hlt
    generalize hk : min (wfdRequest b.f.size b.f.q.length) (a :: r).length = k
    have hk0 : 0 < k := by simp at hk; omega
    have hkle : k ≤ (a :: r).length := by omega
    have hkreq : k ≤ wfdRequest b.f.size b.f.q.length := by omega
    refine ⟨k, ?_, fun _ => hk0, hkle, ?_⟩
    · unfold PBuf.wfd
      simp only [hreq0, ↓reduceIte, List.isEmpty_cons, Bool.false_eq_true, hk]
      have hnl : ¬ (k > (a :: r).length) := by omega
      have hloss : ¬ (k > b.grown.1 - b.f.q.length) := by omega
      have hlen : (b.f.q ++ List.take k (a :: r)).length ≤ b.grown.1 := by
        simp only [List.length_append, List.length_take]; omega
      have hk0' : k ≠ 0 := by omega
      have hnl' : ¬ (r.length + 1 < k) := by simp at hkle; omega
      have hd : k - (b.grown.1 - b.f.q.length) = 0 := by omega
      simp [Cbuf.Spec.writeFromFd, hadm, hi.mode, Cbuf.Spec.lossOk, hloss, PBuf.after,
        lastN_of_le _ _ hlen, hk0', hnl', hd]
    · refine ⟨hi.max, hi.mode, hg3, ?_, hpos', hi.chunk, hi.line, hg4⟩
      simp only [PBuf.after, List.length_append, List.length_take]; omega

end PdshVerif.Relay
