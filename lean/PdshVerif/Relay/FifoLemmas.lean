/-
  The relay functions over `fifoOps` (FIFO specification of the buffer + cbuf.c's policy):
  what `_flush_lines`, the descriptor write and the tail loop do to the queue.
-/
import PdshVerif.Relay.Model
import PdshVerif.Relay.SplitLemmas

namespace PdshVerif.Relay
open PdshVerif.Relay.Spec (split)

/-- replace the queue -/
def PBuf.setQ (b : PBuf) (q : Bytes) : PBuf := { b with f := { b.f with q := q } }

@[simp] theorem PBuf.setQ_q (b : PBuf) (q : Bytes) : (b.setQ q).f.q = q := rfl
@[simp] theorem PBuf.setQ_size (b : PBuf) (q : Bytes) : (b.setQ q).f.size = b.f.size := rfl
@[simp] theorem PBuf.setQ_maxsize (b : PBuf) (q : Bytes) : (b.setQ q).f.maxsize = b.f.maxsize := rfl
@[simp] theorem PBuf.setQ_minsize (b : PBuf) (q : Bytes) : (b.setQ q).f.minsize = b.f.minsize := rfl
@[simp] theorem PBuf.setQ_mode (b : PBuf) (q : Bytes) : (b.setQ q).f.mode = b.f.mode := rfl
@[simp] theorem PBuf.setQ_alloc (b : PBuf) (q : Bytes) : (b.setQ q).alloc = b.alloc := rfl
@[simp] theorem PBuf.setQ_setQ (b : PBuf) (q q' : Bytes) : (b.setQ q).setQ q' = b.setQ q' := rfl
@[simp] theorem PBuf.setQ_self (b : PBuf) : b.setQ b.f.q = b := by
  cases b with | mk f a => cases f; rfl

/-- what one line taken out of the buffer does to (th->rc, stdio calls so far) -/
def lineStep (cfg : Cfg) (host : Bytes) (strm : Nat) (readRc : Bool) (st : Int × List Em) (line : Bytes) :
    Int × List Em :=
  ((emitLine cfg host strm readRc st.1 line).1, st.2 ++ (emitLine cfg host strm readRc st.1 line).2)

theorem peekLine_fifo (b : PBuf) :
    fifoOps.peekLine b = (((Cbuf.Spec.afterNthNl b.f.q 1).getD 0 : Nat) : Int) := by
  simp [fifoOps, Cbuf.Spec.peekLine, Cbuf.Spec.lineBytes]

theorem read_fifo (b : PBuf) (n : Nat) :
    fifoOps.read b (n : Int) = ((((b.f.q.take n).length : Nat) : Int), b.f.q.take n, b.setQ (b.f.q.drop n)) := by
  have hn : ¬ ((n : Int) < 0) := by omega
  simp [fifoOps, Cbuf.Spec.read, Cbuf.Spec.take, PBuf.setQ, hn]

/-- `_flush_lines` over the FIFO: takes out exactly the complete lines, in order, one
    `emitLine` each, and leaves the unterminated rest -/
theorem flushLines_fifo (cfg : Cfg) (host : Bytes) (strm : Nat) (readRc : Bool) :
    ∀ (fuel : Nat) (b : PBuf) (rc : Int) (acc : List Em), (split b.f.q).1.length < fuel →
      flushLines fifoOps cfg host strm readRc fuel b rc acc =
        (b.setQ (split b.f.q).2,
         ((split b.f.q).1.foldl (lineStep cfg host strm readRc) (rc, acc)).1,
         ((split b.f.q).1.foldl (lineStep cfg host strm readRc) (rc, acc)).2)
  | 0, _, _, _, h => by omega
  | fuel + 1, b, rc, acc, h => by
    unfold flushLines
    rw [peekLine_fifo]
    cases hn : Cbuf.Spec.afterNthNl b.f.q 1 with
    | none =>
      have hs := Spec.afterNthNl_one_none _ hn
      simp [hs]
    | some k =>
      obtain ⟨hk0, hkle, hs⟩ := Spec.afterNthNl_one_some _ _ hn
      have hk : ((k : Nat) : Int) ≠ 0 := by omega
      have hk' : ¬ ((k : Nat) : Int) < 0 := by omega
      have hlen : (List.take k b.f.q).length = k := by simp; omega
      simp only [Option.getD_some, hk, hk', ↓reduceIte, read_fifo, hlen]
      rw [hs] at h ⊢
      have ih := flushLines_fifo cfg host strm readRc fuel (b.setQ (b.f.q.drop k))
        (emitLine cfg host strm readRc rc (List.take k b.f.q)).1
        (acc ++ (emitLine cfg host strm readRc rc (List.take k b.f.q)).2) (by simp at h ⊢; omega)
      simp only [PBuf.setQ_q, PBuf.setQ_setQ] at ih
      simp only [List.foldl_cons, lineStep]
      rw [← ih]

/-! ### the descriptor write never overwrites -/

/-- what holds of a relay buffer between calls (`sizeMeta` = bookkeeping cells of the build
    flavour): created by `cbuf_create (64, 131072)`, grown only by descriptor writes -/
structure BufInv (sizeMeta : Nat) (b : PBuf) : Prop where
  max   : b.f.maxsize = 131072
  mode  : b.f.mode = .wrapMany
  alloc : b.alloc = b.f.size + sizeMeta
  fits  : b.f.q.length ≤ b.f.size
  shape : b.f.size = 64 ∨ b.f.size = 131072 ∨ b.alloc = 1000 ∨ (b.alloc % 2000 = 0 ∧ b.alloc ≤ 130000)

theorem mkFifoBuf_inv (sizeMeta : Nat) (b : PBuf) (h : mkFifoBuf sizeMeta = some b) :
    BufInv sizeMeta b ∧ b.f.q = [] := by
  simp [mkFifoBuf, Cbuf.Spec.create, Gen.RELAY_CBUF_MIN, Gen.RELAY_CBUF_MAX] at h
  subst h
  exact ⟨⟨rfl, rfl, rfl, by simp, Or.inl rfl⟩, rfl⟩

/-- the arithmetic of request and growth: the capacity stays admissible and in shape, and
    unless the buffer is full at its maximum the request fits into the free space afterwards -/
theorem grown_spec {sizeMeta : Nat} {b : PBuf} (hi : BufInv sizeMeta b) (hm1 : 1 ≤ sizeMeta) (hm2 : sizeMeta ≤ 800) :
    b.f.size ≤ b.grown.1 ∧ b.grown.1 ≤ 131072 ∧ b.grown.2 = b.grown.1 + sizeMeta ∧
    (b.grown.1 = 64 ∨ b.grown.1 = 131072 ∨ b.grown.2 = 1000 ∨ (b.grown.2 % 2000 = 0 ∧ b.grown.2 ≤ 130000)) ∧
    1 ≤ wfdRequest b.f.size b.f.q.length ∧
    (b.f.q.length < 131072 → b.f.q.length + wfdRequest b.f.size b.f.q.length ≤ b.grown.1) := by
  obtain ⟨hmax, _, halloc, hfits, hshape⟩ := hi
  unfold PBuf.grown wfdRequest growPolicy
  simp only [Gen.CBUF_CHUNK, hmax]
  generalize b.f.size = size at *
  generalize b.f.q.length = used at *
  generalize b.alloc = al at *
  subst halloc
  by_cases hfree : size - used = 0
  · have hu : used = size := by omega
    subst hu
    simp only [hfree, ↓reduceIte]
    by_cases hfull : used = 131072
    · subst hfull; simp
    · have hlt : used < 131072 := by omega
      have hreq : min used 1000 > 0 := by omega
      simp only [hreq, hlt, and_self, ↓reduceIte, hfull]
      omega
  · simp only [hfree, ↓reduceIte]
    have : ¬ (size - used > size - used ∧ size < 131072) := by omega
    simp only [this, ↓reduceIte]
    exact ⟨by omega, by omega, trivial, hshape, by omega, by omega⟩

/-- the buffer after a descriptor write that took `k` bytes -/
def PBuf.after (b : PBuf) (avail : Bytes) (k : Nat) : PBuf :=
  { f := { b.f with size := b.grown.1, q := b.f.q ++ avail.take k }, alloc := b.grown.2 }

theorem lastN_of_le (n : Nat) (l : List UInt8) (h : l.length ≤ n) : Cbuf.Spec.lastN n l = l := by
  unfold Cbuf.Spec.lastN
  have : l.length - n = 0 := by omega
  simp [this]

/-- `cbuf_write_from_fd (cb, fd, -1, &dropped)` in the relay: appends a non-empty prefix of what
    is available (EOF: 0, nothing there: -1), drops nothing, keeps the invariant.  The
    hypothesis `hroom` is what the domain of C05 provides: if input remains, the current line
    is still shorter than 131072 bytes. -/
theorem wfd_fifo {sizeMeta : Nat} {b : PBuf} (hi : BufInv sizeMeta b) (hm1 : 1 ≤ sizeMeta) (hm2 : sizeMeta ≤ 800)
    (avail : Bytes) (eof : Bool) (hroom : avail ≠ [] → b.f.q.length < 131072) :
    ∃ k : Nat,
      PBuf.wfd b avail eof =
        ((if avail.isEmpty then (if eof then 0 else -1) else (k : Int)), 0, b.after avail k) ∧
      (avail ≠ [] → 0 < k) ∧ k ≤ avail.length ∧ BufInv sizeMeta (b.after avail k) := by
  obtain ⟨hg1, hg2, hg3, hg4, hreq, hfit⟩ := grown_spec hi hm1 hm2
  have hreq0 : wfdRequest b.f.size b.f.q.length ≠ 0 := by omega
  have hadm : Cbuf.Spec.admitSize b.f b.grown.1 = true := by
    simp [Cbuf.Spec.admitSize, hi.max]; omega
  cases avail with
  | nil =>
    refine ⟨0, ?_, by simp, by simp, ?_⟩
    · unfold PBuf.wfd
      simp only [hreq0, ↓reduceIte, List.isEmpty_nil]
      cases eof <;>
        simp [Cbuf.Spec.writeFromFd, hadm, PBuf.after]
    · exact ⟨hi.max, hi.mode, hg3, by simp [PBuf.after]; have := hi.fits; omega, hg4⟩
  | cons a r =>
    have hlt := hroom (by simp)
    have hfit' := hfit hlt
    generalize hk : min (wfdRequest b.f.size b.f.q.length) (a :: r).length = k
    have hk0 : 0 < k := by simp at hk; omega
    have hkle : k ≤ (a :: r).length := by omega
    have hkreq : k ≤ wfdRequest b.f.size b.f.q.length := by omega
    refine ⟨k, ?_, fun _ => hk0, hkle, ?_⟩
    · unfold PBuf.wfd
      simp only [hreq0, ↓reduceIte, List.isEmpty_cons, Bool.false_eq_true, hk]
      have hpos : ¬ ((k : Int) ≤ 0) := by omega
      have hnl : ¬ (k > (a :: r).length) := by omega
      have hloss : ¬ (k > b.grown.1 - b.f.q.length) := by omega
      have hlen : (b.f.q ++ List.take k (a :: r)).length ≤ b.grown.1 := by
        simp only [List.length_append, List.length_take]; omega
      have hk0' : k ≠ 0 := by omega
      have hnl' : ¬ (r.length + 1 < k) := by simp at hkle; omega
      have hd : k - (b.grown.1 - b.f.q.length) = 0 := by omega
      simp [Cbuf.Spec.writeFromFd, hadm, hi.mode, Cbuf.Spec.lossOk, hloss, PBuf.after,
        lastN_of_le _ _ hlen, hk0', hnl', hd]
    · refine ⟨hi.max, hi.mode, hg3, ?_, hg4⟩
      simp only [PBuf.after, List.length_append, List.length_take]; omega

end PdshVerif.Relay
