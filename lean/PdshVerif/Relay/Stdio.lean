/-
  The stdio layer below fputs: pdsh's stdout / stderr as a BUFFERED WRITER between the stdio
  calls of the relay (one `fputs` per out()/err()) and the bytes the consumer of pdsh's output
  receives on the descriptor.

  Model of a glibc FILE open for writing (assumption: glibc behaves like this writer):
    * a buffer of capacity `cap` (BUFSIZ-like; any value, 0 = unbuffered);
    * `fputs s`  appends `s`; what does not fit is written out: whenever the buffer holds more
                 than `cap` bytes everything is written (glibc writes the full buffer and large
                 remainders directly); in LINE mode (a tty) everything up to and including the
                 last newline is written as well;
    * `fflush`   writes the buffer (dsh.c: fflush(NULL) after every line in `_flush_lines`,
                 none after the tail pieces in `_flush_output`);
    * `exit`     flushes (atexit: _IO_cleanup); `_exit` does not.
  The environment may flush at any time (op `flush`): the theorems hold for every flush schedule.

  fork(): the child gets a COPY of the FILE including the unflushed bytes.  If the child later
  calls exit() those bytes are written a second time, to whatever the child's fd 1 is by then.
-/
namespace PdshVerif.Relay.Stdio

abbrev Bytes := List UInt8

inductive Mode where
  | full      -- pipe / file
  | line      -- tty
  deriving DecidableEq, Repr

structure File where
  mode : Mode
  cap  : Nat
  buf  : Bytes          -- bytes accepted by stdio and not yet written to the descriptor
  deriving Repr

inductive Op where
  | fputs (s : Bytes)   -- one stdio call of pdsh
  | flush               -- fflush by the program, or any flush the library decides on
  deriving Repr

/-- length of the longest prefix of `l` that ends in a newline -/
def upToLastNl (l : Bytes) : Nat := (l.reverse.dropWhile (· ≠ 10)).length

/-- after bytes were appended: what stdio writes to the descriptor now, and what it keeps -/
def settle (f : File) (buf : Bytes) : Bytes × Bytes :=
  if buf.length > f.cap then (buf, [])
  else
    match f.mode with
    | .full => ([], buf)
    | .line => (buf.take (upToLastNl buf), buf.drop (upToLastNl buf))

/-- one operation: (file afterwards, bytes written to the descriptor by it) -/
def step (f : File) : Op → File × Bytes
  | .fputs s => let r := settle f (f.buf ++ s); ({ f with buf := r.2 }, r.1)
  | .flush => ({ f with buf := [] }, f.buf)

/-- a sequence of operations: (file afterwards, all bytes written to the descriptor, in order) -/
def run (f : File) : List Op → File × Bytes
  | [] => (f, [])
  | o :: os => let r := step f o; let r' := run r.1 os; (r'.1, r.2 ++ r'.2)

/-- the bytes handed to stdio by the calls, in call order -/
def calls : List Op → Bytes
  | [] => []
  | .fputs s :: os => s ++ calls os
  | .flush :: os => calls os

/-- exit(): the atexit flush; `_exit()`: nothing -/
def atExit (f : File) : Bytes := f.buf
def at_Exit (_ : File) : Bytes := []

/-- what the consumer of the descriptor has received when the process has ended through exit() -/
def consumerSees (f : File) (ops : List Op) : Bytes := (run f ops).2 ++ atExit (run f ops).1

theorem settle_concat (f : File) (buf : Bytes) : (settle f buf).1 ++ (settle f buf).2 = buf := by
  unfold settle
  by_cases h : buf.length > f.cap
  · simp [h]
  · simp only [h, ↓reduceIte]
    cases f.mode <;> simp

/-- invariant: written ++ buffered = buffered before ++ calls -/
theorem run_concat : ∀ (ops : List Op) (f : File), (run f ops).2 ++ (run f ops).1.buf = f.buf ++ calls ops
  | [], f => by simp [run, calls]
  | .fputs s :: os, f => by
    have ih := run_concat os ({ f with buf := (settle f (f.buf ++ s)).2 })
    have hs := settle_concat f (f.buf ++ s)
    simp only [run, step, calls, List.append_assoc]
    rw [ih]
    simp only [← List.append_assoc, hs]
  | .flush :: os, f => by
    have ih := run_concat os ({ f with buf := [] })
    simp only [run, step, calls, List.append_assoc]
    rw [ih]
    simp

/-! ### many writers, several FILEs, possibly ONE descriptor (2>&1)

  The assumption "one fputs() on a FILE is atomic with respect to other threads" as an explicit
  interleaving semantics: a run of the whole process below the stdio calls is ANY sequence of
    * `call f s`   some thread's `fputs (s, FILE f)` -- one atomic step (per-call atomicity): the bytes
                   join FILE f's buffer;
    * `write f k`  stdio moves the first k buffered bytes of FILE f to its descriptor with one write(2)
                   -- because the buffer is full, a newline was seen on a tty, somebody called
                   fflush (f) / fflush (NULL), a partial write was continued, ...: the environment
                   chooses when and how much (every buffer size, buffering mode and flush schedule is
                   some such choice);
  and `exit` flushes what is left of every FILE.  The descriptor side is the log of write(2) chunks,
  each tagged with the FILE it came from; FILEs that share a descriptor (`2>&1`) share the log. -/

inductive IOp where
  | call (f : Nat) (s : Bytes)
  | write (f : Nat) (k : Nat)
  deriving Repr

structure IOState where
  bufs : Nat → Bytes
  desc : List (Nat × Bytes)          -- write(2) chunks in the order they reach the descriptor(s)

def iostep (st : IOState) : IOp → IOState
  | .call f s => { st with bufs := fun g => if g = f then st.bufs g ++ s else st.bufs g }
  | .write f k =>
    { bufs := fun g => if g = f then (st.bufs g).drop k else st.bufs g,
      desc := st.desc ++ [(f, (st.bufs f).take k)] }

def iorun (ops : List IOp) : IOState := ops.foldl iostep ⟨fun _ => [], []⟩

/-- the bytes handed to FILE `f` by the stdio calls, in the order the calls were made -/
def callsOn (f : Nat) : List IOp → Bytes
  | [] => []
  | .call g s :: os => if g = f then s ++ callsOn f os else callsOn f os
  | .write _ _ :: os => callsOn f os

/-- what FILE `f` has delivered to its descriptor so far -/
def delivered (f : Nat) (st : IOState) : Bytes := ((st.desc.filter (fun c => c.1 = f)).map (·.2)).flatten

theorem callsOn_append (f : Nat) : ∀ (a b : List IOp), callsOn f (a ++ b) = callsOn f a ++ callsOn f b
  | [], b => rfl
  | .call g s :: os, b => by
    by_cases h : g = f <;> simp [callsOn, h, callsOn_append f os b]
  | .write _ _ :: os, b => by simp [callsOn, callsOn_append f os b]

/-- PER FILE NOTHING IS LOST, DUPLICATED OR REORDERED BELOW fputs -- for every schedule of the threads' calls
    and every behaviour of the buffering: delivered ++ still buffered = the calls, in call order -/
theorem io_per_file (f : Nat) : ∀ (ops : List IOp) (st : IOState),
    delivered f (ops.foldl iostep st) ++ (ops.foldl iostep st).bufs f = delivered f st ++ st.bufs f ++ callsOn f ops
  | [], st => by simp [callsOn]
  | .call g s :: os, st => by
    rw [List.foldl_cons, io_per_file f os]
    by_cases h : g = f
    · subst h; simp [iostep, callsOn, delivered]
    · have h' : ¬ f = g := fun e => h e.symm
      simp [iostep, callsOn, delivered, h, h']
  | .write g k :: os, st => by
    rw [List.foldl_cons, io_per_file f os]
    by_cases h : g = f
    · subst h
      simp only [iostep, callsOn, delivered, List.filter_append, List.map_append, List.flatten_append, ↓reduceIte]
      simp [List.append_assoc]
    · have h' : ¬ f = g := fun e => h e.symm
      simp [iostep, callsOn, delivered, h, h']

/-- after exit() (every FILE flushed): the consumer of FILE `f`'s chunks has received exactly the stdio calls
    made on `f`, concatenated in call order -/
theorem io_consumer_sees_calls (f : Nat) (ops : List IOp) :
    delivered f (iorun ops) ++ (iorun ops).bufs f = callsOn f ops := by
  have := io_per_file f ops ⟨fun _ => [], []⟩
  simpa [iorun, delivered] using this

/-- the stdio calls of a run, in the order they were made: (FILE, bytes) -/
def callSeq : List IOp → List (Nat × Bytes)
  | [] => []
  | .call f s :: os => (f, s) :: callSeq os
  | .write _ _ :: os => callSeq os

theorem callsOn_eq_callSeq (f : Nat) : ∀ (ops : List IOp),
    callsOn f ops = (((callSeq ops).filter (fun c => c.1 = f)).map (·.2)).flatten
  | [] => rfl
  | .call g s :: os => by
    by_cases h : g = f <;> simp [callsOn, callSeq, h, callsOn_eq_callSeq f os]
  | .write _ _ :: os => by simp [callsOn, callSeq, callsOn_eq_callSeq f os]

/-- 2>&1: WHAT IS NOT GUARANTEED.  When stdout and stderr share a descriptor, the merged stream is the
    chunk log itself, and only its restriction to one FILE is in order (`io_per_file`).  Across the two
    FILEs neither the order of records nor their integrity survives: a record written to stdout first can
    arrive after a later stderr record (it sat in the buffer), and a stdout record can arrive in two
    write(2) chunks with a stderr record between them. -/
theorem shared_descriptor_witness :
    -- "A\n" to stdout, then "E\n" to stderr (unbuffered: written at once), stdout flushed later
    ((iorun [.call 1 [65, 10], .call 2 [69, 10], .write 2 2, .write 1 2]).desc.map (·.2)).flatten = [69, 10, 65, 10] ∧
    -- "AB\n" to stdout leaves in two chunks, "E\n" lands between them
    ((iorun [.call 1 [65, 66, 10], .write 1 1, .call 2 [69, 10], .write 2 2, .write 1 2]).desc.map (·.2)).flatten =
      [65, 69, 10, 66, 10] := by
  constructor <;> decide

end PdshVerif.Relay.Stdio
