/-
  The stdio layer below fputs: pdsh's stdout / stderr as a BUFFERED WRITER between the stdio
  calls of the relay (one `fputs` per out()/err()) and the bytes the consumer of pdsh's output
  receives on the descriptor.

  Model of a glibc FILE open for writing (assumption: glibc behaves like this writer):
    * a buffer of capacity `cap` (BUFSIZ-like; any value, 0 = unbuffered);
    * `fputs s`  appends `s`; what does not fit is written out: whenever the buffer holds more
                 than `cap` bytes everything is written (glibc writes the full buffer and large
                 remainders directly); in LINE mode (a tty) everything up to and including the
                 last newline is written as well;
    * `fflush`   writes the buffer (dsh.c: fflush(NULL) after every line in `_flush_lines`,
                 none after the tail pieces in `_flush_output`);
    * `exit`     flushes (atexit: _IO_cleanup); `_exit` does not.
  The environment may flush at any time (op `flush`): the theorems hold for every flush schedule.

  fork(): the child gets a COPY of the FILE including the unflushed bytes.  If the child later
  calls exit() those bytes are written a second time, to whatever the child's fd 1 is by then.
-/
namespace PdshVerif.Relay.Stdio

abbrev Bytes := List UInt8

inductive Mode where
  | full      -- pipe / file
  | line      -- tty
  deriving DecidableEq, Repr

structure File where
  mode : Mode
  cap  : Nat
  buf  : Bytes          -- bytes accepted by stdio and not yet written to the descriptor
  deriving Repr

inductive Op where
  | fputs (s : Bytes)   -- one stdio call of pdsh
  | flush               -- fflush by the program, or any flush the library decides on
  deriving Repr

/-- length of the longest prefix of `l` that ends in a newline -/
def upToLastNl (l : Bytes) : Nat := (l.reverse.dropWhile (· ≠ 10)).length

/-- after bytes were appended: what stdio writes to the descriptor now, and what it keeps -/
def settle (f : File) (buf : Bytes) : Bytes × Bytes :=
  if buf.length > f.cap then (buf, [])
  else
    match f.mode with
    | .full => ([], buf)
    | .line => (buf.take (upToLastNl buf), buf.drop (upToLastNl buf))

/-- one operation: (file afterwards, bytes written to the descriptor by it) -/
def step (f : File) : Op → File × Bytes
  | .fputs s => let r := settle f (f.buf ++ s); ({ f with buf := r.2 }, r.1)
  | .flush => ({ f with buf := [] }, f.buf)

/-- a sequence of operations: (file afterwards, all bytes written to the descriptor, in order) -/
def run (f : File) : List Op → File × Bytes
  | [] => (f, [])
  | o :: os => let r := step f o; let r' := run r.1 os; (r'.1, r.2 ++ r'.2)

/-- the bytes handed to stdio by the calls, in call order -/
def calls : List Op → Bytes
  | [] => []
  | .fputs s :: os => s ++ calls os
  | .flush :: os => calls os

/-- exit(): the atexit flush; `_exit()`: nothing -/
def atExit (f : File) : Bytes := f.buf
def at_Exit (_ : File) : Bytes := []

/-- what the consumer of the descriptor has received when the process has ended through exit() -/
def consumerSees (f : File) (ops : List Op) : Bytes := (run f ops).2 ++ atExit (run f ops).1

theorem settle_concat (f : File) (buf : Bytes) : (settle f buf).1 ++ (settle f buf).2 = buf := by
  unfold settle
  by_cases h : buf.length > f.cap
  · simp [h]
  · simp only [h, ↓reduceIte]
    cases f.mode <;> simp

/-- invariant: written ++ buffered = buffered before ++ calls -/
theorem run_concat : ∀ (ops : List Op) (f : File), (run f ops).2 ++ (run f ops).1.buf = f.buf ++ calls ops
  | [], f => by simp [run, calls]
  | .fputs s :: os, f => by
    have ih := run_concat os ({ f with buf := (settle f (f.buf ++ s)).2 })
    have hs := settle_concat f (f.buf ++ s)
    simp only [run, step, calls, List.append_assoc]
    rw [ih]
    simp only [← List.append_assoc, hs]
  | .flush :: os, f => by
    have ih := run_concat os ({ f with buf := [] })
    simp only [run, step, calls, List.append_assoc]
    rw [ih]
    simp

end PdshVerif.Relay.Stdio
