/-
  `Sim indexOps fifoOps IdxRel`: the index-level model of cbuf.c (Cbuf/Model.lean, the instance of
  the relay that is executed against the real cbuf.c) simulates the FIFO specification + policy
  instance the C05/C06 theorems are about.

  Data side: property C13's refinement lemmas (Cbuf/Refine.lean `writeFromFd_refines`,
  `read_refines`, Cbuf/Lines.lean `peekLine_refines`, Cbuf/Writer.lean `writer_ok`).
  Policy side (proved here from the definitions of `grow`/`maybeGrow`/`writer`): the capacity and
  allocation after the growth step are those of `growPolicy`, `cbuf_writer` never touches
  `alloc`, and the descriptor write returns min(request, available).
-/
import PdshVerif.Relay.Simulation
import PdshVerif.Cbuf.Refine
import PdshVerif.Cbuf.Lines

namespace PdshVerif.Relay
open PdshVerif.Cbuf (Cbuf Inv abs contents)

/-- an index-level buffer and a FIFO+policy buffer describe the same cbuf -/
def IdxRel (c : Cbuf) (b : PBuf) : Prop :=
  Inv c ∧ abs c = b.f ∧ c.alloc = b.alloc ∧ c.mode = .wrapMany

/-! ### policy facts about the index model -/

theorem grow_size_alloc (c : Cbuf) (n : Nat) :
    (Cbuf.grow c n).1.size = (growPolicy c.size c.alloc c.maxsize n).1 ∧
    (Cbuf.grow c n).1.alloc = (growPolicy c.size c.alloc c.maxsize n).2 ∧
    (Cbuf.grow c n).1.mode = c.mode := by
  unfold Cbuf.grow growPolicy
  by_cases h : c.size = c.maxsize
  · simp [h]
  · simp only [h, ↓reduceIte]
    by_cases hr : c.iRep > c.iIn <;> simp [hr]

theorem maybeGrow_size_alloc (c : Cbuf) (l : Nat) :
    (Cbuf.maybeGrow c l).1.size =
      (if l > c.size - c.used ∧ c.size < c.maxsize then
        (growPolicy c.size c.alloc c.maxsize (l - (c.size - c.used))).1 else c.size) ∧
    (Cbuf.maybeGrow c l).1.alloc =
      (if l > c.size - c.used ∧ c.size < c.maxsize then
        (growPolicy c.size c.alloc c.maxsize (l - (c.size - c.used))).2 else c.alloc) := by
  unfold Cbuf.maybeGrow
  by_cases h : l > c.size - c.used ∧ c.size < c.maxsize
  · obtain ⟨g1, g2, _⟩ := grow_size_alloc c (l - (c.size - c.used))
    simp only [h, and_self, ↓reduceIte]
    exact ⟨g1, g2⟩
  · simp [h]

/-- `cbuf_writer` changes `alloc` only through its growth step -/
theorem writer_alloc (c : Cbuf) (l : Nat) (src : Cbuf.Src) :
    (Cbuf.writer c l src).c.alloc = (Cbuf.maybeGrow c l).1.alloc := by
  unfold Cbuf.writer
  generalize Cbuf.maybeGrow c l = p
  obtain ⟨c1, nfree⟩ := p
  simp only
  cases Cbuf.effLen c1 l with
  | none => rfl
  | some len =>
    simp only
    generalize Cbuf.writerLoop c1.size (len + 1) c1.data c1.iIn len src 0 = res
    obtain ⟨d, iDst, nleft, src', m⟩ := res
    simp only
    by_cases hn : len - nleft = 0 <;> simp [hn, Cbuf.commit]

theorem read_alloc_mode (c : Cbuf) (n : Int) :
    (Cbuf.read c n).2.2.alloc = c.alloc ∧ (Cbuf.read c n).2.2.mode = c.mode := by
  unfold Cbuf.read
  by_cases h : n < 0
  · simp [h]
  · by_cases h0 : n = 0
    · simp [h0]
    · simp only [h, h0, ↓reduceIte]
      by_cases hp : (Cbuf.reader c n.toNat).length > 0 <;> simp [hp, Cbuf.dropper]

/-- the request of `cbuf_write_from_fd (.., -1, ..)` is positive on a valid buffer -/
theorem wfdRequest_pos {c : Cbuf} (hi : Inv c) : 0 < wfdRequest c.size c.used := by
  have := hi.spos; have := hi.used
  have hc : 0 < Gen.CBUF_CHUNK := by decide
  unfold wfdRequest
  by_cases h : c.size - c.used = 0 <;> simp [h] <;> omega

theorem writeFromFd_neg1 {c : Cbuf} (hi : Inv c) (av : Bytes) (eof : Bool) :
    Cbuf.writeFromFd c (-1) av eof =
      ((Cbuf.writer c (wfdRequest c.size c.used) (.fd av eof)).ret,
       (Cbuf.writer c (wfdRequest c.size c.used) (.fd av eof)).ndropped,
       (Cbuf.writer c (wfdRequest c.size c.used) (.fd av eof)).c) := by
  have hp := wfdRequest_pos hi
  unfold Cbuf.writeFromFd
  have h1 : ¬ ((-1 : Int) < -1) := by decide
  simp only [h1, ↓reduceIte]
  unfold wfdRequest at hp ⊢
  simp only [hp, ↓reduceIte]

/-- the descriptor write of the index model: return value, capacity, allocation, mode -/
theorem writer_fd_policy {c : Cbuf} (hi : Inv c) (hm : c.mode = .wrapMany) (l : Nat) (hl : 0 < l)
    (av : Bytes) (eof : Bool) :
    (Cbuf.writer c l (.fd av eof)).ret =
      (if av.isEmpty then (if eof then 0 else -1) else ((min l av.length : Nat) : Int)) ∧
    (Cbuf.writer c l (.fd av eof)).c.size = (Cbuf.maybeGrow c l).1.size ∧
    (Cbuf.writer c l (.fd av eof)).c.mode = .wrapMany := by
  obtain ⟨hg, hw⟩ := Cbuf.writer_ok hi l hl (.fd av eof) trivial
  have hm1 : (Cbuf.maybeGrow c l).1.mode = .wrapMany := by rw [hg.mode, hm]
  have he : Cbuf.effLen (Cbuf.maybeGrow c l).1 l = some l := by simp [Cbuf.effLen, hm1]
  rw [he] at hw
  obtain ⟨_, _, hcore⟩ := hw
  have hav : (Cbuf.Src.fd av eof).avail l = av.take l := rfl
  by_cases hz : av = []
  · subst hz
    obtain ⟨h1, _, h3⟩ := hcore.none (by simp [hav])
    refine ⟨by simpa [Cbuf.Src.emptyRet] using h3, by rw [h1], by rw [h1, hm1]⟩
  · have hpos : 0 < ((Cbuf.Src.fd av eof).avail l).length := by
      rw [hav, List.length_take]
      have := List.length_pos_iff.mpr hz
      omega
    obtain ⟨h1, _, _, h4, h5, _⟩ := hcore.some hpos
    have hne : av.isEmpty = false := by simpa using hz
    refine ⟨?_, h4, by rw [h5, hm1]⟩
    rw [h1, hav, List.length_take, hne]
    simp

theorem wfd_sim {c : Cbuf} {b : PBuf} (h : IdxRel c b) (av : Bytes) (eof : Bool) :
    (Cbuf.writeFromFd c (-1) av eof).1 = (PBuf.wfd b av eof).1 ∧
    IdxRel (Cbuf.writeFromFd c (-1) av eof).2.2 (PBuf.wfd b av eof).2.2 := by
  obtain ⟨hi, hab, hal, hmode⟩ := h
  have hsz : b.f.size = c.size := by rw [← hab]; rfl
  have hmx : b.f.maxsize = c.maxsize := by rw [← hab]; rfl
  have hq : b.f.q.length = c.used := by rw [← hab]; simp [Cbuf.contents_length]
  have hp := wfdRequest_pos hi
  obtain ⟨href, hinv⟩ := Cbuf.writeFromFd_refines hi (-1) av eof
  obtain ⟨p1, p2, p3⟩ := writer_fd_policy hi hmode _ hp av eof
  obtain ⟨g1, g2⟩ := maybeGrow_size_alloc c (wfdRequest c.size c.used)
  have p4 := writer_alloc c (wfdRequest c.size c.used) (.fd av eof)
  have hw := writeFromFd_neg1 hi av eof
  -- the capacity/allocation the FIFO policy computes are the index model's
  have hgrown : b.grown = ((Cbuf.writeFromFd c (-1) av eof).2.2.size, (Cbuf.writeFromFd c (-1) av eof).2.2.alloc) := by
    rw [hw]
    simp only [p2, p4, g1, g2]
    unfold PBuf.grown
    simp only [hsz, hmx, hq, ← hal]
    by_cases hc : wfdRequest c.size c.used > c.size - c.used ∧ c.size < c.maxsize <;> simp [hc]
  have hret : (Cbuf.writeFromFd c (-1) av eof).1 =
      (if av.isEmpty then (if eof then 0 else -1)
       else ((min (wfdRequest b.f.size b.f.q.length) av.length : Nat) : Int)) := by
    rw [hw, hsz, hq]; exact p1
  have hreq : wfdRequest b.f.size b.f.q.length ≠ 0 := by rw [hsz, hq]; omega
  have hwfd : PBuf.wfd b av eof =
      ((Cbuf.writeFromFd c (-1) av eof).1, (Cbuf.writeFromFd c (-1) av eof).2.1,
       { f := abs (Cbuf.writeFromFd c (-1) av eof).2.2, alloc := (Cbuf.writeFromFd c (-1) av eof).2.2.alloc }) := by
    simp only [PBuf.wfd, hreq, ↓reduceIte]
    rw [← hret, hgrown, ← hab, href]
  rw [hwfd]
  refine ⟨rfl, hinv, rfl, rfl, ?_⟩
  rw [hw]; exact p3

/-- THE SIMULATION: the index-level model of cbuf.c answers the three calls of the relay like the
    FIFO specification + policy, and stays related -/
theorem idx_sim : Sim indexOps fifoOps IdxRel where
  wfd a b av eof h := wfd_sim h av eof
  peek a b h := by
    obtain ⟨hi, hab, _, _⟩ := h
    show (Cbuf.peekLine a 1 1).1 = (Cbuf.Spec.peekLine b.f 1 1).1
    rw [Cbuf.peekLine_refines hi, hab]
  read a b n h := by
    obtain ⟨hi, hab, hal, hm⟩ := h
    obtain ⟨r1, r2, r3, r4⟩ := Cbuf.read_refines hi n
    obtain ⟨a1, a2⟩ := read_alloc_mode a n
    rw [hab] at r1 r2 r3
    refine ⟨r1, r2, ?_⟩
    show IdxRel (Cbuf.read a n).2.2 { b with f := (Cbuf.Spec.read b.f n).2.2 }
    exact ⟨r4, r3, by rw [a1]; exact hal, by rw [a2]; exact hm⟩
  used a b h := by
    obtain ⟨_, hab, _, _⟩ := h
    show a.used = b.f.q.length
    rw [← hab]; simp [Cbuf.contents_length]

/-- the freshly created buffers of `_thd_init` are related -/
theorem idxRel_init {sizeMeta : Nat} (hm : 0 < sizeMeta) {a0 : Cbuf} {b0 : PBuf}
    (ha : mkIndexBuf sizeMeta = some a0) (hb : mkFifoBuf sizeMeta = some b0) : IdxRel a0 b0 := by
  obtain ⟨hi, hc⟩ := Cbuf.inv_create hm ha
  simp [mkFifoBuf, Cbuf.Spec.create, Gen.RELAY_CBUF_MIN, Gen.RELAY_CBUF_MAX] at hb
  simp [mkIndexBuf, Cbuf.create, Gen.RELAY_CBUF_MIN, Gen.RELAY_CBUF_MAX] at ha
  subst hb
  refine ⟨hi, ?_, ?_, ?_⟩
  · simp only [abs, hc]
    subst ha
    rfl
  · subst ha; rfl
  · subst ha; rfl

theorem mkFifoBuf_some (sizeMeta : Nat) : ∃ b0, mkFifoBuf sizeMeta = some b0 := by
  simp [mkFifoBuf, Cbuf.Spec.create, Gen.RELAY_CBUF_MIN, Gen.RELAY_CBUF_MAX]

/-- the index-level relay (the one run against the real cbuf.c) makes exactly the stdio calls of
    the FIFO-level relay, from the buffers `_thd_init` creates, for every script -- unconditionally -/
theorem runStream_index_eq_fifo (cfg : Cfg) (host t0host : Bytes) (strm : Nat) (readRc : Bool)
    {sizeMeta : Nat} (hm : 0 < sizeMeta) {a0 : Cbuf} {b0 : PBuf}
    (ha : mkIndexBuf sizeMeta = some a0) (hb : mkFifoBuf sizeMeta = some b0) (script : List Bytes) :
    (runStream indexOps cfg host t0host strm readRc a0 script).ems =
      (runStream fifoOps cfg host t0host strm readRc b0 script).ems ∧
    (runStream indexOps cfg host t0host strm readRc a0 script).rc =
      (runStream fifoOps cfg host t0host strm readRc b0 script).rc :=
  runStream_sim idx_sim cfg host t0host strm readRc a0 b0 (idxRel_init hm ha hb) script

end PdshVerif.Relay
