/-
  LEGACY INTERFACE of `runStream_fifo` (used by Dsh/ExitRelay.lean and Props/C08.lean, property C08):
  the closed form of a whole stream for EVERY number of bookkeeping cells 1 ≤ sizeMeta ≤ 800.

  The relay theorems proper (Relay/RunFifo.lean, Props/C05, Props/C06) are parametric: they take the
  decidable side condition `growthOk sizeMeta` on the regenerated constants (Relay/FifoLemmas.lean).
  This file discharges it for the whole legacy range by evaluation, in slices (each slice a few
  seconds); nothing of C05/C06 imports it.
-/
import PdshVerif.Relay.RunFifo

namespace PdshVerif.Relay

/-- `growthOk m` for lo ≤ m < lo + n -/
def growthOkSlice (lo : Nat) : Nat → Bool
  | 0 => true
  | n + 1 => growthOk (lo + n) && growthOkSlice lo n

theorem growthOkSlice_spec (lo : Nat) : ∀ (n : Nat), growthOkSlice lo n = true →
    ∀ m, lo ≤ m → m < lo + n → growthOk m = true
  | 0, _, m, h1, h2 => by omega
  | n + 1, h, m, h1, h2 => by
    simp only [growthOkSlice, Bool.and_eq_true] at h
    by_cases hm : m = lo + n
    · subst hm; exact h.1
    · exact growthOkSlice_spec lo n h.2 m h1 (by omega)

theorem growthOk_slice0 : growthOkSlice 1 100 = true := by decide +kernel
theorem growthOk_slice1 : growthOkSlice 101 100 = true := by decide +kernel
theorem growthOk_slice2 : growthOkSlice 201 100 = true := by decide +kernel
theorem growthOk_slice3 : growthOkSlice 301 100 = true := by decide +kernel
theorem growthOk_slice4 : growthOkSlice 401 100 = true := by decide +kernel
theorem growthOk_slice5 : growthOkSlice 501 100 = true := by decide +kernel
theorem growthOk_slice6 : growthOkSlice 601 100 = true := by decide +kernel
theorem growthOk_slice7 : growthOkSlice 701 100 = true := by decide +kernel

theorem growthOk_of_range {m : Nat} (h1 : 1 ≤ m) (h2 : m ≤ 800) : growthOk m = true := by
  by_cases a0 : m < 101
  · exact growthOkSlice_spec 1 100 growthOk_slice0 m h1 (by omega)
  by_cases a1 : m < 201
  · exact growthOkSlice_spec 101 100 growthOk_slice1 m (by omega) (by omega)
  by_cases a2 : m < 301
  · exact growthOkSlice_spec 201 100 growthOk_slice2 m (by omega) (by omega)
  by_cases a3 : m < 401
  · exact growthOkSlice_spec 301 100 growthOk_slice3 m (by omega) (by omega)
  by_cases a4 : m < 501
  · exact growthOkSlice_spec 401 100 growthOk_slice4 m (by omega) (by omega)
  by_cases a5 : m < 601
  · exact growthOkSlice_spec 501 100 growthOk_slice5 m (by omega) (by omega)
  by_cases a6 : m < 701
  · exact growthOkSlice_spec 601 100 growthOk_slice6 m (by omega) (by omega)
  · exact growthOkSlice_spec 701 100 growthOk_slice7 m (by omega) (by omega)

variable (cfg : Cfg) (host : Bytes) (strm : Nat) (readRc : Bool)

/-- legacy statement of `runStream_fifo_ok` -/
theorem runStream_fifo {sizeMeta : Nat} (hm1 : 1 ≤ sizeMeta) (hm2 : sizeMeta ≤ 800) (t0host : Bytes)
    {b0 : PBuf} (hb0 : mkFifoBuf sizeMeta = some b0) (script : List Bytes) (hroom : Room script.flatten) :
    (runStream fifoOps cfg host t0host strm readRc b0 script).ems =
      (afterLines cfg host strm readRc script.flatten).2 ++
        tailEms cfg host strm ((Spec.split script.flatten).2.length + 1) (Spec.split script.flatten).2 false ∧
    (runStream fifoOps cfg host t0host strm readRc b0 script).rc =
      (afterLines cfg host strm readRc script.flatten).1 :=
  runStream_fifo_ok cfg host strm readRc (growthOk_of_range hm1 hm2) t0host hb0 script hroom

end PdshVerif.Relay
