/-
  The poll / read / report loop of `_rsh_thread` for one worker (Model.lean `pollStep`) over `fifoOps`:
  the invariant of EVERY event sequence -- arrivals, hang-ups, xpoll returns reporting any subset of the
  two descriptors, short reads, spurious wake-ups (EAGAIN), interrupted polls, in any order.
-/
import PdshVerif.Relay.DomLemmas
import PdshVerif.Relay.TailLemmas

namespace PdshVerif.Relay
open PdshVerif.Relay.Spec (split)

variable (cfg : Cfg) (host : Bytes) (strm : Nat) (readRc : Bool)

theorem handle_eq_handleCap {β : Type} (ops : BufOps β) (s : Stream β) (rc : Int) :
    handle ops cfg host strm readRc s rc = handleCap ops cfg host strm readRc none s rc := by
  simp [handle, handleCap, visible]

/-- one handler call whose read is limited to `cap` bytes: the invariant of the stream is kept, the
    descriptor is closed by the call EXACTLY when the remote side has closed and nothing is left to read -/
theorem handleCap_fifo {sizeMeta : Nat} {S fed fut : Bytes} (hS : fed ++ fut = S) (hroom : Room S)
    {s : Stream PBuf} {rc : Int} {acc : List Em} (cap : Option Nat)
    (hinv : RunInv cfg host strm readRc sizeMeta fed (s, rc, acc)) :
    RunInv cfg host strm readRc sizeMeta fed
      ((handleCap fifoOps cfg host strm readRc cap s rc).2.1, (handleCap fifoOps cfg host strm readRc cap s rc).2.2.1,
        acc ++ (handleCap fifoOps cfg host strm readRc cap s rc).2.2.2) ∧
    (handleCap fifoOps cfg host strm readRc cap s rc).2.1.weof = s.weof ∧
    ((handleCap fifoOps cfg host strm readRc cap s rc).2.1.closed = true ↔ (s.weof = true ∧ s.pipe = [])) ∧
    ((handleCap fifoOps cfg host strm readRc cap s rc).2.1.closed = true →
      (handleCap fifoOps cfg host strm readRc cap s rc).2.1.pipe = []) := by
  obtain ⟨x, hx, hb, hq, hout⟩ := hinv
  simp only at hx hb hq hout
  simp only [handleCap]
  have hpre : ∃ k', visible cap s.pipe = s.pipe.take k' := by
    cases cap with
    | none => exact ⟨s.pipe.length, by simp [visible]⟩
    | some k => exact ⟨k, rfl⟩
  generalize visible cap s.pipe = vis at *
  obtain ⟨k', hk'⟩ := hpre
  have hvne : vis ≠ [] → s.pipe ≠ [] := by
    intro h hp; apply h; rw [hk', hp]; simp
  have hr : vis ≠ [] → s.buf.f.q.length < 131072 := by
    intro hv
    rw [hq]
    exact hroom x (s.pipe ++ fut) (by rw [← List.append_assoc, hx, hS]) (by simp [hvne hv])
  obtain ⟨k, hkle, hk0, htook, hret, hinv', hq', hout'⟩ :=
    doOutput_fifo cfg host strm readRc hb hq hout vis (s.weof && decide (vis.length = s.pipe.length)) hr
  have htake : vis.take k = s.pipe.take k := by
    rw [hk', List.take_take]
    congr 1
    have : k ≤ (s.pipe.take k').length := by rw [← hk']; exact hkle
    simp only [List.length_take] at this
    omega
  rw [htake] at hq' hout'
  -- when is the return value <= 0 ?
  have hclosed : (doOutput fifoOps cfg host strm readRc s.buf rc vis
      (s.weof && decide (vis.length = s.pipe.length))).ret ≤ 0 ↔ (s.weof = true ∧ s.pipe = []) := by
    rw [hret]
    by_cases hv : vis = []
    · subst hv
      simp only [List.isEmpty_nil, ↓reduceIte, List.length_nil]
      by_cases hw : s.weof = true
      · by_cases hl : s.pipe = []
        · simp [hw, hl]
        · have : ¬ (0 = s.pipe.length) := fun h => hl (List.length_eq_zero_iff.mp h.symm)
          simp [hw, hl, this]
      · simp [hw]
    · have h1 := hk0 hv
      have hne : vis.isEmpty = false := by simpa using hv
      have hp := hvne hv
      simp only [hne, Bool.false_eq_true, ↓reduceIte]
      constructor
      · intro h; omega
      · intro h; exact absurd h.2 hp
  refine ⟨⟨x ++ s.pipe.take k, ?_, hinv', hq', hout'⟩, trivial, ?_, ?_⟩
  · simp only [htook, List.append_assoc, List.take_append_drop]; exact hx
  · simp only [decide_eq_true_eq]; exact hclosed
  · intro hc
    simp only [decide_eq_true_eq] at hc
    have := (hclosed.mp hc).2
    simp [this]

def SEv.isHup : SEv → Bool
  | .hup => true
  | _ => false

/-- what a descriptor still accepts of the arrivals in `evs` (nothing once the remote side has closed) -/
def accepted : List SEv → Bool → Bytes
  | [], _ => []
  | .arrive b :: evs, w => if w then accepted evs w else b ++ accepted evs w
  | .hup :: evs, _ => accepted evs true
  | .call _ :: evs, w => accepted evs w

/-- invariant of one descriptor of a worker: the relay invariant, and "closed only at EOF, everything read" -/
def SInv (sizeMeta : Nat) (fed : Bytes) (st : SState PBuf) : Prop :=
  RunInv cfg host strm readRc sizeMeta fed st ∧ (st.1.closed = true → st.1.weof = true ∧ st.1.pipe = [])

theorem sstep_inv {sizeMeta : Nat} {S : Bytes} (hroom : Room S) (ev : SEv) (st : SState PBuf) (fed fut : Bytes)
    (hS : fed ++ accepted [ev] st.1.weof ++ fut = S) (hinv : SInv cfg host strm readRc sizeMeta fed st) :
    SInv cfg host strm readRc sizeMeta (fed ++ accepted [ev] st.1.weof) (sstep fifoOps cfg host strm readRc st ev) ∧
    (∃ new, (sstep fifoOps cfg host strm readRc st ev).2.2 = st.2.2 ++ new) ∧
    (sstep fifoOps cfg host strm readRc st ev).1.weof = (st.1.weof || ev.isHup) := by
  obtain ⟨hr, hc⟩ := hinv
  cases ev with
  | arrive b =>
    by_cases hw : st.1.weof = true
    · simp only [sstep, hw, ↓reduceIte, accepted, List.append_nil, Bool.true_or]
      exact ⟨⟨hr, hc⟩, ⟨[], by simp⟩, by simp [SEv.isHup, hw]⟩
    · have hw' : st.1.weof = false := by simpa using hw
      simp only [sstep, hw', Bool.false_eq_true, ↓reduceIte, accepted, List.append_nil, Bool.false_or, SEv.isHup]
      obtain ⟨x, hx, hb, hq, hout⟩ := hr
      refine ⟨⟨⟨x, ?_, hb, hq, hout⟩, ?_⟩, ⟨[], by simp⟩, by simp [SEv.isHup]⟩
      · simp only [← List.append_assoc, hx]
      · intro hcl
        have := (hc hcl).1
        rw [hw'] at this
        exact absurd this (by simp)
  | hup =>
    simp only [sstep, accepted, List.append_nil, Bool.or_true]
    obtain ⟨x, hx, hb, hq, hout⟩ := hr
    exact ⟨⟨⟨x, hx, hb, hq, hout⟩, fun hcl => ⟨rfl, (hc hcl).2⟩⟩, ⟨[], by simp⟩, by simp [SEv.isHup]⟩
  | call cap =>
    simp only [accepted, List.append_nil] at hS ⊢
    by_cases hcl : st.1.closed = true
    · simp only [sstep, hcl, ↓reduceIte, Bool.or_false]
      exact ⟨⟨hr, hc⟩, ⟨[], by simp⟩, by simp [SEv.isHup]⟩
    · have hcl' : st.1.closed = false := by simpa using hcl
      simp only [sstep, hcl', Bool.false_eq_true, ↓reduceIte, Bool.or_false]
      obtain ⟨h1, h2, h3, h4⟩ := handleCap_fifo cfg host strm readRc (fut := fut) hS hroom cap
        (s := st.1) (rc := st.2.1) (acc := st.2.2) hr
      exact ⟨⟨h1, fun hc' => ⟨by rw [h2]; exact ((h3.mp hc').1), h4 hc'⟩⟩, ⟨_, rfl⟩, by rw [h2]; simp [SEv.isHup]⟩

/-! ### the worker: two descriptors, one log -/

variable (t0host : Bytes)

/-- what descriptor `isErr` accepts of one event (`w` = its remote side has closed already) -/
def accOne (isErr : Bool) (ev : PEv) (w : Bool) : Bytes :=
  match ev with
  | .arrive i b => if i = isErr ∧ w = false then b else []
  | _ => []

def hupOne (isErr : Bool) : PEv → Bool
  | .hup i => decide (i = isErr)
  | _ => false

/-- what the two descriptors accept of the arrivals in a worker's event list -/
def acceptedOf (isErr : Bool) : List PEv → Bool → Bytes
  | [], _ => []
  | ev :: evs, w => accOne isErr ev w ++ acceptedOf isErr evs (w || hupOne isErr ev)

/-- the worker's stdio calls made by the handler of one descriptor, in order -/
def Worker.logOf {β : Type} (w : Worker β) (isErr : Bool) : List Em := (w.log.filter (fun x => x.1 = isErr)).map (·.2)

/-- invariant of a worker -/
structure WInv (sizeMeta : Nat) (fedO fedE : Bytes) (w : Worker PBuf) : Prop where
  out  : SInv cfg host 1 true sizeMeta fedO w.out
  err  : SInv cfg host 2 false sizeMeta fedE w.err
  logO : w.logOf false = w.out.2.2
  logE : w.logOf true = w.err.2.2

theorem filter_tag_same (i : Bool) (l : List Em) :
    ((l.map (fun x => (i, x))).filter (fun x => x.1 = i)).map (·.2) = l := by
  induction l with
  | nil => rfl
  | cons a r ih => simp [ih]

theorem filter_tag_other (i j : Bool) (h : i ≠ j) (l : List Em) :
    ((l.map (fun x => (i, x))).filter (fun x => x.1 = j)).map (·.2) = [] := by
  induction l with
  | nil => rfl
  | cons a r ih => simp [h, ih]

/-- one event of one descriptor inside the worker -/
theorem on_inv {sizeMeta : Nat} {SO SE : Bytes} (hrO : Room SO) (hrE : Room SE) (w : Worker PBuf) (isErr : Bool)
    (ev : SEv) (fedO fedE futO futE : Bytes)
    (hO : fedO ++ (if isErr then [] else accepted [ev] w.out.1.weof) ++ futO = SO)
    (hE : fedE ++ (if isErr then accepted [ev] w.err.1.weof else []) ++ futE = SE)
    (hinv : WInv cfg host sizeMeta fedO fedE w) :
    WInv cfg host sizeMeta (fedO ++ (if isErr then [] else accepted [ev] w.out.1.weof))
      (fedE ++ (if isErr then accepted [ev] w.err.1.weof else [])) (w.on fifoOps cfg host isErr ev) ∧
    (w.on fifoOps cfg host isErr ev).out.1.weof =
      (w.out.1.weof || (!isErr && ev.isHup)) ∧
    (w.on fifoOps cfg host isErr ev).err.1.weof =
      (w.err.1.weof || (isErr && ev.isHup)) := by
  obtain ⟨ho, he, hlo, hle⟩ := hinv
  cases isErr with
  | true =>
    simp only [↓reduceIte, List.append_nil] at hO hE ⊢
    obtain ⟨h1, ⟨new, h2⟩, h3⟩ := sstep_inv cfg host 2 false hrE ev w.err fedE futE hE he
    refine ⟨⟨ho, h1, ?_, ?_⟩, ?_, ?_⟩
    rotate_left 2
    · simp only [Worker.on, ↓reduceIte, Bool.not_true, Bool.false_and, Bool.or_false]
    · simp only [Worker.on, ↓reduceIte, Bool.true_and]; exact h3
    · simp only [Worker.on, ↓reduceIte, Worker.logOf, List.filter_append, List.map_append]
      rw [filter_tag_other true false (by decide)]
      simpa [Worker.logOf] using hlo
    · simp only [Worker.on, ↓reduceIte, Worker.logOf, List.filter_append, List.map_append]
      rw [filter_tag_same true, h2]
      have : (w.logOf true) = w.err.2.2 := hle
      simp only [Worker.logOf] at this
      rw [this]
      simp
  | false =>
    simp only [Bool.false_eq_true, ↓reduceIte, List.append_nil] at hO hE ⊢
    obtain ⟨h1, ⟨new, h2⟩, h3⟩ := sstep_inv cfg host 1 true hrO ev w.out fedO futO hO ho
    refine ⟨⟨h1, he, ?_, ?_⟩, ?_, ?_⟩
    rotate_left 2
    · simp only [Worker.on, Bool.false_eq_true, ↓reduceIte, Bool.not_false, Bool.true_and]; exact h3
    · simp only [Worker.on, Bool.false_eq_true, ↓reduceIte, Bool.false_and, Bool.or_false]
    · simp only [Worker.on, Bool.false_eq_true, ↓reduceIte, Worker.logOf, List.filter_append, List.map_append]
      rw [filter_tag_same false, h2]
      have : (w.logOf false) = w.out.2.2 := hlo
      simp only [Worker.logOf] at this
      rw [this]
      simp
    · simp only [Worker.on, Bool.false_eq_true, ↓reduceIte, Worker.logOf, List.filter_append, List.map_append]
      rw [filter_tag_other false true (by decide)]
      simpa [Worker.logOf] using hle

/-- a call on one descriptor: nothing arrives, nothing closes -/
theorem on_call_inv {sizeMeta : Nat} {SO SE : Bytes} (hrO : Room SO) (hrE : Room SE) (w : Worker PBuf) (isErr : Bool)
    (cap : Option Nat) (fedO fedE futO futE : Bytes) (hO : fedO ++ futO = SO) (hE : fedE ++ futE = SE)
    (hinv : WInv cfg host sizeMeta fedO fedE w) :
    WInv cfg host sizeMeta fedO fedE (w.on fifoOps cfg host isErr (.call cap)) ∧
    (w.on fifoOps cfg host isErr (.call cap)).out.1.weof = w.out.1.weof ∧
    (w.on fifoOps cfg host isErr (.call cap)).err.1.weof = w.err.1.weof := by
  have h := on_inv cfg host hrO hrE w isErr (.call cap) fedO fedE futO futE
    (by cases isErr <;> simpa [accepted] using hO) (by cases isErr <;> simpa [accepted] using hE) hinv
  cases isErr <;> simpa [accepted, SEv.isHup] using h

theorem onReported_inv {sizeMeta : Nat} {SO SE : Bytes} (hrO : Room SO) (hrE : Room SE) (w : Worker PBuf) (isErr : Bool)
    (c : Option (Option Nat)) (fedO fedE futO futE : Bytes) (hO : fedO ++ futO = SO) (hE : fedE ++ futE = SE)
    (hinv : WInv cfg host sizeMeta fedO fedE w) :
    WInv cfg host sizeMeta fedO fedE (w.onReported fifoOps cfg host isErr c) ∧
    (w.onReported fifoOps cfg host isErr c).out.1.weof = w.out.1.weof ∧
    (w.onReported fifoOps cfg host isErr c).err.1.weof = w.err.1.weof := by
  cases c with
  | none => exact ⟨hinv, rfl, rfl⟩
  | some cap => exact on_call_inv cfg host hrO hrE w isErr cap fedO fedE futO futE hO hE hinv

/-- ONE EVENT of the worker keeps the invariant -/
theorem pollStep_inv {sizeMeta : Nat} {SO SE : Bytes} (hrO : Room SO) (hrE : Room SE) (ev : PEv) (w : Worker PBuf)
    (fedO fedE futO futE : Bytes)
    (hO : fedO ++ accOne false ev w.out.1.weof ++ futO = SO)
    (hE : fedE ++ accOne true ev w.err.1.weof ++ futE = SE)
    (hinv : WInv cfg host sizeMeta fedO fedE w) :
    WInv cfg host sizeMeta (fedO ++ accOne false ev w.out.1.weof) (fedE ++ accOne true ev w.err.1.weof)
      (pollStep fifoOps cfg host w ev) ∧
    (pollStep fifoOps cfg host w ev).out.1.weof = (w.out.1.weof || hupOne false ev) ∧
    (pollStep fifoOps cfg host w ev).err.1.weof = (w.err.1.weof || hupOne true ev) := by
  cases ev with
  | arrive i b =>
    have h := on_inv cfg host hrO hrE w i (.arrive b) fedO fedE futO futE
      (by cases i <;> cases hw : w.out.1.weof <;> simpa [accOne, accepted, hw] using hO)
      (by cases i <;> cases hw : w.err.1.weof <;> simpa [accOne, accepted, hw] using hE) hinv
    cases i <;> cases hwo : w.out.1.weof <;> cases hwe : w.err.1.weof <;>
      simpa [pollStep, accOne, hupOne, accepted, SEv.isHup, hwo, hwe] using h
  | hup i =>
    have h := on_inv cfg host hrO hrE w i .hup fedO fedE futO futE
      (by cases i <;> simpa [accOne, accepted] using hO) (by cases i <;> simpa [accOne, accepted] using hE) hinv
    cases i <;> simpa [pollStep, accOne, hupOne, accepted, SEv.isHup] using h
  | eintr =>
    simpa [pollStep, accOne, hupOne] using hinv
  | poll o e =>
    simp only [accOne, List.append_nil] at hO hE ⊢
    simp only [pollStep, hupOne, Bool.or_false]
    by_cases hl : w.loopLeft = true
    · simp only [hl, ↓reduceIte]; exact ⟨hinv, trivial, trivial⟩
    · simp only [hl, Bool.false_eq_true, ↓reduceIte]
      obtain ⟨i1, wo1, we1⟩ := onReported_inv cfg host hrO hrE w false o fedO fedE futO futE hO hE hinv
      obtain ⟨i2, wo2, we2⟩ := onReported_inv cfg host hrO hrE _ true e fedO fedE futO futE hO hE i1
      exact ⟨i2, by rw [wo2, wo1], by rw [we2, we1]⟩
  | pollRev o e =>
    simp only [accOne, List.append_nil] at hO hE ⊢
    simp only [pollStep, hupOne, Bool.or_false]
    by_cases hl : w.loopLeft = true
    · simp only [hl, ↓reduceIte]; exact ⟨hinv, trivial, trivial⟩
    · simp only [hl, Bool.false_eq_true, ↓reduceIte]
      obtain ⟨i1, wo1, we1⟩ := onReported_inv cfg host hrO hrE w true e fedO fedE futO futE hO hE hinv
      obtain ⟨i2, wo2, we2⟩ := onReported_inv cfg host hrO hrE _ false o fedO fedE futO futE hO hE i1
      exact ⟨i2, by rw [wo2, wo1], by rw [we2, we1]⟩

/-- EVERY EVENT SEQUENCE keeps the invariant: whatever arrives, closes, is polled, read short or interrupted -/
theorem pollRun_inv {sizeMeta : Nat} {SO SE : Bytes} (hrO : Room SO) (hrE : Room SE) :
    ∀ (evs : List PEv) (w : Worker PBuf) (fedO fedE : Bytes),
      fedO ++ acceptedOf false evs w.out.1.weof = SO → fedE ++ acceptedOf true evs w.err.1.weof = SE →
      WInv cfg host sizeMeta fedO fedE w →
      WInv cfg host sizeMeta SO SE (evs.foldl (pollStep fifoOps cfg host) w)
  | [], w, fedO, fedE, hO, hE, hinv => by
    simp only [acceptedOf, List.append_nil] at hO hE
    subst hO; subst hE
    exact hinv
  | ev :: evs, w, fedO, fedE, hO, hE, hinv => by
    simp only [acceptedOf, ← List.append_assoc] at hO hE
    obtain ⟨h1, h2, h3⟩ := pollStep_inv cfg host hrO hrE ev w fedO fedE _ _ hO hE hinv
    simp only [List.foldl_cons]
    exact pollRun_inv hrO hrE evs _ _ _ (by rw [h2]; exact hO) (by rw [h3]; exact hE) h1

theorem worker_init_inv {sizeMeta : Nat} (hg : growthOk sizeMeta = true) {b0 : PBuf} (hb0 : mkFifoBuf sizeMeta = some b0) :
    WInv cfg host sizeMeta [] [] (Worker.init b0) := by
  obtain ⟨hinv0, hq0⟩ := mkFifoBuf_inv sizeMeta hg b0 hb0
  refine ⟨⟨⟨[], rfl, hinv0, ?_, ?_⟩, ?_⟩, ⟨⟨[], rfl, hinv0, ?_, ?_⟩, ?_⟩, rfl, rfl⟩
  · simp [Worker.init, hq0, Spec.split_nil]
  · simp [Worker.init, afterLines, Spec.split_nil]
  · intro h; simp [Worker.init] at h
  · simp [Worker.init, hq0, Spec.split_nil]
  · simp [Worker.init, afterLines, Spec.split_nil]
  · intro h; simp [Worker.init] at h

/-- a handler call on an open descriptor closes it EXACTLY when the remote side has closed and everything
    has been read -/
theorem sstep_call_closed {sizeMeta : Nat} {S fed fut : Bytes} (hS : fed ++ fut = S) (hroom : Room S)
    {st : SState PBuf} (hinv : SInv cfg host strm readRc sizeMeta fed st) (hopen : st.1.closed = false)
    (cap : Option Nat) :
    (sstep fifoOps cfg host strm readRc st (.call cap)).1.closed = true ↔ (st.1.weof = true ∧ st.1.pipe = []) := by
  simp only [sstep, hopen, Bool.false_eq_true, ↓reduceIte]
  exact (handleCap_fifo cfg host strm readRc (fut := fut) hS hroom cap (s := st.1) (rc := st.2.1) (acc := st.2.2)
    hinv.1).2.2.1

/-- closed form of one descriptor's stdio calls once the loop has been left (at any point) and
    `_flush_output` has run: the complete lines of what was READ (`x`), then its unterminated rest -/
theorem stream_closed_form {sizeMeta : Nat} {S : Bytes} (hdom : Spec.Dom05 (markerOf readRc) S = true)
    {st : SState PBuf} (hinv : RunInv cfg host strm readRc sizeMeta S st) :
    ∃ x : Bytes, x ++ st.1.pipe = S ∧
      st.2.2 ++ (flushOutput fifoOps cfg host t0host strm st.1.buf st.2.1).2 =
        (Spec.lines x).map (fun l => (⟨strm, labelPrefix cfg.labels cfg.keep host ++ l⟩ : Em)) ++
          tailEms cfg host strm ((Spec.tail x).length + 1) (Spec.tail x) false ∧
      (∀ b ∈ x, b ≠ 0) := by
  obtain ⟨x, hx, hb, hq, hout⟩ := hinv
  refine ⟨x, hx, ?_, fun b hb' => dom_noNul hdom b (by rw [← hx]; simp [hb'])⟩
  have hnl : ∀ c ∈ st.1.buf.f.q, c ≠ 10 := by rw [hq]; exact Spec.split_rest_noNl _
  rw [flushOutput_fifo cfg host strm t0host _ _ hnl, hq]
  have hsplit := Spec.split_append x st.1.pipe
  rw [hx] at hsplit
  have hgood : ∀ l ∈ (split x).1, GoodLine readRc l := by
    intro l hl
    apply dom_goodLines readRc hdom l
    rw [hsplit]
    simp [hl]
  have hal := afterLines_good cfg host strm readRc x hgood
  have h4 : st.2.2 = (afterLines cfg host strm readRc x).2 := congrArg Prod.snd hout
  rw [h4, hal]
  rfl

/-- the calls of one descriptor's handler among ALL calls of the worker (loop + the two flushes) -/
theorem workerFinish_logOf (w : Worker PBuf) (isErr : Bool) :
    ((workerFinish fifoOps cfg host t0host w).filter (fun x => x.1 = isErr)).map (·.2) =
      w.logOf isErr ++
        (if isErr then (flushOutput fifoOps cfg host t0host 2 w.err.1.buf w.err.2.1).2
         else (flushOutput fifoOps cfg host t0host 1 w.out.1.buf w.out.2.1).2) := by
  simp only [workerFinish, List.filter_append, List.map_append, Worker.logOf]
  cases isErr with
  | true =>
    rw [filter_tag_other false true (by decide), filter_tag_same true]
    simp
  | false =>
    rw [filter_tag_other true false (by decide), filter_tag_same false]
    simp

end PdshVerif.Relay
