/-
  Model of the output relay of pdsh (properties C05, C06):

    src/pdsh/dsh.c   _extract_rc, _flush_lines, _do_output, _flush_output,
                     _handle_rcmd_stdout/_handle_rcmd_stderr, the read loop of _rsh_thread
                     (as a sequence of handler calls per descriptor), the domain loop of dsh()
    src/common/err.c _verr for the formats "%S: %s", "%S: ", "%s" (one fputs per call)

  The functions are written once, generically over the three cbuf entry points dsh.c uses
  (`BufOps`: cbuf_write_from_fd(cb, fd, -1, &dropped), cbuf_peek_line(cb, &c, 1, 1),
  cbuf_read(cb, buf, n)) and instantiated twice:

    * `indexOps` : the index-level model of cbuf.c (`Cbuf/Model.lean`, property C13) -- this is
                   the model that is executed against the real code call by call;
    * `fifoOps`  : the FIFO specification of the buffer (`Cbuf/Spec.lean`) together with the
                   *policy* of cbuf.c that the specification leaves open (how many bytes a
                   descriptor write asks for, when and by how much the buffer grows) -- this is
                   the instance the theorems of Props/C05, Props/C06 are about; the driver runs
                   it against the real code too (`pdshmodel relay fifo`).

  Byte strings are `List UInt8`.  A C string ends at the first NUL: `cstr`.
-/
import PdshVerif.Gen.Cbuf
import PdshVerif.Gen.Dsh
import PdshVerif.Gen.Relay
import PdshVerif.Cbuf.Model
import PdshVerif.Cbuf.Spec

namespace PdshVerif.Relay

abbrev Bytes := List UInt8

/-- the part of a buffer C sees as a string -/
def cstr (b : Bytes) : Bytes := b.takeWhile (· ≠ 0)

/-! ### err.c `_verr` -/

def isDigitB (b : UInt8) : Bool := decide (48 ≤ b) && decide (b ≤ 57)

/-- `%S`: `snprintf(tmpstr, LINEBUFSIZE, "%s", host)`, then cut at the first '.' unless the name
    starts with a digit or `keep_host_domain` is set -/
def fmtS (keep : Bool) (host : Bytes) : Bytes :=
  let t := (cstr host).take (Gen.LINEBUFSIZE - 1)
  if (t.head?.map isDigitB).getD false || keep then t else t.takeWhile (· ≠ 46)

/-- ": " -/
def sep : Bytes := [58, 32]

/-- the bytes of `out("%S: ", host)`; with -N no label is printed at all -/
def labelPrefix (labels keep : Bool) (host : Bytes) : Bytes :=
  if labels then fmtS keep host ++ sep else []

/-! ### `_extract_rc` -/

def magic : Bytes := Gen.RC_MAGIC_BYTES.map UInt8.ofNat

/-- `strstr`: index of the first occurrence of `pat` -/
def findSub (pat : Bytes) : Bytes → Option Nat
  | [] => if pat.isEmpty then some 0 else none
  | b :: bs => if pat.isPrefixOf (b :: bs) then some 0 else (findSub pat bs).map (· + 1)

def isSpaceB (b : UInt8) : Bool := b == 32 || (decide (9 ≤ b) && decide (b ≤ 13))

def toInt32 (x : Int) : Int := (x + 2147483648) % 4294967296 - 2147483648

/-- glibc `atoi` = `(int) strtol(s, NULL, 10)` (clamped to long, then truncated to int) -/
def atoi (s : Bytes) : Int :=
  let s := s.dropWhile isSpaceB
  let (neg, s) : Bool × Bytes :=
    match s with
    | 45 :: r => (true, r)
    | 43 :: r => (false, r)
    | _ => (false, s)
  let v : Nat := (s.takeWhile isDigitB).foldl (fun a d => a * 10 + (d.toNat - 48)) 0
  let l : Int :=
    if neg then (if v > 9223372036854775808 then -9223372036854775808 else -(v : Int))
    else (if v > 9223372036854775807 then 9223372036854775807 else (v : Int))
  toInt32 l

/-- `_extract_rc(buf)` on the zero-filled `Malloc(n+1)` buffer holding the `n` bytes `buf`:
    (return value, the C string left in the buffer).
    ONE SWITCH for defect D9 (property C08), `skipDigit`:
      `true`  = dsh.c before ee5f5b4: when text precedes the marker on a newline-terminated line
                the number is parsed from ONE PAST its first character (`*p++ = '\n'` before
                `p += strlen(RC_MAGIC); ret = atoi(p)`);
      `false` = repaired: `ret = atoi(p + strlen(RC_MAGIC))` before the line is cut.
    The driver takes the value from `Gen.RELAY_XRC_SKIPS_DIGIT` (read off the code every run). -/
def extractRc (skipDigit : Bool) (buf : Bytes) : Int × Bytes :=
  let c := cstr buf
  match findSub magic c with
  | none => (0, c)
  | some i =>
    if c.getLast? = some 10 ∧ i ≠ 0 then
      (atoi (c.drop (i + (if skipDigit then 1 else 0) + magic.length)), c.take i ++ [10])
    else (atoi (c.drop (i + magic.length)), c.take i)

/-! ### emissions: one element = one stdio call (`fputs` at the end of `_verr`) -/

structure Em where
  stream : Nat          -- 1 = stdout, 2 = stderr, 9 = a diagnostic of dsh.c itself (unreachable)
  bytes  : Bytes
  deriving DecidableEq, Repr, Inhabited

def diag : Em := ⟨9, []⟩

structure Cfg where
  labels    : Bool       -- opt->labels (false with -N)
  keep      : Bool       -- err.c keep_host_domain (-K, or the targets span different domains)
  /-- ONE SWITCH for defect D6 (C06): `true` = the unterminated tail is written by two stdio
      calls, `out("%S: ", host)` then `out("%s", buf)` (dsh.c as it stands); `false` = one call
      `out("%S: %s", host, buf)` for the first piece (the proposed repair).  The driver takes the
      value from `Gen.RELAY_TAIL_CALLS`, which is read off the code under test on every run. -/
  tailSplit : Bool
  /-- switch for defect D9 (C08): see `extractRc` -/
  rcSkipDigit : Bool
  /-- ONE SWITCH for the "late line" defect (C08): `true` = dsh.c before 594f0d3, `_flush_lines`
      assigns `th->rc = _extract_rc (buf)` for EVERY stdout line (a line after the marker line
      resets the status to 0); `false` = repaired: only `if (read_rc && strstr (buf, RC_MAGIC))`.
      The driver takes the value from `Gen.RELAY_RC_EVERY_LINE`. -/
  rcEveryLine : Bool
  deriving DecidableEq, Repr, Inhabited

/-- the values of the switches for the code under test -/
def tailSplitOfCode : Bool := Gen.RELAY_TAIL_CALLS == 2
def rcSkipDigitOfCode : Bool := Gen.RELAY_XRC_SKIPS_DIGIT == 1
def rcEveryLineOfCode : Bool := Gen.RELAY_RC_EVERY_LINE == 1

/-! ### the cbuf entry points dsh.c uses -/

structure BufOps (β : Type) where
  /-- `cbuf_write_from_fd(cb, fd, -1, &dropped)` on a descriptor holding `avail` (EOF after it
      iff `eof`): (return value, dropped, buffer) -/
  wfd      : β → Bytes → Bool → Int × Nat × β
  /-- `cbuf_peek_line(cb, &c, 1, 1)`: length of the first complete line, 0 if none -/
  peekLine : β → Int
  /-- `cbuf_read(cb, buf, n)` -/
  read     : β → Int → Int × Bytes × β
  /-- bytes held (bounds the loops) -/
  used     : β → Nat

/-- one line taken out of the buffer by `_flush_lines`: (new th->rc, stdio calls) -/
def emitLine (cfg : Cfg) (host : Bytes) (strm : Nat) (readRc : Bool) (rc : Int) (buf : Bytes) :
    Int × List Em :=
  let (rc', c) :=
    if readRc ∧ (cfg.rcEveryLine ∨ (findSub magic (cstr buf)).isSome) then extractRc cfg.rcSkipDigit buf
    else (rc, cstr buf)
  (rc', if c.isEmpty then [] else [⟨strm, labelPrefix cfg.labels cfg.keep host ++ c⟩])

/-- `_flush_lines (cb, outf, read_rc, th)`; `fuel` bounds the `while` -/
def flushLines (ops : BufOps β) (cfg : Cfg) (host : Bytes) (strm : Nat) (readRc : Bool) :
    Nat → β → Int → List Em → β × Int × List Em
  | 0, b, rc, acc => (b, rc, acc)
  | fuel + 1, b, rc, acc =>
    let n := ops.peekLine b
    if n = 0 then (b, rc, acc)
    else if n < 0 then (b, rc, acc ++ [diag])            -- "Failed to peek line"
    else
      let (m, bytes, b') := ops.read b n
      if m = 0 then flushLines ops cfg host strm readRc fuel b' rc acc
      else if m < 0 then (b', rc, acc ++ [diag])         -- "Failed to read line from buffer"
      else
        let (rc', e) := emitLine cfg host strm readRc rc bytes
        flushLines ops cfg host strm readRc fuel b' rc' (acc ++ e)

structure DoOut (β : Type) where
  ret  : Int
  buf  : β
  rc   : Int
  ems  : List Em
  took : Nat            -- bytes consumed from the descriptor

/-- `_do_output (fd, cb, outf, read_rc, t)`.  A negative return of the descriptor write is
    EAGAIN on the scripted descriptor (nothing available, not at EOF): return 1, no flush. -/
def doOutput (ops : BufOps β) (cfg : Cfg) (host : Bytes) (strm : Nat) (readRc : Bool)
    (b : β) (rc : Int) (avail : Bytes) (eof : Bool) : DoOut β :=
  let (r, _, b') := ops.wfd b avail eof
  if r < 0 then { ret := 1, buf := b', rc := rc, ems := [], took := 0 }
  else
    let (b'', rc', ems) := flushLines ops cfg host strm readRc (ops.used b' + 1) b' rc []
    { ret := r, buf := b'', rc := rc', ems := ems, took := r.toNat }

/-- the `while ((n = cbuf_read (cb, buf, sizeof (buf) - 1)) > 0)` loop of `_flush_output` -/
def tailLoop (ops : BufOps β) (cfg : Cfg) (host : Bytes) (strm : Nat) :
    Nat → β → Bool → List Em → β × List Em
  | 0, b, _, acc => (b, acc)
  | fuel + 1, b, labeled, acc =>
    let (n, bytes, b') := ops.read b ((Gen.RELAY_TAILBUF : Int) - 1)
    if n ≤ 0 then (b', acc)
    else
      let c := cstr bytes
      if cfg.labels ∧ !labeled then
        if cfg.tailSplit then
          tailLoop ops cfg host strm fuel b' true
            (acc ++ [⟨strm, labelPrefix true cfg.keep host⟩, ⟨strm, c⟩])        -- D6: two calls
        else
          tailLoop ops cfg host strm fuel b' true
            (acc ++ [⟨strm, labelPrefix true cfg.keep host ++ c⟩])
      else tailLoop ops cfg host strm fuel b' labeled (acc ++ [⟨strm, c⟩])

/-- `_flush_output (cb, outf, th)`.  Its `_flush_lines` call is handed the GLOBAL array `t`
    (i.e. the first target, `t0host`) instead of `th`; C06.flushOutput_lines_noop shows that this
    call never emits, because no complete line survives `_do_output`. -/
def flushOutput (ops : BufOps β) (cfg : Cfg) (host t0host : Bytes) (strm : Nat) (b : β) (rc : Int) :
    β × List Em :=
  let fl := flushLines ops cfg t0host strm false (ops.used b + 1) b rc []
  let tl := tailLoop ops cfg host strm (ops.used fl.1 + 1) fl.1 false []
  (tl.1, fl.2.2 ++ tl.2)

/-! ### one remote stream (descriptor + its buffer) and the read loop of `_rsh_thread` -/

structure Stream (β : Type) where
  buf    : β
  pipe   : Bytes         -- bytes written by the remote side and not yet read
  weof   : Bool          -- the remote side has closed
  closed : Bool          -- the handler has closed the descriptor (fd = -1)

/-- `_handle_rcmd_stdout` / `_handle_rcmd_stderr`: one `_do_output`, close on `rc <= 0` -/
def handle (ops : BufOps β) (cfg : Cfg) (host : Bytes) (strm : Nat) (readRc : Bool)
    (s : Stream β) (rc : Int) : Int × Stream β × Int × List Em :=
  let d := doOutput ops cfg host strm readRc s.buf rc s.pipe s.weof
  (d.ret, { s with buf := d.buf, pipe := s.pipe.drop d.took, closed := decide (d.ret ≤ 0) }, d.rc, d.ems)

/-- the poll/read loop after the remote side has closed: call the handler until it returns <= 0;
    returns (number of calls, last return value, ...) -/
def drain (ops : BufOps β) (cfg : Cfg) (host : Bytes) (strm : Nat) (readRc : Bool) :
    Nat → Stream β → Int → List Em → Nat → Nat × Int × Stream β × Int × List Em
  | 0, s, rc, acc, k => (k, 1, s, rc, acc)
  | fuel + 1, s, rc, acc, k =>
    let (r, s', rc', e) := handle ops cfg host strm readRc s rc
    if r ≤ 0 then (k + 1, r, s', rc', acc ++ e)
    else drain ops cfg host strm readRc fuel s' rc' (acc ++ e) (k + 1)

structure Run (β : Type) where
  buf : β
  rc  : Int
  ems : List Em

/-- one arrival: `chunk` is appended to what the descriptor holds, then the handler runs once
    (an empty chunk = a call that finds nothing new: EAGAIN if the descriptor is empty) -/
def feedStep (ops : BufOps β) (cfg : Cfg) (host : Bytes) (strm : Nat) (readRc : Bool)
    (st : Stream β × Int × List Em) (chunk : Bytes) : Stream β × Int × List Em :=
  let r := handle ops cfg host strm readRc { st.1 with pipe := st.1.pipe ++ chunk } st.2.1
  (r.2.1, r.2.2.1, st.2.2 ++ r.2.2.2)

/-- A whole stream: `script` = the chunks that arrive, one handler call after each arrival; then
    the remote side closes, the loop drains the descriptor, and `_flush_output` runs. -/
def runStream (ops : BufOps β) (cfg : Cfg) (host t0host : Bytes) (strm : Nat) (readRc : Bool)
    (b0 : β) (script : List Bytes) : Run β :=
  let st := script.foldl (feedStep ops cfg host strm readRc)
    ({ buf := b0, pipe := [], weof := false, closed := false }, 0, [])
  let dr := drain ops cfg host strm readRc (st.1.pipe.length + 1) { st.1 with weof := true } st.2.1 st.2.2 0
  let fl := flushOutput ops cfg host t0host strm dr.2.2.1.buf dr.2.2.2.1
  { buf := fl.1, rc := dr.2.2.2.1, ems := dr.2.2.2.2 ++ fl.2 }

/-- A stream the worker GIVES UP ON (command timeout, xpoll error: `result = DSH_FAILED;
    rcmd_signal (SIGTERM); break` in `_rsh_thread`): after the arrivals of `script`, each followed
    by one handler call, the poll loop is left -- no further read, whatever the descriptor still
    holds stays unread -- and `_flush_output` runs on what the buffer holds. -/
def runAbandoned (ops : BufOps β) (cfg : Cfg) (host t0host : Bytes) (strm : Nat) (readRc : Bool)
    (b0 : β) (script : List Bytes) : Run β :=
  let st := script.foldl (feedStep ops cfg host strm readRc)
    ({ buf := b0, pipe := [], weof := false, closed := false }, 0, [])
  let fl := flushOutput ops cfg host t0host strm st.1.buf st.2.1
  { buf := fl.1, rc := st.2.1, ems := st.2.2 ++ fl.2 }

/-! ### the poll / read / report loop of `_rsh_thread` for ONE worker, as a transition system

  The environment decides everything the worker does not: when bytes arrive on which descriptor, when
  the remote side closes it, which descriptors an `xpoll` return reports, how many bytes the one
  `read(2)` of a handler call delivers (a SHORT read: `cap`; `cap = 0` on a descriptor that holds data
  = a spurious wake-up, the read says EAGAIN), and when `xpoll` is interrupted (EINTR without a
  timeout: `continue`).  `cbuf_get_fd` retries a read that fails with EINTR, so that never shows.
  Leaving the loop early (command timeout, poll error: `break`) = stopping the event list anywhere;
  `workerFinish` is what follows the loop in every case: the two `_flush_output` calls. -/

/-- what one `read(2)` can see of the descriptor: at most `cap` bytes -/
def visible (cap : Option Nat) (pipe : Bytes) : Bytes :=
  match cap with
  | none => pipe
  | some k => pipe.take k

/-- `_handle_rcmd_stdout/_stderr` when the `read(2)` inside delivers at most `cap` bytes
    (`none` = whatever the descriptor holds, up to the request: `handle`) -/
def handleCap (ops : BufOps β) (cfg : Cfg) (host : Bytes) (strm : Nat) (readRc : Bool) (cap : Option Nat)
    (s : Stream β) (rc : Int) : Int × Stream β × Int × List Em :=
  let vis := visible cap s.pipe
  let d := doOutput ops cfg host strm readRc s.buf rc vis (s.weof && decide (vis.length = s.pipe.length))
  (d.ret, { s with buf := d.buf, pipe := s.pipe.drop d.took, closed := decide (d.ret ≤ 0) }, d.rc, d.ems)

/-- the handler when its read(2) FAILS with an error other than EAGAIN / EINTR (`_do_output`:
    `err ("%p: %S: read: %m\n", t->host); return (-1);`): one diagnostic on pdsh's stderr (its text names the
    program, the local host and strerror: the model says `diag`), nothing is consumed, what the buffer holds
    stays there for `_flush_output`, and the handler closes the descriptor -/
def handleFail (s : Stream β) (rc : Int) : Int × Stream β × Int × List Em :=
  (-1, { s with closed := true }, rc, [diag])

/-- the loop after the remote side has closed when every read is limited to `cap` bytes: handler calls
    (`sstep .. (.call cap)` each) until one returns <= 0; (number of calls, last return value, ...) -/
def drainCap (ops : BufOps β) (cfg : Cfg) (host : Bytes) (strm : Nat) (readRc : Bool) (cap : Option Nat) :
    Nat → Stream β → Int → List Em → Nat → Nat × Int × Stream β × Int × List Em
  | 0, s, rc, acc, k => (k, 1, s, rc, acc)
  | fuel + 1, s, rc, acc, k =>
    let (r, s', rc', e) := handleCap ops cfg host strm readRc cap s rc
    if r ≤ 0 then (k + 1, r, s', rc', acc ++ e)
    else drainCap ops cfg host strm readRc cap fuel s' rc' (acc ++ e) (k + 1)

/-- events of one descriptor -/
inductive SEv where
  | arrive (b : Bytes)          -- the remote side writes (ignored once it has closed)
  | hup                         -- the remote side closes
  | call (cap : Option Nat)     -- the worker calls the handler (not once the descriptor is closed: fd = -1)
  deriving Repr

/-- state of one descriptor of a worker: stream, th->rc as this handler sees it, its stdio calls -/
abbrev SState (β : Type) := Stream β × Int × List Em

def sstep (ops : BufOps β) (cfg : Cfg) (host : Bytes) (strm : Nat) (readRc : Bool) (st : SState β) :
    SEv → SState β
  | .arrive b => if st.1.weof then st else ({ st.1 with pipe := st.1.pipe ++ b }, st.2)
  | .hup => ({ st.1 with weof := true }, st.2)
  | .call cap =>
    if st.1.closed then st
    else
      let r := handleCap ops cfg host strm readRc cap st.1 st.2.1
      (r.2.1, r.2.2.1, st.2.2 ++ r.2.2.2)

/-- one worker: its two descriptors and ALL its stdio calls in the order it makes them (tagged with the
    descriptor whose handler made them).  `_handle_rcmd_stderr` passes read_rc = false: it neither reads
    nor writes th->rc, so the stderr side carries a constant 0 there. -/
structure Worker (β : Type) where
  out : SState β
  err : SState β
  log : List (Bool × Em)

inductive PEv where
  | arrive (isErr : Bool) (b : Bytes)
  | hup (isErr : Bool)
  | eintr                                    -- xpoll: -1/EINTR, no timeout -> `continue`
  | poll (o e : Option (Option Nat))         -- xpoll returns: per descriptor `none` = not reported,
                                             -- `some cap` = reported (XPOLLREAD|XPOLLERR), handler called
  | pollRev (o e : Option (Option Nat))      -- the same with the two "ready or closed ?" blocks in the other order
                                             -- (stderr's handler first): the properties do not care, the
                                             -- correspondence learns the order of the code under test
  deriving Repr

/-- `while (xpfds[0].fd >= 0 || xpfds[1].fd >= 0)` is over -/
def Worker.loopLeft (w : Worker β) : Bool := w.out.1.closed && w.err.1.closed

def Worker.on (ops : BufOps β) (cfg : Cfg) (host : Bytes) (w : Worker β) (isErr : Bool) (ev : SEv) : Worker β :=
  if isErr then
    let st' := sstep ops cfg host 2 false w.err ev
    { w with err := st', log := w.log ++ (st'.2.2.drop w.err.2.2.length).map (fun x => (true, x)) }
  else
    let st' := sstep ops cfg host 1 true w.out ev
    { w with out := st', log := w.log ++ (st'.2.2.drop w.out.2.2.length).map (fun x => (false, x)) }

/-- "ready or closed ?": the handler of descriptor `isErr` is called iff xpoll reported it -/
def Worker.onReported (ops : BufOps β) (cfg : Cfg) (host : Bytes) (w : Worker β) (isErr : Bool)
    (c : Option (Option Nat)) : Worker β :=
  match c with
  | some cap => w.on ops cfg host isErr (.call cap)
  | none => w

def pollStep (ops : BufOps β) (cfg : Cfg) (host : Bytes) (w : Worker β) : PEv → Worker β
  | .arrive i b => w.on ops cfg host i (.arrive b)
  | .hup i => w.on ops cfg host i .hup
  | .eintr => w
  | .poll o e =>
    if w.loopLeft then w
    else (w.onReported ops cfg host false o).onReported ops cfg host true e     -- stdout first, then stderr
  | .pollRev o e =>
    if w.loopLeft then w
    else (w.onReported ops cfg host true e).onReported ops cfg host false o     -- stderr first, then stdout

def Worker.init (b0 : β) : Worker β :=
  { out := ({ buf := b0, pipe := [], weof := false, closed := false }, 0, []),
    err := ({ buf := b0, pipe := [], weof := false, closed := false }, 0, []), log := [] }

/-- after the loop, however it was left: `_flush_output (outbuf)`, `_flush_output (errbuf)`;
    the result is every stdio call of the worker, in order -/
def workerFinish (ops : BufOps β) (cfg : Cfg) (host t0host : Bytes) (w : Worker β) : List (Bool × Em) :=
  w.log ++ (flushOutput ops cfg host t0host 1 w.out.1.buf w.out.2.1).2.map (fun x => (false, x)) ++
    (flushOutput ops cfg host t0host 2 w.err.1.buf w.err.2.1).2.map (fun x => (true, x))

/-- a whole worker run: any event list, then the flushes -/
def workerRun (ops : BufOps β) (cfg : Cfg) (host t0host : Bytes) (b0 : β) (evs : List PEv) : List (Bool × Em) :=
  workerFinish ops cfg host t0host (evs.foldl (pollStep ops cfg host) (Worker.init b0))

/-! ### pdcp / rpdcp: `_parallel_copy` relays the remote STDERR (only), with the same two functions

    rv = th->pcp_Popt ? _pcp_server (th) : _pcp_client (th);
    if ((!th->pcp_Popt && rv < 0) || th->pcp_Popt) {
        while (_handle_rcmd_stderr (th) > 0) ;
        _flush_output (th->errbuf, (out_f) err, th);
    }

  The descriptor is blocking here (`_rcp_thread` does not make it non-blocking): every handler call finds
  at least one byte or EOF -- a `runStream` whose script has no empty arrival.  A pdcp client that succeeds
  (rv >= 0, not -P) never reads the remote stderr. -/
def parallelCopyStderr (ops : BufOps β) (cfg : Cfg) (host t0host : Bytes) (popt : Bool) (rv : Int) (b : β)
    (script : List Bytes) : List Em :=
  if popt ∨ rv < 0 then (runStream ops cfg host t0host 2 false b script).ems else []

/-! ### instance 1: the index-level model of cbuf.c -/

def indexOps : BufOps Cbuf.Cbuf where
  wfd c av eof := Cbuf.writeFromFd c (-1) av eof
  peekLine c := (Cbuf.peekLine c 1 1).1
  read c n := Cbuf.read c n
  used c := c.used

/-! ### instance 2: FIFO specification + the policy of cbuf.c -/

/-- FIFO of `Cbuf.Spec` plus the allocation size the growth policy of `cbuf_grow` depends on -/
structure PBuf where
  f     : Cbuf.Spec.Fifo
  alloc : Nat
  deriving Repr, Inhabited

/-- `cbuf_grow (cb, n)`: (size, alloc) afterwards -/
def growPolicy (size alloc maxsize n : Nat) : Nat × Nat :=
  if size = maxsize then (size, alloc)
  else
    let sizeMeta := alloc - size
    let m0 := alloc + n
    let m1 := m0 + (Gen.CBUF_CHUNK - m0 % Gen.CBUF_CHUNK)
    let m := min m1 (maxsize + sizeMeta)
    (m - sizeMeta, m)

/-- what `cbuf_write_from_fd (.., -1, ..)` asks the descriptor for -/
def wfdRequest (size used : Nat) : Nat :=
  let free := size - used
  if free = 0 then min size Gen.CBUF_CHUNK else free

/-- capacity and allocation after the growth step `cbuf_writer` performs before it reads:
    the buffer grows only when the request exceeds the free space (i.e. when it is full) -/
def PBuf.grown (b : PBuf) : Nat × Nat :=
  let free := b.f.size - b.f.q.length
  let req := wfdRequest b.f.size b.f.q.length
  if req > free ∧ b.f.size < b.f.maxsize then growPolicy b.f.size b.alloc b.f.maxsize (req - free)
  else (b.f.size, b.alloc)

/-- `cbuf_write_from_fd(cb, fd, -1, &dropped)`: the policy (request, growth, bytes taken = what is
    available up to the request) is cbuf.c's; what happens to the bytes is `Cbuf.Spec.writeFromFd`.
    `-2` marks an answer the specification rejects (`FifoLemmas.wfd_fifo`: impossible in the relay). -/
def PBuf.wfd (b : PBuf) (avail : Bytes) (eof : Bool) : Int × Nat × PBuf :=
  let req := wfdRequest b.f.size b.f.q.length
  if req = 0 then (0, 0, b)
  else
    let taken : Int :=
      if avail.isEmpty then (if eof then 0 else -1) else ((min req avail.length : Nat) : Int)
    match Cbuf.Spec.writeFromFd b.f (-1) avail eof taken b.grown.1 with
    | some (r, d, f') => (r, d, { f := f', alloc := b.grown.2 })
    | none => (-2, 0, b)

def fifoOps : BufOps PBuf where
  wfd := PBuf.wfd
  peekLine b := (Cbuf.Spec.peekLine b.f 1 1).1
  read b n := let (r, bs, f') := Cbuf.Spec.read b.f n; (r, bs, { b with f := f' })
  used b := b.f.q.length

/-- `cbuf_create (64, 131072)` of `_thd_init`; `sizeMeta` = bookkeeping cells of the build flavour -/
def mkIndexBuf (sizeMeta : Nat) : Option Cbuf.Cbuf :=
  Cbuf.create Gen.RELAY_CBUF_MIN Gen.RELAY_CBUF_MAX sizeMeta

def mkFifoBuf (sizeMeta : Nat) : Option PBuf :=
  (Cbuf.Spec.create Gen.RELAY_CBUF_MIN Gen.RELAY_CBUF_MAX).map fun f => { f := f, alloc := f.size + sizeMeta }

/-! ### labels: the domain loop of `dsh()` -/

/-- `strchr (host, '.')` -/
def domainOf (h : Bytes) : Option Bytes :=
  let c := cstr h
  if c.contains 46 then some (c.dropWhile (· ≠ 46)) else none

/-- the loop over the targets in `dsh()`: `domain` = the first domain seen -/
def domainLoop : List Bytes → Option Bytes → Bool
  | [], _ => false
  | h :: hs, dom =>
    match domainOf h with
    | none => domainLoop hs dom
    | some d =>
      match dom with
      | none => domainLoop hs (some d)
      | some d0 => if d ≠ d0 then true else domainLoop hs dom

/-- err.c `keep_host_domain` when the workers start: -K (opt.c) or the loop in dsh() -/
def keepDomain (optK : Bool) (targets : List Bytes) : Bool := optK || domainLoop targets none

end PdshVerif.Relay
