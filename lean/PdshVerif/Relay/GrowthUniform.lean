/-
  AN m-UNIFORM CERTIFICATE of the side condition `growthOk` (Relay/Growth.lean): no evaluation of the growth
  sequence, any number of bookkeeping cells in a closed-form range.

  Why it holds (Growth.lean's header, made a proof): once the capacity is at least one chunk C and capacity +
  bookkeeping is a multiple of C, a full buffer asks for C bytes, `cbuf_grow` rounds capacity + m + C -- already a
  multiple of C -- up STRICTLY, so every step adds exactly 2C until the cap (`nextSize_stride`).  Every uncapped step
  makes room (it gains 2C for a read of C); the capped one does iff the distance to the maximum, taken modulo 2C, is
  0 or at least C (`okFrom_stride`).  From `cbuf_create (mn, ..)` with 2*mn + m < C the first two steps lead to
  C - m and 2C - m (`growthOkFor_uniform`), and the stride starts.

  `growthOk_of_le` instantiates it with the GENERATED constants (64, 131072, chunk 1000): every 1 <= m <= 871.  That
  theorem unfolds the constants on purpose; nothing of Props/* imports this file (a change of the constants is
  judged by `growthOk_generated` and the pinned boundary streams, not by this file).
-/
import PdshVerif.Relay.FifoLemmas

namespace PdshVerif.Relay

theorem okFrom_at_max (mx ch m : Nat) : ∀ f, okFrom mx ch m f mx = true
  | 0 => by simp [okFrom]
  | f + 1 => by simp [okFrom]

/-- the stride: a full buffer of capacity s >= C with (s + m) a multiple of C grows to min (s + 2C, mx) -/
theorem nextSize_stride (mx m s : Nat) (hC : Gen.CBUF_CHUNK ≤ s) (hs : s < mx) (hmod : (s + m) % Gen.CBUF_CHUNK = 0) :
    nextSize mx Gen.CBUF_CHUNK m s = min (s + 2 * Gen.CBUF_CHUNK) mx := by
  have hne : s ≠ mx := by omega
  have hmin : min s Gen.CBUF_CHUNK = Gen.CBUF_CHUNK := Nat.min_eq_right hC
  have hm0 : (s + m + Gen.CBUF_CHUNK) % Gen.CBUF_CHUNK = 0 := by rw [Nat.add_mod_right]; exact hmod
  unfold nextSize growPolicy
  simp only [hne, ↓reduceIte, hmin, hm0, Nat.sub_zero]
  omega

/-- along the stride every step makes room, provided the last one does: mx = s + q * 2C + e with e = 0 or e >= C -/
theorem okFrom_stride (mx m : Nat) (hc : 0 < Gen.CBUF_CHUNK) :
    ∀ (q s f e : Nat), Gen.CBUF_CHUNK ≤ s → s < mx → (s + m) % Gen.CBUF_CHUNK = 0 →
      mx = s + q * (2 * Gen.CBUF_CHUNK) + e → e < 2 * Gen.CBUF_CHUNK → (e = 0 ∨ Gen.CBUF_CHUNK ≤ e) → q + 1 ≤ f →
      okFrom mx Gen.CBUF_CHUNK m f s = true
  | q, s, 0, e, _, _, _, _, _, _, hf => by omega
  | q, s, f + 1, e, hC, hs, hmod, hmx, he, hee, hf => by
    have hne : s ≠ mx := by omega
    have hnext := nextSize_stride mx m s hC hs hmod
    have hmin : min s Gen.CBUF_CHUNK = Gen.CBUF_CHUNK := Nat.min_eq_right hC
    unfold okFrom
    simp only [hne, ↓reduceIte, Bool.and_eq_true, decide_eq_true_eq, hnext, hmin]
    cases q with
    | zero =>
      -- the capped step: mx = s + e, 0 < e, so e >= C
      have h1 : min (s + 2 * Gen.CBUF_CHUNK) mx = mx := by omega
      rw [h1]
      exact ⟨⟨⟨⟨by omega, hs⟩, by omega⟩, Nat.le_refl _⟩, okFrom_at_max _ _ _ _⟩
    | succ q =>
      rw [Nat.succ_mul] at hmx
      by_cases hcap : mx ≤ s + 2 * Gen.CBUF_CHUNK
      · have h1 : min (s + 2 * Gen.CBUF_CHUNK) mx = mx := by omega
        rw [h1]
        exact ⟨⟨⟨⟨by omega, hs⟩, by omega⟩, Nat.le_refl _⟩, okFrom_at_max _ _ _ _⟩
      · have h1 : min (s + 2 * Gen.CBUF_CHUNK) mx = s + 2 * Gen.CBUF_CHUNK := by omega
        rw [h1]
        refine ⟨⟨⟨⟨by omega, hs⟩, by omega⟩, by omega⟩, ?_⟩
        have hmod' : (s + 2 * Gen.CBUF_CHUNK + m) % Gen.CBUF_CHUNK = 0 := by
          have : s + 2 * Gen.CBUF_CHUNK + m = s + m + Gen.CBUF_CHUNK + Gen.CBUF_CHUNK := by omega
          rw [this, Nat.add_mod_right, Nat.add_mod_right]; exact hmod
        exact okFrom_stride mx m hc q (s + 2 * Gen.CBUF_CHUNK) f e (by omega) (by omega) hmod'
          (by omega) he hee (by omega)

/-- one growth step of a full buffer SMALLER than a chunk whose doubled size still fits below the next multiple:
    capacity s < C, k*C <= 2s + m < (k+1)*C, not capped: the buffer grows to (k+1)*C - m -/
theorem nextSize_small (mx m s k : Nat) (hs : s < Gen.CBUF_CHUNK) (hne : s ≠ mx)
    (hlo : k * Gen.CBUF_CHUNK ≤ s + m + s) (hhi : s + m + s < (k + 1) * Gen.CBUF_CHUNK)
    (hcap : (k + 1) * Gen.CBUF_CHUNK ≤ mx + m) :
    nextSize mx Gen.CBUF_CHUNK m s = (k + 1) * Gen.CBUF_CHUNK - m := by
  have hmin : min s Gen.CBUF_CHUNK = s := Nat.min_eq_left (by omega)
  have hmodv : (s + m + s) % Gen.CBUF_CHUNK = s + m + s - k * Gen.CBUF_CHUNK := by
    have h1 : s + m + s = (s + m + s - k * Gen.CBUF_CHUNK) + k * Gen.CBUF_CHUNK := by omega
    have h2 : s + m + s - k * Gen.CBUF_CHUNK < Gen.CBUF_CHUNK := by rw [Nat.succ_mul] at hhi; omega
    rw [h1, Nat.add_mul_mod_self_right, Nat.mod_eq_of_lt h2]
    omega
  unfold nextSize growPolicy
  simp only [hne, ↓reduceIte, hmin, hmodv]
  rw [Nat.succ_mul] at hhi hcap ⊢
  generalize k * Gen.CBUF_CHUNK = K at *
  omega

/-- THE UNIFORM CERTIFICATE, parametric in the three constants: initial size mn with 2*mn + m < C, m <= C bookkeeping
    cells, a maximum of at least 128 KiB whose distance pattern modulo 2C is 0 or >= C -/
theorem growthOkFor_uniform (mn mx m : Nat) (hc : 0 < Gen.CBUF_CHUNK) (hm : 0 < m) (hmn : 0 < mn)
    (h1 : mn + m + mn < Gen.CBUF_CHUNK) (hmx : 131072 ≤ mx) (hbig : 4 * Gen.CBUF_CHUNK ≤ mx)
    (he : (mx + m) % (2 * Gen.CBUF_CHUNK) = 0 ∨ Gen.CBUF_CHUNK ≤ (mx + m) % (2 * Gen.CBUF_CHUNK))
    (hfuel : (mx + m) / (2 * Gen.CBUF_CHUNK) + 3 ≤ mx) :
    growthOkFor mn mx m = true := by
  have hmnmx : mn ≤ mx := by omega
  -- step 1: mn -> C - m
  have hs1 : nextSize mx Gen.CBUF_CHUNK m mn = Gen.CBUF_CHUNK - m := by
    have := nextSize_small mx m mn 0 (by omega) (by omega) (by omega) (by omega) (by omega)
    simpa using this
  -- step 2: C - m -> 2C - m
  have hs2 : nextSize mx Gen.CBUF_CHUNK m (Gen.CBUF_CHUNK - m) = 2 * Gen.CBUF_CHUNK - m := by
    have := nextSize_small mx m (Gen.CBUF_CHUNK - m) 1 (by omega) (by omega) (by omega) (by omega) (by omega)
    simpa [Nat.two_mul, Nat.succ_mul] using this
  -- the stride from 2C - m
  have hdecomp := Nat.div_add_mod (mx + m) (2 * Gen.CBUF_CHUNK)
  have hlt : (mx + m) % (2 * Gen.CBUF_CHUNK) < 2 * Gen.CBUF_CHUNK := Nat.mod_lt _ (by omega)
  generalize hq : (mx + m) / (2 * Gen.CBUF_CHUNK) = q at hdecomp hfuel
  generalize he' : (mx + m) % (2 * Gen.CBUF_CHUNK) = e at hdecomp hlt he
  have hq1 : 1 ≤ q := by
    cases q with
    | zero => omega
    | succ q => omega
  obtain ⟨q', rfl⟩ : ∃ q', q = q' + 1 := ⟨q - 1, by omega⟩
  have hstride : okFrom mx Gen.CBUF_CHUNK m (mx - 2) (2 * Gen.CBUF_CHUNK - m) = true := by
    apply okFrom_stride mx m hc q' (2 * Gen.CBUF_CHUNK - m) (mx - 2) e (by omega) (by omega)
    · have : 2 * Gen.CBUF_CHUNK - m + m = Gen.CBUF_CHUNK + Gen.CBUF_CHUNK := by omega
      rw [this, Nat.add_mod_right, Nat.mod_self]
    · rw [Nat.mul_succ] at hdecomp
      rw [Nat.mul_comm q' (2 * Gen.CBUF_CHUNK)]
      generalize 2 * Gen.CBUF_CHUNK * q' = D at hdecomp ⊢
      omega
    · exact hlt
    · exact he
    · omega
  unfold growthOkFor
  simp only [Bool.and_eq_true, decide_eq_true_eq]
  refine ⟨⟨⟨⟨⟨hm, hc⟩, hmn⟩, hmnmx⟩, hmx⟩, ?_⟩
  obtain ⟨f, rfl⟩ : ∃ f, mx = f + 2 := ⟨mx - 2, by omega⟩
  have hne0 : mn ≠ f + 2 := by omega
  have hne1 : Gen.CBUF_CHUNK - m ≠ f + 2 := by omega
  have hmin0 : min mn Gen.CBUF_CHUNK = mn := Nat.min_eq_left (by omega)
  have hmin1 : min (Gen.CBUF_CHUNK - m) Gen.CBUF_CHUNK = Gen.CBUF_CHUNK - m := Nat.min_eq_left (by omega)
  unfold okFrom
  simp only [hne0, ↓reduceIte, hs1, Bool.and_eq_true, decide_eq_true_eq, hmin0]
  refine ⟨⟨⟨⟨hmn, by omega⟩, by omega⟩, by omega⟩, ?_⟩
  unfold okFrom
  simp only [hne1, ↓reduceIte, hs2, Bool.and_eq_true, decide_eq_true_eq, hmin1]
  refine ⟨⟨⟨⟨by omega, by omega⟩, by omega⟩, by omega⟩, ?_⟩
  simpa using hstride

/-- the generated constants (cbuf_create (64, 131072), CBUF_CHUNK 1000): EVERY number of bookkeeping cells from 1 to
    871 satisfies the side condition -- in particular the two build flavours that exist (1, 17) -/
theorem growthOk_of_le {m : Nat} (h1 : 1 ≤ m) (h2 : m ≤ 871) : growthOk m = true := by
  unfold growthOk
  apply growthOkFor_uniform _ _ m (by decide) h1 (by decide)
  · simp only [Gen.RELAY_CBUF_MIN, Gen.CBUF_CHUNK]; omega
  · decide
  · decide
  · right
    simp only [Gen.RELAY_CBUF_MAX, Gen.CBUF_CHUNK]; omega
  · simp only [Gen.RELAY_CBUF_MAX, Gen.CBUF_CHUNK]; omega

/-- non-vacuity: the two build flavours that exist -/
example : growthOk 1 = true ∧ growthOk 17 = true := ⟨growthOk_of_le (by decide) (by decide), growthOk_of_le (by decide) (by decide)⟩

/-- sharpness of the modular condition: with 929 bookkeeping cells the stride passes 131071 = 132000 - 929, one byte
    below the maximum, and the capped step gains 1 byte for a read of 1000 (evaluated) -/
theorem growthOk_fails_at_929 : growthOk 929 = false ∧
    firstBadStep Gen.RELAY_CBUF_MAX Gen.CBUF_CHUNK 929 4096 Gen.RELAY_CBUF_MIN = some (131071, 131072) := by
  decide +kernel

end PdshVerif.Relay
