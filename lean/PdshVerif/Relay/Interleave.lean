/-
  Many streams at once: the global run is a sequence of events, each concerning one stream
  (target index, stdout/stderr) -- a chunk arrives and that target's worker runs the handler,
  or the stream finishes (remote side closes, loop drains, `_flush_output`).  The scheduler --
  which stream moves next -- is the environment: theorems quantify over ALL event lists.

  By construction a stream's state is touched only by its own events (dsh.c: per-thread thd_t,
  per-stream cbuf; th->rc is written by the stdout handler only and never read by the relay), so
  (1) `frame`: a stream's state after any global run = its own events replayed alone, and
  (2) `log_is_shuffle`: the global sequence of stdio calls, restricted to one stream, is that
      stream's own sequence of calls, in order.
-/
import PdshVerif.Relay.Model

namespace PdshVerif.Relay

/-- a remote stream: (target index, is-stderr) -/
abbrev Key := Nat × Bool

/-- local events of one stream -/
inductive LEv where
  | feed (chunk : Bytes)
  | finish
  deriving Repr

abbrev LState (β : Type) := Stream β × Int × List Em

variable {β : Type} (ops : BufOps β) (cfg : Cfg)

/-- one event of one stream -/
def lstep (host t0host : Bytes) (strm : Nat) (readRc : Bool) (st : LState β) : LEv → LState β
  | .feed c => feedStep ops cfg host strm readRc st c
  | .finish =>
    let dr := drain ops cfg host strm readRc (st.1.pipe.length + 1) { st.1 with weof := true } st.2.1 st.2.2 0
    let fl := flushOutput ops cfg host t0host strm dr.2.2.1.buf dr.2.2.2.1
    ({ dr.2.2.1 with buf := fl.1 }, dr.2.2.2.1, dr.2.2.2.2 ++ fl.2)

/-- `runStream` is: all feeds, then finish -/
theorem runStream_eq_lsteps (host t0host : Bytes) (strm : Nat) (readRc : Bool) (b0 : β) (script : List Bytes) :
    (runStream ops cfg host t0host strm readRc b0 script).ems =
      ((script.map LEv.feed ++ [LEv.finish]).foldl (lstep ops cfg host t0host strm readRc)
        ({ buf := b0, pipe := [], weof := false, closed := false }, 0, [])).2.2 := by
  simp only [runStream, List.foldl_append, List.foldl_map, List.foldl_cons, List.foldl_nil, lstep]

/-- stdio calls never disappear from a stream's record: every local step only appends -/
structure GState (β : Type) where
  streams : Key → LState β
  log     : List (Key × Em)       -- the global sequence of stdio calls, tagged with their stream

variable (names : Nat → Bytes)

def strmNo (k : Key) : Nat := if k.2 then 2 else 1

/-- the local step of stream `k` in the global system (stdout lines go through `_extract_rc`) -/
def kstep (k : Key) : LState β → LEv → LState β :=
  lstep ops cfg (names k.1) (names 0) (strmNo k) (!k.2)

/-- one global event: stream `e.1` makes its local step; the stdio calls it makes are appended
    to the global log -/
def gstep (g : GState β) (e : Key × LEv) : GState β :=
  let st' := kstep ops cfg names e.1 (g.streams e.1) e.2
  { streams := fun k => if k = e.1 then st' else g.streams k,
    log := g.log ++ (st'.2.2.drop (g.streams e.1).2.2.length).map (fun x => (e.1, x)) }

/-- (1) frame: whatever the interleaving, a stream ends up where its own events alone lead -/
theorem frame : ∀ (evs : List (Key × LEv)) (g : GState β) (k : Key),
    (evs.foldl (gstep ops cfg names) g).streams k =
      ((evs.filter (fun e => e.1 = k)).map (·.2)).foldl (kstep ops cfg names k) (g.streams k)
  | [], _, _ => rfl
  | e :: evs, g, k => by
    simp only [List.foldl_cons]
    rw [frame evs (gstep ops cfg names g e) k]
    by_cases hk : e.1 = k
    · subst hk
      simp [gstep]
    · have hk' : ¬ k = e.1 := fun h => hk h.symm
      simp [gstep, hk, hk']

/-! ### the global sequence of stdio calls is a shuffle of the per-stream sequences -/

theorem drain_extends (host : Bytes) (strm : Nat) (readRc : Bool) :
    ∀ (fuel : Nat) (s : Stream β) (rc : Int) (acc : List Em) (k : Nat),
      ∃ e, (drain ops cfg host strm readRc fuel s rc acc k).2.2.2.2 = acc ++ e
  | 0, _, _, acc, _ => ⟨[], by simp [drain]⟩
  | fuel + 1, s, rc, acc, k => by
    unfold drain
    by_cases h : (handle ops cfg host strm readRc s rc).1 ≤ 0
    · simp only [h, ↓reduceIte]
      exact ⟨_, rfl⟩
    · simp only [h, ↓reduceIte]
      obtain ⟨e, he⟩ := drain_extends host strm readRc fuel (handle ops cfg host strm readRc s rc).2.1
        (handle ops cfg host strm readRc s rc).2.2.1 (acc ++ (handle ops cfg host strm readRc s rc).2.2.2) (k + 1)
      exact ⟨(handle ops cfg host strm readRc s rc).2.2.2 ++ e, by rw [he, List.append_assoc]⟩

/-- a local step only appends stdio calls -/
theorem lstep_extends (host t0host : Bytes) (strm : Nat) (readRc : Bool) (st : LState β) (ev : LEv) :
    ∃ e, (lstep ops cfg host t0host strm readRc st ev).2.2 = st.2.2 ++ e := by
  cases ev with
  | feed c => exact ⟨_, rfl⟩
  | finish =>
    obtain ⟨e, he⟩ := drain_extends ops cfg host strm readRc (st.1.pipe.length + 1) { st.1 with weof := true }
      st.2.1 st.2.2 0
    simp only [lstep]
    exact ⟨e ++ _, by rw [he, List.append_assoc]⟩

/-- the global log restricted to stream `k` -/
def logOf (g : GState β) (k : Key) : List Em := (g.log.filter (fun x => x.1 = k)).map (·.2)

/-- the log agrees with every stream's own record of stdio calls -/
def LogOk (g : GState β) : Prop := ∀ k, logOf g k = (g.streams k).2.2

theorem gstep_logOk (g : GState β) (e : Key × LEv) (h : LogOk g) : LogOk (gstep ops cfg names g e) := by
  intro k
  obtain ⟨x, hx⟩ := lstep_extends ops cfg (names e.1.1) (names 0) (strmNo e.1) (!e.1.2) (g.streams e.1) e.2
  have hk := h k
  unfold logOf at hk ⊢
  by_cases hke : k = e.1
  · subst hke
    simp only [gstep, kstep, hx, List.drop_left, List.filter_append, List.map_append, hk, ↓reduceIte]
    congr 1
    simp [List.filter_map, Function.comp_def]
  · have hke' : ¬ e.1 = k := fun h => hke h.symm
    simp only [gstep, kstep, hx, List.drop_left, List.filter_append, List.map_append, hk, hke, ↓reduceIte]
    simp [List.filter_map, Function.comp_def, hke']

/-- (2) for EVERY interleaving of the streams' events, the global sequence of stdio calls
    restricted to one stream is that stream's own sequence, in order: the global output is a
    shuffle of the per-stream sequences of calls -/
theorem log_is_shuffle : ∀ (evs : List (Key × LEv)) (g : GState β), LogOk g →
    LogOk (evs.foldl (gstep ops cfg names) g)
  | [], _, h => h
  | e :: evs, g, h => by
    simp only [List.foldl_cons]
    exact log_is_shuffle evs _ (gstep_logOk ops cfg names g e h)

/-- all streams fresh (buffers from `mk`), nothing written yet -/
def ginit (mk : β) : GState β :=
  { streams := fun _ => ({ buf := mk, pipe := [], weof := false, closed := false }, 0, []), log := [] }

/-- (1) + (2) + `runStream`: in ANY global run in which stream `k` receives the chunks `script`
    and then finishes (other streams doing whatever they do in between), the stdio calls of `k`
    in the global output are exactly those of `runStream` on `script` alone -/
theorem global_stream_is_runStream (mk : β) (evs : List (Key × LEv)) (k : Key) (script : List Bytes)
    (hk : (evs.filter (fun e => e.1 = k)).map (·.2) = script.map LEv.feed ++ [LEv.finish]) :
    logOf (evs.foldl (gstep ops cfg names) (ginit mk)) k =
      (runStream ops cfg (names k.1) (names 0) (strmNo k) (!k.2) mk script).ems := by
  have h1 := log_is_shuffle ops cfg names evs (ginit mk) (by intro k; simp [logOf, ginit])
  rw [h1 k, frame ops cfg names evs (ginit mk) k, hk, runStream_eq_lsteps]
  rfl

end PdshVerif.Relay
