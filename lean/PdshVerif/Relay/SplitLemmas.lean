/-
  Lemmas about the specification functions of Relay/Spec.lean (`split`, `render`, `strip`,
  `runsWithin`) and their relation to `Cbuf.Spec.afterNthNl` (what `cbuf_peek_line` computes).
-/
import PdshVerif.Relay.Spec
import PdshVerif.Cbuf.Spec

namespace PdshVerif.Relay.Spec

theorem split_nil : split [] = ([], []) := rfl

theorem split_cons_nl (bs : Bytes) : split (10 :: bs) = ([10] :: (split bs).1, (split bs).2) := by
  simp [split]

theorem split_cons_ne {b : UInt8} (h : b ≠ 10) (bs : Bytes) :
    split (b :: bs) = consFirst b (split bs) := by
  simp [split, h]

@[simp] theorem consFirst_nil (b : UInt8) (t : Bytes) : consFirst b ([], t) = ([], b :: t) := rfl
@[simp] theorem consFirst_cons (b : UInt8) (l : Bytes) (ls : List Bytes) (t : Bytes) :
    consFirst b (l :: ls, t) = ((b :: l) :: ls, t) := rfl

/-- a string without newline is all rest -/
theorem split_noNl : ∀ (t : Bytes), (∀ b ∈ t, b ≠ 10) → split t = ([], t)
  | [], _ => rfl
  | b :: bs, h => by
    have hb : b ≠ 10 := h b (by simp)
    have ih := split_noNl bs (fun c hc => h c (by simp [hc]))
    rw [split_cons_ne hb, ih]; rfl

/-- lines and rest together are the input -/
theorem split_flatten : ∀ (s : Bytes), (split s).1.flatten ++ (split s).2 = s
  | [] => rfl
  | b :: bs => by
    have ih := split_flatten bs
    by_cases hb : b = 10
    · subst hb; rw [split_cons_nl]; simp [ih]
    · rw [split_cons_ne hb]
      cases hx : split bs with
      | mk L t =>
        rw [hx] at ih
        cases L with
        | nil => simpa using ih
        | cons l ls => simpa using ih

/-- the rest has no newline -/
theorem split_rest_noNl : ∀ (s : Bytes), ∀ b ∈ (split s).2, b ≠ 10
  | [], b, hb => by simp [split] at hb
  | c :: cs, b, hb => by
    have ih := split_rest_noNl cs
    by_cases hc : c = 10
    · subst hc; rw [split_cons_nl] at hb; exact ih b hb
    · rw [split_cons_ne hc] at hb
      cases hx : split cs with
      | mk L t =>
        rw [hx] at ih hb
        cases L with
        | nil =>
          simp at hb ih
          rcases hb with rfl | hb
          · exact hc
          · exact ih b hb
        | cons l ls => simp at hb ih; exact ih b hb

/-- every line is non-empty, ends in newline and has no other newline -/
theorem split_lines_shape : ∀ (s : Bytes), ∀ l ∈ (split s).1, ∃ pre, l = pre ++ [10] ∧ ∀ b ∈ pre, b ≠ 10
  | [], l, hl => by simp [split] at hl
  | c :: cs, l, hl => by
    have ih := split_lines_shape cs
    by_cases hc : c = 10
    · subst hc; rw [split_cons_nl] at hl
      simp at hl
      rcases hl with rfl | hl
      · exact ⟨[], rfl, by simp⟩
      · exact ih l hl
    · rw [split_cons_ne hc] at hl
      cases hx : split cs with
      | mk L t =>
        rw [hx] at ih hl
        cases L with
        | nil => simp at hl
        | cons l0 ls =>
          simp at hl
          rcases hl with rfl | hl
          · obtain ⟨pre, hp, hn⟩ := ih l0 (by simp)
            refine ⟨c :: pre, by simp [hp], ?_⟩
            intro b hb; simp at hb; rcases hb with rfl | hb
            · exact hc
            · exact hn b hb
          · exact ih l (by simp [hl])

theorem split_lines_ne_nil (s : Bytes) : ∀ l ∈ (split s).1, l ≠ [] := by
  intro l hl
  obtain ⟨pre, hp, _⟩ := split_lines_shape s l hl
  simp [hp]

/-- consuming input piecewise: the lines of `x ++ y` are the lines of `x` followed by the lines
    of (rest of `x`) ++ `y` -/
theorem split_append : ∀ (x y : Bytes),
    split (x ++ y) = ((split x).1 ++ (split ((split x).2 ++ y)).1, (split ((split x).2 ++ y)).2)
  | [], y => by simp [split]
  | b :: bs, y => by
    have ih := split_append bs y
    by_cases hb : b = 10
    · subst hb
      rw [List.cons_append, split_cons_nl, split_cons_nl, ih]
      simp
    · rw [List.cons_append, split_cons_ne hb, split_cons_ne hb, ih]
      cases hx : split bs with
      | mk L t =>
        cases L with
        | nil =>
          simp only [consFirst_nil, List.nil_append, List.cons_append]
          rw [split_cons_ne hb]
        | cons l ls => simp

theorem lines_length_le : ∀ (s : Bytes), (split s).1.length ≤ s.length
  | [] => by simp [split]
  | b :: bs => by
    have ih := lines_length_le bs
    by_cases hb : b = 10
    · subst hb; rw [split_cons_nl]; simp; omega
    · rw [split_cons_ne hb]
      cases hx : split bs with
      | mk L t =>
        rw [hx] at ih
        cases L with
        | nil => simp
        | cons l ls => simp at ih ⊢; omega

theorem rest_length_le (s : Bytes) : (split s).2.length ≤ s.length := by
  have h := congrArg List.length (split_flatten s)
  simp at h; omega

/-! ### `cbuf_peek_line (cb, &c, 1, 1)` finds exactly the first line of `split` -/

open PdshVerif.Cbuf.Spec in
theorem afterNthNl_one_none : ∀ (q : Bytes), afterNthNl q 1 = none → split q = ([], q)
  | [], _ => rfl
  | b :: bs, h => by
    by_cases hb : b = 10
    · subst hb; simp [afterNthNl] at h
    · simp [afterNthNl, hb] at h
      rw [split_cons_ne hb, afterNthNl_one_none bs h]; rfl

open PdshVerif.Cbuf.Spec in
theorem afterNthNl_one_some : ∀ (q : Bytes) (n : Nat), afterNthNl q 1 = some n →
    0 < n ∧ n ≤ q.length ∧ split q = (q.take n :: (split (q.drop n)).1, (split (q.drop n)).2)
  | [], n, h => by simp [afterNthNl] at h
  | b :: bs, n, h => by
    by_cases hb : b = 10
    · subst hb
      simp [afterNthNl] at h
      subst h
      simp [split_cons_nl]
    · simp [afterNthNl, hb] at h
      obtain ⟨m, hm, rfl⟩ := h
      obtain ⟨h0, hle, hs⟩ := afterNthNl_one_some bs m hm
      refine ⟨by omega, by simp; omega, ?_⟩
      rw [split_cons_ne hb, hs]
      simp

/-! ### `runsWithin` along the input -/

theorem runsWithin_le : ∀ (s : Bytes) (max k : Nat), runsWithin max s k = true → k ≤ max
  | [], max, k, h => by simpa [runsWithin] using h
  | b :: bs, max, k, h => by
    by_cases hb : b = 10
    · subst hb; simp [runsWithin] at h; omega
    · simp [runsWithin, hb] at h
      have := runsWithin_le bs max (k + 1) h
      omega

/-- if input remains, the current line is still shorter than the bound -/
theorem runsWithin_cons_lt {a : UInt8} {r : Bytes} {max k : Nat} (h : runsWithin max (a :: r) k = true) :
    k < max := by
  by_cases ha : a = 10
  · subst ha; simp [runsWithin] at h; omega
  · simp [runsWithin, ha] at h
    have := runsWithin_le r max (k + 1) h
    omega

/-- the bound on what remains after `x` has been consumed: the current line is the rest of
    `x` (appended to the `k` bytes already there if `x` brought no newline) -/
theorem runsWithin_append : ∀ (x r : Bytes) (max k : Nat), runsWithin max (x ++ r) k = true →
    runsWithin max r (if (split x).1.isEmpty then k + (split x).2.length else (split x).2.length) = true
  | [], r, max, k, h => by simpa [split] using h
  | b :: bs, r, max, k, h => by
    by_cases hb : b = 10
    · subst hb
      simp [runsWithin] at h
      have ih := runsWithin_append bs r max 0 h.2
      rw [split_cons_nl]
      simp
      by_cases he : (split bs).1.isEmpty
      · simpa [he] using ih
      · simpa [he] using ih
    · simp [runsWithin, hb] at h
      have ih := runsWithin_append bs r max (k + 1) h
      rw [split_cons_ne hb]
      cases hx : split bs with
      | mk L t =>
        rw [hx] at ih
        cases L with
        | nil => simp at ih ⊢; rw [show k + (t.length + 1) = k + 1 + t.length by omega]; exact ih
        | cons l ls => simpa using ih

/-! ### `strip` undoes `render` -/

theorem stripAux_skip (plen : Nat) : ∀ (p rest : Bytes), stripAux plen (p ++ rest) p.length = stripAux plen rest 0
  | [], rest => by simp
  | _ :: ps, rest => by simp [stripAux, stripAux_skip plen ps rest]

/-- inside a line (no label pending): copy up to and including the newline, then expect a label -/
theorem stripAux_line (plen : Nat) : ∀ (pre rest : Bytes), (∀ b ∈ pre, b ≠ 10) →
    stripAux plen (pre ++ 10 :: rest) 0 = pre ++ 10 :: stripAux plen rest plen
  | [], rest, _ => by simp [stripAux]
  | c :: cs, rest, h => by
    have hc : c ≠ 10 := h c (by simp)
    have ih := stripAux_line plen cs rest (fun b hb => h b (by simp [hb]))
    simp [stripAux, hc, ih]

theorem stripAux_noNl (plen : Nat) : ∀ (t : Bytes), (∀ b ∈ t, b ≠ 10) → stripAux plen t 0 = t
  | [], _ => by simp [stripAux]
  | c :: cs, h => by
    have hc : c ≠ 10 := h c (by simp)
    simp [stripAux, hc, stripAux_noNl plen cs (fun b hb => h b (by simp [hb]))]

theorem strip_lines (p : Bytes) : ∀ (L : List Bytes) (rest : Bytes),
    (∀ l ∈ L, ∃ pre, l = pre ++ [10] ∧ ∀ b ∈ pre, b ≠ 10) →
    stripAux p.length (L.flatMap (p ++ ·) ++ rest) p.length = L.flatten ++ stripAux p.length rest p.length
  | [], rest, _ => by simp
  | l :: ls, rest, h => by
    obtain ⟨pre, hl, hn⟩ := h l (by simp)
    have ih := strip_lines p ls rest (fun l' hl' => h l' (by simp [hl']))
    subst hl
    simp only [List.flatMap_cons, List.append_assoc, List.flatten_cons]
    rw [stripAux_skip]
    simp only [List.cons_append, List.nil_append]
    rw [stripAux_line _ _ _ hn, ih]

/-- C05 in words: with the labels stripped, the bytes written are the bytes the command wrote -/
theorem strip_render (p s : Bytes) : strip p.length (render p s) = s := by
  unfold strip render
  rw [strip_lines p (lines s) _ (split_lines_shape s)]
  have hfl := split_flatten s
  by_cases ht : (tail s).isEmpty
  · simp only [ht, ↓reduceIte]
    have : tail s = [] := by simpa using ht
    unfold lines
    unfold tail at this
    rw [this] at hfl
    cases hp : p.length <;> simp [stripAux] <;> simpa using hfl
  · simp only [ht, Bool.false_eq_true, ↓reduceIte]
    rw [stripAux_skip]
    unfold lines tail
    rw [stripAux_noNl _ _ (split_rest_noNl s)]
    exact hfl

end PdshVerif.Relay.Spec
