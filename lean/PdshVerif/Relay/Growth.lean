/-
  THE ARITHMETIC SIDE CONDITION of relay losslessness on the constants of the code under test
  (initial size and maximum of the per-host cbufs in dsh.c `_thd_init`, `CBUF_CHUNK` and the
  bookkeeping cells of cbuf.c), as a decidable predicate -- executable, so the driver reports it
  for the regenerated constants (`pdshmodel relay growth <meta>`) and the theorems of
  Props/C05, Props/C06 take it as their only hypothesis about the constants.

  The relay reads exactly the free space of the buffer (`cbuf_write_from_fd (cb, fd, -1, ..)`), so
  the buffer grows only when it is FULL, and then the read asks for min(size, CBUF_CHUNK) bytes.
  `cbuf_grow` rounds the ALLOCATION up to the next multiple of the chunk and caps it at
  maximum + bookkeeping.  Losslessness needs: along the (deterministic) sequence of capacities the
  buffer runs through when it is filled to the brim again and again, EVERY growth step makes room
  for the read that triggers it:   s + min(s, CHUNK) <= next(s).
  The condition is about where the sequence meets the cap.  From 64 (and from 4096) the
  allocations run over the EVEN thousands, and the last step 130000 -> 131072+meta gains more
  than 1000.  From 1024 they run over the ODD thousands; the last step 131000 -> 131072+meta
  gains 72+meta bytes while up to 1000 are read: a line of 131000..131072 bytes followed by
  more output loses up to 927 of its bytes (`growthOkFor 1024 .. = false`, Props/C05).
-/
import PdshVerif.Relay.Model

namespace PdshVerif.Relay

/-- capacity after the growth step of a descriptor write into a FULL buffer of capacity `s` -/
def nextSize (mx ch sizeMeta s : Nat) : Nat := (growPolicy s (s + sizeMeta) mx (min s ch)).1

/-- every growth step from capacity `s` on makes room for the read that triggers it
    (`fuel` bounds the number of steps; running out of fuel counts as failure) -/
def okFrom (mx ch sizeMeta : Nat) : Nat → Nat → Bool
  | 0, s => decide (s = mx)
  | f + 1, s =>
    if s = mx then true
    else decide (0 < s) && decide (s < mx) && decide (s + min s ch ≤ nextSize mx ch sizeMeta s) &&
         decide (nextSize mx ch sizeMeta s ≤ mx) && okFrom mx ch sizeMeta f (nextSize mx ch sizeMeta s)

/-- the side condition for `cbuf_create (mn, mx)` with `sizeMeta` bookkeeping cells -/
def growthOkFor (mn mx sizeMeta : Nat) : Bool :=
  decide (0 < sizeMeta) &&                      -- cbuf.c always allocates one cell more than the capacity
  decide (0 < Gen.CBUF_CHUNK) && decide (0 < mn) &&
  decide (mn ≤ mx) &&
  decide (131072 ≤ mx) &&                       -- the buffer's maximum covers the property's 128 KiB lines
  okFrom mx Gen.CBUF_CHUNK sizeMeta mx mn

/-- THE SIDE CONDITION on the constants of the code under test -/
def growthOk (sizeMeta : Nat) : Bool := growthOkFor Gen.RELAY_CBUF_MIN Gen.RELAY_CBUF_MAX sizeMeta

/-- the capacities the buffer runs through (for the evidence and for the check's boundary cases) -/
def growthPath (mx ch sizeMeta : Nat) : Nat → Nat → List Nat
  | 0, s => [s]
  | f + 1, s =>
    if s ≥ mx ∨ nextSize mx ch sizeMeta s ≤ s then [s]
    else s :: growthPath mx ch sizeMeta f (nextSize mx ch sizeMeta s)

/-- the first growth step that does NOT make room for its read: (capacity, capacity afterwards) -/
def firstBadStep (mx ch sizeMeta : Nat) : Nat → Nat → Option (Nat × Nat)
  | 0, _ => none
  | f + 1, s =>
    if s ≥ mx then none
    else if s + min s ch ≤ nextSize mx ch sizeMeta s ∧ s < nextSize mx ch sizeMeta s then
      firstBadStep mx ch sizeMeta f (nextSize mx ch sizeMeta s)
    else some (s, nextSize mx ch sizeMeta s)

end PdshVerif.Relay
