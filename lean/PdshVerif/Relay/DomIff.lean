/-
  The domain predicate `runsWithin` of Relay/Spec.lean in the words of the property:
  "lines do not exceed 128 KiB" = every line, its newline included, and the final unterminated
  fragment are at most `max` bytes long.
-/
import PdshVerif.Relay.SplitLemmas

namespace PdshVerif.Relay.Spec

/-- generalised over the number `k` of bytes the current line already has -/
theorem runsWithin_iff_aux : ∀ (s : Bytes) (max k : Nat),
    runsWithin max s k = true ↔
      (((split s).1 = [] → k + (split s).2.length ≤ max) ∧
       (∀ l ls, (split s).1 = l :: ls →
          k + l.length ≤ max ∧ (∀ l' ∈ ls, l'.length ≤ max) ∧ (split s).2.length ≤ max))
  | [], max, k => by simp [runsWithin, split]
  | b :: bs, max, k => by
    by_cases hb : b = 10
    · subst hb
      have ih := runsWithin_iff_aux bs max 0
      rw [split_cons_nl]
      simp only [runsWithin, ↓reduceIte, Bool.and_eq_true, decide_eq_true_eq, ih, reduceCtorEq,
        false_imp_iff, true_and, List.cons.injEq, and_imp, Nat.zero_add]
      constructor
      · rintro ⟨h1, h2, h3⟩ l ls rfl rfl
        refine ⟨h1, ?_, ?_⟩
        · intro l' hl'
          cases hL : (split bs).1 with
          | nil => rw [hL] at hl'; cases hl'
          | cons l0 ls0 =>
            obtain ⟨a1, a2, _⟩ := h3 l0 ls0 hL
            rw [hL] at hl'
            simp only [List.mem_cons] at hl'
            rcases hl' with rfl | hl'
            · omega
            · exact a2 l' hl'
        · cases hL : (split bs).1 with
          | nil => have := h2 hL; omega
          | cons l0 ls0 => exact (h3 l0 ls0 hL).2.2
      · intro h
        obtain ⟨h1, h2, h3⟩ := h [10] (split bs).1 rfl rfl
        refine ⟨h1, fun _ => by omega, ?_⟩
        intro l0 ls0 hL
        rw [hL] at h2
        exact ⟨by have := h2 l0 (by simp); omega, fun l' hl' => h2 l' (by simp [hl']), h3⟩
    · have ih := runsWithin_iff_aux bs max (k + 1)
      rw [split_cons_ne hb]
      simp only [runsWithin, hb, ↓reduceIte, ih]
      cases hL : split bs with
      | mk L t =>
        cases L with
        | nil =>
          simp only [consFirst_nil, forall_const, List.length_cons, reduceCtorEq, false_imp_iff, and_true]
          omega
        | cons l0 ls0 =>
          simp only [consFirst_cons, reduceCtorEq, false_imp_iff, true_and, List.cons.injEq, and_imp]
          constructor
          · rintro h _ _ rfl rfl
            obtain ⟨a1, a2, a3⟩ := h l0 ls0 rfl rfl
            exact ⟨by simp only [List.length_cons]; omega, a2, a3⟩
          · rintro h _ _ rfl rfl
            obtain ⟨a1, a2, a3⟩ := h (b :: l0) ls0 rfl rfl
            exact ⟨by simp only [List.length_cons] at a1; omega, a2, a3⟩

/-- `runsWithin max s 0`: every line (with its newline) and the final fragment fit in `max` -/
theorem runsWithin_iff (s : Bytes) (max : Nat) :
    runsWithin max s 0 = true ↔ (∀ l ∈ lines s, l.length ≤ max) ∧ (tail s).length ≤ max := by
  rw [runsWithin_iff_aux]
  unfold lines tail
  cases hL : (split s).1 with
  | nil => simp
  | cons l ls =>
    simp only [reduceCtorEq, false_imp_iff, true_and, List.cons.injEq, and_imp, Nat.zero_add, List.mem_cons,
      forall_eq_or_imp]
    constructor
    · intro h
      obtain ⟨a1, a2, a3⟩ := h l ls rfl rfl
      exact ⟨⟨a1, a2⟩, a3⟩
    · rintro ⟨⟨a1, a2⟩, a3⟩ l' ls' rfl rfl
      exact ⟨a1, a2, a3⟩

end PdshVerif.Relay.Spec
