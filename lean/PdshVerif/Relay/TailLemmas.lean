/-
  The stdio calls `_flush_output` spends on the unterminated rest, measured against the
  specification's `tailOk` (C06) -- for both settings of the D6 switch `Cfg.tailSplit`.
-/
import PdshVerif.Relay.DomLemmas

namespace PdshVerif.Relay

variable (cfg : Cfg) (host : Bytes) (strm : Nat)


theorem tail_le_of (hT : Spec.wholeTailBelow ≤ Gen.RELAY_TAILBUF) {n : Nat} (h : ¬ n ≥ 8192) :
    n ≤ Gen.RELAY_TAILBUF - 1 := by
  unfold Spec.wholeTailBelow at hT; omega

/-- `Spec.tailOk` from propositions -/
theorem tailOk_intro (p t first : Bytes) (rest : List Bytes) (h1 : t ≠ []) (h2 : p <+: first)
    (h3 : first.length > p.length) (h4 : first.drop p.length ++ rest.flatten = t)
    (h5 : ∀ x ∈ rest, x ≠ []) (h6 : t.length ≥ 8192 ∨ rest = []) :
    Spec.tailOk p t (first :: rest) = true := by
  have e1 : t.isEmpty = false := by simpa using h1
  have e2 : p.isPrefixOf first = true := List.isPrefixOf_iff_prefix.mpr h2
  have e5 : rest.all (fun x => !x.isEmpty) = true := by
    rw [List.all_eq_true]; intro x hx; simpa using h5 x hx
  have e6 : (decide (t.length ≥ Spec.wholeTailBelow) || rest.isEmpty) = true := by
    rcases h6 with h | h
    · simp [Spec.wholeTailBelow, h]
    · simp [h]
  simp only [Spec.tailOk, e1, e2, e5, e6, h4, Bool.not_false, Bool.true_and, Bool.and_true, decide_eq_true_eq,
    beq_self_eq_true]
  exact h3

/-- unlabelled pieces (after the first, or all of them with -N) are admissible continuation pieces -/
theorem tailOk_plain (h8k : Spec.wholeTailBelow ≤ Gen.RELAY_TAILBUF) (fuel : Nat) (q : Bytes) (labeled : Bool)
    (hf : q.length < fuel) (h0 : ∀ b ∈ q, b ≠ 0)
    (hl : ¬ (cfg.labels = true ∧ (!labeled) = true)) :
    Spec.tailOk [] q ((tailEms cfg host strm fuel q labeled).map Em.bytes) = true := by
  obtain ⟨i1, i2, i3, i4⟩ := tailEms_plain cfg host strm fuel q labeled hf h0 hl
  cases hE : tailEms cfg host strm fuel q labeled with
  | nil =>
    rw [hE] at i1
    simp at i1
    simp [Spec.tailOk, ← i1]
  | cons e es =>
    rw [hE] at i1 i2 i3
    have hq : q ≠ [] := by
      intro h; rw [i4 h] at hE; cases hE
    have he := (i2 e (by simp)).1
    simp only [List.map_cons]
    apply tailOk_intro [] q e.bytes (es.map Em.bytes) hq (List.nil_prefix) (by simpa using List.length_pos_iff.mpr he)
      (by simpa using i1)
    · intro x hx
      simp only [List.mem_map] at hx
      obtain ⟨e', he', rfl⟩ := hx
      exact (i2 e' (by simp [he'])).1
    · by_cases hlen : q.length ≥ 8192
      · exact Or.inl hlen
      · right
        have := i3 (tail_le_of h8k hlen)
        simp at this
        simp [this]

/-- the bytes written for the rest: the prefix (if any) and the rest itself, nothing else -/
theorem tailEms_flatten (fuel : Nat) (q : Bytes) (hf : q.length < fuel) (h0 : ∀ b ∈ q, b ≠ 0) :
    ((tailEms cfg host strm fuel q false).map Em.bytes).flatten =
      (if q.isEmpty then [] else labelPrefix cfg.labels cfg.keep host ++ q) ∧
    ∀ e ∈ tailEms cfg host strm fuel q false, e.stream = strm := by
  cases fuel with
  | zero => omega
  | succ fuel =>
    unfold tailEms
    by_cases hq : q = []
    · simp [hq]
    · have hT : 0 < Gen.RELAY_TAILBUF - 1 := tailbuf_pos
      have hlen : 0 < q.length := List.length_pos_iff.mpr hq
      have hc : cstr (q.take (Gen.RELAY_TAILBUF - 1)) = q.take (Gen.RELAY_TAILBUF - 1) :=
        cstr_of_noNul _ (fun b hb => h0 b (List.mem_of_mem_take hb))
      have hqe : q.isEmpty = false := by simpa using hq
      have hdf : (q.drop (Gen.RELAY_TAILBUF - 1)).length < fuel := by simp only [List.length_drop]; omega
      have hd0 : ∀ b ∈ q.drop (Gen.RELAY_TAILBUF - 1), b ≠ 0 := fun b hb => h0 b (List.mem_of_mem_drop hb)
      simp only [hq, ↓reduceIte, hc, hqe, Bool.not_false, and_true]
      by_cases hl : cfg.labels = true
      · obtain ⟨i1, i2, _, _⟩ := tailEms_plain cfg host strm fuel _ true hdf hd0 (by simp)
        simp only [hl, ↓reduceIte]
        by_cases hs : cfg.tailSplit = true
        · simp only [hs, ↓reduceIte]
          refine ⟨by simp [i1], ?_⟩
          intro e he
          simp only [List.cons_append, List.nil_append, List.mem_cons] at he
          rcases he with rfl | rfl | he
          · rfl
          · rfl
          · exact (i2 e he).2
        · simp only [hs, Bool.false_eq_true, ↓reduceIte]
          refine ⟨by simp [i1], ?_⟩
          intro e he
          simp only [List.cons_append, List.nil_append, List.mem_cons] at he
          rcases he with rfl | he
          · rfl
          · exact (i2 e he).2
      · obtain ⟨i1, i2, _, _⟩ := tailEms_plain cfg host strm fuel _ false hdf hd0 (by simp [hl])
        simp only [hl, Bool.false_eq_true, ↓reduceIte]
        refine ⟨by simp [i1, labelPrefix], ?_⟩
        intro e he
        simp only [List.mem_cons] at he
        rcases he with rfl | he
        · rfl
        · exact (i2 e he).2

/-- REPAIRED form (`tailSplit = false`): the rest is written as the specification demands --
    one call carrying the prefix and the first piece, unlabelled continuation pieces only for a
    rest of 8 KiB or more -/
theorem tailEms_ok (h8k : Spec.wholeTailBelow ≤ Gen.RELAY_TAILBUF) (hs : cfg.tailSplit = false) (fuel : Nat) (q : Bytes)
    (hf : q.length < fuel)
    (h0 : ∀ b ∈ q, b ≠ 0) :
    Spec.tailOk (labelPrefix cfg.labels cfg.keep host) q
      ((tailEms cfg host strm fuel q false).map Em.bytes) = true := by
  by_cases hl : cfg.labels = true
  · cases fuel with
    | zero => omega
    | succ fuel =>
      unfold tailEms
      by_cases hq : q = []
      · simp [hq, Spec.tailOk]
      · have hT : 0 < Gen.RELAY_TAILBUF - 1 := tailbuf_pos
        have hlen : 0 < q.length := List.length_pos_iff.mpr hq
        have hc : cstr (q.take (Gen.RELAY_TAILBUF - 1)) = q.take (Gen.RELAY_TAILBUF - 1) :=
          cstr_of_noNul _ (fun b hb => h0 b (List.mem_of_mem_take hb))
        have hdf : (q.drop (Gen.RELAY_TAILBUF - 1)).length < fuel := by simp only [List.length_drop]; omega
        have hd0 : ∀ b ∈ q.drop (Gen.RELAY_TAILBUF - 1), b ≠ 0 := fun b hb => h0 b (List.mem_of_mem_drop hb)
        obtain ⟨i1, i2, i3, i4⟩ := tailEms_plain cfg host strm fuel _ true hdf hd0 (by simp)
        simp only [hq, ↓reduceIte, hl, Bool.not_false, and_self, hs, Bool.false_eq_true, hc,
          List.cons_append, List.nil_append, List.map_cons]
        apply tailOk_intro _ q _ _ hq (List.prefix_append _ _)
          (by simp only [List.length_append, List.length_take]; omega)
          (by rw [List.drop_left' rfl, i1]; simp)
        · intro x hx
          simp only [List.mem_map] at hx
          obtain ⟨e', he', rfl⟩ := hx
          exact (i2 e' he').1
        · by_cases hlen' : q.length ≥ 8192
          · exact Or.inl hlen'
          · right
            rw [i4 (by simp only [List.drop_eq_nil_iff]; exact tail_le_of h8k hlen')]
            rfl
  · have hp : labelPrefix cfg.labels cfg.keep host = [] := by simp [labelPrefix, hl]
    rw [hp]
    exact tailOk_plain cfg host strm h8k fuel q false hf h0 (by simp [hl])

/-- UNCHANGED form (`tailSplit = true`, defect D6): with labels on, a non-empty rest is written as
    the bare prefix by one call followed by the data by further calls -/
theorem tailEms_split (h8k : Spec.wholeTailBelow ≤ Gen.RELAY_TAILBUF) (hs : cfg.tailSplit = true) (hl : cfg.labels = true)
    (fuel : Nat) (q : Bytes)
    (hf : q.length < fuel) (h0 : ∀ b ∈ q, b ≠ 0) (hq : q ≠ []) :
    ∃ d rest, (tailEms cfg host strm fuel q false).map Em.bytes =
        labelPrefix cfg.labels cfg.keep host :: d :: rest ∧
      Spec.tailOk [] q (d :: rest) = true := by
  cases fuel with
  | zero => omega
  | succ fuel =>
    have hT : 0 < Gen.RELAY_TAILBUF - 1 := tailbuf_pos
    have hlen : 0 < q.length := List.length_pos_iff.mpr hq
    have hc : cstr (q.take (Gen.RELAY_TAILBUF - 1)) = q.take (Gen.RELAY_TAILBUF - 1) :=
      cstr_of_noNul _ (fun b hb => h0 b (List.mem_of_mem_take hb))
    have hdf : (q.drop (Gen.RELAY_TAILBUF - 1)).length < fuel := by simp only [List.length_drop]; omega
    have hd0 : ∀ b ∈ q.drop (Gen.RELAY_TAILBUF - 1), b ≠ 0 := fun b hb => h0 b (List.mem_of_mem_drop hb)
    obtain ⟨i1, i2, i3, i4⟩ := tailEms_plain cfg host strm fuel _ true hdf hd0 (by simp)
    refine ⟨q.take (Gen.RELAY_TAILBUF - 1),
      (tailEms cfg host strm fuel (q.drop (Gen.RELAY_TAILBUF - 1)) true).map Em.bytes, ?_, ?_⟩
    · rw [tailEms]
      simp [hq, hl, hs, hc, labelPrefix]
    · apply tailOk_intro [] q _ _ hq List.nil_prefix (by simp only [List.length_take, List.length_nil]; omega)
        (by rw [i1]; simp)
      · intro x hx
        simp only [List.mem_map] at hx
        obtain ⟨e', he', rfl⟩ := hx
        exact (i2 e' he').1
      · by_cases hlen' : q.length ≥ 8192
        · exact Or.inl hlen'
        · right
          rw [i4 (by simp only [List.drop_eq_nil_iff]; exact tail_le_of h8k hlen')]
          rfl

/-! ### exactly where a long rest is cut -/

/-- `q` cut into pieces of `n` bytes (the last one shorter); `fuel` bounds the number of pieces -/
def cutEvery (n : Nat) : Nat → Bytes → List Bytes
  | 0, _ => []
  | f + 1, q => if q = [] then [] else q.take n :: cutEvery n f (q.drop n)

theorem cutEvery_length_one (n : Nat) (hn : 0 < n) : ∀ (f : Nat) (q : Bytes), q.length < f → q ≠ [] →
    ((cutEvery n f q).length = 1 ↔ q.length ≤ n)
  | 0, q, h, _ => by omega
  | f + 1, q, hf, hq => by
    simp only [cutEvery, hq, ↓reduceIte, List.length_cons]
    constructor
    · intro h
      have hz : (cutEvery n f (q.drop n)).length = 0 := by omega
      by_cases hd : q.drop n = []
      · simpa using hd
      · exfalso
        cases f with
        | zero => have := List.length_pos_iff.mpr hq; omega
        | succ f => simp [cutEvery, hd] at hz
    · intro h
      have hd : q.drop n = [] := by simpa using h
      cases f with
      | zero => simp [cutEvery]
      | succ f => simp [cutEvery, hd]

/-- the unlabelled pieces (continuation pieces, or all pieces with -N) are the rest cut every
    RELAY_TAILBUF-1 bytes, exactly -/
theorem tailEms_cont_exact : ∀ (fuel : Nat) (q : Bytes) (labeled : Bool), (∀ b ∈ q, b ≠ 0) →
    ¬ (cfg.labels = true ∧ (!labeled) = true) →
    (tailEms cfg host strm fuel q labeled).map Em.bytes = cutEvery (Gen.RELAY_TAILBUF - 1) fuel q
  | 0, _, _, _, _ => by simp [tailEms, cutEvery]
  | fuel + 1, q, labeled, h0, hl => by
    unfold tailEms cutEvery
    by_cases hq : q = []
    · simp [hq]
    · have hc : cstr (q.take (Gen.RELAY_TAILBUF - 1)) = q.take (Gen.RELAY_TAILBUF - 1) :=
        cstr_of_noNul _ (fun b hb => h0 b (List.mem_of_mem_take hb))
      have hd0 : ∀ b ∈ q.drop (Gen.RELAY_TAILBUF - 1), b ≠ 0 := fun b hb => h0 b (List.mem_of_mem_drop hb)
      simp only [hq, ↓reduceIte, hl, hc, List.map_cons]
      rw [tailEms_cont_exact fuel _ labeled hd0 hl]

/-- WHAT HAPPENS TO A FINAL FRAGMENT OF ANY LENGTH (repaired form): the first stdio call carries the prefix
    and the first RELAY_TAILBUF-1 bytes, every further call the next RELAY_TAILBUF-1 bytes without a label,
    the last one what is left -/
theorem tailEms_exact (hs : cfg.tailSplit = false) (fuel : Nat) (q : Bytes) (h0 : ∀ b ∈ q, b ≠ 0) (hq : q ≠ []) :
    (tailEms cfg host strm (fuel + 1) q false).map Em.bytes =
      (labelPrefix cfg.labels cfg.keep host ++ q.take (Gen.RELAY_TAILBUF - 1)) ::
        cutEvery (Gen.RELAY_TAILBUF - 1) fuel (q.drop (Gen.RELAY_TAILBUF - 1)) := by
  have hc : cstr (q.take (Gen.RELAY_TAILBUF - 1)) = q.take (Gen.RELAY_TAILBUF - 1) :=
    cstr_of_noNul _ (fun b hb => h0 b (List.mem_of_mem_take hb))
  have hd0 : ∀ b ∈ q.drop (Gen.RELAY_TAILBUF - 1), b ≠ 0 := fun b hb => h0 b (List.mem_of_mem_drop hb)
  by_cases hl : cfg.labels = true
  · unfold tailEms
    simp only [hq, ↓reduceIte, hl, Bool.not_false, and_self, hs, Bool.false_eq_true, hc, List.cons_append,
      List.nil_append, List.map_cons]
    rw [tailEms_cont_exact cfg host strm fuel _ true hd0 (by simp)]
  · have hp : labelPrefix cfg.labels cfg.keep host = [] := by simp [labelPrefix, hl]
    have := tailEms_cont_exact cfg host strm (fuel + 1) q false h0 (by simp [hl])
    rw [this, hp]
    simp [cutEvery, hq]

end PdshVerif.Relay
