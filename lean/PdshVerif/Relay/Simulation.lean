/-
  The relay is written once over `BufOps`; this file shows that it respects simulations between
  buffer implementations: if a relation `R` between two buffer types is preserved by the three
  cbuf entry points dsh.c uses and related buffers give equal answers (`Sim`), then the two
  relays make the same stdio calls.

  USE.  The theorems of Props/C05 and Props/C06 are about `fifoOps` (FIFO specification +
  cbuf.c's request/growth policy).  The instance executed against the real code call by call is
  `indexOps` (the index-level model of cbuf.c, property C13).  `Sim indexOps fifoOps R` for a
  suitable `R` (valid cbuf whose contents/size/alloc are the FIFO's) is exactly what property
  C13 has to provide ("the index model refines `Cbuf.Spec`", plus the two scalar policy facts:
  the descriptor write returns min(request, available) and the capacity follows `growPolicy`);
  with it every C05/C06 theorem transfers to the index-level relay (`runStream_sim`).  It is
  proved in Relay/IndexSim.lean (`idx_sim`) on top of Cbuf/Refine.lean, Lines.lean, Writer.lean;
  checks/c05.py, c06.py additionally run both instances against the real code on every case.
-/
import PdshVerif.Relay.Model

namespace PdshVerif.Relay

/-- the obligations on the buffer level -/
structure Sim {β₁ β₂ : Type} (o₁ : BufOps β₁) (o₂ : BufOps β₂) (R : β₁ → β₂ → Prop) : Prop where
  wfd  : ∀ a b av eof, R a b →
    (o₁.wfd a av eof).1 = (o₂.wfd b av eof).1 ∧ R (o₁.wfd a av eof).2.2 (o₂.wfd b av eof).2.2
  peek : ∀ a b, R a b → o₁.peekLine a = o₂.peekLine b
  read : ∀ a b n, R a b →
    (o₁.read a n).1 = (o₂.read b n).1 ∧ (o₁.read a n).2.1 = (o₂.read b n).2.1 ∧
      R (o₁.read a n).2.2 (o₂.read b n).2.2
  used : ∀ a b, R a b → o₁.used a = o₂.used b

variable {β₁ β₂ : Type} {o₁ : BufOps β₁} {o₂ : BufOps β₂} {R : β₁ → β₂ → Prop}

theorem flushLines_sim (h : Sim o₁ o₂ R) (cfg : Cfg) (host : Bytes) (strm : Nat) (readRc : Bool) :
    ∀ (fuel : Nat) (a : β₁) (b : β₂) (rc : Int) (acc : List Em), R a b →
      R (flushLines o₁ cfg host strm readRc fuel a rc acc).1 (flushLines o₂ cfg host strm readRc fuel b rc acc).1 ∧
      (flushLines o₁ cfg host strm readRc fuel a rc acc).2 = (flushLines o₂ cfg host strm readRc fuel b rc acc).2
  | 0, a, b, rc, acc, hab => by simp [flushLines, hab]
  | fuel + 1, a, b, rc, acc, hab => by
    unfold flushLines
    rw [h.peek a b hab]
    by_cases h0 : o₂.peekLine b = 0
    · simp [h0, hab]
    · by_cases hneg : o₂.peekLine b < 0
      · simp [h0, hneg, hab]
      · obtain ⟨r1, r2, r3⟩ := h.read a b (o₂.peekLine b) hab
        simp only [h0, hneg, ↓reduceIte, r1, r2]
        by_cases hm0 : (o₂.read b (o₂.peekLine b)).1 = 0
        · simp only [hm0, ↓reduceIte]
          exact flushLines_sim h cfg host strm readRc fuel _ _ rc acc r3
        · by_cases hmneg : (o₂.read b (o₂.peekLine b)).1 < 0
          · simp [hm0, hmneg, r3]
          · simp only [hm0, hmneg, ↓reduceIte]
            exact flushLines_sim h cfg host strm readRc fuel _ _ _ _ r3

theorem doOutput_sim (h : Sim o₁ o₂ R) (cfg : Cfg) (host : Bytes) (strm : Nat) (readRc : Bool)
    (a : β₁) (b : β₂) (rc : Int) (avail : Bytes) (eof : Bool) (hab : R a b) :
    R (doOutput o₁ cfg host strm readRc a rc avail eof).buf (doOutput o₂ cfg host strm readRc b rc avail eof).buf ∧
    (doOutput o₁ cfg host strm readRc a rc avail eof).ret = (doOutput o₂ cfg host strm readRc b rc avail eof).ret ∧
    (doOutput o₁ cfg host strm readRc a rc avail eof).rc = (doOutput o₂ cfg host strm readRc b rc avail eof).rc ∧
    (doOutput o₁ cfg host strm readRc a rc avail eof).ems = (doOutput o₂ cfg host strm readRc b rc avail eof).ems ∧
    (doOutput o₁ cfg host strm readRc a rc avail eof).took = (doOutput o₂ cfg host strm readRc b rc avail eof).took := by
  obtain ⟨w1, w2⟩ := h.wfd a b avail eof hab
  unfold doOutput
  simp only [w1]
  by_cases hneg : (o₂.wfd b avail eof).1 < 0
  · simp [hneg, w2]
  · simp only [hneg, ↓reduceIte]
    obtain ⟨f1, f2⟩ := flushLines_sim h cfg host strm readRc (o₂.used (o₂.wfd b avail eof).2.2 + 1) _ _ rc [] w2
    rw [h.used _ _ w2]
    refine ⟨f1, trivial, ?_, ?_, trivial⟩
    · exact congrArg Prod.fst f2
    · exact congrArg Prod.snd f2

theorem tailLoop_sim (h : Sim o₁ o₂ R) (cfg : Cfg) (host : Bytes) (strm : Nat) :
    ∀ (fuel : Nat) (a : β₁) (b : β₂) (labeled : Bool) (acc : List Em), R a b →
      R (tailLoop o₁ cfg host strm fuel a labeled acc).1 (tailLoop o₂ cfg host strm fuel b labeled acc).1 ∧
      (tailLoop o₁ cfg host strm fuel a labeled acc).2 = (tailLoop o₂ cfg host strm fuel b labeled acc).2
  | 0, a, b, _, acc, hab => by simp [tailLoop, hab]
  | fuel + 1, a, b, labeled, acc, hab => by
    obtain ⟨r1, r2, r3⟩ := h.read a b ((Gen.RELAY_TAILBUF : Int) - 1) hab
    unfold tailLoop
    simp only [r1, r2]
    by_cases hn : (o₂.read b ((Gen.RELAY_TAILBUF : Int) - 1)).1 ≤ 0
    · simp [hn, r3]
    · simp only [hn, ↓reduceIte]
      by_cases hl : cfg.labels = true ∧ (!labeled) = true
      · simp only [hl, and_self, ↓reduceIte]
        by_cases hs : cfg.tailSplit = true
        · simp only [hs, ↓reduceIte]
          exact tailLoop_sim h cfg host strm fuel _ _ true _ r3
        · simp only [hs, Bool.false_eq_true, ↓reduceIte]
          exact tailLoop_sim h cfg host strm fuel _ _ true _ r3
      · simp only [hl, ↓reduceIte]
        exact tailLoop_sim h cfg host strm fuel _ _ labeled _ r3

theorem flushOutput_sim (h : Sim o₁ o₂ R) (cfg : Cfg) (host t0host : Bytes) (strm : Nat)
    (a : β₁) (b : β₂) (rc : Int) (hab : R a b) :
    R (flushOutput o₁ cfg host t0host strm a rc).1 (flushOutput o₂ cfg host t0host strm b rc).1 ∧
    (flushOutput o₁ cfg host t0host strm a rc).2 = (flushOutput o₂ cfg host t0host strm b rc).2 := by
  simp only [flushOutput]
  rw [h.used a b hab]
  obtain ⟨f1, f2⟩ := flushLines_sim h cfg t0host strm false (o₂.used b + 1) a b rc [] hab
  rw [h.used _ _ f1]
  obtain ⟨t1, t2⟩ := tailLoop_sim h cfg host strm
    (o₂.used (flushLines o₂ cfg t0host strm false (o₂.used b + 1) b rc []).1 + 1) _ _ false [] f1
  exact ⟨t1, by rw [f2, t2]⟩

/-- streams related: buffers related by `R`, everything else equal -/
def StreamRel (R : β₁ → β₂ → Prop) (s₁ : Stream β₁) (s₂ : Stream β₂) : Prop :=
  R s₁.buf s₂.buf ∧ s₁.pipe = s₂.pipe ∧ s₁.weof = s₂.weof ∧ s₁.closed = s₂.closed

theorem handle_sim (h : Sim o₁ o₂ R) (cfg : Cfg) (host : Bytes) (strm : Nat) (readRc : Bool)
    (s₁ : Stream β₁) (s₂ : Stream β₂) (rc : Int) (hs : StreamRel R s₁ s₂) :
    (handle o₁ cfg host strm readRc s₁ rc).1 = (handle o₂ cfg host strm readRc s₂ rc).1 ∧
    StreamRel R (handle o₁ cfg host strm readRc s₁ rc).2.1 (handle o₂ cfg host strm readRc s₂ rc).2.1 ∧
    (handle o₁ cfg host strm readRc s₁ rc).2.2 = (handle o₂ cfg host strm readRc s₂ rc).2.2 := by
  obtain ⟨hb, hp, hw, hc⟩ := hs
  obtain ⟨d1, d2, d3, d4, d5⟩ := doOutput_sim h cfg host strm readRc s₁.buf s₂.buf rc s₁.pipe s₁.weof hb
  unfold handle
  rw [← hp, ← hw]
  refine ⟨d2, ⟨d1, ?_, rfl, ?_⟩, ?_⟩
  · show List.drop _ _ = List.drop _ _
    rw [d5]
  · show decide _ = decide _
    rw [d2]
  · show (_, _) = (_, _)
    rw [d3, d4]

theorem drain_sim (h : Sim o₁ o₂ R) (cfg : Cfg) (host : Bytes) (strm : Nat) (readRc : Bool) :
    ∀ (fuel : Nat) (s₁ : Stream β₁) (s₂ : Stream β₂) (rc : Int) (acc : List Em) (k : Nat), StreamRel R s₁ s₂ →
      StreamRel R (drain o₁ cfg host strm readRc fuel s₁ rc acc k).2.2.1
        (drain o₂ cfg host strm readRc fuel s₂ rc acc k).2.2.1 ∧
      (drain o₁ cfg host strm readRc fuel s₁ rc acc k).2.2.2 = (drain o₂ cfg host strm readRc fuel s₂ rc acc k).2.2.2
  | 0, s₁, s₂, rc, acc, k, hs => by simp [drain, hs]
  | fuel + 1, s₁, s₂, rc, acc, k, hs => by
    obtain ⟨h1, h2, h3⟩ := handle_sim h cfg host strm readRc s₁ s₂ rc hs
    have h4 : (handle o₁ cfg host strm readRc s₁ rc).2.2.1 = (handle o₂ cfg host strm readRc s₂ rc).2.2.1 :=
      congrArg Prod.fst h3
    have h5 : (handle o₁ cfg host strm readRc s₁ rc).2.2.2 = (handle o₂ cfg host strm readRc s₂ rc).2.2.2 :=
      congrArg Prod.snd h3
    unfold drain
    simp only [h1, h4, h5]
    by_cases hr : (handle o₂ cfg host strm readRc s₂ rc).1 ≤ 0
    · simp only [hr, ↓reduceIte]
      exact ⟨h2, trivial⟩
    · simp only [hr, ↓reduceIte]
      exact drain_sim h cfg host strm readRc fuel _ _ _ _ _ h2

theorem feedFold_sim (h : Sim o₁ o₂ R) (cfg : Cfg) (host : Bytes) (strm : Nat) (readRc : Bool) :
    ∀ (script : List Bytes) (s₁ : Stream β₁) (s₂ : Stream β₂) (rc : Int) (acc : List Em), StreamRel R s₁ s₂ →
      StreamRel R (script.foldl (feedStep o₁ cfg host strm readRc) (s₁, rc, acc)).1
        (script.foldl (feedStep o₂ cfg host strm readRc) (s₂, rc, acc)).1 ∧
      (script.foldl (feedStep o₁ cfg host strm readRc) (s₁, rc, acc)).2 =
        (script.foldl (feedStep o₂ cfg host strm readRc) (s₂, rc, acc)).2
  | [], _, _, _, _, hs => ⟨hs, rfl⟩
  | c :: cs, s₁, s₂, rc, acc, hs => by
    simp only [List.foldl_cons]
    obtain ⟨hb, hp, hw, hc⟩ := hs
    have hs' : StreamRel R { s₁ with pipe := s₁.pipe ++ c } { s₂ with pipe := s₂.pipe ++ c } :=
      ⟨hb, by simp [hp], hw, hc⟩
    obtain ⟨h1, h2, h3⟩ := handle_sim h cfg host strm readRc _ _ rc hs'
    have h4 := congrArg Prod.fst h3
    have h5 := congrArg Prod.snd h3
    simp only [feedStep]
    rw [h4, h5]
    exact feedFold_sim h cfg host strm readRc cs _ _ _ _ h2

/-- the two relays make the same stdio calls and leave the same th->rc -/
theorem runStream_sim (h : Sim o₁ o₂ R) (cfg : Cfg) (host t0host : Bytes) (strm : Nat) (readRc : Bool)
    (a0 : β₁) (b0 : β₂) (h0 : R a0 b0) (script : List Bytes) :
    (runStream o₁ cfg host t0host strm readRc a0 script).ems = (runStream o₂ cfg host t0host strm readRc b0 script).ems ∧
    (runStream o₁ cfg host t0host strm readRc a0 script).rc = (runStream o₂ cfg host t0host strm readRc b0 script).rc := by
  obtain ⟨f1, f2⟩ := feedFold_sim h cfg host strm readRc script
    { buf := a0, pipe := [], weof := false, closed := false }
    { buf := b0, pipe := [], weof := false, closed := false } 0 [] ⟨h0, rfl, rfl, rfl⟩
  simp only [runStream]
  generalize List.foldl (feedStep o₁ cfg host strm readRc)
    (({ buf := a0, pipe := [], weof := false, closed := false } : Stream β₁), 0, []) script = st₁ at f1 f2 ⊢
  generalize List.foldl (feedStep o₂ cfg host strm readRc)
    (({ buf := b0, pipe := [], weof := false, closed := false } : Stream β₂), 0, []) script = st₂ at f1 f2 ⊢
  obtain ⟨s₁, rc₁, acc₁⟩ := st₁
  obtain ⟨s₂, rc₂, acc₂⟩ := st₂
  simp only [Prod.mk.injEq] at f2
  obtain ⟨rfl, rfl⟩ := f2
  obtain ⟨hb, hp, hw, hc⟩ := f1
  simp only at hb hp hw hc ⊢
  have hs' : StreamRel R { s₁ with weof := true } { s₂ with weof := true } := ⟨hb, hp, rfl, hc⟩
  obtain ⟨d1, d2⟩ := drain_sim h cfg host strm readRc (s₂.pipe.length + 1) _ _ rc₁ acc₁ 0 hs'
  have hlen : s₁.pipe.length = s₂.pipe.length := by rw [hp]
  rw [hlen]
  generalize drain o₁ cfg host strm readRc (s₂.pipe.length + 1) { s₁ with weof := true } rc₁ acc₁ 0 = dr₁ at d1 d2 ⊢
  generalize drain o₂ cfg host strm readRc (s₂.pipe.length + 1) { s₂ with weof := true } rc₁ acc₁ 0 = dr₂ at d1 d2 ⊢
  have d3 : dr₁.2.2.2.1 = dr₂.2.2.2.1 := congrArg Prod.fst d2
  have d4 : dr₁.2.2.2.2 = dr₂.2.2.2.2 := congrArg Prod.snd d2
  obtain ⟨_, g2⟩ := flushOutput_sim h cfg host t0host strm dr₁.2.2.1.buf dr₂.2.2.1.buf dr₂.2.2.2.1 d1.1
  rw [d3, d4, g2]
  exact ⟨rfl, rfl⟩

/-- the same for a stream the worker gives up on -/
theorem runAbandoned_sim (h : Sim o₁ o₂ R) (cfg : Cfg) (host t0host : Bytes) (strm : Nat) (readRc : Bool)
    (a0 : β₁) (b0 : β₂) (h0 : R a0 b0) (script : List Bytes) :
    (runAbandoned o₁ cfg host t0host strm readRc a0 script).ems =
      (runAbandoned o₂ cfg host t0host strm readRc b0 script).ems := by
  obtain ⟨f1, f2⟩ := feedFold_sim h cfg host strm readRc script
    { buf := a0, pipe := [], weof := false, closed := false }
    { buf := b0, pipe := [], weof := false, closed := false } 0 [] ⟨h0, rfl, rfl, rfl⟩
  simp only [runAbandoned]
  generalize List.foldl (feedStep o₁ cfg host strm readRc)
    (({ buf := a0, pipe := [], weof := false, closed := false } : Stream β₁), 0, []) script = st₁ at f1 f2 ⊢
  generalize List.foldl (feedStep o₂ cfg host strm readRc)
    (({ buf := b0, pipe := [], weof := false, closed := false } : Stream β₂), 0, []) script = st₂ at f1 f2 ⊢
  obtain ⟨s₁, rc₁, acc₁⟩ := st₁
  obtain ⟨s₂, rc₂, acc₂⟩ := st₂
  simp only [Prod.mk.injEq] at f2
  obtain ⟨rfl, rfl⟩ := f2
  obtain ⟨_, g2⟩ := flushOutput_sim h cfg host t0host strm s₁.buf s₂.buf rc₁ f1.1
  simp only [g2]

/-- the obligations are satisfiable (trivially, by the identity on one implementation) -/
example : Sim fifoOps fifoOps (· = ·) where
  wfd a b av eof h := by subst h; exact ⟨rfl, rfl⟩
  peek a b h := by subst h; rfl
  read a b n h := by subst h; exact ⟨rfl, rfl, rfl⟩
  used a b h := by subst h; rfl

end PdshVerif.Relay
