/-
  `xpoll()` (src/common/xpoll.c, the HAVE_POLL flavour `_poll` -- the one config.h selects) and ONE ITERATION of
  the poll / read / report loop of `_rsh_thread` (dsh.c) on top of it.

  The kernel is the environment: `KAns` = what poll(2) answers (an errno, or a return value and one `revents`
  word per entry).  `xpoll` mirrors the C: argument validation (`xfds == NULL || nfds <= 0` -> -1/EINVAL, poll(2)
  not called), `revents` of the first `nfds` entries CLEARED before anything else, XPOLLREAD/XPOLLWRITE translated
  to POLLIN/POLLOUT, the timeout handed through unchanged, a failing poll(2) handed through as -1 with the
  kernel's errno (no retry inside xpoll: the EINTR retry is the caller's, `loopIter`), on success errno = 0 and
  POLLIN -> XPOLLREAD, POLLOUT -> XPOLLWRITE, POLLERR or POLLHUP -> XPOLLERR, POLLNVAL -> XPOLLINVAL.
  All bit constants are REGENERATED (Gen/Relay.lean from xpoll.h, <poll.h>, <errno.h>).

  `loopIter` = the body of `while (xpfds[0].fd >= 0 || xpfds[1].fd >= 0)` up to the handler calls:
  command timeout before the poll -> break; xpoll; -1 with errno != EINTR -> diagnostic, break; EINTR and the
  command timed out -> break; EINTR otherwise -> continue; else the handler of stdout is called iff
  `revents & (XPOLLREAD|XPOLLERR)`, THEN the handler of stderr iff -S (`dsh_sopt`) and the same test.
  `Iter.toPEv` is the event of the worker LTS (Model.lean `pollStep`) the iteration amounts to.  The ORDER of the two
  handler calls is a parameter (`errFirst`): the properties hold for both, the check learns it from the code.

  Executed by `pdshmodel relay xpoll` against (a) the real xpoll.c over a scripted poll(2) (harness/relay_harness.c
  op `xpoll`) and (b) every poll return of every worker of the real `_rsh_thread` under the controlled scheduler
  (vlib/relay_sched.py `loop_replay`: which handlers read after the poll, IN WHICH ORDER).
-/
import PdshVerif.Relay.Model
import PdshVerif.Gen.Relay

namespace PdshVerif.Relay.XPoll
open PdshVerif PdshVerif.Relay

/-- `struct xpollfd` -/
structure XFd where
  fd      : Int
  events  : Nat
  revents : Nat
  deriving Repr, DecidableEq

/-- what poll(2) answers -/
inductive KAns where
  | fail (errno : Nat)
  | ok (rv : Int) (revs : List Nat)
  deriving Repr

/-- C's `x & mask` as a truth value -/
def has (x mask : Nat) : Bool := x &&& mask != 0

/-- `_poll`: the `events` handed to poll(2) -/
def toKEvents (ev : Nat) : Nat :=
  (if has ev Gen.XP_XPOLLREAD then Gen.XP_POLLIN else 0) |||
  (if has ev Gen.XP_XPOLLWRITE then Gen.XP_POLLOUT else 0)

/-- `_poll`: the `revents` built from the five kernel bits -/
def xlateB (i o e h n : Bool) : Nat :=
  (if i then Gen.XP_XPOLLREAD else 0) ||| (if o then Gen.XP_XPOLLWRITE else 0) |||
  (if e || h then Gen.XP_XPOLLERR else 0) ||| (if n then Gen.XP_XPOLLINVAL else 0)

def fromKRevents (r : Nat) : Nat :=
  xlateB (has r Gen.XP_POLLIN) (has r Gen.XP_POLLOUT) (has r Gen.XP_POLLERR) (has r Gen.XP_POLLHUP)
    (has r Gen.XP_POLLNVAL)

/-- entry i gets the translation of the kernel's word i (a missing word = 0: nothing reported) -/
def applyRevs : List XFd → List Nat → List XFd
  | [], _ => []
  | x :: xs, [] => { x with revents := fromKRevents 0 } :: applyRevs xs []
  | x :: xs, r :: rs => { x with revents := fromKRevents r } :: applyRevs xs rs

structure Res where
  rv     : Int
  errno  : Nat
  xfds   : List XFd
  /-- what poll(2) was called with: (fd, events) per entry and the timeout; `none` = not called -/
  passed : Option (List (Int × Nat) × Int)
  deriving Repr

def clear (x : XFd) : XFd := { x with revents := 0 }

/-- `int xpoll (struct xpollfd *xfds, int nfds, int timeout)`; `xfds = none` is the NULL pointer -/
def xpoll (xfds : Option (List XFd)) (nfds : Int) (timeout : Int) (k : KAns) : Res :=
  match xfds with
  | none => ⟨-1, Gen.XP_EINVAL, [], none⟩
  | some xs =>
    if nfds ≤ 0 then ⟨-1, Gen.XP_EINVAL, xs, none⟩
    else
      let head := (xs.take nfds.toNat).map clear
      let rest := xs.drop nfds.toNat
      let passed := (head.map fun x => (x.fd, toKEvents x.events), timeout)
      match k with
      | .fail e => ⟨-1, e, head ++ rest, some passed⟩
      | .ok rv revs => ⟨rv, 0, applyRevs head revs ++ rest, some passed⟩

/-! ### one iteration of the loop in `_rsh_thread` -/

inductive Iter where
  | timeoutBefore            -- `_thd_command_timeout` before the poll: "command timeout", DSH_FAILED, SIGTERM, break
  | pollFailed               -- xpoll = -1, errno != EINTR: "xpoll: %m", DSH_FAILED, SIGTERM, break
  | timeoutInPoll            -- EINTR and the command timed out: "command timeout", DSH_FAILED, SIGTERM, break
  | again                    -- EINTR, "interrupted by spurious signal": continue
  | dispatch (o e : Bool)    -- handler of stdout called iff o, THEN handler of stderr iff e
  deriving Repr, DecidableEq

/-- "ready or closed ?" -/
def reported (x : XFd) : Bool := has x.revents (Gen.XP_XPOLLREAD ||| Gen.XP_XPOLLERR)

/-- the two entries as `_rsh_thread` keeps them: `events = POLLIN` (sic: the kernel's constant), fd = -1 once the
    handler has returned <= 0 (and for stderr without -S) -/
def dshFds (fdO fdE : Int) (staleO staleE : Nat) : List XFd :=
  [⟨fdO, Gen.XP_POLLIN, staleO⟩, ⟨fdE, Gen.XP_POLLIN, staleE⟩]

def loopIter (sopt tBefore tAfter : Bool) (fdO fdE : Int) (staleO staleE : Nat) (k : KAns) : Iter × Option Res :=
  if tBefore then (.timeoutBefore, none)
  else
    let r := xpoll (some (dshFds fdO fdE staleO staleE)) (if sopt then 2 else 1) (-1) k
    if r.rv = -1 then
      if r.errno ≠ Gen.XP_EINTR then (.pollFailed, some r)
      else if tAfter then (.timeoutInPoll, some r)
      else (.again, some r)
    else
      (.dispatch ((r.xfds[0]?.map reported).getD false) (sopt && (r.xfds[1]?.map reported).getD false), some r)

/-- the handlers an iteration calls, in call order (false = stdout, true = stderr).  `errFirst` = the order of the
    two "ready or closed ?" blocks in the code under test: dsh.c has stdout's first (`false`); the properties hold
    for either order, so the order is LEARNT from the code under test on every run (a harmless swap stays silent)
    and then checked at every poll return -/
def Iter.calls (errFirst : Bool) : Iter → List Bool
  | .dispatch o e =>
    if errFirst then (if e then [true] else []) ++ (if o then [false] else [])
    else (if o then [false] else []) ++ (if e then [true] else [])
  | _ => []

/-- the worker-LTS event an iteration amounts to (`capO`, `capE`: what the read(2) of each handler call
    delivers at most -- the environment's choice); `none` = the loop is left -/
def Iter.toPEv (errFirst : Bool) (capO capE : Option Nat) : Iter → Option PEv
  | .dispatch o e =>
    if errFirst then some (.pollRev (if o then some capO else none) (if e then some capE else none))
    else some (.poll (if o then some capO else none) (if e then some capE else none))
  | .again => some .eintr
  | _ => none

/-! ### facts -/

/-- THE TRANSLATION TABLE, as far as the relay depends on it: an entry passes dsh.c's test
    `revents & (XPOLLREAD|XPOLLERR)` exactly when the kernel said readable, error or hang-up
    (a `decide`d fact about the regenerated bit constants: 32 combinations of the five kernel bits) -/
theorem xlateB_reported : ∀ i o e h n : Bool,
    has (xlateB i o e h n) (Gen.XP_XPOLLREAD ||| Gen.XP_XPOLLERR) = (i || e || h) := by decide

theorem reported_iff (fd : Int) (ev r : Nat) :
    reported ⟨fd, ev, fromKRevents r⟩ =
      (has r Gen.XP_POLLIN || has r Gen.XP_POLLERR || has r Gen.XP_POLLHUP) := by
  simp only [reported, fromKRevents]
  exact xlateB_reported _ _ _ _ _

/-- nothing reported by the kernel = nothing reported by xpoll -/
theorem fromKRevents_zero : fromKRevents 0 = 0 := by decide

/-- dsh.c asks with the kernel's POLLIN where xpoll expects XPOLLREAD: the same request (the constants agree) -/
theorem dsh_events_ask_for_read : toKEvents Gen.XP_POLLIN = Gen.XP_POLLIN := by decide

/-- stale `revents` never matter: xpoll clears them first -/
theorem xpoll_ignores_stale (xs : List XFd) (nfds : Int) (hn : xs.length ≤ nfds.toNat) (timeout : Int) (k : KAns) :
    xpoll (some xs) nfds timeout k = xpoll (some (xs.map clear)) nfds timeout k ∨ nfds ≤ 0 := by
  by_cases h0 : nfds ≤ 0
  · exact Or.inr h0
  · left
    have h1 : xs.take nfds.toNat = xs := List.take_of_length_le hn
    have h2 : (xs.map clear).take nfds.toNat = xs.map clear := List.take_of_length_le (by simpa using hn)
    have h3 : xs.drop nfds.toNat = [] := List.drop_of_length_le hn
    have h4 : (xs.map clear).drop nfds.toNat = [] := List.drop_of_length_le (by simpa using hn)
    have hc : ∀ x : XFd, clear (clear x) = clear x := fun _ => rfl
    simp only [xpoll, h0, ↓reduceIte, h1, h2, h3, h4, List.map_map]
    have : (clear ∘ clear) = clear := funext hc
    rw [this]

/-- return value and errno: invalid arguments never reach poll(2); a failing poll(2) comes back as -1 with the
    kernel's errno (NO retry inside xpoll); success comes back with the kernel's count and errno = 0 -/
theorem xpoll_rv_errno (xs : List XFd) (nfds timeout : Int) :
    (nfds ≤ 0 → ∀ k, (xpoll (some xs) nfds timeout k).rv = -1 ∧ (xpoll (some xs) nfds timeout k).errno = Gen.XP_EINVAL ∧
        (xpoll (some xs) nfds timeout k).passed = none ∧ (xpoll (some xs) nfds timeout k).xfds = xs) ∧
    (0 < nfds → ∀ e, (xpoll (some xs) nfds timeout (.fail e)).rv = -1 ∧ (xpoll (some xs) nfds timeout (.fail e)).errno = e) ∧
    (0 < nfds → ∀ rv revs, (xpoll (some xs) nfds timeout (.ok rv revs)).rv = rv ∧
        (xpoll (some xs) nfds timeout (.ok rv revs)).errno = 0) ∧
    (0 < nfds → ∀ k, ∃ p, (xpoll (some xs) nfds timeout k).passed = some (p, timeout)) := by
  refine ⟨fun h k => ?_, fun h e => ?_, fun h rv revs => ?_, fun h k => ?_⟩
  · simp [xpoll, h]
  · have : ¬ nfds ≤ 0 := by omega
    simp [xpoll, this]
  · have : ¬ nfds ≤ 0 := by omega
    simp [xpoll, this]
  · have : ¬ nfds ≤ 0 := by omega
    cases k <;> simp [xpoll, this]

/-- ONE ITERATION, the normal case: poll(2) answered with the words `r0`, `r1` -- the handler of stdout is called
    iff the kernel said readable / error / hang-up on it, the handler of stderr iff -S and the same on stderr;
    whatever `revents` held before and whatever the return count says -/
theorem loopIter_dispatch (sopt tAfter : Bool) (fdO fdE : Int) (staleO staleE : Nat) (rv : Int) (hrv : rv ≠ -1)
    (r0 r1 : Nat) (rest : List Nat) :
    (loopIter sopt false tAfter fdO fdE staleO staleE (.ok rv (r0 :: r1 :: rest))).1 =
      .dispatch (has r0 Gen.XP_POLLIN || has r0 Gen.XP_POLLERR || has r0 Gen.XP_POLLHUP)
        (sopt && (has r1 Gen.XP_POLLIN || has r1 Gen.XP_POLLERR || has r1 Gen.XP_POLLHUP)) := by
  cases sopt
  · simp only [loopIter, Bool.false_eq_true, ↓reduceIte, xpoll, dshFds, Int.reduceLE, Int.toNat_one,
      List.take_succ_cons, List.take_zero, List.map_cons, List.map_nil, List.drop_succ_cons, List.drop_zero, applyRevs,
      List.cons_append, List.nil_append, hrv, List.getElem?_cons_zero, Option.map_some, Option.getD_some,
      Bool.false_and, clear]
    rw [reported_iff]
  · have h2 : (2 : Int).toNat = 2 := rfl
    simp only [loopIter, Bool.false_eq_true, ↓reduceIte, xpoll, dshFds, Int.reduceLE, h2,
      List.take_succ_cons, List.take_zero, List.map_cons, List.map_nil, List.drop_succ_cons, List.drop_zero, applyRevs,
      List.cons_append, List.nil_append, List.append_nil, hrv, List.getElem?_cons_zero, List.getElem?_cons_succ,
      Option.map_some, Option.getD_some, Bool.true_and, clear]
    rw [reported_iff, reported_iff]

/-- an interrupted poll is retried by the LOOP (not by xpoll) unless the command has timed out; any other error ends
    the loop -/
theorem loopIter_error (sopt tAfter : Bool) (fdO fdE : Int) (staleO staleE : Nat) (e : Nat) :
    (loopIter sopt false tAfter fdO fdE staleO staleE (.fail e)).1 =
      if e ≠ Gen.XP_EINTR then .pollFailed else if tAfter then .timeoutInPoll else .again := by
  cases sopt <;> simp only [loopIter, xpoll, Bool.false_eq_true, ↓reduceIte, Int.reduceLE] <;>
    split <;> (try split) <;> rfl

/-- the handlers of one iteration: at most one call each; both = in the order of the code (stdout's first in dsh.c) -/
theorem calls_ordered (errFirst : Bool) (it : Iter) :
    it.calls errFirst = [] ∨ it.calls errFirst = [false] ∨ it.calls errFirst = [true] ∨
      it.calls errFirst = (if errFirst then [true, false] else [false, true]) := by
  cases it with
  | dispatch o e => cases o <;> cases e <;> cases errFirst <;> simp [Iter.calls]
  | _ => simp [Iter.calls]

end PdshVerif.Relay.XPoll
