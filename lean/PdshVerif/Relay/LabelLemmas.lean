/-
  Labels: err.c `%S` + the domain loop of dsh() + -K  =  the label rule of property C06.
-/
import PdshVerif.Relay.DomLemmas

namespace PdshVerif.Relay

/-- domain of the label statements: a C string shorter than err.c's `tmpstr[LINEBUFSIZE]` -/
def NameOk (h : Bytes) : Prop := (∀ b ∈ h, b ≠ 0) ∧ h.length < Gen.LINEBUFSIZE

theorem domainOf_eq_domOf (h : Bytes) (h0 : ∀ b ∈ h, b ≠ 0) : domainOf h = Spec.domOf h := by
  unfold domainOf Spec.domOf
  rw [cstr_of_noNul h h0]

/-- once a first domain `d0` is known the loop reports whether a later target has another one -/
theorem domainLoop_some : ∀ (hs : List Bytes) (d0 : Bytes),
    domainLoop hs (some d0) = true ↔ ∃ b ∈ hs, ∃ d, domainOf b = some d ∧ d ≠ d0
  | [], d0 => by simp [domainLoop]
  | h :: hs, d0 => by
    have ih := domainLoop_some hs d0
    unfold domainLoop
    cases hd : domainOf h with
    | none =>
      simp only [ih, List.mem_cons, exists_eq_or_imp, hd]
      simp
    | some d =>
      simp only [List.mem_cons, exists_eq_or_imp, hd, Option.some.injEq, exists_eq_left']
      by_cases hne : d = d0
      · subst hne; simp [ih]
      · simp [hne]

/-- the loop of dsh() decides exactly "two targets carry different domains" -/
theorem domainLoop_none : ∀ (hs : List Bytes),
    domainLoop hs none = true ↔
      ∃ a ∈ hs, ∃ b ∈ hs, ∃ da db, domainOf a = some da ∧ domainOf b = some db ∧ da ≠ db
  | [] => by simp [domainLoop]
  | h :: hs => by
    have ih := domainLoop_none hs
    unfold domainLoop
    cases hd : domainOf h with
    | none =>
      simp only [ih]
      constructor
      · rintro ⟨a, ha, b, hb, da, db, h1, h2, h3⟩
        exact ⟨a, by simp [ha], b, by simp [hb], da, db, h1, h2, h3⟩
      · rintro ⟨a, ha, b, hb, da, db, h1, h2, h3⟩
        simp only [List.mem_cons] at ha hb
        rcases ha with rfl | ha
        · rw [hd] at h1; cases h1
        · rcases hb with rfl | hb
          · rw [hd] at h2; cases h2
          · exact ⟨a, ha, b, hb, da, db, h1, h2, h3⟩
    | some d =>
      simp only [domainLoop_some]
      constructor
      · rintro ⟨b, hb, db, h2, h3⟩
        exact ⟨h, by simp, b, by simp [hb], d, db, hd, h2, fun e => h3 e.symm⟩
      · rintro ⟨a, ha, b, hb, da, db, h1, h2, h3⟩
        simp only [List.mem_cons] at ha hb
        by_cases hda : da = d
        · -- then b's domain differs from d, so b is not h
          have hdb : db ≠ d := fun e => h3 (hda.trans e.symm)
          rcases hb with rfl | hb
          · rw [hd] at h2; cases h2; exact absurd rfl hdb
          · exact ⟨b, hb, db, h2, hdb⟩
        · rcases ha with rfl | ha
          · rw [hd] at h1; cases h1; exact absurd rfl hda
          · exact ⟨a, ha, da, h1, hda⟩

theorem spansDomains_iff (ts : List Bytes) :
    Spec.spansDomains ts = true ↔
      ∃ a ∈ ts, ∃ b ∈ ts, ∃ da db, Spec.domOf a = some da ∧ Spec.domOf b = some db ∧ da ≠ db := by
  unfold Spec.spansDomains
  simp only [List.any_eq_true, Bool.and_eq_true, decide_eq_true_eq]
  constructor
  · rintro ⟨a, ha, b, hb, ⟨h1, h2⟩, h3⟩
    obtain ⟨da, hda⟩ := Option.isSome_iff_exists.mp h1
    obtain ⟨db, hdb⟩ := Option.isSome_iff_exists.mp h2
    exact ⟨a, ha, b, hb, da, db, hda, hdb, fun e => h3 (by rw [hda, hdb, e])⟩
  · rintro ⟨a, ha, b, hb, da, db, h1, h2, h3⟩
    exact ⟨a, ha, b, hb, ⟨by simp [h1], by simp [h2]⟩, by rw [h1, h2]; simpa using h3⟩

/-- dsh()'s loop = the property's "targets span different domains" -/
theorem domainLoop_eq_spans (ts : List Bytes) (h0 : ∀ t ∈ ts, ∀ b ∈ t, b ≠ 0) :
    domainLoop ts none = Spec.spansDomains ts := by
  rw [Bool.eq_iff_iff, domainLoop_none, spansDomains_iff]
  constructor
  · rintro ⟨a, ha, b, hb, da, db, h1, h2, h3⟩
    exact ⟨a, ha, b, hb, da, db, by rw [← domainOf_eq_domOf a (h0 a ha)]; exact h1,
      by rw [← domainOf_eq_domOf b (h0 b hb)]; exact h2, h3⟩
  · rintro ⟨a, ha, b, hb, da, db, h1, h2, h3⟩
    exact ⟨a, ha, b, hb, da, db, by rw [domainOf_eq_domOf a (h0 a ha)]; exact h1,
      by rw [domainOf_eq_domOf b (h0 b hb)]; exact h2, h3⟩

/-- `%S` of err.c with the flag as dsh()/opt.c leave it = the label of the property -/
theorem fmtS_eq_labelOf (optK : Bool) (ts : List Bytes) (h : Bytes) (hn : NameOk h)
    (h0 : ∀ t ∈ ts, ∀ b ∈ t, b ≠ 0) :
    fmtS (keepDomain optK ts) h = Spec.labelOf optK ts h := by
  obtain ⟨hnul, hlen⟩ := hn
  unfold fmtS Spec.labelOf keepDomain
  rw [cstr_of_noNul h hnul, domainLoop_eq_spans ts h0]
  have htake : List.take (Gen.LINEBUFSIZE - 1) h = h := by
    apply List.take_of_length_le; omega
  simp only [htake]
  have hd : (h.head?.map isDigitB).getD false = Spec.startsWithDigit h := by
    cases h with
    | nil => rfl
    | cons c cs => simp [Spec.startsWithDigit, isDigitB]
  rw [hd, Bool.or_assoc]

theorem labelPrefix_eq_recPrefix (labels optK : Bool) (ts : List Bytes) (h : Bytes) (hn : NameOk h)
    (h0 : ∀ t ∈ ts, ∀ b ∈ t, b ≠ 0) :
    labelPrefix labels (keepDomain optK ts) h = Spec.recPrefix labels optK ts h := by
  unfold labelPrefix Spec.recPrefix
  rw [fmtS_eq_labelOf optK ts h hn h0]
  rfl

end PdshVerif.Relay
