/-
  The relay over `fifoOps` along a whole read script: the invariant of the handler calls, the
  drain loop, the final flush, and the resulting closed form of the list of stdio calls
  (`runStream_fifo`).
-/
import PdshVerif.Relay.FifoLemmas

namespace PdshVerif.Relay
open PdshVerif.Relay.Spec (split)

variable (cfg : Cfg) (host : Bytes) (strm : Nat) (readRc : Bool)

/-- (th->rc, stdio calls) once the complete lines of the consumed input `x` have been flushed -/
def afterLines (x : Bytes) : Int × List Em :=
  (split x).1.foldl (lineStep cfg host strm readRc) (0, [])

theorem foldl_lineStep_acc : ∀ (L : List Bytes) (rc : Int) (acc : List Em),
    L.foldl (lineStep cfg host strm readRc) (rc, acc) =
      ((L.foldl (lineStep cfg host strm readRc) (rc, [])).1,
       acc ++ (L.foldl (lineStep cfg host strm readRc) (rc, [])).2)
  | [], rc, acc => by simp
  | l :: ls, rc, acc => by
    simp only [List.foldl_cons, lineStep, List.nil_append]
    rw [foldl_lineStep_acc ls _ (acc ++ _), foldl_lineStep_acc ls _ (emitLine cfg host strm readRc rc l).2]
    simp

/-- one `_do_output` on a buffer that holds the unterminated rest of the consumed input `x` -/
theorem doOutput_fifo {sizeMeta : Nat} {b : PBuf} {x : Bytes}
    {rc : Int} {acc : List Em} (hi : BufInv sizeMeta b) (hq : b.f.q = (split x).2)
    (hout : (rc, acc) = afterLines cfg host strm readRc x)
    (avail : Bytes) (eof : Bool) (hroom : avail ≠ [] → b.f.q.length < 131072) :
    ∃ k : Nat, k ≤ avail.length ∧ (avail ≠ [] → 0 < k) ∧
      (doOutput fifoOps cfg host strm readRc b rc avail eof).took = k ∧
      (doOutput fifoOps cfg host strm readRc b rc avail eof).ret =
        (if avail.isEmpty then (if eof then 0 else 1) else (k : Int)) ∧
      BufInv sizeMeta (doOutput fifoOps cfg host strm readRc b rc avail eof).buf ∧
      (doOutput fifoOps cfg host strm readRc b rc avail eof).buf.f.q = (split (x ++ avail.take k)).2 ∧
      ((doOutput fifoOps cfg host strm readRc b rc avail eof).rc,
        acc ++ (doOutput fifoOps cfg host strm readRc b rc avail eof).ems) =
        afterLines cfg host strm readRc (x ++ avail.take k) := by
  obtain ⟨k, hw, hk0, hkle, hinv⟩ := wfd_fifo hi avail eof hroom
  have hsplit := Spec.split_append x (avail.take k)
  have hqa : (b.after avail k).f.q = (split x).2 ++ avail.take k := by simp [PBuf.after, hq]
  have hfold : ∀ L' : List Bytes,
      (split x).1.foldl (lineStep cfg host strm readRc) (0, []) = (rc, acc) →
      ((split x).1 ++ L').foldl (lineStep cfg host strm readRc) (0, []) =
        ((L'.foldl (lineStep cfg host strm readRc) (rc, [])).1,
          acc ++ (L'.foldl (lineStep cfg host strm readRc) (rc, [])).2) := by
    intro L' h
    rw [List.foldl_append, h, foldl_lineStep_acc]
  have hout' : (split x).1.foldl (lineStep cfg host strm readRc) (0, []) = (rc, acc) := by
    simpa [afterLines] using hout.symm
  refine ⟨k, hkle, hk0, ?_⟩
  unfold doOutput
  have hwf : fifoOps.wfd b avail eof = PBuf.wfd b avail eof := rfl
  rw [hwf, hw]
  cases avail with
  | nil =>
    have hk : k = 0 := by simpa using hkle
    subst hk
    have hnl : split ((split x).2) = ([], (split x).2) := Spec.split_noNl _ (Spec.split_rest_noNl x)
    have hxa : x ++ List.take 0 ([] : Bytes) = x := by simp
    cases eof with
    | false =>
      simp only [List.isEmpty_nil, ↓reduceIte, Bool.false_eq_true]
      have : ((-1 : Int) < 0) := by decide
      simp only [this, ↓reduceIte, hxa, List.append_nil]
      refine ⟨(by first | rfl | trivial | simp), (by first | rfl | trivial | simp), hinv, ?_, ?_⟩
      · simp [PBuf.after, hq]
      · exact hout
    | true =>
      simp only [List.isEmpty_nil, ↓reduceIte]
      have : ¬ ((0 : Int) < 0) := by decide
      simp only [this, ↓reduceIte, hxa]
      have hfl := flushLines_fifo cfg host strm readRc (fifoOps.used (b.after [] 0) + 1) (b.after [] 0) rc []
        (by rw [hqa]; simp [hnl])
      rw [hfl, hqa]
      simp only [List.take_nil, List.append_nil, hnl, List.foldl_nil]
      refine ⟨(by first | rfl | trivial | simp), (by first | rfl | trivial | simp), ?_, by simp, ?_⟩
      · have := hinv
        refine ⟨this.max, this.mode, this.alloc, ?_, this.pos, this.chunk, this.line, this.ok⟩
        have hf := this.fits
        simp [PBuf.after, hq] at hf ⊢
        exact hf
      · simpa using hout
  | cons a r =>
    have hk0' := hk0 (by simp)
    have hneg : ¬ ((k : Int) < 0) := by omega
    simp only [List.isEmpty_cons, Bool.false_eq_true, ↓reduceIte, hneg]
    have hfl := flushLines_fifo cfg host strm readRc (fifoOps.used (b.after (a :: r) k) + 1)
      (b.after (a :: r) k) rc []
      (by
        have := Spec.lines_length_le (b.after (a :: r) k).f.q
        show _ < (b.after (a :: r) k).f.q.length + 1
        omega)
    rw [hfl, hqa]
    refine ⟨by simp, (by first | rfl | trivial | simp), ?_, ?_, ?_⟩
    · refine ⟨hinv.max, hinv.mode, hinv.alloc, ?_, hinv.pos, hinv.chunk, hinv.line, hinv.ok⟩
      have hf := hinv.fits
      have hr := Spec.rest_length_le ((split x).2 ++ List.take k (a :: r))
      rw [hqa] at hf
      simp only [PBuf.setQ_q, PBuf.setQ_size]
      omega
    · simp [hsplit]
    · simp only [afterLines, hsplit]
      rw [hfold _ hout']

/-- the consequence of the domain of C05 the relay needs: while input remains, the current
    (unterminated) line is still shorter than the buffer's maximum -/
def Room (S : Bytes) : Prop := ∀ x y : Bytes, x ++ y = S → y ≠ [] → (split x).2.length < 131072

theorem room_of_runsWithin {S : Bytes} (h : Spec.runsWithin Spec.maxLine S 0 = true) : Room S := by
  intro x y hxy hy
  subst hxy
  have h2 := Spec.runsWithin_append x y Spec.maxLine 0 h
  have h3 : Spec.runsWithin Spec.maxLine y (split x).2.length = true := by
    by_cases he : (split x).1.isEmpty <;> simpa [he] using h2
  cases y with
  | nil => exact absurd rfl hy
  | cons a r => exact Spec.runsWithin_cons_lt h3

/-- invariant of the read loop; `fed` = everything the remote side has written so far, `x` =
    the part of it already read into the buffer -/
def RunInv (sizeMeta : Nat) (fed : Bytes) (st : Stream PBuf × Int × List Em) : Prop :=
  ∃ x : Bytes, x ++ st.1.pipe = fed ∧ BufInv sizeMeta st.1.buf ∧ st.1.buf.f.q = (split x).2 ∧
    (st.2.1, st.2.2) = afterLines cfg host strm readRc x

/-- one handler call -/
theorem handle_fifo {sizeMeta : Nat} {S fed fut : Bytes}
    (hS : fed ++ fut = S) (hroom : Room S) {s : Stream PBuf} {rc : Int} {acc : List Em}
    (hinv : RunInv cfg host strm readRc sizeMeta fed (s, rc, acc)) :
    RunInv cfg host strm readRc sizeMeta fed
      ((handle fifoOps cfg host strm readRc s rc).2.1, (handle fifoOps cfg host strm readRc s rc).2.2.1,
        acc ++ (handle fifoOps cfg host strm readRc s rc).2.2.2) ∧
    (handle fifoOps cfg host strm readRc s rc).2.1.weof = s.weof ∧
    (s.pipe ≠ [] → (handle fifoOps cfg host strm readRc s rc).2.1.pipe.length < s.pipe.length ∧
                   0 < (handle fifoOps cfg host strm readRc s rc).1) ∧
    (s.pipe = [] → (handle fifoOps cfg host strm readRc s rc).2.1.pipe = [] ∧
                   (handle fifoOps cfg host strm readRc s rc).1 = (if s.weof then 0 else 1)) := by
  obtain ⟨x, hx, hb, hq, hout⟩ := hinv
  simp only at hx hb hq hout
  have hr : s.pipe ≠ [] → s.buf.f.q.length < 131072 := by
    intro hp
    rw [hq]
    apply hroom x (s.pipe ++ fut) (by rw [← List.append_assoc, hx, hS]) (by simp [hp])
  obtain ⟨k, hkle, hk0, htook, hret, hinv', hq', hout'⟩ :=
    doOutput_fifo cfg host strm readRc hb hq hout s.pipe s.weof hr
  unfold handle
  simp only [htook, hret]
  refine ⟨⟨x ++ s.pipe.take k, ?_, hinv', hq', hout'⟩, (by first | rfl | trivial), ?_, ?_⟩
  · simp only [List.append_assoc, List.take_append_drop]; exact hx
  · intro hp
    have := hk0 hp
    have hne : s.pipe.isEmpty = false := by simpa using hp
    have hl : 0 < s.pipe.length := List.length_pos_iff.mpr hp
    simp only [List.length_drop, hne]
    constructor
    · omega
    · simp; omega
  · intro hp
    simp [hp]

theorem feedStep_fifo {sizeMeta : Nat} {S : Bytes} (hroom : Room S) :
    ∀ (post : List Bytes) (st : Stream PBuf × Int × List Em) (fed : Bytes),
      fed ++ post.flatten = S → RunInv cfg host strm readRc sizeMeta fed st → st.1.weof = false →
      RunInv cfg host strm readRc sizeMeta S (post.foldl (feedStep fifoOps cfg host strm readRc) st) ∧
      (post.foldl (feedStep fifoOps cfg host strm readRc) st).1.weof = false
  | [], st, fed, hS, hinv, hw => by
    simp at hS; subst hS; exact ⟨hinv, hw⟩
  | chunk :: post, st, fed, hS, hinv, hw => by
    simp only [List.foldl_cons]
    have hS' : (fed ++ chunk) ++ post.flatten = S := by simpa using hS
    have hinv0 : RunInv cfg host strm readRc sizeMeta (fed ++ chunk)
        ({ st.1 with pipe := st.1.pipe ++ chunk }, st.2.1, st.2.2) := by
      obtain ⟨x, hx, hb, hq, hout⟩ := hinv
      exact ⟨x, by simp only [← List.append_assoc, hx], hb, hq, hout⟩
    obtain ⟨h1, h2, _, _⟩ := handle_fifo cfg host strm readRc hS' hroom hinv0
    exact feedStep_fifo hroom post _ (fed ++ chunk) hS' h1 (by simpa [feedStep, hw] using h2)

/-- the drain loop after the remote side closed: everything written gets read -/
theorem drain_fifo {sizeMeta : Nat} {S : Bytes} (hroom : Room S) :
    ∀ (fuel : Nat) (s : Stream PBuf) (rc : Int) (acc : List Em) (k : Nat),
      s.pipe.length < fuel → s.weof = true → RunInv cfg host strm readRc sizeMeta S (s, rc, acc) →
      RunInv cfg host strm readRc sizeMeta S
        ((drain fifoOps cfg host strm readRc fuel s rc acc k).2.2.1,
         (drain fifoOps cfg host strm readRc fuel s rc acc k).2.2.2.1,
         (drain fifoOps cfg host strm readRc fuel s rc acc k).2.2.2.2) ∧
      (drain fifoOps cfg host strm readRc fuel s rc acc k).2.2.1.pipe = []
  | 0, _, _, _, _, h, _, _ => by omega
  | fuel + 1, s, rc, acc, k, hf, hw, hinv => by
    obtain ⟨h1, h2, h3, h4⟩ := handle_fifo cfg host strm readRc (fut := []) (by simp) hroom hinv
    unfold drain
    by_cases hp : s.pipe = []
    · obtain ⟨h5, h6⟩ := h4 hp
      have : (handle fifoOps cfg host strm readRc s rc).1 ≤ 0 := by rw [h6, hw]; simp
      simp only [this, ↓reduceIte]
      exact ⟨h1, h5⟩
    · obtain ⟨h5, h6⟩ := h3 hp
      have : ¬ (handle fifoOps cfg host strm readRc s rc).1 ≤ 0 := by omega
      simp only [this, ↓reduceIte]
      exact drain_fifo hroom fuel _ _ _ _ (Nat.lt_of_lt_of_le h5 (by omega)) (by rw [h2, hw]) h1

/-! ### the final flush -/

/-- the stdio calls `_flush_output` spends on an unterminated rest `q` (`tailLoop` on a plain list) -/
def tailEms : Nat → Bytes → Bool → List Em
  | 0, _, _ => []
  | fuel + 1, q, labeled =>
    if q = [] then []
    else
      let c := cstr (q.take (Gen.RELAY_TAILBUF - 1))
      if cfg.labels ∧ !labeled then
        (if cfg.tailSplit then [⟨strm, labelPrefix true cfg.keep host⟩, ⟨strm, c⟩]
         else [⟨strm, labelPrefix true cfg.keep host ++ c⟩]) ++
          tailEms fuel (q.drop (Gen.RELAY_TAILBUF - 1)) true
      else ⟨strm, c⟩ :: tailEms fuel (q.drop (Gen.RELAY_TAILBUF - 1)) labeled

/-- the piece size of `_flush_output` (regenerated: learnt from what the code does with a rest that fills the
    buffer) is at least one byte -- ALL that losslessness (C05) needs of it; the theorems of this directory hold
    for every piece size, "the whole rest in one piece" included.  Only C06's 8 KiB clause asks for more
    (`Spec.wholeTailBelow <= RELAY_TAILBUF`, an explicit hypothesis of the `tailOk` lemmas, discharged in Props/C06). -/
theorem tailbuf_pos : 0 < Gen.RELAY_TAILBUF - 1 := by decide

theorem tailbuf_cast : ((Gen.RELAY_TAILBUF : Nat) : Int) - 1 = ((Gen.RELAY_TAILBUF - 1 : Nat) : Int) := by
  have := tailbuf_pos; omega

theorem tailLoop_fifo : ∀ (fuel : Nat) (b : PBuf) (labeled : Bool) (acc : List Em), b.f.q.length < fuel →
    tailLoop fifoOps cfg host strm fuel b labeled acc =
      (b.setQ [], acc ++ tailEms cfg host strm fuel b.f.q labeled)
  | 0, _, _, _, h => by omega
  | fuel + 1, b, labeled, acc, h => by
    unfold tailLoop tailEms
    rw [tailbuf_cast, read_fifo]
    have hT : 0 < Gen.RELAY_TAILBUF - 1 := tailbuf_pos
    by_cases hq : b.f.q = []
    · simp [hq]
    · have hlen : 0 < b.f.q.length := List.length_pos_iff.mpr hq
      have hn : ¬ ((((List.take (Gen.RELAY_TAILBUF - 1) b.f.q).length : Nat) : Int) ≤ 0) := by
        simp only [List.length_take]; omega
      have hdrop : (b.setQ (List.drop (Gen.RELAY_TAILBUF - 1) b.f.q)).f.q.length < fuel := by
        simp only [PBuf.setQ_q, List.length_drop]; omega
      simp only [hn, ↓reduceIte, hq]
      by_cases hl : cfg.labels = true ∧ (!labeled) = true
      · simp only [hl, and_self, ↓reduceIte]
        by_cases hs : cfg.tailSplit = true
        · simp only [hs, ↓reduceIte]
          rw [tailLoop_fifo fuel _ true _ hdrop]
          simp
        · simp only [hs, Bool.false_eq_true, ↓reduceIte]
          rw [tailLoop_fifo fuel _ true _ hdrop]
          simp
      · simp only [hl, ↓reduceIte]
        rw [tailLoop_fifo fuel _ labeled _ hdrop]
        simp

/-- `_flush_output` on a buffer without a complete line: the `_flush_lines` call (with the
    first target's thd_t) does nothing; the rest is written by `tailEms` -/
theorem flushOutput_fifo (t0host : Bytes) (b : PBuf) (rc : Int) (hq : ∀ c ∈ b.f.q, c ≠ 10) :
    flushOutput fifoOps cfg host t0host strm b rc =
      (b.setQ [], tailEms cfg host strm (b.f.q.length + 1) b.f.q false) := by
  unfold flushOutput
  have hs := Spec.split_noNl _ hq
  rw [flushLines_fifo cfg t0host strm false _ b rc [] (by simp [hs])]
  simp only [hs, List.foldl_nil, PBuf.setQ_self]
  rw [tailLoop_fifo cfg host strm _ b false [] (by simp [fifoOps])]
  simp [fifoOps]

/-- CLOSED FORM of a whole stream over the FIFO: whatever the script, the stdio calls are those
    of the complete lines of `S = script.flatten` in order, followed by those of the rest -/
theorem runStream_fifo_ok {sizeMeta : Nat} (hg : growthOk sizeMeta = true) (t0host : Bytes)
    {b0 : PBuf} (hb0 : mkFifoBuf sizeMeta = some b0) (script : List Bytes) (hroom : Room script.flatten) :
    (runStream fifoOps cfg host t0host strm readRc b0 script).ems =
      (afterLines cfg host strm readRc script.flatten).2 ++
        tailEms cfg host strm ((split script.flatten).2.length + 1) (split script.flatten).2 false ∧
    (runStream fifoOps cfg host t0host strm readRc b0 script).rc =
      (afterLines cfg host strm readRc script.flatten).1 := by
  obtain ⟨hinv0, hq0⟩ := mkFifoBuf_inv sizeMeta hg b0 hb0
  have h0 : RunInv cfg host strm readRc sizeMeta []
      (({ buf := b0, pipe := [], weof := false, closed := false } : Stream PBuf), 0, []) :=
    ⟨[], rfl, hinv0, by simp [hq0, Spec.split_nil], by simp [afterLines, Spec.split_nil]⟩
  obtain ⟨h1, hw1⟩ := feedStep_fifo cfg host strm readRc hroom script _ [] (by simp) h0 rfl
  simp only [runStream]
  generalize List.foldl (feedStep fifoOps cfg host strm readRc)
    (({ buf := b0, pipe := [], weof := false, closed := false } : Stream PBuf), 0, []) script = st at h1 hw1 ⊢
  have h1' : RunInv cfg host strm readRc sizeMeta script.flatten
      ({ st.1 with weof := true }, st.2.1, st.2.2) := by
    obtain ⟨x, hx, hb, hq, hout⟩ := h1
    exact ⟨x, hx, hb, hq, hout⟩
  obtain ⟨h2, hp2⟩ := drain_fifo cfg host strm readRc hroom (st.1.pipe.length + 1)
    { st.1 with weof := true } st.2.1 st.2.2 0 (by simp) rfl h1'
  generalize drain fifoOps cfg host strm readRc (st.1.pipe.length + 1) { st.1 with weof := true } st.2.1 st.2.2 0 = dr
    at h2 hp2 ⊢
  obtain ⟨x, hx, hb, hq, hout⟩ := h2
  simp only [hp2, List.append_nil] at hx
  subst hx
  have hnl : ∀ c ∈ dr.2.2.1.buf.f.q, c ≠ 10 := by
    simp only at hq
    rw [hq]; exact Spec.split_rest_noNl _
  simp only at hq hout
  rw [flushOutput_fifo cfg host strm t0host _ _ hnl, hq]
  have h3 := congrArg Prod.fst hout
  have h4 := congrArg Prod.snd hout
  simp only at h3 h4
  exact ⟨by simp [h4], h3⟩

end PdshVerif.Relay
