/-
  What the relay's stdio calls look like on input in the domain of C05/C06 (no NUL, no marker
  inside a stdout line): one call `prefix ++ line` per line; the shape of the tail calls.
-/
import PdshVerif.Relay.RunFifo

namespace PdshVerif.Relay
open PdshVerif.Relay.Spec (split)

theorem cstr_of_noNul : ∀ (l : Bytes), (∀ b ∈ l, b ≠ 0) → cstr l = l
  | [], _ => rfl
  | c :: cs, h => by
    have hc : c ≠ 0 := h c (by simp)
    have ih := cstr_of_noNul cs (fun b hb => h b (by simp [hb]))
    unfold cstr at ih ⊢
    simp only [List.takeWhile_cons, ne_eq, hc, not_false_eq_true, decide_true, ↓reduceIte]
    rw [ih]

/-- the model's `strstr` finds nothing exactly when the specification's `occurs` says so -/
theorem findSub_none_iff (pat : Bytes) : ∀ (s : Bytes), findSub pat s = none ↔ Spec.occurs pat s = false
  | [] => by simp [findSub, Spec.occurs]
  | b :: bs => by
    have ih := findSub_none_iff pat bs
    unfold findSub Spec.occurs
    by_cases hp : pat.isPrefixOf (b :: bs) = true
    · simp [hp]
    · simp [hp, ih]

theorem extractRc_noMagic (skip : Bool) (l : Bytes) (h : findSub magic (cstr l) = none) :
    extractRc skip l = (0, cstr l) := by
  unfold extractRc
  simp [h]

variable (cfg : Cfg) (host : Bytes) (strm : Nat) (readRc : Bool)

/-- a line in the domain: free of NUL, non-empty, and (stdout) without the marker -/
def GoodLine (l : Bytes) : Prop := (∀ b ∈ l, b ≠ 0) ∧ l ≠ [] ∧ (readRc = true → findSub magic l = none)

theorem emitLine_good (rc : Int) (l : Bytes) (h : GoodLine readRc l) :
    emitLine cfg host strm readRc rc l =
      ((if readRc ∧ cfg.rcEveryLine then 0 else rc), [⟨strm, labelPrefix cfg.labels cfg.keep host ++ l⟩]) := by
  obtain ⟨h0, hne, hm⟩ := h
  have hc := cstr_of_noNul l h0
  unfold emitLine
  cases readRc with
  | false => simp [hc, hne]
  | true =>
    have hf : findSub magic l = none := hm rfl
    have := extractRc_noMagic cfg.rcSkipDigit l (by rw [hc]; exact hf)
    cases hev : cfg.rcEveryLine <;> simp [this, hc, hne, hf]

theorem foldl_lineStep_good : ∀ (L : List Bytes) (rc : Int) (acc : List Em), (∀ l ∈ L, GoodLine readRc l) →
    L.foldl (lineStep cfg host strm readRc) (rc, acc) =
      ((if (readRc ∧ cfg.rcEveryLine) ∧ L ≠ [] then 0 else rc),
       acc ++ L.map (fun l => (⟨strm, labelPrefix cfg.labels cfg.keep host ++ l⟩ : Em)))
  | [], rc, acc, _ => by simp
  | l :: ls, rc, acc, h => by
    have hl := h l (by simp)
    have ih := foldl_lineStep_good ls (if readRc ∧ cfg.rcEveryLine then 0 else rc)
      (acc ++ [⟨strm, labelPrefix cfg.labels cfg.keep host ++ l⟩]) (fun l' hl' => h l' (by simp [hl']))
    simp only [List.foldl_cons, lineStep, emitLine_good cfg host strm readRc _ l hl]
    rw [ih]
    by_cases hc : readRc = true ∧ cfg.rcEveryLine = true <;> simp [hc]

/-- in the domain, the line part of the closed form: one stdio call `prefix ++ line` per line -/
theorem afterLines_good (S : Bytes) (h : ∀ l ∈ (split S).1, GoodLine readRc l) :
    afterLines cfg host strm readRc S =
      ((0 : Int), (split S).1.map (fun l => (⟨strm, labelPrefix cfg.labels cfg.keep host ++ l⟩ : Em))) := by
  unfold afterLines
  rw [foldl_lineStep_good cfg host strm readRc _ _ _ h]
  simp

/-! ### from the decidable domain predicate -/

theorem mem_of_mem_line {S l : Bytes} (hl : l ∈ (split S).1) {b : UInt8} (hb : b ∈ l) : b ∈ S := by
  have h := Spec.split_flatten S
  rw [← h]
  simp only [List.mem_append, List.mem_flatten]
  exact Or.inl ⟨l, hl, hb⟩

theorem mem_of_mem_rest {S : Bytes} {b : UInt8} (hb : b ∈ (split S).2) : b ∈ S := by
  have h := Spec.split_flatten S
  rw [← h]
  simp only [List.mem_append]
  exact Or.inr hb

/-- the marker the domain of a stream excludes: stdout lines go through `_extract_rc` -/
def markerOf (readRc : Bool) : Option Bytes := if readRc then some magic else none

theorem dom_noNul {S : Bytes} {m : Option Bytes} (h : Spec.Dom05 m S = true) : ∀ b ∈ S, b ≠ 0 := by
  simp only [Spec.Dom05, Bool.and_eq_true, List.all_eq_true] at h
  intro b hb
  simpa using h.1.1 b hb

theorem dom_room {S : Bytes} {m : Option Bytes} (h : Spec.Dom05 m S = true) : Room S := by
  simp only [Spec.Dom05, Bool.and_eq_true] at h
  exact room_of_runsWithin h.1.2

theorem dom_goodLines {S : Bytes} (h : Spec.Dom05 (markerOf readRc) S = true) :
    ∀ l ∈ (split S).1, GoodLine readRc l := by
  intro l hl
  refine ⟨fun b hb => dom_noNul h b (mem_of_mem_line hl hb), Spec.split_lines_ne_nil S l hl, ?_⟩
  intro hr
  subst hr
  simp only [Spec.Dom05, markerOf, ↓reduceIte, Bool.and_eq_true, List.all_eq_true] at h
  have := h.2 l hl
  rw [findSub_none_iff]
  simpa using this

/-- closed form of a whole stream in the domain (used by Props/C05 and Props/C06) -/
theorem runStream_closed (t0host : Bytes) {sizeMeta : Nat} (hg : growthOk sizeMeta = true)
    {b0 : PBuf} (hb0 : mkFifoBuf sizeMeta = some b0) (script : List Bytes)
    (hdom : Spec.Dom05 (markerOf readRc) script.flatten = true) :
    (runStream fifoOps cfg host t0host strm readRc b0 script).ems =
      (Spec.lines script.flatten).map (fun l => (⟨strm, labelPrefix cfg.labels cfg.keep host ++ l⟩ : Em)) ++
        tailEms cfg host strm ((Spec.tail script.flatten).length + 1) (Spec.tail script.flatten) false ∧
    (runStream fifoOps cfg host t0host strm readRc b0 script).rc = 0 := by
  obtain ⟨h1, h2⟩ := runStream_fifo_ok cfg host strm readRc hg t0host hb0 script (dom_room hdom)
  rw [afterLines_good cfg host strm readRc _ (dom_goodLines readRc hdom)] at h1 h2
  exact ⟨h1, h2⟩

/-- closed form of an ABANDONED stream in the domain: some prefix `x` of what the remote side wrote
    has been read; the stdio calls are those of the complete lines of `x`, then those of the
    unterminated rest of `x`; what was not read (`rest`) is not relayed -/
theorem runAbandoned_closed (t0host : Bytes) {sizeMeta : Nat} (hg : growthOk sizeMeta = true)
    {b0 : PBuf} (hb0 : mkFifoBuf sizeMeta = some b0) (script : List Bytes)
    (hdom : Spec.Dom05 (markerOf readRc) script.flatten = true) :
    ∃ x rest : Bytes, x ++ rest = script.flatten ∧
      (runAbandoned fifoOps cfg host t0host strm readRc b0 script).ems =
        (Spec.lines x).map (fun l => (⟨strm, labelPrefix cfg.labels cfg.keep host ++ l⟩ : Em)) ++
          tailEms cfg host strm ((Spec.tail x).length + 1) (Spec.tail x) false ∧
      (∀ b ∈ x, b ≠ 0) := by
  obtain ⟨hinv0, hq0⟩ := mkFifoBuf_inv sizeMeta hg b0 hb0
  have h0 : RunInv cfg host strm readRc sizeMeta []
      (({ buf := b0, pipe := [], weof := false, closed := false } : Stream PBuf), 0, []) :=
    ⟨[], rfl, hinv0, by simp [hq0, Spec.split_nil], by simp [afterLines, Spec.split_nil]⟩
  obtain ⟨h1, _⟩ := feedStep_fifo cfg host strm readRc (dom_room hdom) script _ [] (by simp) h0 rfl
  simp only [runAbandoned]
  generalize List.foldl (feedStep fifoOps cfg host strm readRc)
    (({ buf := b0, pipe := [], weof := false, closed := false } : Stream PBuf), 0, []) script = st at h1 ⊢
  obtain ⟨x, hx, hb, hq, hout⟩ := h1
  refine ⟨x, st.1.pipe, hx, ?_, fun b hb' => dom_noNul hdom b (by rw [← hx]; simp [hb'])⟩
  have hnl : ∀ c ∈ st.1.buf.f.q, c ≠ 10 := by rw [hq]; exact Spec.split_rest_noNl _
  rw [flushOutput_fifo cfg host strm t0host _ _ hnl, hq]
  -- the lines of the prefix are lines of the whole stream, hence good
  have hsplit := Spec.split_append x st.1.pipe
  rw [hx] at hsplit
  have hgood : ∀ l ∈ (split x).1, GoodLine readRc l := by
    intro l hl
    apply dom_goodLines readRc hdom l
    rw [hsplit]
    simp [hl]
  have hal := afterLines_good cfg host strm readRc x hgood
  have h4 : st.2.2 = (afterLines cfg host strm readRc x).2 := congrArg Prod.snd hout
  rw [h4, hal]
  rfl

/-! ### the tail calls on a NUL-free rest -/

/-- bytes of the calls after the label has been written (or with -N): the rest cut every
    RELAY_TAILBUF-1 bytes, every piece non-empty -/
theorem tailEms_plain : ∀ (fuel : Nat) (q : Bytes) (labeled : Bool), q.length < fuel → (∀ b ∈ q, b ≠ 0) →
    ¬ (cfg.labels = true ∧ (!labeled) = true) →
    ((tailEms cfg host strm fuel q labeled).map Em.bytes).flatten = q ∧
    (∀ e ∈ tailEms cfg host strm fuel q labeled, e.bytes ≠ [] ∧ e.stream = strm) ∧
    (q.length ≤ Gen.RELAY_TAILBUF - 1 → (tailEms cfg host strm fuel q labeled).length ≤ 1) ∧
    (q = [] → tailEms cfg host strm fuel q labeled = [])
  | 0, _, _, h, _, _ => by omega
  | fuel + 1, q, labeled, h, h0, hl => by
    unfold tailEms
    by_cases hq : q = []
    · simp [hq]
    · have hT : 0 < Gen.RELAY_TAILBUF - 1 := tailbuf_pos
      have hlen : 0 < q.length := List.length_pos_iff.mpr hq
      have hc : cstr (q.take (Gen.RELAY_TAILBUF - 1)) = q.take (Gen.RELAY_TAILBUF - 1) :=
        cstr_of_noNul _ (fun b hb => h0 b (List.mem_of_mem_take hb))
      obtain ⟨i1, i2, i3, i4⟩ := tailEms_plain fuel (q.drop (Gen.RELAY_TAILBUF - 1)) labeled
        (by simp only [List.length_drop]; omega) (fun b hb => h0 b (List.mem_of_mem_drop hb)) hl
      simp only [hq, ↓reduceIte, hl, hc]
      refine ⟨by simp [i1], ?_, ?_, by simp⟩
      · intro e he
        simp only [List.mem_cons] at he
        rcases he with rfl | he
        · refine ⟨?_, rfl⟩
          simp only [ne_eq, List.take_eq_nil_iff, hq, or_false]; omega
        · exact i2 e he
      · intro hle
        have : List.drop (Gen.RELAY_TAILBUF - 1) q = [] := by simp; omega
        simp [i4 this]

end PdshVerif.Relay
