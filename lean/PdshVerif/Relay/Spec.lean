/-
  Property-level specification of the output relay (C05, C06), written independently of the
  model of dsh.c: plain functions on the byte string `s` one remote stream produced.

  Policy-free: the only choice the properties leave to the implementation is where a final
  unterminated fragment of 8 KiB or more is cut; the specification therefore does not compute
  the expected stdio calls, it *decides* whether an observed list of calls is admissible.
-/
namespace PdshVerif.Relay.Spec

abbrev Bytes := List UInt8

/-! ### lines -/

/-- a byte other than newline joins the first line of what follows it (or the rest, if no line
    follows) -/
def consFirst (b : UInt8) : List Bytes × Bytes → List Bytes × Bytes
  | ([], t) => ([], b :: t)
  | (l :: ls, t) => ((b :: l) :: ls, t)

/-- split after every newline: the complete lines (each ends in its only '\n') and the
    unterminated rest -/
def split : Bytes → List Bytes × Bytes
  | [] => ([], [])
  | b :: bs =>
    if b = 10 then ([10] :: (split bs).1, (split bs).2) else consFirst b (split bs)

def lines (s : Bytes) : List Bytes := (split s).1
def tail (s : Bytes) : Bytes := (split s).2

/-! ### the domain of C05/C06 -/

/-- every line including its newline, and the unterminated rest, is at most `max` bytes long;
    `k` = length of the current line so far -/
def runsWithin (max : Nat) : Bytes → Nat → Bool
  | [], k => decide (k ≤ max)
  | b :: bs, k =>
    if b = 10 then decide (k + 1 ≤ max) && runsWithin max bs 0 else runsWithin max bs (k + 1)

/-- "lines do not exceed 128 KiB" -/
def maxLine : Nat := 131072

/-- `pat` occurs in `s` -/
def occurs (pat : Bytes) : Bytes → Bool
  | [] => pat.isEmpty
  | b :: bs => pat.isPrefixOf (b :: bs) || occurs pat bs

/-- the stated domain: text free of NUL bytes whose lines do not exceed 128 KiB and (standard
    output only: `marker = some m`) do not contain the reserved return-code marker -/
def Dom05 (marker : Option Bytes) (s : Bytes) : Bool :=
  s.all (· ≠ 0) && runsWithin maxLine s 0 &&
  (match marker with
   | none => true
   | some m => (lines s).all fun l => !occurs m l)

/-! ### labels (C06) -/

/-- the part of a host name from its first dot on, if it has one -/
def domOf (h : Bytes) : Option Bytes :=
  if h.contains 46 then some (h.dropWhile (· ≠ 46)) else none

/-- "the targets span different domains": two targets carry different from-first-dot suffixes
    (targets without a dot do not count) -/
def spansDomains (targets : List Bytes) : Bool :=
  targets.any fun a => targets.any fun b =>
    (domOf a).isSome && (domOf b).isSome && decide (domOf a ≠ domOf b)

def startsWithDigit (h : Bytes) : Bool :=
  match h with
  | [] => false
  | c :: _ => decide (48 ≤ c) && decide (c ≤ 57)

/-- the label of host `h`: its own name, shortened at the first dot only when the name does not
    start with a digit, -K was not given and the targets do not span different domains -/
def labelOf (optK : Bool) (targets : List Bytes) (h : Bytes) : Bytes :=
  if startsWithDigit h || optK || spansDomains targets then h else h.takeWhile (· ≠ 46)

/-- what precedes every record of host `h`: "label: ", nothing with -N -/
def recPrefix (labels optK : Bool) (targets : List Bytes) (h : Bytes) : Bytes :=
  if labels then labelOf optK targets h ++ [58, 32] else []

/-! ### C05: the bytes written for the host -/

/-- the host's stream as it must appear in pdsh's output: each line, and a non-empty final
    fragment, preceded by the record prefix `p` -/
def render (p s : Bytes) : Bytes :=
  (lines s).flatMap (p ++ ·) ++ (if (tail s).isEmpty then [] else p ++ tail s)

/-- removing the labels again: skip `plen` bytes at the start of the output and after every
    newline (`k` = label bytes still to skip) -/
def stripAux (plen : Nat) : Bytes → Nat → Bytes
  | [], _ => []
  | _ :: bs, k + 1 => stripAux plen bs k
  | b :: bs, 0 => b :: stripAux plen bs (if b = 10 then plen else 0)

def strip (plen : Nat) (out : Bytes) : Bytes := stripAux plen out plen

/-- C05 on observed stdio calls `ems` (of one host, one stream): what was written is exactly the
    labelled stream (so: `strip` of it is `s`, see `strip_render`), nothing lost, duplicated,
    reordered or invented -/
def c05Ok (p s : Bytes) (ems : List Bytes) : Bool := ems.flatten == render p s

/-! ### C06: each stdio call is one whole record -/

/-- size below which a final fragment must be one contiguous record ("shorter than 8 KiB") -/
def wholeTailBelow : Nat := 8192

/-- admissible ways of writing the unterminated final fragment `t`: nothing if it is empty;
    otherwise a first piece that carries the prefix and at least one byte, then unlabelled
    non-empty continuation pieces, together exactly `t`; one piece if `t` is shorter than 8 KiB -/
def tailOk (p t : Bytes) (pieces : List Bytes) : Bool :=
  match pieces with
  | [] => t.isEmpty
  | first :: rest =>
    !t.isEmpty && p.isPrefixOf first && decide (first.length > p.length) &&
    (first.drop p.length ++ rest.flatten == t) && rest.all (fun x => !x.isEmpty) &&
    (decide (t.length ≥ wholeTailBelow) || rest.isEmpty)

/-- C06 on observed stdio calls: first one call per line, `p ++ line`, in order; then the tail -/
def c06Ok (p s : Bytes) (ems : List Bytes) : Bool :=
  let ls := lines s
  (ems.take ls.length == ls.map (p ++ ·)) && tailOk p (tail s) (ems.drop ls.length)

/-- the one inadmissible shape that is a known finding (D6): all line records are right, and the
    final fragment is written as the bare prefix by one call followed by the data by further
    calls -- the label and the bytes that follow it are NOT one contiguous record -/
def tailSplitForm (p s : Bytes) (ems : List Bytes) : Bool :=
  let ls := lines s
  (ems.take ls.length == ls.map (p ++ ·)) && !p.isEmpty && !(tail s).isEmpty &&
  (match ems.drop ls.length with
   | lab :: d :: rest =>
     lab == p && tailOk [] (tail s) (d :: rest)
   | _ => false)

end PdshVerif.Relay.Spec
