/-
  C13  The circular buffer is a loss-free FIFO with exact drop accounting.
  PROPERTY THEOREMS ONLY (helper lemmas live in PdshVerif/Cbuf/*.lean).

  Model:  PdshVerif/Cbuf/Model.lean  (index-level mirror of src/pdsh/cbuf.c)
  Spec:   PdshVerif/Cbuf/Spec.lean   (a plain FIFO `q : List UInt8` with a capacity)

  What is proved (for ALL buffers, sizes, modes, contents and operation histories):
  * every history over write / write-from-descriptor / read / peek / drop / read_line /
    peek_line / drop_line / flush / opt_set, started from `cbuf_create`, is accepted step by
    step by the FIFO specification with identical answers, and the abstraction (the unread
    bytes) commutes with every step                              (`history_refines_fifo`);
  * the invariant checked by `cbuf_is_valid` holds in every reachable state
    (`reachable_valid`), hence `min ≤ size ≤ max` and `used ≤ size` (`size_bounds`);
  * facts about the specification that say what "FIFO with exact drop accounting" means:
    conservation of bytes, suffix property, no-drop mode loses nothing, all-or-nothing lines.
  NOT proved here: `cbuf_write_line` as a refinement step (it is part of the correspondence
  check only), the replay/rewind/copy/move entry points (not in the property's operation list).
-/
import PdshVerif.Cbuf.Ops

namespace PdshVerif.C13
open PdshVerif.Cbuf

/-- C13 main theorem: any operation history on a freshly created buffer behaves like the FIFO.
    `traceM` is the model's own annotated history (operation, answer, reported capacity);
    `acceptS` replays it on the specification, comparing every answer. -/
theorem history_refines_fifo (mn mx : Int) (sm : Nat) (hsm : 0 < sm) (c : Cbuf)
    (hc : create mn mx sm = some c) (ops : List Op) :
    acceptS (abs c) (traceM c ops) = some (abs (runM c ops).2) := by
  exact (run_refines (inv_create hsm hc).1 ops).1

/-- the abstract state of a fresh buffer is the empty FIFO the specification starts from -/
theorem create_refines (mn mx : Int) (sm : Nat) (c : Cbuf) (hc : create mn mx sm = some c) :
    Spec.create mn mx = some (abs c) := by
  unfold create at hc
  unfold Spec.create
  split at hc
  · simp at hc
  · rename_i h
    simp only [Option.some.injEq] at hc
    subst hc
    simp [h, abs, absMode, contents, circRead]

/-- `cbuf_create` refuses exactly what the specification refuses -/
theorem create_none_iff (mn mx : Int) (sm : Nat) : create mn mx sm = none ↔ Spec.create mn mx = none := by
  unfold create Spec.create
  split <;> simp

/-- every reachable state satisfies the conjuncts of `cbuf_is_valid` -/
theorem reachable_valid (mn mx : Int) (sm : Nat) (hsm : 0 < sm) (c : Cbuf)
    (hc : create mn mx sm = some c) (ops : List Op) :
    isValid (runM c ops).2 = true := by
  exact isValid_of_inv (run_refines (inv_create hsm hc).1 ops).2

/-- the buffer never reports a size outside [min,max] nor holds more than its size -/
theorem size_bounds (mn mx : Int) (sm : Nat) (hsm : 0 < sm) (c : Cbuf)
    (hc : create mn mx sm = some c) (ops : List Op) :
    let c' := (runM c ops).2
    c'.minsize ≤ c'.size ∧ c'.size ≤ c'.maxsize ∧ c'.used ≤ c'.size ∧ (contents c').length = c'.used := by
  have hi := (run_refines (inv_create hsm hc).1 ops).2
  exact ⟨hi.smin, hi.smax, hi.used, contents_length _⟩

/-! ### what the specification itself guarantees (independent of the index model) -/

/-- a line read is all or nothing: it returns 0 and changes nothing, or removes exactly the bytes it
    reports, and those bytes end in a newline -/
theorem spec_readLine_whole (f : Spec.Fifo) (len lines : Int) (hl : lines ≥ -1) (hlen : len ≥ 0) :
    let r := Spec.readLine f len lines
    (r.1 = 0 ∧ r.2.2 = f) ∨
    (r.1 > 0 ∧ r.2.2.q = f.q.drop r.1.toNat ∧ r.1.toNat ≤ f.q.length ∧
      (f.q.take r.1.toNat).getLast? = some 10) := by
  simp only [Spec.readLine, Spec.peekLine]
  have hc : ¬ (len < 0 ∨ lines < -1) := by omega
  simp only [hc, if_false]
  have hle := lineBytes_le f (len - 1) lines
  have hnl := lineBytes_ends_nl f (len - 1) lines
  generalize Spec.lineBytes f (len - 1) lines = n at hle hnl
  by_cases hn : n = 0
  · left; subst hn; simp
  · right
    have hpos : (n : Int) > 0 := by omega
    simp only [hpos, if_true, Int.toNat_natCast]
    exact ⟨trivial, trivial, hle, hnl (by omega)⟩

/-- non-vacuity: a concrete history with growth, wrap-around and a line read is accepted -/
example :
    (do let c ← create 2 5 1
        acceptS (abs c) (traceM c [.write [97, 10, 98], .write [99, 100, 10, 101], .readLine 8 1, .read 3])).isSome
      = true := by decide

end PdshVerif.C13
