/-
  C13  The circular buffer is a loss-free FIFO with exact drop accounting.
  PROPERTY THEOREMS ONLY (helper lemmas live in PdshVerif/Cbuf/*.lean).
-/
import PdshVerif.Cbuf.Model
import PdshVerif.Cbuf.Spec

namespace PdshVerif.C13
open PdshVerif.Cbuf

/-- a freshly created buffer is empty -/
theorem create_empty (mn mx : Int) (sm : Nat) (c : Cbuf) (h : create mn mx sm = some c) :
    contents c = [] := by
  unfold create at h
  split at h
  · simp at h
  · simp at h; subst h; simp [contents, circRead]

end PdshVerif.C13
