/-
  C13  The circular buffer is a loss-free FIFO with exact drop accounting.
  PROPERTY THEOREMS ONLY (helper lemmas live in PdshVerif/Cbuf/*.lean).

  Model:  PdshVerif/Cbuf/Model.lean, ModelLine.lean  (index-level mirror of src/pdsh/cbuf.c, the
          WHOLE public header; the growth policy of `cbuf_grow` is a PARAMETER, `Policy`)
  Spec:   PdshVerif/Cbuf/Spec.lean (a plain FIFO `q : List UInt8` with a capacity),
          SpecReplay.lean (+ the history of consumed bytes still held, + the flag "something was
          lost"), SpecLine.lean (line-level replay on that history)

  clause of the property / part of cbuf.h                          theorem
  ---------------------------------------------------------------  ----------------------------------
  bytes read = bytes written, in order, once; overflow discards
    the oldest unread bytes and reports their number exactly;
    no-drop shortens / refuses: every history over write /
    write_from_fd / write_line / read / peek / drop / read_line /
    peek_line / drop_line / flush / opt_set from cbuf_create is
    accepted step by step by the FIFO spec, identical answers      history_refines_fifo
  what that means on the spec: shape of every admissible answer,   spec_write_shape,
    conservation, suffix, no-drop loses nothing                    spec_write_conservation,
                                                                   spec_write_suffix, spec_nodrop_lossless
  line reads: whole newline-terminated lines, all or nothing       spec_readLine_whole
  counters agree with the contents (used, free, lines_used,        counters_agree, getters_agree
    reused, lines_reused, is_empty, opt_get)
  never more than max, size in [min,max], cbuf_is_valid in every   reachable_valid, size_bounds
    reachable state
  cbuf_create                                                      create_refines, create_none_iff,
                                                                   create_refines_replay
  FOR EVERY ADMISSIBLE GROWTH POLICY (all of the above and below   `(pol : Policy) [Admissible pol]`
    take the policy as a parameter; default = the code's)          chunk_policy_admissible,
    and for a different admissible policy at every step            pinned_policy_admissible,
    (the model as the driver runs it, following the capacity       grow_before_you_lose,
    the code under test reports)                                   history_refines_replay_fifo_any_policies,
                                                                   pair_history_refines_fifo_any_policies,
                                                                   inadmissible_choice_witness
  replay / rewind / peek_to_fd / read_to_fd / replay_to_fd on a    history_refines_replay_fifo,
    descriptor that takes only some bytes; replay_line /           spec_rewind_undoes_consume,
    rewind_line (refinement steps of the replay FIFO)              spec_replay_suffix, spec_sink_prefix
  what the line finder of the replay side returns starts at a      spec_findReplay_line_start,
    line boundary; never more than is replayable; rewind_line is   spec_findReplay_bounded,
    a rewind by the bytes found                                    spec_rewindLine_is_rewind
  copy / move between two buffers                                  pair_history_refines_fifo
  the OUT-PARAMETER ndropped is SET on every path: a call that     ndropped_set_on_every_path,
    stored nothing (zero length, nothing available, refused)       ndropped_set_copy_move,
    reports 0 dropped, never a stale value (Cbuf/OutParam.lean)    refused_calls_set_ndropped
  EVERY function declared in cbuf.h is covered by the model        header_covered, header_coverage_witness
  per-buffer mutex: any concurrent history = the sequential        concurrent_history_linearizable
    history of its calls in lock order (answers and final state),    (Cbuf/Lin.lean: exclusive,
    which the FIFO spec accepts                                      settle_exec, calls_of_thread)
  32-bit int arithmetic on indices does not overflow for           index_arithmetic_no_overflow,
    max ≤ INT_MAX/2; sharpness; where the caller's length enters   length_arithmetic_no_overflow,
                                                                   int_overflow_witnesses
  the same for every REACHABLE state of a buffer created with      index_arithmetic_no_overflow_reachable,
    bounds ≤ INT_MAX/2, no hypothesis on size_meta: alloc - size,  size_meta_constant
    minsize, maxsize are constants of the buffer (SizeMeta.lean)
  EVERY additive statement of cbuf.c (list regenerated from the    int_exprs_covered,
    source on every run) is classified by a bound class, every     int_exprs_coverage_witness
    class is safe (IntExprs.lean: int_classes_safe)
  cbuf_copy / cbuf_move take TWO mutexes, lowest address first,    copy_move_deadlock_free,
    refuse src == dst before locking: any threads, any calls, any  unordered_locking_deadlocks
    directions, any schedule -- no deadlock, every execution ends    (Cbuf/LockOrder.lean: deadlock_free,
    with all calls completed, no mutex held twice; source-first      wf_run, step_work, exclusive_step)
    locking deadlocks (witness), so does src == dst

  NOT proved / not modelled:
  * the locking discipline itself (every public function takes and releases the mutex exactly once,
    never nested) is a property of the C text: the harness checks it on every call of every
    generated history (`!LOCK` marker); the theorem starts from that discipline.  The lock ORDER of
    cbuf_copy / cbuf_move is modelled at the level of the mutexes (LockOrder.lean); that the C text
    follows it is checked by the harness: every two-buffer call of every history must take the two
    mutexes in the same order as every earlier one (`lock-order-inverted`), and two real threads
    copy and move in opposite directions under a watchdog (`--mt`).  The product of the two-lock
    protocol with the data (a concurrent copy/move history is a sequential one) is NOT proved: Lin.lean
    covers one mutex; the harness checks conservation of bytes in the two-thread run.
  * a closed form of the line finder of the replay side ("the k-th line start from the end"): the
    specification is the list-level scan; proved of it: line-boundary property, bounds.
  * the CLASS of each additive statement of cbuf.c (which bound keeps it in range) is assigned by
    hand in IntExprs.lean; mechanical is only that no statement of the source escapes the table.
    Multiplications (`2 * CBUF_MAGIC_LEN`) and the `%` operands are constants / already bounded.
  * cbuf_destroy has no model state (end of a history); realloc/malloc never fail in the model.
-/
import PdshVerif.Cbuf.PairRefine
import PdshVerif.Cbuf.Lin
import PdshVerif.Cbuf.Api
import PdshVerif.Cbuf.ScanFacts
import PdshVerif.Cbuf.IntBounds
import PdshVerif.Cbuf.IntExprs
import PdshVerif.Cbuf.SizeMeta
import PdshVerif.Cbuf.LockOrder
import PdshVerif.Cbuf.OutParam

namespace PdshVerif.C13
open PdshVerif.Cbuf

/-- C13 main theorem: any operation history on a freshly created buffer behaves like the FIFO.
    `traceM` is the model's own annotated history (operation, answer, reported capacity);
    `acceptS` replays it on the specification, comparing every answer. -/
theorem history_refines_fifo (mn mx : Int) (sm : Nat) (hsm : 0 < sm) (c : Cbuf)
    (hc : create mn mx sm = some c) (ops : List Op) (pol : Policy := chunkPolicy) [Admissible pol] :
    acceptS (abs c) (traceM c ops pol) = some (abs (runM c ops pol).2) := by
  exact (run_refines (inv_create hsm hc).1 ops pol).1

/-- the abstract state of a fresh buffer is the empty FIFO the specification starts from -/
theorem create_refines (mn mx : Int) (sm : Nat) (c : Cbuf) (hc : create mn mx sm = some c) :
    Spec.create mn mx = some (abs c) := by
  unfold create at hc
  unfold Spec.create
  split at hc
  · simp at hc
  · rename_i h
    simp only [Option.some.injEq] at hc
    subst hc
    simp [h, abs, absMode, contents, circRead]

/-- `cbuf_create` refuses exactly what the specification refuses -/
theorem create_none_iff (mn mx : Int) (sm : Nat) : create mn mx sm = none ↔ Spec.create mn mx = none := by
  unfold create Spec.create
  split <;> simp

/-- every reachable state satisfies the conjuncts of `cbuf_is_valid` -/
theorem reachable_valid (mn mx : Int) (sm : Nat) (hsm : 0 < sm) (c : Cbuf)
    (hc : create mn mx sm = some c) (ops : List Op) (pol : Policy := chunkPolicy) [Admissible pol] :
    isValid (runM c ops pol).2 = true := by
  exact isValid_of_inv (run_refines (inv_create hsm hc).1 ops pol).2

/-- the buffer never reports a size outside [min,max] nor holds more than its size -/
theorem size_bounds (mn mx : Int) (sm : Nat) (hsm : 0 < sm) (c : Cbuf)
    (hc : create mn mx sm = some c) (ops : List Op) (pol : Policy := chunkPolicy) [Admissible pol] :
    let c' := (runM c ops pol).2
    c'.minsize ≤ c'.size ∧ c'.size ≤ c'.maxsize ∧ c'.used ≤ c'.size ∧ (contents c').length = c'.used := by
  have hi := (run_refines (inv_create hsm hc).1 ops pol).2
  exact ⟨hi.smin, hi.smax, hi.used, contents_length _⟩

/-! ### what the specification itself guarantees (independent of the index model) -/

/-- every admissible answer of a write falls into one of these shapes -/
theorem spec_write_shape (f f' : Spec.Fifo) (bs : List UInt8) (sz : Nat) (r : Int) (d : Nat)
    (hfs : 0 < f.size) (h : Spec.write f bs sz = some (r, d, f')) :
    (bs.length = 0 ∧ r = 0 ∧ d = 0 ∧ f' = f) ∨
    (bs.length ≠ 0 ∧ f.size ≤ sz ∧ sz ≤ f.maxsize ∧
      ((r = -1 ∧ d = 0 ∧ f'.q = f.q ∧ f.mode = .noDrop) ∨
       (∃ k, 0 < k ∧ k ≤ bs.length ∧ r = (k : Int) ∧ (f.mode = .noDrop → k ≤ sz - f.q.length) ∧
          d = k - (sz - f.q.length) ∧ (f.mode = .noDrop → d = 0) ∧
          f'.q = Spec.lastN sz (f.q ++ bs.take k) ∧ f'.size = sz))) := by
  by_cases h0 : bs.length = 0
  · left
    simp only [Spec.write, h0, if_true] at h
    by_cases hs : sz = f.size
    · simp only [hs, if_true, Option.some.injEq, Prod.mk.injEq] at h
      obtain ⟨h1, h2, h3⟩ := h
      exact ⟨h0, h1.symm, h2.symm, h3.symm⟩
    · simp [hs] at h
  · right
    by_cases hadm : Spec.admitSize f sz = true
    · have hs := (admitSize_iff f sz).1 hadm
      refine ⟨h0, hs.1, hs.2, ?_⟩
      cases hm : f.mode with
      | noDrop =>
        simp only [Spec.write, h0, if_false, hadm, Bool.not_true, Bool.false_eq_true, hm] at h
        by_cases hlo : Spec.lossOk f sz (decide (min bs.length (sz - f.q.length) < bs.length)) = true
        · simp only [hlo, Bool.not_true, Bool.false_eq_true, if_false] at h
          by_cases hk : min bs.length (sz - f.q.length) = 0
          · simp only [hk, if_true, Option.some.injEq, Prod.mk.injEq] at h
            obtain ⟨h1, h2, h3⟩ := h
            left; subst h3; exact ⟨h1.symm, h2.symm, rfl, rfl⟩
          · simp only [hk, if_false, Option.some.injEq, Prod.mk.injEq] at h
            obtain ⟨h1, h2, h3⟩ := h
            right
            refine ⟨min bs.length (sz - f.q.length), by omega, by omega, h1.symm, fun _ => by omega, ?_,
              fun _ => h2.symm, ?_, ?_⟩
            · omega
            · subst h3; simp only [Spec.lastN, List.length_append, List.length_take]
              have : f.q.length + min (min bs.length (sz - f.q.length)) bs.length - sz = 0 := by omega
              rw [this]; simp
            · subst h3; rfl
        · simp [hlo] at h
      | wrapOnce =>
        simp only [Spec.write, h0, if_false, hadm, Bool.not_true, Bool.false_eq_true, hm] at h
        split at h
        · simp at h
        · simp only [Option.some.injEq, Prod.mk.injEq] at h
          obtain ⟨h1, h2, h3⟩ := h
          right
          have hpos : 0 < sz := by omega
          exact ⟨min bs.length sz, by omega, by omega, h1.symm, (fun hc => by cases hc), h2.symm,
            (fun hc => by cases hc), by subst h3; rfl, by subst h3; rfl⟩
      | wrapMany =>
        simp only [Spec.write, h0, if_false, hadm, Bool.not_true, Bool.false_eq_true, hm] at h
        split at h
        · simp at h
        · simp only [Option.some.injEq, Prod.mk.injEq] at h
          obtain ⟨h1, h2, h3⟩ := h
          right
          exact ⟨bs.length, by omega, by omega, h1.symm, (fun hc => by cases hc), h2.symm,
            (fun hc => by cases hc), by subst h3; simp, by subst h3; rfl⟩
    · simp [Spec.write, h0, hadm] at h

/-- exact drop accounting: bytes held before + bytes accepted = bytes held after + bytes dropped,
    and the buffer never holds more than its (reported) size -/
theorem spec_write_conservation (f f' : Spec.Fifo) (bs : List UInt8) (sz : Nat) (r : Int) (d : Nat)
    (hfs : 0 < f.size) (hq : f.q.length ≤ f.size) (h : Spec.write f bs sz = some (r, d, f')) (hr : 0 ≤ r) :
    f.q.length + r.toNat = f'.q.length + d ∧ f'.q.length ≤ f'.size := by
  rcases spec_write_shape f f' bs sz r d hfs h with ⟨_, h1, h2, h3⟩ | ⟨_, hs1, _, h4⟩
  · subst h1 h2 h3; simp; exact hq
  · rcases h4 with ⟨h1, _⟩ | ⟨k, hk0, hk1, hr', _, hd, _, hq', hsz⟩
    · omega
    · subst hr'
      rw [hq', hsz, hd]
      simp only [Spec.lastN, List.length_drop, List.length_append, List.length_take, Int.toNat_natCast]
      omega

/-- nothing is invented or reordered: the new queue is a suffix of "old queue ++ accepted prefix" -/
theorem spec_write_suffix (f f' : Spec.Fifo) (bs : List UInt8) (sz : Nat) (r : Int) (d : Nat)
    (hfs : 0 < f.size) (h : Spec.write f bs sz = some (r, d, f')) :
    ∃ k, f'.q = (f.q ++ bs.take r.toNat).drop k := by
  rcases spec_write_shape f f' bs sz r d hfs h with ⟨_, h1, _, h3⟩ | ⟨_, _, _, h4⟩
  · subst h1 h3; exact ⟨0, by simp⟩
  · rcases h4 with ⟨h1, _, hq', _⟩ | ⟨k, _, _, hr', _, _, _, hq', _⟩
    · subst h1; exact ⟨0, by simp [hq']⟩
    · subst hr'; exact ⟨(f.q ++ bs.take k).length - sz, by rw [hq']; simp [Spec.lastN]⟩

/-- in no-drop mode a write never discards anything: it is shortened or refused -/
theorem spec_nodrop_lossless (f f' : Spec.Fifo) (bs : List UInt8) (sz : Nat) (r : Int) (d : Nat)
    (hfs : 0 < f.size) (hm : f.mode = .noDrop) (h : Spec.write f bs sz = some (r, d, f')) :
    d = 0 ∧ (r = -1 ∨ r ≥ 0) ∧ f'.q = f.q ++ bs.take r.toNat := by
  rcases spec_write_shape f f' bs sz r d hfs h with ⟨_, h1, h2, h3⟩ | ⟨_, _, _, h4⟩
  · subst h1 h2 h3; simp
  · rcases h4 with ⟨h1, h2, hq', _⟩ | ⟨k, _, _, hr', hk, _, hd0, hq', _⟩
    · subst h1 h2; simp [hq']
    · subst hr'
      refine ⟨hd0 hm, by omega, ?_⟩
      rw [hq']
      have := hk hm
      simp only [Spec.lastN, List.length_append, List.length_take, Int.toNat_natCast]
      have hz : f.q.length + min k bs.length - sz = 0 := by omega
      rw [hz]; simp

/-- a line read is all or nothing: it returns 0 and changes nothing, or removes exactly the bytes it
    reports, and those bytes end in a newline -/
theorem spec_readLine_whole (f : Spec.Fifo) (len lines : Int) (hl : lines ≥ -1) (hlen : len ≥ 0) :
    let r := Spec.readLine f len lines
    (r.1 = 0 ∧ r.2.2 = f) ∨
    (r.1 > 0 ∧ r.2.2.q = f.q.drop r.1.toNat ∧ r.1.toNat ≤ f.q.length ∧
      (f.q.take r.1.toNat).getLast? = some 10) := by
  simp only [Spec.readLine, Spec.peekLine]
  have hc : ¬ (len < 0 ∨ lines < -1) := by omega
  simp only [hc, if_false]
  have hle := lineBytes_le f (len - 1) lines
  have hnl := lineBytes_ends_nl f (len - 1) lines
  generalize Spec.lineBytes f (len - 1) lines = n at hle hnl
  by_cases hn : n = 0
  · left; subst hn; simp
  · right
    have hpos : (n : Int) > 0 := by omega
    simp only [hpos, if_true, Int.toNat_natCast]
    exact ⟨trivial, trivial, hle, hnl (by omega)⟩

/-! ### the whole public API: replay side, descriptor sinks, two buffers -/

/-- any history over the full single-buffer API (base operations, replay, rewind, peek/read/replay
    to a descriptor that takes `cap` bytes) on a freshly created buffer behaves like the FIFO with
    a history of consumed bytes -/
theorem history_refines_replay_fifo (mn mx : Int) (sm : Nat) (hsm : 0 < sm) (c : Cbuf)
    (hc : create mn mx sm = some c) (ops : List OpR) (pol : Policy := chunkPolicy) [Admissible pol] :
    acceptSR (absR c) (traceMR c ops pol) = some (absR (runMR c ops pol).2) ∧
    isValid (runMR c ops pol).2 = true := by
  have h := runR_refines (inv_create hsm hc).1 ops pol
  exact ⟨h.1, isValid_of_inv h.2⟩

/-- the same with a DIFFERENT admissible growth policy at every step: this is the statement that
    covers the model as the driver runs it against the code under test, following at every step
    the capacity the code itself reported (`pinPolicy`, admissible by `pin_admissible`) -/
theorem history_refines_replay_fifo_any_policies (mn mx : Int) (sm : Nat) (hsm : 0 < sm) (c : Cbuf)
    (hc : create mn mx sm = some c) (ops : List (APolicy × OpR)) :
    acceptSR (absR c) (traceMRp c ops) = some (absR (runMRp c ops).2) ∧
    isValid (runMRp c ops).2 = true := by
  have h := runRp_refines (inv_create hsm hc).1 ops
  exact ⟨h.1, isValid_of_inv h.2⟩

/-- a fresh buffer has nothing to replay -/
theorem create_refines_replay (mn mx : Int) (sm : Nat) (hsm : 0 < sm) (c : Cbuf) (hc : create mn mx sm = some c) :
    Spec.create mn mx = some (absR c).f ∧ (absR c).hist = [] ∧ (absR c).wrapped = false := by
  refine ⟨create_refines mn mx sm c hc, ?_⟩
  have hi := (inv_create hsm hc).1
  unfold create at hc
  split at hc
  · simp at hc
  · simp only [Option.some.injEq] at hc
    subst hc
    simp [absR, hist, reused, circRead]

/-- any history over two freshly created buffers, including cbuf_copy and cbuf_move in both
    directions, is accepted by the pair of specifications with identical answers -/
theorem pair_history_refines_fifo (mn1 mx1 mn2 mx2 : Int) (sm : Nat) (hsm : 0 < sm) (a b : Cbuf)
    (ha : create mn1 mx1 sm = some a) (hb : create mn2 mx2 sm = some b) (ops : List Op2)
    (pol : Policy := chunkPolicy) [Admissible pol] :
    acceptS2 (absR2 (a, b)) (traceM2 (a, b) ops pol) = some (absR2 (runM2 (a, b) ops pol).2) ∧
    isValid (runM2 (a, b) ops pol).2.1 = true ∧ isValid (runM2 (a, b) ops pol).2.2 = true := by
  have h := run2_refines (s := (a, b)) ⟨(inv_create hsm ha).1, (inv_create hsm hb).1⟩ ops pol
  exact ⟨h.1, isValid_of_inv h.2.1, isValid_of_inv h.2.2⟩

/-- two buffers, a different admissible growth policy at every step -/
theorem pair_history_refines_fifo_any_policies (mn1 mx1 mn2 mx2 : Int) (sm : Nat) (hsm : 0 < sm) (a b : Cbuf)
    (ha : create mn1 mx1 sm = some a) (hb : create mn2 mx2 sm = some b) (ops : List (APolicy × Op2)) :
    acceptS2 (absR2 (a, b)) (traceM2p (a, b) ops) = some (absR2 (runM2p (a, b) ops).2) ∧
    isValid (runM2p (a, b) ops).2.1 = true ∧ isValid (runM2p (a, b) ops).2.2 = true := by
  have h := run2p_refines (s := (a, b)) ⟨(inv_create hsm ha).1, (inv_create hsm hb).1⟩ ops
  exact ⟨h.1, isValid_of_inv h.2.1, isValid_of_inv h.2.2⟩

/-- the byte / line / replay counters agree with the contents in every reachable state -/
theorem counters_agree (mn mx : Int) (sm : Nat) (hsm : 0 < sm) (c : Cbuf)
    (hc : create mn mx sm = some c) (ops : List OpR) (pol : Policy := chunkPolicy) [Admissible pol] :
    let c' := (runMR c ops pol).2
    c'.used = (absR c').f.q.length ∧ c'.size - c'.used = (absR c').f.size - (absR c').f.q.length ∧
    linesUsed c' = Spec.countNl (absR c').f.q ∧ reused c' = (absR c').hist.length ∧
    (c'.used = 0 ↔ (absR c').f.q = []) ∧ reused c' + c'.used ≤ c'.size := by
  have hi := (runR_refines (inv_create hsm hc).1 ops pol).2
  generalize (runMR c ops pol).2 = c' at hi
  simp only [absR_f, absR_hist, abs_q, abs_size, contents_length, hist_length]
  refine ⟨trivial, trivial, linesUsed_refines hi, trivial, ?_, (reused_facts hi).1⟩
  constructor
  · intro h; exact List.eq_nil_of_length_eq_zero (by rw [contents_length]; exact h)
  · intro h; have := contents_length c'; rw [h] at this; exact this.symm

/-- the getters that have no operation of their own -- `cbuf_lines_reused`, `cbuf_is_empty`,
    `cbuf_free`, `cbuf_opt_get` -- agree with the abstract state in every reachable state -/
theorem getters_agree (mn mx : Int) (sm : Nat) (hsm : 0 < sm) (c : Cbuf)
    (hc : create mn mx sm = some c) (ops : List OpR) (pol : Policy := chunkPolicy) [Admissible pol] :
    let c' := (runMR c ops pol).2
    linesReused c' = Spec.linesReused (absR c') ∧
    (isEmpty c' = true ↔ (absR c').f.q = []) ∧
    free c' = (absR c').f.size - (absR c').f.q.length ∧
    (Spec.optSet (absR c').f (optGet c')).2 = (absR c').f := by
  have hi := (runR_refines (inv_create hsm hc).1 ops pol).2
  generalize (runMR c ops pol).2 = c' at hi
  refine ⟨linesReused_refines hi, ?_, ?_, ?_⟩
  · simp only [isEmpty, decide_eq_true_eq, absR_f, abs_q]
    constructor
    · intro h; exact List.eq_nil_of_length_eq_zero (by rw [contents_length]; exact h)
    · intro h; have := contents_length c'; rw [h] at this; exact this.symm
  · simp [free, contents_length]
  · simp only [absR_f]
    unfold optGet Spec.optSet
    cases hm : c'.mode <;> simp [abs, absMode, hm, Gen.CBUF_NO_DROP, Gen.CBUF_WRAP_ONCE, Gen.CBUF_WRAP_MANY]

/-! ### the whole header -/

/-- EVERY function cbuf.h declares (the list is regenerated from the header of the tree under test
    on every run) is covered by the model: as an operation of the histories, as a getter proved
    equal to the abstract value, or as start / end of a history (`Cbuf/Api.lean`).  A function
    added to the header makes this theorem fail to build. -/
theorem header_covered : Gen.CBUF_API.all apiCovers = true := by decide

/-- the coverage test is not vacuous: it refuses a name the model does not know, and the header
    does declare functions -/
theorem header_coverage_witness : apiCovers "cbuf_shrink_to_fit" = false ∧ Gen.CBUF_API.length > 0 := by
  decide

/-! ### the per-buffer mutex: concurrent histories are sequential histories -/

/-- the buffer as a data structure whose calls are critical sections of its mutex: every public
    function is `lock; <the step function the theorems above are about>; unlock` (the discipline is
    checked on the C code by the harness on every call: exactly one lock and one unlock per call,
    never nested) -/
def cbufSys (pol : Policy) : Lin.Sys Cbuf OpR Out where
  stepFn c op := stepMR c op pol
  body op := [fun c => (stepMR c op pol).2]
  body_ok _ _ := rfl

theorem seqRun_eq_runMR (pol : Policy) {τ : Type} (c : Cbuf) (calls : List (τ × OpR)) :
    (Lin.seqRun (cbufSys pol) c calls).1 = (runMR c (calls.map (·.2)) pol).2 ∧
    (Lin.seqRun (cbufSys pol) c calls).2.map (·.2.2) = (runMR c (calls.map (·.2)) pol).1 := by
  induction calls generalizing c with
  | nil => exact ⟨rfl, rfl⟩
  | cons p rest ih =>
    obtain ⟨t, op⟩ := p
    have := ih (stepMR c op pol).2
    simp only [Lin.seqRun, cbufSys, List.map_cons, runMR, List.map] at this ⊢
    exact ⟨this.1, by rw [this.2]⟩

/-- LINEARIZABILITY of the buffer under its mutex: whatever the threads and the schedule, an
    execution that starts and ends with the mutex free leaves the buffer in the state, and gives
    every call the answer, of the SEQUENTIAL history of the calls in the order in which they took
    the mutex -- and that sequential history is accepted by the FIFO specification
    (`history_refines_replay_fifo`), the buffer being valid at the end.  Program order and real-time
    order are respected by construction (`Lin.calls_of_thread`, `Lin.calls_append`). -/
theorem concurrent_history_linearizable {τ : Type} [DecidableEq τ] (mn mx : Int) (sm : Nat) (hsm : 0 < sm)
    (c c' : Cbuf) (hc : create mn mx sm = some c) (pol : Policy) [Admissible pol]
    (evs : List (Lin.Ev τ OpR)) (outs : List (τ × OpR × Out))
    (h : Lin.exec (cbufSys pol) { s := c, owner := none } evs = some ({ s := c', owner := none }, outs)) :
    let ops := (Lin.calls evs).map (·.2)
    c' = (runMR c ops pol).2 ∧ outs.map (·.2.2) = (runMR c ops pol).1 ∧
    acceptSR (absR c) (traceMR c ops pol) = some (absR c') ∧ isValid c' = true := by
  have hl := Lin.linearizable (cbufSys pol) c c' evs outs h
  obtain ⟨h1, h2⟩ := seqRun_eq_runMR pol c (Lin.calls evs)
  rw [hl] at h1 h2
  simp only at h1 h2
  have hr := history_refines_replay_fifo mn mx sm hsm c hc ((Lin.calls evs).map (·.2)) pol
  refine ⟨h1, h2, ?_, ?_⟩
  · rw [h1]; exact hr.1
  · rw [h1]; exact hr.2

/-! what the replay side of the specification means -/

/-- rewinding what was just consumed restores the queue and the history -/
theorem spec_rewind_undoes_consume (r : Spec.RFifo) (n : Nat) (hn : n ≤ r.f.q.length) :
    let r' : Spec.RFifo := { r with f := { r.f with q := r.f.q.drop n }, hist := r.hist ++ r.f.q.take n }
    (Spec.rewind r' n).1 = n ∧ (Spec.rewind r' n).2 = r := by
  simp only [Spec.rewind]
  have h1 : ¬ ((n : Int) < -1) := by omega
  have hlen : (r.hist ++ r.f.q.take n).length = r.hist.length + n := by simp; omega
  simp only [h1, if_false, Int.toNat_natCast, hlen]
  by_cases hm : (n : Int) = -1
  · omega
  · simp only [hm, if_false]
    have e : min n (r.hist.length + n) = n := by omega
    rw [e]
    refine ⟨rfl, ?_⟩
    have e2 : r.hist.length + n - n = r.hist.length := by omega
    simp only [Spec.lastN, hlen, e2, List.drop_left, List.take_left, List.take_append_drop]

/-- replay hands out a suffix of the history and changes nothing -/
theorem spec_replay_suffix (r : Spec.RFifo) (len : Int) (h : 0 ≤ len) :
    ∃ k, (Spec.replay r len).2 = r.hist.drop k ∧ (Spec.replay r len).1 = ((Spec.replay r len).2.length : Int) ∧
      (Spec.replay r len).2.length = min len.toNat r.hist.length := by
  have : ¬ len < 0 := by omega
  simp only [Spec.replay, this, if_false, Spec.lastN]
  exact ⟨_, rfl, trivial, by simp; omega⟩

/-- a descriptor that takes only `cap` bytes receives a prefix of what was asked for; the call
    reports its length, or -1 when something was to be sent and nothing could be -/
theorem spec_sink_prefix (want : List UInt8) (cap : Nat) :
    (Spec.sinkRet want cap).2 = want.take (min cap want.length) ∧
    ((Spec.sinkRet want cap).1 = ((Spec.sinkRet want cap).2.length : Int) ∨
     ((Spec.sinkRet want cap).1 = -1 ∧ want ≠ [] ∧ cap = 0)) := by
  unfold Spec.sinkRet
  by_cases h0 : want.length = 0
  · have : want = [] := List.eq_nil_of_length_eq_zero h0
    subst this; simp
  · simp only [h0, if_false]
    by_cases hc : cap = 0
    · subst hc
      refine ⟨by simp, Or.inr ⟨by simp, ?_, rfl⟩⟩
      intro h; subst h; simp at h0
    · simp only [hc, if_false]
      exact ⟨(take_min_length want cap).symm, Or.inl trivial⟩

/-! ### the line-level replay side -/

/-- what `cbuf_find_replay_line` reports starts at a line boundary: it is preceded by a newline, or
    it is the whole history and nothing was ever lost ("the first line written in does not need a
    preceding newline") -/
theorem spec_findReplay_line_start (hist : List UInt8) (wrapped : Bool) (chars lines : Int) :
    let m := (Spec.findReplay hist wrapped chars lines).1
    m > 0 → (m = hist.length ∧ wrapped = false) ∨ (m < hist.length ∧ hist[hist.length - 1 - m]? = some 10) :=
  findReplay_line_start hist wrapped chars lines

/-- it never reports more bytes than are replayable -/
theorem spec_findReplay_bounded (hist : List UInt8) (wrapped : Bool) (chars lines : Int) :
    (Spec.findReplay hist wrapped chars lines).1 ≤ hist.length :=
  findReplay_le hist wrapped chars lines

/-- `cbuf_rewind_line` is a `cbuf_rewind` by the bytes of the lines found, or nothing -/
theorem spec_rewindLine_is_rewind (r : Spec.RFifo) (len lines : Int) (h : 0 ≤ len) (hl : -1 ≤ lines) :
    let n := (Spec.rewindLine r len lines).1
    (n > 0 → (Spec.rewindLine r len lines).2 = (Spec.rewind r n).2) ∧
    (¬ n > 0 → (Spec.rewindLine r len lines).2 = r) := by
  have h1 : ¬ (len < 0 ∨ lines < -1) := by omega
  unfold Spec.rewindLine
  simp only [h1, if_false]
  by_cases h0 : lines = 0
  · simp [h0]
  · simp only [h0, if_false]
    by_cases hn : (Spec.findReplay r.hist r.wrapped len lines).1 > 0
    · have hn' : ((Spec.findReplay r.hist r.wrapped len lines).1 : Int) > 0 := by omega
      simp [hn, hn']
    · have hn' : ¬ ((Spec.findReplay r.hist r.wrapped len lines).1 : Int) > 0 := by omega
      simp [hn, hn']

/-- non-vacuity: two lines are consumed, the newest one is replayed and rewound -/
example :
    (do let c ← create 8 8 1
        acceptSR (absR c) (traceMR c [.base (.write [97, 10, 98, 99, 10]), .base (.read 5), .replayLine 9 1,
          .rewindLine 9 1, .base (.readLine 9 1)])).isSome = true := by decide

/-! ### 32-bit `int` arithmetic -/

/-- in a valid state whose maximum size is at most INT_MAX/2 no expression over indices, counts
    and sizes overflows a C `int`; a step of a copy loop never exceeds size + 1 whatever the
    requested length is (so `i_in + len` is never formed) -/
theorem index_arithmetic_no_overflow {c : Cbuf} (hi : Inv c) (hmax : c.maxsize ≤ INT_MAX / 2)
    (hmeta : c.alloc - c.size ≤ 1 + 2 * 8) :
    (∀ e ∈ indexExprs c, e.2 ≤ INT_MAX) ∧
    (∀ i nleft m, i ≤ c.size → chunkStep c i nleft m ≤ c.size + 1 ∧ chunkStep c i nleft m ≤ INT_MAX) :=
  ⟨index_exprs_safe hi hmax hmeta, fun i nleft m h => chunk_step_safe hi hmax i nleft m h⟩

/-- the caller's length enters only `cb->alloc + n` (cbuf_grow) and `used + n`: the bound it needs -/
theorem length_arithmetic_no_overflow {c : Cbuf} (hi : Inv c) (hmeta : c.alloc - c.size ≤ 1 + 2 * 8) (len : Nat)
    (hlen : len + c.maxsize + (1 + 2 * 8) + Gen.CBUF_CHUNK ≤ INT_MAX) :
    ∀ e ∈ lenExprs c len, e.2 ≤ INT_MAX :=
  len_exprs_safe hi hmeta len hlen

/-- both bounds are sharp: size = INT_MAX/2 + 1 overflows `i + size`; a WRAP_MANY write of INT_MAX
    bytes into a buffer holding one byte overflows `used + n` -/
theorem int_overflow_witnesses :
    (let size := INT_MAX / 2 + 1; size + size > INT_MAX ∧ (size - 1) + (size - 1) ≤ INT_MAX) ∧
    (1 : Nat) + INT_MAX > INT_MAX :=
  ⟨index_overflow_witness, len_overflow_witness⟩

/-! ### the two-lock protocol of cbuf_copy / cbuf_move -/

/-- DEADLOCK FREEDOM of the calls of cbuf.h: any number of threads, each making any sequence of
    single-buffer calls and of copies / moves between distinct buffers IN ANY DIRECTIONS, under any
    schedule: (1) a reachable configuration in which no thread can move is one in which every call
    has returned; (2) no execution is longer than the (finite) work of the threads -- so every
    execution that keeps going ends, with all calls completed; (3) no mutex is ever held twice. -/
theorem copy_move_deadlock_free (progs : List (List LockOrder.Call))
    (h : ∀ p ∈ progs, ∀ c ∈ p, LockOrder.IsCbufCall c) (sched : List Nat) (cfg : List LockOrder.Th)
    (hr : LockOrder.run (LockOrder.initial progs) sched = some cfg) :
    ((∀ t ∈ cfg, t.done = true) ∨ ∃ i, (LockOrder.step cfg i).isSome) ∧
    LockOrder.work cfg + sched.length = LockOrder.work (LockOrder.initial progs) ∧
    LockOrder.Exclusive cfg :=
  ⟨LockOrder.cbuf_calls_never_deadlock progs h sched cfg hr, LockOrder.run_length_le sched hr,
   LockOrder.exclusive_run sched (LockOrder.exclusive_initial progs) hr⟩

/-- the address comparison and the `src == dst` refusal are both needed: source-first locking
    deadlocks two threads that copy in opposite directions, and a copy of a buffer onto itself
    would block on its own (non-recursive) mutex -/
theorem unordered_locking_deadlocks :
    (∃ cfg, LockOrder.run (LockOrder.initial [[LockOrder.pairNaive 0 1], [LockOrder.pairNaive 1 0]]) [0, 1, 0, 1] = some cfg ∧
      (∀ i, i < 2 → LockOrder.step cfg i = none) ∧ cfg.all (fun t => !t.done) = true) ∧
    (∃ cfg, LockOrder.run (LockOrder.initial [[LockOrder.pairNaive 3 3]]) [0, 0] = some cfg ∧
      LockOrder.step cfg 0 = none ∧ cfg.all (fun t => !t.done) = true) :=
  ⟨LockOrder.naive_protocol_deadlocks, LockOrder.same_buffer_self_deadlock⟩

/-! ### size_meta is a constant of the buffer -/

/-- `alloc - size` (what cbuf_grow calls size_meta), `minsize` and `maxsize` keep the values
    `cbuf_create` gave them, over every history, whatever admissible growth policy is followed at
    each step -/
theorem size_meta_constant (mn mx : Int) (sm : Nat) (c : Cbuf) (hc : create mn mx sm = some c)
    (ops : List (APolicy × OpR)) :
    let c' := (runMRp c ops).2
    c'.alloc - c'.size = sm ∧ (c'.minsize : Int) = mn ∧ (c'.maxsize : Int) = max mn mx := by
  have hg := runMRp_geo ops c
  obtain ⟨h1, h2, h3⟩ := create_geo hc
  exact ⟨hg.smeta.trans h1, by rw [hg.minsize]; exact h2, by rw [hg.maxsize]; exact h3⟩

/-- the overflow theorem WITHOUT the hypothesis on size_meta: for every buffer created with bounds
    up to INT_MAX/2 (and the meta cells of either build flavour), in every reachable state, none of
    the index expressions overflows a C int, and no class of additive statement of cbuf.c that does
    not involve the caller's length does -/
theorem index_arithmetic_no_overflow_reachable (mn mx : Int) (sm : Nat) (hsm : 0 < sm) (hsm' : sm ≤ 1 + 2 * 8)
    (c : Cbuf) (hc : create mn mx sm = some c) (hmax : max mn mx ≤ (INT_MAX / 2 : Nat))
    (ops : List (APolicy × OpR)) :
    let c' := (runMRp c ops).2
    (∀ e ∈ indexExprs c', e.2 ≤ INT_MAX) ∧
    (∀ k : IntClass, k ≠ .lenDep → k.bound c' 0 ≤ INT_MAX) := by
  have hi := (runRp_refines (inv_create hsm hc).1 ops).2
  obtain ⟨h1, _, h3⟩ := size_meta_constant mn mx sm c hc ops
  have hm : (runMRp c ops).2.maxsize ≤ INT_MAX / 2 := by
    have : ((runMRp c ops).2.maxsize : Int) ≤ (INT_MAX / 2 : Nat) := by rw [h3]; exact hmax
    exact Int.ofNat_le.mp this
  have hmeta : (runMRp c ops).2.alloc - (runMRp c ops).2.size ≤ 1 + 2 * 8 := by rw [h1]; exact hsm'
  exact ⟨index_exprs_safe hi hm hmeta, fun k hk => int_classes_safe_index hi hm hmeta k hk⟩

set_option maxRecDepth 100000 in
/-- EVERY additive statement of the cbuf.c under test (regenerated from the source on every run)
    is classified by `intExprTable` (key: the statement text, whatever function it stands in): a
    statement added to cbuf.c makes this theorem fail to build -/
theorem int_exprs_covered : Gen.CBUF_INT_EXPRS.isSublist intExprKeys = true := by decide

set_option maxRecDepth 100000 in
/-- the coverage test is not vacuous: the list is not empty and an unknown statement is refused -/
theorem int_exprs_coverage_witness :
    Gen.CBUF_INT_EXPRS.length > 80 ∧
    (Gen.CBUF_INT_EXPRS ++ ["~i_dst=dst->i_in+len"]).isSublist intExprKeys = false := by
  decide

/-- non-vacuity of the extended theorems: replay after a read, rewind, a short descriptor write,
    then copy and move between two buffers -/
example :
    (do let a ← create 2 6 1
        let b ← create 3 3 1
        acceptS2 (absR2 (a, b)) (traceM2 (a, b)
          [.on false (.base (.write [97, 10, 98, 99])), .on false (.base (.read 3)), .on false (.replay 2),
           .on false (.rewind 1), .on false (.readToFd (-1) 1), .copy false (-1), .move false 1,
           .on true (.base (.read 9)), .on true (.replayToFd (-1) 2)])).isSome = true := by decide

/-! ### the growth policy is a parameter -/

/-- the policy of the code as it is (round the needed allocation up to the next CBUF_CHUNK
    multiple) is admissible -/
theorem chunk_policy_admissible : Admissible chunkPolicy := inferInstance

/-- following an observed capacity is admissible whatever was observed -/
theorem pinned_policy_admissible (base : Policy) [Admissible base] (sizeMeta sObs : Nat) :
    Admissible (pinPolicy base sizeMeta sObs) := inferInstance

/-- admissibility is decidable choice by choice (`Policy.admAt`), and an admissible policy passes
    the test at every point -/
theorem admissible_decidable_pointwise (pol : Policy) [Admissible pol] (alloc n mn mx : Nat) :
    pol.admAt alloc n mn mx = true := admAt_of_admissible pol alloc n mn mx

/-- what admissibility buys, and all the proofs use of it -- "grow before you lose": after the
    growth step of any writing call the request fits into the free space or the buffer has its
    maximum size; the capacity never shrinks and never exceeds the maximum; nothing held is lost -/
theorem grow_before_you_lose {c : Cbuf} (hi : Inv c) (len : Nat) (pol : Policy) [Admissible pol] :
    let c' := (maybeGrow c len pol).1
    (len ≤ c'.size - c'.used ∨ c'.size = c'.maxsize) ∧ c.size ≤ c'.size ∧ c'.size ≤ c'.maxsize ∧
    contents c' = contents c ∧ hist c' = hist c ∧ Inv c' := by
  have g := maybeGrow_ok hi len pol
  have w := maybeGrow_whole hi len pol
  refine ⟨g.enough, g.sizeLo, g.inv.smax, g.contents, ?_, g.inv⟩
  have h1 := whole_eq g.inv
  have h2 := whole_eq hi
  rw [w, h2, g.contents] at h1
  exact (List.append_cancel_right h1).symm

/-- an inadmissible choice is observable: a policy that asks for less than is needed leaves a
    request that does not fit although the buffer is not at its maximum (witness) -/
theorem inadmissible_choice_witness :
    (do let c ← create 2 50 1
        let c' := (maybeGrow c 10 (fun alloc _ _ _ => alloc + 1)).1
        some (decide (10 ≤ c'.size - c'.used ∨ c'.size = c'.maxsize))) = some false := by decide

/-- geometric growth (harmless change C13-H2): at least double the allocation -/
def doublingPolicy : Policy := fun alloc n _ _ => max (2 * alloc) (alloc + n)

instance doubling_admissible : Admissible doublingPolicy :=
  ⟨fun alloc n _ _ => by simp only [doublingPolicy]; omega⟩

/-- non-vacuity of the policy parameter: the same history is accepted under geometric growth, and
    the two policies really choose different capacities -/
example :
    (do let c ← create 2 40 1
        let ops : List OpR := [.base (.write [97, 10, 98]), .base (.write [99, 100, 10, 101]), .base (.readLine 8 1),
          .replay 2, .base (.read 3)]
        let _ ← acceptSR (absR c) (traceMR c ops doublingPolicy)
        some (decide ((runMR c ops doublingPolicy).2.size ≠ (runMR c ops).2.size))) = some true := by decide

/-- OUT-PARAMETER on every path (cbuf.h: "Sets [ndropped] (if not NULL) to the number of bytes
    overwritten"): in every reachable state, under every admissible growth policy, a call of ANY
    operation that stored nothing (answer <= 0: zero length, nothing available, refused) reports a
    drop count of 0 -- not what an earlier call left in the caller's variable. -/
theorem ndropped_set_on_every_path (mn mx : Int) (sm : Nat) (hsm : 0 < sm) (c : Cbuf)
    (hc : create mn mx sm = some c) (ops : List Op) (op : Op) (pol : Policy := chunkPolicy) [Admissible pol]
    (hr : (stepM (runM c ops pol).2 op pol).1.ret ≤ 0) :
    (stepM (runM c ops pol).2 op pol).1.ndropped = 0 :=
  stepM_nothing_stored (run_refines (inv_create hsm hc).1 ops pol).2 op pol hr

/-- the same for the buffer-to-buffer calls (destination in any state satisfying the invariant) -/
theorem ndropped_set_copy_move {src dst : Cbuf} (hs : Inv src) (hd : Inv dst) (len : Int)
    (pol : Policy := chunkPolicy) [Admissible pol] :
    ((copy src dst len pol).1 ≤ 0 → (copy src dst len pol).2.1 = 0) ∧
    ((move src dst len pol).1 ≤ 0 → (move src dst len pol).2.1 = 0) :=
  ⟨fun h => Spec.copy_nothing_stored (copy_refines (src := src) hd len pol).1 h,
   fun h => Spec.move_nothing_stored (move_refines hs hd len pol).1 h⟩

/-- calls refused at the entry point (EINVAL: NULL source, negative length, invalid descriptor,
    src == dst): answer -1, out-parameter 0, buffer untouched; the spec step is the same -/
theorem refused_calls_set_ndropped (c : Cbuf) (k : Refusal) :
    stepSRefused (absR c) k = ((stepMRefused c k).1, absR (stepMRefused c k).2) ∧
    (stepMRefused c k).1.ndropped = 0 ∧ (stepMRefused c k).2 = c := refused_refines c k

/-- non-vacuity: the write that overflows reports 1, the zero-length write behind it 0 -/
example :
    (do let c ← create 2 2 1
        let s1 := stepM c (.write [1, 2, 3])
        let s2 := stepM s1.2 (.write [])
        some (s1.1.ndropped, s2.1.ret, s2.1.ndropped)) = some (1, 0, 0) := by decide

/-- non-vacuity: a concrete history with growth, wrap-around and a line read is accepted -/
example :
    (do let c ← create 2 5 1
        acceptS (abs c) (traceM c [.write [97, 10, 98], .write [99, 100, 10, 101], .readLine 8 1, .read 3])).isSome
      = true := by decide

end PdshVerif.C13
