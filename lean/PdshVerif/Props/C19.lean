import PdshVerif.Dshbak.Model
import PdshVerif.Dshbak.Spec

namespace PdshVerif.Props.C19
open PdshVerif.Dshbak

/-- D21 witness: the final line of `a: x\na: y` lacks its newline and is dropped -/
theorem unterminated_dropped_witness :
    processLines false (readLines "a: x\na: y".toList) = [("a".toList, ["x".toList])] := by decide

end PdshVerif.Props.C19
