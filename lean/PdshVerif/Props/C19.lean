import PdshVerif.Dshbak.DirTreeLemmas
import PdshVerif.Dshbak.Model
import PdshVerif.Dshbak.Spec
import PdshVerif.Dshbak.Input
import PdshVerif.Dshbak.CoalesceLemmas
import PdshVerif.Dshbak.CompressLemmas
import PdshVerif.Dshbak.SpecLemmas
import PdshVerif.Dshbak.HeaderExpands
import PdshVerif.Dshbak.Rechunk
import PdshVerif.Dshbak.HostNames
import PdshVerif.Dshbak.Options

/-!
# C19  dshbak regroups output losslessly; its host headers mean what pdsh means

Theorems about the model `Dshbak/Model.lean` + `Dshbak/Options.lean` of scripts/dshbak (tied to the Perl
script by checks/c19.py).  Everything holds for EVERY order in which Perl may enumerate its hashes: the key
order `ks` and the order `gs` of the suffix groups of a header are universally quantified.

clause of the property text                              theorem(s)
-------------------------------------------------------  -----------------------------------------------------------
for each label exactly that host's lines, in order       `lines_preserved` (all inputs), `match_formatted`,
                                                         `match_only_labelled`, `input_is_its_lines`, `input_text_table`,
                                                         `file_arguments_lines` (input as several files, any of them
                                                         unterminated)
... to the report                                        `normal_spec`
... or, with -d, to one file per host                    `per_file_spec` (paths `DIR/LABEL` pairwise different, one per
                                                         label, holding its lines), `per_file_on_tree` /
                                                         `per_file_tree_lossless` (ON A DIRECTORY TREE: the entry LABEL of
                                                         DIR holds the label's lines), `file_names_are_labels`, `plan_d`,
                                                         `plan_f`, `plan_c_d_refused`, `plan_forms_agree`; option block:
                                                         `plan_cases`, `plan_exclusive`
labels that are PATHS (F19-DIRLABEL, open)               `path_labels_last_writer_wins`, `dot_slash_label_shares_file`,
                                                         `dotdot_label_leaves_dir`, `unopenable_label_aborts`,
                                                         `unopenable_labels` (general, for every tree)
-c: merged iff outputs identical                         `coalesce_iff`, `coalesce_spec`
every host under exactly one header, each body once      `partition`, `coalesce_spec` (`once`, `bodyOnce`)
a header, read as a pdsh expression, expands to exactly  `compress_expands(_repaired)`, `header_expands`,
the hosts whose output it heads                          `header_parses_back`, `report_headers_parse_back`,
                                                         `coalesced_headers_spec(_repaired)`, `coalesced_text_spec`,
                                                         `ranges_within_limit`, `ranges_per_bracket`
which labels are outside the header → parser tie         `outside_parser_domain_iff` (exactly: `,` `[` `]`, > 1000 bytes,
                                                         number ≥ 2^64-1); regrouping stays lossless for them

Proved:  the per-tag lists are exactly the tag's lines in input order (all inputs);  the matcher
recovers label and body of every well-formed labelled line and ignores lines without a colon;
report / -d output satisfies `Spec.NormalOk`;  -c output satisfies `Spec.CoalescedOk` (every host
under exactly one header, merged iff identical, every body once);  the structured header
`compressGroups g` denotes, under the small expander `hostsOf`, a permutation of the group `g`
(for groups without a stem clash);  both together: the -c output with every header replaced by what
it denotes satisfies `Spec.CoalescedOk`.
`header_expands`: the header TEXT of the repaired script, read by C01's model of `hostlist_create`
(any variant of hostlist.c), yields exactly the group — the bridge between the Perl compressor and
the C parser as a theorem (`Dshbak/HostlistBridge.lean`, `HeaderExpands.lean`).
OPTIONS (`Dshbak/Options.lean`): the block "Process args" test by test (`plan`): the script either stops before it
reads input (usage, exit 0 / fatal, exit 1) or runs exactly one output function; -d DIR [-f] writes one file per
label.
Not proved here:  Perl itself and the C parser are tied to their models by the checks (C19 runs the
real `pdsh -Q -w HEADER` on every generated header as correspondence; C01 ties hostlist.c to its
model);  for the UNREPAIRED script the text-level statement is false (F19-EMPTYSTEM, F19-LONGRUN);  open(2) itself
(modelled in `Dshbak/DirTree.lean`: directories + files, no symbolic links, no permissions; tied to the real script
by checks/c19.py, which compares exit status and every file left behind for every pair of 17 labels).
Genuine defects mirrored by the model, each with a switchable repaired variant that the check
selects by probing the real script: D21 (`unterminated_dropped` / `repaired_keeps_last`),
F19-EMPTYSTEM (`emptystem_witness`; excluded from `compress_expands` by `NoStemClash`, no exclusion
left in `compress_expands_repaired`), F19-LONGRUN (`longrun_witness`, `ranges_within_limit`;
`compress_expands` holds for every limit), F19-MANYRANGES (`manyranges_witness`,
`ranges_per_bracket`), F19-DIRZERO (`dirzero_witness`: `-d 0` was taken for "no -d"; repaired by /repo 8474bb4 — `plan false` = `defined $opt_d`
is what the driver runs and what `plan_d` / `plan_f` / `plan_c_d_refused` are about).
-/
namespace PdshVerif.Props.C19
open PdshVerif.Dshbak

/-- every tag's list holds exactly the bodies of the lines the matcher attributes to that tag, in
input order — for all inputs, well formed or not -/
theorem lines_preserved (rep : Bool) (ls : List (Str × Bool)) (t : Str) :
    get (processLines rep ls) t = ls.filterMap (bodyFor rep t) := by
  have := get_foldl rep t ls []
  simpa [processLines, Dshbak.get, assoc] using this

/-- the label/body regex recovers a labelled line however it is padded (blanks before the label,
blanks before the colon, with or without the separating blank) -/
theorem match_formatted (rep : Bool) (r : FRec) (h : r.WF) :
    matchLine rep (r.line, true) = some (r.tag, r.body) := matchLine_formatted rep r h

/-- the converse: a line contributes to the report ONLY if it has that shape — blanks, a non-empty
run of non-blanks (the label), blanks, a colon; its body is what follows the colon minus one
optional blank.  Together with `match_formatted`: dshbak attributes a line to a host exactly when
the line is a labelled line, and every other line is ignored (never mixed into a host's output). -/
theorem match_only_labelled (rep : Bool) (l t b : Str) (h : matchLine rep (l, true) = some (t, b)) :
    ∃ lead mid rest, l = lead ++ (t ++ (mid ++ ':' :: rest)) ∧ b = dropOneSpace rest ∧ t ≠ [] ∧
      (∀ c ∈ lead, isSpace c = true) ∧ (∀ c ∈ t, isSpace c = false) ∧ (∀ c ∈ mid, isSpace c = true) :=
  matchLine_some h

/-- a text made of newline-terminated lines is cut into exactly those lines -/
theorem input_is_its_lines (ls : List Str) (h : ∀ l ∈ ls, '\n' ∉ l) :
    readLines (ls.flatMap (· ++ ['\n'])) = ls.map (·, true) := by
  have := readLines_lines ls h [] (by simp)
  simpa using this

/-- the table the following theorems speak about is the one dshbak builds from the input TEXT -/
theorem input_text_table (rep : Bool) (ls : List InLine) (h : ∀ l ∈ ls, '\n' ∉ l.text) :
    processLines rep (readLines ((ls.map InLine.text).flatMap (· ++ ['\n']))) = table rep ls := by
  rw [input_is_its_lines (ls.map InLine.text) (by
    intro l hl
    obtain ⟨x, hx, rfl⟩ := List.mem_map.mp hl
    exact h x hx)]
  simp [table, List.map_map, Function.comp_def]

/-- report and -d mode: one block (file) per label, holding exactly that label's lines in their
original order, whatever order Perl enumerates the hash in -/
theorem normal_spec (rep : Bool) (ls : List InLine) (h : ∀ l ∈ ls, l.WF) (ks : List Str)
    (hks : ks.Perm (keys (table rep ls))) :
    Spec.NormalOk (recsOf ls) (normalBlocks ks (table rep ls)) := by
  have hs : (sortn ks).Perm ks := sortn_perm _
  have hnd : (keys (table rep ls)).Nodup := keys_nodup_foldl rep _ [] (by simp [keys])
  have hfst : (normalBlocks ks (table rep ls)).map Prod.fst = sortn ks := by
    simp [normalBlocks, List.map_map, Function.comp_def]
  refine ⟨?_, ?_, ?_, ?_⟩
  · rw [hfst]; exact (hs.trans hks).nodup_iff.mpr hnd
  · intro t ht
    rw [hfst]
    exact (hs.trans hks).mem_iff.mpr ((mem_keys_table rep t ls h).mpr ht)
  · intro t ht
    rw [hfst] at ht
    exact (mem_keys_table rep t ls h).mp ((hs.trans hks).mem_iff.mp ht)
  · intro b hb
    obtain ⟨t, _, rfl⟩ := List.mem_map.mp hb
    simp only [table]
    rw [lines_preserved, get_table rep t ls h]

/-- -c mode, in terms of the labels: every label is under exactly one header, a header's body is
the output of each of its labels, no body is printed twice -/
theorem coalesce_spec (rep : Bool) (ls : List InLine) (h : ∀ l ∈ ls, l.WF) (ks : List Str)
    (hks : ks.Perm (keys (table rep ls))) :
    Spec.CoalescedOk (recsOf ls) (coalesce ks (table rep ls)) := by
  have hnd : (keys (table rep ls)).Nodup := keys_nodup_foldl rep _ [] (by simp [keys])
  have inv := coalesce_inv (table rep ls) hnd ks hks
  have hget : ∀ t b, assoc (table rep ls) t = some b → Spec.linesOf (recsOf ls) t = b := by
    intro t b hb
    have := lines_preserved rep (ls.map fun l => (l.text, true)) t
    rw [get_table rep t ls h] at this
    rw [← this]
    simp only [Dshbak.get, table] at hb ⊢
    rw [hb]; rfl
  refine ⟨inv.once, ?_, ?_, ?_, inv.nonempty, inv.bodyOnce⟩
  · intro t ht
    obtain ⟨e, he, rfl⟩ := List.mem_map.mp ((mem_keys_table rep t ls h).mpr ht)
    rcases inv.covered e he with h1 | h1
    · rcases inv.live e h1 with h2 | h2
      · simp at h2
      · exact h2
    · exact h1
  · intro t ht
    obtain ⟨blk, hblk, hat⟩ := List.mem_flatMap.mp ht
    exact (mem_keys_table rep t ls h).mp (mem_keys_of_assoc (inv.bodies blk hblk t hat))
  · intro blk hblk t ht
    exact hget t blk.2 (inv.bodies blk hblk t ht)

/-- with -c, two hosts end up under the same header if and only if their outputs are identical -/
theorem coalesce_iff (rep : Bool) (ls : List InLine) (h : ∀ l ∈ ls, l.WF) (ks : List Str)
    (hks : ks.Perm (keys (table rep ls))) {b₁ b₂ : List Str × List Str}
    (h₁ : b₁ ∈ coalesce ks (table rep ls)) (h₂ : b₂ ∈ coalesce ks (table rep ls))
    {t₁ t₂ : Str} (ht₁ : t₁ ∈ b₁.1) (ht₂ : t₂ ∈ b₂.1) :
    b₁ = b₂ ↔ Spec.linesOf (recsOf ls) t₁ = Spec.linesOf (recsOf ls) t₂ :=
  (coalesce_spec rep ls h ks hks).merged_iff h₁ h₂ ht₁ ht₂

/-- the tags under the headers of a -c report are a rearrangement of the input's tags: every host
under exactly one header -/
theorem partition (rep : Bool) (ls : List InLine) (h : ∀ l ∈ ls, l.WF) (ks : List Str)
    (hks : ks.Perm (keys (table rep ls))) :
    ((coalesce ks (table rep ls)).flatMap Prod.fst).Perm (keys (table rep ls)) := by
  have hnd : (keys (table rep ls)).Nodup := keys_nodup_foldl rep _ [] (by simp [keys])
  have sp := coalesce_spec rep ls h ks hks
  refine (List.perm_ext_iff_of_nodup sp.once hnd).mpr fun t => ?_
  rw [mem_keys_table rep t ls h]
  exact ⟨sp.only t, sp.all t⟩

/-- the compressed header denotes its group: whatever order the suffix groups come in, the hosts
the structured header stands for (prefix, zero-padded ranges at the width of the lower bound as
typed, suffix) are a rearrangement of the hosts that were compressed -/
theorem compress_expands (lim : Option Nat) (g : List Str) (hnd : g.Nodup) (hdom : NoStemClash g)
    (gs : List (List Elem)) (hgs : gs.Perm (compressGroups lim g)) : (hostsOf gs).Perm g :=
  compress_denotes lim g hnd hdom gs hgs

/-- the same for the script with F19-EMPTYSTEM repaired — now for EVERY set of distinct names: the
domain restriction `NoStemClash` is gone (and it holds with or without the F19-LONGRUN repair) -/
theorem compress_expands_repaired (lim : Option Nat) (g : List Str) (hnd : g.Nodup)
    (gs : List (List Elem)) (hgs : gs.Perm (compressGroupsFixed lim g)) : (hostsOf gs).Perm g :=
  compress_fixed_denotes lim g hnd gs hgs

/-- with F19-LONGRUN repaired no range element of a header stands for more than `m` consecutive
numbers (`m` = 16384 = hostlist.c's MAX_RANGE), in either form of `compress` -/
theorem ranges_within_limit (m : Nat) (hm : 0 < m) (mr : Option Nat) (stemFix : Bool) (tags : List Str) :
    ∀ grp ∈ compressV (some m) mr stemFix tags, ∀ e ∈ grp, ∀ r ∈ e.runs, r.hi - r.lo < m :=
  compressV_within m hm mr stemFix tags

/-- with F19-MANYRANGES repaired no bracket of a header holds more than `k` range elements
(`k` = 10240 = hostlist.c's MAX_RANGES), and cutting a prefix into several brackets changes nothing
the header denotes -/
theorem ranges_per_bracket (lim : Option Nat) (k : Nat) (hk : 0 < k) (stemFix : Bool) (tags : List Str) :
    (∀ grp ∈ compressV lim (some k) stemFix tags, ∀ e ∈ grp, e.runs.length ≤ k) ∧
    hostsOf (compressV lim (some k) stemFix tags) = hostsOf (compressV lim none stemFix tags) := by
  refine ⟨fun grp hgrp e' he' => ?_, by simp only [compressV, hostsOf_rechunk]⟩
  obtain ⟨g, _, e, _, hsp⟩ := mem_rechunk hgrp he'
  simp only [splitElem, List.mem_map] at hsp
  obtain ⟨c, hc, rfl⟩ := hsp
  exact piecesOf_len k _ [] (by simpa using hk) c hc

/-- -c mode with every header replaced by what it denotes satisfies the specification: every host
under exactly one header, merged iff identical outputs, each body once, and each header stands for
exactly the hosts whose output it heads -/
theorem coalesced_headers_spec (rep : Bool) (ls : List InLine) (h : ∀ l ∈ ls, l.WF) (ks : List Str)
    (hks : ks.Perm (keys (table rep ls)))
    (lim : Option Nat) (order : List Str → List (List Elem))
    (horder : ∀ b ∈ coalesce ks (table rep ls), (order b.1).Perm (compressGroups lim b.1))
    (hdom : ∀ b ∈ coalesce ks (table rep ls), NoStemClash b.1) :
    Spec.CoalescedOk (recsOf ls)
      ((coalesce ks (table rep ls)).map fun b => (hostsOf (order b.1), b.2)) := by
  have sp := coalesce_spec rep ls h ks hks
  apply sp.perm_heads (fun b => hostsOf (order b.1))
  intro b hb
  have hsub : b.1.Sublist ((coalesce ks (table rep ls)).flatMap Prod.fst) := by
    rw [List.flatMap_def]
    exact List.sublist_flatten_of_mem (List.mem_map.mpr ⟨b, hb, rfl⟩)
  exact compress_expands lim b.1 (hsub.nodup sp.once) (hdom b hb) _ (horder b hb)

/-- the same for the repaired script, without any restriction on the host names -/
theorem coalesced_headers_spec_repaired (rep : Bool) (ls : List InLine) (h : ∀ l ∈ ls, l.WF)
    (ks : List Str) (hks : ks.Perm (keys (table rep ls)))
    (lim : Option Nat) (order : List Str → List (List Elem))
    (horder : ∀ b ∈ coalesce ks (table rep ls), (order b.1).Perm (compressGroupsFixed lim b.1)) :
    Spec.CoalescedOk (recsOf ls)
      ((coalesce ks (table rep ls)).map fun b => (hostsOf (order b.1), b.2)) := by
  have sp := coalesce_spec rep ls h ks hks
  apply sp.perm_heads (fun b => hostsOf (order b.1))
  intro b hb
  have hsub : b.1.Sublist ((coalesce ks (table rep ls)).flatMap Prod.fst) := by
    rw [List.flatMap_def]
    exact List.sublist_flatten_of_mem (List.mem_map.mpr ⟨b, hb, rfl⟩)
  exact compress_expands_repaired lim b.1 (hsub.nodup sp.once) _ (horder b hb)

/-- HEADER_EXPANDS (the bridge to C01's parser model, `Hostlist.create` = `hostlist_create`).
For the script as repaired (F19-EMPTYSTEM, F19-LONGRUN with any limit `m ≤ 16384`), every variant
`cfg` of hostlist.c (as found, as probed from /repo, repaired), every group `g` in C19's domain
(`HeaderDom`: distinct non-empty names without separator or bracket characters, ≤ 1000 bytes,
numeric parts < 2^64-1; `hsize`: ≤ 10240 hosts, or F19-MANYRANGES repaired and then any number) and
every order `gs` of the suffix groups: the parser applied to the header TEXT succeeds and the list
it builds denotes exactly the hosts of the group, as a multiset.  This replaces "decided per case by the real `pdsh -Q -w HEADER`" (still run by the check
as correspondence) by a theorem about the two models. -/
theorem header_expands (cfg : PdshVerif.Hostlist.Cfg) (m : Nat) (hm : 0 < m)
    (hm16 : m ≤ PdshVerif.Hostlist.Spec.RANGE_LIMIT) (mr : Option Nat) (g : List Str) (hd : HeaderDom g)
    (hsize : g.length ≤ PdshVerif.Hostlist.Spec.RANGES_LIMIT ∨
      ∃ k, mr = some k ∧ 0 < k ∧ k ≤ PdshVerif.Hostlist.Spec.RANGES_LIMIT)
    (gs : List (List Elem)) (hgs : gs.Perm (compressV (some m) mr true g)) :
    ∃ h, PdshVerif.Hostlist.create cfg (renderHeader gs) = .ok h ∧ h.Good ∧ h.hosts.Perm g :=
  create_header cfg m hm hm16 mr g hd hsize gs hgs

/-- HEADER_PARSES_BACK.  The same with the well-formedness hypothesis as an explicit DECIDABLE
predicate on host names, `hostNameOK` (Dshbak/HostNames.lean): non-empty, at most 1000 bytes, no
white space and no `:` (so dshbak's tag regex reads the name as one tag), no `,` `[` `]` (so the
parser reads it as one word), number part below 2^64-1.  For every group of distinct such names the
header text dshbak prints, read by the hostlist parser model of C01 (`Hostlist.create`, any variant
of hostlist.c), denotes exactly the MULTISET of hosts of the group. -/
theorem header_parses_back (cfg : PdshVerif.Hostlist.Cfg) (m : Nat) (hm : 0 < m)
    (hm16 : m ≤ PdshVerif.Hostlist.Spec.RANGE_LIMIT) (mr : Option Nat) (g : List Str)
    (hnd : g.Nodup) (hnames : ∀ t ∈ g, hostNameOK t = true)
    (hsize : g.length ≤ PdshVerif.Hostlist.Spec.RANGES_LIMIT ∨
      ∃ k, mr = some k ∧ 0 < k ∧ k ≤ PdshVerif.Hostlist.Spec.RANGES_LIMIT)
    (gs : List (List Elem)) (hgs : gs.Perm (compressV (some m) mr true g)) :
    ∃ h, PdshVerif.Hostlist.create cfg (renderHeader gs) = .ok h ∧ h.Good ∧ h.hosts.Perm g :=
  header_expands cfg m hm hm16 mr g (headerDom_of_names g hnd hnames) hsize gs hgs

/-- END TO END for the -c report: for every input whose labelled lines carry labels in the domain
(`hostNameOK`), every header of the report — in whatever order Perl enumerates its hashes — is
parsed back by the hostlist parser model into exactly the hosts whose output it heads -/
theorem report_headers_parse_back (cfg : PdshVerif.Hostlist.Cfg) (m : Nat) (hm : 0 < m)
    (hm16 : m ≤ PdshVerif.Hostlist.Spec.RANGE_LIMIT) (mr : Option Nat)
    (rep : Bool) (ls : List InLine) (h : ∀ l ∈ ls, l.WF)
    (hlab : ∀ r, InLine.labelled r ∈ ls → hostNameOK r.tag = true)
    (ks : List Str) (hks : ks.Perm (keys (table rep ls)))
    (b : List Str × List Str) (hb : b ∈ coalesce ks (table rep ls))
    (hsize : b.1.length ≤ PdshVerif.Hostlist.Spec.RANGES_LIMIT ∨
      ∃ k, mr = some k ∧ 0 < k ∧ k ≤ PdshVerif.Hostlist.Spec.RANGES_LIMIT)
    (gs : List (List Elem)) (hgs : gs.Perm (compressV (some m) mr true b.1)) :
    ∃ hl, PdshVerif.Hostlist.create cfg (renderHeader gs) = .ok hl ∧ hl.hosts.Perm b.1 ∧
      ∀ t ∈ b.1, Spec.linesOf (recsOf ls) t = b.2 := by
  have sp := coalesce_spec rep ls h ks hks
  have hsub : b.1.Sublist ((coalesce ks (table rep ls)).flatMap Prod.fst) := by
    rw [List.flatMap_def]
    exact List.sublist_flatten_of_mem (List.mem_map.mpr ⟨b, hb, rfl⟩)
  have hnames : ∀ t ∈ b.1, hostNameOK t = true := by
    intro t ht
    obtain ⟨r, hr, rfl⟩ := label_is_record (sp.only t (hsub.subset ht))
    exact hlab r hr
  obtain ⟨hl, h1, _, h3⟩ := header_parses_back cfg m hm hm16 mr b.1 (hsub.nodup sp.once) hnames hsize gs hgs
  exact ⟨hl, h1, h3, sp.lines b hb⟩

/-- ... and therefore the whole -c report of the repaired script, with every header TEXT read by the
parser model, satisfies the specification (every host under exactly one header, merged iff
identical, each body once, each header standing for exactly its hosts) -/
theorem coalesced_text_spec (cfg : PdshVerif.Hostlist.Cfg) (m : Nat) (hm : 0 < m)
    (hm16 : m ≤ PdshVerif.Hostlist.Spec.RANGE_LIMIT) (mr : Option Nat)
    (rep : Bool) (ls : List InLine) (h : ∀ l ∈ ls, l.WF) (ks : List Str)
    (hks : ks.Perm (keys (table rep ls)))
    (order : List Str → List (List Elem))
    (horder : ∀ b ∈ coalesce ks (table rep ls), (order b.1).Perm (compressV (some m) mr true b.1))
    (hdom : ∀ b ∈ coalesce ks (table rep ls), HeaderDom b.1 ∧
      (b.1.length ≤ PdshVerif.Hostlist.Spec.RANGES_LIMIT ∨
        ∃ k, mr = some k ∧ 0 < k ∧ k ≤ PdshVerif.Hostlist.Spec.RANGES_LIMIT))
    (parsed : List Str → List Str)
    (hparsed : ∀ b ∈ coalesce ks (table rep ls), ∃ hl,
      PdshVerif.Hostlist.create cfg (renderHeader (order b.1)) = .ok hl ∧ parsed b.1 = hl.hosts) :
    Spec.CoalescedOk (recsOf ls)
      ((coalesce ks (table rep ls)).map fun b => (parsed b.1, b.2)) := by
  have sp := coalesce_spec rep ls h ks hks
  apply sp.perm_heads (fun b => parsed b.1)
  intro b hb
  obtain ⟨hl, h1, h2⟩ := hparsed b hb
  obtain ⟨hl', h1', _, h3⟩ := header_expands cfg m hm hm16 mr b.1 (hdom b hb).1 (hdom b hb).2 _ (horder b hb)
  rw [h1] at h1'
  cases h1'
  rw [h2]; exact h3

/-- WHICH LABELS FALL OUTSIDE `header_parses_back`, exactly.  A label dshbak's tag regex can produce from a
labelled line (non-empty, no white space, no colon — `FRec.WF`) is outside `hostNameOK` if and only if it holds
one of the parser's own syntax characters `,` `[` `]`, or is longer than 1000 bytes, or the number it ends in is
2^64-1 or more.  For THOSE labels the header text is not a host expression for that name (`a,b` reads as two
hosts, `n[1]` as a range) — but nothing else depends on `hostNameOK`: `lines_preserved`, `normal_spec`,
`per_file_spec`, `coalesce_spec`, `coalesce_iff`, `partition` hold for every `FRec.WF` label, and
`compress_expands_repaired` (the structured header denotes the group under the reading `hostsOf`) for every set
of distinct names whatsoever.  Regrouping stays lossless when the header is not parseable. -/
theorem outside_parser_domain_iff (t : Str) (hne : t ≠ []) (hok : ∀ c ∈ t, isSpace c = false ∧ c ≠ ':') :
    hostNameOK t = false ↔
      (',' ∈ t ∨ '[' ∈ t ∨ ']' ∈ t ∨ 1000 < t.length ∨
        PdshVerif.Hostlist.ULONG_MAX ≤ valOf (splitNum (splitSuffix t).1).2) := by
  constructor
  · intro h
    by_cases hcon : (',' ∈ t ∨ '[' ∈ t ∨ ']' ∈ t ∨ 1000 < t.length ∨
        PdshVerif.Hostlist.ULONG_MAX ≤ valOf (splitNum (splitSuffix t).1).2)
    · exact hcon
    · simp only [not_or, Nat.not_lt, Nat.not_le] at hcon
      obtain ⟨h1, h2, h3, h4, h5⟩ := hcon
      have hall : ∀ c ∈ t, hostChar c = true := by
        intro c hc
        have hc1 : c ≠ ',' := fun e => h1 (e ▸ hc)
        have hc2 : c ≠ '[' := fun e => h2 (e ▸ hc)
        have hc3 : c ≠ ']' := fun e => h3 (e ▸ hc)
        simp [hostChar, (hok c hc).1, (hok c hc).2, hc1, hc2, hc3]
      have : hostNameOK t = true := by
        simp only [hostNameOK, Bool.and_eq_true, decide_eq_true_eq, List.all_eq_true, Bool.not_eq_eq_eq_not,
          Bool.not_true, List.isEmpty_eq_false_iff]
        exact ⟨⟨⟨hne, hall⟩, h4⟩, h5⟩
      rw [this] at h; cases h
  · intro h
    cases hh : hostNameOK t with
    | false => rfl
    | true =>
      exfalso
      obtain ⟨_, hall, hlen, hval⟩ := hostNameOK_spec hh
      rcases h with h | h | h | h | h
      · exact absurd (hall _ h) (by decide)
      · exact absurd (hall _ h) (by decide)
      · exact absurd (hall _ h) (by decide)
      · omega
      · omega

/-- names outside the parser's domain are still regrouped: `a,b` and `n[1]` with the same output share one
header whose structured reading is exactly the two names (the TEXT `a,b,n[1]` is what pdsh would misread) -/
example : hostsOf (compressV (some 16384) (some 10240) true (strSort ["a,b".toList, "n[1]".toList])) =
    ["a,b".toList, "n[1]".toList] ∧
    renderHeader (compressV (some 16384) (some 10240) true (strSort ["a,b".toList, "n[1]".toList])) =
      "a,b,n[1]".toList := by decide

/-! ### input given as file arguments -/

/-- FILE ARGUMENTS (`dshbak out1 out2 ...`): with D21 repaired, the table dshbak builds from several files — any
of which may end without a newline, as pdsh writes the unterminated tail of remote output — is the table of all
their lines in order, each treated as a full line: nothing is dropped and no line is glued to the next file's
first line.  (A repair that only looks at the end of ALL input loses the last line of every earlier file:
pinned on the real script by checks/c19.py, `files:*`.) -/
theorem file_arguments_lines (fsx : List (List Str × Str))
    (h : ∀ f ∈ fsx, (∀ l ∈ f.1, '\n' ∉ l) ∧ '\n' ∉ f.2) :
    processLines true (readFiles (fsx.map fileText)) =
      processLines true ((fsx.flatMap fileLines).map (·, true)) := by
  rw [processLines_flags, readFiles_lines fsx h]

/-- two files, the first ending without a newline: both of its lines are there -/
example : processLines true (readFiles ["a: x\na: y".toList, "a: z\nb: w\n".toList]) =
    [("a".toList, ["x".toList, "y".toList, "z".toList]), ("b".toList, ["w".toList])] := by decide

/-- as found (D21), the unterminated last line of EVERY file is dropped -/
example : processLines false (readFiles ["a: x\na: y".toList, "a: z\nb: w".toList]) =
    [("a".toList, ["x".toList, "z".toList])] := by decide

/-! ### options and `-d DIR` -/

/-- NOTHING IS HALF DONE BY THE OPTION BLOCK: whatever the options and whatever is found under the name given
to `-d`, the script either stops before it reads a single line (usage / fatal: nothing is printed to stdout,
no file is written) or runs exactly one of the three output functions — over ALL of `sortn (keys %lines)` -/
theorem plan_cases (truth : Bool) (o : Opts) (ds : DirState) :
    plan truth o ds = .usage ∨ plan truth o ds = .fatal ∨ plan truth o ds = .report ∨
      plan truth o ds = .coalesced ∨ ∃ b, plan truth o ds = .perFile b := by
  cases h : plan truth o ds <;> simp

/-- `-c` never writes files and `-d DIR` never coalesces; `-f` alone, or `-c` with `-d`, is refused -/
theorem plan_exclusive (truth : Bool) (o : Opts) (ds : DirState) :
    (plan truth o ds = .coalesced → o.c = true ∧ dGiven truth o = false ∧ o.f = false) ∧
    (∀ b, plan truth o ds = .perFile b → dGiven truth o = true ∧ o.c = false ∧ (b = true → o.f = true ∧ ds = .missing) ∧
      (b = false → ds = .dir)) ∧
    (plan truth o ds = .report → o.c = false ∧ o.f = false ∧ dGiven truth o = false) := by
  unfold plan
  cases o.h <;> cases o.c <;> cases o.f <;> cases dGiven truth o <;> cases ds <;> simp

/-- THE SCRIPT (`defined $opt_d`, /repo 8474bb4): with `-d DIR` given — WHATEVER the directory is called, `0` and
the empty name included — and DIR an existing directory, the per-file output runs -/
theorem plan_d (o : Opts) (dir : Str) (hd : o.d = some dir) (hh : o.h = false) (hc : o.c = false) :
    plan false o .dir = .perFile false := by
  have : dGiven false o = true := by simp [dGiven, hd]
  simp [plan, hh, hc, this]

/-- `-f` creates a missing DIR and changes nothing when DIR exists (every directory name) -/
theorem plan_f (o : Opts) (dir : Str) (hd : o.d = some dir) (hh : o.h = false) (hc : o.c = false) (hf : o.f = true) :
    plan false o .missing = .perFile true ∧ plan false o .dir = .perFile false ∧ plan false o .notDir = .fatal := by
  have : dGiven false o = true := by simp [dGiven, hd]
  simp [plan, hh, hc, hf, this]

/-- `-c` together with `-d` is refused for every directory name, and `-f` is accepted with every `-d` -/
theorem plan_c_d_refused (o : Opts) (dir : Str) (hd : o.d = some dir) (hh : o.h = false) (hc : o.c = true)
    (ds : DirState) : plan false o ds = .fatal := by
  have : dGiven false o = true := by simp [dGiven, hd]
  simp [plan, hh, hc, this]

/-- both forms of the script agree on every directory name Perl takes for true (all but `0` and the empty name):
the repair changed nothing else -/
theorem plan_forms_agree (o : Opts) (h : ∀ dir, o.d = some dir → perlTrue dir = true) (ds : DirState) :
    plan true o ds = plan false o ds := by
  have : dGiven true o = dGiven false o := by
    unfold dGiven
    cases hd : o.d with
    | none => rfl
    | some dir => simp [h dir hd]
  simp [plan, this]

/-- F19-DIRZERO (witness; repaired by /repo 8474bb4): BEFORE that commit `dshbak -d 0` — a directory named `0` —
printed the report to stdout instead of writing one file per host and refused `-f -d 0`, because the script
tested the truth of the NAME; the script as it is writes the files.  checks/c19.py runs `-d 0`, `-d ''`, `-d 00`,
`-d 0.0` x every flag set in every run: a script that loses `defined` again is reported with `-d 0` -/
theorem dirzero_witness :
    plan true { d := some "0".toList } .dir = .report ∧ plan false { d := some "0".toList } .dir = .perFile false ∧
    plan true { d := some "0".toList, f := true } .dir = .fatal ∧
    plan false { d := some "0".toList, f := true } .dir = .perFile false := by decide

/-- `-d DIR`, LOSSLESS: for every input and every hash order, the paths `do_output_per_file` opens are pairwise
different STRINGS, one per label of the input, each `DIR/LABEL`, and what is printed to it is exactly that
label's lines in input order -/
theorem per_file_spec (rep : Bool) (ls : List InLine) (h : ∀ l ∈ ls, l.WF) (ks : List Str)
    (hks : ks.Perm (keys (table rep ls))) (dir : Str) :
    ((perFileWrites dir ks (table rep ls)).map Prod.fst).Nodup ∧
    (∀ t ∈ Spec.labels (recsOf ls),
      (filePath dir t, Spec.linesOf (recsOf ls) t) ∈ perFileWrites dir ks (table rep ls)) ∧
    (∀ w ∈ perFileWrites dir ks (table rep ls), ∃ t ∈ Spec.labels (recsOf ls),
      w = (filePath dir t, Spec.linesOf (recsOf ls) t)) := by
  have sp := normal_spec rep ls h ks hks
  refine ⟨?_, ?_, ?_⟩
  · have : (perFileWrites dir ks (table rep ls)).map Prod.fst =
        ((normalBlocks ks (table rep ls)).map Prod.fst).map (filePath dir) := by
      simp [perFileWrites, List.map_map, Function.comp_def]
    rw [this]
    exact List.Pairwise.map _ (fun a b hab e => hab (filePath_inj dir a b e)) sp.once
  · intro t ht
    obtain ⟨b, hb, hbt⟩ := List.mem_map.mp (sp.all t ht)
    refine List.mem_map.mpr ⟨b, hb, ?_⟩
    rw [sp.lines b hb, hbt]
  · intro w hw
    obtain ⟨b, hb, rfl⟩ := List.mem_map.mp hw
    exact ⟨b.1, sp.only b.1 (List.mem_map.mpr ⟨b, hb, rfl⟩), by rw [sp.lines b hb]⟩

/-- FILE NAMES = LABELS: a label in C19's domain (`hostNameOK`: what the parser reads as one host) that is not
`.`/`..` and holds no `/` names one directory entry of DIR — for such labels "pairwise different strings"
above means pairwise different FILES.  (`hostNameOK` allows `/` and dots: `a/b`, `./x`, `..` are outside
`fileNameOK`; what the real script does with them — `x` and `./x` share one file, the later one wins, exit 0;
`../x` lands outside DIR; `a/b` and `.` end the run with exit 1 after some files were written — is pinned on
the real script by checks/c19.py, finding F19-DIRLABEL.) -/
theorem file_names_are_labels :
    (["n01", "n1-ib", "0", "x.y_z-1", "..n", "...", ".hidden"].map String.toList).all fileNameOK = true ∧
    (["a/b", "./x", "../x", ".", "..", "", "x/"].map String.toList).all (fun t => !fileNameOK t) = true := by
  decide

/-! ### `-d DIR` on a directory tree (`Dshbak/DirTree.lean`): which file a label's lines end up in -/

/-- ONE FILE PER HOST, ON THE TREE.  DIR resolves to a directory `d`; the labels are pairwise different plain file
names (`fileNameOK`), none of them the name of a sub-directory of DIR.  Then every `open` succeeds (exit 0) and
afterwards the entry LABEL of DIR holds exactly that label's lines in input order, for every label, whatever DIR
held before and in whatever order the labels are taken -/
theorem per_file_tree_lossless (dirs : List Node) (cwd : Node) (dir : Str) (h : dir ≠ []) (d : Node)
    (hd : walk dirs (startOf cwd dir) (splitSlash dir) = some d) (bs : List (Str × List Str))
    (hnd : (bs.map Prod.fst).Nodup) (hok : ∀ b ∈ bs, fileNameOK b.1 = true ∧ (d ++ [b.1]) ∉ dirs) (fs : Files) :
    (runWrites dirs cwd (bs.map fun b => (filePath dir b.1, b.2)) fs).2 = true ∧
    ∀ b ∈ bs, fileAt (runWrites dirs cwd (bs.map fun b => (filePath dir b.1, b.2)) fs).1 (d ++ [b.1]) = some b.2 :=
  runWrites_plain dirs cwd dir h d hd bs hnd hok fs

/-- … composed with the script's own tables: for every input and every hash order, `dshbak -d DIR` with plain
labels leaves, in the entry LABEL of DIR, exactly `Spec.linesOf` of that label -/
theorem per_file_on_tree (rep : Bool) (ls : List InLine) (hwf : ∀ l ∈ ls, l.WF) (ks : List Str)
    (hks : ks.Perm (keys (table rep ls))) (dirs : List Node) (cwd : Node) (dir : Str) (h : dir ≠ []) (d : Node)
    (hd : walk dirs (startOf cwd dir) (splitSlash dir) = some d)
    (hok : ∀ t ∈ Spec.labels (recsOf ls), fileNameOK t = true ∧ (d ++ [t]) ∉ dirs) (fs : Files) :
    (runWrites dirs cwd (perFileWrites dir ks (table rep ls)) fs).2 = true ∧
    ∀ t ∈ Spec.labels (recsOf ls),
      fileAt (runWrites dirs cwd (perFileWrites dir ks (table rep ls)) fs).1 (d ++ [t]) =
        some (Spec.linesOf (recsOf ls) t) := by
  have sp := normal_spec rep ls hwf ks hks
  have hmap : perFileWrites dir ks (table rep ls) =
      (normalBlocks ks (table rep ls)).map fun b => (filePath dir b.1, b.2) := rfl
  have hnd : ((normalBlocks ks (table rep ls)).map Prod.fst).Nodup := sp.once
  have hok' : ∀ b ∈ normalBlocks ks (table rep ls), fileNameOK b.1 = true ∧ (d ++ [b.1]) ∉ dirs := by
    intro b hb
    exact hok b.1 (sp.only b.1 (List.mem_map.mpr ⟨b, hb, rfl⟩))
  have r := runWrites_plain dirs cwd dir h d hd _ hnd hok' fs
  rw [hmap]
  refine ⟨r.1, fun t ht => ?_⟩
  obtain ⟨b, hb, hbt⟩ := List.mem_map.mp (sp.all t ht)
  have := r.2 b hb
  rw [hbt, sp.lines b hb, hbt] at this
  exact this

/-- F19-DIRLABEL, general form 1: THE LAST WRITER WINS.  When every `open` succeeds, a node holds afterwards the
lines of the LAST label (in `sortn` order) whose path resolves to it: the lines of every earlier label that shares
the node are lost, exit 0 -/
theorem path_labels_last_writer_wins (dirs : List Node) (cwd : Node) (nd : Str → Node)
    (pre : List (Str × List Str)) (w : Str × List Str) (post : List (Str × List Str)) (fs : Files)
    (hopen : ∀ x ∈ pre ++ w :: post, openW dirs cwd x.1 = some (nd x.1)) (hlast : ∀ x ∈ post, nd x.1 ≠ nd w.1) :
    (runWrites dirs cwd (pre ++ w :: post) fs).2 = true ∧
    fileAt (runWrites dirs cwd (pre ++ w :: post) fs).1 (nd w.1) = some w.2 := by
  unfold runWrites
  rw [runWrites_all_open dirs cwd nd _ fs hopen]
  exact ⟨rfl, fold_setFile_last nd pre w post fs hlast⟩

/-- F19-DIRLABEL, general form 2: `./LABEL` IS `LABEL` (the two labels share one file, for every tree) -/
theorem dot_slash_label_shares_file (dirs : List Node) (cwd : Node) (dir t : Str) (h : dir ≠ []) (d : Node)
    (hd : walk dirs (startOf cwd dir) (splitSlash dir) = some d) :
    openW dirs cwd (filePath dir ('.' :: '/' :: t)) = openW dirs cwd (filePath dir t) :=
  openW_dot_slash dirs cwd dir t h d hd

/-- F19-DIRLABEL, general form 3: `../LABEL` is an entry of DIR's parent — outside DIR -/
theorem dotdot_label_leaves_dir (dirs : List Node) (cwd : Node) (dir t : Str) (h : dir ≠ []) (d : Node)
    (hd : walk dirs (startOf cwd dir) (splitSlash dir) = some d) (ht : fileNameOK t = true)
    (hnd : (d.dropLast ++ [t]) ∉ dirs) :
    openW dirs cwd (filePath dir ('.' :: '.' :: '/' :: t)) = some (d.dropLast ++ [t]) :=
  openW_dotdot dirs cwd dir t h d hd ht hnd

/-- F19-DIRLABEL, general form 4: ABORTED MIDWAY.  A label `SUB/X` without a directory SUB in DIR, and the labels
`.`, `..` and the empty one, cannot be opened; the script ends there with exit 1: the labels before it (in `sortn`
order) have their files, the labels after it have nothing -/
theorem unopenable_label_aborts (dirs : List Node) (cwd : Node) (nd : Str → Node) (pre : List (Str × List Str))
    (w : Str × List Str) (post : List (Str × List Str)) (fs : Files)
    (hpre : ∀ x ∈ pre, openW dirs cwd x.1 = some (nd x.1)) (hw : openW dirs cwd w.1 = none) :
    runWrites dirs cwd (pre ++ w :: post) fs = (pre.foldl (fun fs x => setFile fs (nd x.1) x.2) fs, false) :=
  runWrites_abort dirs cwd nd pre w post fs hpre hw

theorem unopenable_labels (dirs : List Node) (cwd : Node) (dir : Str) (h : dir ≠ []) (d : Node)
    (hd : walk dirs (startOf cwd dir) (splitSlash dir) = some d) :
    openW dirs cwd (filePath dir ['.']) = none ∧ openW dirs cwd (filePath dir ['.', '.']) = none ∧
    openW dirs cwd (filePath dir []) = none ∧
    (∀ sub t, fileNameOK sub = true → '/' ∉ t → (d ++ [sub]) ∉ dirs →
      openW dirs cwd (filePath dir (sub ++ '/' :: t)) = none) := by
  obtain ⟨a, b, c⟩ := openW_not_a_file dirs cwd dir h d hd
  exact ⟨a, b, c, fun sub t hs ht hno => openW_missing_subdir dirs cwd dir sub t h d hd hs ht hno⟩

/-- the repro of F19-DIRLABEL through the model (`mkdir -p P/D; cd P; printf 'x: 1\n./x: 2\n../e: 3\n' | dshbak -d D`):
`P/D/x` holds only `2`, `3` went to `P/e` (decided; checks/c19.py compares the real script's tree with `runWrites`
for every pair of 17 labels) -/
example :
    runWrites [["P".toList], ["P".toList, "D".toList]] ["P".toList]
      (perFileWrites "D".toList ["x".toList, "./x".toList, "../e".toList]
        (processLines true (readLines "x: 1\n./x: 2\n../e: 3\n".toList))) [] =
    ([(["P", "D", "x"].map String.toList, ["2".toList]), (["P", "e"].map String.toList, ["3".toList])], true) := by
  decide

/-! ### defects of the unchanged script, mirrored by the model -/

/-- D21: whatever precedes it, a final line without newline contributes nothing -/
theorem unterminated_dropped (ls : List Str) (h : ∀ l ∈ ls, '\n' ∉ l) (last : Str) (hl : '\n' ∉ last) :
    processLines false (readLines (ls.flatMap (· ++ ['\n']) ++ last)) =
      processLines false (readLines (ls.flatMap (· ++ ['\n']))) := by
  rw [readLines_lines ls h last hl, input_is_its_lines ls h]
  by_cases he : last.isEmpty
  · simp [he]
  · simp [he, processLines, List.foldl_append, processStep, matchLine]

/-- D21 witness: `printf 'a: x\na: y' | dshbak` prints only x -/
theorem unterminated_dropped_witness :
    processLines false (readLines "a: x\na: y".toList) = [("a".toList, ["x".toList])] := by decide

/-- after the proposed patch the final line is treated like any other -/
theorem repaired_keeps_last (l : Str) : matchLine true (l, false) = matchLine true (l, true) := by
  simp [matchLine]

/-- F19-EMPTYSTEM witness: `foo` and `1foo` with identical output get the header `[-1]foo` -/
theorem emptystem_witness :
    renderHeader (compressGroups none (strSort ["foo".toList, "1foo".toList])) = "[-1]foo".toList ∧
    renderHeader (compressGroupsFixed none (strSort ["foo".toList, "1foo".toList])) =
      "foo,1foo".toList := by
  decide

/-- F19-LONGRUN in miniature (limit 3 instead of 16384): the unchanged script builds one range, the
repaired one starts a new element when the limit is reached -/
theorem longrun_witness :
    renderHeader (compressGroups none (["n1", "n2", "n3", "n4"].map String.toList)) = "n[1-4]".toList ∧
    renderHeader (compressGroups (some 3) (["n1", "n2", "n3", "n4"].map String.toList)) =
      "n[1-3,4]".toList := by
  decide

/-! ### the hypotheses are satisfiable (non-vacuity) -/

example : (FRec.mk " ".toList "n01".toList "\t".toList false "up".toList).WF :=
  ⟨by decide, by decide, by decide, by decide, by decide⟩

example : NoStemClash ["n08-ib".toList, "n09-ib".toList, "n10-ib".toList, "foo".toList, "7".toList] := by
  unfold NoStemClash; decide

example : renderHeader (compressGroups none (strSort ["n08-ib".toList, "n09-ib".toList, "n10-ib".toList])) =
    "n[08-10]-ib".toList := by decide

example : hostsOf (compressGroups none (strSort ["n08-ib".toList, "n09-ib".toList, "n10-ib".toList])) =
    ["n08-ib".toList, "n09-ib".toList, "n10-ib".toList] := by decide

example : HeaderDom (["n08-ib", "n09-ib", "n10-ib", "foo", "0", "7"].map String.toList) :=
  ⟨by decide, by decide, by decide⟩

/-- a non-trivial group meets the decidable hypothesis of `header_parses_back`: mixed zero padding
across 09/10, a numeric-only name, name `0`, a suffix after the number, digits inside the prefix, a
digit-free name -/
example : (["n08-ib", "n09-ib", "n10-ib", "r2d007", "r2d8", "0", "42", "login", "x.y_z-1"].map
    String.toList).all hostNameOK = true := by decide

example : (["n08-ib", "n09-ib", "n10-ib", "r2d007", "r2d8", "0", "42", "login", "x.y_z-1"].map
    String.toList).Nodup := by decide

example : renderHeader (compressV (some 16384) (some 10240) true
    (strSort (["n08-ib", "n09-ib", "n10-ib", "r2d007", "r2d8", "0", "42", "login", "x.y_z-1"].map
      String.toList))) = "login,[0,42],r2d[007,8],x.y_z-1,n[08-10]-ib".toList := by decide

/-- names outside the domain: a blank, a colon, a comma, a bracket, the empty name -/
example : (["a b", "a:b", "a,b", "n[1]", ""].map String.toList).all (fun t => !hostNameOK t) = true := by
  decide

/-- F19-MANYRANGES in miniature (2 elements per bracket instead of 10240) -/
theorem manyranges_witness :
    renderHeader (compressV none none true (["n1", "n3", "n5"].map String.toList)) = "n[1,3,5]".toList ∧
    renderHeader (compressV none (some 2) true (["n1", "n3", "n5"].map String.toList)) =
      "n[1,3],n5".toList := by
  decide

example : renderHeader (compressGroupsFixed (some 16384)
    (strSort (["n08-ib", "n09-ib", "n10-ib", "foo", "1foo"].map String.toList))) =
    "foo,1foo,n[08-10]-ib".toList := by decide

end PdshVerif.Props.C19
