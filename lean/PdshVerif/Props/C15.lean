/-
  C15  Any text given as a host expression is handled safely and within limits.
  PROPERTY THEOREMS ONLY (helper lemmas live in PdshVerif/Hostlist/Lemmas*.lean).

  Totality: `create : Cfg → Str → Outcome HL` is a total Lean function (structural recursion and
  fuel only, no `partial`), so for EVERY text the model answers ok / null+errno / ub / diverge; the
  last two mark the places where the C code reads an unterminated buffer (D18) or loops for ever
  (`pushSuffixRange`, theorem `suffix_loop_diverges_iff`); `create_returns` proves them unreachable
  in the repaired variant.  Memory safety and the CPU / memory ceilings of the compiled code are
  observed by the correspondence (ASan/UBSan, per-call limits), not proved.

  The model is parametrised by `cfg : Cfg` (which recorded defects the source still carries; the
  driver uses the variant PROBED from /repo).  Statements that are false of the unchanged code are
  proved at full strength with the repairing switch as hypothesis (`range_limit`,
  `nonnumeric_einval`, `unbalanced_einval`, `create_returns`), in `_partial` form for every
  variant, and refuted for `Cfg.unchanged` by a `decide`d witness.
-/
import PdshVerif.Hostlist.LemmasParse
import PdshVerif.Hostlist.LemmasCreate
import PdshVerif.Hostlist.LemmasRepaired

namespace PdshVerif.C15
open PdshVerif.Hostlist PdshVerif.Gen

/-- RANGE LIMIT, full strength (repaired D15/D25): whatever the text, an accepted range item has
    ordered bounds below 2^64-1 and holds at most MAX_RANGE (16384) hosts -/
theorem range_limit (cfg : Cfg) (hfix : cfg.fixUlongMax = true) {e e' : Nat} {s : Str} {r : SR}
    (h : parseSingleRange cfg e s = .ok r e') :
    r.lo ≤ r.hi ∧ r.hi < ULONG_MAX ∧ r.hi - r.lo + 1 ≤ MAX_RANGE := by
  obtain ⟨hle, hhi, hbig, _, hmx⟩ := parseSingleRange_ok h
  have hne : r.hi ≠ ULONG_MAX := by
    intro he; simp [ulongMaxRejected, hfix, he] at hmx
  refine ⟨hle, by omega, ?_⟩
  rcases rangeTooBig_false hle hhi hbig with h1 | h1
  · exact h1
  · exact absurd h1.2 hne

/-
  The same statement for the UNCHANGED code is false (D15): the size test `hi - lo + 1 > MAX_RANGE`
  is evaluated in `unsigned long`; for 0..2^64-1 (which is also what any `0-<number ≥ 2^64>` clamps
  to) it wraps to 0.  Witness: `range_limit_false`.
-/
/-- every variant: an accepted range item has ordered bounds and holds at most MAX_RANGE (16384)
    hosts — EXCEPT the single wrapped range 0..2^64-1 -/
theorem range_limit_partial (cfg : Cfg) {e e' : Nat} {s : Str} {r : SR}
    (h : parseSingleRange cfg e s = .ok r e') (hne : ¬(r.lo = 0 ∧ r.hi = ULONG_MAX)) :
    r.lo ≤ r.hi ∧ r.hi ≤ ULONG_MAX ∧ r.hi - r.lo + 1 ≤ MAX_RANGE := by
  obtain ⟨hle, hhi, hbig, _⟩ := parseSingleRange_ok h
  refine ⟨hle, hhi, ?_⟩
  rcases rangeTooBig_false hle hhi hbig with h1 | h1
  · exact h1
  · exact absurd h1 hne

/-- D15 witness: the typed range `0-99999999999999999999` is ACCEPTED by the unchanged code, as
    0..2^64-1 (2^64 hosts; `hostrange_count` of it is 0) -/
theorem range_limit_false :
    parseSingleRange Cfg.unchanged 0 "0-99999999999999999999".toList = .ok ⟨0, ULONG_MAX, 1⟩ ERANGE := by
  decide

/-- with the repaired size test (`hi - lo >= MAX_RANGE`) the limit holds without exception -/
theorem range_limit_fixed {lo hi : Nat} (hle : lo ≤ hi) (hhi : hi ≤ ULONG_MAX)
    (h : rangeTooBigFixed lo hi = false) : hi - lo + 1 ≤ MAX_RANGE :=
  rangeTooBigFixed_false hle hhi h

/-- the suffix loop `for (j = lo; j <= hi; j++)` (unsigned long j) never ends exactly when
    hi = 2^64-1 — reachable through D15 (`a[0-99999999999999999999]x`) and also for the exactly
    typed `a[18446744073709551615]x` -/
theorem suffix_loop_diverges_iff (cfg : Cfg) (h : HL) (pfx sfx : Str) (r : SR) :
    pushSuffixRange cfg h pfx sfx r = .diverge ↔ r.hi = ULONG_MAX := by
  unfold pushSuffixRange
  split <;> simp_all

/-- a range typed with digit bounds, lo ≤ hi < 2^64, too large (hi − lo ≥ 16384) is refused with
    ERANGE and the "Too many hosts" diagnostic — unless it is 0..2^64-1 -/
theorem too_many_erange (cfg : Cfg) (e : Nat) (lo hi : Str) (dlo : allDigits lo) (nlo : lo ≠ [])
    (dhi : allDigits hi) (nhi : hi ≠ []) (hle : dval lo ≤ dval hi) (h64 : dval hi ≤ ULONG_MAX)
    (hsz : MAX_RANGE ≤ dval hi - dval lo) (hne : ¬(dval lo = 0 ∧ dval hi = ULONG_MAX)) :
    parseSingleRange cfg e (lo ++ '-' :: hi) = .fail ERANGE .tooMany := by
  have hum : ULONG_MAX = 18446744073709551615 := rfl
  have hu64 : U64 = 18446744073709551616 := rfl
  have hlo' := strtoul_digits dlo nlo (by omega)
  have hhi' := strtoul_digits dhi nhi h64
  have hbig : rangeTooBig (dval lo) (dval hi) = true := by
    unfold rangeTooBig
    rw [subU64_of_le hle (by omega)]
    unfold addU64
    rw [Nat.mod_eq_of_lt (by omega)]
    simp only [gt_iff_lt, decide_eq_true_eq]
    omega
  unfold parseSingleRange
  rw [cutAt_append _ (allDigits_notin dlo (by decide))]
  cases hi with
  | nil => exact absurd rfl nhi
  | cons c cs =>
    have hc : c ≠ '-' := fun e => allDigits_notin dhi (x := '-') (by decide) (by simp [e])
    simp [hc, boundsOk, loTextOk_digits cfg dlo, hiTextOk_digits cfg dhi nhi, hlo', hiPartOf, hhi',
      rangeCheck, Nat.not_lt.mpr hle, hbig]

/-- "however large the numbers typed": a high bound of ANY number of digits ≥ 2^64 is clamped to
    2^64-1 and the range is refused as too large — provided the low bound is not 0 (and leaves
    room: lo + 16384 ≤ 2^64-1) -/
theorem too_many_huge (cfg : Cfg) (e : Nat) (lo hi : Str) (dlo : allDigits lo) (nlo : lo ≠ [])
    (dhi : allDigits hi) (nhi : hi ≠ []) (hbigv : dval hi > ULONG_MAX) (hpos : 0 < dval lo)
    (hroom : dval lo + MAX_RANGE ≤ ULONG_MAX) :
    parseSingleRange cfg e (lo ++ '-' :: hi) = .fail ERANGE .tooMany := by
  have hum : ULONG_MAX = 18446744073709551615 := rfl
  have hu64 : U64 = 18446744073709551616 := rfl
  have hlo' := strtoul_digits dlo nlo (by omega)
  have hval := strtoul_digits_big dhi nhi hbigv
  unfold parseSingleRange
  rw [cutAt_append _ (allDigits_notin dlo (by decide))]
  cases hi with
  | nil => exact absurd rfl nhi
  | cons c cs =>
    have hc : c ≠ '-' := fun e => allDigits_notin dhi (x := '-') (by decide) (by simp [e])
    have hconv : (strtoul (c :: cs)).converted = true ∧ (strtoul (c :: cs)).rest = [] := by
      have hcd := dhi c (by simp)
      have hsp := isSpace_of_isDigit hcd
      have hd := (isDigit_iff c).mp hcd
      have hp : c ≠ '+' := by intro h; rw [h] at hd; simp at hd
      have e1 : (c :: cs).dropWhile isSpace = c :: cs := by simp [List.dropWhile, hsp]
      unfold strtoul
      rw [e1]
      split
      · rename_i t heq; simp at heq; exact absurd heq.1 hc
      · rename_i t heq; simp at heq; exact absurd heq.1 hp
      · unfold strtoulCore
        rw [takeWhile_allDigits dhi, dropWhile_allDigits dhi]
        have : Nat.ofDigitChars 10 (c :: cs) 0 > ULONG_MAX := hbigv
        simp [this]
    have hbig : rangeTooBig (dval lo) ULONG_MAX = true := by
      unfold rangeTooBig
      rw [subU64_of_le (by omega) (by omega)]
      unfold addU64
      rw [Nat.mod_eq_of_lt (by omega)]
      simp only [gt_iff_lt, decide_eq_true_eq]
      omega
    simp [hc, boundsOk, loTextOk_digits cfg dlo, hiTextOk_digits cfg dhi nhi, hlo', hiPartOf,
      hconv.1, hconv.2, hval, rangeCheck, Nat.not_lt.mpr (show dval lo ≤ ULONG_MAX by omega), hbig]

/-- a reversed range (digit bounds below 2^64, lo > hi) is refused: EINVAL, "Invalid range" -/
theorem reversed_einval (cfg : Cfg) (e : Nat) (lo hi : Str) (dlo : allDigits lo) (nlo : lo ≠ [])
    (dhi : allDigits hi) (nhi : hi ≠ []) (hrev : dval hi < dval lo) (h64 : dval lo ≤ ULONG_MAX) :
    parseSingleRange cfg e (lo ++ '-' :: hi) = .fail EINVAL .invalidRange := by
  have hlo' := strtoul_digits dlo nlo h64
  have hhi' := strtoul_digits dhi nhi (by omega)
  unfold parseSingleRange
  rw [cutAt_append _ (allDigits_notin dlo (by decide))]
  cases hi with
  | nil => exact absurd rfl nhi
  | cons c cs =>
    have hc : c ≠ '-' := fun e => allDigits_notin dhi (x := '-') (by decide) (by simp [e])
    simp [hc, boundsOk, loTextOk_digits cfg dlo, hiTextOk_digits cfg dhi nhi, hlo', hiPartOf, hhi',
      rangeCheck, hrev]

/-- NON-NUMERIC RANGES, full strength (repaired D16): an item that is not `digits` or
    `digits-digits` (non-empty digit strings) is refused: EINVAL, "Invalid range" -/
theorem nonnumeric_einval (cfg : Cfg) (hfix : cfg.fixDigits = true) (e : Nat) (s : Str)
    (h : numericItem s = false) : parseSingleRange cfg e s = .fail EINVAL .invalidRange :=
  nonnumeric_fails cfg hfix e s h

/-
  The same statement for the UNCHANGED code is false (D16): bounds are whatever `strtoul` accepts.
  Witnesses: `nonnumeric_accepted`; what holds in every variant: `nonnumeric_first_char_einval`.
-/
/-- every variant: an item whose first character is neither a digit, nor white space, nor `+` is
    refused -/
theorem nonnumeric_first_char_einval (cfg : Cfg) (e : Nat) (c : Char) (cs : Str) (h1 : isDigit c = false)
    (h2 : isSpace c = false) (h3 : c ≠ '+') :
    parseSingleRange cfg e (c :: cs) = .fail EINVAL .invalidRange := by
  have hnc : ∀ t : Str, (strtoul (c :: t)).converted = false ∨ c = '-' := by
    intro t
    by_cases hm : c = '-'
    · right; exact hm
    · left
      have e1 : (c :: t).dropWhile isSpace = c :: t := by simp [List.dropWhile, h2]
      unfold strtoul
      rw [e1]
      split
      · rename_i t' heq; simp at heq; exact absurd heq.1 hm
      · rename_i t' heq; simp at heq; exact absurd heq.1 h3
      · unfold strtoulCore
        simp [List.takeWhile, h1]
  unfold parseSingleRange
  by_cases hm : c = '-'
  · subst hm
    simp only [cutAt, ↓reduceIte]
    split
    · rfl
    · split
      · rfl
      · simp [strtoul_nil]
  · have hcut : ∃ a p, cutAt '-' (c :: cs) = (c :: a, p) := by
      simp only [cutAt, hm, ↓reduceIte]
      exact ⟨_, _, rfl⟩
    obtain ⟨a, p, hcut⟩ := hcut
    rw [hcut]
    simp only
    split
    · rfl
    · split
      · rfl
      · rcases hnc a with h | h
        · simp [h]
        · exact absurd h hm

/-- D16 witnesses: junk after the low bound, a sign, a blank, an empty high bound are accepted
    (the first three with width 2, so `foo[1x-3]` yields foo01 foo02 foo03) -/
theorem nonnumeric_accepted :
    parseSingleRange Cfg.unchanged 0 "1x-3".toList = .ok ⟨1, 3, 2⟩ 0 ∧
    parseSingleRange Cfg.unchanged 0 "+1-3".toList = .ok ⟨1, 3, 2⟩ 0 ∧
    parseSingleRange Cfg.unchanged 0 " 1-3".toList = .ok ⟨1, 3, 2⟩ 0 ∧
    parseSingleRange Cfg.unchanged 0 "1-".toList = .ok ⟨1, 1, 1⟩ 0 ∧
    parseSingleRange Cfg.unchanged 0 "0- -1".toList = .ok ⟨0, ULONG_MAX, 1⟩ 0 := by
  decide

/-- a token with `[` but no `]` after it is refused (EINVAL, no diagnostic) -/
theorem unmatched_open_einval (cfg : Cfg) (st : PSt) (pre body : Str) (h1 : '[' ∉ pre) (h2 : ']' ∉ body) :
    pushTok cfg st (pre ++ '[' :: body) = .null EINVAL .none := by
  unfold pushTok
  rw [cutAt_append _ h1]
  simp only
  rw [cutAt_none h2]

/-- a token with `]` but no `[` is refused (EINVAL, no diagnostic) -/
theorem unmatched_close_einval (cfg : Cfg) (st : PSt) (tok : Str) (h1 : '[' ∉ tok) (h2 : ']' ∈ tok) :
    pushTok cfg st tok = .null EINVAL .none := by
  unfold pushTok
  rw [cutAt_none h1]
  have : tok.contains ']' = true := by simpa using h2
  simp only [this, ↓reduceIte]

/-- UNBALANCED BRACKETS, full strength (repaired D22 and D16): a token whose brackets do not
    balance — anywhere, not only in its first pair — makes the parse fail -/
theorem unbalanced_einval (cfg : Cfg) (h22 : cfg.fixSuffixBal = true) (h16 : cfg.fixDigits = true)
    (st : PSt) (tok : Str) (h : bracketsBalanced 0 tok = false) :
    ∃ e f, pushTok cfg st tok = .null e f :=
  unbalanced_token_fails cfg h22 h16 st tok h

/-
  The same statement for the UNCHANGED code is false (D22): only the first `[`..`]` pair of a token
  is looked at.  What holds in every variant: `unmatched_open_einval`, `unmatched_close_einval`.
-/
/-- D22 witnesses: `a[1]]`, `a][1]`, `a[1]b[` are accepted as hosts `a1]`, `a]1`, `a1b[` -/
theorem unbalanced_accepted :
    (match create Cfg.unchanged "a[1]]".toList with | .ok h => h.hosts | _ => []) = ["a1]".toList] ∧
    (match create Cfg.unchanged "a][1]".toList with | .ok h => h.hosts | _ => []) = ["a]1".toList] ∧
    (match create Cfg.unchanged "a[1]b[".toList with | .ok h => h.hosts | _ => []) = ["a1b[".toList] := by
  decide

/-- the repaired variant refuses all three (and the wrap, the clamp, the D16 shapes) -/
theorem repaired_refuses :
    create Cfg.repaired "a[1]]".toList = .null EINVAL .none ∧
    create Cfg.repaired "a][1]".toList = .null EINVAL .none ∧
    create Cfg.repaired "a[1]b[".toList = .null EINVAL .none ∧
    create Cfg.repaired "a[0-99999999999999999999]x".toList = .null ERANGE .tooMany ∧
    create Cfg.repaired "a[18446744073709551615]".toList = .null ERANGE .tooMany ∧
    create Cfg.repaired "foo[1x-3]".toList = .null EINVAL .invalidRange ∧
    create Cfg.repaired "a[1-]".toList = .null EINVAL .invalidRange := by
  decide

/-- D15 end to end: `a[0-99999999999999999999]` is accepted as a list that COUNTS 0 hosts, and
    with a suffix the call never returns -/
theorem wrap_end_to_end :
    (match create Cfg.unchanged "a[0-99999999999999999999]".toList with
      | .ok h => some h.count | _ => none) = some 0 ∧
    create Cfg.unchanged "a[0-99999999999999999999]x".toList = .diverge := by
  decide

/-- TERMINATION / SAFETY, full strength (repaired D15/D25 and D18): for EVERY text the call
    returns — a host list, or NULL with an errno; the never-ending suffix loop and the read of the
    unterminated `cur_tok` are unreachable -/
theorem create_returns (cfg : Cfg) (h15 : cfg.fixUlongMax = true) (h18 : cfg.fixCurTok = true) (s : Str) :
    (∃ h, create cfg s = .ok h) ∨ (∃ e f, create cfg s = .null e f) := by
  unfold create createFrom
  rcases createToks_returns cfg h15 h18 (tokens hlSep s) ⟨HL.new, 0⟩ with ⟨st, hs⟩ | ⟨e, f, hs⟩
  · left; rw [hs]; exact ⟨_, rfl⟩
  · right; rw [hs]; exact ⟨_, _, rfl⟩

/-- the failure of one token is the failure of the whole call (`goto error`): nothing built so
    far is returned -/
theorem create_fails_at_first_bad_token (cfg : Cfg) (st st' : PSt) (good : List Str) (bad : Str)
    (rest : List Str) (e : Nat) (f : Fatal) (h1 : createToks cfg st good = .ok st')
    (h2 : pushTok cfg st' bad = .null e f) :
    createToks cfg st (good ++ bad :: rest) = .null e f := by
  induction good generalizing st with
  | nil =>
    simp only [createToks, Outcome.ok.injEq] at h1
    subst h1
    simp [createToks, h2]
  | cons g gs ih =>
    simp only [List.cons_append, createToks] at h1 ⊢
    cases hg : pushTok cfg st g with
    | ok s1 => rw [hg] at h1; simp only at h1 ⊢; exact ih s1 h1
    | null _ _ => rw [hg] at h1; simp at h1
    | ub _ => rw [hg] at h1; simp at h1
    | diverge => rw [hg] at h1; simp at h1

end PdshVerif.C15
