/-
  C15  Any text given as a host expression is handled safely and within limits.
  PROPERTY THEOREMS ONLY (helper lemmas live in PdshVerif/Hostlist/Lemmas*.lean).

  The model is parametrised by `cfg : Cfg` (which recorded defects the source still carries; the
  driver uses the variant PROBED from /repo).  Statements that are false of the code as found are
  proved at full strength with the repairing switches as hypotheses, in `_partial` form for every
  variant, and refuted for `Cfg.unchanged` by a `decide`d witness.  /repo HEAD carries all the
  repairs (the probe says so on every run), so the full-strength theorems are the ones about the
  tree that is checked.

  clause of the property text                      theorem(s)                         domain
  -----------------------------------------------  ---------------------------------  ---------------------
  "for every byte string … parsing terminates"     create is a total Lean function;   every text, every cfg
                                                   tokens_fuel_suffices, tokens_unfold
                                                   (fuel |s|+1 never cuts the loop),
                                                   wcollExpand_fuel_suffices
  "either yields a host list or fails cleanly"     create_returns                     every text, D15+D18 on
                                                   create_ok_iff (EXACTLY which       every text, repaired
                                                   texts yield a list)
  the same against the INDEPENDENT reader of       create_iff_classify (accepted ⇔    EVERY BYTE STRING,
   WHOLE texts (`Spec.classify`: its own bracket    the spec finds no problem),       repaired
   matcher, word splitter, item reader) — C15 and   create_hosts_classify (and then
   C01 in one statement                             the hosts are the spec's
                                                   expansion), create_refines_classify
  "never touches memory out of bounds"             ranges_in_bounds (ranges[10240]),  every text, every cfg
                                                   host_buffer_is_snprintf,
                                                   next_buffer_is_snprintf (explicit
                                                   buffers, both variants of D23/D17),
                                                   plain_word_long_ub (C01; D18)
                                                   + ASan/UBSan on the real code
  "never more than 16384 hosts per range"          range_limit / _partial / _false    every text
                                                   create_count_le (≤ 16384·|s| hosts every text, every cfg
                                                   for the whole call), create_good,
                                                   create_walk (counter exact, the
                                                   walk ends after `count` names)
  "unbalanced brackets … make the parse fail"      unbalanced_text_fails (whole text, every text, repaired
                                                   spec's `balanced`),
                                                   unbalanced_einval, token_ok_iff    every token, repaired
                                                   unmatched_open/close_einval        every cfg
  "reversed … ranges make the parse fail"          reversed_einval, item_invalid_iff, every item text
                                                   reversed_never_accepted
  "non-numeric ranges make the parse fail"         nonnumeric_einval, item_ok_iff,    every item text
                                                   item_invalid_iff
  "a range larger than the limit — however large   item_verdict (ONE equation for     every item text,
   the numbers typed — is refused with 'too many    every text, strtoul saturation    numbers of any length
   hosts' instead of expanded / wrapped / OOM"      inside), item_too_many_iff,
                                                   too_many_however_large,
                                                   too_many_erange, too_many_huge
  the same, against the INDEPENDENT reader of      item_refines_spec                  every item text
   Hostlist/Spec.lean (what checks/c15.py tests)

  `pdsh -w` and a comma-word whose parse fails         cli_drops_failed_word (witness of the    `b,a[1`
   WITHOUT a diagnostic (open finding                   open finding: the word is left out,
   F15-CLI-WORD-DROPPED; FIXED in /repo d1c94df)        pdsh goes on -- opt.c before d1c94df)
  the same in the REPAIRED opt.c (= /repo HEAD;        cliTargetsR_agrees (EVERY argument text, every
   model Hostlist/CliRefuse.lean, driver op `clir`,     variant: targets = those of the code as found;
   compared with pdsh verbatim incl. the quoted word)   a refused word yields nothing on its own),
                                                        cli_refuses_failed_word (witness `b,a[1`)
  STATE CARRIED between words / brackets / calls        not a notion of the model (`create` is a function of
   (errno tested but never cleared, the previous        the text: create_iff_classify / C01.create_text hold
   bracket's range table, the first element's width)    whatever was parsed before); exercised on the real
                                                        code: every pinned text after each poisoning word
                                                        and in the call after a poisoning call (`sprobe`)

  NOT PROVED: the CPU / memory ceilings of the compiled code and the absence of out-of-bounds
  accesses in the C text itself (pointer arithmetic inside the strdup'ed copy) are observed by the
  correspondence (ASan/UBSan, per-call limits), the model works on lists; glibc `strtoul`/`snprintf`
  are modelled.  (`Spec.classify` ↔ `create` for whole texts IS proved now: `create_iff_classify`.)
-/
import PdshVerif.Hostlist.CliRefuse
import PdshVerif.Hostlist.LemmasParse
import PdshVerif.Hostlist.LemmasCreate
import PdshVerif.Hostlist.LemmasRepaired
import PdshVerif.Hostlist.LemmasLimits
import PdshVerif.Hostlist.LemmasAccept
import PdshVerif.Hostlist.LemmasBounds
import PdshVerif.Hostlist.LemmasGood
import PdshVerif.Hostlist.LemmasUnbalanced
import PdshVerif.Hostlist.LemmasClassify

namespace PdshVerif.C15
open PdshVerif.Hostlist PdshVerif.Gen

/-- RANGE LIMIT, full strength (repaired D15/D25): whatever the text, an accepted range item has
    ordered bounds below 2^64-1 and holds at most MAX_RANGE (16384) hosts -/
theorem range_limit (cfg : Cfg) (hfix : cfg.fixUlongMax = true) {e e' : Nat} {s : Str} {r : SR}
    (h : parseSingleRange cfg e s = .ok r e') :
    r.lo ≤ r.hi ∧ r.hi < ULONG_MAX ∧ r.hi - r.lo + 1 ≤ MAX_RANGE := by
  obtain ⟨hle, hhi, hbig, _, hmx⟩ := parseSingleRange_ok h
  have hne : r.hi ≠ ULONG_MAX := by
    intro he; simp [ulongMaxRejected, hfix, he] at hmx
  refine ⟨hle, by omega, ?_⟩
  rcases rangeTooBig_false hle hhi hbig with h1 | h1
  · exact h1
  · exact absurd h1.2 hne

/-
  The same statement for the UNCHANGED code is false (D15): the size test `hi - lo + 1 > MAX_RANGE`
  is evaluated in `unsigned long`; for 0..2^64-1 (which is also what any `0-<number ≥ 2^64>` clamps
  to) it wraps to 0.  Witness: `range_limit_false`.
-/
/-- every variant: an accepted range item has ordered bounds and holds at most MAX_RANGE (16384)
    hosts — EXCEPT the single wrapped range 0..2^64-1 -/
theorem range_limit_partial (cfg : Cfg) {e e' : Nat} {s : Str} {r : SR}
    (h : parseSingleRange cfg e s = .ok r e') (hne : ¬(r.lo = 0 ∧ r.hi = ULONG_MAX)) :
    r.lo ≤ r.hi ∧ r.hi ≤ ULONG_MAX ∧ r.hi - r.lo + 1 ≤ MAX_RANGE := by
  obtain ⟨hle, hhi, hbig, _⟩ := parseSingleRange_ok h
  refine ⟨hle, hhi, ?_⟩
  rcases rangeTooBig_false hle hhi hbig with h1 | h1
  · exact h1
  · exact absurd h1 hne

/-- D15 witness: the typed range `0-99999999999999999999` is ACCEPTED by the unchanged code, as
    0..2^64-1 (2^64 hosts; `hostrange_count` of it is 0) -/
theorem range_limit_false :
    parseSingleRange Cfg.unchanged 0 "0-99999999999999999999".toList = .ok ⟨0, ULONG_MAX, 1⟩ ERANGE := by
  decide

/-- with the repaired size test (`hi - lo >= MAX_RANGE`) the limit holds without exception -/
theorem range_limit_fixed {lo hi : Nat} (hle : lo ≤ hi) (hhi : hi ≤ ULONG_MAX)
    (h : rangeTooBigFixed lo hi = false) : hi - lo + 1 ≤ MAX_RANGE :=
  rangeTooBigFixed_false hle hhi h

/-- the suffix loop `for (j = lo; j <= hi; j++)` (unsigned long j) never ends exactly when
    hi = 2^64-1 — reachable through D15 (`a[0-99999999999999999999]x`) and also for the exactly
    typed `a[18446744073709551615]x` -/
theorem suffix_loop_diverges_iff (cfg : Cfg) (h : HL) (pfx sfx : Str) (r : SR) :
    pushSuffixRange cfg h pfx sfx r = .diverge ↔ r.hi = ULONG_MAX := by
  unfold pushSuffixRange
  split <;> simp_all

/-- a range typed with digit bounds, lo ≤ hi < 2^64, too large (hi − lo ≥ 16384) is refused with
    ERANGE and the "Too many hosts" diagnostic — unless it is 0..2^64-1 -/
theorem too_many_erange (cfg : Cfg) (e : Nat) (lo hi : Str) (dlo : allDigits lo) (nlo : lo ≠ [])
    (dhi : allDigits hi) (nhi : hi ≠ []) (hle : dval lo ≤ dval hi) (h64 : dval hi ≤ ULONG_MAX)
    (hsz : MAX_RANGE ≤ dval hi - dval lo) (hne : ¬(dval lo = 0 ∧ dval hi = ULONG_MAX)) :
    parseSingleRange cfg e (lo ++ '-' :: hi) = .fail ERANGE .tooMany := by
  have hum : ULONG_MAX = 18446744073709551615 := rfl
  have hu64 : U64 = 18446744073709551616 := rfl
  have hlo' := strtoul_digits dlo nlo (by omega)
  have hhi' := strtoul_digits dhi nhi h64
  have hbig : rangeTooBig (dval lo) (dval hi) = true := by
    unfold rangeTooBig
    rw [subU64_of_le hle (by omega)]
    unfold addU64
    rw [Nat.mod_eq_of_lt (by omega)]
    simp only [gt_iff_lt, decide_eq_true_eq]
    omega
  unfold parseSingleRange
  rw [cutAt_append _ (allDigits_notin dlo (by decide))]
  cases hi with
  | nil => exact absurd rfl nhi
  | cons c cs =>
    have hc : c ≠ '-' := fun e => allDigits_notin dhi (x := '-') (by decide) (by simp [e])
    simp [hc, boundsOk, loTextOk_digits cfg dlo, hiTextOk_digits cfg dhi nhi, hlo', hiPartOf, hhi',
      rangeCheck, Nat.not_lt.mpr hle, hbig]

/-- "however large the numbers typed": a high bound of ANY number of digits ≥ 2^64 is clamped to
    2^64-1 and the range is refused as too large — provided the low bound is not 0 (and leaves
    room: lo + 16384 ≤ 2^64-1) -/
theorem too_many_huge (cfg : Cfg) (e : Nat) (lo hi : Str) (dlo : allDigits lo) (nlo : lo ≠ [])
    (dhi : allDigits hi) (nhi : hi ≠ []) (hbigv : dval hi > ULONG_MAX) (hpos : 0 < dval lo)
    (hroom : dval lo + MAX_RANGE ≤ ULONG_MAX) :
    parseSingleRange cfg e (lo ++ '-' :: hi) = .fail ERANGE .tooMany := by
  have hum : ULONG_MAX = 18446744073709551615 := rfl
  have hu64 : U64 = 18446744073709551616 := rfl
  have hlo' := strtoul_digits dlo nlo (by omega)
  have hval := strtoul_digits_big dhi nhi hbigv
  unfold parseSingleRange
  rw [cutAt_append _ (allDigits_notin dlo (by decide))]
  cases hi with
  | nil => exact absurd rfl nhi
  | cons c cs =>
    have hc : c ≠ '-' := fun e => allDigits_notin dhi (x := '-') (by decide) (by simp [e])
    have hconv : (strtoul (c :: cs)).converted = true ∧ (strtoul (c :: cs)).rest = [] := by
      have hcd := dhi c (by simp)
      have hsp := isSpace_of_isDigit hcd
      have hd := (isDigit_iff c).mp hcd
      have hp : c ≠ '+' := by intro h; rw [h] at hd; simp at hd
      have e1 : (c :: cs).dropWhile isSpace = c :: cs := by simp [List.dropWhile, hsp]
      unfold strtoul
      rw [e1]
      split
      · rename_i t heq; simp at heq; exact absurd heq.1 hc
      · rename_i t heq; simp at heq; exact absurd heq.1 hp
      · unfold strtoulCore
        rw [takeWhile_allDigits dhi, dropWhile_allDigits dhi]
        have : Nat.ofDigitChars 10 (c :: cs) 0 > ULONG_MAX := hbigv
        simp [this]
    have hbig : rangeTooBig (dval lo) ULONG_MAX = true := by
      unfold rangeTooBig
      rw [subU64_of_le (by omega) (by omega)]
      unfold addU64
      rw [Nat.mod_eq_of_lt (by omega)]
      simp only [gt_iff_lt, decide_eq_true_eq]
      omega
    simp [hc, boundsOk, loTextOk_digits cfg dlo, hiTextOk_digits cfg dhi nhi, hlo', hiPartOf,
      hconv.1, hconv.2, hval, rangeCheck, Nat.not_lt.mpr (show dval lo ≤ ULONG_MAX by omega), hbig]

/-- a reversed range (digit bounds below 2^64, lo > hi) is refused: EINVAL, "Invalid range" -/
theorem reversed_einval (cfg : Cfg) (e : Nat) (lo hi : Str) (dlo : allDigits lo) (nlo : lo ≠ [])
    (dhi : allDigits hi) (nhi : hi ≠ []) (hrev : dval hi < dval lo) (h64 : dval lo ≤ ULONG_MAX) :
    parseSingleRange cfg e (lo ++ '-' :: hi) = .fail EINVAL .invalidRange := by
  have hlo' := strtoul_digits dlo nlo h64
  have hhi' := strtoul_digits dhi nhi (by omega)
  unfold parseSingleRange
  rw [cutAt_append _ (allDigits_notin dlo (by decide))]
  cases hi with
  | nil => exact absurd rfl nhi
  | cons c cs =>
    have hc : c ≠ '-' := fun e => allDigits_notin dhi (x := '-') (by decide) (by simp [e])
    simp [hc, boundsOk, loTextOk_digits cfg dlo, hiTextOk_digits cfg dhi nhi, hlo', hiPartOf, hhi',
      rangeCheck, hrev]

/-- NON-NUMERIC RANGES, full strength (repaired D16): an item that is not `digits` or
    `digits-digits` (non-empty digit strings) is refused: EINVAL, "Invalid range" -/
theorem nonnumeric_einval (cfg : Cfg) (hfix : cfg.fixDigits = true) (e : Nat) (s : Str)
    (h : numericItem s = false) : parseSingleRange cfg e s = .fail EINVAL .invalidRange :=
  nonnumeric_fails cfg hfix e s h

/-
  The same statement for the UNCHANGED code is false (D16): bounds are whatever `strtoul` accepts.
  Witnesses: `nonnumeric_accepted`; what holds in every variant: `nonnumeric_first_char_einval`.
-/
/-- every variant: an item whose first character is neither a digit, nor white space, nor `+` is
    refused -/
theorem nonnumeric_first_char_einval (cfg : Cfg) (e : Nat) (c : Char) (cs : Str) (h1 : isDigit c = false)
    (h2 : isSpace c = false) (h3 : c ≠ '+') :
    parseSingleRange cfg e (c :: cs) = .fail EINVAL .invalidRange := by
  have hnc : ∀ t : Str, (strtoul (c :: t)).converted = false ∨ c = '-' := by
    intro t
    by_cases hm : c = '-'
    · right; exact hm
    · left
      have e1 : (c :: t).dropWhile isSpace = c :: t := by simp [List.dropWhile, h2]
      unfold strtoul
      rw [e1]
      split
      · rename_i t' heq; simp at heq; exact absurd heq.1 hm
      · rename_i t' heq; simp at heq; exact absurd heq.1 h3
      · unfold strtoulCore
        simp [List.takeWhile, h1]
  unfold parseSingleRange
  by_cases hm : c = '-'
  · subst hm
    simp only [cutAt, ↓reduceIte]
    split
    · rfl
    · split
      · rfl
      · simp [strtoul_nil]
  · have hcut : ∃ a p, cutAt '-' (c :: cs) = (c :: a, p) := by
      simp only [cutAt, hm, ↓reduceIte]
      exact ⟨_, _, rfl⟩
    obtain ⟨a, p, hcut⟩ := hcut
    rw [hcut]
    simp only
    split
    · rfl
    · split
      · rfl
      · rcases hnc a with h | h
        · simp [h]
        · exact absurd h hm

/-- D16 witnesses: junk after the low bound, a sign, a blank, an empty high bound are accepted
    (the first three with width 2, so `foo[1x-3]` yields foo01 foo02 foo03) -/
theorem nonnumeric_accepted :
    parseSingleRange Cfg.unchanged 0 "1x-3".toList = .ok ⟨1, 3, 2⟩ 0 ∧
    parseSingleRange Cfg.unchanged 0 "+1-3".toList = .ok ⟨1, 3, 2⟩ 0 ∧
    parseSingleRange Cfg.unchanged 0 " 1-3".toList = .ok ⟨1, 3, 2⟩ 0 ∧
    parseSingleRange Cfg.unchanged 0 "1-".toList = .ok ⟨1, 1, 1⟩ 0 ∧
    parseSingleRange Cfg.unchanged 0 "0- -1".toList = .ok ⟨0, ULONG_MAX, 1⟩ 0 := by
  decide

/-- a token with `[` but no `]` after it is refused (EINVAL, no diagnostic) -/
theorem unmatched_open_einval (cfg : Cfg) (st : PSt) (pre body : Str) (h1 : '[' ∉ pre) (h2 : ']' ∉ body) :
    pushTok cfg st (pre ++ '[' :: body) = .null EINVAL .none := by
  unfold pushTok
  rw [cutAt_append _ h1]
  simp only
  rw [cutAt_none h2]

/-- a token with `]` but no `[` is refused (EINVAL, no diagnostic) -/
theorem unmatched_close_einval (cfg : Cfg) (st : PSt) (tok : Str) (h1 : '[' ∉ tok) (h2 : ']' ∈ tok) :
    pushTok cfg st tok = .null EINVAL .none := by
  unfold pushTok
  rw [cutAt_none h1]
  have : tok.contains ']' = true := by simpa using h2
  simp only [this, ↓reduceIte]

/-- UNBALANCED BRACKETS, full strength (repaired D22 and D16): a token whose brackets do not
    balance — anywhere, not only in its first pair — makes the parse fail -/
theorem unbalanced_einval (cfg : Cfg) (h22 : cfg.fixSuffixBal = true) (h16 : cfg.fixDigits = true)
    (st : PSt) (tok : Str) (h : bracketsBalanced 0 tok = false) :
    ∃ e f, pushTok cfg st tok = .null e f :=
  unbalanced_token_fails cfg h22 h16 st tok h

/-
  The same statement for the UNCHANGED code is false (D22): only the first `[`..`]` pair of a token
  is looked at.  What holds in every variant: `unmatched_open_einval`, `unmatched_close_einval`.
-/
/-- D22 witnesses: `a[1]]`, `a][1]`, `a[1]b[` are accepted as hosts `a1]`, `a]1`, `a1b[` -/
theorem unbalanced_accepted :
    (match create Cfg.unchanged "a[1]]".toList with | .ok h => h.hosts | _ => []) = ["a1]".toList] ∧
    (match create Cfg.unchanged "a][1]".toList with | .ok h => h.hosts | _ => []) = ["a]1".toList] ∧
    (match create Cfg.unchanged "a[1]b[".toList with | .ok h => h.hosts | _ => []) = ["a1b[".toList] := by
  decide

/-- the repaired variant refuses all three (and the wrap, the clamp, the D16 shapes) -/
theorem repaired_refuses :
    create Cfg.repaired "a[1]]".toList = .null EINVAL .none ∧
    create Cfg.repaired "a][1]".toList = .null EINVAL .none ∧
    create Cfg.repaired "a[1]b[".toList = .null EINVAL .none ∧
    create Cfg.repaired "a[0-99999999999999999999]x".toList = .null ERANGE .tooMany ∧
    create Cfg.repaired "a[18446744073709551615]".toList = .null ERANGE .tooMany ∧
    create Cfg.repaired "foo[1x-3]".toList = .null EINVAL .invalidRange ∧
    create Cfg.repaired "a[1-]".toList = .null EINVAL .invalidRange := by
  decide

/-- D15 end to end: `a[0-99999999999999999999]` is accepted as a list that COUNTS 0 hosts, and
    with a suffix the call never returns -/
theorem wrap_end_to_end :
    (match create Cfg.unchanged "a[0-99999999999999999999]".toList with
      | .ok h => some h.count | _ => none) = some 0 ∧
    create Cfg.unchanged "a[0-99999999999999999999]x".toList = .diverge := by
  decide

/-- TERMINATION / SAFETY, full strength (repaired D15/D25 and D18): for EVERY text the call
    returns — a host list, or NULL with an errno; the never-ending suffix loop and the read of the
    unterminated `cur_tok` are unreachable -/
theorem create_returns (cfg : Cfg) (h15 : cfg.fixUlongMax = true) (h18 : cfg.fixCurTok = true) (s : Str) :
    (∃ h, create cfg s = .ok h) ∨ (∃ e f, create cfg s = .null e f) := by
  unfold create createFrom
  rcases createToks_returns cfg h15 h18 (tokens hlSep s) ⟨HL.new, 0⟩ with ⟨st, hs⟩ | ⟨e, f, hs⟩
  · left; rw [hs]; exact ⟨_, rfl⟩
  · right; rw [hs]; exact ⟨_, _, rfl⟩

/-- the failure of one token is the failure of the whole call (`goto error`): nothing built so
    far is returned -/
theorem create_fails_at_first_bad_token (cfg : Cfg) (st st' : PSt) (good : List Str) (bad : Str)
    (rest : List Str) (e : Nat) (f : Fatal) (h1 : createToks cfg st good = .ok st')
    (h2 : pushTok cfg st' bad = .null e f) :
    createToks cfg st (good ++ bad :: rest) = .null e f := by
  induction good generalizing st with
  | nil =>
    simp only [createToks, Outcome.ok.injEq] at h1
    subst h1
    simp [createToks, h2]
  | cons g gs ih =>
    simp only [List.cons_append, createToks] at h1 ⊢
    cases hg : pushTok cfg st g with
    | ok s1 => rw [hg] at h1; simp only at h1 ⊢; exact ih s1 h1
    | null _ _ => rw [hg] at h1; simp at h1
    | ub _ => rw [hg] at h1; simp at h1
    | diverge => rw [hg] at h1; simp at h1

/-! ## full strength for EVERY text (repaired variant = /repo HEAD as probed) -/

/-- THE REPAIRED `_parse_single_range` AS ONE EQUATION over every item text.  `itemLo`/`itemHi`
    are the numbers AS TYPED (unbounded), `clampU` is `strtoul`'s saturation at 2^64-1:
    not `digits` / `digits-digits` ⇒ invalid; reversed ⇒ invalid; reaching 2^64-1 or spanning
    MAX_RANGE (16384) or more ⇒ "too many hosts"; otherwise the typed numbers, the width of the
    low bound as typed, `errno` untouched -/
theorem item_verdict (cfg : Cfg) (h15 : cfg.fixUlongMax = true) (h16 : cfg.fixDigits = true)
    (e : Nat) (s : Str) :
    parseSingleRange cfg e s =
      if numericItem s = false then .fail EINVAL .invalidRange
      else if clampU (itemHi s) < clampU (itemLo s) then .fail EINVAL .invalidRange
      else if ULONG_MAX ≤ itemHi s ∨ MAX_RANGE ≤ itemHi s - itemLo s then .fail ERANGE .tooMany
      else .ok ⟨itemLo s, itemHi s, itemWidth s⟩ e :=
  parseSingleRange_repaired cfg h15 h16 e s

/-- accepted ⇔ numeric, ordered, below 2^64-1, fewer than MAX_RANGE apart (and then: the typed
    numbers, width of the low bound as typed) -/
theorem item_ok_iff (cfg : Cfg) (h15 : cfg.fixUlongMax = true) (h16 : cfg.fixDigits = true)
    (e : Nat) (s : Str) (r : SR) (e' : Nat) :
    parseSingleRange cfg e s = .ok r e' ↔
      numericItem s = true ∧ itemLo s ≤ itemHi s ∧ itemHi s < ULONG_MAX ∧
        itemHi s - itemLo s < MAX_RANGE ∧ r = ⟨itemLo s, itemHi s, itemWidth s⟩ ∧ e' = e :=
  Hostlist.item_ok_iff cfg h15 h16 e s r e'

/-- refused with ERANGE + "Too many hosts" ⇔ numeric, not reversed after saturation, and reaching
    2^64-1 or spanning MAX_RANGE or more -/
theorem item_too_many_iff (cfg : Cfg) (h15 : cfg.fixUlongMax = true) (h16 : cfg.fixDigits = true)
    (e : Nat) (s : Str) :
    parseSingleRange cfg e s = .fail ERANGE .tooMany ↔
      numericItem s = true ∧ clampU (itemLo s) ≤ clampU (itemHi s) ∧
        (ULONG_MAX ≤ itemHi s ∨ MAX_RANGE ≤ itemHi s - itemLo s) :=
  Hostlist.item_too_many_iff cfg h15 h16 e s

/-- refused with EINVAL + "Invalid range" ⇔ non-numeric or reversed -/
theorem item_invalid_iff (cfg : Cfg) (h15 : cfg.fixUlongMax = true) (h16 : cfg.fixDigits = true)
    (e : Nat) (s : Str) :
    parseSingleRange cfg e s = .fail EINVAL .invalidRange ↔
      numericItem s = false ∨ clampU (itemHi s) < clampU (itemLo s) :=
  Hostlist.item_invalid_iff cfg h15 h16 e s

/-- HOWEVER LARGE THE NUMBERS TYPED: a numeric range, ordered as typed, spanning 16384 or more is
    refused with the too-many-hosts outcome — no hypothesis on the number of digits, none on the
    low bound (compare `too_many_erange`, `too_many_huge`, which hold in every variant) -/
theorem too_many_however_large (cfg : Cfg) (h15 : cfg.fixUlongMax = true) (h16 : cfg.fixDigits = true)
    (e : Nat) (s : Str) (hn : numericItem s = true) (hle : itemLo s ≤ itemHi s)
    (hsz : MAX_RANGE ≤ itemHi s - itemLo s) :
    parseSingleRange cfg e s = .fail ERANGE .tooMany :=
  Hostlist.too_many_however_large cfg h15 h16 e s hn hle hsz

/-- a range reversed as typed is never accepted, however large its numbers -/
theorem reversed_never_accepted (cfg : Cfg) (h15 : cfg.fixUlongMax = true) (h16 : cfg.fixDigits = true)
    (e : Nat) (s : Str) (hrev : itemHi s < itemLo s) :
    ∃ e' f, parseSingleRange cfg e s = .fail e' f :=
  reversed_fails cfg h15 h16 e s hrev

/-- REFINEMENT OF THE INDEPENDENT SPEC, item level, every text (what checks/c15.py tests on
    samples): a problem named by `Spec.itemProblems` ⇒ failure; `tooMany` ⇒ ERANGE + "Too many
    hosts"; no problem and bounds below 2^64-1 ⇒ accepted with the numbers and width the spec
    reads; no problem but a bound ≥ 2^64-1 (text silent) ⇒ refused as too many -/
theorem item_refines_spec (cfg : Cfg) (h15 : cfg.fixUlongMax = true) (h16 : cfg.fixDigits = true)
    (e : Nat) (s : Str) :
    (Spec.itemProblems s ≠ [] → ∃ e' f, parseSingleRange cfg e s = .fail e' f) ∧
    (Spec.itemProblems s = [.tooMany] → parseSingleRange cfg e s = .fail ERANGE .tooMany) ∧
    (Spec.itemProblems s = [] → Spec.itemNote64 s = false →
      ∃ lo hi w, Spec.readItem s = .ok (lo, hi, w) ∧ parseSingleRange cfg e s = .ok ⟨lo, hi, w⟩ e) ∧
    (Spec.itemProblems s = [] → Spec.itemNote64 s = true →
      parseSingleRange cfg e s = .fail ERANGE .tooMany) :=
  Hostlist.item_refines_spec cfg h15 h16 e s

/-- GROUP LEVEL: a bracket body is accepted ⇔ at most MAX_RANGES (10240) comma items, each an
    accepted range; the records are the items' typed numbers, in order -/
theorem group_ok_iff (cfg : Cfg) (h15 : cfg.fixUlongMax = true) (h16 : cfg.fixDigits = true)
    (e : Nat) (body : Str) (rs : Array SR) (e' : Nat) :
    parseRangeList cfg e body = .ok rs e' ↔
      (splitAll ',' body).length ≤ MAX_RANGES ∧ (∀ it ∈ splitAll ',' body, itemOk it) ∧
        rs.toList = (splitAll ',' body).map itemSR ∧ e' = e :=
  parseRangeList_ok_iff cfg h15 h16 e body rs e'

/-- TOKEN LEVEL: a token is accepted ⇔ its brackets balance (anywhere in the token) and its first
    group is accepted -/
theorem token_ok_iff (cfg : Cfg) (h15 : cfg.fixUlongMax = true) (h16 : cfg.fixDigits = true)
    (h18 : cfg.fixCurTok = true) (h22 : cfg.fixSuffixBal = true) (st : PSt) (tok : Str) :
    (∃ st', pushTok cfg st tok = .ok st') ↔ tokOk tok :=
  pushTok_ok_iff cfg h15 h16 h18 h22 st tok

/-- CALL LEVEL, every text: `hostlist_create` yields a list ⇔ every token is accepted; otherwise
    it returns NULL with an errno (`create_returns`) — there is no third outcome -/
theorem create_ok_iff (cfg : Cfg) (h15 : cfg.fixUlongMax = true) (h16 : cfg.fixDigits = true)
    (h18 : cfg.fixCurTok = true) (h22 : cfg.fixSuffixBal = true) (s : Str) :
    (∃ h, create cfg s = .ok h) ↔ ∀ t ∈ tokens hlSep s, tokOk t :=
  Hostlist.create_ok_iff cfg h15 h16 h18 h22 s

/-- UNBALANCED TEXT ⇒ FAILURE, whole-text level, against the SPEC's own predicate `Spec.balanced`
    (written without the model): a text whose brackets do not match anywhere is refused -/
theorem unbalanced_text_fails (cfg : Cfg) (h15 : cfg.fixUlongMax = true) (h16 : cfg.fixDigits = true)
    (h18 : cfg.fixCurTok = true) (h22 : cfg.fixSuffixBal = true) (s : Str)
    (hu : Spec.balanced 0 s = false) : ∃ e f, create cfg s = .null e f :=
  Hostlist.unbalanced_text_fails cfg h15 h16 h18 h22 s hu

/-! ## against the independent spec, whole texts, EVERY BYTE STRING -/

/-- ACCEPTED ⇔ WELL-FORMED.  For every byte string `s`: `hostlist_create` yields a list exactly when
    the independent reader `Spec.classify` (Hostlist/Spec.lean, written without the model) finds no
    problem in `s` — brackets that do not match, a range bound that is not a digit string, a
    reversed range, more than 16384 hosts in a range, more than 10240 ranges in a group — and no
    bound of a range within the limits reaches 2^64-1 (`note64₁`: the property text is silent there;
    the code refuses such a range as "too many hosts", `item_refines_spec`) -/
theorem create_iff_classify (cfg : Cfg) (h15 : cfg.fixUlongMax = true) (h16 : cfg.fixDigits = true)
    (h18 : cfg.fixCurTok = true) (h22 : cfg.fixSuffixBal = true) (s : Str) :
    (∃ h, create cfg s = .ok h) ↔ (Spec.classify s).problems = [] ∧ note64₁ s = false :=
  Hostlist.create_iff_classify cfg h15 h16 h18 h22 s

/-- … AND THEN THE HOSTS ARE THE SPEC'S EXPANSION: the list is well formed (counter exact, no
    wrapped or empty record) and denotes exactly `(Spec.classify s).hosts₁` — every word in the
    order written, prefix + numeral (width of the low bound as typed) + the rest verbatim, repeats
    kept; `hostlist_count` is its length -/
theorem create_hosts_classify (cfg : Cfg) (h15 : cfg.fixUlongMax = true) (h16 : cfg.fixDigits = true)
    (h18 : cfg.fixCurTok = true) (h22 : cfg.fixSuffixBal = true) (h23 : cfg.fixHostBuf = true)
    (s : Str) (h : HL) (hc : create cfg s = .ok h) :
    h.Good ∧ h.hosts = (Spec.classify s).hosts₁ ∧ h.count = (Spec.classify s).hosts₁.length :=
  Hostlist.create_hosts_classify cfg h15 h16 h18 h22 h23 s h hc

/-- C15 + C01 IN ONE STATEMENT, every byte string: well-formed for the spec ⇒ a list that denotes
    the spec's expansion; anything else ⇒ NULL with an errno.  No third outcome, no other hosts. -/
theorem create_refines_classify (cfg : Cfg) (h15 : cfg.fixUlongMax = true) (h16 : cfg.fixDigits = true)
    (h18 : cfg.fixCurTok = true) (h22 : cfg.fixSuffixBal = true) (h23 : cfg.fixHostBuf = true) (s : Str) :
    ((Spec.classify s).problems = [] ∧ note64₁ s = false →
      ∃ h, create cfg s = .ok h ∧ h.Good ∧ h.hosts = (Spec.classify s).hosts₁) ∧
    (¬ ((Spec.classify s).problems = [] ∧ note64₁ s = false) → ∃ e f, create cfg s = .null e f) := by
  constructor
  · intro hw
    obtain ⟨h, hc⟩ := (create_iff_classify cfg h15 h16 h18 h22 s).mpr hw
    obtain ⟨g, hh, _⟩ := create_hosts_classify cfg h15 h16 h18 h22 h23 s h hc
    exact ⟨h, hc, g, hh⟩
  · intro hn
    rcases create_returns cfg h15 h18 s with ⟨h, hc⟩ | hnull
    · exact absurd ((create_iff_classify cfg h15 h16 h18 h22 s).mp ⟨h, hc⟩) hn
    · exact hnull

/-! ## what `pdsh -w` does with a word whose parse fails (open finding F15-CLI-WORD-DROPPED) -/

/-- THE FAILURE OF ONE COMMA-WORD IS NOT THE FAILURE OF `-w` (code as found, every variant of
    hostlist.c): the argument `b,a[1` has unbalanced brackets and `hostlist_create` refuses it as
    a whole (EINVAL, no diagnostic) — but opt.c hands every comma-word to `hostlist_push` on its
    own and does not look at the result, so pdsh goes on with `b`.  The property text asks that
    unbalanced brackets make the parse fail; checks/c15.py reports every such run of the real pdsh
    (signature `cli-unbalanced-accepted:word-dropped`); proposed patch:
    findings/C15-CLI-WORD-DROPPED.patch. -/
theorem cli_drops_failed_word :
    create Cfg.repaired "b,a[1".toList = .null EINVAL .none ∧
    Spec.balanced 0 "b,a[1".toList = false ∧
    (match cliTargets Cfg.repaired "b,a[1".toList with
      | .ok (some h) => some h.hosts | _ => none) = some ["b".toList] := by
  decide

/-- THE REPAIRED opt.c (d1c94df = /repo HEAD; model: Hostlist/CliRefuse.lean `cliTargetsR`, the driver's
    `clir` op, compared with `pdsh -Q -w` verbatim incl. the quoted word) AGAINST THE CODE AS FOUND, for
    EVERY argument text and every variant of hostlist.c: (1) when the repaired `-w` path arrives at a
    working collective it is the one `cliTargets` arrives at -- so C01.cli_text / cli_targets speak about
    /repo HEAD too; (2) when it ends in `invalid host expression "w"`, the quoted word on its own yields
    nothing: `hostlist_create w` is NULL without a diagnostic (unbalanced brackets, > MAX_RANGES ranges) or
    an empty list -- an argument is never refused for a word that names a host. -/
theorem cliTargetsR_agrees (cfg : Cfg) (arg : Str) :
    (∀ h, cliTargetsR cfg arg = .targets h → cliTargets cfg arg = .ok (some h)) ∧
    (∀ w, cliTargetsR cfg arg = .refused w → YieldsNothing cfg w) :=
  cliTargetsR_spec cfg arg

/-- named witness (the text of `cli_drops_failed_word`): the repaired path refuses `b,a[1`, quoting `a[1` -/
theorem cli_refuses_failed_word :
    cliTargetsR Cfg.repaired "b,a[1".toList = .refused "a[1".toList := by
  decide

/-! ## limits and bounds that hold in EVERY variant, for every text -/

/-- `struct _range ranges[MAX_RANGES]`: the parser writes `ranges[count++]` only for
    count < MAX_RANGES — an accepted group has one record per item and at most MAX_RANGES -/
theorem ranges_in_bounds (cfg : Cfg) (e : Nat) (body : Str) (rs : Array SR) (e' : Nat)
    (h : parseRangeList cfg e body = .ok rs e') :
    rs.size = (splitAll ',' body).length ∧ rs.size ≤ MAX_RANGES :=
  Hostlist.ranges_in_bounds cfg e body rs e' h

/-- a text of n bytes never yields more than MAX_RANGE · n hosts, whatever numbers it contains:
    result size (and with it the work and memory of the call) is linear in the text length -/
theorem create_count_le (cfg : Cfg) (s : Str) (h : HL) (hc : create cfg s = .ok h) :
    h.count ≤ (MAX_RANGE * s.length : Nat) :=
  Hostlist.create_count_le cfg s h hc

/-- EVERY ACCEPTED TEXT YIELDS A WELL-FORMED LIST (D15/D25 repaired): every range record has
    lo ≤ hi < 2^64-1 and the cached counter `hostlist_count` equals the number of denoted hosts —
    no wrapped, empty or "negative" record can come out of the parser, whatever was typed -/
theorem create_good (cfg : Cfg) (h15 : cfg.fixUlongMax = true) (s : Str) (h : HL)
    (hc : create cfg s = .ok h) : h.Good :=
  Hostlist.create_good cfg h15 s h hc

/-- WALKING WHAT WAS ACCEPTED (every text; with C01's iteration theorem): `hostlist_next` until
    NULL yields exactly the denoted hosts and stops after `hostlist_count` of them, which is at
    most 16384 · (text length) -/
theorem create_walk (cfg : Cfg) (h15 : cfg.fixUlongMax = true) (h17 : cfg.fixIterSuffix = true)
    (s : Str) (h : HL) (hc : create cfg s = .ok h) (n : Nat) (hn : h.hosts.length ≤ n) :
    iterAll cfg h n = h.hosts ∧ h.count = h.hosts.length ∧
      h.hosts.length ≤ MAX_RANGE * s.length :=
  Hostlist.create_walk cfg h15 h17 s h hc n hn

/-- TERMINATION, tokenizer: the fuel the model passes (text length + 1) always suffices … -/
theorem tokens_fuel_suffices (sep s : Str) (f : Nat) (hf : s.length < f) :
    tokensFuel sep f s = tokens sep s :=
  Hostlist.tokens_fuel_suffices sep s f hf

/-- … so `tokens` is exactly the loop `while ((tok = _next_tok(sep, &str)) != NULL)` -/
theorem tokens_unfold (sep s : Str) :
    tokens sep s = match nextTok sep s with
      | none => []
      | some (t, r) => t :: tokens sep r :=
  Hostlist.tokens_unfold sep s

/-- TERMINATION, `wcoll_expand`: the fuel `nhosts + 1` always suffices; by `create_count_le` it
    is at most 16384 · (text length) + 1 -/
theorem wcollExpand_fuel_suffices (cfg : Cfg) (h : HL) (f : Nat) (hf : h.nhosts.toNat < f) :
    wcollExpandLoop cfg f h.ranges.toList h.nhosts HL.new = wcollExpand cfg h :=
  Hostlist.wcollExpand_fuel_suffices cfg h f hf

/-- EXPLICIT BUFFER of `_push_range_list_with_suffix`: the name the model pushes is what
    `snprintf(host, size, ..)` leaves in a buffer of the C code's size — `host[4096]` in the code
    as found (names cut at 4095 bytes, D23), `malloc(strlen(pfx)+strlen(sfx)+max(width,20)+1)` in
    the repaired code, where nothing is ever cut: no write outside the buffer in either -/
theorem host_buffer_is_snprintf (cfg : Cfg) (pfx sfx : Str) (w j : Nat) (hj : j ≤ ULONG_MAX) :
    suffixedName cfg pfx sfx w j =
      snprintfC (if cfg.fixHostBuf then hostBufLen pfx sfx w else HOSTBUF) (pfx ++ fmtPad w j ++ sfx) :=
  suffixedName_is_snprintf cfg pfx sfx w j hj

/-- EXPLICIT BUFFER of `hostlist_next`: `suffix[16]` written with size 15 in the code as found
    (D17), `malloc(strlen(prefix)+max(width,20)+1)` in the repaired code (whole name fits) -/
theorem next_buffer_is_snprintf (cfg : Cfg) (r : HRange) (d : Nat) :
    r.pre ++ iterSuffix cfg (fmtPad r.width (addU64 r.lo d)) =
      if cfg.fixIterSuffix then snprintfC (nextBufLen r) (r.pre ++ fmtPad r.width (addU64 r.lo d))
      else r.pre ++ snprintfC 15 (fmtPad r.width (addU64 r.lo d)) :=
  iterSuffix_is_snprintf cfg r d

end PdshVerif.C15

/-! non-vacuity of the full-strength statements (the hypotheses are met by `Cfg.repaired`, the
    predicates are inhabited, and the instances are derived THROUGH the theorems) -/
section Examples15
open PdshVerif.Hostlist PdshVerif.Gen

example : Cfg.repaired.fixUlongMax = true ∧ Cfg.repaired.fixDigits = true ∧
    Cfg.repaired.fixCurTok = true ∧ Cfg.repaired.fixSuffixBal = true := by decide
example : itemOk "007-12".toList := by decide
example : ¬ itemOk "12-007".toList := by decide
example : tokOk "a[1-3,007]x[2]".toList ∧ ¬ tokOk "a[1-3]]".toList ∧ ¬ tokOk "a[1-x]".toList := by decide
/-- a 30-digit high bound: refused as too many, through `too_many_however_large` -/
example : parseSingleRange Cfg.repaired 0 "5-999999999999999999999999999999".toList = .fail ERANGE .tooMany :=
  PdshVerif.C15.too_many_however_large Cfg.repaired rfl rfl 0 _ (by decide) (by decide) (by decide)
/-- a whole text accepted, through `create_ok_iff` -/
example : ∃ h, create Cfg.repaired "a[1-3,7]x, b".toList = .ok h :=
  (PdshVerif.C15.create_ok_iff Cfg.repaired rfl rfl rfl rfl _).mpr (by decide)
/-- and one refused (second token unbalanced), through the same theorem -/
example : ¬ ∃ h, create Cfg.repaired "a[1-3] b]".toList = .ok h := by
  rw [PdshVerif.C15.create_ok_iff Cfg.repaired rfl rfl rfl rfl]; decide
example : ∃ e f, create Cfg.repaired "a[1-3] b]".toList = .null e f :=
  PdshVerif.C15.unbalanced_text_fails Cfg.repaired rfl rfl rfl rfl _ (by decide)
/-- whole texts through `create_refines_classify`: accepted with the spec's hosts … -/
example : ∃ h, create Cfg.repaired "a[1-2,07]x, b".toList = .ok h ∧
    h.hosts = ["a1x".toList, "a2x".toList, "a07x".toList, "b".toList] := by
  obtain ⟨h, hc, _, hh⟩ := (PdshVerif.C15.create_refines_classify Cfg.repaired rfl rfl rfl rfl rfl
    "a[1-2,07]x, b".toList).1 (by decide)
  exact ⟨h, hc, by rw [hh]; decide⟩
/-- … or refused: a reversed range, a bound ≥ 2^64 in a small range -/
example : ∃ e f, create Cfg.repaired "a[3-1]".toList = .null e f :=
  (PdshVerif.C15.create_refines_classify Cfg.repaired rfl rfl rfl rfl rfl _).2 (by decide)
example : ∃ e f, create Cfg.repaired "a[18446744073709551615]".toList = .null e f :=
  (PdshVerif.C15.create_refines_classify Cfg.repaired rfl rfl rfl rfl rfl _).2 (by decide)
end Examples15
