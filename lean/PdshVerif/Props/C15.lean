/-
  C15  Any text given as a host expression is handled safely and within limits.
  PROPERTY THEOREMS ONLY (helper lemmas live in PdshVerif/Hostlist/Lemmas*.lean).

  Totality/termination of `create` on every input is Lean's own termination check of the model
  (structural recursion / fuel, no `partial`); the model marks the two places where the C code
  does NOT terminate or reads an unterminated buffer as `Outcome.diverge` / `Outcome.ub`.
-/
import PdshVerif.Hostlist.LemmasParse

namespace PdshVerif.C15
open PdshVerif.Hostlist PdshVerif.Gen

/-
  FULL STATEMENT (false of the unchanged code, D15):
    parseSingleRange e s = .ok r e' → r.hi - r.lo + 1 ≤ MAX_RANGE
  The size test `hi - lo + 1 > MAX_RANGE` is evaluated in `unsigned long`; for 0..2^64-1 (which is
  also what any `0-<number ≥ 2^64>` clamps to) it wraps to 0.  Witness: `range_limit_false`.
-/

/-- whatever the text: an accepted range item has ordered bounds and holds at most MAX_RANGE
    (16384) hosts — EXCEPT the single wrapped range 0..2^64-1 -/
theorem range_limit_partial {e e' : Nat} {s : Str} {r : SR} (h : parseSingleRange e s = .ok r e')
    (hne : ¬(r.lo = 0 ∧ r.hi = ULONG_MAX)) : r.lo ≤ r.hi ∧ r.hi - r.lo + 1 ≤ MAX_RANGE := by
  obtain ⟨hle, hhi, hbig, _⟩ := parseSingleRange_ok h
  refine ⟨hle, ?_⟩
  rcases rangeTooBig_false hle hhi hbig with h1 | h1
  · exact h1
  · exact absurd h1 hne

/-- D15 witness: the typed range `0-99999999999999999999` is ACCEPTED, as 0..2^64-1
    (2^64 hosts; `hostrange_count` of it is 0) -/
theorem range_limit_false :
    parseSingleRange 0 "0-99999999999999999999".toList = .ok ⟨0, ULONG_MAX, 1⟩ ERANGE := by
  decide

/-- with the repaired size test (`hi - lo >= MAX_RANGE`) the limit holds without exception -/
theorem range_limit_fixed {lo hi : Nat} (hle : lo ≤ hi) (hhi : hi ≤ ULONG_MAX)
    (h : rangeTooBigFixed lo hi = false) : hi - lo + 1 ≤ MAX_RANGE :=
  rangeTooBigFixed_false hle hhi h

end PdshVerif.C15
