/-
  C05  Each host's output is relayed complete, in order, exactly once.
  PROPERTY THEOREMS ONLY (helper lemmas live in PdshVerif/Relay/*.lean).

  What the theorems are about: `runStream fifoOps ...`, the model of
  _handle_rcmd_stdout/_stderr -> _do_output -> _flush_lines (-> _extract_rc) per arrival, the
  drain loop after the remote side closed, and _flush_output -- over the FIFO specification of
  the circular buffer (`Cbuf.Spec`) together with cbuf.c's request/growth policy
  (`PBuf.wfd`), starting from `cbuf_create (64, 131072)`.
  `sizeMeta` = the bookkeeping cells of the cbuf build flavour (1 shipped, 17 with assertions);
  every theorem holds for 1 <= sizeMeta <= 800.
  `script` = ANY cutting of the stream into arrivals (one handler call after each arrival;
  empty arrivals = polls that find nothing new); `S = script.flatten` is the stream itself.
  `markerOf readRc` = the return-code marker for stdout (`readRc = true`), nothing for stderr.

  NOT proved here: that the index-level model of cbuf.c (`indexOps`, the instance executed
  against the real code) refines `fifoOps` -- that is property C13 (both instances are run
  against the real dsh.c/cbuf.c by checks/c05.py on every case).  Threads, the kernel and
  poll() are not modelled (real-process runs in the check).
-/
import PdshVerif.Relay.TailLemmas
import PdshVerif.Relay.Interleave
import PdshVerif.Relay.Simulation
import PdshVerif.Relay.DomIff

namespace PdshVerif.C05
open PdshVerif.Relay

/-- all bytes written, in call order -/
def written (ems : List Em) : Bytes := (ems.map Em.bytes).flatten

/-- the decidable domain predicate `Dom05` says what the property says: no NUL byte; every line
    (its newline included) and the final unterminated fragment at most 128 KiB long; (standard
    output, `m = some marker`) no line contains the return-code marker -/
theorem dom_in_words (m : Option Bytes) (s : Bytes) :
    Spec.Dom05 m s = true ↔
      (∀ b ∈ s, b ≠ 0) ∧ (∀ l ∈ Spec.lines s, l.length ≤ 131072) ∧ (Spec.tail s).length ≤ 131072 ∧
      (∀ mk, m = some mk → ∀ l ∈ Spec.lines s, Spec.occurs mk l = false) := by
  unfold Spec.Dom05
  simp only [Bool.and_eq_true, List.all_eq_true, decide_eq_true_eq, Spec.runsWithin_iff, Spec.maxLine]
  cases m with
  | none =>
    simp only [and_true, reduceCtorEq, false_imp_iff, implies_true]
  | some mk =>
    simp only [Option.some.injEq, forall_eq', List.all_eq_true, Bool.not_eq_true']
    constructor
    · rintro ⟨⟨h1, h2, h3⟩, h4⟩; exact ⟨fun b hb => by simpa using h1 b hb, h2, h3, h4⟩
    · rintro ⟨h1, h2, h3, h4⟩; exact ⟨⟨fun b hb => by simpa using h1 b hb, h2, h3⟩, h4⟩

/-- THE KEY INVARIANT.  A relay buffer between handler calls holds no complete line
    (`RunInv`: it holds the unterminated rest `(split x).2` of what was read), hence -- in the
    domain -- fewer than 131072 bytes whenever input remains (`Room`), hence the descriptor
    write `cbuf_write_from_fd (cb, fd, -1, &dropped)` never overwrites: dropped = 0, and it
    appends a non-empty prefix of what is available. -/
theorem descriptor_write_never_drops {sizeMeta : Nat} (hm1 : 1 ≤ sizeMeta) (hm2 : sizeMeta ≤ 800)
    {b : PBuf} (hi : BufInv sizeMeta b) (avail : Bytes) (eof : Bool)
    (hroom : avail ≠ [] → b.f.q.length < 131072) :
    (PBuf.wfd b avail eof).2.1 = 0 ∧
    ∃ k, (PBuf.wfd b avail eof).2.2.f.q = b.f.q ++ avail.take k ∧ (avail ≠ [] → 0 < k) ∧
      BufInv sizeMeta (PBuf.wfd b avail eof).2.2 := by
  obtain ⟨k, hw, hk0, _, hinv⟩ := wfd_fifo hi hm1 hm2 avail eof hroom
  rw [hw]
  exact ⟨rfl, k, rfl, hk0, hinv⟩

/-- CLOSED FORM (chunk independence in its strongest form): for every stream `S` in the domain
    and EVERY script that feeds it, the list of stdio calls is: one call `prefix ++ line` per
    line of `S`, in order, then the calls `_flush_output` spends on the unterminated rest;
    th->rc stays 0. -/
theorem relay_closed_form (cfg : Cfg) (host t0host : Bytes) (strm : Nat) (readRc : Bool)
    {sizeMeta : Nat} (hm1 : 1 ≤ sizeMeta) (hm2 : sizeMeta ≤ 800) {b0 : PBuf}
    (hb0 : mkFifoBuf sizeMeta = some b0) (script : List Bytes)
    (hdom : Spec.Dom05 (markerOf readRc) script.flatten = true) :
    (runStream fifoOps cfg host t0host strm readRc b0 script).ems =
      (Spec.lines script.flatten).map (fun l => (⟨strm, labelPrefix cfg.labels cfg.keep host ++ l⟩ : Em)) ++
        tailEms cfg host strm ((Spec.tail script.flatten).length + 1) (Spec.tail script.flatten) false ∧
    (runStream fifoOps cfg host t0host strm readRc b0 script).rc = 0 := by
  exact runStream_closed cfg host strm readRc t0host hm1 hm2 hb0 script hdom

/-- `relay_lossless`: the bytes written for the host are exactly the labelled stream --
    every line and a non-empty final fragment preceded by the prefix, nothing lost, duplicated,
    reordered or invented -- however the stream is fragmented. -/
theorem relay_lossless (cfg : Cfg) (host t0host : Bytes) (strm : Nat) (readRc : Bool)
    {sizeMeta : Nat} (hm1 : 1 ≤ sizeMeta) (hm2 : sizeMeta ≤ 800) {b0 : PBuf}
    (hb0 : mkFifoBuf sizeMeta = some b0) (script : List Bytes)
    (hdom : Spec.Dom05 (markerOf readRc) script.flatten = true) :
    written (runStream fifoOps cfg host t0host strm readRc b0 script).ems =
      Spec.render (labelPrefix cfg.labels cfg.keep host) script.flatten := by
  obtain ⟨h1, _⟩ := relay_closed_form cfg host t0host strm readRc hm1 hm2 hb0 script hdom
  have h0 : ∀ b ∈ Spec.tail script.flatten, b ≠ 0 := fun b hb => dom_noNul hdom b (mem_of_mem_rest hb)
  obtain ⟨ht, _⟩ := tailEms_flatten cfg host strm _ (Spec.tail script.flatten) (Nat.lt_succ_self _) h0
  unfold written
  rw [h1, List.map_append, List.flatten_append, ht]
  unfold Spec.render
  congr 1
  simp only [List.map_map, List.flatMap]
  rfl

/-- the same with the labels stripped: what pdsh wrote for the host IS what the command wrote -/
theorem relay_lossless_stripped (cfg : Cfg) (host t0host : Bytes) (strm : Nat) (readRc : Bool)
    {sizeMeta : Nat} (hm1 : 1 ≤ sizeMeta) (hm2 : sizeMeta ≤ 800) {b0 : PBuf}
    (hb0 : mkFifoBuf sizeMeta = some b0) (script : List Bytes)
    (hdom : Spec.Dom05 (markerOf readRc) script.flatten = true) :
    Spec.strip (labelPrefix cfg.labels cfg.keep host).length
      (written (runStream fifoOps cfg host t0host strm readRc b0 script).ems) = script.flatten := by
  rw [relay_lossless cfg host t0host strm readRc hm1 hm2 hb0 script hdom, Spec.strip_render]

/-- the specification's verdict (the oracle the check applies to the real code's stdio calls)
    holds of the model -/
theorem relay_c05Ok (cfg : Cfg) (host t0host : Bytes) (strm : Nat) (readRc : Bool)
    {sizeMeta : Nat} (hm1 : 1 ≤ sizeMeta) (hm2 : sizeMeta ≤ 800) {b0 : PBuf}
    (hb0 : mkFifoBuf sizeMeta = some b0) (script : List Bytes)
    (hdom : Spec.Dom05 (markerOf readRc) script.flatten = true) :
    Spec.c05Ok (labelPrefix cfg.labels cfg.keep host) script.flatten
      ((runStream fifoOps cfg host t0host strm readRc b0 script).ems.map Em.bytes) = true := by
  have h := relay_lossless cfg host t0host strm readRc hm1 hm2 hb0 script hdom
  unfold written at h
  simp [Spec.c05Ok, h]

/-- nothing else is emitted: every stdio call of the stream goes to the stream's own FILE
    (no diagnostic of dsh.c -- stream 9 -- is ever reached) -/
theorem relay_only_own_stream (cfg : Cfg) (host t0host : Bytes) (strm : Nat) (readRc : Bool)
    {sizeMeta : Nat} (hm1 : 1 ≤ sizeMeta) (hm2 : sizeMeta ≤ 800) {b0 : PBuf}
    (hb0 : mkFifoBuf sizeMeta = some b0) (script : List Bytes)
    (hdom : Spec.Dom05 (markerOf readRc) script.flatten = true) :
    ∀ e ∈ (runStream fifoOps cfg host t0host strm readRc b0 script).ems, e.stream = strm := by
  obtain ⟨h1, _⟩ := relay_closed_form cfg host t0host strm readRc hm1 hm2 hb0 script hdom
  have h0 : ∀ b ∈ Spec.tail script.flatten, b ≠ 0 := fun b hb => dom_noNul hdom b (mem_of_mem_rest hb)
  obtain ⟨_, ht⟩ := tailEms_flatten cfg host strm _ (Spec.tail script.flatten) (Nat.lt_succ_self _) h0
  intro e he
  rw [h1, List.mem_append] at he
  rcases he with he | he
  · simp only [List.mem_map] at he
    obtain ⟨l, _, rfl⟩ := he
    rfl
  · exact ht e he

/-- `relay_chunk_independent`: two scripts that carry the same stream produce the same stdio
    calls, call by call (so nothing observable depends on read sizes or on where lines are
    split across reads) -/
theorem relay_chunk_independent (cfg : Cfg) (host t0host : Bytes) (strm : Nat) (readRc : Bool)
    {sizeMeta : Nat} (hm1 : 1 ≤ sizeMeta) (hm2 : sizeMeta ≤ 800) {b0 : PBuf}
    (hb0 : mkFifoBuf sizeMeta = some b0) (script script' : List Bytes) (hsame : script.flatten = script'.flatten)
    (hdom : Spec.Dom05 (markerOf readRc) script.flatten = true) :
    (runStream fifoOps cfg host t0host strm readRc b0 script).ems =
      (runStream fifoOps cfg host t0host strm readRc b0 script').ems := by
  obtain ⟨h1, _⟩ := relay_closed_form cfg host t0host strm readRc hm1 hm2 hb0 script hdom
  obtain ⟨h2, _⟩ := relay_closed_form cfg host t0host strm readRc hm1 hm2 hb0 script' (hsame ▸ hdom)
  rw [h1, h2, hsame]

/-- MANY HOSTS STREAMING AT ONCE, ALL INTERLEAVINGS.  `evs` is ANY global sequence of events
    (chunk arrives on a stream and its handler runs | a stream finishes), over any number of
    targets and both streams of each: the scheduler is universally quantified.  For every stream
    `k` that, in this run, receives some cutting `script` of a stream in the domain and then
    finishes, the stdio calls of `k` found in the GLOBAL output (in their global order) write
    exactly `k`'s labelled stream -- whatever the other streams did in between. -/
theorem relay_lossless_any_interleaving (cfg : Cfg) (names : Nat → Bytes) {sizeMeta : Nat} (hm1 : 1 ≤ sizeMeta)
    (hm2 : sizeMeta ≤ 800) {b0 : PBuf} (hb0 : mkFifoBuf sizeMeta = some b0)
    (evs : List (Key × LEv)) (k : Key) (script : List Bytes)
    (hk : (evs.filter (fun e => e.1 = k)).map (·.2) = script.map LEv.feed ++ [LEv.finish])
    (hdom : Spec.Dom05 (markerOf (!k.2)) script.flatten = true) :
    written (logOf (evs.foldl (gstep fifoOps cfg names) (ginit b0)) k) =
      Spec.render (labelPrefix cfg.labels cfg.keep (names k.1)) script.flatten := by
  rw [global_stream_is_runStream fifoOps cfg names b0 evs k script hk]
  exact relay_lossless cfg (names k.1) (names 0) (strmNo k) (!k.2) hm1 hm2 hb0 script hdom

/-- TRANSFER to the index-level relay (`indexOps`: the model of cbuf.c's indices and data array,
    the instance that is executed against the real code).  HYPOTHESIS `hsim`: the buffer-level
    obligations `Sim indexOps fifoOps R` of Relay/Simulation.lean -- related buffers answer the
    three cbuf calls alike and stay related -- for some relation `R` that holds of the freshly
    created buffers.  That is property C13's refinement statement (plus the two scalar policy
    facts); it is NOT proved here.  Under it the index-level relay is lossless as well. -/
theorem relay_lossless_index {R : Cbuf.Cbuf → PBuf → Prop} (hsim : Sim indexOps fifoOps R)
    (cfg : Cfg) (host t0host : Bytes) (strm : Nat) (readRc : Bool)
    {sizeMeta : Nat} (hm1 : 1 ≤ sizeMeta) (hm2 : sizeMeta ≤ 800) {a0 : Cbuf.Cbuf} {b0 : PBuf}
    (hb0 : mkFifoBuf sizeMeta = some b0) (hR : R a0 b0) (script : List Bytes)
    (hdom : Spec.Dom05 (markerOf readRc) script.flatten = true) :
    written (runStream indexOps cfg host t0host strm readRc a0 script).ems =
      Spec.render (labelPrefix cfg.labels cfg.keep host) script.flatten := by
  rw [(runStream_sim hsim cfg host t0host strm readRc a0 b0 hR script).1]
  exact relay_lossless cfg host t0host strm readRc hm1 hm2 hb0 script hdom

/-! ### `_extract_rc`: why the marker is excluded from the domain -/

/-- a line without the marker passes `_extract_rc` unchanged, status 0 -/
theorem extractRc_without_marker (l : Bytes) (h0 : ∀ b ∈ l, b ≠ 0) (hm : Spec.occurs magic l = false) :
    extractRc l = (0, l) := by
  have := extractRc_noMagic l (by rw [cstr_of_noNul l h0, findSub_none_iff]; exact hm)
  rw [this, cstr_of_noNul l h0]

/-- a stdout line that does contain the marker is cut at the marker (whatever -S says: dsh.c
    passes read_rc = true for every stdout line), so such streams cannot be relayed verbatim -/
theorem extractRc_with_marker_cuts : (extractRc (magic ++ [51, 10])).2 = [] := by decide

/-- defect D9 (property C08, recorded here because this model contains `_extract_rc`): when text
    precedes the marker on a newline-terminated line the status is parsed from one past its
    first digit: "fooXXRETCODE:3\n" yields 0 (and the text "foo\n"), "XXRETCODE:3\n" yields 3 -/
theorem extractRc_D9_witness :
    extractRc ([102, 111, 111] ++ magic ++ [51, 10]) = (0, [102, 111, 111, 10]) ∧
    extractRc (magic ++ [51, 10]) = (3, []) ∧
    (extractRc ([102, 111, 111] ++ magic ++ [50, 53, 53, 10])).1 = 55 := by decide

/-- observation for property C08 (not judged here): `_flush_lines` assigns
    `th->rc = _extract_rc (buf)` for EVERY stdout line, and a line without the marker yields 0 --
    so any line that follows the marker line resets the status: the stream
    "XXRETCODE:3\nmore\n" leaves th->rc = 0 (the LAST LINE wins, not the last marker) -/
theorem thrc_reset_by_later_line_witness :
    (afterLines ⟨true, false, false⟩ [104] 1 true (magic ++ [51, 10])).1 = 3 ∧
    (afterLines ⟨true, false, false⟩ [104] 1 true (magic ++ [51, 10] ++ [109, 111, 114, 101, 10])).1 = 0 := by
  decide

/-! ### non-vacuity and sharpness -/

/-- the hypotheses are satisfiable: the shipped build has sizeMeta = 1, "ab\ncd" is in the domain -/
example : ∃ b0, mkFifoBuf 1 = some b0 ∧ Spec.Dom05 (markerOf true) [97, 98, 10, 99, 100] = true :=
  ⟨_, rfl, by decide⟩

/-- a concrete run: "ab\nc" arriving as "a", "b\nc" on host "h" is written as "h: ab\n", "h: c"
    (repaired tail form) -/
example : ∀ b0, mkFifoBuf 1 = some b0 →
    (runStream fifoOps ⟨true, false, false⟩ [104] [104] 1 true b0 [[97], [98, 10, 99]]).ems =
      [⟨1, [104, 58, 32, 97, 98, 10]⟩, ⟨1, [104, 58, 32, 99]⟩] := by
  intro b0 h
  simp [mkFifoBuf, Cbuf.Spec.create, Gen.RELAY_CBUF_MIN, Gen.RELAY_CBUF_MAX] at h
  subst h
  decide

/-- `relay_beyond_domain_witness` (scaled-down buffer: capacity 4, never grows): a 7-byte line
    arriving at once after a full buffer loses its oldest bytes -- the bound on the line length
    in the domain is what keeps `cbuf_write_from_fd` from overwriting -/
theorem relay_beyond_domain_witness :
    written (runStream fifoOps ⟨false, false, false⟩ [104] [104] 1 false
      ⟨⟨[], 4, 4, 4, .wrapMany⟩, 5⟩ [[97, 98, 99, 100], [101, 102, 10]]).ems ≠
      [97, 98, 99, 100, 101, 102, 10] := by decide

end PdshVerif.C05
