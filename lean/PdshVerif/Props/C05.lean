/-
  C05  Each host's output is relayed complete, in order, exactly once.
  PROPERTY THEOREMS ONLY (helper lemmas live in PdshVerif/Relay/*.lean).
-/
import PdshVerif.Relay.Model
import PdshVerif.Relay.Spec

namespace PdshVerif.C05
open PdshVerif.Relay

/-- placeholder while the lemma library is being built -/
theorem cstr_nil : cstr [] = [] := rfl

end PdshVerif.C05
