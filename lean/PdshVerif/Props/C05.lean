/-
  C05  Each host's output is relayed complete, in order, exactly once.
  PROPERTY THEOREMS ONLY (helper lemmas live in PdshVerif/Relay/*.lean).

  What the theorems are about: `runStream fifoOps ...`, the model of
  _handle_rcmd_stdout/_stderr -> _do_output -> _flush_lines (-> _extract_rc) per arrival, the
  drain loop after the remote side closed, and _flush_output -- over the FIFO specification of
  the circular buffer (`Cbuf.Spec`) together with cbuf.c's request/growth policy
  (`PBuf.wfd`), starting from `cbuf_create (RELAY_CBUF_MIN, RELAY_CBUF_MAX)` -- the arguments are
  REGENERATED from dsh.c `_thd_init` on every run, and no theorem unfolds them.
  `sizeMeta` = the bookkeeping cells of the cbuf build flavour (1 shipped, 17 with assertions).
  The ONLY hypothesis about the constants is the decidable side condition `growthOk sizeMeta`
  (Relay/Growth.lean: every growth step of cbuf.c's policy, started from the initial size, makes room
  for the read that triggers it, and the maximum covers 128 KiB): `growthOk_generated(_assert)` prove
  it for the regenerated constants of both build flavours; `growth_from_4096_ok`/`growth_from_1024_not_ok`
  say which "harmless bigger initial buffer" IS harmless (4096: same even-thousands allocation sequence
  as 64) and which is not (1024: odd thousands, last step 130999 -> 131072 gains 73 bytes for a read
  of up to 1000); `short_growth_step_drops` shows the condition is NECESSARY (a short last step
  overwrites unread bytes).  `pdshmodel relay growth` evaluates the same predicate in the check, which
  pins streams around every capacity of the growth sequence (quick tier: the first and last steps).
  `script` = ANY cutting of the stream into arrivals (one handler call after each arrival;
  empty arrivals = polls that find nothing new); `S = script.flatten` is the stream itself.
  `markerOf readRc` = the return-code marker for stdout (`readRc = true`), nothing for stderr.

  The index-level model of cbuf.c (`indexOps`, the instance executed against the real code)
  simulates `fifoOps` (Relay/IndexSim.lean `idx_sim`, on top of property C13's refinement
  lemmas `writeFromFd_refines`/`read_refines`/`peekLine_refines`), so the `_index` theorems state the
  same of the index-level relay without any hypothesis about the buffer.

  CLAUSE OF THE STATEMENT                                   THEOREM
  bytes written (label stripped) = bytes the command wrote  relay_lossless, relay_lossless_stripped, relay_c05Ok,
    nothing lost / duplicated / invented, in order            relay_closed_form (+ _index, _index_generated)
  "likewise standard error to standard error"               stderr_relayed_like_stdout, relay_only_own_stream
  any read sizes, lines split across reads                  relay_chunk_independent (every script of the same stream)
  short reads / EAGAIN / EINTR / any poll order             worker_delivers_what_it_read (every event list of `pollStep`)
  output ending without a newline, empty lines              in `Spec.render` / the domain (tail, lines of 1 byte)
  many hosts streaming at once                              relay_lossless_any_interleaving (+ _index_)
  -N                                                        relay_verbatim_with_N
  the loop runs until BOTH streams are at EOF               poll_loop_left_only_at_eof_of_both, handler_closes_exactly_at_eof
  a ready descriptor is read in that iteration (xpoll.c's   ready_descriptor_gets_its_handler, silent_descriptor_not_handled,
    translation + dsh.c's mask), EINTR retried by the loop    interrupted_poll_is_retried, xpoll_contract,
    handler order (learnt: stdout's first in dsh.c)            one_iteration_stdout_before_stderr, one_iteration_swapped_stderr_first
  a worker is done only after its output is delivered (C03) worker_done_has_delivered_everything, worker_done_equals_runStream
  a host that is given up on (timeout, poll error)          abandoned_stream_relays_what_was_read, worker_delivers_what_it_read
  a host whose command never starts                         unstarted_host_writes_nothing
  pdcp/rpdcp: remote stderr through the same functions      rcp_stderr_relayed, pdcp_success_reads_no_stderr
  domain: NUL-free, lines <= 128 KiB, no marker             dom_in_words; sharpness: beyond_domain_drops_head,
                                                              nul_cuts_record, extractRc_with_marker_cuts, marker_lookalikes_untouched
  the constants the proof leans on (cbuf_create arguments,  growthOk_generated(_assert), growth_from_4096_ok,
    CBUF_CHUNK, bookkeeping cells)                            growth_from_1024_not_ok, short_growth_step_drops (necessity);
                                                              Relay/GrowthUniform.lean `growthOk_of_le`: every 1..871 cells, no evaluation

  NOT PROVED (correspondence / real runs only): when the bytes of a stdio call reach the descriptor is the
  stdio layer's business (Relay/Stdio.lean, Props/C06 `records_reach_consumer_any_schedule`: assumption that
  glibc behaves like that writer); what a transport child does to inherited stdio buffers (seeded C06-5: must
  be nothing, `_exit`); read(2) errors other than EAGAIN/EINTR (the handler prints a diagnostic and closes the
  descriptor: outside the property's domain, exercised by the scheduler part); the kernel's poll(2) (the LTS takes
  its answers as events: any subset reported, any cap, any order; `XPoll.xpoll`/`loopIter` model what xpoll.c -- its
  HAVE_POLL flavour; the select() flavour is not compiled here and not modelled -- and the loop body make of an
  answer, run against the real xpoll.c over a scripted poll(2) and against every poll return of the real
  `_rsh_thread` under the scheduler); threads (one worker per
  host, per-call atomicity of stdio: Props/C06); the hand-written model's fidelity to dsh.c/err.c as such
  (differential execution on every run, incl. `handleCap` under scripted read faults and `_parallel_copy`).
-/
import PdshVerif.Relay.TailLemmas
import PdshVerif.Relay.Interleave
import PdshVerif.Relay.Simulation
import PdshVerif.Relay.DomIff
import PdshVerif.Relay.IndexSim
import PdshVerif.Relay.Poll
import PdshVerif.Relay.XPoll

namespace PdshVerif.C05
open PdshVerif.Relay

/-- all bytes written, in call order -/
def written (ems : List Em) : Bytes := (ems.map Em.bytes).flatten

/-- the decidable domain predicate `Dom05` says what the property says: no NUL byte; every line
    (its newline included) and the final unterminated fragment at most 128 KiB long; (standard
    output, `m = some marker`) no line contains the return-code marker -/
theorem dom_in_words (m : Option Bytes) (s : Bytes) :
    Spec.Dom05 m s = true ↔
      (∀ b ∈ s, b ≠ 0) ∧ (∀ l ∈ Spec.lines s, l.length ≤ 131072) ∧ (Spec.tail s).length ≤ 131072 ∧
      (∀ mk, m = some mk → ∀ l ∈ Spec.lines s, Spec.occurs mk l = false) := by
  unfold Spec.Dom05
  simp only [Bool.and_eq_true, List.all_eq_true, decide_eq_true_eq, Spec.runsWithin_iff, Spec.maxLine]
  cases m with
  | none =>
    simp only [and_true, reduceCtorEq, false_imp_iff, implies_true]
  | some mk =>
    simp only [Option.some.injEq, forall_eq', List.all_eq_true, Bool.not_eq_true']
    constructor
    · rintro ⟨⟨h1, h2, h3⟩, h4⟩; exact ⟨fun b hb => by simpa using h1 b hb, h2, h3, h4⟩
    · rintro ⟨h1, h2, h3, h4⟩; exact ⟨⟨fun b hb => by simpa using h1 b hb, h2, h3⟩, h4⟩

/-- THE KEY INVARIANT.  A relay buffer between handler calls holds no complete line
    (`RunInv`: it holds the unterminated rest `(split x).2` of what was read), hence -- in the
    domain -- fewer than 131072 bytes whenever input remains (`Room`), hence the descriptor
    write `cbuf_write_from_fd (cb, fd, -1, &dropped)` never overwrites: dropped = 0, and it
    appends a non-empty prefix of what is available. -/
theorem descriptor_write_never_drops {sizeMeta : Nat}
    {b : PBuf} (hi : BufInv sizeMeta b) (avail : Bytes) (eof : Bool)
    (hroom : avail ≠ [] → b.f.q.length < 131072) :
    (PBuf.wfd b avail eof).2.1 = 0 ∧
    ∃ k, (PBuf.wfd b avail eof).2.2.f.q = b.f.q ++ avail.take k ∧ (avail ≠ [] → 0 < k) ∧
      BufInv sizeMeta (PBuf.wfd b avail eof).2.2 := by
  obtain ⟨k, hw, hk0, _, hinv⟩ := wfd_fifo hi avail eof hroom
  rw [hw]
  exact ⟨rfl, k, rfl, hk0, hinv⟩

/-! ### the side condition on the regenerated constants -/

/-- THE REGENERATED CONSTANTS SATISFY THE SIDE CONDITION, shipped build flavour (NDEBUG: one
    bookkeeping cell).  A `decide`d fact about named constants: when a change to dsh.c/cbuf.c makes
    it false this theorem stops compiling (proof obligation broken) AND the check's pinned
    boundary streams show the lost bytes on the real code. -/
theorem growthOk_generated : growthOk Gen.CBUF_SIZE_META = true := by decide +kernel

/-- ... and the build flavour with assertions (two magic cookies around the data) -/
theorem growthOk_generated_assert : growthOk Gen.RELAY_SIZE_META_ASSERT = true := by decide +kernel

/-- a 4096-byte initial buffer (harmless change C06-H2) satisfies the condition in both flavours:
    4096+1 + 1000 rounds up to 6000, the even thousands again -/
theorem growth_from_4096_ok : growthOkFor 4096 131072 1 = true ∧ growthOkFor 4096 131072 17 = true := by
  decide +kernel

/-- a 1024-byte initial buffer does NOT: 1024+1 + 1000 rounds up to 3000, the odd thousands; the
    full buffer of 130999 bytes grows to 131072 -- 73 bytes -- for a read of up to 1000 -/
theorem growth_from_1024_not_ok : growthOkFor 1024 131072 1 = false ∧
    firstBadStep 131072 Gen.CBUF_CHUNK 1 4096 1024 = some (130999, 131072) := by decide +kernel

/-- THE CONDITION IS NECESSARY.  A full buffer below its maximum whose growth step is capped at
    the maximum and gains less than the read asks for (`hshort`) OVERWRITES unread bytes as soon
    as the descriptor holds that much: dropped = size + request - maximum > 0 -- in the relay these
    are bytes of a line that is within the 128 KiB of the domain. -/
theorem short_growth_step_drops (b : PBuf) (hfull : b.f.q.length = b.f.size) (_hpos : 0 < b.f.size)
    (hmode : b.f.mode = .wrapMany) (hle : b.f.size ≤ b.f.maxsize) (hcap : b.grown.1 = b.f.maxsize)
    (hshort : b.f.maxsize < b.f.size + min b.f.size Gen.CBUF_CHUNK)
    (avail : Bytes) (hav : min b.f.size Gen.CBUF_CHUNK ≤ avail.length) (eof : Bool) :
    (PBuf.wfd b avail eof).2.1 = b.f.size + min b.f.size Gen.CBUF_CHUNK - b.f.maxsize ∧
    0 < (PBuf.wfd b avail eof).2.1 := by
  have hc : 0 < Gen.CBUF_CHUNK := by decide
  have hreq : wfdRequest b.f.size b.f.q.length = min b.f.size Gen.CBUF_CHUNK := by
    simp [wfdRequest, hfull]
  generalize hk : min b.f.size Gen.CBUF_CHUNK = k at *
  have hk0 : 0 < k := by omega
  have hreq0 : k ≠ 0 := by omega
  have hne : avail.isEmpty = false := by
    cases avail with
    | nil => simp at hav; omega
    | cons a r => rfl
  have hmin : min k avail.length = k := Nat.min_eq_left hav
  have hadm : Cbuf.Spec.admitSize b.f b.f.maxsize = true := by
    simp [Cbuf.Spec.admitSize]; omega
  have hnl : ¬ (k > avail.length) := by omega
  simp only [PBuf.wfd, hreq, hreq0, ↓reduceIte, hne, Bool.false_eq_true, hmin]
  simp [Cbuf.Spec.writeFromFd, hadm, hreq0, hmode, Cbuf.Spec.lossOk, hcap, hnl, hfull]
  omega

/-- CLOSED FORM (chunk independence in its strongest form): for every stream `S` in the domain
    and EVERY script that feeds it, the list of stdio calls is: one call `prefix ++ line` per
    line of `S`, in order, then the calls `_flush_output` spends on the unterminated rest;
    th->rc stays 0. -/
theorem relay_closed_form (cfg : Cfg) (host t0host : Bytes) (strm : Nat) (readRc : Bool)
    {sizeMeta : Nat} (hg : growthOk sizeMeta = true) {b0 : PBuf}
    (hb0 : mkFifoBuf sizeMeta = some b0) (script : List Bytes)
    (hdom : Spec.Dom05 (markerOf readRc) script.flatten = true) :
    (runStream fifoOps cfg host t0host strm readRc b0 script).ems =
      (Spec.lines script.flatten).map (fun l => (⟨strm, labelPrefix cfg.labels cfg.keep host ++ l⟩ : Em)) ++
        tailEms cfg host strm ((Spec.tail script.flatten).length + 1) (Spec.tail script.flatten) false ∧
    (runStream fifoOps cfg host t0host strm readRc b0 script).rc = 0 := by
  exact runStream_closed cfg host strm readRc t0host hg hb0 script hdom

/-- `relay_lossless`: the bytes written for the host are exactly the labelled stream --
    every line and a non-empty final fragment preceded by the prefix, nothing lost, duplicated,
    reordered or invented -- however the stream is fragmented. -/
theorem relay_lossless (cfg : Cfg) (host t0host : Bytes) (strm : Nat) (readRc : Bool)
    {sizeMeta : Nat} (hg : growthOk sizeMeta = true) {b0 : PBuf}
    (hb0 : mkFifoBuf sizeMeta = some b0) (script : List Bytes)
    (hdom : Spec.Dom05 (markerOf readRc) script.flatten = true) :
    written (runStream fifoOps cfg host t0host strm readRc b0 script).ems =
      Spec.render (labelPrefix cfg.labels cfg.keep host) script.flatten := by
  obtain ⟨h1, _⟩ := relay_closed_form cfg host t0host strm readRc hg hb0 script hdom
  have h0 : ∀ b ∈ Spec.tail script.flatten, b ≠ 0 := fun b hb => dom_noNul hdom b (mem_of_mem_rest hb)
  obtain ⟨ht, _⟩ := tailEms_flatten cfg host strm _ (Spec.tail script.flatten) (Nat.lt_succ_self _) h0
  unfold written
  rw [h1, List.map_append, List.flatten_append, ht]
  unfold Spec.render
  congr 1
  simp only [List.map_map, List.flatMap]
  rfl

/-- the same with the labels stripped: what pdsh wrote for the host IS what the command wrote -/
theorem relay_lossless_stripped (cfg : Cfg) (host t0host : Bytes) (strm : Nat) (readRc : Bool)
    {sizeMeta : Nat} (hg : growthOk sizeMeta = true) {b0 : PBuf}
    (hb0 : mkFifoBuf sizeMeta = some b0) (script : List Bytes)
    (hdom : Spec.Dom05 (markerOf readRc) script.flatten = true) :
    Spec.strip (labelPrefix cfg.labels cfg.keep host).length
      (written (runStream fifoOps cfg host t0host strm readRc b0 script).ems) = script.flatten := by
  rw [relay_lossless cfg host t0host strm readRc hg hb0 script hdom, Spec.strip_render]

/-- the specification's verdict (the oracle the check applies to the real code's stdio calls)
    holds of the model -/
theorem relay_c05Ok (cfg : Cfg) (host t0host : Bytes) (strm : Nat) (readRc : Bool)
    {sizeMeta : Nat} (hg : growthOk sizeMeta = true) {b0 : PBuf}
    (hb0 : mkFifoBuf sizeMeta = some b0) (script : List Bytes)
    (hdom : Spec.Dom05 (markerOf readRc) script.flatten = true) :
    Spec.c05Ok (labelPrefix cfg.labels cfg.keep host) script.flatten
      ((runStream fifoOps cfg host t0host strm readRc b0 script).ems.map Em.bytes) = true := by
  have h := relay_lossless cfg host t0host strm readRc hg hb0 script hdom
  unfold written at h
  simp [Spec.c05Ok, h]

/-- nothing else is emitted: every stdio call of the stream goes to the stream's own FILE
    (no diagnostic of dsh.c -- stream 9 -- is ever reached) -/
theorem relay_only_own_stream (cfg : Cfg) (host t0host : Bytes) (strm : Nat) (readRc : Bool)
    {sizeMeta : Nat} (hg : growthOk sizeMeta = true) {b0 : PBuf}
    (hb0 : mkFifoBuf sizeMeta = some b0) (script : List Bytes)
    (hdom : Spec.Dom05 (markerOf readRc) script.flatten = true) :
    ∀ e ∈ (runStream fifoOps cfg host t0host strm readRc b0 script).ems, e.stream = strm := by
  obtain ⟨h1, _⟩ := relay_closed_form cfg host t0host strm readRc hg hb0 script hdom
  have h0 : ∀ b ∈ Spec.tail script.flatten, b ≠ 0 := fun b hb => dom_noNul hdom b (mem_of_mem_rest hb)
  obtain ⟨_, ht⟩ := tailEms_flatten cfg host strm _ (Spec.tail script.flatten) (Nat.lt_succ_self _) h0
  intro e he
  rw [h1, List.mem_append] at he
  rcases he with he | he
  · simp only [List.mem_map] at he
    obtain ⟨l, _, rfl⟩ := he
    rfl
  · exact ht e he

/-- `relay_chunk_independent`: two scripts that carry the same stream produce the same stdio
    calls, call by call (so nothing observable depends on read sizes or on where lines are
    split across reads) -/
theorem relay_chunk_independent (cfg : Cfg) (host t0host : Bytes) (strm : Nat) (readRc : Bool)
    {sizeMeta : Nat} (hg : growthOk sizeMeta = true) {b0 : PBuf}
    (hb0 : mkFifoBuf sizeMeta = some b0) (script script' : List Bytes) (hsame : script.flatten = script'.flatten)
    (hdom : Spec.Dom05 (markerOf readRc) script.flatten = true) :
    (runStream fifoOps cfg host t0host strm readRc b0 script).ems =
      (runStream fifoOps cfg host t0host strm readRc b0 script').ems := by
  obtain ⟨h1, _⟩ := relay_closed_form cfg host t0host strm readRc hg hb0 script hdom
  obtain ⟨h2, _⟩ := relay_closed_form cfg host t0host strm readRc hg hb0 script' (hsame ▸ hdom)
  rw [h1, h2, hsame]

/-- MANY HOSTS STREAMING AT ONCE, ALL INTERLEAVINGS.  `evs` is ANY global sequence of events
    (chunk arrives on a stream and its handler runs | a stream finishes), over any number of
    targets and both streams of each: the scheduler is universally quantified.  For every stream
    `k` that, in this run, receives some cutting `script` of a stream in the domain and then
    finishes, the stdio calls of `k` found in the GLOBAL output (in their global order) write
    exactly `k`'s labelled stream -- whatever the other streams did in between. -/
theorem relay_lossless_any_interleaving (cfg : Cfg) (names : Nat → Bytes) {sizeMeta : Nat} (hg : growthOk sizeMeta = true) {b0 : PBuf} (hb0 : mkFifoBuf sizeMeta = some b0)
    (evs : List (Key × LEv)) (k : Key) (script : List Bytes)
    (hk : (evs.filter (fun e => e.1 = k)).map (·.2) = script.map LEv.feed ++ [LEv.finish])
    (hdom : Spec.Dom05 (markerOf (!k.2)) script.flatten = true) :
    written (logOf (evs.foldl (gstep fifoOps cfg names) (ginit b0)) k) =
      Spec.render (labelPrefix cfg.labels cfg.keep (names k.1)) script.flatten := by
  rw [global_stream_is_runStream fifoOps cfg names b0 evs k script hk]
  exact relay_lossless cfg (names k.1) (names 0) (strmNo k) (!k.2) hg hb0 script hdom

/-- THE SAME FOR THE INDEX-LEVEL RELAY, UNCONDITIONALLY.  `indexOps` is the model of cbuf.c's
    indices and data array (Cbuf/Model.lean) -- the instance of the relay that is executed
    against the real dsh.c/cbuf.c call by call.  It simulates the FIFO+policy instance
    (`Relay.idx_sim`, from property C13's refinement lemmas plus the growth/return-value policy
    facts of Relay/IndexSim.lean), so from the buffer `cbuf_create (64, 131072)` yields it makes
    the same stdio calls: closed form, th->rc = 0 ... -/
theorem relay_closed_form_index (cfg : Cfg) (host t0host : Bytes) (strm : Nat) (readRc : Bool)
    {sizeMeta : Nat} (hg : growthOk sizeMeta = true) {a0 : Cbuf.Cbuf}
    (ha0 : mkIndexBuf sizeMeta = some a0) (script : List Bytes)
    (hdom : Spec.Dom05 (markerOf readRc) script.flatten = true) :
    (runStream indexOps cfg host t0host strm readRc a0 script).ems =
      (Spec.lines script.flatten).map (fun l => (⟨strm, labelPrefix cfg.labels cfg.keep host ++ l⟩ : Em)) ++
        tailEms cfg host strm ((Spec.tail script.flatten).length + 1) (Spec.tail script.flatten) false ∧
    (runStream indexOps cfg host t0host strm readRc a0 script).rc = 0 := by
  obtain ⟨b0, hb0⟩ := mkFifoBuf_some sizeMeta
  obtain ⟨e1, e2⟩ := runStream_index_eq_fifo cfg host t0host strm readRc (growthOk_pos hg) ha0 hb0 script
  rw [e1, e2]
  exact relay_closed_form cfg host t0host strm readRc hg hb0 script hdom

/-- ... and is lossless for every stream in the domain and every chunking -/
theorem relay_lossless_index (cfg : Cfg) (host t0host : Bytes) (strm : Nat) (readRc : Bool)
    {sizeMeta : Nat} (hg : growthOk sizeMeta = true) {a0 : Cbuf.Cbuf}
    (ha0 : mkIndexBuf sizeMeta = some a0) (script : List Bytes)
    (hdom : Spec.Dom05 (markerOf readRc) script.flatten = true) :
    written (runStream indexOps cfg host t0host strm readRc a0 script).ems =
      Spec.render (labelPrefix cfg.labels cfg.keep host) script.flatten := by
  obtain ⟨b0, hb0⟩ := mkFifoBuf_some sizeMeta
  rw [(runStream_index_eq_fifo cfg host t0host strm readRc (growthOk_pos hg) ha0 hb0 script).1]
  exact relay_lossless cfg host t0host strm readRc hg hb0 script hdom

/-- ... also with many hosts streaming at once, for every interleaving -/
theorem relay_lossless_index_any_interleaving (cfg : Cfg) (names : Nat → Bytes) {sizeMeta : Nat}
    (hg : growthOk sizeMeta = true) {a0 : Cbuf.Cbuf} (ha0 : mkIndexBuf sizeMeta = some a0)
    (evs : List (Key × LEv)) (k : Key) (script : List Bytes)
    (hk : (evs.filter (fun e => e.1 = k)).map (·.2) = script.map LEv.feed ++ [LEv.finish])
    (hdom : Spec.Dom05 (markerOf (!k.2)) script.flatten = true) :
    written (logOf (evs.foldl (gstep indexOps cfg names) (ginit a0)) k) =
      Spec.render (labelPrefix cfg.labels cfg.keep (names k.1)) script.flatten := by
  rw [global_stream_is_runStream indexOps cfg names a0 evs k script hk]
  exact relay_lossless_index cfg (names k.1) (names 0) (strmNo k) (!k.2) hg ha0 script hdom

/-! ### clauses of the property spelled out (corollaries of the theorems above)

  Clauses of C05/C06 that are NOT theorems (decided by correspondence / real runs only), for the record:
  stdio buffering below fputs (when the bytes of a call reach the descriptor: `_flush_output` never
  fflush()es, exit does); what a transport child does to inherited stdio buffers (seeded C06-5: must be
  nothing, `_exit`); read(2) errors other than EAGAIN; streams abandoned by a timeout; NUL bytes, lines
  over 128 KiB and names of LINEBUFSIZE bytes or more (outside the domain); the poll loop itself (here:
  any sequence of handler calls); the hand-written model's fidelity to dsh.c/err.c as such. -/

/-- STANDARD ERROR IS RELAYED WITH THE SAME GUARANTEES AS STANDARD OUTPUT -- and needs no marker
    clause: `_handle_rcmd_stderr` passes read_rc = false, so for stderr the domain is just "no NUL,
    lines and final fragment at most 128 KiB"; text that contains the return-code marker is relayed
    verbatim there.  (Index-level relay, every chunking.) -/
theorem stderr_relayed_like_stdout (cfg : Cfg) (host t0host : Bytes) {sizeMeta : Nat} (hg : growthOk sizeMeta = true) {a0 : Cbuf.Cbuf} (ha0 : mkIndexBuf sizeMeta = some a0) (script : List Bytes)
    (h0 : ∀ b ∈ script.flatten, b ≠ 0) (hl : ∀ l ∈ Spec.lines script.flatten, l.length ≤ 131072)
    (ht : (Spec.tail script.flatten).length ≤ 131072) :
    written (runStream indexOps cfg host t0host 2 false a0 script).ems =
      Spec.render (labelPrefix cfg.labels cfg.keep host) script.flatten ∧
    ∀ e ∈ (runStream indexOps cfg host t0host 2 false a0 script).ems, e.stream = 2 := by
  have hdom : Spec.Dom05 (markerOf false) script.flatten = true := by
    rw [dom_in_words]
    exact ⟨h0, hl, ht, by intro mk hmk; simp [markerOf] at hmk⟩
  refine ⟨relay_lossless_index cfg host t0host 2 false hg ha0 script hdom, ?_⟩
  obtain ⟨b0, hb0⟩ := mkFifoBuf_some sizeMeta
  rw [(runStream_index_eq_fifo cfg host t0host 2 false (growthOk_pos hg) ha0 hb0 script).1]
  exact relay_only_own_stream cfg host t0host 2 false hg hb0 script hdom

/-- pdcp / rpdcp.  `_rcp_thread` relays no stdout (the copy protocol owns that descriptor: properties C11/C12);
    `_parallel_copy` relays the remote STDERR with the same `_handle_rcmd_stderr` and `_flush_output` -- for rpdcp
    always, for pdcp when its client failed -- and then with the same guarantee: complete, in order, exactly once,
    under the host's label, on pdsh's stderr only, whatever the fragmentation. -/
theorem rcp_stderr_relayed (cfg : Cfg) (host t0host : Bytes) (popt : Bool) (rv : Int) (hbr : popt = true ∨ rv < 0)
    {sizeMeta : Nat} (hg : growthOk sizeMeta = true) {a0 : Cbuf.Cbuf} (ha0 : mkIndexBuf sizeMeta = some a0)
    (script : List Bytes) (h0 : ∀ b ∈ script.flatten, b ≠ 0)
    (hl : ∀ l ∈ Spec.lines script.flatten, l.length ≤ 131072) (ht : (Spec.tail script.flatten).length ≤ 131072) :
    written (parallelCopyStderr indexOps cfg host t0host popt rv a0 script) =
      Spec.render (labelPrefix cfg.labels cfg.keep host) script.flatten ∧
    ∀ e ∈ parallelCopyStderr indexOps cfg host t0host popt rv a0 script, e.stream = 2 := by
  have hb : (popt = true ∨ rv < 0) := hbr
  simp only [parallelCopyStderr, hb, ↓reduceIte]
  exact stderr_relayed_like_stdout cfg host t0host hg ha0 script h0 hl ht

/-- ... and a pdcp client that SUCCEEDS never reads the remote stderr: whatever the remote side wrote there is
    not relayed (dsh.c's comment: "stderr is unlikely"; reading could block for ever).  Not a clause of C05 --
    the property is about remote commands -- but said here rather than left implicit. -/
theorem pdcp_success_reads_no_stderr {β : Type} (ops : BufOps β) (cfg : Cfg) (host t0host : Bytes) (rv : Int)
    (hrv : 0 ≤ rv) (b : β) (script : List Bytes) :
    parallelCopyStderr ops cfg host t0host false rv b script = [] := by
  have h : ¬ (false = true ∨ rv < 0) := by simp; omega
  unfold parallelCopyStderr
  rw [if_neg h]

theorem render_nil (s : Bytes) : Spec.render [] s = s := by
  have h := Spec.strip_render [] s
  have hs : ∀ (x : Bytes) (k : Nat), Spec.stripAux 0 x 0 = x := by
    intro x _
    induction x with
    | nil => rfl
    | cons c cs ih => simp [Spec.stripAux, ih]
  simpa [Spec.strip, hs _ 0] using h

/-- -N (NO-LABEL MODE): what pdsh writes for the host is the stream itself, byte for byte, for
    every chunking (index-level relay, either stream) -/
theorem relay_verbatim_with_N (cfg : Cfg) (hN : cfg.labels = false) (host t0host : Bytes) (strm : Nat)
    (readRc : Bool) {sizeMeta : Nat} (hg : growthOk sizeMeta = true) {a0 : Cbuf.Cbuf}
    (ha0 : mkIndexBuf sizeMeta = some a0) (script : List Bytes)
    (hdom : Spec.Dom05 (markerOf readRc) script.flatten = true) :
    written (runStream indexOps cfg host t0host strm readRc a0 script).ems = script.flatten := by
  rw [relay_lossless_index cfg host t0host strm readRc hg ha0 script hdom]
  simp [labelPrefix, hN, render_nil]

/-- A TARGET WHOSE COMMAND NEVER STARTS (the transport's child fails before exec and writes nothing
    to the stream) contributes NO stdio call at all -- whatever polls happen before the stream ends.
    (What the property requires of such a host: nothing of it appears on stdout; pdsh's own
    diagnostic about it is not relayed output.  That the child leaves pdsh's inherited stdio buffers
    alone -- `_exit` -- is an assumption about the transport, checked by the real-process runs.) -/
theorem unstarted_host_writes_nothing (cfg : Cfg) (host t0host : Bytes) (strm : Nat) (readRc : Bool)
    {sizeMeta : Nat} (hg : growthOk sizeMeta = true) {a0 : Cbuf.Cbuf}
    (ha0 : mkIndexBuf sizeMeta = some a0) (script : List Bytes) (hempty : script.flatten = []) :
    (runStream indexOps cfg host t0host strm readRc a0 script).ems = [] := by
  have hdom : Spec.Dom05 (markerOf readRc) script.flatten = true := by
    rw [hempty]; cases readRc <;> decide
  obtain ⟨h1, _⟩ := relay_closed_form_index cfg host t0host strm readRc hg ha0 script hdom
  rw [h1, hempty]
  simp [Spec.lines, Spec.tail, Spec.split, tailEms]

/-- text that merely LOOKS like the marker is not eaten: the marker without its colon, with another
    separator, or cut short, passes `_extract_rc` unchanged in both variants (instances of
    `extractRc_without_marker`: only a full occurrence of RC_MAGIC triggers the cut) -/
theorem marker_lookalikes_untouched (skip : Bool) :
    extractRc skip (magic.take 9 ++ [10]) = (0, magic.take 9 ++ [10]) ∧
    extractRc skip (magic.take 9 ++ [59, 51, 10]) = (0, magic.take 9 ++ [59, 51, 10]) ∧
    extractRc skip ([88] ++ magic.drop 1 |>.take 5 |> (· ++ [32, 55, 10])) =
      (0, ([88] ++ magic.drop 1 |>.take 5 |> (· ++ [32, 55, 10]))) := by
  cases skip <;> decide

/-! ### a host that is given up on (property C07's outcomes: command timeout, poll/read failure) -/

/-- WHAT C05 MEANS FOR AN ABANDONED STREAM: EVERYTHING READ SO FAR IS RELAYED, INCLUDING AN
    UNTERMINATED TAIL; NOTHING ELSE.  `script` = the arrivals the poll loop handled before the worker
    left it -- at ANY point: every command-timeout instant, poll error or scheduling of C07 is some
    such script -- then `result = DSH_FAILED; rcmd_signal (SIGTERM); break` and `_flush_output`.
    There is a prefix `x` of the bytes the remote side had written (`x ++ rest`, `rest` = still in
    the descriptor, never read) such that what pdsh writes for the host is exactly the labelled
    `x`: its complete lines, then its unterminated rest under the label -- no byte of `x` lost,
    none of `rest` invented.  (Index-level relay, stream in the domain.) -/
theorem abandoned_stream_relays_what_was_read (cfg : Cfg) (host t0host : Bytes) (strm : Nat) (readRc : Bool)
    {sizeMeta : Nat} (hg : growthOk sizeMeta = true) {a0 : Cbuf.Cbuf}
    (ha0 : mkIndexBuf sizeMeta = some a0) (script : List Bytes)
    (hdom : Spec.Dom05 (markerOf readRc) script.flatten = true)
    (hT : Spec.wholeTailBelow ≤ Gen.RELAY_TAILBUF) :     -- only for the C06 clause: the flush piece covers 8 KiB
    ∃ x rest : Bytes, x ++ rest = script.flatten ∧
      written (runAbandoned indexOps cfg host t0host strm readRc a0 script).ems =
        Spec.render (labelPrefix cfg.labels cfg.keep host) x ∧
      (cfg.tailSplit = false →
        Spec.c06Ok (labelPrefix cfg.labels cfg.keep host) x
          ((runAbandoned indexOps cfg host t0host strm readRc a0 script).ems.map Em.bytes) = true) := by
  obtain ⟨b0, hb0⟩ := mkFifoBuf_some sizeMeta
  obtain ⟨x, rest, hx, hems, h0⟩ := runAbandoned_closed cfg host strm readRc t0host hg hb0 script hdom
  rw [runAbandoned_sim idx_sim cfg host t0host strm readRc a0 b0 (idxRel_init (growthOk_pos hg) ha0 hb0) script]
  have h0t : ∀ b ∈ Spec.tail x, b ≠ 0 := fun b hb => h0 b (mem_of_mem_rest hb)
  obtain ⟨ht, _⟩ := tailEms_flatten cfg host strm _ (Spec.tail x) (Nat.lt_succ_self _) h0t
  refine ⟨x, rest, hx, ?_, ?_⟩
  · unfold written
    rw [hems, List.map_append, List.flatten_append, ht]
    unfold Spec.render
    congr 1
    simp only [List.map_map, List.flatMap]
    rfl
  · intro hfix
    have hto := tailEms_ok cfg host strm hT hfix _ (Spec.tail x) (Nat.lt_succ_self _) h0t
    have hlen : ((Spec.lines x).map
        (Em.bytes ∘ fun l => (⟨strm, labelPrefix cfg.labels cfg.keep host ++ l⟩ : Em))).length =
        (Spec.lines x).length := by simp
    rw [hems, List.map_append, List.map_map]
    simp only [Spec.c06Ok, List.take_left' hlen, List.drop_left' hlen, Bool.and_eq_true, beq_iff_eq]
    exact ⟨rfl, hto⟩

/-! ### the poll / read / report loop of `_rsh_thread` (one worker, both descriptors)

  `pollStep` (Relay/Model.lean) is the loop as a transition system: the environment chooses arrivals and
  hang-ups on either descriptor, which descriptors each `xpoll` return reports (any subset, also spuriously),
  how many bytes the one read(2) of a handler call delivers (short reads; 0 = EAGAIN), and interrupted
  polls (EINTR: `continue`) -- in ANY order.  A read that fails with EINTR is retried inside cbuf.c and never
  shows.  Leaving the loop early (command timeout, poll error) = the event list stops there.  After the
  loop come the two `_flush_output` calls (`workerFinish`).  `acceptedOf isErr evs false` = everything the
  remote side wrote on that descriptor before closing it. -/

/-- the bytes the handler of one descriptor wrote, final flush included, out of ALL stdio calls of the worker -/
def writtenBy (calls : List (Bool × Em)) (isErr : Bool) : Bytes :=
  written ((calls.filter (fun x => x.1 = isErr)).map (·.2))

theorem written_of_closed_form (cfg : Cfg) (host : Bytes) (strm : Nat) (x : Bytes) (h0 : ∀ b ∈ x, b ≠ 0) :
    written ((Spec.lines x).map (fun l => (⟨strm, labelPrefix cfg.labels cfg.keep host ++ l⟩ : Em)) ++
        tailEms cfg host strm ((Spec.tail x).length + 1) (Spec.tail x) false) =
      Spec.render (labelPrefix cfg.labels cfg.keep host) x := by
  have h0t : ∀ b ∈ Spec.tail x, b ≠ 0 := fun b hb => h0 b (mem_of_mem_rest hb)
  obtain ⟨ht, _⟩ := tailEms_flatten cfg host strm _ (Spec.tail x) (Nat.lt_succ_self _) h0t
  unfold written
  rw [List.map_append, List.flatten_append, ht]
  unfold Spec.render
  congr 1
  simp only [List.map_map, List.flatMap]
  rfl

/-- THE LOOP IS LEFT ONLY AT EOF OF BOTH STREAMS, EVERYTHING READ.  After ANY event sequence: a descriptor
    the worker has closed (fd = -1) is one whose remote side has closed and whose data has all been read; so
    when `while (xpfds[0].fd >= 0 || xpfds[1].fd >= 0)` is over, both streams have reached EOF and nothing
    is left in either descriptor. -/
theorem poll_loop_left_only_at_eof_of_both (cfg : Cfg) (host : Bytes) {sizeMeta : Nat} (hg : growthOk sizeMeta = true)
    {b0 : PBuf} (hb0 : mkFifoBuf sizeMeta = some b0) (evs : List PEv)
    (hdO : Spec.Dom05 (markerOf true) (acceptedOf false evs false) = true)
    (hdE : Spec.Dom05 (markerOf false) (acceptedOf true evs false) = true) :
    (evs.foldl (pollStep fifoOps cfg host) (Worker.init b0)).loopLeft = true →
      (evs.foldl (pollStep fifoOps cfg host) (Worker.init b0)).out.1.weof = true ∧
      (evs.foldl (pollStep fifoOps cfg host) (Worker.init b0)).out.1.pipe = [] ∧
      (evs.foldl (pollStep fifoOps cfg host) (Worker.init b0)).err.1.weof = true ∧
      (evs.foldl (pollStep fifoOps cfg host) (Worker.init b0)).err.1.pipe = [] := by
  have hinv := pollRun_inv cfg host (dom_room hdO) (dom_room hdE) evs (Worker.init b0) [] []
    (by simp [Worker.init]) (by simp [Worker.init]) (worker_init_inv cfg host hg hb0)
  intro hl
  simp only [Worker.loopLeft, Bool.and_eq_true] at hl
  obtain ⟨h1, h2⟩ := hinv.out.2 hl.1
  obtain ⟨h3, h4⟩ := hinv.err.2 hl.2
  exact ⟨h1, h2, h3, h4⟩

/-- ... AND IT IS LEFT THEN: the handler call on an open descriptor whose remote side has closed and whose
    data has been read (read returns 0) closes it, whatever the cap of the read; a call that still finds data,
    or finds nothing on a descriptor that is not at EOF (EAGAIN), leaves it open.  (Per descriptor, in any
    state the loop can be in: `SInv` is the invariant `pollRun_inv` establishes.) -/
theorem handler_closes_exactly_at_eof (cfg : Cfg) (host : Bytes) (strm : Nat) (readRc : Bool) {sizeMeta : Nat}
    {S fed fut : Bytes} (hS : fed ++ fut = S) (hdom : Spec.Dom05 (markerOf readRc) S = true)
    {st : SState PBuf} (hinv : SInv cfg host strm readRc sizeMeta fed st) (hopen : st.1.closed = false)
    (cap : Option Nat) :
    (sstep fifoOps cfg host strm readRc st (.call cap)).1.closed = true ↔ (st.1.weof = true ∧ st.1.pipe = []) :=
  sstep_call_closed cfg host strm readRc hS (dom_room hdom) hinv hopen cap

/-- WHATEVER THE WORKER HAS READ HAS BEEN WRITTEN WHEN IT IS DONE -- for every event sequence, however the loop
    was left (both streams at EOF, command timeout, poll error).  Per descriptor there is a prefix `x` of what
    the remote side wrote, the rest being exactly what still sits unread in the descriptor, such that the bytes
    written for it (handler calls in the loop + its `_flush_output`) are the labelled `x`: complete, in order,
    exactly once, unterminated tail included. -/
theorem worker_delivers_what_it_read (cfg : Cfg) (host t0host : Bytes) {sizeMeta : Nat}
    (hg : growthOk sizeMeta = true) {b0 : PBuf} (hb0 : mkFifoBuf sizeMeta = some b0) (evs : List PEv)
    (hdO : Spec.Dom05 (markerOf true) (acceptedOf false evs false) = true)
    (hdE : Spec.Dom05 (markerOf false) (acceptedOf true evs false) = true) :
    ∃ xo xe : Bytes,
      xo ++ (evs.foldl (pollStep fifoOps cfg host) (Worker.init b0)).out.1.pipe = acceptedOf false evs false ∧
      xe ++ (evs.foldl (pollStep fifoOps cfg host) (Worker.init b0)).err.1.pipe = acceptedOf true evs false ∧
      writtenBy (workerRun fifoOps cfg host t0host b0 evs) false = Spec.render (labelPrefix cfg.labels cfg.keep host) xo ∧
      writtenBy (workerRun fifoOps cfg host t0host b0 evs) true = Spec.render (labelPrefix cfg.labels cfg.keep host) xe := by
  have hinv := pollRun_inv cfg host (dom_room hdO) (dom_room hdE) evs (Worker.init b0) [] []
    (by simp [Worker.init]) (by simp [Worker.init]) (worker_init_inv cfg host hg hb0)
  unfold workerRun
  generalize evs.foldl (pollStep fifoOps cfg host) (Worker.init b0) = w at hinv ⊢
  obtain ⟨xo, hxo, hfo, h0o⟩ := stream_closed_form cfg host 1 true t0host hdO hinv.out.1
  obtain ⟨xe, hxe, hfe, h0e⟩ := stream_closed_form cfg host 2 false t0host hdE hinv.err.1
  refine ⟨xo, xe, hxo, hxe, ?_, ?_⟩
  · unfold writtenBy
    rw [workerFinish_logOf, hinv.logO]
    simp only [Bool.false_eq_true, ↓reduceIte]
    rw [hfo]
    exact written_of_closed_form cfg host 1 xo h0o
  · unfold writtenBy
    rw [workerFinish_logOf, hinv.logE]
    simp only [↓reduceIte]
    rw [hfe]
    exact written_of_closed_form cfg host 2 xe h0e

/-- A WORKER RETURNS ONLY AFTER ITS OUTPUT HAS BEEN DELIVERED (the clause of C03; exported for it).  When the
    loop has been left because both descriptors are closed, ALL that the remote command wrote on stdout and on
    stderr has been handed to stdio by the time the two flushes return -- i.e. before `rcmd_destroy`, before the
    worker decrements `threadcount` and signals dsh(): byte for byte the labelled streams. -/
theorem worker_done_has_delivered_everything (cfg : Cfg) (host t0host : Bytes) {sizeMeta : Nat}
    (hg : growthOk sizeMeta = true) {b0 : PBuf} (hb0 : mkFifoBuf sizeMeta = some b0) (evs : List PEv)
    (hdO : Spec.Dom05 (markerOf true) (acceptedOf false evs false) = true)
    (hdE : Spec.Dom05 (markerOf false) (acceptedOf true evs false) = true)
    (hleft : (evs.foldl (pollStep fifoOps cfg host) (Worker.init b0)).loopLeft = true) :
    writtenBy (workerRun fifoOps cfg host t0host b0 evs) false =
      Spec.render (labelPrefix cfg.labels cfg.keep host) (acceptedOf false evs false) ∧
    writtenBy (workerRun fifoOps cfg host t0host b0 evs) true =
      Spec.render (labelPrefix cfg.labels cfg.keep host) (acceptedOf true evs false) := by
  obtain ⟨_, hpo, _, hpe⟩ := poll_loop_left_only_at_eof_of_both cfg host hg hb0 evs hdO hdE hleft
  obtain ⟨xo, xe, hxo, hxe, ho, he⟩ := worker_delivers_what_it_read cfg host t0host hg hb0 evs hdO hdE
  rw [hpo, List.append_nil] at hxo
  rw [hpe, List.append_nil] at hxe
  subst hxo; subst hxe
  exact ⟨ho, he⟩

/-- THE BRIDGE TO THE PER-STREAM VIEW (`runStream`, `Relay/Interleave.lean`'s `LEv.feed .. ++ [LEv.finish]`, which
    property C03's end-to-end LTS composes with): a worker whose loop was left at EOF of both streams has written,
    per descriptor, exactly what `runStream` writes for ANY script carrying the same bytes -- so a worker run may
    be replaced by its two per-stream runs, whatever the polls, caps and interruptions were. -/
theorem worker_done_equals_runStream (cfg : Cfg) (host t0host : Bytes) {sizeMeta : Nat}
    (hg : growthOk sizeMeta = true) {b0 : PBuf} (hb0 : mkFifoBuf sizeMeta = some b0) (evs : List PEv)
    (hdO : Spec.Dom05 (markerOf true) (acceptedOf false evs false) = true)
    (hdE : Spec.Dom05 (markerOf false) (acceptedOf true evs false) = true)
    (hleft : (evs.foldl (pollStep fifoOps cfg host) (Worker.init b0)).loopLeft = true)
    (scriptO scriptE : List Bytes) (hO : scriptO.flatten = acceptedOf false evs false)
    (hE : scriptE.flatten = acceptedOf true evs false) :
    writtenBy (workerRun fifoOps cfg host t0host b0 evs) false =
      written (runStream fifoOps cfg host t0host 1 true b0 scriptO).ems ∧
    writtenBy (workerRun fifoOps cfg host t0host b0 evs) true =
      written (runStream fifoOps cfg host t0host 2 false b0 scriptE).ems := by
  obtain ⟨h1, h2⟩ := worker_done_has_delivered_everything cfg host t0host hg hb0 evs hdO hdE hleft
  rw [h1, h2, ← hO, ← hE]
  exact ⟨(relay_lossless cfg host t0host 1 true hg hb0 scriptO (hO ▸ hdO)).symm,
         (relay_lossless cfg host t0host 2 false hg hb0 scriptE (hE ▸ hdE)).symm⟩

/-- non-vacuity: "ab\n" then "c" arrive on stdout, "e\n" on stderr; polls with a short read of 1 byte, a
    spurious wake-up, an interrupted poll; both sides close; the loop is left and everything is written -/
example : ∀ b0, mkFifoBuf 1 = some b0 →
    let evs : List PEv := [.arrive false [97, 98, 10], .poll (some (some 1)) none, .eintr, .arrive true [101, 10],
      .poll (some none) (some (some 0)), .arrive false [99], .hup false, .poll (some none) (some none),
      .hup true, .poll (some none) (some none), .poll none (some none)]
    (evs.foldl (pollStep fifoOps ⟨true, false, false, false, false⟩ [104]) (Worker.init b0)).loopLeft = true ∧
    workerRun fifoOps ⟨true, false, false, false, false⟩ [104] [104] b0 evs =
      [(false, ⟨1, [104, 58, 32, 97, 98, 10]⟩), (true, ⟨2, [104, 58, 32, 101, 10]⟩), (false, ⟨1, [104, 58, 32, 99]⟩)] := by
  intro b0 h
  simp [mkFifoBuf, Cbuf.Spec.create, Gen.RELAY_CBUF_MIN, Gen.RELAY_CBUF_MAX] at h
  subst h
  decide

/-- A READ THAT FAILS (an error other than EAGAIN/EINTR -- outside the property's domain, said for completeness):
    the handler prints one diagnostic, closes the descriptor and returns -1; nothing that had been read is lost --
    the buffer is untouched, so `_flush_output` still writes its unterminated rest -- and nothing more is read. -/
theorem read_error_keeps_what_was_read {β : Type} (s : Stream β) (rc : Int) :
    (handleFail s rc).1 = -1 ∧ (handleFail s rc).2.1.buf = s.buf ∧ (handleFail s rc).2.1.pipe = s.pipe ∧
    (handleFail s rc).2.1.closed = true ∧ (handleFail s rc).2.2 = (rc, [diag]) :=
  ⟨rfl, rfl, rfl, rfl, rfl⟩

/-! ### `xpoll()` and ONE ITERATION of the loop (Relay/XPoll.lean): where the events of `pollStep` come from

  The LTS above takes "which descriptors an xpoll return reports" as the environment's choice.  `XPoll.xpoll`
  (the HAVE_POLL flavour of src/common/xpoll.c) and `XPoll.loopIter` (the loop body of `_rsh_thread` up to the
  handler calls) say how that choice comes out of what poll(2) answers; `Iter.toPEv` is the LTS event.  Since
  the theorems above hold for EVERY event list, they hold for every sequence of kernel answers. -/

/-- A DESCRIPTOR THE KERNEL REPORTS READABLE, IN ERROR OR HUNG UP GETS ITS HANDLER CALLED in that iteration -- and no
    other does: stdout's iff POLLIN|POLLERR|POLLHUP on entry 0, stderr's iff -S and the same on entry 1 -- whatever
    stale `revents` the array held and whatever count poll(2) returned.  (So data and EOF -- a pipe's EOF is
    POLLHUP without POLLIN -- are both picked up; xpoll's translation POLLHUP -> XPOLLERR and dsh.c's mask
    `XPOLLREAD|XPOLLERR` are both needed for that.) -/
theorem ready_descriptor_gets_its_handler (sopt tAfter : Bool) (fdO fdE : Int) (staleO staleE : Nat) (rv : Int)
    (hrv : rv ≠ -1) (r0 r1 : Nat) (rest : List Nat) (errFirst : Bool) (capO capE : Option Nat) :
    (XPoll.loopIter sopt false tAfter fdO fdE staleO staleE (.ok rv (r0 :: r1 :: rest))).1.toPEv errFirst capO capE =
      some ((if errFirst then PEv.pollRev else PEv.poll)
        (if XPoll.has r0 Gen.XP_POLLIN || XPoll.has r0 Gen.XP_POLLERR || XPoll.has r0 Gen.XP_POLLHUP
          then some capO else none)
        (if sopt && (XPoll.has r1 Gen.XP_POLLIN || XPoll.has r1 Gen.XP_POLLERR || XPoll.has r1 Gen.XP_POLLHUP)
          then some capE else none)) := by
  rw [XPoll.loopIter_dispatch sopt tAfter fdO fdE staleO staleE rv hrv r0 r1 rest]
  cases errFirst <;> rfl

/-- a descriptor the kernel says nothing about (in particular one the worker has closed: fd = -1, which poll(2)
    skips) is not handled -/
theorem silent_descriptor_not_handled (sopt tAfter : Bool) (fdO fdE : Int) (staleO staleE : Nat) (rv : Int)
    (hrv : rv ≠ -1) (capO capE : Option Nat) :
    (XPoll.loopIter sopt false tAfter fdO fdE staleO staleE (.ok rv [0, 0])).1.toPEv false capO capE =
      some (.poll none none) := by
  rw [ready_descriptor_gets_its_handler sopt tAfter fdO fdE staleO staleE rv hrv 0 0 [] false capO capE]
  cases sopt <;> rfl

/-- AN INTERRUPTED POLL IS RETRIED -- by the loop, not by xpoll (which hands -1/EINTR through) -- unless the
    command has timed out; every other poll error, and a timeout, end the loop (the worker gives the host up:
    `abandoned_stream_relays_what_was_read`) -/
theorem interrupted_poll_is_retried (sopt tAfter : Bool) (fdO fdE : Int) (staleO staleE : Nat) (e : Nat)
    (errFirst : Bool) (capO capE : Option Nat) :
    (XPoll.loopIter sopt false tAfter fdO fdE staleO staleE (.fail e)).1.toPEv errFirst capO capE =
      if e = Gen.XP_EINTR ∧ tAfter = false then some .eintr else none := by
  rw [XPoll.loopIter_error]
  by_cases he : e = Gen.XP_EINTR <;> cases tAfter <;> simp [he, XPoll.Iter.toPEv]

/-- WITHIN ONE ITERATION THE STDOUT HANDLER RUNS BEFORE THE STDERR HANDLER: the worker's stdio calls of one
    `.poll` event are those of the stdout handler (if reported), then those of the stderr handler (if reported) --
    the order the correspondence observes on the real `_rsh_thread` (reads after each poll return) -/
theorem one_iteration_stdout_before_stderr {β : Type} (ops : BufOps β) (cfg : Cfg) (host : Bytes) (w : Worker β)
    (o e : Option (Option Nat)) :
    ∃ a b : List Em, (pollStep ops cfg host w (.poll o e)).log =
      w.log ++ a.map (fun x => (false, x)) ++ b.map (fun x => (true, x)) := by
  by_cases hl : w.loopLeft = true
  · exact ⟨[], [], by simp [pollStep, hl]⟩
  · simp only [pollStep, hl, Bool.false_eq_true, ↓reduceIte]
    cases o with
    | none =>
      cases e with
      | none => exact ⟨[], [], by simp [Worker.onReported]⟩
      | some ce => exact ⟨[], _, by simp only [Worker.onReported, Worker.on, ↓reduceIte, List.map_nil, List.append_nil]; rfl⟩
    | some co =>
      cases e with
      | none => exact ⟨_, [], by simp only [Worker.onReported, Worker.on, Bool.false_eq_true, ↓reduceIte, List.map_nil, List.append_nil]; rfl⟩
      | some ce => exact ⟨_, _, by simp only [Worker.onReported, Worker.on, Bool.false_eq_true, ↓reduceIte]; rfl⟩

/-- ... and with the two blocks swapped (a harmless reordering: `.pollRev`) stderr's handler runs first.  Every
    theorem of this section quantifies over ALL event lists, `.poll` and `.pollRev` mixed at will: the property does
    not depend on the order; the correspondence learns it from the code under test and checks it at every poll
    return -/
theorem one_iteration_swapped_stderr_first {β : Type} (ops : BufOps β) (cfg : Cfg) (host : Bytes) (w : Worker β)
    (o e : Option (Option Nat)) :
    ∃ a b : List Em, (pollStep ops cfg host w (.pollRev o e)).log =
      w.log ++ b.map (fun x => (true, x)) ++ a.map (fun x => (false, x)) := by
  by_cases hl : w.loopLeft = true
  · exact ⟨[], [], by simp [pollStep, hl]⟩
  · simp only [pollStep, hl, Bool.false_eq_true, ↓reduceIte]
    cases o with
    | none =>
      cases e with
      | none => exact ⟨[], [], by simp [Worker.onReported]⟩
      | some ce => exact ⟨[], _, by simp only [Worker.onReported, Worker.on, ↓reduceIte, List.map_nil, List.append_nil]; rfl⟩
    | some co =>
      cases e with
      | none => exact ⟨_, [], by simp only [Worker.onReported, Worker.on, Bool.false_eq_true, ↓reduceIte, List.map_nil, List.append_nil]; rfl⟩
      | some ce => exact ⟨_, _, by simp only [Worker.onReported, Worker.on, Bool.false_eq_true, ↓reduceIte]; rfl⟩

/-- xpoll's contract as far as callers rely on it: invalid arguments never reach poll(2) (-1/EINVAL, array
    untouched); a failing poll(2) is handed through with the kernel's errno, NOT retried; success hands the kernel's
    count through with errno = 0; the timeout reaches poll(2) unchanged -/
theorem xpoll_contract (xs : List XPoll.XFd) (nfds timeout : Int) :
    (nfds ≤ 0 → ∀ k, (XPoll.xpoll (some xs) nfds timeout k).rv = -1 ∧
        (XPoll.xpoll (some xs) nfds timeout k).errno = Gen.XP_EINVAL ∧
        (XPoll.xpoll (some xs) nfds timeout k).passed = none ∧ (XPoll.xpoll (some xs) nfds timeout k).xfds = xs) ∧
    (0 < nfds → ∀ e, (XPoll.xpoll (some xs) nfds timeout (.fail e)).rv = -1 ∧
        (XPoll.xpoll (some xs) nfds timeout (.fail e)).errno = e) ∧
    (0 < nfds → ∀ rv revs, (XPoll.xpoll (some xs) nfds timeout (.ok rv revs)).rv = rv ∧
        (XPoll.xpoll (some xs) nfds timeout (.ok rv revs)).errno = 0) ∧
    (0 < nfds → ∀ k, ∃ p, (XPoll.xpoll (some xs) nfds timeout k).passed = some (p, timeout)) :=
  XPoll.xpoll_rv_errno xs nfds timeout

/-- non-vacuity: data on stdout + hang-up on stderr under -S: both handlers, stdout's first; without -S only
    stdout's; EOF of a pipe (POLLHUP alone) on stdout is handled; EINTR is retried -/
example : (XPoll.loopIter true false false 5 6 7 7 (.ok 2 [Gen.XP_POLLIN, Gen.XP_POLLHUP])).1.calls false = [false, true] ∧
    (XPoll.loopIter true false false 5 6 7 7 (.ok 2 [Gen.XP_POLLIN, Gen.XP_POLLHUP])).1.calls true = [true, false] ∧
    (XPoll.loopIter false false false 5 (-1) 0 0 (.ok 2 [Gen.XP_POLLIN, Gen.XP_POLLHUP])).1.calls false = [false] ∧
    (XPoll.loopIter true false false 5 6 0 0 (.ok 1 [Gen.XP_POLLHUP, 0])).1.calls false = [false] ∧
    (XPoll.loopIter true false false 5 6 0 0 (.fail Gen.XP_EINTR)).1 = .again := by decide

/-! ### outside the domain: what the code does with lines over 128 KiB and with NUL bytes

  Not violations of C05 (its text restricts the claim to "text output free of NUL bytes whose
  lines do not exceed 128 KiB"), but silent: pdsh prints no diagnostic and exits 0.  Measured on
  the real binary (checks/c05.py, real-process part, evidence `beyond_domain`): a line of 204800
  bytes comes out 131062 bytes long, its first 73738 bytes are gone; "ab\\0cd\\n" comes out as
  "h1: ab" (the bytes from the NUL to the newline, the newline included, are gone). -/

/-- LINES OVER 128 KiB LOSE THEIR HEAD.  When the buffer is full at its maximum (131072 unread
    bytes without a newline) and more input is there, `cbuf_write_from_fd (.., -1, ..)` still asks
    for min(size, CBUF_CHUNK) bytes and, in the overwrite mode dsh.c leaves the cbuf in, drops as
    many of the OLDEST bytes as it takes -- `_do_output` ignores the drop count.  This is what
    `Dom05`'s bound keeps from happening (`descriptor_write_never_drops`); the bound is sharp. -/
theorem beyond_domain_drops_head (b : PBuf) (hfull : b.f.q.length = b.f.size) (hmax : b.f.size = b.f.maxsize)
    (hmode : b.f.mode = .wrapMany) (hpos : 0 < b.f.size) (avail : Bytes) (hav : avail ≠ []) (eof : Bool) :
    (PBuf.wfd b avail eof).2.1 = min (min b.f.size Gen.CBUF_CHUNK) avail.length ∧
    0 < (PBuf.wfd b avail eof).2.1 ∧
    (PBuf.wfd b avail eof).2.2.f.q =
      (b.f.q ++ avail.take (min (min b.f.size Gen.CBUF_CHUNK) avail.length)).drop
        (min (min b.f.size Gen.CBUF_CHUNK) avail.length) := by
  have hc : 0 < Gen.CBUF_CHUNK := by decide
  have hal : 0 < avail.length := List.length_pos_iff.mpr hav
  have hreq : wfdRequest b.f.size b.f.q.length = min b.f.size Gen.CBUF_CHUNK := by
    simp [wfdRequest, hfull]
  have hreq0 : min b.f.size Gen.CBUF_CHUNK ≠ 0 := by omega
  have hgrown : b.grown = (b.f.size, b.alloc) := by
    have : ¬ (b.f.size < b.f.maxsize) := by omega
    simp [PBuf.grown, this]
  have hne : avail.isEmpty = false := by simpa using hav
  generalize hk : min (min b.f.size Gen.CBUF_CHUNK) avail.length = k
  have hk0 : 0 < k := by omega
  have hkle : k ≤ avail.length := by omega
  have hadm : Cbuf.Spec.admitSize b.f b.f.size = true := by simp [Cbuf.Spec.admitSize]; omega
  have hnl : ¬ (k > avail.length) := by omega
  have hk0' : k ≠ 0 := by omega
  have hpos' : ¬ ((k : Int) ≤ 0) := by omega
  have hlen : (b.f.q ++ List.take k avail).length - b.f.size = k := by
    simp only [List.length_append, List.length_take]; omega
  simp only [PBuf.wfd, hreq, hreq0, ↓reduceIte, hne, Bool.false_eq_true, hk, hgrown]
  have hadm' : Cbuf.Spec.admitSize b.f b.f.maxsize = true := by rw [← hmax]; exact hadm
  have hlen' : (b.f.q ++ List.take k avail).length - b.f.maxsize = k := by rw [← hmax]; exact hlen
  simp [Cbuf.Spec.writeFromFd, hadm', hpos', hmode, Cbuf.Spec.lossOk, hmax, hk0', hnl, hfull,
    Cbuf.Spec.lastN, hlen', hk0, Nat.min_eq_left hkle]

/-- A NUL BYTE CUTS THE RECORD.  `%s` stops at the first NUL: of a line taken out of the buffer
    only the part before its first NUL is written (nothing at all if it starts with NUL); the
    bytes from the NUL to the end of the line -- the newline included -- are not. -/
theorem nul_cuts_record (cfg : Cfg) (host : Bytes) (strm : Nat) (rc : Int) (l : Bytes) :
    (emitLine cfg host strm false rc l).2 =
      (if (cstr l).isEmpty then [] else [⟨strm, labelPrefix cfg.labels cfg.keep host ++ cstr l⟩]) ∧
    cstr ([97, 98, 0, 99, 100, 10]) = [97, 98] := by
  exact ⟨by simp [emitLine], by decide⟩

/-! ### `_extract_rc`: why the marker is excluded from the domain; the two C08 switches

  The model carries two switches that belong to property C08 (status extraction), each read off
  the code under test by the constants probe on every run, so that the same model follows the
  unchanged and the repaired dsh.c:
    `Cfg.rcSkipDigit` (defect D9, repaired by ee5f5b4) and `Cfg.rcEveryLine` ("late line",
    repaired by 594f0d3).  The C05/C06 theorems above hold for ALL values of both switches (in
    the domain no line carries the marker).  Below: facts about each variant. -/

/-- a line without the marker passes `_extract_rc` unchanged, status 0 (both variants) -/
theorem extractRc_without_marker (skip : Bool) (l : Bytes) (h0 : ∀ b ∈ l, b ≠ 0)
    (hm : Spec.occurs magic l = false) : extractRc skip l = (0, l) := by
  have := extractRc_noMagic skip l (by rw [cstr_of_noNul l h0, findSub_none_iff]; exact hm)
  rw [this, cstr_of_noNul l h0]

/-- a stdout line that does contain the marker is cut at the marker (whatever -S says: dsh.c
    passes read_rc = true for every stdout line), so such streams cannot be relayed verbatim -/
theorem extractRc_with_marker_cuts (skip : Bool) : (extractRc skip (magic ++ [51, 10])).2 = [] := by
  cases skip <;> decide

/-- UNCHANGED variant, defect D9 (`rcSkipDigit = true`, dsh.c before ee5f5b4): when text precedes
    the marker on a newline-terminated line the status is parsed from one past its first digit:
    "fooXXRETCODE:3\n" yields 0 (and the text "foo\n"), "XXRETCODE:3\n" yields 3 -/
theorem extractRc_D9_witness :
    extractRc true ([102, 111, 111] ++ magic ++ [51, 10]) = (0, [102, 111, 111, 10]) ∧
    extractRc true (magic ++ [51, 10]) = (3, []) ∧
    (extractRc true ([102, 111, 111] ++ magic ++ [50, 53, 53, 10])).1 = 55 := by decide

/-- REPAIRED variant (`rcSkipDigit = false`): the status is the number that follows the first
    occurrence of the marker, whatever precedes it, and the text kept is the same as before -/
theorem extractRc_repaired_status (l : Bytes) (i : Nat) (h : findSub magic (cstr l) = some i) :
    (extractRc false l).1 = atoi ((cstr l).drop (i + magic.length)) ∧
    (extractRc false l).2 = (extractRc true l).2 := by
  unfold extractRc
  simp only [h]
  by_cases hc : (cstr l).getLast? = some 10 ∧ i ≠ 0 <;> simp [hc]

theorem extractRc_repaired_witness :
    extractRc false ([102, 111, 111] ++ magic ++ [51, 10]) = (3, [102, 111, 111, 10]) ∧
    extractRc false (magic ++ [51, 10]) = (3, []) ∧
    (extractRc false ([102, 111, 111] ++ magic ++ [50, 53, 53, 10])).1 = 255 := by decide

/-- UNCHANGED variant, "late line" (`rcEveryLine = true`, dsh.c before 594f0d3): `_flush_lines`
    assigns `th->rc = _extract_rc (buf)` for EVERY stdout line, and a line without the marker
    yields 0 -- so any line that follows the marker line resets the status: the stream
    "XXRETCODE:3\nmore\n" leaves th->rc = 0 (the LAST LINE wins, not the last marker) -/
theorem thrc_reset_by_later_line_witness :
    (afterLines ⟨true, false, false, true, true⟩ [104] 1 true (magic ++ [51, 10])).1 = 3 ∧
    (afterLines ⟨true, false, false, true, true⟩ [104] 1 true
      (magic ++ [51, 10] ++ [109, 111, 114, 101, 10])).1 = 0 := by
  decide

/-- REPAIRED variant (`rcEveryLine = false`): a line without the marker never touches th->rc ... -/
theorem thrc_kept_by_markerless_line (cfg : Cfg) (hfix : cfg.rcEveryLine = false) (host : Bytes) (strm : Nat)
    (readRc : Bool) (rc : Int) (l : Bytes) (hm : findSub magic (cstr l) = none) :
    (emitLine cfg host strm readRc rc l).1 = rc := by
  unfold emitLine
  simp [hfix, hm]

/-- ... so the status survives later output: "XXRETCODE:3\nmore\n" leaves th->rc = 3 -/
theorem thrc_survives_later_line_witness :
    (afterLines ⟨true, false, false, false, false⟩ [104] 1 true
      (magic ++ [51, 10] ++ [109, 111, 114, 101, 10])).1 = 3 := by
  decide

/-! ### non-vacuity and sharpness -/

/-- the hypotheses are satisfiable: the shipped build has sizeMeta = 1 and satisfies the side
    condition, "ab\ncd" is in the domain -/
example : ∃ b0, growthOk Gen.CBUF_SIZE_META = true ∧ mkFifoBuf Gen.CBUF_SIZE_META = some b0 ∧
    Spec.Dom05 (markerOf true) [97, 98, 10, 99, 100] = true :=
  ⟨_, growthOk_generated, rfl, by decide⟩

/-- ... so for the code under test the theorems hold without any hypothesis about the constants:
    e.g. losslessness of the index-level relay, shipped flavour -/
theorem relay_lossless_index_generated (cfg : Cfg) (host t0host : Bytes) (strm : Nat) (readRc : Bool)
    {a0 : Cbuf.Cbuf} (ha0 : mkIndexBuf Gen.CBUF_SIZE_META = some a0) (script : List Bytes)
    (hdom : Spec.Dom05 (markerOf readRc) script.flatten = true) :
    written (runStream indexOps cfg host t0host strm readRc a0 script).ems =
      Spec.render (labelPrefix cfg.labels cfg.keep host) script.flatten :=
  relay_lossless_index cfg host t0host strm readRc growthOk_generated ha0 script hdom

/-- a concrete run: "ab\nc" arriving as "a", "b\nc" on host "h" is written as "h: ab\n", "h: c"
    (repaired tail form) -/
example : ∀ b0, mkFifoBuf 1 = some b0 →
    (runStream fifoOps ⟨true, false, false, false, false⟩ [104] [104] 1 true b0 [[97], [98, 10, 99]]).ems =
      [⟨1, [104, 58, 32, 97, 98, 10]⟩, ⟨1, [104, 58, 32, 99]⟩] := by
  intro b0 h
  simp [mkFifoBuf, Cbuf.Spec.create, Gen.RELAY_CBUF_MIN, Gen.RELAY_CBUF_MAX] at h
  subst h
  decide

/-- `relay_beyond_domain_witness` (scaled-down buffer: capacity 4, never grows): a 7-byte line
    arriving at once after a full buffer loses its oldest bytes -- the bound on the line length
    in the domain is what keeps `cbuf_write_from_fd` from overwriting -/
theorem relay_beyond_domain_witness :
    written (runStream fifoOps ⟨false, false, false, false, false⟩ [104] [104] 1 false
      ⟨⟨[], 4, 4, 4, .wrapMany⟩, 5⟩ [[97, 98, 99, 100], [101, 102, 10]]).ems ≠
      [97, 98, 99, 100, 101, 102, 10] := by decide

end PdshVerif.C05
