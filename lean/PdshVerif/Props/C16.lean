/-
  C16  Host-list editing behaves like editing a plain list of names.
  PROPERTY THEOREMS ONLY (helper lemmas live in PdshVerif/Hostlist/Lemmas*.lean).

  Model: PdshVerif/Hostlist/{Find,Edit,Uniq}.lean.  Spec: PdshVerif/Hostlist/EditSpec.lean.
-/
import PdshVerif.Hostlist.LemmasEdit

namespace PdshVerif.C16
open PdshVerif.Hostlist PdshVerif.Gen

/-- `hostlist_push_range` on the editable list appends exactly the hosts of the pushed record
    (the record identities and the iterators play no part in the denotation) -/
theorem push_hosts (e : EL) (r : HRange) (hg : e.Good) (hr : r.Good) :
    (pushRangeE e r).Good ∧ (pushRangeE e r).hosts = e.hosts ++ r.hosts :=
  pushRangeE_hosts e r hg hr

end PdshVerif.C16
