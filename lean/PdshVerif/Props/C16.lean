/-
  C16  Host-list editing behaves like editing a plain list of names.
  PROPERTY THEOREMS ONLY (helper lemmas live in PdshVerif/Hostlist/Lemmas*.lean).

  Model: PdshVerif/Hostlist/{Find,Edit,Uniq}.lean (range records with identity, iterators with a
  cached record pointer).  Spec: PdshVerif/Hostlist/EditSpec.lean (plain list + cursors).
  The model is parametrised by `cfg : Cfg` (defect switches probed from /repo); every general
  theorem holds for all variants.

  Proved (any number of live iterators, all variants): push / delete-by-position / shift / pop act
  on the DENOTED host list exactly like append / eraseIdx / tail / dropLast; `hostlist_find` is
  sound (a reported position holds exactly that name, zero padding and digit-ending prefixes
  included) and never changes a denoted name; `hostlist_uniq` neither loses nor invents a name when
  `hostrange_cmp` orders low bounds as numbers (repaired D26, or all low bounds < 2^31) — FALSE of
  the unchanged code beyond that (witness `uniq_loses_names`, found while proving this).
  Witnesses (`decide`) for the recorded defects on `Cfg.unchanged` and their absence on
  `Cfg.repaired` where a repair exists.
  Proved since: `find_eq_idxOf` (find = first position, small names).
  Proved since: `edit_refines_*` — ONE live iterator refines the plain list + cursor of
  Hostlist/EditSpec.lean under create / next / remove (repaired D19) / reset / shift / pop (repaired
  D20) / push while the iterator has something left.
  Proved since: `edit_refines_multi_*` — ANY finite set of live iterators (state = records + one
  iterator per slot, spec = names + one cursor per slot, relation `RefM`): create / destroy / reset /
  next on one iterator leave the others alone; shift / pop (repaired D19, D20) / push (no iterator at
  the end) move EVERY cursor as the plain list does; uniq resets every iterator.  Method (Hostlist/EditMulti.lean): every structural
  operation re-bases the iterators by ONE rule applied to each (`UnifM`, proved for
  `hostlist_shift_iterators`, `hostlist_delete_range`, `hostlist_shift`, `hostlist_pop`,
  `hostlist_push_range`), so the one-iterator theorem lifts (`RefM.lift`).

  clause of the property                     theorem
  ------------------------------------------ ---------------------------------------------------------
  append / remove first / remove last        push_hosts, shift_hosts, pop_hosts (denotation, any iterators)
  delete by position / name                  deleteNth_hosts; C02.delete_host_exact
  positions returned by lookup               find_sound, find_eq_idxOf (small names); find_miss_big_suffix (F16-BIGSUFFIX)
  counts                                     deleteNth_hosts (.count), uniq_count, Good invariants
  hosts seen by EVERY live iterator          edit_refines_multi_new/_free/_reset/_next/_remove/_shift/_pop/_push/
                                             _push_text/_delete_nth/_delete_host/_find/_uniq/_sort;
                                             one iterator: edit_refines_* (also remove, uniq, push text)
  duplicates removed, none lost              uniq_names, edit_refines_uniq (IF duplicate-free); uniq_keeps_duplicate (F16-UNIQ)

  Proved since (round 2b): `edit_refines_delete_nth` — ONE iterator standing ANYWHERE keeps its place in the
  plain list's terms when `hostlist_delete_nth` takes ANY position away (the repairs of
  F16-DELETE-UNDER-ITERATOR / F16-MULTI, `hostlist_host_deleted`, and of D19), and from it, for ANY finite
  set of live iterators, `edit_refines_multi_delete_nth`, `_find`, `_delete_host` (SMALL name) and
  `_remove` (`hostlist_remove` through one iterator is `hostlist_delete_nth` for all the OTHERS).

  `hostlist_sort` IS in the editable model now (Hostlist/EditSort.lean: `qsort`, reset of every iterator,
  `hostlist_coalesce` with `hostrange_intersect` and the re-insertion of one-host records, `hostlist_collapse`;
  three-way correspondence incl. the record dump).  Proved: the `qsort` step gives a permutation of the
  records in which each compares ≤ its successor (`sort_qsort_sorted`, repaired comparator D26), and with the
  reset it refines the plain list's `sort` for ANY number of live iterators (`edit_refines_multi_sort_reset`).
  Proved since (round 2c): the WHOLE `hostlist_sort` keeps the multiset of hosts, the counter and the
  well-formedness of the records (`sort_keeps_hosts`: one round of `hostlist_coalesce` rewrites [A..B], [C..D]
  into [A..C], one-host records, [M..max] with the same numbers and multiplicities, `hostlist_collapse` joins
  what continues), leaves every (reset) iterator where it is, and so refines the plain list's `sort` for ANY
  number of live iterators: `edit_refines_multi_sort`.
  Not proved: duplicate-freedom after `uniq` (false: F16-UNIQ; true under a hypothesis that excludes mixed
  widths AND digit-ending prefixes — not proved).
  A push while the iterator stands AT THE END: `edit_refines_push_inside` (one iterator; `Inside` = it stands
  on a record that exists — what the repaired F16-ENDPUSH keeps true when `hostlist_next` answers NULL,
  `edit_refines_next_inside`), `edit_refines_push_end_next` (the next `hostlist_next` hands out the first
  new host); `Inside` is carried through next / create / reset / push / remove (`edit_refines_remove_inside`;
  while the list is not empty) — not through shift / pop / delete, and for one iterator only.
-/
import PdshVerif.Hostlist.LemmasFind
import PdshVerif.Hostlist.LemmasUniq
import PdshVerif.Hostlist.LemmasFindFirst
import PdshVerif.Hostlist.EditRefine
import PdshVerif.Hostlist.EditRefineText
import PdshVerif.Hostlist.EditRefineUniq
import PdshVerif.Hostlist.EditMultiKeyed
import PdshVerif.Hostlist.EditMultiUniq
import PdshVerif.Hostlist.EditMultiRemove2
import PdshVerif.Hostlist.EditPushEnd
import PdshVerif.Hostlist.EditSortRefine
import PdshVerif.Hostlist.EditMultiText
import PdshVerif.Hostlist.EditSortFull

namespace PdshVerif.C16
open PdshVerif.Hostlist PdshVerif.Gen

/-- PUSH: `hostlist_push_range` on the editable list appends exactly the hosts of the pushed record
    (record identities and iterators play no part in the denotation) -/
theorem push_hosts (e : EL) (r : HRange) (hg : e.Good) (hr : r.Good) :
    (pushRangeE e r).Good ∧ (pushRangeE e r).hosts = e.hosts ++ r.hosts :=
  pushRangeE_hosts e r hg hr

/-- DELETE BY POSITION: `hostlist_delete_nth(hl, n)` — whether it shrinks a range at an end, splits
    it in two records or drops a one-host record — leaves exactly `hosts.eraseIdx n`, keeps the
    counter right and the records good, with any number of live iterators, in every variant -/
theorem deleteNth_hosts (cfg : Cfg) (e : EL) (n : Nat) (hg : e.Good) (hn : n < e.hosts.length) :
    (deleteNthE cfg e n).Good ∧ (deleteNthE cfg e n).hosts = e.hosts.eraseIdx n ∧
      (deleteNthE cfg e n).count = e.count - 1 := by
  obtain ⟨h1, h2⟩ := deleteNthE_hosts cfg e n hg hn
  exact ⟨h1, h2, (deleteNthE_ranges cfg e n).2⟩

/-- SHIFT: `hostlist_shift` hands out the first denoted host and leaves the rest (live iterators
    or not, every variant; `ShiftFits`: numbers fit the buffer `hostrange_shift` allocates) -/
theorem shift_hosts (cfg : Cfg) (e : EL) (hg : e.Good) (hf : ∀ r ∈ e.ranges, r.ShiftFits) :
    ∃ e', shiftE cfg e = .ok (e.hosts.head?, e') ∧ e'.hosts = e.hosts.tail ∧ e'.Good :=
  shiftE_hosts cfg e hg hf

/-- POP: `hostlist_pop` hands out the last denoted host and leaves the rest (live iterators or not,
    every variant — D20 is about what the iterators see afterwards) -/
theorem pop_hosts (cfg : Cfg) (e : EL) (hg : e.Good) (hf : ∀ r ∈ e.ranges, r.ShiftFits) :
    ∃ e', popE cfg e = .ok (e.hosts.getLast?, e') ∧ e'.hosts = e.hosts.dropLast ∧ e'.Good :=
  match popE_hosts cfg e hg hf with
  | ⟨e', h1, h2, h3, _⟩ => ⟨e', h1, h2, h3⟩

/-- UNIQ keeps the SET of names: whenever `hostlist_uniq` returns (no assertion failure), every
    name of the list is still there and no name was invented — provided `hostrange_cmp` orders the
    low bounds as numbers: the repaired comparator (D26), or every low bound below 2^31 -/
theorem uniq_names (cfg : Cfg) (e e' : EL) (hg : ∀ r ∈ e.ranges, r.Good)
    (hb : cfg.fixCmpTrunc = true ∨ ∀ r ∈ e.ranges, r.lo < 2147483648) (h : uniqE cfg e = some e') :
    ∀ x, x ∈ e'.hosts ↔ x ∈ e.hosts :=
  (uniqE_names cfg e e' hg hb h).1

/-- D26 witness (found while proving `uniq_names`): `x[0-5],x[2147483653]` — the unchanged
    `hostrange_cmp(x[2147483653], x[0-5])` is `(int)(2147483653 - 0)` = -2147483643 < 0: the big
    record sorts FIRST, passes the order assertion, and `hostrange_join` (h1.hi ≥ h2.hi, "h2 lies
    inside h1") deletes x[0-5]: one host left of seven.  The repaired comparator keeps all seven. -/
theorem uniq_loses_names :
    (match pushE Cfg.unchanged EL.new "x[0-5],x[2147483653]".toList with
     | .ok (_, _, e) => (uniqE Cfg.unchanged e).map fun e' => (e'.nhosts, e'.hosts.map String.ofList)
     | .error _ => none) = some (1, ["x2147483653"]) ∧
    (match pushE Cfg.repaired EL.new "x[0-5],x[2147483653]".toList with
     | .ok (_, _, e) => (uniqE Cfg.repaired e).map fun e' => (e'.nhosts, e'.hosts.length)
     | .error _ => none) = some (7, 7) := by
  decide

/-- FIND is SOUND: when `hostlist_find` reports position i, the i-th denoted host is exactly the
    name looked for (whole-name match: foo1 ≠ foo01, digit-ending prefixes handled by the
    recursion), and the width rewrite it may perform changes no denoted name -/
theorem find_sound (rs : List HRange) (name : Str) (i : Nat) (rs' : List HRange)
    (hg : ∀ r ∈ rs, r.Good) (h : findRanges rs name = (some i, rs')) :
    (hostsL rs)[i]? = some name ∧ hostsL rs' = hostsL rs ∧ (∀ r ∈ rs', r.Good) := by
  have := findLoop_sound name (hostnameCreate name) (hostnameCreate_hnOf name)
    (by rw [hostnameCreate_eq_at]
        exact hostnameCreateAt_pre_len name _ (Nat.le_refl _) (hostPrefix_split name).1)
    rs 0 i rs' hg h
  simpa using this.2

/-- FIND = FIRST POSITION (`find_eq_idxOf`): on good records and for a SMALL name (its whole trailing
    digit run, read as a number, ≤ MAX_HOST_SUFFIX = 2^25) `hostlist_find` answers exactly the plain
    list's answer: the first index holding that name, or -1 when the name is not in the list -/
theorem find_eq_idxOf (rs : List HRange) (name : Str) (hg : ∀ r ∈ rs, r.Good) (hsm : SmallName name) :
    (findRanges rs name).1 = if name ∈ hostsL rs then some ((hostsL rs).idxOf name) else none :=
  findRanges_eq_idxOf rs name hg hsm

/-
  Completeness of find ("every host of the list is found") is FALSE of the code: a numeric tail
  above MAX_HOST_SUFFIX = 2^25 is never split off the name (F16-BIGSUFFIX).
-/
/-- F16-BIGSUFFIX witness: `n[33554430-33554435]` holds n33554433 at position 3, find says -1 -/
theorem find_miss_big_suffix :
    (hostsL [HRange.mk' ['n'] 33554430 33554435 8])[3]? = some "n33554433".toList ∧
    (findRanges [HRange.mk' ['n'] 33554430 33554435 8] "n33554433".toList).1 = none ∧
    (findRanges [HRange.mk' ['n'] 33554430 33554435 8] "n33554431".toList).1 = some 1 := by
  decide

/-! ### `edit_refines`: one live iterator refines the plain list with one cursor

  `Ref cfg e p c fresh`: the editable list `e` (range records with identity, iterator of slot 0 with
  its cached record pointer) stands for the plain list `p` (EditSpec.PL: names + cursor c); `fresh`:
  the last iterator operation was a `hostlist_next` that handed out a host (the contract of
  `hostlist_remove`).  Every theorem: the model's answer IS the plain list's answer and `Ref` holds
  again.  Outside, because FALSE of the code (open findings): a push while the iterator stands at
  the end (F16-ENDPUSH), delete by name / position under a live iterator
  (F16-DELETE-UNDER-ITERATOR), several iterators (F16-MULTI). -/

/-- CREATE -/
theorem edit_refines_new (cfg : Cfg) (e : EL) (hid : e.IdsOk) (hg : e.Good) (hf : ∀ q ∈ e.ranges, q.PrintsFull cfg)
    (hits : e.its = []) : Ref cfg (itNew e 0) (EditSpec.itNew ⟨e.hosts, []⟩ 0) 0 false :=
  new_refines cfg e hid hg hf hits

/-- NEXT: the answer of `hostlist_next` is the name under the cursor (or NULL at the end) -/
theorem edit_refines_next (cfg : Cfg) (e : EL) (p : EditSpec.PL) (c : Nat) (fresh : Bool) (h : Ref cfg e p c fresh) :
    ∃ a p' e' c', EditSpec.itNext p 0 = some (a, p') ∧ itNext cfg e 0 = .ok (a, e') ∧ Ref cfg e' p' c' a.isSome :=
  next_refines cfg e p c fresh h

/-- REMOVE (repaired D19), directly after a `hostlist_next` that handed out a host: exactly that
    list position goes, whether the record shrinks, is split or goes away -/
theorem edit_refines_remove (cfg : Cfg) (hfix : cfg.fixRemoveDepth = true) (e : EL) (p : EditSpec.PL) (c : Nat)
    (h : Ref cfg e p c true) (hc1 : 1 ≤ c) :
    ∃ p' e', EditSpec.itRemove p 0 = some p' ∧ itRemove cfg e 0 = .ok e' ∧ Ref cfg e' p' (c - 1) false :=
  remove_refines cfg hfix e p c h hc1

/-- RESET -/
theorem edit_refines_reset (cfg : Cfg) (e : EL) (p : EditSpec.PL) (c : Nat) (fresh : Bool) (h : Ref cfg e p c fresh) :
    Ref cfg (itReset e 0) (EditSpec.itReset p 0) 0 false :=
  reset_refines cfg e p c fresh h

/-- SHIFT with the iterator live: the first name is handed out, the iterator keeps what it had left -/
theorem edit_refines_shift (cfg : Cfg) (hfix : cfg.fixRemoveDepth = true) (e : EL) (p : EditSpec.PL) (c : Nat)
    (fresh : Bool) (h : Ref cfg e p c fresh) (hf : ∀ r ∈ e.ranges, r.ShiftFits) :
    ∃ e', shiftE cfg e = .ok ((EditSpec.shift p).1, e') ∧
      Ref cfg e' (EditSpec.shift p).2 (if p.names = [] then c else c - 1) false :=
  shift_refines cfg hfix e p c fresh h hf

/-- POP with the iterator live (repaired D20, D19): the last name is handed out; an iterator that
    stood on it stands at the end afterwards -/
theorem edit_refines_pop (cfg : Cfg) (hD19 : cfg.fixRemoveDepth = true) (hD20 : cfg.fixPopIter = true) (e : EL)
    (p : EditSpec.PL) (c : Nat) (fresh : Bool) (h : Ref cfg e p c fresh) (hf : ∀ r ∈ e.ranges, r.ShiftFits) :
    ∃ e', popE cfg e = .ok ((EditSpec.pop p).1, e') ∧
      Ref cfg e' (EditSpec.pop p).2
        (if p.names = [] then c else if c = p.names.length then c - 1 else c) false :=
  pop_refines cfg hD19 hD20 e p c fresh h hf

/-- PUSH while the iterator has something left (appended or joined to the last record): the
    iterator will reach the new hosts (D17 repaired so that joined records print in full) -/
theorem edit_refines_push (cfg : Cfg) (hfs : cfg.fixIterSuffix = true) (e : EL) (p : EditSpec.PL) (c : Nat)
    (fresh : Bool) (h : Ref cfg e p c fresh) (r : HRange) (hr : r.Good) (hnotend : c < p.names.length) :
    Ref cfg (pushRangeE e r) { p with names := p.names ++ r.hosts } c false :=
  push_refines cfg hfs e p c fresh h r hr hnotend

/-- PUSH, operation TEXT level: `hostlist_push(hl, "expr")` on the text of a well-formed expression
    (words `pre[lo-hi,..]suffix` or plain names, any separators; C01's parser theorem) while the
    iterator has something left: the answer is the number of hosts of the mathematical expansion
    `expand₁`, the list grows by exactly these names and the iterator will reach them.
    `hx` (optional reading): when the specification's own reader `exprHosts` gives this expansion for
    the text — checked by execution in C01/C15, `Lean string-level spec vs AST-level expander` — this
    is `EditSpec.push`. -/
theorem edit_refines_push_text (cfg : Cfg) (hfs : cfg.fixIterSuffix = true) (e : EL) (p : EditSpec.PL) (c : Nat)
    (fresh : Bool) (h : Ref cfg e p c fresh) (hlt : c < p.names.length)
    (lead : Str) (items : List (Spec.Word × Str))
    (hl : lead.all Spec.sepChar = true) (hok : Spec.sepsOK items = true)
    (hw : ∀ q ∈ items, q.1.WF = true) (hd : ∀ q ∈ items, wordDom cfg q.1) :
    ∃ e', pushE cfg e (Spec.render lead items) =
        .ok (((Spec.expand₁ (items.map (·.1))).length : Int), .none, e') ∧
      Ref cfg e' { p with names := p.names ++ Spec.expand₁ (items.map (·.1)) } c false ∧
      (EditSpec.exprHosts (Spec.render lead items) = some (Spec.expand₁ (items.map (·.1))) →
        EditSpec.push p (Spec.render lead items) =
          ((Spec.expand₁ (items.map (·.1))).length, { p with names := p.names ++ Spec.expand₁ (items.map (·.1)) })) := by
  obtain ⟨e', h1, h2⟩ := push_text_refines cfg hfs e p c fresh h hlt lead items hl hok hw hd
  refine ⟨e', h1, h2, ?_⟩
  intro hx
  unfold EditSpec.push
  rw [hx]

/-- UNIQ with the iterator live: whatever list `hostlist_uniq` leaves, IF it is free of duplicates
    (the open finding F16-UNIQ is exactly the case where it is not: mixed widths, digit-ending
    prefixes), it is an admissible result for the plain list — every distinct name once, none lost,
    none invented — the counter is right and the iterator starts over at the first host.
    `hreset`: F16-UNIQ-NORESET repaired, or the list has at least two records; `hb`: D26 repaired or
    low bounds below 2^31; fewer than 2^31 hosts (`int` counters). -/
theorem edit_refines_uniq (cfg : Cfg) (hfs : cfg.fixIterSuffix = true) (e : EL) (p : EditSpec.PL) (c : Nat)
    (fresh : Bool) (h : Ref cfg e p c fresh)
    (hb : cfg.fixCmpTrunc = true ∨ ∀ r ∈ e.ranges, r.lo < 2147483648) (hsm : e.hosts.length < 2147483648)
    (hreset : cfg.fixUniqReset = true ∨ 2 ≤ e.rs.length)
    (e' : EL) (hu : uniqE cfg e = some e') (hnd : e'.hosts.Nodup) :
    EditSpec.uniq p e'.hosts = some ⟨e'.hosts, [(0, 0)]⟩ ∧ Ref cfg e' ⟨e'.hosts, [(0, 0)]⟩ 0 false :=
  uniq_refines cfg hfs e p c fresh h hb hsm hreset e' hu hnd

/-- `hostlist_uniq` keeps the counter and the record identities right (any list, any iterators) -/
theorem uniq_count (cfg : Cfg) (e e' : EL) (hg : e.Good) (hid : e.IdsOk)
    (hb : cfg.fixCmpTrunc = true ∨ ∀ r ∈ e.ranges, r.lo < 2147483648) (hsm : e.hosts.length < 2147483648)
    (h : uniqE cfg e = some e') : e'.nhosts = (e'.hosts.length : Int) ∧ e'.IdsOk :=
  ⟨(uniqE_keep cfg e e' hg hid hb hsm h).1.2, (uniqE_keep cfg e e' hg hid hb hsm h).2⟩

/-! ### a push while the iterator stands at the end (F16-ENDPUSH repaired) -/
/-- PUSH from anywhere INSIDE the list, the end included (`Inside`: the iterator stands on a record that
    exists and not beyond its hosts): the iterator will reach the new hosts, and is still inside -/
theorem edit_refines_push_inside (cfg : Cfg) (hfs : cfg.fixIterSuffix = true) (e : EL) (p : EditSpec.PL) (c : Nat)
    (fresh : Bool) (h : Ref cfg e p c fresh) (hin : Inside e) (r : HRange) (hr : r.Good) :
    Ref cfg (pushRangeE e r) { p with names := p.names ++ r.hosts } c false ∧ Inside (pushRangeE e r) :=
  push_refines_inside cfg hfs e p c fresh h hin r hr

/-- F16-ENDPUSH repaired: `hostlist_next` leaves the iterator inside the list, also when it answers NULL -/
theorem edit_refines_next_inside (cfg : Cfg) (hfx : cfg.fixEndPush = true) (e : EL) (p : EditSpec.PL) (c : Nat)
    (fresh : Bool) (h : Ref cfg e p c fresh) (hin : Inside e) (a : Option Str) (e' : EL)
    (hn : itNext cfg e 0 = .ok (a, e')) : Inside e' :=
  next_keeps_inside cfg hfx e p c fresh h hin a e' hn

/-- `hostlist_remove` (repaired D19) leaves the iterator inside the list, unless the list is empty afterwards -/
theorem edit_refines_remove_inside (cfg : Cfg) (hfix : cfg.fixRemoveDepth = true) (e : EL) (p : EditSpec.PL) (c : Nat)
    (h : Ref cfg e p c true) (e' : EL) (hr : itRemove cfg e 0 = .ok e') : Inside e' ∨ e'.ranges = [] :=
  remove_keeps_inside cfg hfix e p c h e' hr

/-- the iterator ran out, a record is pushed: the next `hostlist_next` hands out its first host -/
theorem edit_refines_push_end_next (cfg : Cfg) (hfs : cfg.fixIterSuffix = true) (e : EL) (p : EditSpec.PL) (c : Nat)
    (fresh : Bool) (h : Ref cfg e p c fresh) (hin : Inside e) (hend : c = p.names.length) (r : HRange) (hr : r.Good) :
    ∃ x e' p', r.hosts.head? = some x ∧ itNext cfg (pushRangeE e r) 0 = .ok (some x, e') ∧ Ref cfg e' p' (c + 1) true := by
  obtain ⟨h1, _⟩ := push_refines_inside cfg hfs e p c fresh h hin r hr
  obtain ⟨a, p', e', c', hs, hn, hr'⟩ := next_refines cfg _ _ c false h1
  have hpos := hr.hosts_pos
  obtain ⟨x, xs, hx⟩ : ∃ x xs, r.hosts = x :: xs := by
    cases hh : r.hosts with
    | nil => rw [hh] at hpos; simp at hpos
    | cons x xs => exact ⟨x, xs, rfl⟩
  have hget : (p.names ++ r.hosts)[c]? = some x := by
    rw [hend, List.getElem?_append_right (Nat.le_refl _), Nat.sub_self, hx]; rfl
  have hgc : EditSpec.getCur ({ p with names := p.names ++ r.hosts } : EditSpec.PL) 0 = some c := by
    unfold EditSpec.getCur; rw [show ({ p with names := p.names ++ r.hosts } : EditSpec.PL).cur = p.cur from rfl, h.cur]; simp
  have hs' : EditSpec.itNext ({ p with names := p.names ++ r.hosts } : EditSpec.PL) 0 =
      some (some x, EditSpec.setCur { p with names := p.names ++ r.hosts } 0 (c + 1)) := by
    unfold EditSpec.itNext; rw [hgc]; simp [hget]
  rw [hs'] at hs
  simp only [Option.some.injEq, Prod.mk.injEq] at hs
  obtain ⟨ha, hp'⟩ := hs
  subst ha
  have hc' : c' = c + 1 := by
    have := hr'.cur
    rw [← hp'] at this
    unfold EditSpec.setCur at this
    rw [show ({ p with names := p.names ++ r.hosts } : EditSpec.PL).cur = p.cur from rfl, h.cur] at this
    simp at this
    omega
  subst hc'
  exact ⟨x, e', p', by rw [hx]; rfl, hn, hr'⟩

/-! ### `edit_refines_multi`: ANY finite set of live iterators refines the plain list with one cursor each

  `RefM cfg e p fr`: slot by slot the iterators of `e` and the cursors of `p` carry the same keys, and
  each iterator, looked at on its own, refines its cursor (`Ref`); `fr k`: the last operation on
  iterator `k` was a `hostlist_next` that handed out a host and nothing has changed the list since. -/

/-- CREATE in a free slot -/
theorem edit_refines_multi_new (cfg : Cfg) (e : EL) (p : EditSpec.PL) (fr : Nat → Bool) (h : RefM cfg e p fr) (k : Nat)
    (hk : k ∉ e.its.map (·.1)) :
    RefM cfg (itNew e k) (EditSpec.itNew p k) (fun j => if j = k then false else fr j) :=
  new_refinesM cfg e p fr h k hk

/-- DESTROY -/
theorem edit_refines_multi_free (cfg : Cfg) (e : EL) (p : EditSpec.PL) (fr : Nat → Bool) (h : RefM cfg e p fr) (k : Nat) :
    RefM cfg (itFree e k) (EditSpec.itFree p k) fr :=
  free_refinesM cfg e p fr h k

/-- RESET of one iterator -/
theorem edit_refines_multi_reset (cfg : Cfg) (e : EL) (p : EditSpec.PL) (fr : Nat → Bool) (h : RefM cfg e p fr) (k : Nat) :
    RefM cfg (itReset e k) (EditSpec.itReset p k) (fun j => if j = k then false else fr j) :=
  reset_refinesM cfg e p fr h k

/-- NEXT on one iterator: the name under ITS cursor; every other iterator keeps its place -/
theorem edit_refines_multi_next (cfg : Cfg) (e : EL) (p : EditSpec.PL) (fr : Nat → Bool) (h : RefM cfg e p fr)
    (k : Nat) (hk : k ∈ e.its.map (·.1)) :
    ∃ a p' e', EditSpec.itNext p k = some (a, p') ∧ itNext cfg e k = .ok (a, e') ∧
      RefM cfg e' p' (fun j => if j = k then a.isSome else fr j) :=
  next_refinesM cfg e p fr h k hk

/-- SHIFT: the first name is handed out, every iterator keeps what it had left -/
theorem edit_refines_multi_shift (cfg : Cfg) (hfix : cfg.fixRemoveDepth = true) (e : EL) (p : EditSpec.PL)
    (fr : Nat → Bool) (h : RefM cfg e p fr) (hf : ∀ r ∈ e.ranges, r.ShiftFits) :
    ∃ e', shiftE cfg e = .ok ((EditSpec.shift p).1, e') ∧ RefM cfg e' (EditSpec.shift p).2 (fun _ => false) :=
  shift_refinesM cfg hfix e p fr h hf

/-- POP (repaired D19, D20): the last name is handed out; iterators that stood behind it stand at the end -/
theorem edit_refines_multi_pop (cfg : Cfg) (hD19 : cfg.fixRemoveDepth = true) (hD20 : cfg.fixPopIter = true) (e : EL)
    (p : EditSpec.PL) (fr : Nat → Bool) (h : RefM cfg e p fr) (hf : ∀ r ∈ e.ranges, r.ShiftFits) :
    ∃ e', popE cfg e = .ok ((EditSpec.pop p).1, e') ∧ RefM cfg e' (EditSpec.pop p).2 (fun _ => false) :=
  pop_refinesM cfg hD19 hD20 e p fr h hf

/-- PUSH while no iterator stands at the end: every iterator will reach the new hosts -/
theorem edit_refines_multi_push (cfg : Cfg) (hfs : cfg.fixIterSuffix = true) (e : EL) (p : EditSpec.PL)
    (fr : Nat → Bool) (h : RefM cfg e p fr) (r : HRange) (hr : r.Good) (hnotend : ∀ b ∈ p.cur, b.2 < p.names.length) :
    RefM cfg (pushRangeE e r) { p with names := p.names ++ r.hosts } (fun _ => false) :=
  push_refinesM cfg hfs e p fr h r hr hnotend

/-- UNIQ: whatever list `hostlist_uniq` leaves, IF it is free of duplicates (F16-UNIQ is the case where it
    is not) it is admissible for the plain list and EVERY iterator starts over (hypotheses as in
    `edit_refines_uniq`) -/
theorem edit_refines_multi_uniq (cfg : Cfg) (hfs : cfg.fixIterSuffix = true) (e : EL) (p : EditSpec.PL) (fr : Nat → Bool)
    (h : RefM cfg e p fr)
    (hb : cfg.fixCmpTrunc = true ∨ ∀ r ∈ e.ranges, r.lo < 2147483648) (hsm : e.hosts.length < 2147483648)
    (hreset : cfg.fixUniqReset = true ∨ 2 ≤ e.rs.length)
    (e' : EL) (hu : uniqE cfg e = some e') (hnd : e'.hosts.Nodup) :
    EditSpec.uniq p e'.hosts = some ⟨e'.hosts, p.cur.map fun (k, _) => (k, 0)⟩ ∧
      RefM cfg e' ⟨e'.hosts, p.cur.map fun (k, _) => (k, 0)⟩ (fun _ => false) :=
  uniq_refinesM cfg hfs e p fr h hb hsm hreset e' hu hnd

/-- DELETE BY POSITION under ONE live iterator standing anywhere (F16-DELETE-UNDER-ITERATOR and D19
    repaired): the cursor moves down by one exactly when the deleted position lay in front of it -/
theorem edit_refines_delete_nth (cfg : Cfg) (hfs : cfg.fixIterSuffix = true) (hD19 : cfg.fixRemoveDepth = true)
    (hID : cfg.fixIterDelete = true) (e : EL) (p : EditSpec.PL) (c : Nat) (fresh : Bool) (h : Ref cfg e p c fresh)
    (n : Nat) (hn : n < p.names.length) :
    Ref cfg (deleteNthE cfg e n) (EditSpec.deleteNth p n) (if c > n then c - 1 else c) false :=
  deleteNth_refines cfg hfs hD19 hID e p c fresh h n hn

/-- DELETE BY POSITION with any number of live iterators: EVERY iterator goes on over the list without
    position n from where it stood -/
theorem edit_refines_multi_delete_nth (cfg : Cfg) (hfs : cfg.fixIterSuffix = true) (hD19 : cfg.fixRemoveDepth = true)
    (hID : cfg.fixIterDelete = true) (e : EL) (p : EditSpec.PL) (fr : Nat → Bool) (h : RefM cfg e p fr)
    (n : Nat) (hn : n < p.names.length) :
    RefM cfg (deleteNthE cfg e n) (EditSpec.deleteNth p n) (fun _ => false) :=
  deleteNth_refinesM cfg hfs hD19 hID e p fr h n hn

/-- FIND with any number of live iterators: no iterator moves (a width may be rewritten in place), and for a
    SMALL name the answer is the plain list's: the first position of the name or -1 -/
theorem edit_refines_multi_find (cfg : Cfg) (hfs : cfg.fixIterSuffix = true) (e : EL) (p : EditSpec.PL)
    (fr : Nat → Bool) (h : RefM cfg e p fr) (x : Str) :
    RefM cfg (findE e x).2 p fr ∧ (SmallName x → (findE e x).1 = EditSpec.find p x) :=
  find_refinesM cfg hfs e p fr h x

/-- DELETE BY NAME with any number of live iterators (SMALL name; F16-BIGSUFFIX is outside): the answer and
    the list are the plain list's — the first occurrence goes — and every iterator follows -/
theorem edit_refines_multi_delete_host (cfg : Cfg) (hfs : cfg.fixIterSuffix = true) (hD19 : cfg.fixRemoveDepth = true)
    (hID : cfg.fixIterDelete = true) (e : EL) (p : EditSpec.PL) (fr : Nat → Bool) (h : RefM cfg e p fr)
    (x : Str) (hsm : SmallName x) :
    (deleteHostE cfg e x).1 = ((EditSpec.deleteHost p x).1 : Int) ∧
      RefM cfg (deleteHostE cfg e x).2 (EditSpec.deleteHost p x).2 (fun k => (EditSpec.find p x).isNone && fr k) :=
  deleteHost_refinesM cfg hfs hD19 hID e p fr h x hsm

/-- REMOVE through iterator k, directly after a `hostlist_next` on k that handed out a host, with any
    number of OTHER live iterators (F16-MULTI repaired): exactly that list position goes, iterator k goes
    on with what it had left, and every other iterator keeps its place in the plain list's terms -/
theorem edit_refines_multi_remove (cfg : Cfg) (hfs : cfg.fixIterSuffix = true) (hD19 : cfg.fixRemoveDepth = true)
    (hID : cfg.fixIterDelete = true) (e : EL) (p : EditSpec.PL) (fr : Nat → Bool) (h : RefM cfg e p fr)
    (k : Nat) (hk : k ∈ e.its.map (·.1)) (hfresh : fr k = true) :
    ∃ p' e', EditSpec.itRemove p k = some p' ∧ itRemove cfg e k = .ok e' ∧ RefM cfg e' p' (fun _ => false) :=
  remove_refinesM cfg hfs hD19 hID e p fr h k hk hfresh

/-- PUSH, operation TEXT level, any number of live iterators (none at the end): `hostlist_push(hl, "expr")`
    on the text of a well-formed expression answers the size of the mathematical expansion `expand₁`, the
    list grows by exactly these names and every iterator will reach them -/
theorem edit_refines_multi_push_text (cfg : Cfg) (hfs : cfg.fixIterSuffix = true) (e : EL) (p : EditSpec.PL)
    (fr : Nat → Bool) (h : RefM cfg e p fr) (hlt : ∀ b ∈ p.cur, b.2 < p.names.length)
    (lead : Str) (items : List (Spec.Word × Str))
    (hl : lead.all Spec.sepChar = true) (hok : Spec.sepsOK items = true)
    (hw : ∀ q ∈ items, q.1.WF = true) (hd : ∀ q ∈ items, wordDom cfg q.1) :
    ∃ e', pushE cfg e (Spec.render lead items) =
        .ok (((Spec.expand₁ (items.map (·.1))).length : Int), .none, e') ∧
      RefM cfg e' { p with names := p.names ++ Spec.expand₁ (items.map (·.1)) } (fun _ => false) :=
  push_text_refinesM cfg hfs e p fr h hlt lead items hl hok hw hd

/-- the empty list without iterators is in the relation (so is everything the operations above reach) -/
theorem edit_refines_multi_init (cfg : Cfg) : RefM cfg EL.new EditSpec.PL.new (fun _ => false) := by
  refine ⟨?_, List.nodup_nil, .nil⟩
  have := edit_refines_new cfg EL.new ⟨List.nodup_nil, (by intro o ho; cases ho)⟩ ⟨(by intro r hr; cases hr), rfl⟩
    (by intro q hq; cases hq) rfl
  exact this

/-- non-vacuity: two iterators on `a[1-3]` (pushed into the empty list), both advanced, a shift under them -/
example (cfg : Cfg) (hfs : cfg.fixIterSuffix = true) (hfix : cfg.fixRemoveDepth = true) :
    ∃ e p fr, RefM cfg e p fr ∧ e.its.length = 2 ∧ p.names.length = 2 := by
  have h0 := edit_refines_multi_init cfg
  have hg : (HRange.mk' ['a'] 1 3 1).Good := by decide
  have h1 := edit_refines_multi_push cfg hfs _ _ _ h0 (HRange.mk' ['a'] 1 3 1) hg (by intro b hb; cases hb)
  have h2 := edit_refines_multi_new cfg _ _ _ h1 0 (by decide)
  have h3 := edit_refines_multi_new cfg _ _ _ h2 1 (by decide)
  obtain ⟨e', _, h4⟩ := edit_refines_multi_shift cfg hfix _ _ _ h3 (by intro r hr; revert r hr; decide)
  refine ⟨e', _, _, h4, ?_, ?_⟩
  · have := All2.keys (fun a b hab => hab.1) h4.each
    have hl := congrArg List.length this
    simp only [List.length_map] at hl
    rw [hl]; rfl
  · rfl

/-- non-vacuity of the delete / remove theorems: two iterators on `a[1-3]`, iterator 0 hands out a host and
    removes it while iterator 1 is live, then position 0 is deleted under both -/
example (cfg : Cfg) (hfs : cfg.fixIterSuffix = true) (hfix : cfg.fixRemoveDepth = true) (hID : cfg.fixIterDelete = true) :
    ∃ e p fr, RefM cfg e p fr ∧ p.names.length = 1 ∧ p.cur.length = 2 := by
  have h0 := edit_refines_multi_init cfg
  have hg : (HRange.mk' ['a'] 1 3 1).Good := by decide
  have h1 := edit_refines_multi_push cfg hfs _ _ _ h0 (HRange.mk' ['a'] 1 3 1) hg (by intro b hb; cases hb)
  have h2 := edit_refines_multi_new cfg _ _ _ h1 0 (by decide)
  have h3 := edit_refines_multi_new cfg _ _ _ h2 1 (by decide)
  obtain ⟨a, p4, e4, hs4, _, h4⟩ := edit_refines_multi_next cfg _ _ _ h3 0 (by decide)
  have hP : EditSpec.itNext (EditSpec.itNew (EditSpec.itNew
      { EditSpec.PL.new with names := EditSpec.PL.new.names ++ (HRange.mk' ['a'] 1 3 1).hosts } 0) 1) 0 =
      some (some "a1".toList, ⟨["a1".toList, "a2".toList, "a3".toList], [(1, 0), (0, 1)]⟩) := by decide
  rw [hP] at hs4
  simp only [Option.some.injEq, Prod.mk.injEq] at hs4
  obtain ⟨ha, hp4⟩ := hs4
  subst ha; subst hp4
  have hk4 : 0 ∈ e4.its.map (·.1) := by
    rw [All2.keys (fun a b hab => hab.1) h4.each]; decide
  obtain ⟨p5, e5, hs5, _, h5⟩ := edit_refines_multi_remove cfg hfs hfix hID _ _ _ h4 0 hk4 (by simp)
  have hR : EditSpec.itRemove ⟨["a1".toList, "a2".toList, "a3".toList], [(1, 0), (0, 1)]⟩ 0 =
      some ⟨["a2".toList, "a3".toList], [(1, 0), (0, 0)]⟩ := by decide
  rw [hR] at hs5
  simp only [Option.some.injEq] at hs5
  subst hs5
  have h6 := edit_refines_multi_delete_nth cfg hfs hfix hID _ _ _ h5 0 (by decide)
  exact ⟨_, _, _, h6, rfl, rfl⟩

/-! ### `hostlist_sort` -/
/-- the `qsort` step of `hostlist_sort` / `hostlist_uniq` with the REPAIRED comparator (D26): a permutation
    of the records in which every record compares ≤ its successor by `hostrange_cmp` (what the `assert` of
    `hostrange_join` relies on) -/
theorem sort_qsort_sorted (cfg : Cfg) (hfix : cfg.fixCmpTrunc = true) (rs : List RObj) :
    (sortRanges cfg rs).Perm rs ∧ AdjOrdered cfg (sortRanges cfg rs) :=
  sortRanges_sorted cfg hfix rs

/-- `hostlist_sort` up to `hostlist_coalesce`, any number of live iterators: the same names with the same
    multiplicities (admissible for the plain list's `sort`) and EVERY iterator starts over -/
theorem edit_refines_multi_sort_reset (cfg : Cfg) (hfs : cfg.fixIterSuffix = true) (e : EL) (p : EditSpec.PL)
    (fr : Nat → Bool) (h : RefM cfg e p fr) :
    EditSpec.sort p (sortReset cfg e).hosts = some ⟨(sortReset cfg e).hosts, p.cur.map fun (k, _) => (k, 0)⟩ ∧
      RefM cfg (sortReset cfg e) ⟨(sortReset cfg e).hosts, p.cur.map fun (k, _) => (k, 0)⟩ (fun _ => false) :=
  sortReset_refinesM cfg hfs e p fr h

/-- `hostlist_sort` as a whole (`qsort`, `hostlist_coalesce`, `hostlist_collapse`): the same hosts with the
    same multiplicities, the counter untouched, every record well formed — whenever it returns (the model's
    only failure is the freed-record read that the repaired `hostrange_intersect` excludes) -/
theorem sort_keeps_hosts (cfg : Cfg) (e e' : EL) (hg : e.Good) (h : sortE cfg e = .ok e') :
    e'.hosts.Perm e.hosts ∧ e'.nhosts = e.nhosts ∧ e'.Good :=
  sortE_hosts cfg e e' hg h

/-- the WHOLE `hostlist_sort` with any number of live iterators: an admissible result for the plain list's
    `sort` (same names, same multiplicities) and EVERY iterator starts over at the first host -/
theorem edit_refines_multi_sort (cfg : Cfg) (hfs : cfg.fixIterSuffix = true) (e : EL) (p : EditSpec.PL)
    (fr : Nat → Bool) (h : RefM cfg e p fr) (e' : EL) (hs : sortE cfg e = .ok e') :
    EditSpec.sort p e'.hosts = some ⟨e'.hosts, p.cur.map fun (k, _) => (k, 0)⟩ ∧
      RefM cfg e' ⟨e'.hosts, p.cur.map fun (k, _) => (k, 0)⟩ (fun _ => false) :=
  sort_refinesM cfg hfs e p fr h e' hs

/-- `a[5-9],a[1-6]` sorted: `hostlist_coalesce` cuts the overlap a5, a6 out and re-inserts it as one-host
    records, `hostlist_collapse` joins what continues: `a[1-5]`, `a5`, `a[6]`.. — 11 hosts before and after -/
theorem sort_coalesce_witness :
    (match pushE Cfg.repaired EL.new "a[5-9],a[1-6]".toList with
     | .ok (_, _, e) =>
       (match sortE Cfg.repaired e with
        | .ok e' => some (e'.nhosts, e'.hosts.map String.ofList)
        | .error _ => none)
     | .error _ => none) =
      some (11, ["a1", "a2", "a3", "a4", "a5", "a5", "a6", "a6", "a7", "a8", "a9"]) := by
  decide

/-! ### iterator scenarios (the recorded defects and their repairs) -/
/-- run `hostlist_next` n times on iterator k -/
def nexts (cfg : Cfg) : Nat → EL → Nat → EM (List (Option Str) × EL)
  | 0, e, _ => .ok ([], e)
  | n + 1, e, k =>
    match itNext cfg e k with
    | .error w => .error w
    | .ok (x, e1) =>
      match nexts cfg n e1 k with
      | .error w => .error w
      | .ok (xs, e2) => .ok (x :: xs, e2)

def strs (xs : List (Option Str)) : List String := xs.map fun | some x => String.ofList x | none => "NULL"

/-- what a scenario shows: the names, or the undefined behaviour it runs into -/
def shown : EM (List String) → List String
  | .ok xs => xs
  | .error w => ["UB: " ++ w]

/-- `a[1-3],b,c`: iterate to b, remove it, go on -/
def scenarioD19 (cfg : Cfg) : EM (List String) := do
  let (_, _, e) ← pushE cfg EL.new "a[1-3],b,c".toList
  let e := itNew e 0
  let (_, e) ← nexts cfg 4 e 0
  let e ← itRemove cfg e 0
  let (xs, _) ← nexts cfg 3 e 0
  pure (strs xs)

/-- D19: the unchanged code walks a2, a3 again; the repaired one goes on with c -/
theorem d19_witness :
    shown (scenarioD19 Cfg.unchanged) = ["a2", "a3", "c"] ∧
    shown (scenarioD19 Cfg.repaired) = ["c", "NULL", "NULL"] := by
  decide

/-- `x,y`: iterate to y, pop, push z, next -/
def scenarioD20 (cfg : Cfg) : EM (List String) := do
  let (_, _, e) ← pushE cfg EL.new "x,y".toList
  let e := itNew e 0
  let (_, e) ← nexts cfg 2 e 0
  let (_, e) ← popE cfg e
  let (_, _, e) ← pushE cfg e "z".toList
  let (xs, _) ← nexts cfg 2 e 0
  pure (strs xs)

/-- D20: the unchanged code reads the freed record; the repaired one yields z -/
theorem d20_witness :
    shown (scenarioD20 Cfg.unchanged) = ["UB: freed range record dereferenced"] ∧
    shown (scenarioD20 Cfg.repaired) = ["z", "NULL"] := by
  decide

/-- push on an empty list with an iterator; run to the end, push a host that joins the last record;
    pop the host the iterator stands on and push it again -/
def scenarioEndPush (cfg : Cfg) : EM (List String) := do
  let e := itNew EL.new 0
  let (_, _, e) ← pushE cfg e "z".toList
  let (xs, e) ← nexts cfg 2 e 0
  let (_, _, e) ← pushE cfg e "a[1-2]".toList
  let (ys, e) ← nexts cfg 3 e 0
  let (_, _, e) ← pushE cfg e "a3".toList
  let (zs, e) ← nexts cfg 1 e 0
  let (_, e) ← popE cfg e
  let (_, _, e) ← pushE cfg e "a3".toList
  let (ws, _) ← nexts cfg 2 e 0
  pure (strs (xs ++ ys ++ zs ++ ws))

/-- F16-ENDPUSH: as found, an iterator created on an empty list (or run to the end) dereferences
    NULL after a push that appends a record; repaired (findings/C16-ENDPUSH.patch), it hands out
    every host pushed after it ran out, each once -/
theorem endpush_witness :
    shown (scenarioEndPush { Cfg.repaired with fixEndPush := false }) = ["UB: NULL range pointer dereferenced"] ∧
    shown (scenarioEndPush Cfg.repaired) = ["z", "NULL", "a1", "a2", "NULL", "a3", "a3", "NULL"] := by
  decide

/-- `a[1-4]`: one `hostlist_next`, `hostlist_uniq`, one more -/
def scenarioUniqReset (cfg : Cfg) : EM (List String) := do
  let (_, _, e) ← pushE cfg EL.new "a[1-4]".toList
  let e := itNew e 0
  let (_, e) ← nexts cfg 1 e 0
  match uniqE cfg e with
  | none => .error "assert"
  | some e =>
    let (xs, _) ← nexts cfg 1 e 0
    pure (strs xs)

/-- F16-UNIQ-NORESET: as found the iterator of a one-record list goes on (a2) although every other
    `hostlist_uniq` restarts it; repaired (findings/C16-UNIQ-NORESET.patch) it starts over (a1) -/
theorem uniq_noreset_witness :
    shown (scenarioUniqReset { Cfg.repaired with fixUniqReset := false }) = ["a2"] ∧
    shown (scenarioUniqReset Cfg.repaired) = ["a1"] := by
  decide

/-- `a[1-5]`, it_next (a1), delete position 0, it_next -/
def scenarioIterDelete (cfg : Cfg) : EM (List String) := do
  let (_, _, e) ← pushE cfg EL.new "a[1-5]".toList
  let e := itNew e 0
  let (_, e) ← nexts cfg 1 e 0
  let e := deleteNthE cfg e 0
  let (xs, _) ← nexts cfg 1 e 0
  pure (strs xs ++ ["| list:"] ++ e.hosts.map String.ofList)

/-- F16-DELETE-UNDER-ITERATOR: as found the iterator skips a2 (the list says a2 is next); repaired
    (findings/C16-ITER-DELETE.patch) it yields a2 -/
theorem delete_under_iterator_witness :
    shown (scenarioIterDelete { Cfg.repaired with fixIterDelete := false }) = ["a3", "| list:", "a2", "a3", "a4", "a5"] ∧
    shown (scenarioIterDelete Cfg.repaired) = ["a2", "| list:", "a2", "a3", "a4", "a5"] := by
  decide

/-- `a[1-9]`: iterator 0 to a3, iterator 1 to a6, `hostlist_remove` through iterator 0 (the record is
    split under iterator 1), then iterator 1 goes on -/
def scenarioMulti (cfg : Cfg) : EM (List String) := do
  let (_, _, e) ← pushE cfg EL.new "a[1-9]".toList
  let e := itNew (itNew e 0) 1
  let (_, e) ← nexts cfg 3 e 0
  let (_, e) ← nexts cfg 6 e 1
  let e ← itRemove cfg e 0
  let (xs, _) ← nexts cfg 2 e 1
  pure (strs xs)

/-- F16-MULTI: as found the second iterator starts the upper part again (a4, a5 — it had already
    handed out up to a6); repaired it goes on with a7, a8 -/
theorem multi_witness :
    shown (scenarioMulti { Cfg.repaired with fixIterDelete := false }) = ["a4", "a5"] ∧
    shown (scenarioMulti Cfg.repaired) = ["a7", "a8"] := by
  decide

/-- F16-UNIQ witness: `foo[5-10],foo[06-10]` keeps foo10 twice (and 11 hosts) -/
theorem uniq_keeps_duplicate :
    (match pushE Cfg.repaired EL.new "foo[5-10],foo[06-10]".toList with
     | .ok (_, _, e) => (uniqE Cfg.repaired e).map fun e' => (e'.nhosts, (e'.hosts.map String.ofList).count "foo10")
     | .error _ => none) = some (11, 2) := by
  decide

end PdshVerif.C16
